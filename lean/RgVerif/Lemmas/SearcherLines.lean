import RgVerif.Model.Lines
import RgVerif.Spec.Grep
/-
Lemmas about `Model/Lines.lean`: structure of `splitLines`, what `LineStep` yields on a buffer made of
lines, `preceding`, `count`, `locate`.
-/
namespace RgVerif.Lines
open RgVerif RgVerif.Matcher RgVerif.GrepSpec

/-! ### find / rfind -/

theorem findByte_none {t : Nat} {l : Bytes} (h : t ∉ l) : findByte t l = none := by
  induction l with
  | nil => rfl
  | cons b r ih =>
    have hb : b ≠ t := by intro hb; apply h; simp [hb]
    have hr : t ∉ r := by intro hr; apply h; simp [hr]
    simp [findByte, hb, ih hr]

theorem findByte_term {t : Nat} {body : Bytes} (rest : Bytes) (h : t ∉ body) :
    findByte t (body ++ t :: rest) = some body.length := by
  induction body with
  | nil => simp [findByte]
  | cons b r ih =>
    have hb : b ≠ t := by intro hb; apply h; simp [hb]
    have hr : t ∉ r := by intro hr; apply h; simp [hr]
    simp [findByte, hb, ih hr]

theorem rfindByte_none {t : Nat} {l : Bytes} (h : t ∉ l) : rfindByte t l = none := by
  induction l with
  | nil => rfl
  | cons b r ih =>
    have hb : b ≠ t := by intro hb; apply h; simp [hb]
    have hr : t ∉ r := by intro hr; apply h; simp [hr]
    simp [rfindByte, hb, ih hr]

theorem rfindByte_term {t : Nat} (pre : Bytes) {body : Bytes} (h : t ∉ body) :
    rfindByte t (pre ++ t :: body) = some pre.length := by
  induction pre with
  | nil => simp [rfindByte, rfindByte_none h]
  | cons b r ih => simp [rfindByte, ih]

/-! ### Lines -/

/-- a terminated line: a body without `t`, then `t` -/
def Term (t : Nat) (l : Bytes) : Prop := ∃ body, l = body ++ [t] ∧ t ∉ body
/-- an unterminated line: non-empty, no `t` -/
def Unterm (t : Nat) (l : Bytes) : Prop := l ≠ [] ∧ t ∉ l

/-- all lines terminated except possibly the last one -/
inductive GoodLines (t : Nat) : List Bytes → Prop
  | nil : GoodLines t []
  | last (l : Bytes) : Unterm t l → GoodLines t [l]
  | cons (l : Bytes) (ls : List Bytes) : Term t l → GoodLines t ls → GoodLines t (l :: ls)

theorem Term.ne_nil {t l} (h : Term t l) : l ≠ [] := by
  obtain ⟨b, rfl, _⟩ := h; simp

theorem Term.length_pos {t l} (h : Term t l) : 0 < l.length := by
  obtain ⟨b, rfl, _⟩ := h; simp

theorem splitLines_flatten (t : Nat) (bs : Bytes) : (splitLines t bs).flatten = bs := by
  induction bs with
  | nil => rfl
  | cons b r ih =>
    unfold splitLines
    split
    · simp [ih]
    · split
      · rename_i h; rw [h] at ih; simp at ih; simp [ih]
      · rename_i l ls h; rw [h] at ih; simp at ih; simp [ih]

theorem splitLines_good (t : Nat) (bs : Bytes) : GoodLines t (splitLines t bs) := by
  induction bs with
  | nil => exact .nil
  | cons b r ih =>
    unfold splitLines
    split
    · rename_i hb
      have : b = t := by simpa using hb
      subst this
      exact .cons _ _ ⟨[], by simp, by simp⟩ ih
    · rename_i hb
      have hb' : t ≠ b := by intro h; apply hb; simp [h]
      split
      · exact .last _ ⟨by simp, by simp [hb']⟩
      · rename_i l ls h
        rw [h] at ih
        cases ih with
        | last _ hu => exact .last _ ⟨by simp, by simp [hb', hu.2]⟩
        | cons _ _ ht hg =>
          refine .cons _ _ ?_ hg
          obtain ⟨body, rfl, hnb⟩ := ht
          exact ⟨b :: body, by simp, by simp [hb', hnb]⟩


/-! ### The stepper -/

/-- consecutive spans of the given lines starting at offset `o` -/
def spansFrom (o : Nat) : List Bytes → List Span
  | [] => []
  | l :: ls => ⟨o, o + l.length⟩ :: spansFrom (o + l.length) ls

theorem next_term {t : Nat} {buf : Bytes} {e : Nat} (pre l rest : Bytes)
    (hb : buf.take e = pre ++ l ++ rest) (hl : Term t l) :
    LineStep.next ⟨t, pre.length, e⟩ buf
      = some (⟨pre.length, pre.length + l.length⟩, ⟨t, pre.length + l.length, e⟩) := by
  obtain ⟨body, rfl, hnb⟩ := hl
  simp only [LineStep.next, hb]
  have : List.drop pre.length (pre ++ (body ++ [t]) ++ rest) = body ++ t :: rest := by simp
  rw [this, findByte_term rest hnb]
  simp [Nat.add_assoc]

theorem next_unterm {t : Nat} {buf : Bytes} {e : Nat} (pre l : Bytes)
    (hb : buf.take e = pre ++ l) (hl : Unterm t l) :
    LineStep.next ⟨t, pre.length, e⟩ buf
      = some (⟨pre.length, pre.length + l.length⟩, ⟨t, pre.length + l.length, e⟩) := by
  simp only [LineStep.next, hb]
  have : List.drop pre.length (pre ++ l) = l := by simp
  rw [this, findByte_none hl.2]
  have hpos : 0 < l.length := List.length_pos_iff.mpr hl.1
  simp [hpos]

theorem next_done {t : Nat} {buf : Bytes} {e : Nat} (pre : Bytes) (hb : buf.take e = pre) :
    LineStep.next ⟨t, pre.length, e⟩ buf = none := by
  simp [LineStep.next, hb, findByte]

theorem collect_good {t : Nat} {buf : Bytes} {e : Nat} (ls : List Bytes) (hg : GoodLines t ls) :
    ∀ (pre : Bytes) (fuel : Nat), buf.take e = pre ++ ls.flatten → ls.length < fuel →
      LineStep.collect buf fuel ⟨t, pre.length, e⟩ = spansFrom pre.length ls := by
  induction hg with
  | nil =>
    intro pre fuel hb hf
    cases fuel with
    | zero => omega
    | succ f => simp [LineStep.collect, next_done pre (by simpa using hb), spansFrom]
  | last l hu =>
    intro pre fuel hb hf
    cases fuel with
    | zero => omega
    | succ f =>
      have hb' : buf.take e = pre ++ l := by simpa using hb
      cases f with
      | zero => simp at hf
      | succ f' =>
        have hd : buf.take e = pre ++ l := hb'
        have := next_done (t := t) (buf := buf) (e := e) (pre ++ l) hd
        simp only [List.length_append] at this
        simp [LineStep.collect, next_unterm pre l hb' hu, spansFrom, this]
  | cons l ls ht _ ih =>
    intro pre fuel hb hf
    cases fuel with
    | zero => omega
    | succ f =>
      have hb' : buf.take e = pre ++ l ++ ls.flatten := by simpa using hb
      have ih' := ih (pre ++ l) f (by simpa using hb) (by simp at hf; omega)
      simp only [List.length_append] at ih'
      simp [LineStep.collect, next_term pre l ls.flatten hb' ht, spansFrom, ih']

theorem GoodLines.length_le {t : Nat} {ls : List Bytes} (hg : GoodLines t ls) : ls.length ≤ ls.flatten.length := by
  induction hg with
  | nil => simp
  | last l hu =>
    have : 0 < l.length := List.length_pos_iff.mpr hu.1
    simp; omega
  | cons l ls ht _ ih =>
    have := ht.length_pos
    simp only [List.flatten_cons, List.length_append, List.length_cons]; omega

/-- What a `while let Some(line) = stepper.next_match(buf)` loop over `[s, e)` sees when that region is
made of the lines `ls`. -/
theorem stepLines_good {t : Nat} {buf : Bytes} (pre : Bytes) (ls : List Bytes) (hg : GoodLines t ls)
    (e : Nat) (hb : buf.take e = pre ++ ls.flatten) (he : e = pre.length + ls.flatten.length) :
    stepLines t buf pre.length e = spansFrom pre.length ls := by
  unfold stepLines
  apply collect_good ls hg pre _ hb
  have := hg.length_le
  omega


/-! ### count / preceding on terminated lines -/

def AllTerm (t : Nat) (ls : List Bytes) : Prop := ∀ l ∈ ls, Term t l

theorem AllTerm.good {t : Nat} {ls : List Bytes} (h : AllTerm t ls) : GoodLines t ls := by
  induction ls with
  | nil => exact .nil
  | cons l ls ih =>
    exact .cons _ _ (h l (by simp)) (ih (fun x hx => h x (by simp [hx])))

theorem count_term {t : Nat} {l : Bytes} (h : Term t l) : count l t = 1 := by
  obtain ⟨body, rfl, hnb⟩ := h
  simp [count, List.count_eq_zero.mpr hnb]

theorem count_allTerm {t : Nat} {ls : List Bytes} (h : AllTerm t ls) : count ls.flatten t = ls.length := by
  induction ls with
  | nil => simp [count]
  | cons l ls ih =>
    have h1 := count_term (h l (by simp))
    have h2 := ih (fun x hx => h x (by simp [hx]))
    simp only [count] at *
    simp [List.count_append, h1, h2]; omega

theorem snoc_cases {α : Type} (l : List α) : l = [] ∨ ∃ i x, l = i ++ [x] := by
  cases h : l.reverse with
  | nil => left; simpa using h
  | cons x r =>
    right
    refine ⟨r.reverse, x, ?_⟩
    have := congrArg List.reverse h
    simpa using this

theorem take_len_app {α : Type} (a b : List α) : (a ++ b).take a.length = a := by simp

theorem flatten_snoc (init : List Bytes) (x : Bytes) : (init ++ [x]).flatten = init.flatten ++ x := by simp

theorem precedingLoop_spec {t : Nat} {bytes : Bytes} :
    ∀ (c : Nat) (ls : List Bytes) (body : Bytes) (pos : Nat), AllTerm t ls → t ∉ body →
      bytes.take pos = ls.flatten ++ body →
      precedingLoop bytes t c pos = ((ls.take (ls.length - c)).flatten).length := by
  intro c
  induction c with
  | zero =>
    intro ls body pos hl hb hp
    rw [precedingLoop, hp]
    rcases snoc_cases ls with rfl | ⟨init, lj, rfl⟩
    · simp [rfindByte_none hb]
    · obtain ⟨bj, rfl, hbj⟩ := hl lj (by simp)
      have e1 : (init ++ [bj ++ [t]]).flatten ++ body = (init.flatten ++ bj) ++ t :: body := by
        rw [flatten_snoc]; simp only [List.append_assoc, List.cons_append, List.nil_append]
      rw [e1, rfindByte_term _ hb, Nat.sub_zero, List.take_length, flatten_snoc]
      simp only [List.length_append, List.length_cons, List.length_nil]; omega
  | succ c ih =>
    intro ls body pos hl hb hp
    rw [precedingLoop, hp]
    rcases snoc_cases ls with rfl | ⟨init, lj, rfl⟩
    · simp [rfindByte_none hb]
    · obtain ⟨bj, rfl, hbj⟩ := hl lj (by simp)
      have e1 : (init ++ [bj ++ [t]]).flatten ++ body = (init.flatten ++ bj) ++ t :: body := by
        rw [flatten_snoc]; simp only [List.append_assoc, List.cons_append, List.nil_append]
      rw [e1, rfindByte_term _ hb]
      have e : (init ++ [bj ++ [t]]).length - (c + 1) = init.length - c := by
        simp only [List.length_append, List.length_cons, List.length_nil]; omega
      rw [e, List.take_append_of_le_length (Nat.sub_le _ _)]
      generalize hP : init.flatten ++ bj = P at *
      simp only
      split
      · rename_i h0
        have h0' : P.length = 0 := by simpa using h0
        have hPn : P = [] := List.length_eq_zero_iff.mp h0'
        rw [hPn] at hP
        have hi : init.flatten = [] := (List.append_eq_nil_iff.mp hP).1
        have hinit : init = [] := by
          cases init with
          | nil => rfl
          | cons a r =>
            have := (hl a (by simp)).ne_nil
            simp only [List.flatten_cons, List.append_eq_nil_iff] at hi; exact absurd hi.1 this
        subst hinit
        simp
      · have hlen : (bytes.take pos).length = P.length + 1 + body.length := by
          rw [hp, e1]; simp only [List.length_append, List.length_cons]; omega
        have hle : P.length ≤ pos := by
          have : (bytes.take pos).length ≤ pos := by rw [List.length_take]; omega
          omega
        have htake : bytes.take P.length = init.flatten ++ bj := by
          have h1 : bytes.take P.length = (bytes.take pos).take P.length := by
            rw [List.take_take, Nat.min_eq_left hle]
          rw [h1, hp, e1, take_len_app, hP]
        exact ih init bj _ (fun x hx => hl x (by simp [hx])) hbj htake

/-- `preceding` on a block of `k ≥ 1` terminated lines: the offset of the line `count` lines before the last. -/
theorem preceding_allTerm {t : Nat} {ls : List Bytes} (h : AllTerm t ls) (hne : ls ≠ []) (c : Nat) :
    preceding ls.flatten t c = ((ls.take (ls.length - 1 - c)).flatten).length := by
  rcases snoc_cases ls with rfl | ⟨init, lj, rfl⟩
  · exact absurd rfl hne
  · obtain ⟨bj, rfl, hbj⟩ := h lj (by simp)
    have e : (init ++ [bj ++ [t]]).length - 1 - c = init.length - c := by
      simp only [List.length_append, List.length_cons, List.length_nil]; omega
    rw [e, List.take_append_of_le_length (Nat.sub_le _ _)]
    have e1 : (init ++ [bj ++ [t]]).flatten = (init.flatten ++ bj) ++ [t] := by
      rw [flatten_snoc]; simp only [List.append_assoc]
    have hspec := fun pos hp => precedingLoop_spec (t := t) (bytes := (init ++ [bj ++ [t]]).flatten) c init bj pos
      (fun x hx => h x (by simp [hx])) hbj hp
    unfold preceding precedingByPos
    rw [e1] at hspec ⊢
    generalize init.flatten ++ bj = P at *
    have hl : (P ++ [t]).length = P.length + 1 := by simp
    rw [hl]
    have hget : (P ++ [t])[P.length + 1 - 1]? = some t := by simp
    rw [hget]
    simp only [Nat.add_one_ne_zero, beq_iff_eq, ↓reduceIte, Nat.add_sub_cancel]
    exact hspec _ (take_len_app P [t])

end RgVerif.Lines
