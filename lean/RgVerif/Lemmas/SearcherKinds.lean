import RgVerif.Spec.Grep
/-
Pure facts about the grep model: how the kind of a line follows from what a scan knows
(`Unsel`: a stretch of unselected lines; `AclOK`: the meaning of `after_context_left`).
-/
namespace RgVerif.GrepSpec
open RgVerif RgVerif.Searcher

/-- the lines `[v, p)` are unselected -/
def Unsel (sl : List SLine) (v p : Nat) : Prop := ∀ j, v ≤ j → j < p → selAt sl j = false

/-- `acl` after-context lines are still owed from line `v` on: for every line `j ≥ v` reached through
unselected lines, `j` lies in the after-window of an earlier match iff `j < v + acl`. -/
def AclOK (A : Nat) (sl : List SLine) (v acl : Nat) : Prop :=
  ∀ j, v ≤ j → Unsel sl v j → (afterWin A sl j = true ↔ j < v + acl)

theorem afterWin_iff {A : Nat} {sl : List SLine} {j : Nat} :
    afterWin A sl j = true ↔ ∃ j', j' < j ∧ selAt sl j' = true ∧ j - j' ≤ A := by
  simp [afterWin, List.any_eq_true, and_assoc]

theorem beforeWin_iff {B : Nat} {sl : List SLine} {j : Nat} :
    beforeWin B sl j = true ↔ ∃ d, d < B ∧ selAt sl (j + 1 + d) = true := by
  simp [beforeWin, List.any_eq_true]

theorem selAt_ge {sl : List SLine} {j : Nat} (h : sl.length ≤ j) : selAt sl j = false := by
  simp [selAt, List.getElem?_eq_none h]

theorem Unsel.mono {sl : List SLine} {v p v' p' : Nat} (h : Unsel sl v p) (h1 : v ≤ v') (h2 : p' ≤ p) :
    Unsel sl v' p' := fun j a b => h j (by omega) (by omega)

theorem aclOK_init (A : Nat) (sl : List SLine) : AclOK A sl 0 0 := by
  intro j _ hu
  constructor
  · intro h
    obtain ⟨j', h1, h2, _⟩ := afterWin_iff.mp h
    rw [hu j' (by omega) h1] at h2; exact Bool.noConfusion h2
  · intro h; omega

/-- right after a selected line `i`, `A` after-context lines are owed -/
theorem aclOK_match {A : Nat} {sl : List SLine} {i : Nat} (hs : selAt sl i = true) : AclOK A sl (i + 1) A := by
  intro j hj hu
  constructor
  · intro h
    obtain ⟨j', h1, h2, h3⟩ := afterWin_iff.mp h
    have : j' ≤ i := by
      apply Classical.byContradiction; intro hc
      rw [hu j' (by omega) h1] at h2; exact Bool.noConfusion h2
    omega
  · intro h
    exact afterWin_iff.mpr ⟨i, by omega, hs, by omega⟩

/-- after one more unselected line has been passed, one line fewer is owed -/
theorem aclOK_step {A : Nat} {sl : List SLine} {v acl : Nat} (h : AclOK A sl v acl) (hs : selAt sl v = false)
    (hacl : 1 ≤ acl) : AclOK A sl (v + 1) (acl - 1) := by
  intro j hj hu
  have hu' : Unsel sl v j := by
    intro j' h1 h2
    by_cases hv : j' = v
    · subst hv; exact hs
    · exact hu j' (by omega) h2
  rw [h j (by omega) hu']
  omega

/-- nothing owed: moving past unselected lines keeps it that way -/
theorem aclOK_zero_mono {A : Nat} {sl : List SLine} {v v' : Nat} (h : AclOK A sl v 0) (hvv : v ≤ v')
    (hu : Unsel sl v v') : AclOK A sl v' 0 := by
  intro j hj hu2
  have hu' : Unsel sl v j := by
    intro j' h1 h2
    by_cases hv : j' < v'
    · exact hu j' h1 hv
    · exact hu2 j' (by omega) h2
  have := h j (by omega) hu'
  constructor
  · intro ha; have := this.mp ha; omega
  · intro hlt; omega

section
variable {cfg : Config} {sl : List SLine}

theorem kind_matched {j : Nat} (h : selAt sl j = true) : kindAt cfg sl j = some .matched := by
  simp [kindAt, h]

theorem kind_after {v acl j : Nat} (hacl : AclOK cfg.afterContext sl v acl) (hvj : v ≤ j)
    (hu : Unsel sl v (j + 1)) (hlt : j < v + acl) : kindAt cfg sl j = some (.ctx .after) := by
  have h1 : selAt sl j = false := hu j hvj (by omega)
  have h2 : afterWin cfg.afterContext sl j = true := (hacl j hvj (hu.mono (Nat.le_refl _) (by omega))).mpr hlt
  simp [kindAt, h1, h2]

theorem not_afterWin {v acl j : Nat} (hacl : AclOK cfg.afterContext sl v acl) (hvj : v ≤ j)
    (hu : Unsel sl v j) (hge : v + acl ≤ j) : afterWin cfg.afterContext sl j = false := by
  rw [Bool.eq_false_iff]
  intro h
  have := (hacl j hvj hu).mp h
  omega

theorem kind_other {v acl j : Nat} (hacl : AclOK cfg.afterContext sl v acl) (hvj : v ≤ j)
    (hu : Unsel sl v (j + 1)) (hge : v + acl ≤ j) (hp : cfg.passthru = true) :
    kindAt cfg sl j = some (.ctx .other) := by
  have h1 : selAt sl j = false := hu j hvj (by omega)
  have h2 := not_afterWin hacl hvj (hu.mono (Nat.le_refl _) (by omega)) hge
  simp [kindAt, h1, h2, hp]

/-- an unselected line outside every after-window with a selected line `i` at most `B` lines ahead -/
theorem kind_before {v acl j i : Nat} (hacl : AclOK cfg.afterContext sl v acl) (hvj : v ≤ j)
    (hu : Unsel sl v (j + 1)) (hge : v + acl ≤ j) (hp : cfg.passthru = false)
    (hji : j < i) (hi : selAt sl i = true) (hB : i ≤ j + cfg.beforeContext) :
    kindAt cfg sl j = some (.ctx .before) := by
  have h1 : selAt sl j = false := hu j hvj (by omega)
  have h2 := not_afterWin hacl hvj (hu.mono (Nat.le_refl _) (by omega)) hge
  have h3 : beforeWin cfg.beforeContext sl j = true :=
    beforeWin_iff.mpr ⟨i - j - 1, by omega, by have : j + 1 + (i - j - 1) = i := by omega
                                               rw [this]; exact hi⟩
  simp [kindAt, h1, h2, hp, h3]

/-- an unselected line outside every after-window whose next `B` lines are unselected is not delivered -/
theorem kind_none {v acl j p : Nat} (hacl : AclOK cfg.afterContext sl v acl) (hvj : v ≤ j)
    (hu : Unsel sl v p) (hjp : j < p) (hge : v + acl ≤ j) (hp : cfg.passthru = false)
    (hB : j + cfg.beforeContext < p ∨ sl.length ≤ p) : kindAt cfg sl j = none := by
  have h1 : selAt sl j = false := hu j hvj hjp
  have h2 := not_afterWin hacl hvj (hu.mono (Nat.le_refl _) (by omega)) hge
  have h3 : beforeWin cfg.beforeContext sl j = false := by
    rw [Bool.eq_false_iff]
    intro h
    obtain ⟨d, hd, hs⟩ := beforeWin_iff.mp h
    by_cases hlt : j + 1 + d < p
    · rw [hu (j + 1 + d) (by omega) hlt] at hs; exact Bool.noConfusion hs
    · rcases hB with hB | hB
      · omega
      · rw [selAt_ge (by omega)] at hs; exact Bool.noConfusion hs
  simp [kindAt, h1, h2, hp, h3]

end
end RgVerif.GrepSpec
