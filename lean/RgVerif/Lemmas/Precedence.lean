import RgVerif.Spec.Precedence
/-
The accumulator loops of `matched_ignore` compute, per rule source, "the nearest directory's file that says
anything decides", with the git-sourced kinds cut at the repository root; and `matched` /
`matched_dir_entry` combine the sources in the documented order.
-/
namespace RgVerif.IgnoreDir
open RgVerif RgVerif.Precedence

theorem M3.or_none (a : M3) : a.or .none = a := by cases a <;> rfl
theorem M3.none_or (a : M3) : M3.or .none a = a := rfl
theorem M3.or_assoc (a b c : M3) : (a.or b).or c = a.or (b.or c) := by
  cases a <;> rfl

theorem or_step (x y z : M3) : (if x.isNone then y else x).or z = x.or (y.or z) := by
  cases x <;> rfl

theorem firstOf_nil : firstOf [] = M3.none := rfl
theorem firstOf_cons (m : M3) (rest : List M3) : firstOf (m :: rest) = m.or (firstOf rest) := rfl

theorem firstOf_append (xs ys : List M3) : firstOf (xs ++ ys) = (firstOf xs).or (firstOf ys) := by
  induction xs with
  | nil => rfl
  | cons m rest ih => rw [List.cons_append, firstOf_cons, firstOf_cons, ih, M3.or_assoc]

theorem gi_step (g s h : Bool) (x A R : M3) :
    (if (g && !s && x.isNone) = true then A else x).or (if (g && !(s || h)) = true then R else .none) =
      x.or (if (g && !s) = true then (if h = true then firstOf [A] else A.or R) else .none) := by
  cases g <;> cases s <;> cases h <;> cases x <;> cases A <;> rfl

theorem firstOf_upTo (f : Level × Bytes → M3) (q : Level × Bytes) (rest : List (Level × Bytes)) :
    firstOf (List.map f (if q.1.hasGit = true then [q] else q :: upToRepoRoot rest)) =
      (if q.1.hasGit = true then firstOf [f q] else (f q).or (firstOf (List.map f (upToRepoRoot rest)))) := by
  cases q.1.hasGit <;> rfl

/-- a plain kind of rule file over the consulted directories -/
def plainAgg (sel : Level → Gi) (isDir : Bool) (qs : List (Level × Bytes)) : M3 :=
  firstOf (qs.map fun q => (sel q.1).matched q.2 isDir)

/-- a git-sourced kind: nothing beyond the repository root -/
def gitAgg (sel : Level → Gi) (isDir : Bool) (qs : List (Level × Bytes)) : M3 :=
  plainAgg sel isDir (upToRepoRoot qs)

def stepQ (anyGit isDir : Bool) (a : Acc) (q : Level × Bytes) : Acc := stepLevel anyGit q.2 isDir a q.1

theorem foldl_stepLevel_eq (g d : Bool) (p : Bytes) (ls : List Level) (a : Acc) :
    ls.foldl (stepLevel g p d) a = (ls.map fun l => (l, p)).foldl (stepQ g d) a := by
  induction ls generalizing a with
  | nil => rfl
  | cons l ls ih => simp only [List.foldl_cons, List.map_cons, ih]; rfl

/-- what the loop leaves in the accumulators -/
theorem foldQ (g d : Bool) (qs : List (Level × Bytes)) (a : Acc) :
    let r := qs.foldl (stepQ g d) a
    r.custom = a.custom.or (plainAgg (·.custom) d qs) ∧
    r.ignore = a.ignore.or (plainAgg (·.ignore) d qs) ∧
    r.gi = a.gi.or (if g && !a.sawGit then gitAgg (·.gitignore) d qs else .none) ∧
    r.exclude = a.exclude.or (if g && !a.sawGit then gitAgg (·.exclude) d qs else .none) ∧
    r.sawGit = (a.sawGit || qs.any (·.1.hasGit)) := by
  induction qs generalizing a with
  | nil => simp [plainAgg, gitAgg, upToRepoRoot, firstOf, M3.or_none]
  | cons q rest ih =>
    simp only [List.foldl_cons]
    obtain ⟨h1, h2, h3, h4, h5⟩ := ih (stepQ g d a q)
    refine ⟨?_, ?_, ?_, ?_, ?_⟩
    · rw [h1]; simp only [stepQ, stepLevel, plainAgg, List.map_cons, firstOf_cons]
      exact or_step _ _ _
    · rw [h2]; simp only [stepQ, stepLevel, plainAgg, List.map_cons, firstOf_cons]
      exact or_step _ _ _
    · rw [h3]; simp only [stepQ, stepLevel, gitAgg, plainAgg, upToRepoRoot]
      rw [firstOf_upTo]
      exact gi_step _ _ _ _ _ _
    · rw [h4]; simp only [stepQ, stepLevel, gitAgg, plainAgg, upToRepoRoot]
      rw [firstOf_upTo]
      exact gi_step _ _ _ _ _ _
    · rw [h5]; simp [stepQ, stepLevel, Bool.or_assoc]

theorem combine (g d : Bool) (qs : List (Level × Bytes)) (gl ex : M3) :
    (qs.foldl (stepQ g d) { custom := .none, ignore := .none, gi := .none, exclude := .none, sawGit := false }).custom.or
      ((qs.foldl (stepQ g d) { custom := .none, ignore := .none, gi := .none, exclude := .none, sawGit := false }).ignore.or
        ((qs.foldl (stepQ g d) { custom := .none, ignore := .none, gi := .none, exclude := .none, sawGit := false }).gi.or
          ((qs.foldl (stepQ g d) { custom := .none, ignore := .none, gi := .none, exclude := .none, sawGit := false }).exclude.or
            ((if g = true then gl else M3.none).or ex)))) =
    firstOf [plainAgg (·.custom) d qs, plainAgg (·.ignore) d qs,
             if g = true then gitAgg (·.gitignore) d qs else .none,
             if g = true then gitAgg (·.exclude) d qs else .none,
             if g = true then gl else .none, ex] := by
  obtain ⟨h1, h2, h3, h4, _⟩ := foldQ g d qs
    { custom := .none, ignore := .none, gi := .none, exclude := .none, sawGit := false }
  simp only at h1 h2 h3 h4
  rw [h1, h2, h3, h4]
  simp only [firstOf_cons, M3.none_or, firstOf_nil, M3.or_none]
  cases g <;> rfl

/-- both phases as one fold over the consulted (directory, path) pairs -/
theorem foldLevels_eq (o : Opts) (levels : List Level) (curDir : Bytes) (absBase : Option Bytes)
    (path : Bytes) (isDir : Bool) :
    foldLevels o levels curDir absBase path isDir =
      (consulted (o.parents && absBase.isSome) levels path (rebase (absBase.getD []) curDir path)).foldl
        (stepQ (!o.requireGit || levels.any (·.hasGit)) isDir)
        { custom := .none, ignore := .none, gi := .none, exclude := .none, sawGit := false } := by
  unfold foldLevels consulted
  cases o.parents <;> cases absBase <;>
    simp [foldl_stepLevel_eq, List.foldl_append]

/-- **source order**: `matched_ignore` is "first source that says anything, in the order
`.rgignore`, `.ignore`, `.gitignore`, `.git/info/exclude`, global, `--ignore-file`", each source being
"nearest directory first" over the consulted directories. -/
theorem matchedIgnore_eq (o : Opts) (levels : List Level) (curDir : Bytes) (absBase : Option Bytes)
    (explicit : List Gi) (global : Gi) (path : Bytes) (isDir : Bool) :
    matchedIgnore o levels curDir absBase explicit global path isDir =
      let qs := consulted (o.parents && absBase.isSome) levels path (rebase (absBase.getD []) curDir path)
      let repo := inRepo o.requireGit levels
      firstOf [plainAgg (·.custom) isDir qs,
               plainAgg (·.ignore) isDir qs,
               if repo then gitAgg (·.gitignore) isDir qs else .none,
               if repo then gitAgg (·.exclude) isDir qs else .none,
               if repo then (if o.gitGlobal then global else Gi.empty).matched path isDir else .none,
               explicitLoop explicit path isDir] := by
  unfold matchedIgnore
  simp only [inRepo]
  rw [foldLevels_eq]
  exact combine _ isDir _ _ _

end RgVerif.IgnoreDir
