import RgVerif.Lemmas.PrinterStd
/-
Helper lemmas for C10: at run level, the number of match records (records with the match separator) among the
records of the consumed events equals the Standard sink's match count.
-/
namespace RgVerif.Lemmas.PrinterRun
open RgVerif RgVerif.Matcher RgVerif.Replace RgVerif.Printer RgVerif.PrinterSpec
open RgVerif.Lemmas.PrinterStd

/-- number of match (non-context) records among the records of a list of consumed events -/
def matchRecordCount (sc : SCfg) (c : StdCfg) (find : Oracle) (ps : List (StdState × Event)) : Nat :=
  ((ps.flatMap fun p => eventRecords sc c find p.2).filter fun r => !r.isCtx).length

theorem lineRecords_ctx (lt : LineTerm) (c : StdCfg) (bytes : Bytes) (off : Nat) (ln : Option Nat) (ms : List Span) :
    ((lineRecords lt c true bytes off ln ms).filter fun r => !r.isCtx) = [] := by
  unfold lineRecords
  split
  · simp
  · split
    · simp [List.filter_eq_nil_iff]
    · simp

theorem lineRecords_match (lt : LineTerm) (c : StdCfg) (bytes : Bytes) (off : Nat) (ln : Option Nat) (ms : List Span)
    (hp : c.perMatch = false) :
    ((lineRecords lt c false bytes off ln ms).filter fun r => !r.isCtx).length = 1 := by
  unfold lineRecords
  split
  · simp
  · simp [hp]

/-- one event: a matched line contributes one match record, everything else none (single-line, no `--vimgrep`) -/
theorem event_match_records (sc : SCfg) (c : StdCfg) (find : Oracle) (ev : Event)
    (hml : sc.multiLine = false) (hp : c.perMatch = false) :
    ((eventRecords sc c find ev).filter fun r => !r.isCtx).length = if Event.isMatched ev then 1 else 0 := by
  cases ev with
  | contextBreak => simp [eventRecords, Event.isMatched]
  | context k b off ln =>
    simp only [eventRecords, Event.isMatched, Bool.false_eq_true, ↓reduceIte]
    rw [lineRecords_ctx]; rfl
  | matched buf rs re off ln =>
    simp only [eventRecords, hml, Bool.false_eq_true, ↓reduceIte, Event.isMatched]
    exact lineRecords_match _ _ _ _ _ _ hp

theorem stdEvent_matchCount (sc : SCfg) (c : StdCfg) (find : Oracle) (st : StdState) (ev : Event) :
    (stdEvent sc c find st ev).1.matchCount = st.matchCount + if Event.isMatched ev then 1 else 0 := by
  cases ev <;> simp [stdEvent, stdMatched, stdContext, stdContextBreak, StdState.write, Event.isMatched]

/-- **Run level**: the Standard sink's match count grows by exactly the number of match records it printed. -/
theorem matchCount_eq_match_records (sc : SCfg) (c : StdCfg) (find : Oracle)
    (hml : sc.multiLine = false) (hp : c.perMatch = false) :
    ∀ (evs : List Event) (st : StdState),
      (stdEvents sc c find st evs).matchCount =
        st.matchCount + matchRecordCount sc c find (processed sc c find st evs) := by
  intro evs
  induction evs with
  | nil => intro st; simp [stdEvents, processed, matchRecordCount]
  | cons ev rest ih =>
    intro st
    rw [stdEvents_cons]
    unfold processed
    have h1 := stdEvent_matchCount sc c find st ev
    have h2 := event_match_records sc c find ev hml hp
    by_cases hc : (stdEvent sc c find st ev).2 = true
    · simp only [hc, ↓reduceIte]
      rw [ih, h1]
      simp only [matchRecordCount, List.flatMap_cons, List.filter_append, List.length_append, h2]
      omega
    · simp only [hc, Bool.false_eq_true, ↓reduceIte]
      rw [h1]
      simp only [matchRecordCount, List.flatMap_cons, List.flatMap_nil, List.append_nil, h2]

end RgVerif.Lemmas.PrinterRun
