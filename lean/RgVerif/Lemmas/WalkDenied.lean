import RgVerif.Spec.ReachDenied
/-
C06 (outside the property): the EACCES error visits of the serial walker are among those of the parallel
walker, in the same order; without a depth limit they coincide.
-/
namespace RgVerif.Walk

theorem deniedHere_sub (cfg : Cfg) (denied : Nat → Bool) (rd : Option Nat) (depth : Nat) (p : Path)
    (ino dev : Nat) :
    (deniedHere cfg denied false rd depth p ino dev).Sublist (deniedHere cfg denied true rd depth p ino dev) := by
  unfold deniedHere
  cases devOk rd dev <;> cases depthOk cfg (depth + 1) <;> cases denied ino <;> simp

theorem deniedHere_nolimit (cfg : Cfg) (h : cfg.maxDepth = none) (denied : Nat → Bool) (rd : Option Nat)
    (depth : Nat) (p : Path) (ino dev : Nat) :
    deniedHere cfg denied false rd depth p ino dev = deniedHere cfg denied true rd depth p ino dev := by
  unfold deniedHere depthOk
  simp [h]

mutual
theorem deniedEntry_sub (cfg : Cfg) (forest : List Node) (denied : Nat → Bool) (js jp : DContents)
    (hj : ∀ a d p r ks, (js a d p r ks).Sublist (jp a d p r ks))
    (rd : Option Nat) (anc : List Anc) (depth : Nat) (pp : Path) :
    (k : Node) → (deniedEntry cfg forest denied false js rd anc depth pp k).Sublist
      (deniedEntry cfg forest denied true jp rd anc depth pp k)
  | .file _ _ => by unfold deniedEntry; exact List.Sublist.refl _
  | .dir name ino dev ign kids => by
    unfold deniedEntry
    split
    · apply List.Sublist.append (deniedHere_sub ..)
      split
      · exact deniedKids_sub cfg forest denied js jp hj rd _ _ _ kids
      · exact List.Sublist.refl _
    · exact List.Sublist.refl _
  | .link name len tgt => by
    unfold deniedEntry
    split
    · split
      · split
        · exact List.Sublist.refl _
        · split
          · apply List.Sublist.append (deniedHere_sub ..)
            split
            · exact hj _ _ _ _ _
            · exact List.Sublist.refl _
          · exact List.Sublist.refl _
      · exact List.Sublist.refl _
    · exact List.Sublist.refl _
theorem deniedKids_sub (cfg : Cfg) (forest : List Node) (denied : Nat → Bool) (js jp : DContents)
    (hj : ∀ a d p r ks, (js a d p r ks).Sublist (jp a d p r ks))
    (rd : Option Nat) (anc : List Anc) (depth : Nat) (pp : Path) :
    (ks : List Node) → (deniedKids cfg forest denied false js rd anc depth pp ks).Sublist
      (deniedKids cfg forest denied true jp rd anc depth pp ks)
  | [] => by unfold deniedKids; exact List.Sublist.refl _
  | k :: ks => by
    unfold deniedKids
    exact List.Sublist.append (deniedEntry_sub cfg forest denied js jp hj rd anc depth pp k)
      (deniedKids_sub cfg forest denied js jp hj rd anc depth pp ks)
end

theorem deniedContents_sub (cfg : Cfg) (forest : List Node) (denied : Nat → Bool) :
    ∀ f a d p r ks, (deniedContents cfg forest denied false f a d p r ks).Sublist
      (deniedContents cfg forest denied true f a d p r ks) := by
  intro f
  induction f with
  | zero => intro a d p r ks; exact List.Sublist.refl _
  | succ f ih =>
    intro a d p r ks
    simp only [deniedContents]
    exact deniedKids_sub cfg forest denied _ _ ih r a d p ks

/-- The serial walker's EACCES visits are a sub-sequence of the parallel walker's. -/
theorem deniedVisits_sub (cfg : Cfg) (forest : List Node) (denied : Nat → Bool) (fuel : Nat)
    (roots : List Node) :
    (deniedVisits cfg forest denied false fuel roots).Sublist
      (deniedVisits cfg forest denied true fuel roots) := by
  unfold deniedVisits
  induction roots with
  | nil => exact List.Sublist.refl _
  | cons r rs ih =>
    simp only [List.flatMap_cons]
    apply List.Sublist.append _ ih
    unfold deniedRoot
    split
    · apply List.Sublist.append
      · cases depthOk cfg 0 <;> cases denied _ <;> simp
      · split
        · exact deniedContents_sub cfg forest denied fuel _ _ _ _ _
        · exact List.Sublist.refl _
    · exact List.Sublist.refl _

end RgVerif.Walk
