import RgVerif.Lemmas.SearcherSim2
/-
C16 for `SliceByLine::run`: from the simulation of everything before `finish` to the statement about
the sink's log (prefix + `finish` iff stop, error iff error).
-/
namespace RgVerif.Searcher
open RgVerif RgVerif.Matcher RgVerif.Lines

/-- everything `SliceByLine::run` does before `finish` -/
def slicePre (cfg : Config) (m : MatcherI) (σ : Script) (slice_ : Bytes) : Core × Res Unit :=
  match begin σ (Core.new cfg true) with
  | (st, .err) => (st, .err)
  | (st, .ok keepgoing) =>
    if keepgoing then
      match detectBinary cfg σ slice_ ⟨0, min slice_.length defaultBufferCapacity⟩ st with
      | (st, .err) => (st, .err)
      | (st, .ok true) => (st, .ok ())
      | (st, .ok false) => sliceLoop cfg m σ slice_ (slice_.length + 1) st
    else (st, .ok ())

/-- the closing `finish` call of every strategy's `run` -/
def finishRun (cfg : Config) (σ : Script) (x : Core × Res Unit) : Run :=
  match x with
  | (st, .err) => ⟨st, .err⟩
  | (st, .ok ()) => ⟨(finish σ st (byteCount cfg st) st.binaryByteOffset).1, (finish σ st (byteCount cfg st) st.binaryByteOffset).2⟩

theorem sliceByLine_eq (cfg : Config) (m : MatcherI) (σ : Script) (slice_ : Bytes) :
    sliceByLine cfg m σ slice_ = finishRun cfg σ (slicePre cfg m σ slice_) := by
  unfold sliceByLine slicePre finishRun
  dsimp only
  rcases begin σ (Core.new cfg true) with ⟨st, b | _⟩
  · cases b
    · rfl
    · dsimp only
      rcases detectBinary cfg σ slice_ ⟨0, min slice_.length defaultBufferCapacity⟩ st with ⟨st1, q | _⟩
      · cases q
        · simp only [if_true]
          rcases sliceLoop cfg m σ slice_ (slice_.length + 1) st1 with ⟨st2, u | _⟩ <;> rfl
        · rfl
      · rfl
  · rfl

theorem slicePre_wb {σ : Script} {k : Nat} (hk : FirstStop σ k) (cfg : Config) (m : MatcherI) (slice_ : Bytes) :
    WB σ k () (Core.new cfg true) (slicePre cfg m σ slice_) (slicePre cfg m allCont slice_) := by
  unfold slicePre
  sim_bind (begin_wb hk (Core.new cfg true)), (begin σ (Core.new cfg true)), (begin allCont (Core.new cfg true))
  intro st1 a
  cases a
  · exact WB.pure_ok _ _ rfl
  · simp only [if_true]
    sim_bind (detectBinary_wb hk cfg slice_ ⟨0, min slice_.length defaultBufferCapacity⟩ st1),
      (detectBinary cfg σ slice_ _ st1), (detectBinary cfg allCont slice_ _ st1)
    intro st2 q
    cases q
    · exact sliceLoop_wb hk cfg m slice_ _ st2
    · exact WB.pure_ok _ _ rfl

theorem finish_eq (σ : Script) (st : Core) (bc : Nat) (bo : Option Nat) :
    finish σ st bc bo = ({ st with events := st.events ++ [Event.finish bc bo] },
      if σ st.events.length = .err then .err else .ok ()) := by
  unfold finish
  rw [emit_eq]
  cases h : σ st.events.length <;> simp [respRes]

/-- **Stopping / failing mid-stream yields a prefix** — generic in what happens before `finish`.
`x1` / `x2` are the outcomes of the pre-`finish` part under `σ` / under the all-continue sink. -/
theorem run_prefix (cfg : Config) {σ : Script} {k : Nat} (hk : FirstStop σ k) {st0 : Core} (h0 : st0.events = [])
    {x1 x2 : Core × Res Unit} (hx : WB σ k () st0 x1 x2) :
    (finishRun cfg allCont x2).result = .ok () ∧
    (k + 1 < (finishRun cfg allCont x2).events.length →
      (∃ bc bo, (finishRun cfg σ x1).events = (finishRun cfg allCont x2).events.take (k + 1) ++
          (if σ k = .stop then [Event.finish bc bo] else [])) ∧
      ((finishRun cfg σ x1).result = .err ↔ (σ k = .err ∨ (σ k = .stop ∧ σ (k + 1) = .err)))) ∧
    ((finishRun cfg allCont x2).events.length ≤ k + 1 →
      (finishRun cfg σ x1).events = (finishRun cfg allCont x2).events ∧
      ((finishRun cfg σ x1).result = .err ↔ (k + 1 = (finishRun cfg allCont x2).events.length ∧ σ k = .err))) := by
  obtain ⟨_, hsim, hne⟩ := hx
  have hsim := hsim (by rw [h0]; exact Nat.zero_le _)
  rcases x2 with ⟨s2, u | _⟩
  · cases u
    have hE : (finishRun cfg allCont (s2, Res.ok ())).events = s2.events ++ [Event.finish (byteCount cfg s2) s2.binaryByteOffset] := by
      simp [finishRun, finish_eq, Run.events]
    have hR0 : (finishRun cfg allCont (s2, Res.ok ())).result = .ok () := by
      simp [finishRun, finish_eq, allCont]
    refine ⟨hR0, ?_, ?_⟩
    · intro hlt
      rw [hE] at hlt ⊢
      rcases hsim with ⟨rfl, hlen⟩ | ⟨hlen, hpre, hres⟩
      · simp at hlt hlen; omega
      · rcases x1 with ⟨s1, r1⟩
        simp only at hlen hpre hres
        have htake : s1.events = (s2.events ++ [Event.finish (byteCount cfg s2) s2.binaryByteOffset]).take (k + 1) := by
          have h1 := List.prefix_iff_eq_take.mp hpre
          rw [hlen] at h1
          have hle : k + 1 ≤ s2.events.length := by rw [← hlen]; exact hpre.length_le
          rw [List.take_append_of_le_length hle]; exact h1
        subst hres
        cases hσ : σ k with
        | cont => exact absurd hσ hk.at_
        | stop =>
          refine ⟨⟨byteCount cfg s1, s1.binaryByteOffset, ?_⟩, ?_⟩
          · simp [finishRun, haltRes, finish_eq, Run.events, htake]
          · simp [finishRun, haltRes, finish_eq, hlen]
        | err =>
          refine ⟨⟨0, none, ?_⟩, ?_⟩
          · simp [finishRun, haltRes, Run.events, htake]
          · simp [finishRun, haltRes]
    · intro hle
      rw [hE] at hle ⊢
      rcases hsim with ⟨rfl, hlen⟩ | ⟨hlen, hpre, hres⟩
      · simp only at hlen
        constructor
        · simp [finishRun, finish_eq, Run.events]
        · simp only [finishRun, finish_eq, List.length_append, List.length_cons, List.length_nil]
          by_cases hlt : s2.events.length < k
          · rw [hk.pre _ hlt]; simp; omega
          · have : s2.events.length = k := by omega
            rw [this]
            cases hσ : σ k <;> simp
      · have := hpre.length_le
        simp only at this hlen
        simp at hle; omega

  · exact absurd rfl hne

end RgVerif.Searcher
