import RgVerif.Lemmas.SearcherFind
import RgVerif.Lemmas.SearcherSpecFacts
/-
Searcher-level half of C01: which lines are reported as matching.
-/
namespace RgVerif.GrepSpec
open RgVerif RgVerif.Matcher RgVerif.Lines RgVerif.Searcher

theorem reported_lineEvents (cfg : Config) (sl : List SLine) (i : Nat) :
    reported (lineEvents cfg sl i) = if selAt sl i then [(offsetAt sl i, bytesAt sl i)] else [] := by
  have hb : (if breakBefore cfg sl i = true then [Event.contextBreak] else []).filterMap matchedOf
      = ([] : List (Nat × Bytes)) := by
    split <;> rfl
  unfold lineEvents reported kindAt
  cases hs : selAt sl i
  · simp only [Bool.false_eq_true, if_false]
    split
    · rfl
    · rename_i k hk
      rw [List.filterMap_append, hb]
      split at hk
      · simp at hk; subst hk; rfl
      · split at hk
        · simp at hk; subst hk; rfl
        · split at hk
          · simp at hk; subst hk; rfl
          · simp at hk
  · simp only [if_true]
    rw [List.filterMap_append, hb]
    rfl

/-- the lines the grep model reports as matching are exactly the selected lines, in order -/
theorem reported_spec (cfg : Config) (sl0 : List SLine) :
    reported (grepSpecLines cfg sl0) =
      (List.range (effective cfg sl0).length).flatMap fun i =>
        if selAt (effective cfg sl0) i then [(offsetAt (effective cfg sl0) i, bytesAt (effective cfg sl0) i)] else [] := by
  rw [Searcher.grepSpecLines_eq]
  unfold reported
  have h1 : matchedOf Event.begin = none := rfl
  have h2 : ∀ a b, matchedOf (Event.finish a b) = none := fun _ _ => rfl
  simp only [List.cons_append, List.filterMap_cons, List.filterMap_append, List.filterMap_nil, List.append_nil,
    List.filterMap_flatMap, h1, h2]
  congr 1
  funext i
  exact reported_lineEvents cfg _ i

/-- `without_terminator` cuts exactly the property's content (since the repair of F3 also for a line that
ends in a bare `\n` under CRLF) -/
theorem withoutTerminator_eq_content (lt : LineTerm) (line : Bytes) :
    withoutTerminator line lt = content lt line := by
  rcases snoc_cases line with rfl | ⟨init, x, rfl⟩
  · cases lt <;> simp [withoutTerminator, content, LineTerm.asBytes, stripSuffix1]
  · cases lt with
    | byte b =>
      have hne : (LineTerm.byte b == LineTerm.crlf) = false := by simp
      simp only [withoutTerminator, hne, Bool.false_eq_true, if_false, LineTerm.asBytes, content, LineTerm.asByte,
        List.length_append, List.length_cons, List.length_nil, Nat.add_sub_cancel]
      have hd : List.drop init.length (init ++ [x]) = [x] := by simp
      have ht : List.take init.length (init ++ [x]) = init := by simp
      rw [hd, ht]
      by_cases hx : x = b
      · subst hx; simp
      · have : ¬ ([x] == [b]) = true := by simp [hx]
        simp [this, hx]
    | crlf =>
      by_cases hx : x = 10
      · subst hx
        rcases snoc_cases init with rfl | ⟨init2, y, rfl⟩
        · simp [withoutTerminator, content, LineTerm.asByte, stripSuffix1]
        · by_cases hy : y = 13
          · subst hy; simp [withoutTerminator, content, LineTerm.asByte, stripSuffix1]
          · simp [withoutTerminator, content, LineTerm.asByte, stripSuffix1, hy]
      · simp [withoutTerminator, content, LineTerm.asByte, stripSuffix1, hx]

end RgVerif.GrepSpec
