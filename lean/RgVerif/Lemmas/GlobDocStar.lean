import RgVerif.Lemmas.GlobDocSimple
/-
C12_doc with `**`: globs of the form  [`**/`] S₀ (`/**/` Sᵢ)* [`/**`]  (and the glob `**`), each Sᵢ in the
wildcard grammar.  `**` as a whole component spans directories: `**/` at the start = nothing or anything ending
in `/`; `/**/` = `/` or `/…/`; a final `/**` = `/` and everything after it.
-/
namespace RgVerif.Glob
open RgVerif RgVerif.GlobDoc

/-! ### the parser and the lexer run through a wildcard segment that is followed by more input -/

theorem parseLoop_simple_pre (o : Opts) (g rest : List Nat) (hg : simpleGlob o.be g = true)
    (hrest : rest.head? ≠ some 42) (fuel : Nat) (st : PState) (hb : st.branches = [])
    (hf : (g ++ rest).length < fuel) :
    ∃ fuel' cur, rest.length < fuel' ∧
      parseLoop o fuel st (g ++ rest) =
        parseLoop o fuel' { outer := st.outer ++ (simpleToks o.be g).map Token.s, branches := [], cur := cur } rest := by
  induction g using simpleToks.induct (be := o.be) generalizing fuel st with
  | case1 =>
    refine ⟨fuel, st.cur, by simpa using hf, ?_⟩
    simp only [List.nil_append, simpleToks, List.map_nil, List.append_nil]
    cases st; simp_all
  | case2 c hesc => simp [simpleGlob, hesc] at hg
  | case3 c hesc =>
    cases fuel with
    | zero => simp at hf
    | succ fuel =>
      have hesc' : (c == 92 && o.be) = false := by simpa using hesc
      simp only [simpleGlob, Bool.and_eq_true, hesc', Bool.not_false, and_true] at hg
      refine ⟨fuel, some c, by simp at hf; omega, ?_⟩
      simp only [List.cons_append, List.nil_append]
      rw [parseLoop_step o c rest fuel st hb hg hesc' (fun h => hrest h.2)]
      simp [simpleToks, hesc']
  | case4 c e g hesc ih =>
    simp only [Bool.and_eq_true, beq_iff_eq] at hesc
    obtain ⟨rfl, hbe⟩ := hesc
    simp only [simpleGlob, BEq.rfl, hbe, Bool.and_self, ↓reduceIte, Bool.and_eq_true,
      decide_eq_true_eq] at hg
    cases fuel with
    | zero => simp at hf
    | succ fuel =>
      obtain ⟨fuel', cur, hf', hrec⟩ := ih (by rw [hbe]; exact hg.2) fuel
        { outer := st.outer ++ [.s (.lit e)], branches := [], cur := some e } rfl
        (by simp at hf ⊢; omega)
      refine ⟨fuel', cur, hf', ?_⟩
      have hst : st.outer ++ (simpleToks o.be (92 :: e :: g)).map Token.s =
          (st.outer ++ [.s (.lit e)]) ++ (simpleToks o.be g).map Token.s := by
        simp [simpleToks, hbe]
      rw [hst, ← hrec]
      generalize hR : parseLoop o fuel { outer := st.outer ++ [.s (.lit e)], branches := [], cur := some e } (g ++ rest) = R
      simp only [List.cons_append]
      unfold parseLoop
      simp only [Nat.reduceBEq, Bool.false_eq_true, ↓reduceIte, BEq.rfl, hbe, PState.push, hb]
      exact hR
  | case5 c e g hesc ih =>
    have hesc' : (c == 92 && o.be) = false := by simpa using hesc
    simp only [simpleGlob, hesc', Bool.false_eq_true, ↓reduceIte, Bool.and_eq_true,
      Bool.not_eq_eq_eq_not, Bool.not_true, Bool.and_eq_false_iff, beq_eq_false_iff_ne, ne_eq] at hg
    cases fuel with
    | zero => simp at hf
    | succ fuel =>
      obtain ⟨fuel', cur, hf', hrec⟩ := ih hg.2 fuel
        { outer := st.outer ++ [.s (tokOf c)], branches := [], cur := some c } rfl
        (by simp at hf ⊢; omega)
      refine ⟨fuel', cur, hf', ?_⟩
      try simp only [List.cons_append]
      rw [parseLoop_step o c (e :: (g ++ rest)) fuel st hb hg.1.1 hesc' (by
        rintro ⟨h1, h2⟩
        simp only [List.head?_cons, Option.some.injEq] at h2
        rcases hg.1.2 with h | h
        · exact h h1
        · exact h h2)]
      try simp only [List.cons_append] at hrec
      rw [hrec]
      simp [simpleToks, hesc']

theorem lexGo_simple_pre (o : DocOpts) (g rest : List Nat) (hg : simpleGlob o.be g = true)
    (hrest : rest.head? ≠ some 42) (st : LexSt) (hbr : st.br = none) (hcls : st.cls = none) :
    ∃ cs, lexGo o (g ++ rest) st =
      lexGo o rest { items := st.items ++ itemsOf (simpleToks o.be g), br := none, cls := none, compStart := cs } := by
  induction g using simpleToks.induct (be := o.be) generalizing st with
  | case1 =>
    refine ⟨st.compStart, ?_⟩
    simp only [List.nil_append, simpleToks, itemsOf, List.map_nil, List.append_nil]
    cases st; simp_all
  | case2 c hesc => simp [simpleGlob, hesc] at hg
  | case3 c hesc =>
    have hesc' : (c == 92 && o.be) = false := by simpa using hesc
    simp only [simpleGlob, Bool.and_eq_true, hesc', Bool.not_false, and_true] at hg
    obtain ⟨cs, hstep⟩ := lexGo_step o c rest st hbr hcls hg hesc' (fun h => hrest h.2)
    exact ⟨cs, by simp only [List.cons_append, List.nil_append, hstep]; simp [simpleToks, hesc', itemsOf]⟩
  | case4 c e g hesc ih =>
    simp only [Bool.and_eq_true, beq_iff_eq] at hesc
    obtain ⟨rfl, hbe⟩ := hesc
    simp only [simpleGlob, BEq.rfl, hbe, Bool.and_self, ↓reduceIte, Bool.and_eq_true,
      decide_eq_true_eq] at hg
    have hge : ¬ e ≥ 128 := by omega
    obtain ⟨cs, hrec⟩ := ih (by rw [hbe]; exact hg.2)
      { items := st.items ++ [.a (.lit e)], br := none, cls := none, compStart := false } rfl rfl
    refine ⟨cs, ?_⟩
    try simp only [List.cons_append]
    rw [lexGo.eq_def]
    simp only [show ¬ (92 : Nat) ≥ 128 by omega, ↓reduceIte, hcls, Nat.reduceBEq, Bool.false_eq_true,
      BEq.rfl, hbe, hge]
    simp only [LexSt.push, hbr, hcls]
    rw [hrec]
    simp [simpleToks, hbe, itemsOf, trAtom]
  | case5 c e g hesc ih =>
    have hesc' : (c == 92 && o.be) = false := by simpa using hesc
    simp only [simpleGlob, hesc', Bool.false_eq_true, ↓reduceIte, Bool.and_eq_true,
      Bool.not_eq_eq_eq_not, Bool.not_true, Bool.and_eq_false_iff, beq_eq_false_iff_ne, ne_eq] at hg
    obtain ⟨cs0, hstep⟩ := lexGo_step o c (e :: (g ++ rest)) st hbr hcls hg.1.1 hesc' (by
      rintro ⟨h1, h2⟩
      simp only [List.head?_cons, Option.some.injEq] at h2
      rcases hg.1.2 with h | h
      · exact h h1
      · exact h h2)
    obtain ⟨cs, hrec⟩ := ih hg.2
      { items := st.items ++ [.a (trAtom (tokOf c))], br := none, cls := none, compStart := cs0 } rfl rfl
    refine ⟨cs, ?_⟩
    try simp only [List.cons_append] at hstep hrec ⊢
    rw [hstep, hrec]
    simp [simpleToks, hesc', itemsOf]

/-! ### the `**` pieces in the parser -/

def st0 : PState := { outer := [], branches := [], cur := none }

/-- `**/` at the very start -/
theorem parseLoop_dstar_start (o : Opts) (rest : List Nat) (fuel : Nat) :
    parseLoop o (fuel + 1) st0 (42 :: 42 :: 47 :: rest) =
      parseLoop o fuel { outer := [.s .recPrefix], branches := [], cur := some 47 } rest := by
  generalize hR : parseLoop o fuel { outer := [.s .recPrefix], branches := [], cur := some 47 } rest = R
  unfold parseLoop
  simp only [Nat.reduceBEq, Bool.false_eq_true, ↓reduceIte, BEq.rfl, st0]
  unfold parseStar
  simp only [PState.haveTokens, List.isEmpty_nil, Bool.not_true, Bool.not_false, ↓reduceIte, isSep,
    BEq.rfl, PState.push]
  exact hR

/-- the glob `**` -/
theorem parse_dstar_only (o : Opts) : parse o [42, 42] = .ok [.s .recPrefix] := by
  simp [parse, parseLoop, parseStar, PState.haveTokens, PState.push, PState.depth]

/-- `/**/` anywhere: the `/` just pushed is popped again and replaced by `RecursiveZeroOrMore` -/
theorem parseLoop_dstar_mid (o : Opts) (rest : List Nat) (fuel : Nat) (st : PState) (hb : st.branches = []) :
    parseLoop o (fuel + 2) st (47 :: 42 :: 42 :: 47 :: rest) =
      parseLoop o fuel { outer := st.outer ++ [.s .recZero], branches := [], cur := some 47 } rest := by
  rw [parseLoop_step o 47 _ (fuel + 1) st hb (by decide) (by simp) (by simp)]
  generalize hR : parseLoop o fuel { outer := st.outer ++ [.s .recZero], branches := [], cur := some 47 } rest = R
  unfold parseLoop
  simp only [Nat.reduceBEq, Bool.false_eq_true, ↓reduceIte, BEq.rfl, tokOf]
  unfold parseStar
  have hne : (st.outer ++ [Token.s (Tok.lit 47)]).isEmpty = false := by simp
  simp only [PState.haveTokens, hne, Bool.not_false,
    Bool.not_true, Bool.false_eq_true, ↓reduceIte, Option.map_some, isSep, BEq.rfl, Option.getD_some,
    Bool.false_and, Nat.reduceBEq, Bool.or_self, PState.depth, List.length_nil, PState.pop,
    List.getLast?_append, List.getLast?_singleton, Option.some_or, List.dropLast_concat, PState.push]
  exact hR

/-- a final `/**` -/
theorem parseLoop_dstar_end (o : Opts) (fuel : Nat) (st : PState) (hb : st.branches = []) :
    parseLoop o (fuel + 3) st [47, 42, 42] =
      .ok { outer := st.outer ++ [.s .recSuffix], branches := [], cur := none } := by
  rw [parseLoop_step o 47 _ (fuel + 2) st hb (by decide) (by simp) (by simp)]
  unfold parseLoop
  simp only [Nat.reduceBEq, Bool.false_eq_true, ↓reduceIte, BEq.rfl, tokOf]
  unfold parseStar
  have hne : (st.outer ++ [Token.s (Tok.lit 47)]).isEmpty = false := by simp
  simp only [PState.haveTokens, hne, Bool.not_false,
    Bool.not_true, Bool.false_eq_true, ↓reduceIte, Option.map_some, isSep, BEq.rfl, Option.getD_some,
    PState.pop, List.getLast?_append, List.getLast?_singleton, Option.some_or, List.dropLast_concat,
    PState.push]
  simp [parseLoop]

/-! ### the `**` pieces in the documentation's lexer -/

theorem lexGo_dstar_start (o : DocOpts) (rest : List Nat) (st : LexSt)
    (hbr : st.br = none) (hcls : st.cls = none) (hcs : st.compStart = true) :
    lexGo o (42 :: 42 :: 47 :: rest) st =
      lexGo o rest { items := st.items ++ [.a .dirs], br := none, cls := none, compStart := true } := by
  rw [lexGo.eq_def]
  simp [hcls, hbr, hcs, LexSt.push]

theorem lexGo_dstar_only (o : DocOpts) (st : LexSt)
    (hbr : st.br = none) (hcls : st.cls = none) (hcs : st.compStart = true) :
    lexGo o [42, 42] st = some (st.items ++ [.a .rest]) := by
  rw [lexGo.eq_def]
  simp [hcls, hbr, hcs, LexSt.push]

theorem lexGo_slash (o : DocOpts) (rest : List Nat) (st : LexSt) (hbr : st.br = none) (hcls : st.cls = none) :
    lexGo o (47 :: rest) st =
      lexGo o rest { items := st.items ++ [.a (.lit 47)], br := none, cls := none, compStart := true } := by
  rw [lexGo.eq_def]
  simp [hcls, hbr, LexSt.push]

theorem lexGo_dstar_mid (o : DocOpts) (rest : List Nat) (st : LexSt) (hbr : st.br = none) (hcls : st.cls = none) :
    lexGo o (47 :: 42 :: 42 :: 47 :: rest) st =
      lexGo o rest { items := st.items ++ [.a (.lit 47), .a .dirs], br := none, cls := none, compStart := true } := by
  rw [lexGo_slash o _ st hbr hcls, lexGo_dstar_start o rest _ rfl rfl rfl]
  simp

theorem lexGo_dstar_end (o : DocOpts) (st : LexSt) (hbr : st.br = none) (hcls : st.cls = none) :
    lexGo o [47, 42, 42] st = some (st.items ++ [.a (.lit 47), .a .rest]) := by
  rw [lexGo_slash o _ st hbr hcls, lexGo_dstar_only o _ rfl rfl rfl]
  simp

/-! ### the grammar  [`**/`] S₀ (`/**/` Sᵢ)* [`/**`] -/

structure StarGlob where
  pre : Bool
  s0 : List Nat
  segs : List (List Nat)
  post : Bool
  deriving Repr, DecidableEq

def tailText : List (List Nat) → Bool → List Nat
  | [], post => if post then [47, 42, 42] else []
  | s :: segs, post => [47, 42, 42, 47] ++ s ++ tailText segs post

def tailToks (be : Bool) : List (List Nat) → Bool → List Tok
  | [], post => if post then [.recSuffix] else []
  | s :: segs, post => .recZero :: simpleToks be s ++ tailToks be segs post

def StarGlob.text (sg : StarGlob) : List Nat :=
  (if sg.pre then [42, 42, 47] else []) ++ sg.s0 ++ tailText sg.segs sg.post

def StarGlob.toks (be : Bool) (sg : StarGlob) : List Tok :=
  (if sg.pre then [.recPrefix] else []) ++ simpleToks be sg.s0 ++ tailToks be sg.segs sg.post

/-- every segment is in the wildcard grammar, and the glob is not just `**/` -/
def StarGlob.wf (be : Bool) (sg : StarGlob) : Bool :=
  simpleGlob be sg.s0 && sg.segs.all (simpleGlob be) &&
  !(sg.pre && sg.s0.isEmpty && sg.segs.isEmpty && !sg.post)

/-- the documented atoms of a token: `/**/` is a `/` followed by "zero or more directories", a final `/**` a `/`
followed by "everything" -/
def trAtoms : Tok → List Atom
  | .recZero => [.lit 47, .dirs]
  | .recSuffix => [.lit 47, .rest]
  | t => [trAtom t]

theorem tailText_head (segs : List (List Nat)) (post : Bool) : (tailText segs post).head? ≠ some 42 := by
  cases segs <;> cases post <;> simp [tailText]

theorem parseLoop_tail (o : Opts) (segs : List (List Nat)) (post : Bool)
    (hw : segs.all (simpleGlob o.be) = true) (fuel : Nat) (st : PState) (hb : st.branches = [])
    (hf : (tailText segs post).length < fuel) :
    parseLoop o fuel st (tailText segs post) =
      .ok { outer := st.outer ++ (tailToks o.be segs post).map Token.s, branches := [], cur := none } := by
  induction segs generalizing fuel st with
  | nil =>
    cases post
    · obtain ⟨f, rfl⟩ : ∃ f, fuel = f + 1 := ⟨fuel - 1, by omega⟩
      simp [tailText, tailToks, parseLoop, hb]
    · obtain ⟨f, rfl⟩ : ∃ f, fuel = f + 3 := ⟨fuel - 3, by simp [tailText] at hf; omega⟩
      simp only [tailText, ↓reduceIte, tailToks, List.map_cons, List.map_nil]
      exact parseLoop_dstar_end o f st hb
  | cons s segs ih =>
    simp only [List.all_cons, Bool.and_eq_true] at hw
    obtain ⟨f, rfl⟩ : ∃ f, fuel = f + 2 := ⟨fuel - 2, by simp [tailText] at hf; omega⟩
    simp only [tailText, List.cons_append, List.nil_append, List.append_assoc]
    rw [parseLoop_dstar_mid o _ f st hb]
    obtain ⟨fuel', cur, hf', hrec⟩ := parseLoop_simple_pre o s (tailText segs post) hw.1
      (tailText_head segs post) f { outer := st.outer ++ [.s .recZero], branches := [], cur := some 47 } rfl
      (by simp [tailText] at hf ⊢; omega)
    rw [hrec, ih hw.2 fuel' _ rfl hf']
    simp [tailToks]

theorem parse_starGlob (o : Opts) (sg : StarGlob) (hw : sg.wf o.be = true) :
    parse o sg.text = .ok ((sg.toks o.be).map Token.s) := by
  simp only [StarGlob.wf, Bool.and_eq_true] at hw
  obtain ⟨⟨hs0, hsegs⟩, _⟩ := hw
  unfold parse StarGlob.text StarGlob.toks
  have hmain : ∀ (fuel : Nat) (st : PState), st.branches = [] →
      (sg.s0 ++ tailText sg.segs sg.post).length < fuel →
      parseLoop o fuel st (sg.s0 ++ tailText sg.segs sg.post) =
        .ok { outer := st.outer ++ (simpleToks o.be sg.s0 ++ tailToks o.be sg.segs sg.post).map Token.s,
              branches := [], cur := none } := by
    intro fuel st hb hf
    obtain ⟨fuel', cur, hf', hrec⟩ := parseLoop_simple_pre o sg.s0 _ hs0 (tailText_head sg.segs sg.post)
      fuel st hb hf
    rw [hrec, parseLoop_tail o sg.segs sg.post hsegs fuel' _ rfl hf']
    simp
  cases hp : sg.pre
  · simp only [Bool.false_eq_true, ↓reduceIte, List.nil_append]
    rw [hmain _ _ rfl (by omega)]
    simp [PState.depth]
  · simp only [↓reduceIte, List.cons_append, List.nil_append, List.length_cons]
    have := parseLoop_dstar_start o (sg.s0 ++ tailText sg.segs sg.post)
      ((sg.s0 ++ tailText sg.segs sg.post).length + 3)
    simp only [st0] at this
    rw [show (sg.s0 ++ tailText sg.segs sg.post).length + 1 + 1 + 1 + 1 =
        ((sg.s0 ++ tailText sg.segs sg.post).length + 3) + 1 by omega, this, hmain _ _ rfl (by omega)]
    simp [PState.depth]

theorem flatMap_trAtoms_simple (ts : List Tok) (h : ∀ t ∈ ts, simpleTok t = true) :
    ts.flatMap trAtoms = ts.map trAtom := by
  induction ts with
  | nil => rfl
  | cons t ts ih =>
    have ht := h t (by simp)
    rw [List.flatMap_cons, List.map_cons, ih (fun x hx => h x (by simp [hx]))]
    cases t <;> simp_all [trAtoms, simpleTok]

theorem lexGo_tail (o : DocOpts) (segs : List (List Nat)) (post : Bool)
    (hw : segs.all (simpleGlob o.be) = true) (st : LexSt) (hbr : st.br = none) (hcls : st.cls = none) :
    lexGo o (tailText segs post) st =
      some (st.items ++ ((tailToks o.be segs post).flatMap trAtoms).map Item.a) := by
  induction segs generalizing st with
  | nil =>
    cases post
    · rw [lexGo.eq_def]; simp [tailText, tailToks, hbr, hcls]
    · simp only [tailText, ↓reduceIte, tailToks]
      rw [lexGo_dstar_end o st hbr hcls]
      simp [trAtoms]
  | cons s segs ih =>
    simp only [List.all_cons, Bool.and_eq_true] at hw
    simp only [tailText, List.cons_append, List.nil_append, List.append_assoc]
    rw [lexGo_dstar_mid o _ st hbr hcls]
    obtain ⟨cs, hrec⟩ := lexGo_simple_pre o s (tailText segs post) hw.1 (tailText_head segs post)
      { items := st.items ++ [.a (.lit 47), .a .dirs], br := none, cls := none, compStart := true } rfl rfl
    rw [hrec, ih hw.2 _ rfl rfl]
    simp only [tailToks, List.flatMap_cons, List.flatMap_append, trAtoms,
      flatMap_trAtoms_simple _ (simpleToks_simple o.be s hw.1), itemsOf]
    simp

theorem expand_atoms' (o : DocOpts) (as : List Atom) : expand o (as.map Item.a) = some [as] := by
  induction as with
  | nil => rfl
  | cons a as ih => simp only [List.map_cons, expand, ih]; rfl

theorem lexGo_starGlob (o : DocOpts) (sg : StarGlob) (hw : sg.wf o.be = true) :
    lexGo o sg.text { items := [], br := none, cls := none, compStart := true } =
      some (((sg.toks o.be).flatMap trAtoms).map Item.a) := by
  simp only [StarGlob.wf, Bool.and_eq_true] at hw
  obtain ⟨⟨hs0, hsegs⟩, _⟩ := hw
  unfold StarGlob.text StarGlob.toks
  have hmain : ∀ (st : LexSt), st.br = none → st.cls = none →
      lexGo o (sg.s0 ++ tailText sg.segs sg.post) st =
        some (st.items ++ ((simpleToks o.be sg.s0 ++ tailToks o.be sg.segs sg.post).flatMap trAtoms).map Item.a) := by
    intro st hbr hcls
    obtain ⟨cs, hrec⟩ := lexGo_simple_pre o sg.s0 _ hs0 (tailText_head sg.segs sg.post) st hbr hcls
    rw [hrec, lexGo_tail o sg.segs sg.post hsegs _ rfl rfl]
    simp only [List.flatMap_append, flatMap_trAtoms_simple _ (simpleToks_simple o.be sg.s0 hs0), itemsOf]
    simp
  cases hp : sg.pre
  · simp only [Bool.false_eq_true, ↓reduceIte, List.nil_append]
    rw [hmain _ rfl rfl]; simp
  · simp only [↓reduceIte, List.cons_append, List.nil_append]
    rw [lexGo_dstar_start o _ _ rfl rfl rfl, hmain _ rfl rfl]
    simp [trAtoms, trAtom]

/-- the atoms of a well-formed glob are not all `dirs` -/
theorem starGlob_not_onlyDirs (be : Bool) (sg : StarGlob) (hw : sg.wf be = true) :
    onlyDirs (((sg.toks be).flatMap trAtoms).map Item.a) = false := by
  simp only [StarGlob.wf, Bool.and_eq_true, Bool.not_eq_eq_eq_not, Bool.not_true,
    Bool.and_eq_false_iff, Bool.not_eq_eq_eq_not] at hw
  obtain ⟨⟨hs0, _⟩, hne⟩ := hw
  unfold onlyDirs
  -- some item is not `dirs`, or there is no item at all
  by_cases hall : ((sg.toks be).flatMap trAtoms).map Item.a = []
  · simp [hall]
  · simp only [Bool.and_eq_false_iff, Bool.not_eq_eq_eq_not, Bool.not_true, List.isEmpty_eq_false_iff,
      List.all_eq_false]
    right
    unfold StarGlob.toks
    -- find a witness
    by_cases hs : simpleToks be sg.s0 = []
    · cases hsegs : sg.segs with
      | nil =>
        cases hpost : sg.post
        · -- then pre must be false (wf) and the list is empty
          cases hpre : sg.pre
          · exfalso; apply hall; simp [StarGlob.toks, hs, hsegs, hpost, hpre, tailToks]
          · exfalso
            have hs0e : sg.s0 = [] := by
              cases h0 : sg.s0 with
              | nil => rfl
              | cons c g =>
                exfalso
                have := hs
                rw [h0] at this hs0
                cases g with
                | nil =>
                  simp only [simpleGlob, Bool.and_eq_true, Bool.not_eq_eq_eq_not, Bool.not_true] at hs0
                  simp [simpleToks, hs0.2] at this
                | cons e g => simp only [simpleToks] at this; split at this <;> simp at this
            simp [hpre, hs0e, hsegs, hpost] at hne
        · exact ⟨.a (.lit 47), by simp [hs, hsegs, hpost, tailToks, trAtoms], by decide⟩
      | cons s segs' =>
        exact ⟨.a (.lit 47), by simp [hs, tailToks, trAtoms], by decide⟩
    · obtain ⟨t, ts, hts⟩ := List.exists_cons_of_ne_nil hs
      have hnd := simpleToks_no_dirs be sg.s0 t (by rw [hts]; simp)
      have hsim := simpleToks_simple be sg.s0 hs0 t (by rw [hts]; simp)
      refine ⟨.a (trAtom t), ?_, by simpa using hnd⟩
      have : trAtoms t = [trAtom t] := by cases t <;> simp_all [trAtoms, simpleTok]
      simp [hts, this]

/-! ### regex meaning = documented meaning, now with `**` -/

theorem mem_splits_iff {t x r : Bytes} : (x, r) ∈ splits t ↔ t = x ++ r := by
  induction t generalizing x r with
  | nil =>
    simp only [splits, List.mem_singleton, Prod.mk.injEq]
    constructor
    · rintro ⟨rfl, rfl⟩; rfl
    · intro h
      have := List.append_eq_nil_iff.mp h.symm
      exact this
  | cons b t ih =>
    simp only [splits, List.mem_cons, Prod.mk.injEq, List.mem_map, Prod.exists]
    constructor
    · rintro (⟨rfl, rfl⟩ | ⟨x', r', hm, rfl, rfl⟩)
      · rfl
      · simp [ih.mp hm]
    · intro h
      cases x with
      | nil => left; exact ⟨rfl, by simpa using h.symm⟩
      | cons c x' =>
        simp only [List.cons_append, List.cons.injEq] at h
        right
        exact ⟨x', r, ih.mpr h.2, by rw [h.1], rfl⟩

/-- "nothing, or anything that ends in `/`" is `(?:/?|.*/)` -/
theorem dirs_any_eq (k : Bytes → Bool) (p : Bytes) :
    ((splits p).any fun xr => (xr.1.isEmpty || xr.1.getLast? == some 47) && k xr.2) =
      (p :: afterSlashes p).any k := by
  apply Bool.eq_iff_iff.mpr
  simp only [List.any_eq_true, Prod.exists, Bool.and_eq_true, Bool.or_eq_true, List.isEmpty_iff,
    beq_iff_eq, List.mem_cons]
  constructor
  · rintro ⟨x, r, hm, hc, hk⟩
    have hp := mem_splits_iff.mp hm
    rcases hc with rfl | hl
    · exact ⟨r, Or.inl (by simpa using hp.symm), hk⟩
    · have hne : x ≠ [] := by intro h; simp [h] at hl
      have hx := List.dropLast_concat_getLast hne
      rw [List.getLast?_eq_some_getLast hne] at hl
      simp only [Option.some.injEq] at hl
      refine ⟨r, Or.inr (mem_afterSlashes.mpr ⟨x.dropLast, ?_⟩), hk⟩
      rw [hp, ← hx, hl]; simp
  · rintro ⟨r, (rfl | hr), hk⟩
    · exact ⟨[], r, mem_splits_iff.mpr rfl, Or.inl rfl, hk⟩
    · obtain ⟨x, hx⟩ := mem_afterSlashes.mp hr
      exact ⟨x ++ [47], r, mem_splits_iff.mpr (by simp [hx]), Or.inr (by simp), hk⟩

theorem rest_any_eq (k : Bytes → Bool) (p : Bytes) :
    ((splits p).any fun xr => k xr.2) = (starRests (fun _ => true) p).any k := by
  rw [star_any_eq]
  congr 1
  funext xr
  simp

theorem sameChar_47 (o : DocOpts) (b : Nat) : sameChar o 47 b = (b == 47) := by
  unfold sameChar
  cases o.ci
  · simp only [Bool.false_eq_true, ↓reduceIte]
    exact Bool.eq_iff_iff.mpr ⟨fun h => by simpa using (by simpa using h : 47 = b).symm,
      fun h => by simpa using (by simpa using h : b = 47).symm⟩
  · simp only [↓reduceIte]
    apply Bool.eq_iff_iff.mpr
    simp only [beq_iff_eq]
    constructor
    · intro h
      have h' : lowerA b = 47 := by rw [← h]; rfl
      unfold lowerA at h'
      split at h' <;> omega
    · rintro rfl; rfl

/-- a class token whose ranges are ASCII -/
def asciiCls : Tok → Bool
  | .cls _ rs => rs.all fun r => decide (r.1 < 128) && decide (r.2 < 128)
  | _ => false

/-- tokens of the `**` grammar, and ASCII classes -/
def starTok (t : Tok) : Bool :=
  simpleTok t || t == .recPrefix || t == .recZero || t == .recSuffix || asciiCls t

theorem inRanges_clsItems_ascii (rs : List (Nat × Nat))
    (h : rs.all (fun r => decide (r.1 < 128) && decide (r.2 < 128)) = true) (x : Nat) :
    inRanges (clsItems rs) x = inItems rs x := by
  induction rs with
  | nil => rfl
  | cons r rs ih =>
    simp only [List.all_cons, Bool.and_eq_true, decide_eq_true_eq] at h
    have ih' := ih h.2
    simp only [clsItems, List.flatMap_cons, inRanges, List.any_append, inItems, List.any_cons] at ih' ⊢
    rw [ih']
    congr 1
    unfold rangeItems
    simp only [utf8Enc, h.1.1, h.1.2, ↓reduceIte]
    by_cases he : r.1 = r.2
    · simp [he]
    · have : (r.1 == r.2) = false := by simpa using he
      simp [this]

theorem inCls_eq_clsHas' (ci ls be ea neg : Bool) (rs : List (Nat × Nat))
    (h : rs.all (fun r => decide (r.1 < 128) && decide (r.2 < 128)) = true) (b : Nat) :
    inCls ci neg rs b = clsHas ⟨ci, ls, be, ea⟩ neg rs b := by
  unfold inCls clsHas
  simp only [inRanges_clsItems_ascii rs h]
  cases ci
  · cases neg <;> cases inItems rs b <;> rfl
  · simp only [Bool.true_and, ↓reduceIte]
    have hsw : (inItems rs b || inItems rs (swapCase b)) =
        (inItems rs (lowerA b) || inItems rs (upperA b) || inItems rs b) := by
      unfold swapCase lowerA upperA
      by_cases h1 : 65 ≤ b ∧ b ≤ 90
      · have h2 : ¬ (97 ≤ b ∧ b ≤ 122) := by omega
        simp only [h1, h2, and_self, ↓reduceIte]
        cases inItems rs b <;> cases inItems rs (b + 32) <;> rfl
      · by_cases h2 : 97 ≤ b ∧ b ≤ 122
        · simp only [h1, h2, and_self, ↓reduceIte]
          cases inItems rs b <;> cases inItems rs (b - 32) <;> rfl
        · simp only [h1, h2, ↓reduceIte]
          cases inItems rs b <;> rfl
    rw [hsw]
    cases neg <;> cases (inItems rs (lowerA b) || inItems rs (upperA b) || inItems rs b) <;> rfl

/-- **classes, negation, ranges and case folding inside classes**: the regex class printed for a class token
with ASCII ranges has exactly the documented members -/
theorem inCls_eq_clsHas (o : Opts) (neg : Bool) (rs : List (Nat × Nat))
    (h : rs.all (fun r => decide (r.1 < 128) && decide (r.2 < 128)) = true) (b : Nat) :
    inCls o.ci neg rs b = clsHas (docOpts o) neg rs b :=
  inCls_eq_clsHas' o.ci o.ls o.be o.ea neg rs h b

theorem tokensK_eq_atomsMatch_star (o : Opts) (ts : List Tok) (hts : ∀ t ∈ ts, starTok t = true) (p : Bytes) :
    tokensK o (ts.map Token.s) (fun r => r.isEmpty) p = atomsMatch (docOpts o) (ts.flatMap trAtoms) p := by
  induction ts generalizing p with
  | nil => simp [tokensK, atomsMatch]
  | cons t ts ih =>
    have ih' := fun p => ih (fun t ht => hts t (by simp [ht])) p
    have ht := hts t (by simp)
    cases t with
    | lit c =>
      have hc : c < 128 := by simpa [starTok, simpleTok, asciiCls] using ht
      simp only [List.map_cons, List.flatMap_cons, trAtoms, trAtom, List.singleton_append, tokensK,
        tokRests, utf8Enc, hc, ↓reduceIte]
      cases p with
      | nil => simp [litRest, atomsMatch]
      | cons b p =>
        simp only [litRest, atomsMatch, sameChar_eq]
        cases h : eqB o.ci c b <;> simp [ih']
    | any =>
      simp only [List.map_cons, List.flatMap_cons, trAtoms, trAtom, List.singleton_append]
      cases p with
      | nil => simp [tokensK, tokRests, atomsMatch]
      | cons b p =>
        simp only [tokensK, tokRests, atomsMatch, wild_eq]
        cases h : anyOk o b <;> simp [ih']
    | star =>
      simp only [List.map_cons, List.flatMap_cons, trAtoms, trAtom, List.singleton_append, tokensK,
        tokRests, atomsMatch]
      rw [star_any_eq]
      congr 1
      funext xr
      simp only [ih']
      congr 1
    | recPrefix =>
      simp only [List.map_cons, List.flatMap_cons, trAtoms, trAtom, List.singleton_append, tokensK,
        tokRests, atomsMatch]
      rw [dirs_any_eq]
      congr 1
      funext r
      exact ih' r
    | recZero =>
      simp only [List.map_cons, List.flatMap_cons, trAtoms, List.cons_append, List.nil_append, tokensK]
      cases p with
      | nil => simp [tokRests, atomsMatch]
      | cons b p =>
        simp only [tokRests, atomsMatch, sameChar_47]
        cases hb : (b == 47)
        · simp
        · simp only [↓reduceIte, Bool.true_and]
          rw [dirs_any_eq]
          congr 1
          funext r
          exact ih' r
    | recSuffix =>
      simp only [List.map_cons, List.flatMap_cons, trAtoms, List.cons_append, List.nil_append, tokensK]
      cases p with
      | nil => simp [tokRests, atomsMatch]
      | cons b p =>
        simp only [tokRests, atomsMatch, sameChar_47]
        cases hb : (b == 47)
        · simp
        · simp only [↓reduceIte, Bool.true_and]
          rw [rest_any_eq]
          congr 1
          funext r
          exact ih' r
    | cls n r =>
      have hr : r.all (fun r => decide (r.1 < 128) && decide (r.2 < 128)) = true := by
        simpa [starTok, simpleTok, asciiCls] using ht
      simp only [List.map_cons, List.flatMap_cons, trAtoms, trAtom, List.singleton_append]
      cases p with
      | nil => simp [tokensK, tokRests, atomsMatch]
      | cons b p =>
        simp only [tokensK, tokRests, atomsMatch, inCls_eq_clsHas o n r hr]
        cases h : clsHas (docOpts o) n r b <;> simp [ih']

theorem tailToks_starTok (be : Bool) (segs : List (List Nat)) (post : Bool)
    (hw : segs.all (simpleGlob be) = true) : ∀ t ∈ tailToks be segs post, starTok t = true := by
  induction segs with
  | nil => cases post <;> simp [tailToks, starTok]
  | cons s segs ih =>
    simp only [List.all_cons, Bool.and_eq_true] at hw
    intro t ht
    simp only [tailToks, List.mem_cons, List.mem_append] at ht
    rcases ht with (rfl | ht) | ht
    · simp [starTok]
    · simp [starTok, simpleToks_simple be s hw.1 t ht]
    · exact ih hw.2 t ht

theorem starGlob_toks_starTok (be : Bool) (sg : StarGlob) (hw : sg.wf be = true) :
    ∀ t ∈ sg.toks be, starTok t = true := by
  simp only [StarGlob.wf, Bool.and_eq_true] at hw
  obtain ⟨⟨hs0, hsegs⟩, _⟩ := hw
  intro t ht
  simp only [StarGlob.toks, List.mem_append] at ht
  rcases ht with (ht | ht) | ht
  · have : t = .recPrefix := by
      cases hp : sg.pre <;> simp [hp] at ht
      exact ht
    subst this; simp [starTok]
  · simp [starTok, simpleToks_simple be sg.s0 hs0 t ht]
  · exact tailToks_starTok be sg.segs sg.post hsegs t ht

theorem simpleToks_eq_nil {be : Bool} {g : List Nat} (hg : simpleGlob be g = true)
    (h : simpleToks be g = []) : g = [] := by
  cases g with
  | nil => rfl
  | cons c g =>
    exfalso
    cases g with
    | nil =>
      simp only [simpleGlob, Bool.and_eq_true, Bool.not_eq_eq_eq_not, Bool.not_true] at hg
      simp [simpleToks, hg.2] at h
    | cons e g => simp only [simpleToks] at h; split at h <;> simp at h

theorem starGlob_toks_ne (be : Bool) (sg : StarGlob) (hw : sg.wf be = true) :
    (sg.toks be).map Token.s ≠ [.s .recPrefix] := by
  have hw' := hw
  simp only [StarGlob.wf, Bool.and_eq_true, Bool.not_eq_eq_eq_not, Bool.not_true,
    Bool.and_eq_false_iff, Bool.not_eq_eq_eq_not] at hw'
  obtain ⟨⟨hs0, hsegs⟩, hne⟩ := hw'
  intro h
  have hlen := congrArg List.length h
  simp only [StarGlob.toks, List.map_append, List.length_append, List.length_map, List.length_cons,
    List.length_nil] at hlen
  cases hpre : sg.pre
  · -- the first token would have to be `RecursivePrefix`, but it is a wildcard token, a `/**/` or a `/**`
    simp only [StarGlob.toks, hpre, Bool.false_eq_true, ↓reduceIte, List.nil_append] at h
    cases hst : simpleToks be sg.s0 with
    | nil =>
      rw [hst] at h
      cases hsg : sg.segs with
      | nil => rw [hsg] at h; cases hpo : sg.post <;> simp [tailToks, hpo] at h
      | cons s segs => rw [hsg] at h; simp [tailToks] at h
    | cons t ts =>
      rw [hst] at h
      have := simpleToks_simple be sg.s0 hs0 t (by rw [hst]; simp)
      simp only [List.cons_append, List.map_cons, List.cons.injEq, Token.s.injEq] at h
      rw [h.1] at this; simp [simpleTok] at this
  · simp only [hpre, ↓reduceIte, List.length_cons, List.length_nil] at hlen
    have h0 : (simpleToks be sg.s0).length = 0 := by omega
    have h1 : (tailToks be sg.segs sg.post).length = 0 := by omega
    have hs0e := simpleToks_eq_nil hs0 (List.length_eq_zero_iff.mp h0)
    have hsegs0 : sg.segs = [] := by
      cases hsg : sg.segs with
      | nil => rfl
      | cons s segs => rw [hsg] at h1; simp [tailToks] at h1
    have hpost : sg.post = false := by
      cases hp : sg.post with
      | false => rfl
      | true => rw [hsegs0, hp] at h1; simp [tailToks] at h1
    simp [hpre, hs0e, hsegs0, hpost] at hne

/-- **C12_doc with `**`** -/
theorem doc_starGlob (o : Opts) (sg : StarGlob) (hw : sg.wf o.be = true) (p : Bytes) :
    ∃ toks, parse o sg.text = .ok toks ∧ okGlob (docOpts o) sg.text = true ∧
      tokMatch o toks p = docMatch (docOpts o) sg.text p := by
  have hlex : docLex (docOpts o) sg.text = some [(sg.toks o.be).flatMap trAtoms] := by
    unfold docLex
    have hbe : (docOpts o).be = o.be := rfl
    rw [lexGo_starGlob (docOpts o) sg (by rw [hbe]; exact hw)]
    simp only [hbe]
    rw [starGlob_not_onlyDirs o.be sg hw]
    exact expand_atoms' _ _
  refine ⟨(sg.toks o.be).map Token.s, parse_starGlob o sg hw, by simp [okGlob, hlex], ?_⟩
  unfold docMatch
  rw [hlex]
  simp only [List.any_cons, List.any_nil, Bool.or_false]
  rw [tokMatch_eq _ _ _ (starGlob_toks_ne o.be sg hw)]
  exact tokensK_eq_atomsMatch_star o _ (starGlob_toks_starTok o.be sg hw) p

/-- the glob `**` matches everything -/
theorem doc_dstar_only (o : Opts) (p : Bytes) :
    parse o [42, 42] = .ok [.s .recPrefix] ∧ okGlob (docOpts o) [42, 42] = true ∧
      tokMatch o [.s .recPrefix] p = docMatch (docOpts o) [42, 42] p := by
  have hlex : docLex (docOpts o) [42, 42] = some [[.rest]] := by
    unfold docLex
    rw [lexGo_dstar_only _ _ rfl rfl rfl]
    rfl
  refine ⟨parse_dstar_only o, by simp [okGlob, hlex], ?_⟩
  unfold docMatch
  rw [hlex]
  simp only [tokMatch, List.any_cons, List.any_nil, Bool.or_false, atomsMatch]
  symm
  simp only [List.any_eq_true, Prod.exists]
  exact ⟨p, [], mem_splits_iff.mpr (by simp), rfl⟩

/-! ### a decidable guard -/

def splitMid : List Nat → List Nat → List (List Nat)
  | [], cur => [cur]
  | 47 :: 42 :: 42 :: 47 :: rest, cur => cur :: splitMid rest []
  | c :: rest, cur => splitMid rest (cur ++ [c])

/-- best-effort decomposition (its correctness is not needed: `okStarGlob` re-renders and compares) -/
def decomposeStar (g : List Nat) : StarGlob :=
  let pre := [42, 42, 47].isPrefixOf g
  let g1 := if pre then g.drop 3 else g
  let post := [47, 42, 42].isSuffixOf g1
  let g2 := if post then g1.take (g1.length - 3) else g1
  match splitMid g2 [] with
  | [] => { pre := pre, s0 := [], segs := [], post := post }
  | s0 :: segs => { pre := pre, s0 := s0, segs := segs, post := post }

/-- globs of the form [`**/`] S₀ (`/**/` Sᵢ)* [`/**`] with wildcard-grammar segments, or the glob `**` -/
def okStarGlob (be : Bool) (g : List Nat) : Bool :=
  g == [42, 42] || ((decomposeStar g).text == g && (decomposeStar g).wf be)

theorem doc_okStarGlob (o : Opts) (g : List Nat) (hg : okStarGlob o.be g = true) (p : Bytes) :
    ∃ toks, parse o g = .ok toks ∧ okGlob (docOpts o) g = true ∧
      tokMatch o toks p = docMatch (docOpts o) g p := by
  unfold okStarGlob at hg
  simp only [Bool.or_eq_true, beq_iff_eq, Bool.and_eq_true] at hg
  rcases hg with rfl | ⟨ht, hw⟩
  · exact ⟨_, (doc_dstar_only o p).1, (doc_dstar_only o p).2.1, (doc_dstar_only o p).2.2⟩
  · rw [← ht]; exact doc_starGlob o _ hw p

end RgVerif.Glob
