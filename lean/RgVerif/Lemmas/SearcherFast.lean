import RgVerif.Lemmas.SearcherTrunc
/-
The fast line-by-line path (`match_by_line_fast`, `match_by_line_fast_invert`) under the invariant,
relative to a contract on `find_by_line_fast` (`FindSpec`): it returns the next line the pattern
matches.  (`Lemmas/SearcherFind.lean` derives the contract from a `LineSafe`-style matcher contract.)
-/
namespace RgVerif.Searcher
open RgVerif RgVerif.Matcher RgVerif.Lines RgVerif.GrepSpec

/-- first index in `[p, p + d)` satisfying `f` -/
def firstFrom (f : Nat → Bool) : Nat → Nat → Option Nat
  | _, 0 => none
  | p, d + 1 => if f p then some p else firstFrom f (p + 1) d

theorem firstFrom_none {f : Nat → Bool} : ∀ {d p : Nat}, firstFrom f p d = none →
    ∀ j, p ≤ j → j < p + d → f j = false := by
  intro d
  induction d with
  | zero => intro p _ j h1 h2; omega
  | succ d ih =>
    intro p h j h1 h2
    unfold firstFrom at h
    split at h
    · exact Option.noConfusion h
    · rename_i hf
      by_cases hj : j = p
      · subst hj; simpa using hf
      · exact ih h j (by omega) (by omega)

theorem firstFrom_some {f : Nat → Bool} : ∀ {d p i : Nat}, firstFrom f p d = some i →
    p ≤ i ∧ i < p + d ∧ f i = true ∧ ∀ j, p ≤ j → j < i → f j = false := by
  intro d
  induction d with
  | zero => intro p i h; exact Option.noConfusion h
  | succ d ih =>
    intro p i h
    unfold firstFrom at h
    split at h
    · rename_i hf
      have : p = i := by simpa using h
      subst this
      exact ⟨Nat.le_refl _, by omega, hf, fun j h1 h2 => by omega⟩
    · rename_i hf
      obtain ⟨h1, h2, h3, h4⟩ := ih h
      refine ⟨by omega, by omega, h3, fun j hj1 hj2 => ?_⟩
      by_cases hj : j = p
      · subst hj; simpa using hf
      · exact h4 j (by omega) hj2

/-- does the pattern match line `j` (the selection bit with inversion undone) -/
def pmAt (cfg : Config) (sl : List SLine) (j : Nat) : Bool := selAt sl j != cfg.invertMatch

/-- Contract on `find_by_line_fast` for the buffer `buf` made of the lines `sl`: started at the beginning
of line `p` it returns the first line from `p` on that the pattern matches, if any. -/
def FindSpec (cfg : Config) (m : MatcherI) (buf : Bytes) (sl : List SLine) : Prop :=
  ∀ (st : Core) (p : Nat), p ≤ sl.length → st.pos = offsetAt sl p →
    findByLineFast cfg m buf st = (firstFrom (pmAt cfg sl) p (sl.length - p)).map (span sl)

/-- state of the fast loop when its scan position is the start of line `p`; `v` lines are decided -/
structure FastInv (cfg : Config) (sl : List SLine) (v p : Nat) (st : Core) : Prop where
  inv : Inv cfg sl v st
  vp : v ≤ p
  unsel : Unsel sl v p
  acl : AclOK cfg.afterContext sl v st.afterContextLeft
  pos : st.pos = offsetAt sl p

section
variable {t : Nat} {buf : Bytes} {sl : List SLine} {cfg : Config} {m : MatcherI}

theorem drop_isEmpty_iff (L : Layout t buf sl) (hlen : buf.length = offsetAt sl sl.length) {p : Nat}
    (hp : p ≤ sl.length) : (buf.drop (offsetAt sl p)).isEmpty = decide (p = sl.length) := by
  by_cases h : p = sl.length
  · subst h; simp [← hlen]
  · have hlt := L.off_lt (show p < sl.length by omega) (Nat.le_refl _)
    simp only [h, decide_false]
    rw [List.isEmpty_eq_false_iff]
    intro he
    have := congrArg List.length he
    simp at this; omega

/-- with no context configured nothing is ever owed -/
theorem acl_zero_of_noctx {v acl : Nat} (h : AclOK cfg.afterContext sl v acl) (hA : cfg.afterContext = 0) :
    acl = 0 := by
  apply Classical.byContradiction; intro hne
  have := (h v (Nat.le_refl v) (fun j h1 h2 => by omega)).mpr (by omega)
  obtain ⟨j', h1, _, h3⟩ := afterWin_iff.mp this
  omega

/-- the context part of one fast-loop iteration followed by `sink_matched`, for the selected line `i` -/
theorem fast_match_step (L : Layout t buf sl) (ht : cfg.lineTerm.asByte = t) (hbin : cfg.binary = .none)
    (hpt : cfg.passthru = false) {v i : Nat} {st : Core} (hI : Inv cfg sl v st) (hvi : v ≤ i)
    (hi : i < sl.length) (hu : Unsel sl v i) (hs : selAt sl i = true)
    (hacl : AclOK cfg.afterContext sl v st.afterContextLeft) :
    ∃ st1 st2 st3, afterContextByLine cfg allCont buf st (offsetAt sl i) = (st1, .ok true) ∧
      beforeContextByLine cfg allCont buf st1 (offsetAt sl i) = (st2, .ok true) ∧
      (∀ q, sinkMatched cfg allCont buf { st2 with pos := q } (span sl i) = (st3 q, .ok true) ∧
        Inv cfg sl (i + 1) (st3 q) ∧ (st3 q).afterContextLeft = cfg.afterContext ∧ (st3 q).pos = q ∧
        (st3 q).hasMatched = st.hasMatched) := by
  obtain ⟨st1, e1, hI1, hacl1, haclok1, hf1⟩ := afterCtx_step L ht hbin hI hvi (by omega) hu hacl
  have hz : v + min st.afterContextLeft (i - v) < i → st1.afterContextLeft = 0 := by
    intro h; rw [hacl1]; omega
  obtain ⟨v2, st2, e2, hI2, hv2, hskip2, hacl2, hf2⟩ :=
    beforeCtx_step L ht hbin hI1 (by omega) hi (hu.mono (by omega) (Nat.le_refl _)) hs haclok1 hz
      (fun h => by rw [hpt] at h; exact Bool.noConfusion h)
  have hstep : ∀ q, ∃ st3, sinkMatched cfg allCont buf { st2 with pos := q } (span sl i) = (st3, .ok true) ∧
      Inv cfg sl (i + 1) st3 ∧ st3.afterContextLeft = cfg.afterContext ∧ st3.pos = q ∧
      st3.hasMatched = st.hasMatched := by
    intro q
    have hI2' : Inv cfg sl v2 { st2 with pos := q } := hI2.of_fields rfl rfl rfl rfl rfl rfl rfl
    obtain ⟨st3, e3, hI3, hacl3, hf3⟩ := sinkMatched_step L ht hbin hI2' hv2 hi hskip2 (kind_matched hs)
    exact ⟨st3, e3, hI3, hacl3, hf3.1, by rw [hf3.2.1]; show st2.hasMatched = _; rw [hf2.2.1, hf1.2.1]⟩
  refine ⟨st1, st2, fun q => Classical.choose (hstep q), e1, e2, fun q => Classical.choose_spec (hstep q)⟩

end
end RgVerif.Searcher
