import RgVerif.Lemmas.SearcherTrunc
/-
The fast line-by-line path (`match_by_line_fast`, `match_by_line_fast_invert`) under the invariant,
relative to a contract on `find_by_line_fast` (`FindSpec`): it returns the next line the pattern
matches.  (`Lemmas/SearcherFind.lean` derives the contract from a `LineSafe`-style matcher contract.)
-/
namespace RgVerif.Searcher
open RgVerif RgVerif.Matcher RgVerif.Lines RgVerif.GrepSpec

/-- first index in `[p, p + d)` satisfying `f` -/
def firstFrom (f : Nat → Bool) : Nat → Nat → Option Nat
  | _, 0 => none
  | p, d + 1 => if f p then some p else firstFrom f (p + 1) d

theorem firstFrom_none {f : Nat → Bool} : ∀ {d p : Nat}, firstFrom f p d = none →
    ∀ j, p ≤ j → j < p + d → f j = false := by
  intro d
  induction d with
  | zero => intro p _ j h1 h2; omega
  | succ d ih =>
    intro p h j h1 h2
    unfold firstFrom at h
    split at h
    · cases h
    · rename_i hf
      by_cases hj : j = p
      · subst hj; simpa using hf
      · exact ih h j (by omega) (by omega)

theorem firstFrom_some {f : Nat → Bool} : ∀ {d p i : Nat}, firstFrom f p d = some i →
    p ≤ i ∧ i < p + d ∧ f i = true ∧ ∀ j, p ≤ j → j < i → f j = false := by
  intro d
  induction d with
  | zero => intro p i h; cases h
  | succ d ih =>
    intro p i h
    unfold firstFrom at h
    split at h
    · rename_i hf
      have : p = i := by simpa using h
      subst this
      exact ⟨Nat.le_refl _, by omega, hf, fun j h1 h2 => by omega⟩
    · rename_i hf
      obtain ⟨h1, h2, h3, h4⟩ := ih h
      refine ⟨by omega, by omega, h3, fun j hj1 hj2 => ?_⟩
      by_cases hj : j = p
      · subst hj; simpa using hf
      · exact h4 j (by omega) hj2

/-- does the pattern match line `j` (the selection bit with inversion undone) -/
def pmAt (cfg : Config) (sl : List SLine) (j : Nat) : Bool := selAt sl j != cfg.invertMatch

/-- Contract on `find_by_line_fast` for the buffer `buf` made of the lines `sl`: started at the beginning
of line `p` it returns the first line from `p` on that the pattern matches, if any. -/
def FindSpec (cfg : Config) (m : MatcherI) (buf : Bytes) (sl : List SLine) : Prop :=
  ∀ (st : Core) (p : Nat), p ≤ sl.length → st.pos = offsetAt sl p →
    findByLineFast cfg m buf st = (firstFrom (pmAt cfg sl) p (sl.length - p)).map (span sl)

/-- state of the fast loop when its scan position is the start of line `p`; `v` lines are decided -/
structure FastInv (cfg : Config) (sl : List SLine) (v p : Nat) (st : Core) : Prop where
  inv : Inv cfg sl v st
  vp : v ≤ p
  unsel : Unsel sl v p
  acl : AclOK cfg.afterContext sl v st.afterContextLeft
  pos : st.pos = offsetAt sl p

section
variable {t : Nat} {buf : Bytes} {sl : List SLine} {cfg : Config} {m : MatcherI}

theorem drop_isEmpty_iff (L : Layout t buf sl) (hlen : buf.length = offsetAt sl sl.length) {p : Nat}
    (hp : p ≤ sl.length) : (buf.drop (offsetAt sl p)).isEmpty = decide (p = sl.length) := by
  by_cases h : p = sl.length
  · subst h; simp [← hlen]
  · have hlt := L.off_lt (show p < sl.length by omega) (Nat.le_refl _)
    simp only [h, decide_false]
    rw [List.isEmpty_eq_false_iff]
    intro he
    have := congrArg List.length he
    simp at this; omega

/-- with no context configured nothing is ever owed -/
theorem acl_zero_of_noctx {v acl : Nat} (h : AclOK cfg.afterContext sl v acl) (hA : cfg.afterContext = 0) :
    acl = 0 := by
  apply Classical.byContradiction; intro hne
  have := (h v (Nat.le_refl v) (fun j h1 h2 => by omega)).mpr (by omega)
  obtain ⟨j', h1, _, h3⟩ := afterWin_iff.mp this
  omega

/-- the context part of one fast-loop iteration followed by `sink_matched`, for the selected line `i` -/
theorem fast_match_step (L : Layout t buf sl) (ht : cfg.lineTerm.asByte = t) (hbin : cfg.binary = .none)
    (hpt : cfg.passthru = false) {v i : Nat} {st : Core} (hI : Inv cfg sl v st) (hvi : v ≤ i)
    (hi : i < sl.length) (hu : Unsel sl v i) (hs : selAt sl i = true)
    (hacl : AclOK cfg.afterContext sl v st.afterContextLeft) :
    ∃ st1 st2, afterContextByLine cfg allCont buf st (offsetAt sl i) = (st1, .ok true) ∧
      beforeContextByLine cfg allCont buf st1 (offsetAt sl i) = (st2, .ok true) ∧
      (∀ q, ∃ st3, sinkMatched cfg allCont buf { st2 with pos := q } (span sl i) = (st3, .ok true) ∧
        Inv cfg sl (i + 1) st3 ∧ st3.afterContextLeft = cfg.afterContext ∧ st3.pos = q ∧
        st3.hasMatched = st.hasMatched) := by
  obtain ⟨st1, e1, hI1, hacl1, haclok1, hf1⟩ := afterCtx_step L ht hbin hI hvi (by omega) hu hacl
  have hz : v + min st.afterContextLeft (i - v) < i → st1.afterContextLeft = 0 := by
    intro h; rw [hacl1]; omega
  obtain ⟨v2, st2, e2, hI2, hv2, hskip2, hacl2, hf2⟩ :=
    beforeCtx_step L ht hbin hI1 (by omega) hi (hu.mono (by omega) (Nat.le_refl _)) hs haclok1 hz
      (fun h => by rw [hpt] at h; exact Bool.noConfusion h)
  refine ⟨st1, st2, e1, e2, ?_⟩
  · intro q
    have hI2' : Inv cfg sl v2 { st2 with pos := q } := hI2.of_fields rfl rfl rfl rfl rfl rfl rfl
    obtain ⟨st3, e3, hI3, hacl3, hf3⟩ := sinkMatched_step L ht hbin hI2' hv2 hi hskip2 (kind_matched hs)
    exact ⟨st3, e3, hI3, hacl3, hf3.1, by rw [hf3.2.1]; show st2.hasMatched = _; rw [hf2.2.1, hf1.2.1]⟩


/-- what the fast loop has established when it ends: everything from `v` on is unselected -/
structure EndInv (cfg : Config) (sl : List SLine) (v : Nat) (st : Core) : Prop where
  inv : Inv cfg sl v st
  vn : v ≤ sl.length
  unsel : Unsel sl v sl.length
  acl : AclOK cfg.afterContext sl v st.afterContextLeft

theorem pmAt_noninv (hinv : cfg.invertMatch = false) (j : Nat) : pmAt cfg sl j = selAt sl j := by
  simp [pmAt, hinv]

theorem pmAt_inv (hinv : cfg.invertMatch = true) (j : Nat) : pmAt cfg sl j = !selAt sl j := by
  simp [pmAt, hinv]

/-- the fast loop without inversion and without `stop_on_nonmatch` -/
theorem fastLoop_noninv (L : Layout t buf sl) (ht : cfg.lineTerm.asByte = t) (hbin : cfg.binary = .none)
    (hpt : cfg.passthru = false) (hlen : buf.length = offsetAt sl sl.length)
    (hinv : cfg.invertMatch = false) (hstop : cfg.stopOnNonmatch = false) (hfind : FindSpec cfg m buf sl) :
    ∀ (fuel p v : Nat) (st : Core), FastInv cfg sl v p st → p ≤ sl.length → sl.length - p < fuel →
      ∃ st' v', fastLoop cfg m allCont buf fuel st = (st', .ok none) ∧ EndInv cfg sl v' st' := by
  intro fuel
  induction fuel with
  | zero => intro p v st _ _ h; omega
  | succ fuel ih =>
    intro p v st hF hp hfuel
    have hd : (buf.drop st.pos).isEmpty = decide (p = sl.length) := by
      rw [hF.pos]; exact drop_isEmpty_iff L hlen hp
    rw [fastLoop, hd]
    by_cases hpn : p = sl.length
    · subst hpn
      exact ⟨st, v, by simp, ⟨hF.inv, hF.vp, hF.unsel, hF.acl⟩⟩
    · simp only [hpn, decide_false, Bool.false_eq_true, if_false, hstop, Bool.false_and, hinv]
      rw [hfind st p hp hF.pos]
      cases hff : firstFrom (pmAt cfg sl) p (sl.length - p) with
      | none =>
        have hnone := firstFrom_none hff
        refine ⟨st, v, rfl, ⟨hF.inv, by have := hF.vp; omega, ?_, hF.acl⟩⟩
        intro j h1 h2
        by_cases hj : j < p
        · exact hF.unsel j h1 hj
        · rw [← pmAt_noninv hinv]; exact hnone j (by omega) (by omega)
      | some i =>
        obtain ⟨hpi, hin, hsi, hbefore⟩ := firstFrom_some hff
        rw [pmAt_noninv hinv] at hsi
        have hu : Unsel sl v i := by
          intro j h1 h2
          by_cases hj : j < p
          · exact hF.unsel j h1 hj
          · rw [← pmAt_noninv hinv]; exact hbefore j (by omega) h2
        have hi : i < sl.length := by omega
        have hIm : Inv cfg sl v { st with hasMatched := true } := hF.inv.of_fields rfl rfl rfl rfl rfl rfl rfl
        obtain ⟨st1, st2, e1, e2, h3⟩ :=
          fast_match_step L ht hbin hpt hIm (by have := hF.vp; omega) hi hu hsi hF.acl
        obtain ⟨st3, e3, hI3, hacl3, hpos3, _⟩ := h3 (offsetAt sl (i + 1))
        have hF3 : FastInv cfg sl (i + 1) (i + 1) st3 :=
          ⟨hI3, Nat.le_refl _, fun j h1 h2 => by omega, by rw [hacl3]; exact aclOK_match hsi, hpos3⟩
        obtain ⟨st', v', e', hE'⟩ := ih (i + 1) (i + 1) st3 hF3 (by omega) (by omega)
        refine ⟨st', v', ?_, hE'⟩
        simp only [Option.map_some]
        have hs : (span sl i).s = offsetAt sl i := rfl
        have he : (span sl i).e = offsetAt sl (i + 1) := rfl
        by_cases hmc : cfg.maxContext > 0
        · simp only [hmc, if_true, hs, he, e1, e2, e3]
          exact e'
        · -- no context configured: the skipped calls would have been no-ops
          have hA : cfg.afterContext = 0 := by unfold Config.maxContext at hmc; omega
          have hB : cfg.beforeContext = 0 := by unfold Config.maxContext at hmc; omega
          have hacl0 : st.afterContextLeft = 0 := acl_zero_of_noctx hF.acl hA
          have e1' : st1 = { st with hasMatched := true } := by
            have : afterContextByLine cfg allCont buf { st with hasMatched := true } (offsetAt sl i)
                = ({ st with hasMatched := true }, .ok true) := by simp [afterContextByLine, hacl0]
            rw [this] at e1; exact (Prod.mk.inj e1).1.symm
          have e2' : st2 = st1 := by
            have : beforeContextByLine cfg allCont buf st1 (offsetAt sl i) = (st1, .ok true) := by
              simp [beforeContextByLine, hB]
            rw [this] at e2; exact (Prod.mk.inj e2).1.symm
          subst e2'
          subst e1'
          dsimp only at e3
          simp only [hmc, if_false, he, e3]
          exact e'


/-- context, then `sink_matched` for each line of the run `[p, q)` of selected lines
(the body of `match_by_line_fast_invert` once the run is known to be non-empty) -/
theorem invert_run (L : Layout t buf sl) (ht : cfg.lineTerm.asByte = t) (hbin : cfg.binary = .none)
    (hpt : cfg.passthru = false) {v p q : Nat} {st : Core} (hI : Inv cfg sl v st) (hvp : v ≤ p) (hpq : p < q)
    (hq : q ≤ sl.length) (hu : Unsel sl v p) (hsel : ∀ j, p ≤ j → j < q → selAt sl j = true)
    (hacl : AclOK cfg.afterContext sl v st.afterContextLeft) :
    ∃ st1 st2 st3, afterContextByLine cfg allCont buf st (offsetAt sl p) = (st1, .ok true) ∧
      beforeContextByLine cfg allCont buf st1 (offsetAt sl p) = (st2, .ok true) ∧
      matchedLoop cfg allCont buf (stepLines cfg.lineTerm.asByte buf (offsetAt sl p) (offsetAt sl q)) st2
        = (st3, .ok true) ∧
      Inv cfg sl q st3 ∧ st3.afterContextLeft = cfg.afterContext ∧ st3.pos = st.pos := by
  have hp : p < sl.length := by omega
  obtain ⟨st1, e1, hI1, hacl1, haclok1, hf1⟩ := afterCtx_step L ht hbin hI hvp (by omega) hu hacl
  have hz : v + min st.afterContextLeft (p - v) < p → st1.afterContextLeft = 0 := by
    intro h; rw [hacl1]; omega
  obtain ⟨v2, st2, e2, hI2, hv2, hskip2, hacl2, hf2⟩ :=
    beforeCtx_step L ht hbin hI1 (by omega) hp (hu.mono (by omega) (Nat.le_refl _))
      (hsel p (Nat.le_refl _) hpq) haclok1 hz (fun h => by rw [hpt] at h; exact Bool.noConfusion h)
  obtain ⟨st3, e3, hI3, hacl3, _, hf3⟩ :=
    matchedLoop_spec L ht hbin (q - p) p v2 st2 hI2 hv2 (fun h => by omega) (by omega) hskip2
      (fun j h1 h2 => kind_matched (hsel j h1 (by omega)))
  have eq : p + (q - p) = q := by omega
  rw [eq] at hI3
  refine ⟨st1, st2, st3, e1, e2, ?_, hI3, hacl3 (by omega), by rw [hf3.1, hf2.1, hf1.1]⟩
  rw [ht, L.stepLines_index p q (by omega) hq]
  exact e3

/-- one call of `match_by_line_fast_invert` with the scan position at the start of line `p < n` -/
theorem fast_iter_inv (L : Layout t buf sl) (ht : cfg.lineTerm.asByte = t) (hbin : cfg.binary = .none)
    (hpt : cfg.passthru = false) (hlen : buf.length = offsetAt sl sl.length)
    (hinv : cfg.invertMatch = true) (hfind : FindSpec cfg m buf sl)
    {v p : Nat} {st : Core} (hF : FastInv cfg sl v p st) (hp : p < sl.length) :
    ∃ st' v' p', matchByLineFastInvert cfg m allCont buf st = (st', .ok true) ∧
      FastInv cfg sl v' p' st' ∧ p < p' ∧ p' ≤ sl.length := by
  unfold matchByLineFastInvert
  rw [hfind st p (by omega) hF.pos]
  cases hff : firstFrom (pmAt cfg sl) p (sl.length - p) with
  | none =>
    have hnone := firstFrom_none hff
    have hsel : ∀ j, p ≤ j → j < sl.length → selAt sl j = true := by
      intro j h1 h2
      have := hnone j h1 (by omega)
      rw [pmAt_inv hinv] at this
      simpa using this
    have hIm : Inv cfg sl v { st with pos := buf.length, hasMatched := true } :=
      hF.inv.of_fields rfl rfl rfl rfl rfl rfl rfl
    obtain ⟨st1, st2, st3, e1, e2, e3, hI3, hacl3, hpos3⟩ :=
      invert_run L ht hbin hpt hIm hF.vp hp (Nat.le_refl _) hF.unsel hsel hF.acl
    refine ⟨st3, sl.length, sl.length, ?_, ⟨hI3, Nat.le_refl _, fun j h1 h2 => by omega, ?_, ?_⟩, hp, Nat.le_refl _⟩
    · have hne : ¬ ((buf.length - st.pos == 0) = true) := by
        have := L.off_lt hp (Nat.le_refl _)
        rw [hF.pos, hlen]; simp; omega
      simp only [Option.map_none, hne]
      rw [hF.pos, hlen] at *
      simp only [e1, e2]
      exact e3
    · rw [hacl3]
      have := hsel (sl.length - 1) (by omega) (by omega)
      have h2 := aclOK_match (A := cfg.afterContext) this
      have e : sl.length - 1 + 1 = sl.length := by omega
      rw [e] at h2; exact h2
    · rw [hpos3]; exact hlen
  | some j =>
    obtain ⟨hpj, hjn, hpmj, hbefore⟩ := firstFrom_some hff
    have hj : j < sl.length := by omega
    have hsj : selAt sl j = false := by
      rw [pmAt_inv hinv] at hpmj; simpa using hpmj
    have hsel : ∀ j', p ≤ j' → j' < j → selAt sl j' = true := by
      intro j' h1 h2
      have := hbefore j' h1 h2
      rw [pmAt_inv hinv] at this
      simpa using this
    simp only [Option.map_some]
    have hs : (span sl j).s = offsetAt sl j := rfl
    have he : (span sl j).e = offsetAt sl (j + 1) := rfl
    by_cases hpj' : p = j
    · -- empty run: the line at the scan position is unselected
      subst hpj'
      refine ⟨{ st with pos := offsetAt sl (p + 1) }, v, p + 1, ?_,
        ⟨hF.inv.of_fields rfl rfl rfl rfl rfl rfl rfl, by have := hF.vp; omega, ?_, hF.acl, rfl⟩, by omega, by omega⟩
      · simp [hs, he, hF.pos]
      · intro j' h1 h2
        by_cases h : j' = p
        · subst h; exact hsj
        · exact hF.unsel j' h1 (by omega)
    · have hlt : p < j := by omega
      have hIm : Inv cfg sl v { st with pos := offsetAt sl (j + 1), hasMatched := true } :=
        hF.inv.of_fields rfl rfl rfl rfl rfl rfl rfl
      obtain ⟨st1, st2, st3, e1, e2, e3, hI3, hacl3, hpos3⟩ :=
        invert_run L ht hbin hpt hIm hF.vp hlt (by omega) hF.unsel hsel hF.acl
      refine ⟨st3, j, j + 1, ?_, ⟨hI3, by omega, ?_, ?_, hpos3⟩, by omega, by omega⟩
      · have hne : ¬ ((offsetAt sl j - st.pos == 0) = true) := by
          have := L.off_lt hlt (by omega)
          rw [hF.pos]; simp; omega
        simp only [hs, he, hne]
        rw [hF.pos] at *
        simp only [e1, e2]
        exact e3
      · intro j' h1 h2
        have : j' = j := by omega
        subst this; exact hsj
      · rw [hacl3]
        have := hsel (j - 1) (by omega) (by omega)
        have h2 := aclOK_match (A := cfg.afterContext) this
        have e : j - 1 + 1 = j := by omega
        rw [e] at h2; exact h2


/-- the fast loop with inversion (`stop_on_nonmatch` never reaches it: that combination takes the slow path) -/
theorem fastLoop_inv (L : Layout t buf sl) (ht : cfg.lineTerm.asByte = t) (hbin : cfg.binary = .none)
    (hpt : cfg.passthru = false) (hlen : buf.length = offsetAt sl sl.length)
    (hinv : cfg.invertMatch = true) (hstop : cfg.stopOnNonmatch = false) (hfind : FindSpec cfg m buf sl) :
    ∀ (fuel p v : Nat) (st : Core), FastInv cfg sl v p st → p ≤ sl.length → sl.length - p < fuel →
      ∃ st' v', fastLoop cfg m allCont buf fuel st = (st', .ok none) ∧ EndInv cfg sl v' st' := by
  intro fuel
  induction fuel with
  | zero => intro p v st _ _ h; omega
  | succ fuel ih =>
    intro p v st hF hp hfuel
    have hd : (buf.drop st.pos).isEmpty = decide (p = sl.length) := by
      rw [hF.pos]; exact drop_isEmpty_iff L hlen hp
    rw [fastLoop, hd]
    by_cases hpn : p = sl.length
    · subst hpn
      exact ⟨st, v, by simp, ⟨hF.inv, hF.vp, hF.unsel, hF.acl⟩⟩
    · simp only [hpn, decide_false, Bool.false_eq_true, if_false, hstop, Bool.false_and, hinv, if_true]
      obtain ⟨st1, v1, p1, e1, hF1, hlt, hle⟩ := fast_iter_inv L ht hbin hpt hlen hinv hfind hF (by omega)
      obtain ⟨st', v', e', hE'⟩ := ih p1 v1 st1 hF1 hle (by omega)
      exact ⟨st', v', by rw [e1]; exact e', hE'⟩

/-- `match_by_line_fast` on the whole buffer, no `stop_on_nonmatch`: afterwards all lines are decided -/
theorem matchByLineFast_spec (L : Layout t buf sl) (ht : cfg.lineTerm.asByte = t) (hbin : cfg.binary = .none)
    (hpt : cfg.passthru = false) (hlen : buf.length = offsetAt sl sl.length)
    (hstop : cfg.stopOnNonmatch = false) (hfind : FindSpec cfg m buf sl)
    {st : Core} (hF : FastInv cfg sl 0 0 st) :
    ∃ st', matchByLineFast cfg m allCont buf st = (st', .ok .continue_) ∧ st'.pos = buf.length ∧
      st'.binaryByteOffset = none ∧
      st'.events = Event.begin :: (List.range sl.length).flatMap (lineEvents cfg sl) := by
  have hn : sl.length ≤ buf.length := by
    rw [hlen, ← off_flat, ← lsOf_length sl, List.take_length]
    exact L.good.length_le
  obtain ⟨st1, v1, e1, hE1⟩ : ∃ st' v', fastLoop cfg m allCont buf (buf.length + 1) st = (st', .ok none) ∧
      EndInv cfg sl v' st' := by
    cases hi : cfg.invertMatch
    · exact fastLoop_noninv L ht hbin hpt hlen hi hstop hfind _ 0 0 st hF (Nat.zero_le _) (by omega)
    · exact fastLoop_inv L ht hbin hpt hlen hi hstop hfind _ 0 0 st hF (Nat.zero_le _) (by omega)
  obtain ⟨st2, e2, hI2, hacl2, haclok2, hf2⟩ :=
    afterCtx_step L ht hbin hE1.inv hE1.vn (Nat.le_refl _) hE1.unsel hE1.acl
  rw [← hlen] at e2
  refine ⟨{ st2 with pos := buf.length }, ?_, rfl, hI2.bin, ?_⟩
  · unfold matchByLineFast
    rw [e1]
    simp only [e2]
  · show st2.events = _
    have hvn := hE1.vn
    have hskip : ∀ j, v1 + min st1.afterContextLeft (sl.length - v1) ≤ j → j < sl.length →
        kindAt cfg sl j = none := by
      intro j h1 h2
      exact kind_none haclok2 h1 (hE1.unsel.mono (by omega) (Nat.le_refl _)) h2 (by rw [hacl2]; omega) hpt
        (Or.inr (Nat.le_refl _))
    rw [hI2.ev, flatMap_skip cfg sl (v1 + min st1.afterContextLeft (sl.length - v1)) sl.length (by omega) hskip]

end
end RgVerif.Searcher
