import RgVerif.Lemmas.CoreFrame
import RgVerif.Lemmas.CoreShiftLoop
/-
The fast line-by-line path of `Core` (`match_by_line_fast`, `match_by_line_fast_invert`) against the
slow one, call by call, from an arbitrary state and for every sink script: given that
`find_by_line_fast` returns the next line the pattern matches (the matcher contract), both make the
same callbacks, return the same answer, and -- unless the sink said stop -- end in the same state.
-/
namespace RgVerif.Searcher
open RgVerif RgVerif.Matcher RgVerif.Lines RgVerif.GrepSpec

/-- the pattern matches the line (asked about the line alone, terminator removed) -/
def pmLineL (cfg : Config) (m : MatcherI) (l : Bytes) : Bool :=
  (m.shortestMatch (withoutTerminator l cfg.lineTerm)).isSome

/-- the line is selected (inversion applied) -/
def succL (cfg : Config) (m : MatcherI) (l : Bytes) : Bool := pmLineL cfg m l != cfg.invertMatch

theorem withPH_withPH (s : Core) (p q : Nat) (h k : Bool) : (s.withPH p h).withPH q k = s.withPH q k := rfl

/-- `after_context_by_line` when `last_line_visited` is the start of the lines `nl` -/
theorem afterContextByLine_lines {cfg : Config} (σ : Script) (buf : Bytes) (pre : Bytes) (nl : List Bytes) (T : Core)
    (htake : buf.take (pre.length + nl.flatten.length) = pre ++ nl.flatten)
    (hg : GoodLines cfg.lineTerm.asByte nl)
    (hJ : 0 < T.afterContextLeft → T.lastLineVisited = pre.length) :
    afterContextByLine cfg σ buf T (pre.length + nl.flatten.length)
      = if (T.afterContextLeft == 0) = true then (T, .ok true)
        else afterLoop cfg σ buf (spansFrom pre.length nl) T := by
  unfold afterContextByLine
  split
  · rfl
  · rename_i h0
    have hpos : 0 < T.afterContextLeft := by
      cases h : T.afterContextLeft with
      | zero => simp [h] at h0
      | succ n => omega
    rw [hJ hpos, stepLines_good pre nl hg _ htake rfl]

/-- **Lemma A**: the slow loop over lines that are not selected delivers what the (lazy)
`after_context_by_line` of the fast path delivers -/
theorem slow_nonsel {cfg : Config} (hbin : cfg.binary = .none) (hpt : cfg.passthru = false) (m : MatcherI)
    (σ : Script) (buf : Bytes) (nl : List Bytes) :
    ∀ (pre : Bytes) (T : Core),
      buf.take (pre.length + nl.flatten.length) = pre ++ nl.flatten → GoodLines cfg.lineTerm.asByte nl →
      (∀ l ∈ nl, succL cfg m l = false) →
      (0 < T.afterContextLeft → T.lastLineVisited = pre.length) →
      (nl ≠ [] → cfg.stopOnNonmatch = false ∨ T.hasMatched = false) →
      (slowLoop cfg m σ buf (spansFrom pre.length nl) T).2
          = (afterContextByLine cfg σ buf T (pre.length + nl.flatten.length)).2 ∧
        (slowLoop cfg m σ buf (spansFrom pre.length nl) T).1.withPH 0 false
          = (afterContextByLine cfg σ buf T (pre.length + nl.flatten.length)).1.withPH 0 false ∧
        ((slowLoop cfg m σ buf (spansFrom pre.length nl) T).2 = .ok true →
          (slowLoop cfg m σ buf (spansFrom pre.length nl) T).1.pos
              = (if nl = [] then T.pos else pre.length + nl.flatten.length) ∧
            (slowLoop cfg m σ buf (spansFrom pre.length nl) T).1.hasMatched = T.hasMatched) := by
  induction nl with
  | nil =>
    intro pre T htake hg _ hJ _
    rw [afterContextByLine_lines σ buf pre [] T htake hg hJ]
    simp only [spansFrom, slowLoop, afterLoop]
    split <;> simp
  | cons l nl ih =>
    intro pre T htake hg hns hJ hSC
    have hl := slice_line htake
    have hsucc : succL cfg m l = false := hns l (by simp)
    have hSC0 := hSC (by simp)
    have htake' : buf.take ((pre ++ l).length + nl.flatten.length) = (pre ++ l) ++ nl.flatten := by
      simpa [Nat.add_assoc] using htake
    have hg' : GoodLines cfg.lineTerm.asByte nl := goodLines_tail hg
    have hns' : ∀ x ∈ nl, succL cfg m x = false := fun x hx => hns x (by simp [hx])
    rw [afterContextByLine_lines σ buf pre (l :: nl) T htake hg hJ]
    simp only [spansFrom, slowLoop]
    rw [hl]
    have hs2 : ((m.shortestMatch (withoutTerminator l cfg.lineTerm)).isSome != cfg.invertMatch) = false := hsucc
    rw [hs2]
    simp only [Bool.false_eq_true, if_false, hpt, List.flatten_cons, List.length_append]
    -- the state with the position set is `withPH`
    have hT1 : ({ T with pos := pre.length + l.length } : Core) = T.withPH (pre.length + l.length) T.hasMatched := rfl
    rw [hT1]
    by_cases hz : (T.afterContextLeft == 0) = true
    · -- no after-context pending: nothing is delivered
      have hz0 : T.afterContextLeft = 0 := by simpa using hz
      have hge : ¬ T.afterContextLeft ≥ 1 := by omega
      rw [if_neg hge, if_pos hz]
      dsimp only
      have hstop : (cfg.stopOnNonmatch && !false && (T.withPH (pre.length + l.length) T.hasMatched).hasMatched) = false := by
        show (cfg.stopOnNonmatch && !false && T.hasMatched) = false
        cases hSC0 with
        | inl h => simp [h]
        | inr h => simp [h]
      rw [hstop]
      simp only [Bool.false_eq_true, if_false]
      have := ih (pre ++ l) (T.withPH (pre.length + l.length) T.hasMatched) htake' hg' hns'
        (fun h => by have : 0 < T.afterContextLeft := h; omega) (fun _ => hSC0)
      simp only [List.length_append] at this
      have hY0 := afterContextByLine_lines σ buf (pre ++ l) nl (T.withPH (pre.length + l.length) T.hasMatched)
        htake' hg' (fun h => by have : 0 < T.afterContextLeft := h; omega)
      simp only [List.length_append] at hY0
      rw [hY0] at this
      have hz' : ((T.withPH (pre.length + l.length) T.hasMatched).afterContextLeft == 0) = true := hz
      rw [if_pos hz'] at this
      obtain ⟨h1, h2, h3⟩ := this
      refine ⟨h1, by rw [h2]; rfl, fun hok => ?_⟩
      obtain ⟨p1, p2⟩ := h3 hok
      refine ⟨?_, p2⟩
      rw [p1]
      simp only [List.cons_ne_nil, if_false]
      split
      · rename_i hnil; rw [hnil]; simp; rfl
      · omega
    · -- after-context pending: this line is delivered by both
      have hpos : 0 < T.afterContextLeft := by
        cases h : T.afterContextLeft with
        | zero => simp [h] at hz
        | succ n => omega
      have hge : T.afterContextLeft ≥ 1 := hpos
      rw [if_pos hge, if_neg hz]
      simp only [spansFrom, afterLoop]
      have hfr : sinkAfterContext cfg σ buf (T.withPH (pre.length + l.length) T.hasMatched) ⟨pre.length, pre.length + l.length⟩
          = ((sinkAfterContext cfg σ buf T ⟨pre.length, pre.length + l.length⟩).1.withPH (pre.length + l.length) T.hasMatched,
            (sinkAfterContext cfg σ buf T ⟨pre.length, pre.length + l.length⟩).2) :=
        sinkAfterContext_ph hbin σ buf ⟨pre.length, pre.length + l.length⟩ T (pre.length + l.length) T.hasMatched
      rw [hfr]
      have hllv := sinkAfterContext_llv_ok cfg σ buf T ⟨pre.length, pre.length + l.length⟩
      have hph : (sinkAfterContext cfg σ buf T ⟨pre.length, pre.length + l.length⟩).1.pos = T.pos ∧
          (sinkAfterContext cfg σ buf T ⟨pre.length, pre.length + l.length⟩).1.hasMatched = T.hasMatched :=
        (sinkAfterContext_ph hbin σ buf ⟨pre.length, pre.length + l.length⟩).pos T
      generalize sinkAfterContext cfg σ buf T ⟨pre.length, pre.length + l.length⟩ = g at hllv hph ⊢
      obtain ⟨U, r⟩ := g
      cases r with
      | err => exact ⟨rfl, rfl, fun h => by cases h⟩
      | ok b =>
        cases b with
        | false => exact ⟨rfl, rfl, fun h => by cases h⟩
        | true =>
          dsimp only at hllv hph ⊢
          have hUl : U.lastLineVisited = pre.length + l.length := hllv rfl
          have hstop : (cfg.stopOnNonmatch && !false && (U.withPH (pre.length + l.length) T.hasMatched).hasMatched) = false := by
            show (cfg.stopOnNonmatch && !false && T.hasMatched) = false
            cases hSC0 with
            | inl h => simp [h]
            | inr h => simp [h]
          rw [hstop]
          simp only [Bool.false_eq_true, if_false]
          have := ih (pre ++ l) (U.withPH (pre.length + l.length) T.hasMatched) htake' hg' hns'
            (fun _ => by show U.lastLineVisited = (pre ++ l).length; rw [hUl]; simp) (fun _ => hSC0)
          simp only [List.length_append] at this
          have hfr2 : afterContextByLine cfg σ buf (U.withPH (pre.length + l.length) T.hasMatched)
                (pre.length + l.length + nl.flatten.length)
              = ((afterContextByLine cfg σ buf U (pre.length + l.length + nl.flatten.length)).1.withPH
                  (pre.length + l.length) T.hasMatched,
                (afterContextByLine cfg σ buf U (pre.length + l.length + nl.flatten.length)).2) :=
            afterContextByLine_ph hbin σ buf (pre.length + l.length + nl.flatten.length) U
              (pre.length + l.length) T.hasMatched
          rw [hfr2] at this
          have hY := afterContextByLine_lines σ buf (pre ++ l) nl U htake' hg'
            (fun _ => by rw [hUl]; simp)
          simp only [List.length_append] at hY
          rw [hY] at this
          obtain ⟨h1, h2, h3⟩ := this
          refine ⟨h1, by rw [h2]; rfl, fun hok => ?_⟩
          obtain ⟨p1, p2⟩ := h3 hok
          refine ⟨?_, p2⟩
          rw [p1]
          simp only [List.cons_ne_nil, if_false]
          split
          · rename_i hnil; rw [hnil]; simp; rfl
          · omega

end RgVerif.Searcher
