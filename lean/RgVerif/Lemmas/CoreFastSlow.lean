import RgVerif.Lemmas.CoreFrame
import RgVerif.Lemmas.CoreShiftLoop
/-
The fast line-by-line path of `Core` (`match_by_line_fast`, `match_by_line_fast_invert`) against the
slow one, call by call, from an arbitrary state and for every sink script: given that
`find_by_line_fast` returns the next line the pattern matches (the matcher contract), both make the
same callbacks, return the same answer, and -- unless the sink said stop -- end in the same state.
-/
namespace RgVerif.Searcher
open RgVerif RgVerif.Matcher RgVerif.Lines RgVerif.GrepSpec

/-- the pattern matches the line (asked about the line alone, terminator removed) -/
def pmLineL (cfg : Config) (m : MatcherI) (l : Bytes) : Bool :=
  (m.shortestMatch (withoutTerminator l cfg.lineTerm)).isSome

/-- the line is selected (inversion applied) -/
def succL (cfg : Config) (m : MatcherI) (l : Bytes) : Bool := pmLineL cfg m l != cfg.invertMatch

theorem withPH_withPH (s : Core) (p q : Nat) (h k : Bool) : (s.withPH p h).withPH q k = s.withPH q k := rfl

/-- `after_context_by_line` when `last_line_visited` is the start of the lines `nl` -/
theorem afterContextByLine_lines {cfg : Config} (σ : Script) (buf : Bytes) (pre : Bytes) (nl : List Bytes) (T : Core)
    (htake : buf.take (pre.length + nl.flatten.length) = pre ++ nl.flatten)
    (hg : GoodLines cfg.lineTerm.asByte nl)
    (hJ : 0 < T.afterContextLeft → T.lastLineVisited = pre.length) :
    afterContextByLine cfg σ buf T (pre.length + nl.flatten.length)
      = if (T.afterContextLeft == 0) = true then (T, .ok true)
        else afterLoop cfg σ buf (spansFrom pre.length nl) T := by
  unfold afterContextByLine
  split
  · rfl
  · rename_i h0
    have hpos : 0 < T.afterContextLeft := by
      cases h : T.afterContextLeft with
      | zero => simp [h] at h0
      | succ n => omega
    rw [hJ hpos, stepLines_good pre nl hg _ htake rfl]

/-- **Lemma A**: the slow loop over lines that are not selected delivers what the (lazy)
`after_context_by_line` of the fast path delivers -/
theorem slow_nonsel {cfg : Config} (hbin : cfg.binary = .none) (hpt : cfg.passthru = false) (m : MatcherI)
    (σ : Script) (buf : Bytes) (nl : List Bytes) :
    ∀ (pre : Bytes) (T : Core),
      buf.take (pre.length + nl.flatten.length) = pre ++ nl.flatten → GoodLines cfg.lineTerm.asByte nl →
      (∀ l ∈ nl, succL cfg m l = false) →
      (0 < T.afterContextLeft → T.lastLineVisited = pre.length) →
      (nl ≠ [] → cfg.stopOnNonmatch = false ∨ T.hasMatched = false) →
      (slowLoop cfg m σ buf (spansFrom pre.length nl) T).2
          = (afterContextByLine cfg σ buf T (pre.length + nl.flatten.length)).2 ∧
        (slowLoop cfg m σ buf (spansFrom pre.length nl) T).1.withPH 0 false
          = (afterContextByLine cfg σ buf T (pre.length + nl.flatten.length)).1.withPH 0 false ∧
        ((slowLoop cfg m σ buf (spansFrom pre.length nl) T).2 = .ok true →
          (slowLoop cfg m σ buf (spansFrom pre.length nl) T).1.pos
              = (if nl = [] then T.pos else pre.length + nl.flatten.length) ∧
            (slowLoop cfg m σ buf (spansFrom pre.length nl) T).1.hasMatched = T.hasMatched) := by
  induction nl with
  | nil =>
    intro pre T htake hg _ hJ _
    rw [afterContextByLine_lines σ buf pre [] T htake hg hJ]
    simp only [spansFrom, slowLoop, afterLoop]
    split <;> simp
  | cons l nl ih =>
    intro pre T htake hg hns hJ hSC
    have hl := slice_line htake
    have hsucc : succL cfg m l = false := hns l (by simp)
    have hSC0 := hSC (by simp)
    have htake' : buf.take ((pre ++ l).length + nl.flatten.length) = (pre ++ l) ++ nl.flatten := by
      simpa [Nat.add_assoc] using htake
    have hg' : GoodLines cfg.lineTerm.asByte nl := goodLines_tail hg
    have hns' : ∀ x ∈ nl, succL cfg m x = false := fun x hx => hns x (by simp [hx])
    rw [afterContextByLine_lines σ buf pre (l :: nl) T htake hg hJ]
    simp only [spansFrom, slowLoop]
    rw [hl]
    have hs2 : ((m.shortestMatch (withoutTerminator l cfg.lineTerm)).isSome != cfg.invertMatch) = false := hsucc
    rw [hs2]
    simp only [Bool.false_eq_true, if_false, hpt, List.flatten_cons, List.length_append]
    -- the state with the position set is `withPH`
    have hT1 : ({ T with pos := pre.length + l.length } : Core) = T.withPH (pre.length + l.length) T.hasMatched := rfl
    rw [hT1]
    by_cases hz : (T.afterContextLeft == 0) = true
    · -- no after-context pending: nothing is delivered
      have hz0 : T.afterContextLeft = 0 := by simpa using hz
      have hge : ¬ T.afterContextLeft ≥ 1 := by omega
      rw [if_neg hge, if_pos hz]
      dsimp only
      have hstop : (cfg.stopOnNonmatch && !false && (T.withPH (pre.length + l.length) T.hasMatched).hasMatched) = false := by
        show (cfg.stopOnNonmatch && !false && T.hasMatched) = false
        cases hSC0 with
        | inl h => simp [h]
        | inr h => simp [h]
      rw [hstop]
      simp only [Bool.false_eq_true, if_false]
      have := ih (pre ++ l) (T.withPH (pre.length + l.length) T.hasMatched) htake' hg' hns'
        (fun h => by have : 0 < T.afterContextLeft := h; omega) (fun _ => hSC0)
      simp only [List.length_append] at this
      have hY0 := afterContextByLine_lines σ buf (pre ++ l) nl (T.withPH (pre.length + l.length) T.hasMatched)
        htake' hg' (fun h => by have : 0 < T.afterContextLeft := h; omega)
      simp only [List.length_append] at hY0
      rw [hY0] at this
      have hz' : ((T.withPH (pre.length + l.length) T.hasMatched).afterContextLeft == 0) = true := hz
      rw [if_pos hz'] at this
      obtain ⟨h1, h2, h3⟩ := this
      refine ⟨h1, by rw [h2]; rfl, fun hok => ?_⟩
      obtain ⟨p1, p2⟩ := h3 hok
      refine ⟨?_, p2⟩
      rw [p1]
      simp only [List.cons_ne_nil, if_false]
      split
      · rename_i hnil; rw [hnil]; simp; rfl
      · omega
    · -- after-context pending: this line is delivered by both
      have hpos : 0 < T.afterContextLeft := by
        cases h : T.afterContextLeft with
        | zero => simp [h] at hz
        | succ n => omega
      have hge : T.afterContextLeft ≥ 1 := hpos
      rw [if_pos hge, if_neg hz]
      simp only [spansFrom, afterLoop]
      have hfr : sinkAfterContext cfg σ buf (T.withPH (pre.length + l.length) T.hasMatched) ⟨pre.length, pre.length + l.length⟩
          = ((sinkAfterContext cfg σ buf T ⟨pre.length, pre.length + l.length⟩).1.withPH (pre.length + l.length) T.hasMatched,
            (sinkAfterContext cfg σ buf T ⟨pre.length, pre.length + l.length⟩).2) :=
        sinkAfterContext_ph hbin σ buf ⟨pre.length, pre.length + l.length⟩ T (pre.length + l.length) T.hasMatched
      rw [hfr]
      have hllv := sinkAfterContext_llv_ok cfg σ buf T ⟨pre.length, pre.length + l.length⟩
      have hph : (sinkAfterContext cfg σ buf T ⟨pre.length, pre.length + l.length⟩).1.pos = T.pos ∧
          (sinkAfterContext cfg σ buf T ⟨pre.length, pre.length + l.length⟩).1.hasMatched = T.hasMatched :=
        (sinkAfterContext_ph hbin σ buf ⟨pre.length, pre.length + l.length⟩).pos T
      generalize sinkAfterContext cfg σ buf T ⟨pre.length, pre.length + l.length⟩ = g at hllv hph ⊢
      obtain ⟨U, r⟩ := g
      cases r with
      | err => exact ⟨rfl, rfl, fun h => by cases h⟩
      | ok b =>
        cases b with
        | false => exact ⟨rfl, rfl, fun h => by cases h⟩
        | true =>
          dsimp only at hllv hph ⊢
          have hUl : U.lastLineVisited = pre.length + l.length := hllv rfl
          have hstop : (cfg.stopOnNonmatch && !false && (U.withPH (pre.length + l.length) T.hasMatched).hasMatched) = false := by
            show (cfg.stopOnNonmatch && !false && T.hasMatched) = false
            cases hSC0 with
            | inl h => simp [h]
            | inr h => simp [h]
          rw [hstop]
          simp only [Bool.false_eq_true, if_false]
          have := ih (pre ++ l) (U.withPH (pre.length + l.length) T.hasMatched) htake' hg' hns'
            (fun _ => by show U.lastLineVisited = (pre ++ l).length; rw [hUl]; simp) (fun _ => hSC0)
          simp only [List.length_append] at this
          have hfr2 : afterContextByLine cfg σ buf (U.withPH (pre.length + l.length) T.hasMatched)
                (pre.length + l.length + nl.flatten.length)
              = ((afterContextByLine cfg σ buf U (pre.length + l.length + nl.flatten.length)).1.withPH
                  (pre.length + l.length) T.hasMatched,
                (afterContextByLine cfg σ buf U (pre.length + l.length + nl.flatten.length)).2) :=
            afterContextByLine_ph hbin σ buf (pre.length + l.length + nl.flatten.length) U
              (pre.length + l.length) T.hasMatched
          rw [hfr2] at this
          have hY := afterContextByLine_lines σ buf (pre ++ l) nl U htake' hg'
            (fun _ => by rw [hUl]; simp)
          simp only [List.length_append] at hY
          rw [hY] at this
          obtain ⟨h1, h2, h3⟩ := this
          refine ⟨h1, by rw [h2]; rfl, fun hok => ?_⟩
          obtain ⟨p1, p2⟩ := h3 hok
          refine ⟨?_, p2⟩
          rw [p1]
          simp only [List.cons_ne_nil, if_false]
          split
          · rename_i hnil; rw [hnil]; simp; rfl
          · omega

theorem beforeContextByLine_at_llv (cfg : Config) (σ : Script) (buf : Bytes) (st : Core) (u : Nat)
    (h : st.lastLineVisited = u) : beforeContextByLine cfg σ buf st u = (st, .ok true) := by
  unfold beforeContextByLine
  split
  · rfl
  · dsimp only
    rw [h]
    simp

/-- **Lemma B, tail**: the slow loop over selected lines that directly follow the last visited line is
the loop of `match_by_line_fast_invert` that delivers a run of lines -/
theorem slow_selrun_tail {cfg : Config} (hbin : cfg.binary = .none) (m : MatcherI) (σ : Script) (buf : Bytes)
    (run : List Bytes) :
    ∀ (pre : Bytes) (T : Core),
      buf.take (pre.length + run.flatten.length) = pre ++ run.flatten →
      (∀ l ∈ run, succL cfg m l = true) → T.lastLineVisited = pre.length →
      (slowLoop cfg m σ buf (spansFrom pre.length run) T).2 = (matchedLoop cfg σ buf (spansFrom pre.length run) T).2 ∧
        (slowLoop cfg m σ buf (spansFrom pre.length run) T).1.withPH 0 false
          = (matchedLoop cfg σ buf (spansFrom pre.length run) T).1.withPH 0 false ∧
        ((slowLoop cfg m σ buf (spansFrom pre.length run) T).2 = .ok true →
          (slowLoop cfg m σ buf (spansFrom pre.length run) T).1.pos
              = (if run = [] then T.pos else pre.length + run.flatten.length) ∧
          (slowLoop cfg m σ buf (spansFrom pre.length run) T).1.hasMatched
              = (if run = [] then T.hasMatched else true) ∧
          (run ≠ [] → (slowLoop cfg m σ buf (spansFrom pre.length run) T).1.lastLineVisited
                = pre.length + run.flatten.length ∧
              (slowLoop cfg m σ buf (spansFrom pre.length run) T).1.afterContextLeft = cfg.afterContext)) := by
  induction run with
  | nil =>
    intro pre T _ _ _
    simp [spansFrom, slowLoop, matchedLoop]
  | cons l run ih =>
    intro pre T htake hsel hllv
    have hl := slice_line htake
    have hsucc : succL cfg m l = true := hsel l (by simp)
    have htake' : buf.take ((pre ++ l).length + run.flatten.length) = (pre ++ l) ++ run.flatten := by
      simpa [Nat.add_assoc] using htake
    have hsel' : ∀ x ∈ run, succL cfg m x = true := fun x hx => hsel x (by simp [hx])
    simp only [spansFrom, slowLoop, matchedLoop]
    rw [hl]
    have hs2 : ((m.shortestMatch (withoutTerminator l cfg.lineTerm)).isSome != cfg.invertMatch) = true := hsucc
    rw [hs2]
    simp only [if_true, List.flatten_cons, List.length_append]
    have hT1 : ({ ({ T with pos := pre.length + l.length } : Core) with hasMatched := true } : Core)
        = T.withPH (pre.length + l.length) true := rfl
    rw [hT1, beforeContextByLine_at_llv cfg σ buf _ pre.length (by show T.lastLineVisited = _; exact hllv)]
    dsimp only
    have hfr : sinkMatched cfg σ buf (T.withPH (pre.length + l.length) true) ⟨pre.length, pre.length + l.length⟩
        = ((sinkMatched cfg σ buf T ⟨pre.length, pre.length + l.length⟩).1.withPH (pre.length + l.length) true,
          (sinkMatched cfg σ buf T ⟨pre.length, pre.length + l.length⟩).2) :=
      sinkMatched_ph hbin σ buf ⟨pre.length, pre.length + l.length⟩ T (pre.length + l.length) true
    rw [hfr]
    have hllv2 := sinkMatched_llv_ok cfg σ buf T ⟨pre.length, pre.length + l.length⟩
    generalize sinkMatched cfg σ buf T ⟨pre.length, pre.length + l.length⟩ = g at hllv2 ⊢
    obtain ⟨U, r⟩ := g
    cases r with
    | err => exact ⟨rfl, rfl, fun h => by cases h⟩
    | ok b =>
      cases b with
      | false => exact ⟨rfl, rfl, fun h => by cases h⟩
      | true =>
        dsimp only at hllv2 ⊢
        obtain ⟨hUl, hUa⟩ := hllv2 rfl
        simp only [Bool.not_true, Bool.and_false, Bool.false_and, Bool.false_eq_true, if_false]
        have := ih (pre ++ l) (U.withPH (pre.length + l.length) true) htake' hsel'
          (by show U.lastLineVisited = (pre ++ l).length; rw [hUl]; simp)
        simp only [List.length_append] at this
        have hfr2 : matchedLoop cfg σ buf (spansFrom (pre.length + l.length) run) (U.withPH (pre.length + l.length) true)
            = ((matchedLoop cfg σ buf (spansFrom (pre.length + l.length) run) U).1.withPH (pre.length + l.length) true,
              (matchedLoop cfg σ buf (spansFrom (pre.length + l.length) run) U).2) :=
          matchedLoop_ph hbin σ buf _ U (pre.length + l.length) true
        rw [hfr2] at this
        obtain ⟨h1, h2, h3⟩ := this
        refine ⟨h1, by rw [h2]; rfl, fun hok => ?_⟩
        obtain ⟨p1, p2, p3⟩ := h3 hok
        simp only [List.cons_ne_nil, if_false]
        by_cases hnil : run = []
        · subst hnil
          simp only [spansFrom, slowLoop] at p1 p2 ⊢
          simp only [spansFrom, slowLoop, List.flatten_nil, List.length_nil, Nat.add_zero]
          exact ⟨rfl, rfl, fun _ => ⟨hUl, hUa⟩⟩
        · rw [if_neg hnil] at p1 p2
          obtain ⟨q1, q2⟩ := p3 hnil
          exact ⟨by rw [p1]; omega, p2, fun _ => ⟨by rw [q1]; omega, q2⟩⟩

/-- **Lemma B**: the slow loop over a non-empty run of selected lines = before-context, then the run -/
theorem slow_selrun {cfg : Config} (hbin : cfg.binary = .none) (m : MatcherI) (σ : Script) (buf : Bytes)
    (l : Bytes) (run : List Bytes) (pre : Bytes) (T : Core)
    (htake : buf.take (pre.length + (l :: run).flatten.length) = pre ++ (l :: run).flatten)
    (hsel : ∀ x ∈ l :: run, succL cfg m x = true) :
    (slowLoop cfg m σ buf (spansFrom pre.length (l :: run)) T).2
        = (match beforeContextByLine cfg σ buf T pre.length with
            | (st, .ok true) => matchedLoop cfg σ buf (spansFrom pre.length (l :: run)) st
            | (st, r) => (st, r)).2 ∧
      (slowLoop cfg m σ buf (spansFrom pre.length (l :: run)) T).1.withPH 0 false
        = (match beforeContextByLine cfg σ buf T pre.length with
            | (st, .ok true) => matchedLoop cfg σ buf (spansFrom pre.length (l :: run)) st
            | (st, r) => (st, r)).1.withPH 0 false ∧
      ((slowLoop cfg m σ buf (spansFrom pre.length (l :: run)) T).2 = .ok true →
        (slowLoop cfg m σ buf (spansFrom pre.length (l :: run)) T).1.pos = pre.length + (l :: run).flatten.length ∧
        (slowLoop cfg m σ buf (spansFrom pre.length (l :: run)) T).1.hasMatched = true ∧
        (slowLoop cfg m σ buf (spansFrom pre.length (l :: run)) T).1.lastLineVisited
          = pre.length + (l :: run).flatten.length ∧
        (slowLoop cfg m σ buf (spansFrom pre.length (l :: run)) T).1.afterContextLeft = cfg.afterContext) := by
  have hl := slice_line htake
  have hsucc : succL cfg m l = true := hsel l (by simp)
  have htake' : buf.take ((pre ++ l).length + run.flatten.length) = (pre ++ l) ++ run.flatten := by
    simpa [Nat.add_assoc] using htake
  have hsel' : ∀ x ∈ run, succL cfg m x = true := fun x hx => hsel x (by simp [hx])
  simp only [spansFrom, slowLoop, matchedLoop]
  rw [hl]
  have hs2 : ((m.shortestMatch (withoutTerminator l cfg.lineTerm)).isSome != cfg.invertMatch) = true := hsucc
  rw [hs2]
  simp only [if_true, List.flatten_cons, List.length_append]
  have hT1 : ({ ({ T with pos := pre.length + l.length } : Core) with hasMatched := true } : Core)
      = T.withPH (pre.length + l.length) true := rfl
  rw [hT1]
  have hfr0 : beforeContextByLine cfg σ buf (T.withPH (pre.length + l.length) true) pre.length
      = ((beforeContextByLine cfg σ buf T pre.length).1.withPH (pre.length + l.length) true,
        (beforeContextByLine cfg σ buf T pre.length).2) :=
    beforeContextByLine_ph hbin σ buf pre.length T (pre.length + l.length) true
  rw [hfr0]
  generalize beforeContextByLine cfg σ buf T pre.length = g0
  obtain ⟨V, r0⟩ := g0
  cases r0 with
  | err => exact ⟨rfl, rfl, fun h => by cases h⟩
  | ok b0 =>
    cases b0 with
    | false => exact ⟨rfl, rfl, fun h => by cases h⟩
    | true =>
      dsimp only
      have hfr : sinkMatched cfg σ buf (V.withPH (pre.length + l.length) true) ⟨pre.length, pre.length + l.length⟩
          = ((sinkMatched cfg σ buf V ⟨pre.length, pre.length + l.length⟩).1.withPH (pre.length + l.length) true,
            (sinkMatched cfg σ buf V ⟨pre.length, pre.length + l.length⟩).2) :=
        sinkMatched_ph hbin σ buf ⟨pre.length, pre.length + l.length⟩ V (pre.length + l.length) true
      rw [hfr]
      have hllv2 := sinkMatched_llv_ok cfg σ buf V ⟨pre.length, pre.length + l.length⟩
      generalize sinkMatched cfg σ buf V ⟨pre.length, pre.length + l.length⟩ = g at hllv2 ⊢
      obtain ⟨U, r⟩ := g
      cases r with
      | err => exact ⟨rfl, rfl, fun h => by cases h⟩
      | ok b =>
        cases b with
        | false => exact ⟨rfl, rfl, fun h => by cases h⟩
        | true =>
          dsimp only at hllv2 ⊢
          obtain ⟨hUl, hUa⟩ := hllv2 rfl
          simp only [Bool.not_true, Bool.and_false, Bool.false_and, Bool.false_eq_true, if_false]
          have := slow_selrun_tail hbin m σ buf run (pre ++ l) (U.withPH (pre.length + l.length) true) htake' hsel'
            (by show U.lastLineVisited = (pre ++ l).length; rw [hUl]; simp)
          simp only [List.length_append] at this
          have hfr2 : matchedLoop cfg σ buf (spansFrom (pre.length + l.length) run) (U.withPH (pre.length + l.length) true)
              = ((matchedLoop cfg σ buf (spansFrom (pre.length + l.length) run) U).1.withPH (pre.length + l.length) true,
                (matchedLoop cfg σ buf (spansFrom (pre.length + l.length) run) U).2) :=
            matchedLoop_ph hbin σ buf _ U (pre.length + l.length) true
          rw [hfr2] at this
          obtain ⟨h1, h2, h3⟩ := this
          refine ⟨h1, by rw [h2]; rfl, fun hok => ?_⟩
          obtain ⟨p1, p2, p3⟩ := h3 hok
          by_cases hnil : run = []
          · subst hnil
            simp only [spansFrom, slowLoop, List.flatten_nil, List.length_nil, Nat.add_zero]
            exact ⟨rfl, rfl, hUl, hUa⟩
          · rw [if_neg hnil] at p1 p2
            obtain ⟨q1, q2⟩ := p3 hnil
            exact ⟨by rw [p1]; omega, p2, by rw [q1]; omega, q2⟩

/-! ### the contract on `find_by_line_fast`, in list form -/

/-- the first line the pattern matches, as a span (lines starting at offset `o`) -/
def firstPm (cfg : Config) (m : MatcherI) : Nat → List Bytes → Option Span
  | _, [] => none
  | o, l :: ls => if pmLineL cfg m l then some ⟨o, o + l.length⟩ else firstPm cfg m (o + l.length) ls

/-- **Contract on `find_by_line_fast`** for the buffer `buf`: started at a line start it returns the
first line from there on that the pattern matches (judged on the line alone), if any. -/
def FindC (cfg : Config) (m : MatcherI) (buf : Bytes) : Prop :=
  ∀ (prew : Bytes) (ls : List Bytes) (st : Core), GoodLines cfg.lineTerm.asByte ls → buf = prew ++ ls.flatten →
    (prew = [] ∨ prew.getLast? = some cfg.lineTerm.asByte) → st.pos = prew.length →
    findByLineFast cfg m buf st = firstPm cfg m prew.length ls

theorem firstPm_none {cfg : Config} {m : MatcherI} : ∀ {ls : List Bytes} {o : Nat},
    firstPm cfg m o ls = none → ∀ l ∈ ls, pmLineL cfg m l = false := by
  intro ls
  induction ls with
  | nil => intro o _ l hl; simp at hl
  | cons x xs ih =>
    intro o h l hl
    unfold firstPm at h
    split at h
    · cases h
    · rename_i hx
      simp only [List.mem_cons] at hl
      cases hl with
      | inl e => rw [e]; simpa using hx
      | inr e => exact ih h l e

theorem firstPm_some {cfg : Config} {m : MatcherI} : ∀ {ls : List Bytes} {o : Nat} {sp : Span},
    firstPm cfg m o ls = some sp →
    ∃ nm lj rest, ls = nm ++ lj :: rest ∧ (∀ l ∈ nm, pmLineL cfg m l = false) ∧ pmLineL cfg m lj = true ∧
      sp = ⟨o + nm.flatten.length, o + nm.flatten.length + lj.length⟩ := by
  intro ls
  induction ls with
  | nil => intro o sp h; cases h
  | cons x xs ih =>
    intro o sp h
    unfold firstPm at h
    split at h
    · rename_i hx
      simp only [Option.some.injEq] at h
      exact ⟨[], x, xs, rfl, fun l hl => by simp at hl, hx, by rw [← h]; simp⟩
    · rename_i hx
      obtain ⟨nm, lj, rest, e1, e2, e3, e4⟩ := ih h
      refine ⟨x :: nm, lj, rest, by rw [e1]; rfl, ?_, e3, ?_⟩
      · intro l hl
        simp only [List.mem_cons] at hl
        cases hl with
        | inl e => rw [e]; simpa using hx
        | inr e => exact e2 l e
      · rw [e4]; simp [Nat.add_assoc]

/-! ### `match_by_line` on the fast path, as a loop and a tail -/

/-- what `match_by_line` / `match_by_line_fast` do with the result of the fast loop -/
def fastTail (cfg : Config) (m : MatcherI) (σ : Script) (buf : Bytes)
    (x : Core × Res (Option FastMatchResult)) : Core × Res Bool :=
  match x with
  | (st, .err) => (st, .err)
  | (st, .ok (some .switchToSlow)) => matchByLineSlow cfg m σ buf st
  | (st, .ok (some .continue_)) => (st, .ok true)
  | (st, .ok (some .stop)) => (st, .ok false)
  | (st, .ok none) =>
    match afterContextByLine cfg σ buf st buf.length with
    | (st, .err) => (st, .err)
    | (st, .ok false) => (st, .ok false)
    | (st, .ok true) => ({ st with pos := buf.length }, .ok true)

theorem matchByLine_fast {cfg : Config} {m : MatcherI} (σ : Script) (buf : Bytes) (st : Core)
    (h : isLineByLineFast cfg m st = true) :
    matchByLine cfg m σ buf st = fastTail cfg m σ buf (fastLoop cfg m σ buf (buf.length + 1) st) := by
  unfold matchByLine matchByLineFast
  rw [if_pos h]
  generalize fastLoop cfg m σ buf (buf.length + 1) st = x
  obtain ⟨s, r⟩ := x
  cases r with
  | err => rfl
  | ok o =>
    cases o with
    | some fr => cases fr <;> rfl
    | none =>
      simp only [fastTail]
      generalize afterContextByLine cfg σ buf s buf.length = y
      obtain ⟨s2, r2⟩ := y
      cases r2 with
      | err => rfl
      | ok b => cases b <;> rfl

end RgVerif.Searcher
