import RgVerif.Lemmas.CoreFrame
import RgVerif.Lemmas.CoreShiftLoop
/-
The fast line-by-line path of `Core` (`match_by_line_fast`, `match_by_line_fast_invert`) against the
slow one, call by call, from an arbitrary state and for every sink script: given that
`find_by_line_fast` returns the next line the pattern matches (the matcher contract), both make the
same callbacks, return the same answer, and -- unless the sink said stop -- end in the same state.
-/
namespace RgVerif.Searcher
open RgVerif RgVerif.Matcher RgVerif.Lines RgVerif.GrepSpec

/-- the pattern matches the line (asked about the line alone, terminator removed) -/
def pmLineL (cfg : Config) (m : MatcherI) (l : Bytes) : Bool :=
  (m.shortestMatch (withoutTerminator l cfg.lineTerm)).isSome

/-- the line is selected (inversion applied) -/
def succL (cfg : Config) (m : MatcherI) (l : Bytes) : Bool := pmLineL cfg m l != cfg.invertMatch

theorem withPH_withPH (s : Core) (p q : Nat) (h k : Bool) : (s.withPH p h).withPH q k = s.withPH q k := rfl

/-- `after_context_by_line` when `last_line_visited` is the start of the lines `nl` -/
theorem afterContextByLine_lines {cfg : Config} (σ : Script) (buf : Bytes) (pre : Bytes) (nl : List Bytes) (T : Core)
    (htake : buf.take (pre.length + nl.flatten.length) = pre ++ nl.flatten)
    (hg : GoodLines cfg.lineTerm.asByte nl)
    (hJ : 0 < T.afterContextLeft → T.lastLineVisited = pre.length) :
    afterContextByLine cfg σ buf T (pre.length + nl.flatten.length)
      = if (T.afterContextLeft == 0) = true then (T, .ok true)
        else afterLoop cfg σ buf (spansFrom pre.length nl) T := by
  unfold afterContextByLine
  split
  · rfl
  · rename_i h0
    have hpos : 0 < T.afterContextLeft := by
      cases h : T.afterContextLeft with
      | zero => simp [h] at h0
      | succ n => omega
    rw [hJ hpos, stepLines_good pre nl hg _ htake rfl]

/-- **Lemma A**: the slow loop over lines that are not selected delivers what the (lazy)
`after_context_by_line` of the fast path delivers -/
theorem slow_nonsel {cfg : Config} (hbin : cfg.binary = .none) (hpt : cfg.passthru = false) (m : MatcherI)
    (σ : Script) (buf : Bytes) (nl : List Bytes) :
    ∀ (pre : Bytes) (T : Core),
      buf.take (pre.length + nl.flatten.length) = pre ++ nl.flatten → GoodLines cfg.lineTerm.asByte nl →
      (∀ l ∈ nl, succL cfg m l = false) →
      (0 < T.afterContextLeft → T.lastLineVisited = pre.length) →
      (nl ≠ [] → cfg.stopOnNonmatch = false ∨ T.hasMatched = false) →
      (slowLoop cfg m σ buf (spansFrom pre.length nl) T).2
          = (afterContextByLine cfg σ buf T (pre.length + nl.flatten.length)).2 ∧
        (slowLoop cfg m σ buf (spansFrom pre.length nl) T).1.withPH 0 false
          = (afterContextByLine cfg σ buf T (pre.length + nl.flatten.length)).1.withPH 0 false ∧
        ((slowLoop cfg m σ buf (spansFrom pre.length nl) T).2 = .ok true →
          (slowLoop cfg m σ buf (spansFrom pre.length nl) T).1.pos
              = (if nl = [] then T.pos else pre.length + nl.flatten.length) ∧
            (slowLoop cfg m σ buf (spansFrom pre.length nl) T).1.hasMatched = T.hasMatched) := by
  induction nl with
  | nil =>
    intro pre T htake hg _ hJ _
    rw [afterContextByLine_lines σ buf pre [] T htake hg hJ]
    simp only [spansFrom, slowLoop, afterLoop]
    split <;> simp
  | cons l nl ih =>
    intro pre T htake hg hns hJ hSC
    have hl := slice_line htake
    have hsucc : succL cfg m l = false := hns l (by simp)
    have hSC0 := hSC (by simp)
    have htake' : buf.take ((pre ++ l).length + nl.flatten.length) = (pre ++ l) ++ nl.flatten := by
      simpa [Nat.add_assoc] using htake
    have hg' : GoodLines cfg.lineTerm.asByte nl := goodLines_tail hg
    have hns' : ∀ x ∈ nl, succL cfg m x = false := fun x hx => hns x (by simp [hx])
    rw [afterContextByLine_lines σ buf pre (l :: nl) T htake hg hJ]
    simp only [spansFrom, slowLoop]
    rw [hl]
    have hs2 : ((m.shortestMatch (withoutTerminator l cfg.lineTerm)).isSome != cfg.invertMatch) = false := hsucc
    rw [hs2]
    simp only [Bool.false_eq_true, if_false, hpt, List.flatten_cons, List.length_append]
    -- the state with the position set is `withPH`
    have hT1 : ({ T with pos := pre.length + l.length } : Core) = T.withPH (pre.length + l.length) T.hasMatched := rfl
    rw [hT1]
    by_cases hz : (T.afterContextLeft == 0) = true
    · -- no after-context pending: nothing is delivered
      have hz0 : T.afterContextLeft = 0 := by simpa using hz
      have hge : ¬ T.afterContextLeft ≥ 1 := by omega
      rw [if_neg hge, if_pos hz]
      dsimp only
      have hstop : (cfg.stopOnNonmatch && !false && (T.withPH (pre.length + l.length) T.hasMatched).hasMatched) = false := by
        show (cfg.stopOnNonmatch && !false && T.hasMatched) = false
        cases hSC0 with
        | inl h => simp [h]
        | inr h => simp [h]
      rw [hstop]
      simp only [Bool.false_eq_true, if_false]
      have := ih (pre ++ l) (T.withPH (pre.length + l.length) T.hasMatched) htake' hg' hns'
        (fun h => by have : 0 < T.afterContextLeft := h; omega) (fun _ => hSC0)
      simp only [List.length_append] at this
      have hY0 := afterContextByLine_lines σ buf (pre ++ l) nl (T.withPH (pre.length + l.length) T.hasMatched)
        htake' hg' (fun h => by have : 0 < T.afterContextLeft := h; omega)
      simp only [List.length_append] at hY0
      rw [hY0] at this
      have hz' : ((T.withPH (pre.length + l.length) T.hasMatched).afterContextLeft == 0) = true := hz
      rw [if_pos hz'] at this
      obtain ⟨h1, h2, h3⟩ := this
      refine ⟨h1, by rw [h2]; rfl, fun hok => ?_⟩
      obtain ⟨p1, p2⟩ := h3 hok
      refine ⟨?_, p2⟩
      rw [p1]
      simp only [List.cons_ne_nil, if_false]
      split
      · rename_i hnil; rw [hnil]; simp; rfl
      · omega
    · -- after-context pending: this line is delivered by both
      have hpos : 0 < T.afterContextLeft := by
        cases h : T.afterContextLeft with
        | zero => simp [h] at hz
        | succ n => omega
      have hge : T.afterContextLeft ≥ 1 := hpos
      rw [if_pos hge, if_neg hz]
      simp only [spansFrom, afterLoop]
      have hfr : sinkAfterContext cfg σ buf (T.withPH (pre.length + l.length) T.hasMatched) ⟨pre.length, pre.length + l.length⟩
          = ((sinkAfterContext cfg σ buf T ⟨pre.length, pre.length + l.length⟩).1.withPH (pre.length + l.length) T.hasMatched,
            (sinkAfterContext cfg σ buf T ⟨pre.length, pre.length + l.length⟩).2) :=
        sinkAfterContext_ph hbin σ buf ⟨pre.length, pre.length + l.length⟩ T (pre.length + l.length) T.hasMatched
      rw [hfr]
      have hllv := sinkAfterContext_llv_ok cfg σ buf T ⟨pre.length, pre.length + l.length⟩
      have hph : (sinkAfterContext cfg σ buf T ⟨pre.length, pre.length + l.length⟩).1.pos = T.pos ∧
          (sinkAfterContext cfg σ buf T ⟨pre.length, pre.length + l.length⟩).1.hasMatched = T.hasMatched :=
        (sinkAfterContext_ph hbin σ buf ⟨pre.length, pre.length + l.length⟩).pos T
      generalize sinkAfterContext cfg σ buf T ⟨pre.length, pre.length + l.length⟩ = g at hllv hph ⊢
      obtain ⟨U, r⟩ := g
      cases r with
      | err => exact ⟨rfl, rfl, fun h => by cases h⟩
      | ok b =>
        cases b with
        | false => exact ⟨rfl, rfl, fun h => by cases h⟩
        | true =>
          dsimp only at hllv hph ⊢
          have hUl : U.lastLineVisited = pre.length + l.length := hllv rfl
          have hstop : (cfg.stopOnNonmatch && !false && (U.withPH (pre.length + l.length) T.hasMatched).hasMatched) = false := by
            show (cfg.stopOnNonmatch && !false && T.hasMatched) = false
            cases hSC0 with
            | inl h => simp [h]
            | inr h => simp [h]
          rw [hstop]
          simp only [Bool.false_eq_true, if_false]
          have := ih (pre ++ l) (U.withPH (pre.length + l.length) T.hasMatched) htake' hg' hns'
            (fun _ => by show U.lastLineVisited = (pre ++ l).length; rw [hUl]; simp) (fun _ => hSC0)
          simp only [List.length_append] at this
          have hfr2 : afterContextByLine cfg σ buf (U.withPH (pre.length + l.length) T.hasMatched)
                (pre.length + l.length + nl.flatten.length)
              = ((afterContextByLine cfg σ buf U (pre.length + l.length + nl.flatten.length)).1.withPH
                  (pre.length + l.length) T.hasMatched,
                (afterContextByLine cfg σ buf U (pre.length + l.length + nl.flatten.length)).2) :=
            afterContextByLine_ph hbin σ buf (pre.length + l.length + nl.flatten.length) U
              (pre.length + l.length) T.hasMatched
          rw [hfr2] at this
          have hY := afterContextByLine_lines σ buf (pre ++ l) nl U htake' hg'
            (fun _ => by rw [hUl]; simp)
          simp only [List.length_append] at hY
          rw [hY] at this
          obtain ⟨h1, h2, h3⟩ := this
          refine ⟨h1, by rw [h2]; rfl, fun hok => ?_⟩
          obtain ⟨p1, p2⟩ := h3 hok
          refine ⟨?_, p2⟩
          rw [p1]
          simp only [List.cons_ne_nil, if_false]
          split
          · rename_i hnil; rw [hnil]; simp; rfl
          · omega

theorem beforeContextByLine_at_llv (cfg : Config) (σ : Script) (buf : Bytes) (st : Core) (u : Nat)
    (h : st.lastLineVisited = u) : beforeContextByLine cfg σ buf st u = (st, .ok true) := by
  unfold beforeContextByLine
  split
  · rfl
  · dsimp only
    rw [h]
    simp

/-- **Lemma B, tail**: the slow loop over selected lines that directly follow the last visited line is
the loop of `match_by_line_fast_invert` that delivers a run of lines -/
theorem slow_selrun_tail {cfg : Config} (hbin : cfg.binary = .none) (m : MatcherI) (σ : Script) (buf : Bytes)
    (run : List Bytes) :
    ∀ (pre : Bytes) (T : Core),
      buf.take (pre.length + run.flatten.length) = pre ++ run.flatten →
      (∀ l ∈ run, succL cfg m l = true) → T.lastLineVisited = pre.length →
      (slowLoop cfg m σ buf (spansFrom pre.length run) T).2 = (matchedLoop cfg σ buf (spansFrom pre.length run) T).2 ∧
        (slowLoop cfg m σ buf (spansFrom pre.length run) T).1.withPH 0 false
          = (matchedLoop cfg σ buf (spansFrom pre.length run) T).1.withPH 0 false ∧
        ((slowLoop cfg m σ buf (spansFrom pre.length run) T).2 = .ok true →
          (slowLoop cfg m σ buf (spansFrom pre.length run) T).1.pos
              = (if run = [] then T.pos else pre.length + run.flatten.length) ∧
          (slowLoop cfg m σ buf (spansFrom pre.length run) T).1.hasMatched
              = (if run = [] then T.hasMatched else true) ∧
          (run ≠ [] → (slowLoop cfg m σ buf (spansFrom pre.length run) T).1.lastLineVisited
                = pre.length + run.flatten.length ∧
              (slowLoop cfg m σ buf (spansFrom pre.length run) T).1.afterContextLeft = cfg.afterContext)) := by
  induction run with
  | nil =>
    intro pre T _ _ _
    simp [spansFrom, slowLoop, matchedLoop]
  | cons l run ih =>
    intro pre T htake hsel hllv
    have hl := slice_line htake
    have hsucc : succL cfg m l = true := hsel l (by simp)
    have htake' : buf.take ((pre ++ l).length + run.flatten.length) = (pre ++ l) ++ run.flatten := by
      simpa [Nat.add_assoc] using htake
    have hsel' : ∀ x ∈ run, succL cfg m x = true := fun x hx => hsel x (by simp [hx])
    simp only [spansFrom, slowLoop, matchedLoop]
    rw [hl]
    have hs2 : ((m.shortestMatch (withoutTerminator l cfg.lineTerm)).isSome != cfg.invertMatch) = true := hsucc
    rw [hs2]
    simp only [if_true, List.flatten_cons, List.length_append]
    have hT1 : ({ ({ T with pos := pre.length + l.length } : Core) with hasMatched := true } : Core)
        = T.withPH (pre.length + l.length) true := rfl
    rw [hT1, beforeContextByLine_at_llv cfg σ buf _ pre.length (by show T.lastLineVisited = _; exact hllv)]
    dsimp only
    have hfr : sinkMatched cfg σ buf (T.withPH (pre.length + l.length) true) ⟨pre.length, pre.length + l.length⟩
        = ((sinkMatched cfg σ buf T ⟨pre.length, pre.length + l.length⟩).1.withPH (pre.length + l.length) true,
          (sinkMatched cfg σ buf T ⟨pre.length, pre.length + l.length⟩).2) :=
      sinkMatched_ph hbin σ buf ⟨pre.length, pre.length + l.length⟩ T (pre.length + l.length) true
    rw [hfr]
    have hllv2 := sinkMatched_llv_ok cfg σ buf T ⟨pre.length, pre.length + l.length⟩
    generalize sinkMatched cfg σ buf T ⟨pre.length, pre.length + l.length⟩ = g at hllv2 ⊢
    obtain ⟨U, r⟩ := g
    cases r with
    | err => exact ⟨rfl, rfl, fun h => by cases h⟩
    | ok b =>
      cases b with
      | false => exact ⟨rfl, rfl, fun h => by cases h⟩
      | true =>
        dsimp only at hllv2 ⊢
        obtain ⟨hUl, hUa⟩ := hllv2 rfl
        simp only [Bool.not_true, Bool.and_false, Bool.false_and, Bool.false_eq_true, if_false]
        have := ih (pre ++ l) (U.withPH (pre.length + l.length) true) htake' hsel'
          (by show U.lastLineVisited = (pre ++ l).length; rw [hUl]; simp)
        simp only [List.length_append] at this
        have hfr2 : matchedLoop cfg σ buf (spansFrom (pre.length + l.length) run) (U.withPH (pre.length + l.length) true)
            = ((matchedLoop cfg σ buf (spansFrom (pre.length + l.length) run) U).1.withPH (pre.length + l.length) true,
              (matchedLoop cfg σ buf (spansFrom (pre.length + l.length) run) U).2) :=
          matchedLoop_ph hbin σ buf _ U (pre.length + l.length) true
        rw [hfr2] at this
        obtain ⟨h1, h2, h3⟩ := this
        refine ⟨h1, by rw [h2]; rfl, fun hok => ?_⟩
        obtain ⟨p1, p2, p3⟩ := h3 hok
        simp only [List.cons_ne_nil, if_false]
        by_cases hnil : run = []
        · subst hnil
          simp only [spansFrom, slowLoop] at p1 p2 ⊢
          simp only [spansFrom, slowLoop, List.flatten_nil, List.length_nil, Nat.add_zero]
          exact ⟨rfl, rfl, fun _ => ⟨hUl, hUa⟩⟩
        · rw [if_neg hnil] at p1 p2
          obtain ⟨q1, q2⟩ := p3 hnil
          exact ⟨by rw [p1]; omega, p2, fun _ => ⟨by rw [q1]; omega, q2⟩⟩

/-- **Lemma B**: the slow loop over a non-empty run of selected lines = before-context, then the run -/
theorem slow_selrun {cfg : Config} (hbin : cfg.binary = .none) (m : MatcherI) (σ : Script) (buf : Bytes)
    (l : Bytes) (run : List Bytes) (pre : Bytes) (T : Core)
    (htake : buf.take (pre.length + (l :: run).flatten.length) = pre ++ (l :: run).flatten)
    (hsel : ∀ x ∈ l :: run, succL cfg m x = true) :
    (slowLoop cfg m σ buf (spansFrom pre.length (l :: run)) T).2
        = (match beforeContextByLine cfg σ buf T pre.length with
            | (st, .ok true) => matchedLoop cfg σ buf (spansFrom pre.length (l :: run)) st
            | (st, r) => (st, r)).2 ∧
      (slowLoop cfg m σ buf (spansFrom pre.length (l :: run)) T).1.withPH 0 false
        = (match beforeContextByLine cfg σ buf T pre.length with
            | (st, .ok true) => matchedLoop cfg σ buf (spansFrom pre.length (l :: run)) st
            | (st, r) => (st, r)).1.withPH 0 false ∧
      ((slowLoop cfg m σ buf (spansFrom pre.length (l :: run)) T).2 = .ok true →
        (slowLoop cfg m σ buf (spansFrom pre.length (l :: run)) T).1.pos = pre.length + (l :: run).flatten.length ∧
        (slowLoop cfg m σ buf (spansFrom pre.length (l :: run)) T).1.hasMatched = true ∧
        (slowLoop cfg m σ buf (spansFrom pre.length (l :: run)) T).1.lastLineVisited
          = pre.length + (l :: run).flatten.length ∧
        (slowLoop cfg m σ buf (spansFrom pre.length (l :: run)) T).1.afterContextLeft = cfg.afterContext) := by
  have hl := slice_line htake
  have hsucc : succL cfg m l = true := hsel l (by simp)
  have htake' : buf.take ((pre ++ l).length + run.flatten.length) = (pre ++ l) ++ run.flatten := by
    simpa [Nat.add_assoc] using htake
  have hsel' : ∀ x ∈ run, succL cfg m x = true := fun x hx => hsel x (by simp [hx])
  simp only [spansFrom, slowLoop, matchedLoop]
  rw [hl]
  have hs2 : ((m.shortestMatch (withoutTerminator l cfg.lineTerm)).isSome != cfg.invertMatch) = true := hsucc
  rw [hs2]
  simp only [if_true, List.flatten_cons, List.length_append]
  have hT1 : ({ ({ T with pos := pre.length + l.length } : Core) with hasMatched := true } : Core)
      = T.withPH (pre.length + l.length) true := rfl
  rw [hT1]
  have hfr0 : beforeContextByLine cfg σ buf (T.withPH (pre.length + l.length) true) pre.length
      = ((beforeContextByLine cfg σ buf T pre.length).1.withPH (pre.length + l.length) true,
        (beforeContextByLine cfg σ buf T pre.length).2) :=
    beforeContextByLine_ph hbin σ buf pre.length T (pre.length + l.length) true
  rw [hfr0]
  generalize beforeContextByLine cfg σ buf T pre.length = g0
  obtain ⟨V, r0⟩ := g0
  cases r0 with
  | err => exact ⟨rfl, rfl, fun h => by cases h⟩
  | ok b0 =>
    cases b0 with
    | false => exact ⟨rfl, rfl, fun h => by cases h⟩
    | true =>
      dsimp only
      have hfr : sinkMatched cfg σ buf (V.withPH (pre.length + l.length) true) ⟨pre.length, pre.length + l.length⟩
          = ((sinkMatched cfg σ buf V ⟨pre.length, pre.length + l.length⟩).1.withPH (pre.length + l.length) true,
            (sinkMatched cfg σ buf V ⟨pre.length, pre.length + l.length⟩).2) :=
        sinkMatched_ph hbin σ buf ⟨pre.length, pre.length + l.length⟩ V (pre.length + l.length) true
      rw [hfr]
      have hllv2 := sinkMatched_llv_ok cfg σ buf V ⟨pre.length, pre.length + l.length⟩
      generalize sinkMatched cfg σ buf V ⟨pre.length, pre.length + l.length⟩ = g at hllv2 ⊢
      obtain ⟨U, r⟩ := g
      cases r with
      | err => exact ⟨rfl, rfl, fun h => by cases h⟩
      | ok b =>
        cases b with
        | false => exact ⟨rfl, rfl, fun h => by cases h⟩
        | true =>
          dsimp only at hllv2 ⊢
          obtain ⟨hUl, hUa⟩ := hllv2 rfl
          simp only [Bool.not_true, Bool.and_false, Bool.false_and, Bool.false_eq_true, if_false]
          have := slow_selrun_tail hbin m σ buf run (pre ++ l) (U.withPH (pre.length + l.length) true) htake' hsel'
            (by show U.lastLineVisited = (pre ++ l).length; rw [hUl]; simp)
          simp only [List.length_append] at this
          have hfr2 : matchedLoop cfg σ buf (spansFrom (pre.length + l.length) run) (U.withPH (pre.length + l.length) true)
              = ((matchedLoop cfg σ buf (spansFrom (pre.length + l.length) run) U).1.withPH (pre.length + l.length) true,
                (matchedLoop cfg σ buf (spansFrom (pre.length + l.length) run) U).2) :=
            matchedLoop_ph hbin σ buf _ U (pre.length + l.length) true
          rw [hfr2] at this
          obtain ⟨h1, h2, h3⟩ := this
          refine ⟨h1, by rw [h2]; rfl, fun hok => ?_⟩
          obtain ⟨p1, p2, p3⟩ := h3 hok
          by_cases hnil : run = []
          · subst hnil
            simp only [spansFrom, slowLoop, List.flatten_nil, List.length_nil, Nat.add_zero]
            exact ⟨rfl, rfl, hUl, hUa⟩
          · rw [if_neg hnil] at p1 p2
            obtain ⟨q1, q2⟩ := p3 hnil
            exact ⟨by rw [p1]; omega, p2, by rw [q1]; omega, q2⟩

/-! ### the contract on `find_by_line_fast`, in list form -/

/-- the first line the pattern matches, as a span (lines starting at offset `o`) -/
def firstPm (cfg : Config) (m : MatcherI) : Nat → List Bytes → Option Span
  | _, [] => none
  | o, l :: ls => if pmLineL cfg m l then some ⟨o, o + l.length⟩ else firstPm cfg m (o + l.length) ls

/-- **Contract on `find_by_line_fast`** for the buffer `buf`: started at a line start it returns the
first line from there on that the pattern matches (judged on the line alone), if any. -/
def FindC (cfg : Config) (m : MatcherI) (buf : Bytes) : Prop :=
  ∀ (prew : Bytes) (ls : List Bytes) (st : Core), GoodLines cfg.lineTerm.asByte ls → buf = prew ++ ls.flatten →
    (prew = [] ∨ prew.getLast? = some cfg.lineTerm.asByte) → st.pos = prew.length →
    findByLineFast cfg m buf st = firstPm cfg m prew.length ls

theorem firstPm_none {cfg : Config} {m : MatcherI} : ∀ {ls : List Bytes} {o : Nat},
    firstPm cfg m o ls = none → ∀ l ∈ ls, pmLineL cfg m l = false := by
  intro ls
  induction ls with
  | nil => intro o _ l hl; simp at hl
  | cons x xs ih =>
    intro o h l hl
    unfold firstPm at h
    split at h
    · cases h
    · rename_i hx
      simp only [List.mem_cons] at hl
      cases hl with
      | inl e => rw [e]; simpa using hx
      | inr e => exact ih h l e

theorem firstPm_some {cfg : Config} {m : MatcherI} : ∀ {ls : List Bytes} {o : Nat} {sp : Span},
    firstPm cfg m o ls = some sp →
    ∃ nm lj rest, ls = nm ++ lj :: rest ∧ (∀ l ∈ nm, pmLineL cfg m l = false) ∧ pmLineL cfg m lj = true ∧
      sp = ⟨o + nm.flatten.length, o + nm.flatten.length + lj.length⟩ := by
  intro ls
  induction ls with
  | nil => intro o sp h; cases h
  | cons x xs ih =>
    intro o sp h
    unfold firstPm at h
    split at h
    · rename_i hx
      simp only [Option.some.injEq] at h
      exact ⟨[], x, xs, rfl, fun l hl => by simp at hl, hx, by rw [← h]; simp⟩
    · rename_i hx
      obtain ⟨nm, lj, rest, e1, e2, e3, e4⟩ := ih h
      refine ⟨x :: nm, lj, rest, by rw [e1]; rfl, ?_, e3, ?_⟩
      · intro l hl
        simp only [List.mem_cons] at hl
        cases hl with
        | inl e => rw [e]; simpa using hx
        | inr e => exact e2 l e
      · rw [e4]; simp [Nat.add_assoc]

/-! ### `match_by_line` on the fast path, as a loop and a tail -/

/-- what `match_by_line` / `match_by_line_fast` do with the result of the fast loop -/
def fastTail (cfg : Config) (m : MatcherI) (σ : Script) (buf : Bytes)
    (x : Core × Res (Option FastMatchResult)) : Core × Res Bool :=
  match x with
  | (st, .err) => (st, .err)
  | (st, .ok (some .switchToSlow)) => matchByLineSlow cfg m σ buf st
  | (st, .ok (some .continue_)) => (st, .ok true)
  | (st, .ok (some .stop)) => (st, .ok false)
  | (st, .ok none) =>
    match afterContextByLine cfg σ buf st buf.length with
    | (st, .err) => (st, .err)
    | (st, .ok false) => (st, .ok false)
    | (st, .ok true) => ({ st with pos := buf.length }, .ok true)

theorem matchByLine_fast {cfg : Config} {m : MatcherI} (σ : Script) (buf : Bytes) (st : Core)
    (h : isLineByLineFast cfg m st = true) :
    matchByLine cfg m σ buf st = fastTail cfg m σ buf (fastLoop cfg m σ buf (buf.length + 1) st) := by
  unfold matchByLine matchByLineFast
  rw [if_pos h]
  generalize fastLoop cfg m σ buf (buf.length + 1) st = x
  obtain ⟨s, r⟩ := x
  cases r with
  | err => rfl
  | ok o =>
    cases o with
    | some fr => cases fr <;> rfl
    | none =>
      simp only [fastTail]
      generalize afterContextByLine cfg σ buf s buf.length = y
      obtain ⟨s2, r2⟩ := y
      cases r2 with
      | err => rfl
      | ok b => cases b <;> rfl

end RgVerif.Searcher

namespace RgVerif.Searcher
open RgVerif RgVerif.Matcher RgVerif.Lines RgVerif.GrepSpec

/-- the slow loop over at least one line does not read the position it starts with -/
theorem slowLoop_init_pos (cfg : Config) (m : MatcherI) (σ : Script) (buf : Bytes) (sp : Span) (rest : List Span)
    (st : Core) (p : Nat) :
    slowLoop cfg m σ buf (sp :: rest) { st with pos := p } = slowLoop cfg m σ buf (sp :: rest) st := by
  simp only [slowLoop]

theorem withPH_eq_of {a b : Core} (h : a.withPH 0 false = b.withPH 0 false) (hp : a.pos = b.pos)
    (hh : a.hasMatched = b.hasMatched) : a = b := by
  have := withPH_inj h
  rw [this, hp, hh]
  rfl

end RgVerif.Searcher

namespace RgVerif.Searcher
open RgVerif RgVerif.Matcher RgVerif.Lines RgVerif.GrepSpec

theorem goodLines_right {t : Nat} : ∀ {a b : List Bytes}, GoodLines t (a ++ b) → GoodLines t b := by
  intro a
  induction a with
  | nil => intro b h; exact h
  | cons x xs ih => intro b h; exact ih (goodLines_tail h)

theorem goodLines_left_allTerm {t : Nat} : ∀ {a b : List Bytes}, GoodLines t (a ++ b) → b ≠ [] → AllTerm t a := by
  intro a
  induction a with
  | nil => intro b _ _ l hl; simp at hl
  | cons x xs ih =>
    intro b h hb l hl
    simp only [List.mem_cons] at hl
    cases hl with
    | inl e => rw [e]; exact goodLines_head_term h (by simp [hb])
    | inr e => exact ih (goodLines_tail h) hb l e

theorem goodLines_left {t : Nat} {a b : List Bytes} (h : GoodLines t (a ++ b)) : GoodLines t a := by
  by_cases hb : b = []
  · subst hb; simpa using h
  · exact (goodLines_left_allTerm h hb).good

theorem withPH_fields {a b : Core} (h : a.withPH 0 false = b.withPH 0 false) :
    a.lastLineVisited = b.lastLineVisited ∧ a.afterContextLeft = b.afterContextLeft ∧ a.events = b.events ∧
    a.binaryByteOffset = b.binaryByteOffset :=
  ⟨by have := congrArg Core.lastLineVisited h; exact this, by have := congrArg Core.afterContextLeft h; exact this,
    by have := congrArg Core.events h; exact this, by have := congrArg Core.binaryByteOffset h; exact this⟩

/-- what one delivery of the fast path does: `after_context_by_line`, `before_context_by_line`, then a
run of selected lines -/
def beforeThenRun (cfg : Config) (σ : Script) (buf : Bytes) (o : Nat) (sps : List Span) (st : Core) : Core × Res Bool :=
  match beforeContextByLine cfg σ buf st o with
  | (st, .ok true) => matchedLoop cfg σ buf sps st
  | (st, r) => (st, r)

def deliverRun (cfg : Config) (σ : Script) (buf : Bytes) (o : Nat) (sps : List Span) (st : Core) : Core × Res Bool :=
  match afterContextByLine cfg σ buf st o with
  | (st, .ok true) => beforeThenRun cfg σ buf o sps st
  | (st, r) => (st, r)

theorem beforeThenRun_ph {cfg : Config} (hbin : cfg.binary = .none) (σ : Script) (buf : Bytes) (o : Nat)
    (sps : List Span) : FramesPH (beforeThenRun cfg σ buf o sps) :=
  FramesPH.bind (beforeContextByLine_ph hbin σ buf o) (matchedLoop_ph hbin σ buf sps)

theorem beforeThenRun_noStop {cfg : Config} (hbin : cfg.binary = .none) (σ : Script) (buf : Bytes) (o : Nat)
    (sps : List Span) (st : Core) : NoStopRes σ (beforeThenRun cfg σ buf o sps st) :=
  NoStopRes.bind _ _ (beforeContextByLine_noStop hbin σ buf st o) (matchedLoop_noStop hbin σ buf sps)

theorem noStop_err (σ : Script) (s : Core) : NoStopRes σ (s, .err) := by intro h; cases h

/-- **one delivery of the fast path** against the slow loop over the pending unselected lines and the run -/
theorem deliver_run {cfg : Config} (hbin : cfg.binary = .none) (hpt : cfg.passthru = false) (m : MatcherI)
    (σ : Script) (buf : Bytes) (pre : Bytes) (pend : List Bytes) (l : Bytes) (run : List Bytes) (F : Core) (P o : Nat)
    (ho : o = pre.length + pend.flatten.length)
    (htake : buf.take (pre.length + (pend ++ l :: run).flatten.length) = pre ++ (pend ++ l :: run).flatten)
    (hgp : AllTerm cfg.lineTerm.asByte pend)
    (hpend : ∀ x ∈ pend, succL cfg m x = false) (hsel : ∀ x ∈ l :: run, succL cfg m x = true)
    (hJ : 0 < F.afterContextLeft → F.lastLineVisited = pre.length)
    (hSC : pend ≠ [] → cfg.stopOnNonmatch = false ∨ F.hasMatched = false) :
    (deliverRun cfg σ buf o (spansFrom o (l :: run)) (F.withPH P true)).2
        = (slowLoop cfg m σ buf (spansFrom pre.length (pend ++ l :: run)) F).2 ∧
      (deliverRun cfg σ buf o (spansFrom o (l :: run)) (F.withPH P true)).1.withPH 0 false
        = (slowLoop cfg m σ buf (spansFrom pre.length (pend ++ l :: run)) F).1.withPH 0 false ∧
      NoStopRes σ (deliverRun cfg σ buf o (spansFrom o (l :: run)) (F.withPH P true)) ∧
      ((deliverRun cfg σ buf o (spansFrom o (l :: run)) (F.withPH P true)).2 = .ok true →
        (deliverRun cfg σ buf o (spansFrom o (l :: run)) (F.withPH P true)).1.pos = P ∧
        (deliverRun cfg σ buf o (spansFrom o (l :: run)) (F.withPH P true)).1.hasMatched = true ∧
        (deliverRun cfg σ buf o (spansFrom o (l :: run)) (F.withPH P true)).1.lastLineVisited
          = o + (l :: run).flatten.length ∧
        (deliverRun cfg σ buf o (spansFrom o (l :: run)) (F.withPH P true)).1.afterContextLeft = cfg.afterContext ∧
        (slowLoop cfg m σ buf (spansFrom pre.length (pend ++ l :: run)) F).1.pos = o + (l :: run).flatten.length ∧
        (slowLoop cfg m σ buf (spansFrom pre.length (pend ++ l :: run)) F).1.hasMatched = true) := by
  have htakeR : buf.take ((pre ++ pend.flatten).length + (l :: run).flatten.length)
      = (pre ++ pend.flatten) ++ (l :: run).flatten := by
    simpa [Nat.add_assoc] using htake
  have hl : (pre ++ pend.flatten).length = o := by rw [ho]; simp
  have htakeP : buf.take (pre.length + pend.flatten.length) = pre ++ pend.flatten := by
    have hl' : (pre ++ pend.flatten).length = pre.length + pend.flatten.length := by simp
    have := congrArg (List.take (pre ++ pend.flatten).length) htakeR
    rw [List.take_take, Nat.min_eq_left (Nat.le_add_right _ _), take_len_app] at this
    rw [← hl']; exact this
  -- the slow loop over the pending lines
  obtain ⟨a1, a2, a3⟩ := slow_nonsel hbin hpt m σ buf pend pre F htakeP hgp.good hpend hJ hSC
  rw [← ho] at a1 a2 a3
  -- split the slow loop
  have hYs := slowLoop_append cfg m σ buf (spansFrom pre.length pend) (spansFrom o (l :: run)) F
  rw [show spansFrom pre.length pend ++ spansFrom o (l :: run) = spansFrom pre.length (pend ++ l :: run) by
    rw [spansFrom_append, ← ho]] at hYs
  rw [hYs]
  unfold deliverRun
  -- frames
  have hfrA : afterContextByLine cfg σ buf (F.withPH P true) o
      = ((afterContextByLine cfg σ buf F o).1.withPH P true, (afterContextByLine cfg σ buf F o).2) :=
    afterContextByLine_ph hbin σ buf o F P true
  have hnsA := afterContextByLine_noStop hbin σ buf F o
  rw [hfrA]
  generalize afterContextByLine cfg σ buf F o = A at a1 a2 a3 hnsA ⊢
  generalize slowLoop cfg m σ buf (spansFrom pre.length pend) F = S at a1 a2 a3 ⊢
  obtain ⟨a, ra⟩ := A
  obtain ⟨s, rs⟩ := S
  dsimp only at a1 a2 a3
  subst a1
  cases rs with
  | err => exact ⟨rfl, a2.symm, noStop_err σ _, fun h => by cases h⟩
  | ok b =>
    cases b with
    | false => exact ⟨rfl, a2.symm, hnsA, fun h => by cases h⟩
    | true =>
      dsimp only
      -- the slow state is the fast one up to position and `has_matched`
      have hs : s = a.withPH s.pos s.hasMatched := withPH_inj a2
      -- the run
      have hsr := slow_selrun hbin m σ buf l run (pre ++ pend.flatten) s htakeR hsel
      rw [hl] at hsr
      have b1 : (slowLoop cfg m σ buf (spansFrom o (l :: run)) s).2
          = (beforeThenRun cfg σ buf o (spansFrom o (l :: run)) s).2 := hsr.1
      have b2 : (slowLoop cfg m σ buf (spansFrom o (l :: run)) s).1.withPH 0 false
          = (beforeThenRun cfg σ buf o (spansFrom o (l :: run)) s).1.withPH 0 false := hsr.2.1
      have b3 := hsr.2.2
      have hc1 := beforeThenRun_ph hbin σ buf o (spansFrom o (l :: run)) a P true
      have hc2 := beforeThenRun_ph hbin σ buf o (spansFrom o (l :: run)) a s.pos s.hasMatched
      rw [← hs] at hc2
      rw [hc1]
      rw [hc2] at b1 b2
      have hnsB := beforeThenRun_noStop hbin σ buf o (spansFrom o (l :: run)) a
      generalize beforeThenRun cfg σ buf o (spansFrom o (l :: run)) a = B at b1 b2 hnsB ⊢
      refine ⟨b1.symm, by rw [b2]; rfl, hnsB, fun hok => ?_⟩
      have hok' : (slowLoop cfg m σ buf (spansFrom o (l :: run)) s).2 = .ok true := by rw [b1]; exact hok
      obtain ⟨c1, c2, c3, c4⟩ := b3 hok'
      obtain ⟨f1, f2, _, _⟩ := withPH_fields b2
      refine ⟨rfl, rfl, ?_, ?_, c1, c2⟩
      · have : (B.1.withPH s.pos s.hasMatched).lastLineVisited = B.1.lastLineVisited := rfl
        show B.1.lastLineVisited = _
        rw [← this, ← f1]; exact c3
      · have : (B.1.withPH s.pos s.hasMatched).afterContextLeft = B.1.afterContextLeft := rfl
        show B.1.afterContextLeft = _
        rw [← this, ← f2]; exact c4

end RgVerif.Searcher

namespace RgVerif.Searcher
open RgVerif RgVerif.Matcher RgVerif.Lines RgVerif.GrepSpec

theorem deliverRun_ph {cfg : Config} (hbin : cfg.binary = .none) (σ : Script) (buf : Bytes) (o : Nat)
    (sps : List Span) : FramesPH (deliverRun cfg σ buf o sps) :=
  FramesPH.bind (afterContextByLine_ph hbin σ buf o) (beforeThenRun_ph hbin σ buf o sps)

/-- what the fast loop does with the result of one iteration -/
def fastK (cfg : Config) (m : MatcherI) (σ : Script) (buf : Bytes) (fuel : Nat) (R : Core × Res Bool) :
    Core × Res (Option FastMatchResult) :=
  match R with
  | (st, .err) => (st, .err)
  | (st, .ok false) => (st, .ok (some .stop))
  | (st, .ok true) => fastLoop cfg m σ buf fuel st

/-- what the slow loop does after a first part of its lines -/
def slowK (cfg : Config) (m : MatcherI) (σ : Script) (buf : Bytes) (rest : List Span) (Ys : Core × Res Bool) :
    Core × Res Bool :=
  match Ys with
  | (st', .ok true) => slowLoop cfg m σ buf rest st'
  | r => r

theorem slowLoop_append' (cfg : Config) (m : MatcherI) (σ : Script) (buf : Bytes) (xs ys : List Span) (st : Core) :
    slowLoop cfg m σ buf (xs ++ ys) st = slowK cfg m σ buf ys (slowLoop cfg m σ buf xs st) :=
  slowLoop_append cfg m σ buf xs ys st

/-- the relation between a fast-path result and a slow-path result -/
def FS (σ : Script) (X Y : Core × Res Bool) : Prop :=
  X.2 = Y.2 ∧ X.1.withPH 0 false = Y.1.withPH 0 false ∧ ((∀ i, σ i ≠ .stop) → X.2 ≠ .err → X.1 = Y.1) ∧
    (X.2 = .ok true → X.1 = Y.1)

theorem fast_cont {cfg : Config} (m : MatcherI) (σ : Script) (buf : Bytes) (fuel : Nat) (R Ys : Core × Res Bool)
    (rest : List Span) (h2 : R.2 = Ys.2) (hw : R.1.withPH 0 false = Ys.1.withPH 0 false) (hns : NoStopRes σ R)
    (hih : R.2 = .ok true → FS σ (fastTail cfg m σ buf (fastLoop cfg m σ buf fuel R.1))
      (slowLoop cfg m σ buf rest Ys.1)) :
    FS σ (fastTail cfg m σ buf (fastK cfg m σ buf fuel R)) (slowK cfg m σ buf rest Ys) := by
  obtain ⟨r1, rr⟩ := R
  obtain ⟨y1, yr⟩ := Ys
  dsimp only at h2 hw hih
  subst h2
  cases rr with
  | err => exact ⟨rfl, hw, fun _ h => absurd rfl h, fun h => by cases h⟩
  | ok b =>
    cases b with
    | false =>
      refine ⟨rfl, hw, fun hs _ => ?_, fun h => by cases h⟩
      obtain ⟨i, hi⟩ := hns rfl
      exact absurd hi (hs i)
    | true => exact hih rfl

end RgVerif.Searcher

namespace RgVerif.Searcher
open RgVerif RgVerif.Matcher RgVerif.Lines RgVerif.GrepSpec

theorem slowK_nil (cfg : Config) (m : MatcherI) (σ : Script) (buf : Bytes) (Ys : Core × Res Bool) :
    slowK cfg m σ buf [] Ys = Ys := by
  obtain ⟨s, r⟩ := Ys
  cases r with
  | err => rfl
  | ok b => cases b <;> rfl

theorem slowLoop_init_pos' (cfg : Config) (m : MatcherI) (σ : Script) (buf : Bytes) (o : Nat) (ls : List Bytes)
    (hne : ls ≠ []) (st : Core) (p : Nat) :
    slowLoop cfg m σ buf (spansFrom o ls) { st with pos := p } = slowLoop cfg m σ buf (spansFrom o ls) st := by
  cases ls with
  | nil => exact absurd rfl hne
  | cons l ls => simp only [spansFrom]; exact slowLoop_init_pos cfg m σ buf _ _ st p

/-- the end of `match_by_line_fast` when no selected line is left: the trailing after-context -/
theorem fast_tail_nonsel {cfg : Config} (hbin : cfg.binary = .none) (hpt : cfg.passthru = false) (m : MatcherI)
    (σ : Script) (buf pre : Bytes) (nl : List Bytes) (F : Core) (hbuf : buf = pre ++ nl.flatten)
    (hg : GoodLines cfg.lineTerm.asByte nl) (hnl : ∀ l ∈ nl, succL cfg m l = false)
    (hJ : 0 < F.afterContextLeft → F.lastLineVisited = pre.length)
    (hSC : nl ≠ [] → cfg.stopOnNonmatch = false ∨ F.hasMatched = false)
    (hposF : nl = [] → F.pos = buf.length) :
    FS σ (fastTail cfg m σ buf (F, .ok none)) (slowLoop cfg m σ buf (spansFrom pre.length nl) F) := by
  have hlen : buf.length = pre.length + nl.flatten.length := by rw [hbuf]; simp
  have htake : buf.take (pre.length + nl.flatten.length) = pre ++ nl.flatten := by
    rw [hbuf, ← List.length_append, List.take_length]
  obtain ⟨a1, a2, a3⟩ := slow_nonsel hbin hpt m σ buf nl pre F htake hg hnl hJ hSC
  rw [← hlen] at a1 a2 a3
  have hnsA := afterContextByLine_noStop hbin σ buf F buf.length
  have hphA : (afterContextByLine cfg σ buf F buf.length).1.pos = F.pos ∧
      (afterContextByLine cfg σ buf F buf.length).1.hasMatched = F.hasMatched :=
    (afterContextByLine_ph hbin σ buf buf.length).pos F
  simp only [fastTail]
  generalize afterContextByLine cfg σ buf F buf.length = A at a1 a2 a3 hnsA hphA ⊢
  generalize slowLoop cfg m σ buf (spansFrom pre.length nl) F = S at a1 a2 a3 ⊢
  obtain ⟨a, ra⟩ := A
  obtain ⟨s, rs⟩ := S
  dsimp only at a1 a2 a3 hphA
  subst a1
  cases rs with
  | err => exact ⟨rfl, a2.symm, fun _ h => absurd rfl h, fun h => by cases h⟩
  | ok b =>
    cases b with
    | false =>
      refine ⟨rfl, a2.symm, fun hs _ => ?_, fun h => by cases h⟩
      obtain ⟨i, hi⟩ := hnsA rfl
      exact absurd hi (hs i)
    | true =>
      obtain ⟨p1, p2⟩ := a3 rfl
      suffices heq : ({ a with pos := buf.length } : Core) = s from
        ⟨rfl, by rw [a2]; rfl, fun _ _ => heq, fun _ => heq⟩
      apply withPH_eq_of (by rw [a2]; rfl)
      · show buf.length = s.pos
        rw [p1]
        split
        · rename_i h0; exact (hposF h0).symm
        · rfl
      · show a.hasMatched = s.hasMatched
        rw [p2, hphA.2]

/-- the body of a non-inverted iteration of the fast loop, as one delivery -/
theorem noninv_step {cfg : Config} (hbin : cfg.binary = .none) (σ : Script) (buf : Bytes) (G : Core) (s e : Nat)
    (hG : G.hasMatched = true) (h0 : cfg.maxContext = 0 → G.afterContextLeft = 0) :
    ((match (if cfg.maxContext > 0 then
            (match afterContextByLine cfg σ buf G s with
              | (st, .ok true) => beforeContextByLine cfg σ buf st s
              | (st, r) => (st, r))
          else (G, .ok true)) with
        | (st, .ok true) => sinkMatched cfg σ buf { st with pos := e } ⟨s, e⟩
        | (st, r) => (st, r)).2 = (deliverRun cfg σ buf s [⟨s, e⟩] (G.withPH e true)).2) ∧
    ((match (if cfg.maxContext > 0 then
            (match afterContextByLine cfg σ buf G s with
              | (st, .ok true) => beforeContextByLine cfg σ buf st s
              | (st, r) => (st, r))
          else (G, .ok true)) with
        | (st, .ok true) => sinkMatched cfg σ buf { st with pos := e } ⟨s, e⟩
        | (st, r) => (st, r)).1.withPH 0 false = (deliverRun cfg σ buf s [⟨s, e⟩] (G.withPH e true)).1.withPH 0 false) ∧
    ((match (if cfg.maxContext > 0 then
            (match afterContextByLine cfg σ buf G s with
              | (st, .ok true) => beforeContextByLine cfg σ buf st s
              | (st, r) => (st, r))
          else (G, .ok true)) with
        | (st, .ok true) => sinkMatched cfg σ buf { st with pos := e } ⟨s, e⟩
        | (st, r) => (st, r)).2 = .ok true →
      (match (if cfg.maxContext > 0 then
            (match afterContextByLine cfg σ buf G s with
              | (st, .ok true) => beforeContextByLine cfg σ buf st s
              | (st, r) => (st, r))
          else (G, .ok true)) with
        | (st, .ok true) => sinkMatched cfg σ buf { st with pos := e } ⟨s, e⟩
        | (st, r) => (st, r)).1 = (deliverRun cfg σ buf s [⟨s, e⟩] (G.withPH e true)).1) := by
  -- the context part, in one form for both branches
  have hctx : (if cfg.maxContext > 0 then
        (match afterContextByLine cfg σ buf G s with
          | (st, .ok true) => beforeContextByLine cfg σ buf st s
          | (st, r) => (st, r))
      else (G, .ok true))
      = (match afterContextByLine cfg σ buf G s with
          | (st, .ok true) => beforeContextByLine cfg σ buf st s
          | (st, r) => (st, r)) := by
    split
    · rfl
    · rename_i hmc
      have hmc0 : cfg.maxContext = 0 := by omega
      have ha : G.afterContextLeft = 0 := h0 hmc0
      have hb : cfg.beforeContext = 0 := by unfold Config.maxContext at hmc0; omega
      simp [afterContextByLine, beforeContextByLine, ha, hb]
  rw [hctx]
  have hfrD : deliverRun cfg σ buf s [⟨s, e⟩] (G.withPH e true)
      = ((deliverRun cfg σ buf s [⟨s, e⟩] G).1.withPH e true, (deliverRun cfg σ buf s [⟨s, e⟩] G).2) :=
    deliverRun_ph hbin σ buf s [⟨s, e⟩] G e true
  rw [hfrD]
  unfold deliverRun beforeThenRun
  have hpa : (afterContextByLine cfg σ buf G s).1.hasMatched = G.hasMatched :=
    ((afterContextByLine_ph hbin σ buf s).pos G).2
  generalize afterContextByLine cfg σ buf G s = A at hpa ⊢
  obtain ⟨a, ra⟩ := A
  cases ra with
  | err => exact ⟨rfl, rfl, fun h => by cases h⟩
  | ok ba =>
    cases ba with
    | false => exact ⟨rfl, rfl, fun h => by cases h⟩
    | true =>
      dsimp only at hpa ⊢
      have hpb : (beforeContextByLine cfg σ buf a s).1.hasMatched = a.hasMatched :=
        ((beforeContextByLine_ph hbin σ buf s).pos a).2
      generalize beforeContextByLine cfg σ buf a s = B at hpb ⊢
      obtain ⟨b, rb⟩ := B
      cases rb with
      | err => exact ⟨rfl, rfl, fun h => by cases h⟩
      | ok bb =>
        cases bb with
        | false => exact ⟨rfl, rfl, fun h => by cases h⟩
        | true =>
          dsimp only at hpb ⊢
          have hfr : sinkMatched cfg σ buf { b with pos := e } ⟨s, e⟩
              = ((sinkMatched cfg σ buf b ⟨s, e⟩).1.withPH e b.hasMatched, (sinkMatched cfg σ buf b ⟨s, e⟩).2) :=
            sinkMatched_ph hbin σ buf ⟨s, e⟩ b e b.hasMatched
          rw [hfr]
          simp only [matchedLoop]
          have hbt : b.hasMatched = true := by rw [hpb, hpa, hG]
          rw [hbt]
          generalize sinkMatched cfg σ buf b ⟨s, e⟩ = C
          obtain ⟨c, rc⟩ := C
          cases rc with
          | err => exact ⟨rfl, rfl, fun h => by cases h⟩
          | ok bc => cases bc <;> exact ⟨rfl, rfl, fun _ => rfl⟩

theorem fastLoop_eq_slow {cfg : Config} (hbin : cfg.binary = .none) (hpt : cfg.passthru = false)
    (hsoi : cfg.stopOnNonmatch = true → cfg.invertMatch = false) (m : MatcherI) (σ : Script) (buf : Bytes)
    (hC : FindC cfg m buf) :
    ∀ (fuel : Nat) (pre : Bytes) (pend ls : List Bytes) (F : Core),
      ls.length < fuel →
      buf = pre ++ (pend ++ ls).flatten → GoodLines cfg.lineTerm.asByte (pend ++ ls) →
      (ls ≠ [] → pre = [] ∨ pre.getLast? = some cfg.lineTerm.asByte) →
      F.pos = pre.length + pend.flatten.length →
      (∀ l ∈ pend, succL cfg m l = false) → (cfg.invertMatch = false → pend = []) →
      (0 < F.afterContextLeft → F.lastLineVisited = pre.length) → F.afterContextLeft ≤ cfg.afterContext →
      FS σ (fastTail cfg m σ buf (fastLoop cfg m σ buf fuel F))
        (slowLoop cfg m σ buf (spansFrom pre.length (pend ++ ls)) F) := by
  intro fuel
  induction fuel with
  | zero => intro pre pend ls F hf; omega
  | succ fuel ih =>
    intro pre pend ls F hf hbuf hg hpre hpos hpend hinv hJ hacl
    have hlen : buf.length = pre.length + (pend.flatten.length + ls.flatten.length) := by
      rw [hbuf]; simp
    have hgl : GoodLines cfg.lineTerm.asByte ls := goodLines_right hg
    have hgp : GoodLines cfg.lineTerm.asByte pend := goodLines_left hg
    have hSC : pend ≠ [] → cfg.stopOnNonmatch = false ∨ F.hasMatched = false := by
      intro hne
      left
      cases hs : cfg.stopOnNonmatch with
      | false => rfl
      | true => exact absurd (hinv (hsoi hs)) hne
    have hdrop : buf.drop F.pos = ls.flatten := by
      rw [hpos, hbuf, List.flatten_append, ← List.append_assoc,
        show pre.length + pend.flatten.length = (pre ++ pend.flatten).length by simp, List.drop_left]
    rw [fastLoop]
    by_cases hemp : (buf.drop F.pos).isEmpty = true
    · -- nothing left to search: the trailing after-context
      rw [if_pos hemp]
      have hls : ls = [] := by
        apply Classical.byContradiction
        intro hne
        have := goodLines_flatten_ne_nil hgl hne
        rw [hdrop] at hemp
        exact this (by simpa using hemp)
      subst hls
      simp only [List.append_nil] at hbuf hg hlen ⊢
      simp only [List.flatten_nil, List.length_nil, Nat.add_zero] at hlen
      have htake : buf.take (pre.length + pend.flatten.length) = pre ++ pend.flatten := by
        rw [hbuf, ← List.length_append, List.take_length]
      obtain ⟨a1, a2, a3⟩ := slow_nonsel hbin hpt m σ buf pend pre F htake hgp hpend hJ hSC
      rw [← hlen] at a1 a2 a3
      have hnsA := afterContextByLine_noStop hbin σ buf F buf.length
      have hphA : (afterContextByLine cfg σ buf F buf.length).1.pos = F.pos ∧
          (afterContextByLine cfg σ buf F buf.length).1.hasMatched = F.hasMatched :=
        (afterContextByLine_ph hbin σ buf buf.length).pos F
      simp only [fastTail]
      generalize afterContextByLine cfg σ buf F buf.length = A at a1 a2 a3 hnsA hphA ⊢
      generalize slowLoop cfg m σ buf (spansFrom pre.length pend) F = S at a1 a2 a3 ⊢
      obtain ⟨a, ra⟩ := A
      obtain ⟨s, rs⟩ := S
      dsimp only at a1 a2 a3 hphA
      subst a1
      cases rs with
      | err => exact ⟨rfl, a2.symm, fun _ h => absurd rfl h, fun h => by cases h⟩
      | ok b =>
        cases b with
        | false =>
          refine ⟨rfl, a2.symm, fun hs _ => ?_, fun h => by cases h⟩
          obtain ⟨i, hi⟩ := hnsA rfl
          exact absurd hi (hs i)
        | true =>
          obtain ⟨p1, p2⟩ := a3 rfl
          suffices heq : ({ a with pos := buf.length } : Core) = s from
            ⟨rfl, by rw [a2]; rfl, fun _ _ => heq, fun _ => heq⟩
          apply withPH_eq_of (by rw [a2]; rfl)
          · show buf.length = s.pos
            rw [p1]
            split
            · rw [hpos]; exact hlen
            · rfl
          · show a.hasMatched = s.hasMatched
            rw [p2, hphA.2]
    · rw [if_neg hemp]
      have hlsne : ls ≠ [] := by
        intro h0
        rw [hdrop, h0] at hemp
        exact hemp rfl
      have hpT : AllTerm cfg.lineTerm.asByte pend := goodLines_left_allTerm hg hlsne
      by_cases hsw : (cfg.stopOnNonmatch && F.hasMatched) = true
      · -- stop_on_nonmatch after a match: the rest is done by the slow loop anyway
        rw [if_pos hsw]
        have hson : cfg.stopOnNonmatch = true := by
          cases h : cfg.stopOnNonmatch with
          | false => simp [h] at hsw
          | true => rfl
        have hp0 : pend = [] := hinv (hsoi hson)
        subst hp0
        simp only [List.flatten_nil, List.length_nil, Nat.add_zero, List.nil_append] at hpos hbuf ⊢
        simp only [fastTail, matchByLineSlow]
        rw [hpos, stepLines_good pre ls hgl buf.length (by rw [hbuf, List.take_length]) (by rw [hbuf]; simp)]
        exact ⟨rfl, rfl, fun _ _ => rfl, fun _ => rfl⟩
      · rw [if_neg hsw]
        have hSC2 : cfg.stopOnNonmatch = false ∨ F.hasMatched = false := by
          cases h1 : cfg.stopOnNonmatch with
          | false => exact Or.inl rfl
          | true =>
            right
            cases h2 : F.hasMatched with
            | false => rfl
            | true => simp [h1, h2] at hsw
        -- the contract, at the search position
        have hbnd : pre ++ pend.flatten = [] ∨ (pre ++ pend.flatten).getLast? = some cfg.lineTerm.asByte := by
          by_cases hp0 : pend = []
          · subst hp0; simpa using hpre hlsne
          · right
            rw [List.getLast?_append, allTerm_flatten_getLast hpT hp0]
            rfl
        have ho : F.pos = (pre ++ pend.flatten).length := by rw [hpos]; simp
        have hfind : findByLineFast cfg m buf F = firstPm cfg m F.pos ls := by
          rw [ho]
          exact hC (pre ++ pend.flatten) ls F hgl (by rw [hbuf]; simp) hbnd ho
        have hbufA : buf = (pre ++ pend.flatten) ++ ls.flatten := by rw [hbuf]; simp
        by_cases hi : cfg.invertMatch = true
        · -- inverted: runs of lines the pattern does not match
          rw [if_pos hi]
          show FS σ (fastTail cfg m σ buf (fastK cfg m σ buf fuel (matchByLineFastInvert cfg m σ buf F))) _
          have hsel_of : ∀ x, pmLineL cfg m x = false → succL cfg m x = true := by
            intro x hx; simp [succL, hx, hi]
          have hnsel_of : ∀ x, pmLineL cfg m x = true → succL cfg m x = false := by
            intro x hx; simp [succL, hx, hi]
          cases hfp : firstPm cfg m F.pos ls with
          | none =>
            -- everything left is selected
            have hall : ∀ x ∈ ls, succL cfg m x = true := fun x hx => hsel_of x (firstPm_none hfp x hx)
            obtain ⟨l, run, hlr⟩ : ∃ l run, ls = l :: run := by
              cases ls with
              | nil => exact absurd rfl hlsne
              | cons l run => exact ⟨l, run, rfl⟩
            have hfl : 0 < ls.flatten.length := by
              have := goodLines_flatten_ne_nil hgl hlsne
              exact List.length_pos_iff.mpr this
            have hMI : matchByLineFastInvert cfg m σ buf F
                = deliverRun cfg σ buf F.pos (spansFrom F.pos ls) (F.withPH buf.length true) := by
              unfold matchByLineFastInvert
              rw [hfind, hfp]
              dsimp only
              have hne : ¬ (buf.length - F.pos == 0) = true := by
                simp only [beq_iff_eq]; omega
              rw [if_neg hne, ho, stepLines_good (pre ++ pend.flatten) ls hgl buf.length
                (by rw [hbufA, List.take_length]) (by rw [hbufA]; simp only [List.length_append])]
              rfl
            rw [hMI, hlr]
            have htk : buf.take (pre.length + (pend ++ l :: run).flatten.length) = pre ++ (pend ++ l :: run).flatten := by
              rw [← hlr, hbuf, ← List.length_append, List.take_length]
            have hdr := deliver_run hbin hpt m σ buf pre pend l run F buf.length F.pos hpos htk hpT hpend
              (by rw [← hlr]; exact hall) hJ hSC
            rw [← hlr] at hdr ⊢
            obtain ⟨d1, d2, d3, d4⟩ := hdr
            have := fast_cont m σ buf fuel _ _ [] d1 d2 d3 (fun hok => by
              obtain ⟨e1, e2, e3, e4, e5, e6⟩ := d4 hok
              have hRY : (deliverRun cfg σ buf F.pos (spansFrom F.pos ls) (F.withPH buf.length true)).1
                  = (slowLoop cfg m σ buf (spansFrom pre.length (pend ++ ls)) F).1 := by
                apply withPH_eq_of d2
                · rw [e1, e5]; omega
                · rw [e2, e6]
              have hI := ih buf [] [] (deliverRun cfg σ buf F.pos (spansFrom F.pos ls) (F.withPH buf.length true)).1
                (by have := List.length_pos_iff.mpr hlsne; simp only [List.length_nil]; omega) (by simp) .nil (fun h => absurd rfl h) (by rw [e1]; simp)
                (fun x hx => by simp at hx) (fun _ => rfl)
                (fun _ => by rw [e3, hpos, hlen]; omega) (by rw [e4]; exact Nat.le_refl _)
              simp only [List.append_nil, spansFrom] at hI
              rw [← hRY]
              exact hI)
            rw [slowK_nil] at this
            exact this
          | some sp =>
            obtain ⟨run, lj, rest, hls, hrun, hlj, hsp⟩ := firstPm_some hfp
            have hljn : succL cfg m lj = false := hnsel_of lj hlj
            by_cases hr0 : run = []
            · -- the very next line is not selected: nothing to deliver, it becomes pending
              subst hr0
              simp only [List.nil_append, List.flatten_nil, List.length_nil, Nat.add_zero] at hls hsp
              have hMI : matchByLineFastInvert cfg m σ buf F = ({ F with pos := F.pos + lj.length }, .ok true) := by
                unfold matchByLineFastInvert
                rw [hfind, hfp, hsp]
                simp
              rw [hMI]
              show FS σ (fastTail cfg m σ buf (fastLoop cfg m σ buf fuel { F with pos := F.pos + lj.length })) _
              have hI := ih pre (pend ++ [lj]) rest { F with pos := F.pos + lj.length }
                (by have := congrArg List.length hls; simp only [List.length_cons] at this; omega)
                (by rw [hbuf, hls]; simp) (by rw [hls] at hg; simpa using hg)
                (fun hne => hpre hlsne)
                (by show F.pos + lj.length = _; rw [hpos]; simp only [List.flatten_append, List.flatten_cons, List.flatten_nil, List.append_nil, List.length_append]; omega)
                (fun x hx => by
                  simp only [List.mem_append, List.mem_singleton] at hx
                  cases hx with
                  | inl h => exact hpend x h
                  | inr h => rw [h]; exact hljn)
                (fun h => by rw [h] at hi; cases hi) hJ hacl
              rw [hls]
              have hne : pend ++ lj :: rest ≠ [] := by simp
              rw [show (pend ++ [lj]) ++ rest = pend ++ lj :: rest by simp,
                slowLoop_init_pos' cfg m σ buf pre.length _ hne F _] at hI
              exact hI
            · -- a run of selected lines, delivered at once
              obtain ⟨l, run', hlr⟩ : ∃ l run', run = l :: run' := by
                cases run with
                | nil => exact absurd rfl hr0
                | cons l run' => exact ⟨l, run', rfl⟩
              have hgr : GoodLines cfg.lineTerm.asByte run := by
                rw [hls] at hgl; exact goodLines_left hgl
              have hrT : AllTerm cfg.lineTerm.asByte run := by
                rw [hls] at hgl; exact goodLines_left_allTerm hgl (by simp)
              have hrpos : 0 < run.flatten.length := allTerm_flatten_pos hrT hr0
              have htkR : buf.take ((pre ++ pend.flatten).length + run.flatten.length)
                  = (pre ++ pend.flatten) ++ run.flatten := by
                rw [hbufA, hls]
                simp only [List.flatten_append, List.flatten_cons]
                rw [← List.append_assoc, ← List.length_append, List.take_left']
                rfl
              have hMI : matchByLineFastInvert cfg m σ buf F
                  = deliverRun cfg σ buf F.pos (spansFrom F.pos run)
                      (F.withPH (F.pos + run.flatten.length + lj.length) true) := by
                unfold matchByLineFastInvert
                rw [hfind, hfp, hsp]
                dsimp only
                have hne : ¬ (F.pos + run.flatten.length - F.pos == 0) = true := by simp only [beq_iff_eq]; omega
                rw [if_neg hne, ho, stepLines_good (pre ++ pend.flatten) run hgr _ htkR rfl]
                rfl
              rw [hMI]
              have htk : buf.take (pre.length + (pend ++ l :: run').flatten.length) = pre ++ (pend ++ l :: run').flatten := by
                rw [← hlr]
                have := htkR
                simp only [List.length_append, List.flatten_append] at this ⊢
                rw [Nat.add_assoc] at this
                rw [this, List.append_assoc]
              have hdr := deliver_run hbin hpt m σ buf pre pend l run' F (F.pos + run.flatten.length + lj.length) F.pos
                hpos htk hpT hpend (by rw [← hlr]; exact fun x hx => hsel_of x (hrun x hx)) hJ hSC
              rw [← hlr] at hdr
              obtain ⟨d1, d2, d3, d4⟩ := hdr
              -- the slow loop, split after the run
              have hY : slowLoop cfg m σ buf (spansFrom pre.length (pend ++ ls)) F
                  = slowK cfg m σ buf (spansFrom (pre.length + (pend ++ run).flatten.length) (lj :: rest))
                      (slowLoop cfg m σ buf (spansFrom pre.length (pend ++ run)) F) := by
                rw [hls, ← List.append_assoc, spansFrom_append, slowLoop_append']
              rw [hY]
              apply fast_cont m σ buf fuel _ _ _ d1 d2 d3
              intro hok
              obtain ⟨e1, e2, e3, e4, e5, e6⟩ := d4 hok
              have hrl : rest.length < fuel := by
                have := congrArg List.length hls
                simp only [List.length_append, List.length_cons] at this
                omega
              have hI := ih (pre ++ (pend ++ run).flatten) [lj] rest
                (deliverRun cfg σ buf F.pos (spansFrom F.pos run) (F.withPH (F.pos + run.flatten.length + lj.length) true)).1
                hrl
                (by rw [hbuf, hls]; simp)
                (by rw [hls, ← List.append_assoc] at hg; exact goodLines_right hg)
                (fun _ => Or.inr (by
                  rw [List.getLast?_append, allTerm_flatten_getLast (allTerm_append hpT hrT) (by simp [hr0])]
                  rfl))
                (by rw [e1, hpos]; simp only [List.length_append, List.flatten_append, List.flatten_cons, List.flatten_nil, List.append_nil]; omega)
                (fun x hx => by simp at hx; rw [hx]; exact hljn)
                (fun h => by rw [h] at hi; cases hi)
                (fun _ => by rw [e3, hpos]; simp only [List.length_append, List.flatten_append, List.flatten_cons]; omega)
                (by rw [e4]; exact Nat.le_refl _)
              -- the slow state differs from the fast one in the position only
              have hRY : (deliverRun cfg σ buf F.pos (spansFrom F.pos run)
                    (F.withPH (F.pos + run.flatten.length + lj.length) true)).1
                  = { (slowLoop cfg m σ buf (spansFrom pre.length (pend ++ run)) F).1 with
                      pos := F.pos + run.flatten.length + lj.length } := by
                have := withPH_inj d2
                rw [this, e1, e2]
                show _ = Core.withPH _ _ _
                rw [e6]
              have hsl : slowLoop cfg m σ buf (spansFrom (pre ++ (pend ++ run).flatten).length ([lj] ++ rest))
                    (deliverRun cfg σ buf F.pos (spansFrom F.pos run)
                      (F.withPH (F.pos + run.flatten.length + lj.length) true)).1
                  = slowLoop cfg m σ buf (spansFrom (pre.length + (pend ++ run).flatten.length) (lj :: rest))
                      (slowLoop cfg m σ buf (spansFrom pre.length (pend ++ run)) F).1 := by
                rw [hRY, List.length_append]
                exact slowLoop_init_pos' cfg m σ buf _ _ (by simp) _ _
              rw [hsl] at hI
              exact hI
        · -- not inverted
          rw [if_neg hi]
          have hi0 : cfg.invertMatch = false := by simpa using hi
          have hp0 : pend = [] := hinv hi0
          subst hp0
          simp only [List.flatten_nil, List.length_nil, Nat.add_zero, List.nil_append, List.append_nil] at hpos hbuf ho hbufA hfind ⊢
          have hsel_of : ∀ x, pmLineL cfg m x = true → succL cfg m x = true := by
            intro x hx; simp [succL, hx, hi0]
          have hnsel_of : ∀ x, pmLineL cfg m x = false → succL cfg m x = false := by
            intro x hx; simp [succL, hx, hi0]
          rw [hfind]
          cases hfp : firstPm cfg m F.pos ls with
          | none =>
            exact fast_tail_nonsel hbin hpt m σ buf pre ls F hbuf hgl
              (fun x hx => hnsel_of x (firstPm_none hfp x hx)) hJ (fun _ => hSC2) (fun h => absurd h hlsne)
          | some sp =>
            obtain ⟨nm, lj, rest, hls, hnm, hlj, hsp⟩ := firstPm_some hfp
            dsimp only
            have hG : ({ F with hasMatched := true } : Core) = F.withPH F.pos true := rfl
            rw [hG, hsp]
            dsimp only
            have hsuccj : succL cfg m lj = true := hsel_of lj hlj
            have hnmT : AllTerm cfg.lineTerm.asByte nm := by
              rw [hls] at hgl; exact goodLines_left_allTerm hgl (by simp)
            -- the three-way matches of the loop body, as `fastK` of one delivery
            have hshape : ∀ cx : Core × Res Bool, (match cx with
                | (st, .err) => (st, Res.err)
                | (st, .ok false) => (st, .ok (some FastMatchResult.stop))
                | (st, .ok true) =>
                  match sinkMatched cfg σ buf { st with pos := F.pos + nm.flatten.length + lj.length }
                      ⟨F.pos + nm.flatten.length, F.pos + nm.flatten.length + lj.length⟩ with
                  | (st, .err) => (st, .err)
                  | (st, .ok false) => (st, .ok (some FastMatchResult.stop))
                  | (st, .ok true) => fastLoop cfg m σ buf fuel st)
                = fastK cfg m σ buf fuel (match cx with
                  | (st, .ok true) => sinkMatched cfg σ buf { st with pos := F.pos + nm.flatten.length + lj.length }
                      ⟨F.pos + nm.flatten.length, F.pos + nm.flatten.length + lj.length⟩
                  | (st, r) => (st, r)) := by
              intro cx
              obtain ⟨c, rc⟩ := cx
              cases rc with
              | err => rfl
              | ok b =>
                cases b with
                | false => rfl
                | true =>
                  dsimp only
                  generalize sinkMatched cfg σ buf { c with pos := F.pos + nm.flatten.length + lj.length }
                    ⟨F.pos + nm.flatten.length, F.pos + nm.flatten.length + lj.length⟩ = y
                  obtain ⟨y1, ry⟩ := y
                  cases ry with
                  | err => rfl
                  | ok b2 => cases b2 <;> rfl
            refine Eq.mpr (congrArg (fun z => FS σ (fastTail cfg m σ buf z)
              (slowLoop cfg m σ buf (spansFrom pre.length ls) F)) (hshape _)) ?_
            have h0 : cfg.maxContext = 0 → (F.withPH F.pos true).afterContextLeft = 0 := by
              intro hm
              show F.afterContextLeft = 0
              unfold Config.maxContext at hm
              omega
            obtain ⟨n1, n2, n3⟩ := noninv_step hbin σ buf (F.withPH F.pos true) (F.pos + nm.flatten.length)
              (F.pos + nm.flatten.length + lj.length) rfl h0
            have hbufB : buf = (pre ++ (nm ++ [lj]).flatten) ++ rest.flatten := by
              rw [hbuf, hls]; simp
            have htk : buf.take (pre.length + (nm ++ [lj]).flatten.length) = pre ++ (nm ++ [lj]).flatten := by
              rw [hbufB]
              exact List.take_left' (by simp only [List.length_append])
            have hdr := deliver_run hbin hpt m σ buf pre nm lj [] F (F.pos + nm.flatten.length + lj.length)
              (F.pos + nm.flatten.length) (by rw [hpos]) htk hnmT (fun x hx => hnsel_of x (hnm x hx))
              (fun x hx => by simp at hx; rw [hx]; exact hsuccj) hJ (fun _ => hSC2)
            have hsp1 : spansFrom (F.pos + nm.flatten.length) [lj]
                = [⟨F.pos + nm.flatten.length, F.pos + nm.flatten.length + lj.length⟩] := by simp [spansFrom]
            rw [hsp1] at hdr
            obtain ⟨d1, d2, d3, d4⟩ := hdr
            have hY : slowLoop cfg m σ buf (spansFrom pre.length ls) F
                = slowK cfg m σ buf (spansFrom (pre.length + (nm ++ [lj]).flatten.length) rest)
                    (slowLoop cfg m σ buf (spansFrom pre.length (nm ++ [lj])) F) := by
              rw [hls, show nm ++ lj :: rest = (nm ++ [lj]) ++ rest by simp, spansFrom_append, slowLoop_append']
            rw [hY]
            generalize hCdef : (match (if cfg.maxContext > 0 then
                  (match afterContextByLine cfg σ buf (F.withPH F.pos true) (F.pos + nm.flatten.length) with
                    | (st, .ok true) => beforeContextByLine cfg σ buf st (F.pos + nm.flatten.length)
                    | (st, r) => (st, r))
                else (F.withPH F.pos true, .ok true)) with
              | (st, .ok true) => sinkMatched cfg σ buf { st with pos := F.pos + nm.flatten.length + lj.length }
                  ⟨F.pos + nm.flatten.length, F.pos + nm.flatten.length + lj.length⟩
              | (st, r) => (st, r)) = C
            have m1 : C.2 = (deliverRun cfg σ buf (F.pos + nm.flatten.length)
                [⟨F.pos + nm.flatten.length, F.pos + nm.flatten.length + lj.length⟩]
                (F.withPH (F.pos + nm.flatten.length + lj.length) true)).2 := by rw [← hCdef]; exact n1
            have m2 : C.1.withPH 0 false = (deliverRun cfg σ buf (F.pos + nm.flatten.length)
                [⟨F.pos + nm.flatten.length, F.pos + nm.flatten.length + lj.length⟩]
                (F.withPH (F.pos + nm.flatten.length + lj.length) true)).1.withPH 0 false := by rw [← hCdef]; exact n2
            have m3 : C.2 = .ok true → C.1 = (deliverRun cfg σ buf (F.pos + nm.flatten.length)
                [⟨F.pos + nm.flatten.length, F.pos + nm.flatten.length + lj.length⟩]
                (F.withPH (F.pos + nm.flatten.length + lj.length) true)).1 := by rw [← hCdef]; exact n3
            apply fast_cont m σ buf fuel C _ _ (m1.trans d1) (m2.trans d2)
              (fun hst => d3 (m1.symm.trans hst))
            intro hok
            have hokD := m1.symm.trans hok
            obtain ⟨e1, e2, e3, e4, e5, e6⟩ := d4 hokD
            have hCD := m3 hok
            have hDY := withPH_eq_of d2 (by rw [e1, e5]; simp) (by rw [e2, e6])
            have hrl : rest.length < fuel := by
              have := congrArg List.length hls
              simp only [List.length_append, List.length_cons] at this
              omega
            have hljT : rest ≠ [] → Term cfg.lineTerm.asByte lj := fun hr =>
              goodLines_head_term (by rw [hls] at hgl; exact goodLines_right hgl) hr
            have hI := ih (pre ++ (nm ++ [lj]).flatten) [] rest C.1 hrl
              (by rw [hbufB]; simp)
              (by rw [hls, show nm ++ lj :: rest = (nm ++ [lj]) ++ rest by simp] at hgl; simpa using goodLines_right hgl)
              (fun hr => Or.inr (by
                rw [List.getLast?_append, allTerm_flatten_getLast
                  (allTerm_append hnmT (fun x hx => by simp at hx; rw [hx]; exact hljT hr)) (by simp)]
                rfl))
              (by rw [hCD, e1, hpos]; simp only [List.length_append, List.flatten_append, List.flatten_cons, List.flatten_nil, List.append_nil, List.length_nil, Nat.add_zero]; omega)
              (fun x hx => by simp at hx) (fun _ => rfl)
              (fun _ => by rw [hCD, e3, hpos]; simp only [List.length_append, List.flatten_append, List.flatten_cons, List.flatten_nil, List.append_nil]; omega)
              (by rw [hCD, e4]; exact Nat.le_refl _)
            simp only [List.nil_append, List.length_append] at hI
            rw [hCD, hDY] at hI ⊢
            exact hI

end RgVerif.Searcher
