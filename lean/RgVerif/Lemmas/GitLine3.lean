import RgVerif.Lemmas.GitLine2
import RgVerif.Lemmas.GitWild
/-
Line level of C04 on the wildcard sub-grammar: `[!][/]core[/]` where `core` is made of literals, `?`, single
`*`, `\x` escapes and `/` separators, case-sensitive or (without escapes) case-insensitive.
Part 1: what `add_line` and git's `parse_path_pattern` make of such a line.
-/
namespace RgVerif.Gitignore
open RgVerif RgVerif.Glob

/-- the conditions on the core of a line -/
structure CoreOK (ci : Bool) (core : List Nat) : Prop where
  simple : simpleGlob true core = true
  head : ∃ c0 tl, core = c0 :: tl ∧ c0 ≠ 92 ∧ c0 ≠ 33 ∧ c0 ≠ 47 ∧ c0 ≠ 35
  last : ∃ cl, core.getLast? = some cl ∧ cl ≠ 47 ∧ cl ≠ 92 ∧ cl ≠ 32 ∧ isWs cl = false
  noEscCi : ci = true → 92 ∉ core
  /-- no `**` directly after the literal prefix (always so in this grammar; kept decidable in the guard) -/
  dpos : GitSpec.okDstarPos core = true

/-- the same, decidable -/
def okCore (ci : Bool) (core : List Nat) : Bool :=
  simpleGlob true core &&
  (match core.head? with
   | some c0 => c0 != 92 && c0 != 33 && c0 != 47 && c0 != 35
   | none => false) &&
  (match core.getLast? with
   | some cl => cl != 47 && cl != 92 && cl != 32 && !isWs cl
   | none => false) &&
  (!ci || !core.contains 92) && GitSpec.okDstarPos core

theorem coreOK_of_okCore {ci : Bool} {core : List Nat} (h : okCore ci core = true) : CoreOK ci core := by
  unfold okCore at h
  simp only [Bool.and_eq_true] at h
  obtain ⟨⟨⟨⟨h1, h2⟩, h3⟩, h4⟩, h5⟩ := h
  refine ⟨h1, ?_, ?_, ?_, h5⟩
  · cases core with
    | nil => simp at h2
    | cons c0 tl =>
      simp only [List.head?_cons, Bool.and_eq_true, bne_iff_ne, ne_eq] at h2
      exact ⟨c0, tl, rfl, h2.1.1.1, h2.1.1.2, h2.1.2, h2.2⟩
  · cases hl : core.getLast? with
    | none => simp [hl] at h3
    | some cl =>
      simp only [hl, Bool.and_eq_true, bne_iff_ne, ne_eq, Bool.not_eq_eq_eq_not, Bool.not_true] at h3
      exact ⟨cl, rfl, h3.1.1.1, h3.1.1.2, h3.1.2, h3.2⟩
  · intro hci hm
    subst hci
    simp at h4
    exact h4 hm

/-! ### no `**` in the wildcard grammar -/

theorem simpleGlob_head_star {g : List Nat} (hg : simpleGlob true (42 :: g) = true) : g.head? ≠ some 42 := by
  cases g with
  | nil => simp
  | cons e g =>
    simp only [simpleGlob, Nat.reduceBEq, Bool.false_and, Bool.false_eq_true, ↓reduceIte, BEq.rfl,
      Bool.true_and, Bool.and_eq_true, Bool.not_eq_eq_eq_not, Bool.not_true, beq_eq_false_iff_ne] at hg
    simp only [List.head?_cons, ne_eq, Option.some.injEq]
    exact hg.1.2

theorem simpleGlob_no_dstar_suffix (g : List Nat) (hg : simpleGlob true g = true) :
    ¬ [47, 42, 42] <:+ g := by
  induction g using simpleToks.induct (be := true) with
  | case1 => simp
  | case2 c _ => intro h; have := h.length_le; simp at this
  | case3 c _ => intro h; have := h.length_le; simp at this
  | case4 c e g hesc ih =>
    simp only [Bool.and_true, beq_iff_eq] at hesc
    subst hesc
    simp only [simpleGlob, BEq.rfl, Bool.and_self, ↓reduceIte, Bool.and_eq_true, decide_eq_true_eq] at hg
    intro h
    rcases List.suffix_cons_iff.mp h with h | h
    · simp at h
    · rcases List.suffix_cons_iff.mp h with h | h
      · -- e :: g = [47, 42, 42]: g = [42, 42] is not in the grammar
        simp only [List.cons.injEq] at h
        have hg2 := hg.2
        rw [← h.2] at hg2
        simp [simpleGlob] at hg2
      · exact ih hg.2 h
  | case5 c e g hesc ih =>
    have hesc' : (c == 92 && true) = false := by simpa using hesc
    simp only [simpleGlob, hesc', Bool.false_eq_true, ↓reduceIte, Bool.and_eq_true,
      Bool.not_eq_eq_eq_not, Bool.not_true, Bool.and_eq_false_iff, beq_eq_false_iff_ne, ne_eq] at hg
    intro h
    rcases List.suffix_cons_iff.mp h with h | h
    · -- c :: e :: g = [47, 42, 42]
      simp only [List.cons.injEq] at h
      have hg2 := hg.2
      rw [← h.2.1, ← h.2.2] at hg2
      simp [simpleGlob] at hg2
    · exact ih hg.2 h

section stages2
variable {ci : Bool} {core : List Nat}

theorem actualOf_simple' (abs : Bool) (hsimple : simpleGlob true core = true) (hne : core ≠ []) :
    actualOf abs core = if !abs && !core.contains 47 then [42, 42, 47] ++ core else core := by
  obtain ⟨c0, tl, hcore⟩ := List.exists_cons_of_ne_nil hne
  have hnd := simpleGlob_no_dstar_suffix core hsimple
  have hend0 : endsWith core [47, 42, 42] = false := by
    apply Bool.eq_false_iff.mpr
    intro hs; exact hnd (List.isSuffixOf_iff_suffix.mp hs)
  have hend1 : endsWith ([42, 42, 47] ++ core) [47, 42, 42] = false := by
    apply Bool.eq_false_iff.mpr
    intro hs
    have hs := List.isSuffixOf_iff_suffix.mp hs
    -- a suffix of `**/` ++ core of length 3 lies inside core, or core is too short
    rcases List.suffix_cons_iff.mp hs with h1 | h1
    · simp at h1
    · rcases List.suffix_cons_iff.mp h1 with h2 | h2
      · simp at h2
      · rcases List.suffix_cons_iff.mp h2 with h3 | h3
        · -- [47,42,42] = 47 :: core
          have hc : core = [42, 42] := by simpa using h3.symm
          have hs2 := hsimple
          rw [hc] at hs2
          simp [simpleGlob] at hs2
        · exact hnd h3
  have hstart : startsWith core [42, 42, 47] = false := by
    rw [hcore]
    by_cases hc : c0 = 42
    · subst hc
      have := simpleGlob_head_star (by rw [← hcore]; exact hsimple)
      cases tl with
      | nil => simp [startsWith, List.isPrefixOf]
      | cons e tl' =>
        simp only [List.head?_cons, ne_eq, Option.some.injEq] at this
        simp [startsWith, List.isPrefixOf, Ne.symm this]
    · simp [startsWith, List.isPrefixOf, Ne.symm hc]
  have heq : (core == [42, 42]) = false := by
    apply Bool.eq_false_iff.mpr
    intro he
    have : core = [42, 42] := by simpa using he
    have hs2 := hsimple
    rw [this] at hs2
    simp [simpleGlob] at hs2
  unfold actualOf
  cases abs <;> cases hm : core.contains 47
  · simp only [Bool.not_false, Bool.and_self, ↓reduceIte, hstart, heq, Bool.or_self,
      Bool.false_eq_true, hend1]
  all_goals simp [hend0]

theorem actualOf_simple (abs : Bool) (h : CoreOK ci core) :
    actualOf abs core = if !abs && !core.contains 47 then [42, 42, 47] ++ core else core := by
  obtain ⟨c0, tl, hcore, _⟩ := h.head
  exact actualOf_simple' abs h.simple (by rw [hcore]; simp)

theorem parse_dstar_simple (o : Opts) (hbe : o.be = true) (hg : simpleGlob true core = true) :
    parse o ([42, 42, 47] ++ core) = .ok (.s .recPrefix :: (simpleToks true core).map Token.s) := by
  unfold parse
  simp only [List.cons_append, List.nil_append, List.length_cons]
  unfold parseLoop
  simp only [Nat.reduceBEq, Bool.false_eq_true, ↓reduceIte, BEq.rfl]
  unfold parseStar
  simp only [PState.haveTokens, List.isEmpty_nil, Bool.not_true, Bool.not_false, ↓reduceIte, isSep,
    BEq.rfl]
  rw [parseLoop_simple o core (by rw [hbe]; exact hg) _ _ (by simp [PState.push]) (by omega)]
  simp [PState.depth, PState.push, hbe]

/-- ripgrep's glob for a line of the wildcard sub-grammar -/
def rgGlobW (ci neg abs dir : Bool) (core : List Nat) : GiGlob :=
  let single := !abs && !core.contains 47
  { original := lineOf neg abs dir core,
    actual := if single then [42, 42, 47] ++ core else core,
    isWhitelist := neg, isOnlyDir := dir,
    glob := { opts := giOpts ci,
              tokens := if single then .s .recPrefix :: (simpleToks true core).map Token.s
                        else (simpleToks true core).map Token.s } }

theorem addLine_lineOf (neg abs dir : Bool) (h : CoreOK ci core) :
    addLine ci (lineOf neg abs dir core) = .glob (rgGlobW ci neg abs dir core) := by
  obtain ⟨c0, tl, hcore, h92, h33, h47, h35⟩ := h.head
  obtain ⟨cl, hlast, hl47, hl92, hl32, hlws⟩ := h.last
  unfold addLine
  rw [lineOf_startsWith35 neg abs dir hcore h35]
  simp only [Bool.false_eq_true, ↓reduceIte]
  rw [lineOf_trim neg abs dir hlast hlws hl32, lineOf_ne_nil neg abs dir hcore]
  simp only [Bool.false_eq_true, ↓reduceIte]
  rw [lineOf_splitPrefix neg abs dir hcore ⟨h92, h33, h47⟩]
  have hne2 : (core ++ (if dir then [47] else [])).isEmpty = false := by
    rw [hcore]; simp
  simp only [hne2, Bool.false_eq_true, ↓reduceIte]
  rw [splitDirSlash_core dir hlast ⟨hl47, hl92⟩]
  simp only
  have hne3 : (core).isEmpty = false := by rw [hcore]; simp
  simp only [hne3, Bool.and_false, Bool.false_eq_true, ↓reduceIte]
  rw [actualOf_simple abs h]
  unfold rgGlobW
  cases hs : (!abs && !core.contains 47)
  · simp only [Bool.false_eq_true, ↓reduceIte]
    rw [parse_simple (giOpts ci) core h.simple]
    rfl
  · simp only [↓reduceIte]
    rw [parse_dstar_simple (giOpts ci) rfl h.simple]

/-! ### git's side -/

theorem getLast?_cons_ne_nil {α} (a : α) {l : List α} (h : l ≠ []) : (a :: l).getLast? = l.getLast? := by
  obtain ⟨b, t, rfl⟩ := List.exists_cons_of_ne_nil h
  exact List.getLast?_cons_cons

theorem trimSpaces_go_last (l kept pend : List Nat) (hne : l ≠ []) (hl : l.getLast? ≠ some 32) :
    GitSpec.trimSpaces.go l kept pend = kept ++ pend ++ l := by
  induction l, kept, pend using GitSpec.trimSpaces.go.induct with
  | case1 kept pend => exact absurd rfl hne
  | case2 x rest kept pend ih =>
    rw [GitSpec.trimSpaces.go]
    by_cases hr : rest = []
    · subst hr; simp [GitSpec.trimSpaces.go]
    · rw [ih hr (by
        intro h; apply hl
        rw [List.getLast?_cons_cons, getLast?_cons_ne_nil _ hr]; exact h)]
      simp
  | case3 rest kept pend ih =>
    rw [GitSpec.trimSpaces.go]
    by_cases hr : rest = []
    · subst hr; simp at hl
    · rw [ih hr (by
        intro h; apply hl
        rw [getLast?_cons_ne_nil _ hr]; exact h)]
      simp
  | case4 c rest kept pend h1 h2 ih =>
    rw [GitSpec.trimSpaces.go]
    · by_cases hr : rest = []
      · subst hr; simp [GitSpec.trimSpaces.go]
      · rw [ih hr (by
          intro h; apply hl
          rw [getLast?_cons_ne_nil _ hr]; exact h)]
        simp
    · exact h1
    · exact h2

theorem parsePat_lineOf (neg abs dir : Bool) (h : CoreOK ci core) :
    GitSpec.parsePat (lineOf neg abs dir core) =
      some { negative := neg, mustBeDir := dir, noDir := !abs && !core.contains 47, text := core } := by
  obtain ⟨c0, tl, hcore, h92, h33, h47, h35⟩ := h.head
  obtain ⟨cl, hlast, hl47, hl92, hl32, hlws⟩ := h.last
  have hl := lineOf_getLast (core := core) neg abs dir hlast
  have hne : lineOf neg abs dir core ≠ [] := by
    intro hn; have := lineOf_ne_nil (core := core) neg abs dir hcore; simp [hn] at this
  have htrim : GitSpec.trimSpaces (lineOf neg abs dir core) = lineOf neg abs dir core := by
    unfold GitSpec.trimSpaces
    rw [trimSpaces_go_last _ _ _ hne (by rw [hl]; cases dir <;> simp [hl32])]; rfl
  have hhead : ((lineOf neg abs dir core).isEmpty || (lineOf neg abs dir core).head? == some 35) = false := by
    rw [hcore]
    cases neg <;> cases abs <;> simp [lineOf, h35]
  unfold GitSpec.parsePat
  rw [hhead, htrim]
  simp only [Bool.false_eq_true, ↓reduceIte]
  rw [stripNeg_lineOf neg abs dir hcore h33]
  simp only
  rw [stripDir_lineOf abs dir hlast hl47]
  simp only
  rw [contains_lineOf abs _ rfl, stripLead_lineOf abs hcore h47]
  simp

end stages2

/-! ### Part 2: the two readings select the same entries -/

section matching
open RgVerif.GlobDoc

theorem mem_splits {t x r : Bytes} (h : (x, r) ∈ splits t) : t = x ++ r := by
  induction t generalizing x r with
  | nil => simp [splits] at h; simp [h.1, h.2]
  | cons b t ih =>
    simp only [splits, List.mem_cons, Prod.mk.injEq, List.mem_map, Prod.exists] at h
    rcases h with ⟨rfl, rfl⟩ | ⟨x', r', hm, rfl, rfl⟩
    · rfl
    · simp [ih hm]

theorem any_congr_mem {α} (l : List α) (f g : α → Bool) (h : ∀ x ∈ l, f x = g x) : l.any f = l.any g := by
  induction l with
  | nil => rfl
  | cons a l ih => simp only [List.any_cons, h a (by simp), ih (fun x hx => h x (by simp [hx]))]

theorem lowerA_47 {c : Nat} (h : lowerA c = 47) : c = 47 := by
  unfold lowerA at h; split at h <;> omega

/-- tokens of the wildcard grammar that contain no separator -/
def slashFreeTok : Tok → Bool
  | .lit c => decide (c < 128) && c != 47
  | .any => true
  | .star => true
  | _ => false

/-- under `literal_separator` such tokens never consume a `/` -/
theorem atomsMatch_slashfree (ci : Bool) (ts : List Tok) (hts : ∀ t ∈ ts, slashFreeTok t = true) (t : Bytes)
    (h : atomsMatch (wmOpts ci true) (ts.map trAtom) t = true) : 47 ∉ t := by
  induction ts generalizing t with
  | nil => simp [atomsMatch] at h; simp [h]
  | cons tk ts ih =>
    have ih' := fun t => ih (fun x hx => hts x (by simp [hx])) t
    have htk := hts tk (by simp)
    cases tk with
    | lit c =>
      simp only [slashFreeTok, Bool.and_eq_true, decide_eq_true_eq, bne_iff_ne, ne_eq] at htk
      cases t with
      | nil => simp
      | cons b t' =>
        simp only [List.map_cons, trAtom, atomsMatch, Bool.and_eq_true] at h
        have hb : b ≠ 47 := by
          intro hb; subst hb
          have := h.1
          unfold sameChar wmOpts at this
          cases ci
          · simp at this; exact htk.2 this
          · simp only [↓reduceIte, beq_iff_eq] at this
            exact htk.2 (lowerA_47 (by rw [this]; rfl))
        simp only [List.mem_cons, not_or]
        exact ⟨fun h' => hb h'.symm, ih' t' h.2⟩
    | any =>
      cases t with
      | nil => simp
      | cons b t' =>
        simp only [List.map_cons, trAtom, atomsMatch, Bool.and_eq_true, wild, wmOpts, Bool.true_and,
          Bool.not_eq_eq_eq_not, Bool.not_true, beq_eq_false_iff_ne, ne_eq] at h
        simp only [List.mem_cons, not_or]
        exact ⟨fun h' => h.1 h'.symm, ih' t' h.2⟩
    | star =>
      simp only [List.map_cons, trAtom, atomsMatch, List.any_eq_true, Bool.and_eq_true, Prod.exists] at h
      obtain ⟨x, r, hm, hx, hr⟩ := h
      rw [mem_splits hm]
      simp only [List.mem_append, not_or]
      refine ⟨?_, ih' r hr⟩
      intro h47
      have := List.all_eq_true.mp hx 47 h47
      simp [wild, wmOpts] at this
    | recPrefix => simp [slashFreeTok] at htk
    | recSuffix => simp [slashFreeTok] at htk
    | recZero => simp [slashFreeTok] at htk
    | cls n r => simp [slashFreeTok] at htk

/-- on text without `/` it does not matter whether wildcards may cross separators -/
theorem atomsMatch_ls_irrelevant (ci : Bool) (ts : List Tok) (hts : ∀ t ∈ ts, simpleTok t = true) (t : Bytes)
    (ht : 47 ∉ t) :
    atomsMatch (wmOpts ci false) (ts.map trAtom) t = atomsMatch (wmOpts ci true) (ts.map trAtom) t := by
  induction ts generalizing t with
  | nil => rfl
  | cons tk ts ih =>
    have ih' := fun t ht => ih (fun x hx => hts x (by simp [hx])) t ht
    have htk := hts tk (by simp)
    cases tk with
    | lit c =>
      cases t with
      | nil => rfl
      | cons b t' =>
        simp only [List.mem_cons, not_or] at ht
        simp only [List.map_cons, trAtom, atomsMatch, ih' t' ht.2]
        rfl
    | any =>
      cases t with
      | nil => rfl
      | cons b t' =>
        simp only [List.mem_cons, not_or] at ht
        have hb : (b == 47) = false := by simpa using (fun h => ht.1 h.symm : b ≠ 47)
        simp only [List.map_cons, trAtom, atomsMatch, ih' t' ht.2]
        simp [wild, wmOpts, hb]
    | star =>
      simp only [List.map_cons, trAtom, atomsMatch]
      apply any_congr_mem
      rintro ⟨x, r⟩ hm
      have hsplit := mem_splits hm
      have hx : 47 ∉ x := fun h => ht (by rw [hsplit]; simp [h])
      have hr : 47 ∉ r := fun h => ht (by rw [hsplit]; simp [h])
      simp only [ih' r hr]
      congr 1
      have h1 : x.all (wild (wmOpts ci false)) = true := by simp [wild, wmOpts]
      have h2 : x.all (wild (wmOpts ci true)) = true := by
        simp only [List.all_eq_true]
        intro b hb
        have : b ≠ 47 := fun h => hx (h ▸ hb)
        simp [wild, wmOpts, this]
      rw [h1, h2]
    | recPrefix => simp [simpleTok] at htk
    | recSuffix => simp [simpleTok] at htk
    | recZero => simp [simpleTok] at htk
    | cls n r => simp [simpleTok] at htk

/-- the literal characters of the tokens come from the text -/
theorem lit_mem_simpleToks (g : List Nat) (c : Nat) (h : Tok.lit c ∈ simpleToks true g) : c ∈ g := by
  induction g using simpleToks.induct (be := true) with
  | case1 => simp [simpleToks] at h
  | case2 c' hesc => simp [simpleToks, hesc] at h
  | case3 c' hesc =>
    have hesc' : (c' == 92 && true) = false := by simpa using hesc
    simp only [simpleToks, hesc', Bool.false_eq_true, ↓reduceIte, List.mem_singleton] at h
    unfold tokOf at h
    split at h
    · cases h
    · split at h
      · cases h
      · simp only [Tok.lit.injEq] at h; simp [h]
  | case4 c' e g hesc ih =>
    simp only [simpleToks, hesc, ↓reduceIte, List.mem_cons, Tok.lit.injEq] at h
    rcases h with h | h
    · simp [h]
    · simp [ih h]
  | case5 c' e g hesc ih =>
    have hesc' : (c' == 92 && true) = false := by simpa using hesc
    simp only [simpleToks, hesc', Bool.false_eq_true, ↓reduceIte, List.mem_cons] at h
    rcases h with h | h
    · unfold tokOf at h
      split at h
      · cases h
      · split at h
        · cases h
        · simp only [Tok.lit.injEq] at h; simp [h]
    · have := ih h
      simp only [List.mem_cons] at this ⊢
      exact Or.inr this

theorem slashFree_of_no_slash (g : List Nat) (hg : simpleGlob true g = true) (h47 : 47 ∉ g) :
    ∀ t ∈ simpleToks true g, slashFreeTok t = true := by
  intro t ht
  have hs := simpleToks_simple true g hg t ht
  cases t with
  | lit c =>
    simp only [simpleTok, decide_eq_true_eq] at hs
    have : c ≠ 47 := fun h => h47 (h ▸ lit_mem_simpleToks g c ht)
    simp [slashFreeTok, hs, this]
  | any => rfl
  | star => rfl
  | recPrefix => simp [simpleTok] at hs
  | recSuffix => simp [simpleTok] at hs
  | recZero => simp [simpleTok] at hs
  | cls n r => simp [simpleTok] at hs

theorem simpleToks_ne_nil (g : List Nat) (hg : simpleGlob true g = true) (hne : g ≠ []) :
    simpleToks true g ≠ [] := by
  cases g with
  | nil => exact absurd rfl hne
  | cons c g =>
    cases g with
    | nil =>
      simp only [simpleGlob, Bool.and_true, Bool.and_eq_true, Bool.not_eq_eq_eq_not, Bool.not_true] at hg
      simp [simpleToks, hg.2]
    | cons e g => simp only [simpleToks]; split <;> simp

/-- `^(?:/?|.*/)T$` for separator-free `T` is "`T` matches the last component" -/
theorem recPrefix_slashfree (o : Opts) (T : List Token) (A : Bytes → Bool)
    (hA : ∀ r, tokensK o T (fun r => r.isEmpty) r = A r) (hfree : ∀ r, A r = true → 47 ∉ r) (p : Bytes) :
    tokensK o (.s .recPrefix :: T) (fun r => r.isEmpty) p = A (lastComp p) := by
  apply bool_eq_of_iff
  simp only [tokensK, tokRests, List.any_cons, Bool.or_eq_true, List.any_eq_true, hA]
  rw [lastComp_eq]
  constructor
  · rintro (h | ⟨r, hr, h⟩)
    · rw [afterLast_of_not_mem (hfree p h)]; exact h
    · obtain ⟨x, hx⟩ := mem_afterSlashes.mp hr
      rw [hx, afterLast_append_cons _ (hfree r h)]; exact h
  · intro h
    rcases afterLast_cases 47 p with ⟨_, hp⟩ | ⟨x, hx⟩
    · left; rw [hp] at h; exact h
    · right; exact ⟨afterLast 47 p, mem_afterSlashes.mpr ⟨x, hx⟩, h⟩

theorem rgGlobW_matches' (ci neg abs dir : Bool) (core : List Nat) (hsimple : simpleGlob true core = true)
    (hne : core ≠ []) (hnoEsc : ci = true → 92 ∉ core)
    (rel : List Bytes) (hwf : wfRel rel = true) :
    (rgGlobW ci neg abs dir core).glob.isMatch (joinPath rel) =
      (if !abs && !core.contains 47 then GitSpec.wm ci false true core (rel.getLast?.getD [])
       else GitSpec.wm ci true true core (joinPath rel)) := by
  have hts := simpleToks_simple true core hsimple
  have htne := simpleToks_ne_nil core hsimple hne
  have hA : ∀ r, tokensK (giOpts ci) ((simpleToks true core).map Token.s) (fun r => r.isEmpty) r =
      atomsMatch (wmOpts ci true) ((simpleToks true core).map trAtom) r :=
    fun r => tokensK_eq_atomsMatch (giOpts ci) _ hts r
  unfold wfRel at hwf
  simp only [Bool.and_eq_true, Bool.not_eq_eq_eq_not, Bool.not_true, List.isEmpty_eq_false_iff,
    ne_eq, List.all_eq_true] at hwf
  unfold rgGlobW Glob.isMatch
  cases hs : (!abs && !core.contains 47)
  · simp only [Bool.false_eq_true, ↓reduceIte]
    rw [tokMatch_eq _ _ _ (by
      intro hc
      cases hst : simpleToks true core with
      | nil => exact htne hst
      | cons t ts =>
        have := hts t (by rw [hst]; simp)
        rw [hst] at hc
        simp only [List.map_cons, List.cons.injEq, Token.s.injEq] at hc
        rw [hc.1] at this; simp [simpleTok] at this),
      hA, wm_simple ci true core hsimple hnoEsc]
  · simp only [↓reduceIte]
    have h47 : 47 ∉ core := by
      simp only [Bool.and_eq_true, Bool.not_eq_eq_eq_not, Bool.not_true] at hs
      simpa using hs.2
    have hfree := slashFree_of_no_slash core hsimple h47
    rw [tokMatch_eq _ _ _ (by
      intro hc
      simp only [List.cons.injEq, true_and, List.map_eq_nil_iff] at hc
      exact htne hc),
      recPrefix_slashfree (giOpts ci) _ _ hA
        (fun r hr => atomsMatch_slashfree ci _ hfree r hr),
      lastComp_joinPath_eq rel hwf.1 hwf.2]
    have hb : 47 ∉ rel.getLast?.getD [] := by
      cases hl : rel.getLast? with
      | none => simp
      | some b =>
        have hw := hwf.2 b (List.mem_of_getLast? hl)
        simp only [wfName, Bool.and_eq_true, Bool.not_eq_eq_eq_not, Bool.not_true] at hw
        simpa using hw.1.1.2
    rw [← atomsMatch_ls_irrelevant ci _ hts _ hb, wm_simple ci false core hsimple hnoEsc]

theorem rgGlobW_matches (ci neg abs dir : Bool) (core : List Nat) (h : CoreOK ci core)
    (rel : List Bytes) (hwf : wfRel rel = true) :
    (rgGlobW ci neg abs dir core).glob.isMatch (joinPath rel) =
      (if !abs && !core.contains 47 then GitSpec.wm ci false true core (rel.getLast?.getD [])
       else GitSpec.wm ci true true core (joinPath rel)) := by
  obtain ⟨c0, tl, hcore, _⟩ := h.head
  exact rgGlobW_matches' ci neg abs dir core h.simple (by rw [hcore]; simp) h.noEscCi rel hwf

end matching

/-- **`addline_wildmatch`** on the wildcard sub-grammar -/
theorem lineAgree_lineOf (ci neg abs dir : Bool) (core : List Nat) (h : CoreOK ci core) :
    LineAgree ci (lineOf neg abs dir core) := by
  intro rel isDir hwf
  unfold mHit sHit
  rw [addLine_lineOf neg abs dir h, parsePat_lineOf neg abs dir h]
  have hm := rgGlobW_matches ci neg abs dir core h rel hwf
  simp only [GiGlob.hits, GitSpec.patMatches, GitSpec.matchPathname_eq_wm _ _ _ h.dpos, hm, joinComps_eq]
  simp only [rgGlobW]
  cases (!abs && !core.contains 47) <;> simp [Bool.and_comm]

/-- best-effort decomposition of a line (its correctness is not needed: `okLineW` re-checks) -/
def decomposeW (l : List Nat) : Bool × Bool × Bool × List Nat :=
  let (neg, l) := if l.head? == some 33 then (true, l.drop 1) else (false, l)
  let (abs, l) := if l.head? == some 47 then (true, l.drop 1) else (false, l)
  let (dir, l) := if l.getLast? == some 47 then (true, l.dropLast) else (false, l)
  (neg, abs, dir, l)

/-- the wildcard sub-grammar of gitignore lines: `[!][/]core[/]`, `core` made of literals, `?`, single `*`,
`\x` escapes and `/`; not starting with `\`, `!`, `#`, `/`; not ending in `/`, `\` or a blank; without escapes
when matching case-insensitively -/
def okLineW (ci : Bool) (l : List Nat) : Bool :=
  let d := decomposeW l
  lineOf d.1 d.2.1 d.2.2.1 d.2.2.2 == l && okCore ci d.2.2.2

theorem lineAgree_of_okLineW (ci : Bool) (l : List Nat) (h : okLineW ci l = true) : LineAgree ci l := by
  unfold okLineW at h
  simp only [Bool.and_eq_true, beq_iff_eq] at h
  rw [← h.1]
  exact lineAgree_lineOf ci _ _ _ _ (coreOK_of_okCore h.2)

end RgVerif.Gitignore
