import RgVerif.Lemmas.SearcherLines
/-
Offset-level facts about a buffer made of the lines `sl` (`Layout`): everything the proofs about
`Core` need to know about bytes, stated on line *indices*.
-/
namespace RgVerif.Lines
open RgVerif RgVerif.Matcher RgVerif.GrepSpec

/-- the byte strings of the lines -/
def lsOf (sl : List SLine) : List Bytes := sl.map (·.1)

/-- `buf` starts with the concatenation of the lines `sl`, which are well-formed for terminator `t`
(what follows them in `buf` is never looked at by a stepper that ends at the end of the last line). -/
structure Layout (t : Nat) (buf : Bytes) (sl : List SLine) : Prop where
  flat : ∃ extra, buf = (lsOf sl).flatten ++ extra
  good : GoodLines t (lsOf sl)

/-- the byte range of line `j` -/
def span (sl : List SLine) (j : Nat) : Span := ⟨offsetAt sl j, offsetAt sl (j + 1)⟩

theorem lsOf_length (sl : List SLine) : (lsOf sl).length = sl.length := by simp [lsOf]

theorem off_flat (sl : List SLine) (i : Nat) : ((lsOf sl).take i).flatten.length = offsetAt sl i := by
  simp only [offsetAt, lsOf, List.length_flatten, ← List.map_take, List.map_map]
  rfl

theorem off_zero (sl : List SLine) : offsetAt sl 0 = 0 := by simp [offsetAt]

theorem off_succ (sl : List SLine) (i : Nat) (h : i < sl.length) :
    offsetAt sl (i + 1) = offsetAt sl i + (bytesAt sl i).length := by
  unfold offsetAt bytesAt
  rw [List.take_succ_eq_append_getElem h, List.map_append, List.sum_append]
  simp [h]

theorem off_ge (sl : List SLine) (i : Nat) (h : sl.length ≤ i) : offsetAt sl i = offsetAt sl sl.length := by
  simp [offsetAt, List.take_of_length_le h]

theorem off_mono (sl : List SLine) {i j : Nat} (h : i ≤ j) : offsetAt sl i ≤ offsetAt sl j := by
  induction j with
  | zero => simp at h; subst h; exact Nat.le_refl _
  | succ j ih =>
    by_cases hij : i = j + 1
    · subst hij; exact Nat.le_refl _
    · have h1 := ih (by omega)
      by_cases hj : j < sl.length
      · rw [off_succ sl j hj]; omega
      · rw [off_ge sl (j + 1) (by omega), ← off_ge sl j (by omega)]; exact h1

theorem GoodLines.head_pos {t : Nat} {l : Bytes} {ls : List Bytes} (h : GoodLines t (l :: ls)) : 0 < l.length := by
  generalize hx : l :: ls = x at h
  cases h with
  | nil => simp at hx
  | last l' hu =>
    have : l = l' := by simp at hx; exact hx.1
    subst this; exact List.length_pos_iff.mpr hu.1
  | cons l' ls' ht _ =>
    have : l = l' := by simp at hx; exact hx.1
    subst this; exact ht.length_pos

theorem GoodLines.drop {t : Nat} {ls : List Bytes} (h : GoodLines t ls) (k : Nat) : GoodLines t (ls.drop k) := by
  induction k generalizing ls with
  | zero => simpa using h
  | succ k ih =>
    cases h with
    | nil => simpa using GoodLines.nil
    | last l hu => simpa using GoodLines.nil
    | cons l ls ht hg => simpa using ih hg

theorem GoodLines.allTerm_take {t : Nat} {ls : List Bytes} (h : GoodLines t ls) (i : Nat) (hi : i < ls.length) :
    AllTerm t (ls.take i) := by
  induction h generalizing i with
  | nil => simp at hi
  | last l hu =>
    have : i = 0 := by simp at hi; omega
    subst this; intro x hx; simp at hx
  | cons l ls ht hg ih =>
    cases i with
    | zero => intro x hx; simp at hx
    | succ i =>
      intro x hx
      simp only [List.take_succ_cons, List.mem_cons] at hx
      rcases hx with rfl | hx
      · exact ht
      · exact ih i (by simp at hi; omega) x hx

theorem GoodLines.take {t : Nat} {ls : List Bytes} (h : GoodLines t ls) (i : Nat) : GoodLines t (ls.take i) := by
  by_cases hi : i < ls.length
  · exact (h.allTerm_take i hi).good
  · rw [List.take_of_length_le (by omega)]; exact h

namespace Layout
variable {t : Nat} {buf : Bytes} {sl : List SLine}

theorem off_le_length (L : Layout t buf sl) : offsetAt sl sl.length ≤ buf.length := by
  obtain ⟨extra, h⟩ := L.flat
  rw [h, ← off_flat, ← lsOf_length sl, List.take_length, List.length_append]; omega

theorem take_off (L : Layout t buf sl) (i : Nat) : buf.take (offsetAt sl i) = ((lsOf sl).take i).flatten := by
  obtain ⟨extra, hf⟩ := L.flat
  have h : buf = ((lsOf sl).take i).flatten ++ (((lsOf sl).drop i).flatten ++ extra) := by
    rw [hf, ← List.append_assoc, ← List.flatten_append, List.take_append_drop]
  rw [← off_flat]
  conv => lhs; rw [h]
  exact take_len_app _ _

theorem line_pos (L : Layout t buf sl) (i : Nat) (h : i < sl.length) : 0 < (bytesAt sl i).length := by
  have hg := (L.good.drop i)
  have hd : (lsOf sl).drop i = bytesAt sl i :: (lsOf sl).drop (i + 1) := by
    have hi : i < (lsOf sl).length := by rw [lsOf_length]; exact h
    rw [List.drop_eq_getElem_cons hi]
    simp [bytesAt, lsOf, h]
  rw [hd] at hg
  exact hg.head_pos

theorem off_lt (L : Layout t buf sl) {i j : Nat} (h : i < j) (hj : j ≤ sl.length) : offsetAt sl i < offsetAt sl j := by
  have h1 := off_succ sl i (by omega)
  have h2 := L.line_pos i (by omega)
  have h3 := off_mono sl (show i + 1 ≤ j by omega)
  omega

/-- lines before the last one are terminated -/
theorem term_of_lt (L : Layout t buf sl) (i : Nat) (h : i + 1 < sl.length) : Term t (bytesAt sl i) := by
  have := L.good.allTerm_take (i + 1) (by rw [lsOf_length]; exact h)
  apply this
  have hi : i < (lsOf sl).length := by rw [lsOf_length]; omega
  rw [List.take_succ_eq_append_getElem hi]
  simp [bytesAt, lsOf, show i < sl.length by omega]

theorem slice_line (L : Layout t buf sl) (i : Nat) (h : i < sl.length) :
    slice buf (offsetAt sl i) (offsetAt sl (i + 1)) = bytesAt sl i := by
  unfold slice
  rw [L.take_off (i + 1)]
  have hi : i < (lsOf sl).length := by rw [lsOf_length]; exact h
  rw [List.take_succ_eq_append_getElem hi, flatten_snoc, ← off_flat]
  have : (lsOf sl)[i] = bytesAt sl i := by simp [bytesAt, lsOf, h]
  rw [this]
  simp

/-- the region `[off a, off b)` as a concatenation of lines -/
theorem region (L : Layout t buf sl) (a b : Nat) (hab : a ≤ b) :
    buf.take (offsetAt sl b) = ((lsOf sl).take a).flatten ++ (((lsOf sl).take b).drop a).flatten := by
  rw [L.take_off b, ← List.flatten_append]
  congr 1
  have : (lsOf sl).take a = ((lsOf sl).take b).take a := by
    rw [List.take_take, Nat.min_eq_left hab]
  rw [this, List.take_append_drop]

theorem slice_region (L : Layout t buf sl) (a b : Nat) (hab : a ≤ b) :
    slice buf (offsetAt sl a) (offsetAt sl b) = (((lsOf sl).take b).drop a).flatten := by
  unfold slice
  rw [L.region a b hab, ← off_flat]
  simp

theorem spansFrom_index (_L : Layout t buf sl) (d : Nat) : ∀ (a b : Nat), b - a = d → a ≤ b → b ≤ sl.length →
    spansFrom (offsetAt sl a) (((lsOf sl).take b).drop a) = (List.range' a (b - a)).map (span sl) := by
  induction d with
  | zero =>
    intro a b hd hab hb
    have : a = b := by omega
    subst this
    simp [spansFrom]
  | succ d ih =>
    intro a b hd hab hb
    have ha : a < ((lsOf sl).take b).length := by rw [List.length_take, lsOf_length]; omega
    rw [List.drop_eq_getElem_cons ha]
    have hget : ((lsOf sl).take b)[a] = bytesAt sl a := by
      simp [bytesAt, lsOf, show a < sl.length by omega]
    rw [hget, spansFrom, ← off_succ sl a (by omega), ih (a + 1) b (by omega) (by omega) hb]
    have : b - a = (b - (a + 1)) + 1 := by omega
    rw [this, List.range'_succ]
    simp [span]

/-- The lines a stepper over `[off a, off b)` yields are the lines `a … b-1`. -/
theorem stepLines_index (L : Layout t buf sl) (a b : Nat) (hab : a ≤ b) (hb : b ≤ sl.length) :
    stepLines t buf (offsetAt sl a) (offsetAt sl b) = (List.range' a (b - a)).map (span sl) := by
  have hg : GoodLines t (((lsOf sl).take b).drop a) := (L.good.take b).drop a
  have h := stepLines_good (t := t) (buf := buf) (((lsOf sl).take a).flatten) _ hg (offsetAt sl b)
    (L.region a b hab)
    (by
      have h1 := congrArg List.length (L.region a b hab)
      rw [List.length_append, List.length_take] at h1
      have h2 : offsetAt sl b ≤ buf.length := Nat.le_trans (off_mono sl hb) L.off_le_length
      omega)
  rw [off_flat] at h
  rw [h, L.spansFrom_index (b - a) a b rfl hab hb]

theorem allTerm_mid (L : Layout t buf sl) (a b : Nat) (hb : b < sl.length) :
    AllTerm t (((lsOf sl).take b).drop a) := by
  intro x hx
  exact L.good.allTerm_take b (by rw [lsOf_length]; exact hb) x (List.mem_of_mem_drop hx)

/-- number of terminators between two line starts -/
theorem count_region (L : Layout t buf sl) (a b : Nat) (hab : a ≤ b) (hb : b < sl.length) :
    count (slice buf (offsetAt sl a) (offsetAt sl b)) t = b - a := by
  rw [L.slice_region a b hab, count_allTerm (L.allTerm_mid a b hb)]
  simp [lsOf_length]; omega

/-- `preceding` inside the region of the lines `a … b-1`: start of line `max a (b-1-c)`. -/
theorem preceding_region (L : Layout t buf sl) (a b c : Nat) (hab : a < b) (hb : b < sl.length) :
    offsetAt sl a + preceding (slice buf (offsetAt sl a) (offsetAt sl b)) t c
      = offsetAt sl (a + (b - a - 1 - c)) := by
  rw [L.slice_region a b (by omega)]
  have hne : ((lsOf sl).take b).drop a ≠ [] := by
    intro h
    have := congrArg List.length h
    simp [lsOf_length] at this; omega
  rw [preceding_allTerm (L.allTerm_mid a b hb) hne c]
  have hlen : (((lsOf sl).take b).drop a).length = b - a := by simp [lsOf_length]; omega
  rw [hlen]
  -- take k (drop a (take b ls)) = drop a (take (a+k) ls)
  have hk : b - a - 1 - c ≤ b - a := by omega
  have e : (((lsOf sl).take b).drop a).take (b - a - 1 - c)
      = ((lsOf sl).take (a + (b - a - 1 - c))).drop a := by
    rw [List.take_drop, List.take_take, Nat.min_eq_left (by omega)]
  rw [e]
  have h1 := congrArg List.length (L.region a (a + (b - a - 1 - c)) (by omega))
  rw [List.length_append, off_flat, List.length_take] at h1
  have h2 : offsetAt sl (a + (b - a - 1 - c)) ≤ buf.length :=
    Nat.le_trans (off_mono sl (by omega)) L.off_le_length
  omega

end Layout

/-- The lines of any input form a layout. -/
theorem layout_splitLines (t : Nat) (inp : Bytes) (sel : Bytes → Bool) :
    Layout t inp ((splitLines t inp).map fun l => (l, sel l)) := by
  constructor
  · exact ⟨[], by simp [lsOf, List.map_map, Function.comp_def, splitLines_flatten]⟩
  · simpa [lsOf, List.map_map, Function.comp_def] using splitLines_good t inp

end RgVerif.Lines
