import RgVerif.Lemmas.HirBasic
/-
`ends` (the executable evaluator the driver runs) decides the denotation `Matches`.
-/
namespace RgVerif.Rx
open RgVerif

theorem mem_dedupNat {x : Nat} {xs : List Nat} : x ∈ dedupNat xs ↔ x ∈ xs := by
  unfold dedupNat
  induction xs with
  | nil => simp
  | cons a t ih =>
    simp only [List.foldr_cons]
    split
    · rename_i hc
      rw [ih, List.mem_cons]
      constructor
      · exact Or.inr
      · rintro (rfl | h)
        · exact ih.1 (by simpa using hc)
        · exact h
    · rw [List.mem_cons, List.mem_cons, ih]

/-! ### UTF-8 round trip -/

-- the defining equations, by cases on the length
theorem dec1 (b0 : Nat) : utf8Dec [b0] = if b0 < 0x80 then some b0 else none := by
  rfl
theorem dec2 (b0 b1 : Nat) : utf8Dec [b0, b1] =
    if 0xC2 ≤ b0 && b0 ≤ 0xDF && 0x80 ≤ b1 && b1 ≤ 0xBF then some ((b0 - 0xC0) * 64 + (b1 - 0x80)) else none := by
  rfl
theorem dec3 (b0 b1 b2 : Nat) : utf8Dec [b0, b1, b2] =
    if 0xE0 ≤ b0 && b0 ≤ 0xEF && 0x80 ≤ b1 && b1 ≤ 0xBF && 0x80 ≤ b2 && b2 ≤ 0xBF then
      let c := (b0 - 0xE0) * 4096 + (b1 - 0x80) * 64 + (b2 - 0x80)
      if 0x800 ≤ c && isScalar c then some c else none
    else none := by
  rfl
theorem dec4 (b0 b1 b2 b3 : Nat) : utf8Dec [b0, b1, b2, b3] =
    if 0xF0 ≤ b0 && b0 ≤ 0xF4 && 0x80 ≤ b1 && b1 ≤ 0xBF && 0x80 ≤ b2 && b2 ≤ 0xBF && 0x80 ≤ b3 && b3 ≤ 0xBF then
      let c := (b0 - 0xF0) * 262144 + (b1 - 0x80) * 4096 + (b2 - 0x80) * 64 + (b3 - 0x80)
      if 0x10000 ≤ c && c < 0x110000 then some c else none
    else none := by
  rfl

theorem utf8Dec_enc {c : Nat} (hs : isScalar c = true) : utf8Dec (utf8Enc c) = some c := by
  unfold isScalar at hs
  simp only [Bool.or_eq_true, Bool.and_eq_true, decide_eq_true_eq] at hs
  unfold utf8Enc
  split
  · rename_i h1
    rw [dec1, if_pos h1]
  · split
    · rw [dec2, if_pos (by simp; omega)]
      have e : (192 + c / 64 - 192) * 64 + (128 + c % 64 - 128) = c := by omega
      rw [e]
    · split
      · rw [dec3, if_pos (by simp; omega)]
        have e : (224 + c / 4096 - 224) * 4096 + (128 + c / 64 % 64 - 128) * 64 + (128 + c % 64 - 128) = c := by omega
        simp only [e]
        rw [if_pos]
        simp [isScalar]; omega
      · rw [dec4, if_pos (by simp; omega)]
        have e : (240 + c / 262144 - 240) * 262144 + (128 + c / 4096 % 64 - 128) * 4096 + (128 + c / 64 % 64 - 128) * 64 + (128 + c % 64 - 128) = c := by omega
        simp only [e]
        rw [if_pos]
        simp; omega

theorem utf8Enc_length_le (c : Nat) : (utf8Enc c).length ∈ [1, 2, 3, 4] := by
  unfold utf8Enc; repeat' split
  all_goals simp

theorem mem_endsClassU {rs : Ranges} {hay : Bytes} {s e : Nat} :
    e ∈ endsClassU rs hay s ↔ ∃ c, inCls rs c = true ∧ isScalar c = true ∧
      s + (utf8Enc c).length ≤ hay.length ∧ slice hay s (s + (utf8Enc c).length) = utf8Enc c ∧
      e = s + (utf8Enc c).length := by
  unfold endsClassU
  rw [List.mem_filterMap]
  constructor
  · rintro ⟨n, _, h⟩
    split at h
    · rename_i hle
      split at h
      · rename_i c hdec
        split at h
        · rename_i hc
          simp only [Bool.and_eq_true, beq_iff_eq] at hc
          cases h
          have hlen : (utf8Enc c).length = n := by
            rw [hc.2, slice_length hay s (s + n) hle]; omega
          exact ⟨c, hc.1.1, hc.1.2, by omega, by rw [hlen]; exact hc.2.symm, by rw [hlen]⟩
        · cases h
      · cases h
    · cases h
  · rintro ⟨c, hin, hsc, hle, hsl, rfl⟩
    refine ⟨(utf8Enc c).length, utf8Enc_length_le c, ?_⟩
    rw [if_pos hle, hsl, utf8Dec_enc hsc]
    simp [hin, hsc]

/-! ### iteration -/

/-- `p` is reached from `c` by exactly `k` applications of `f` -/
def Reach (f : Nat → List Nat) : Nat → Nat → Nat → Prop
  | 0, c, p => p = c
  | k + 1, c, p => ∃ m ∈ f c, Reach f k m p

theorem mem_stepEnds {f : Nat → List Nat} {cur : List Nat} {p : Nat} :
    p ∈ stepEnds f cur ↔ ∃ c ∈ cur, p ∈ f c := by
  unfold stepEnds
  rw [mem_dedupNat, List.mem_flatMap]

theorem mem_iterEnds {f : Nat → List Nat} : ∀ (k : Nat) (cur : List Nat) (p : Nat),
    p ∈ iterEnds f k cur ↔ ∃ c ∈ cur, Reach f k c p
  | 0, cur, p => by simp [iterEnds, Reach]
  | k + 1, cur, p => by
      simp only [iterEnds, Reach]
      rw [mem_iterEnds k]
      constructor
      · rintro ⟨m, hm, hr⟩
        obtain ⟨c, hc, hmc⟩ := mem_stepEnds.1 hm
        exact ⟨c, hc, m, hmc, hr⟩
      · rintro ⟨c, hc, m, hmc, hr⟩
        exact ⟨m, mem_stepEnds.2 ⟨c, hc, hmc⟩, hr⟩

theorem mem_repCollect {f : Nat → List Nat} : ∀ (extra : Nat) (cur : List Nat) (p : Nat),
    p ∈ repCollect f extra cur ↔ ∃ j, j ≤ extra ∧ ∃ c ∈ cur, Reach f j c p
  | 0, cur, p => by
      simp only [repCollect]
      constructor
      · intro h; exact ⟨0, Nat.le_refl _, p, h, rfl⟩
      · rintro ⟨j, hj, c, hc, hr⟩
        have : j = 0 := by omega
        subst this
        simp only [Reach] at hr
        subst hr; exact hc
  | extra + 1, cur, p => by
      simp only [repCollect, List.mem_append]
      rw [mem_repCollect extra]
      constructor
      · rintro (h | ⟨j, hj, m, hm, hr⟩)
        · exact ⟨0, Nat.zero_le _, p, h, rfl⟩
        · obtain ⟨c, hc, hmc⟩ := mem_stepEnds.1 hm
          exact ⟨j + 1, by omega, c, hc, m, hmc, hr⟩
      · rintro ⟨j, hj, c, hc, hr⟩
        cases j with
        | zero => simp only [Reach] at hr; subst hr; exact Or.inl hc
        | succ j =>
          obtain ⟨m, hmc, hr⟩ := hr
          exact Or.inr ⟨j, by omega, m, mem_stepEnds.2 ⟨c, hc, hmc⟩, hr⟩

theorem Reach.add {f : Nat → List Nat} : ∀ (a b : Nat) (c p : Nat),
    Reach f (a + b) c p ↔ ∃ m, Reach f a c m ∧ Reach f b m p
  | 0, b, c, p => by simp [Reach]
  | a + 1, b, c, p => by
      rw [show a + 1 + b = (a + b) + 1 by omega]
      simp only [Reach]
      constructor
      · rintro ⟨m, hm, hr⟩
        obtain ⟨x, h1, h2⟩ := (Reach.add a b m p).1 hr
        exact ⟨x, ⟨m, hm, h1⟩, h2⟩
      · rintro ⟨x, ⟨m, hm, h1⟩, h2⟩
        exact ⟨m, hm, (Reach.add a b m p).2 ⟨x, h1, h2⟩⟩

/-- every step moves forward (never back) -/
def MonoStep (f : Nat → List Nat) : Prop := ∀ c m, m ∈ f c → c ≤ m

theorem Reach.le {f : Nat → List Nat} (hf : MonoStep f) : ∀ (k c p : Nat), Reach f k c p → c ≤ p
  | 0, c, p, h => by simp only [Reach] at h; omega
  | k + 1, c, p, ⟨m, hm, hr⟩ => by
      have := hf c m hm
      have := Reach.le hf k m p hr
      omega

/-- more steps than distance: one of them is stationary and can be dropped -/
theorem Reach.shrink {f : Nat → List Nat} (hf : MonoStep f) : ∀ (k c p : Nat),
    Reach f (k + 1) c p → p - c ≤ k → Reach f k c p
  | k, c, p, ⟨m, hm, hr⟩, hk => by
      have h1 := hf c m hm
      have h2 := Reach.le hf k m p hr
      by_cases hmc : m = c
      · subst hmc; exact hr
      · cases k with
        | zero => simp only [Reach] at hr; omega
        | succ k' =>
          have := Reach.shrink hf k' m p hr (by omega)
          exact ⟨m, hm, this⟩

theorem Reach.shrink_to {f : Nat → List Nat} (hf : MonoStep f) (base c p : Nat) (hb : p - c ≤ base) :
    ∀ t, Reach f (base + t) c p → Reach f base c p
  | 0, h => h
  | t + 1, h => Reach.shrink_to hf base c p hb t (Reach.shrink hf (base + t) c p h (by omega))

/-- the repetition of the denotation is iteration of the sub-expression's ends -/
theorem matchesRep_iff_reach {lk : LookFn} {sub : Hir} {hay : Bytes}
    (ih : ∀ p e, e ∈ ends lk sub hay p ↔ Matches lk sub hay p e) :
    ∀ (n s e : Nat), MatchesRep lk sub hay n s e ↔ (s ≤ hay.length ∧ Reach (fun p => ends lk sub hay p) n s e)
  | 0, s, e => by
      constructor
      · intro h; cases h with | zero hs => exact ⟨hs, rfl⟩
      · rintro ⟨hs, hr⟩; simp only [Reach] at hr; subst hr; exact .zero hs
  | n + 1, s, e => by
      constructor
      · intro h
        cases h with
        | succ h1 h2 =>
          rename_i m
          have a := Matches.span h1
          have b := MatchesRep.span h2
          exact ⟨by omega, m, (ih s m).2 h1, ((matchesRep_iff_reach ih n m e).1 h2).2⟩
      · rintro ⟨hs, m, hm, hr⟩
        have h1 := (ih s m).1 hm
        have a := Matches.span h1
        exact .succ h1 ((matchesRep_iff_reach ih n m e).2 ⟨a.2, hr⟩)

theorem monoStep_of_ih {lk : LookFn} {sub : Hir} {hay : Bytes}
    (ih : ∀ p e, e ∈ ends lk sub hay p ↔ Matches lk sub hay p e) : MonoStep (fun p => ends lk sub hay p) := by
  intro c m hm
  exact (Matches.span ((ih c m).1 hm)).1

theorem mem_repEnds {lk : LookFn} {sub : Hir} {hay : Bytes} {min : Nat} {max : Option Nat} {g : Bool}
    (ih : ∀ p e, e ∈ ends lk sub hay p ↔ Matches lk sub hay p e) (s e : Nat) (hs : s ≤ hay.length) :
    e ∈ repEnds (fun p => ends lk sub hay p) min max hay.length s ↔ Matches lk (.rep min max g sub) hay s e := by
  have hmono := monoStep_of_ih ih
  cases max with
  | some mx =>
    simp only [repEnds]
    constructor
    · intro h
      split at h
      · rename_i hok
        rw [mem_dedupNat, mem_repCollect] at h
        obtain ⟨j, hj, c, hc, hr⟩ := h
        obtain ⟨c0, hc0, hr0⟩ := (mem_iterEnds min [s] c).1 hc
        simp only [List.mem_singleton] at hc0
        subst hc0
        have hreach : Reach (fun p => ends lk sub hay p) (min + j) c0 e := (Reach.add min j c0 e).2 ⟨c, hr0, hr⟩
        refine .rep (min + j) (by omega) ?_ ((matchesRep_iff_reach ih _ _ _).2 ⟨hs, hreach⟩)
        intro m hm
        cases hm
        omega
      · cases h
    · intro h
      cases h with
      | rep n hmin hmax hr =>
        obtain ⟨_, hreach⟩ := (matchesRep_iff_reach ih _ _ _).1 hr
        have := hmax mx rfl
        rw [if_pos (by omega), mem_dedupNat, mem_repCollect]
        obtain ⟨c, h1, h2⟩ := (Reach.add min (n - min) s e).1 (by rw [show min + (n - min) = n by omega]; exact hreach)
        exact ⟨n - min, by omega, c, (mem_iterEnds min [s] c).2 ⟨s, by simp, h1⟩, h2⟩
  | none =>
    simp only [repEnds]
    rw [mem_dedupNat, mem_repCollect]
    constructor
    · rintro ⟨j, hj, c, hc, hr⟩
      obtain ⟨c0, hc0, hr0⟩ := (mem_iterEnds min [s] c).1 hc
      simp only [List.mem_singleton] at hc0
      subst hc0
      have hreach : Reach (fun p => ends lk sub hay p) (min + j) c0 e := (Reach.add min j c0 e).2 ⟨c, hr0, hr⟩
      exact .rep (min + j) (by omega) (by intro m hm; cases hm) ((matchesRep_iff_reach ih _ _ _).2 ⟨hs, hreach⟩)
    · intro h
      cases h with
      | rep n hmin hmax hr =>
        obtain ⟨_, hreach⟩ := (matchesRep_iff_reach ih _ _ _).1 hr
        have hse := Reach.le hmono _ _ _ hreach
        have hle := (MatchesRep.span hr).2
        -- pump the number of iterations down to at most `min + (e - s)`
        by_cases hn : n ≤ min + (e - s)
        · obtain ⟨c, h1, h2⟩ := (Reach.add min (n - min) s e).1 (by rw [show min + (n - min) = n by omega]; exact hreach)
          exact ⟨n - min, by omega, c, (mem_iterEnds min [s] c).2 ⟨s, by simp, h1⟩, h2⟩
        · have hshr := Reach.shrink_to hmono (min + (e - s)) s e (by omega) (n - (min + (e - s)))
            (by rw [show min + (e - s) + (n - (min + (e - s))) = n by omega]; exact hreach)
          obtain ⟨c, h1, h2⟩ := (Reach.add min (e - s) s e).1 hshr
          exact ⟨e - s, by omega, c, (mem_iterEnds min [s] c).2 ⟨s, by simp, h1⟩, h2⟩

mutual
/-- **`ends_iff`**: the executable evaluator enumerates exactly the ends of the matches. -/
theorem ends_iff {lk : LookFn} : ∀ (h : Hir) (hay : Bytes) (s e : Nat),
    e ∈ ends lk h hay s ↔ Matches lk h hay s e
  | .empty, hay, s, e => by
      simp only [ends]
      constructor
      · intro h; split at h
        · simp only [List.mem_singleton] at h; subst h; exact .empty (by assumption)
        · cases h
      · intro h; cases h with | empty hs => simp [hs]
  | .lit bs, hay, s, e => by
      simp only [ends]
      constructor
      · intro h; split at h
        · rename_i hc
          simp only [Bool.and_eq_true, decide_eq_true_eq, beq_iff_eq] at hc
          simp only [List.mem_singleton] at h; subst h
          exact .lit hc.1 hc.2
        · cases h
      · intro h; cases h with | lit hl hsl => simp [hl, hsl]
  | .classB rs, hay, s, e => by
      simp only [ends]
      constructor
      · intro h
        split at h
        · rename_i b hb
          split at h
          · simp only [List.mem_singleton] at h; subst h; exact .classB hb (by assumption)
          · cases h
        · cases h
      · intro h; cases h with | classB hget hin => simp [hget, hin]
  | .classU rs, hay, s, e => by
      simp only [ends]
      rw [mem_endsClassU]
      constructor
      · rintro ⟨c, h1, h2, h3, h4, rfl⟩; exact .classU h1 h2 h3 h4
      · intro h; cases h with | classU h1 h2 h3 h4 => exact ⟨_, h1, h2, h3, h4, rfl⟩
  | .look k, hay, s, e => by
      simp only [ends]
      constructor
      · intro h; split at h
        · rename_i hc
          simp only [Bool.and_eq_true, decide_eq_true_eq] at hc
          simp only [List.mem_singleton] at h; subst h
          exact .look hc.1 hc.2
        · cases h
      · intro h; cases h with | look hs hk => simp [hs, hk]
  | .rep min max g sub, hay, s, e => by
      simp only [ends]
      split
      · rename_i hs
        exact mem_repEnds (fun p e => ends_iff sub hay p e) s e hs
      · rename_i hs
        constructor
        · intro h; cases h
        · intro h; exact absurd (by have := Matches.span h; omega) hs
  | .cap _ sub, hay, s, e => by
      simp only [ends]
      rw [ends_iff sub hay s e]
      constructor
      · intro h; exact .cap h
      · intro h; cases h with | cap h => exact h
  | .concat xs, hay, s, e => by
      simp only [ends]
      rw [endsSeq_iff xs hay [s] e]
      constructor
      · rintro ⟨c, hc, h⟩
        simp only [List.mem_singleton] at hc; subst hc
        exact .concat h
      · intro h; cases h with | concat h => exact ⟨s, by simp, h⟩
  | .alt xs, hay, s, e => by
      simp only [ends]
      rw [mem_dedupNat, endsAny_iff xs hay s e]
      constructor
      · intro h; exact .alt h
      · intro h; cases h with | alt h => exact h
theorem endsSeq_iff {lk : LookFn} : ∀ (xs : HirList) (hay : Bytes) (cur : List Nat) (e : Nat),
    e ∈ endsSeq lk xs hay cur ↔ ∃ c ∈ cur, MatchesSeq lk xs hay c e
  | .nil, hay, cur, e => by
      simp only [endsSeq, List.mem_filter, decide_eq_true_eq]
      constructor
      · rintro ⟨h1, h2⟩; exact ⟨e, h1, .nil h2⟩
      · rintro ⟨c, hc, h⟩; cases h with | nil hs => exact ⟨hc, hs⟩
  | .cons h t, hay, cur, e => by
      simp only [endsSeq]
      rw [endsSeq_iff t hay _ e]
      constructor
      · rintro ⟨m, hm, hseq⟩
        rw [mem_dedupNat, List.mem_flatMap] at hm
        obtain ⟨c, hc, hmc⟩ := hm
        exact ⟨c, hc, .cons ((ends_iff h hay c m).1 hmc) hseq⟩
      · rintro ⟨c, hc, hm⟩
        cases hm with
        | cons h1 h2 =>
          rename_i m
          refine ⟨m, ?_, h2⟩
          rw [mem_dedupNat, List.mem_flatMap]
          exact ⟨c, hc, (ends_iff h hay c m).2 h1⟩
theorem endsAny_iff {lk : LookFn} : ∀ (xs : HirList) (hay : Bytes) (s e : Nat),
    e ∈ endsAny lk xs hay s ↔ MatchesAny lk xs hay s e
  | .nil, hay, s, e => by
      simp only [endsAny]
      constructor
      · intro h; cases h
      · intro h; cases h
  | .cons h t, hay, s, e => by
      simp only [endsAny, List.mem_append]
      rw [ends_iff h hay s e, endsAny_iff t hay s e]
      constructor
      · rintro (h1 | h1)
        · exact .head h1
        · exact .tail h1
      · intro hm
        cases hm with
        | head h1 => exact Or.inl h1
        | tail h1 => exact Or.inr h1
end

end RgVerif.Rx
