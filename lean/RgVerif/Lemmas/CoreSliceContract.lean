import RgVerif.Lemmas.CoreDetect
import RgVerif.Lemmas.ReadByLineClean
namespace RgVerif.Searcher
open RgVerif RgVerif.Matcher RgVerif.Lines

/-- a line holding `b` is only delivered after `binary_data` was reported -/
def GuardedL (b : Nat) (evs : List Event) : Prop :=
  ∀ pre ev post, evs = pre ++ ev :: post → b ∈ ev.lineBytes → ∃ e ∈ pre, e.isBD = true

theorem GuardedL.snoc {b : Nat} {evs : List Event} {x : Event} (h : GuardedL b evs)
    (hx : b ∉ x.lineBytes ∨ ∃ e ∈ evs, e.isBD = true) : GuardedL b (evs ++ [x]) := by
  intro pre ev post hsplit hb
  rcases List.eq_nil_or_concat post with hp | ⟨post', y, hp⟩
  · subst hp
    have := List.append_inj' hsplit (by simp)
    obtain ⟨h1, h2⟩ := this
    simp only [List.cons.injEq, and_true] at h2
    subst h1 h2
    cases hx with
    | inl h0 => exact absurd hb h0
    | inr h0 => exact h0
  · subst hp
    have : evs ++ [x] = (pre ++ ev :: post') ++ [y] := by simpa using hsplit
    have := List.append_inj' this (by simp)
    exact h pre ev post' this.1 hb

/-- the invariant of the slice strategies (`Core` with `binary = true`) for the binary byte `b` -/
structure SI (cfg : Config) (b : Nat) (st : Core) : Prop where
  flag : st.binary = true
  seen : st.binaryByteOffset.isSome = true → ∃ e ∈ st.events, e.isBD = true
  guarded : GuardedL b st.events
  clean : cfg.binary.quitByte.isSome = true → CleanOf b st.events

theorem SI.upd {cfg : Config} {b : Nat} {st st' : Core} (h : SI cfg b st) (he : st'.events = st.events)
    (hb : st'.binaryByteOffset = st.binaryByteOffset) (hf : st'.binary = st.binary) : SI cfg b st' :=
  ⟨hf.trans h.flag, by rw [hb, he]; exact h.seen, by rw [he]; exact h.guarded, by rw [he]; exact h.clean⟩

/-- appending a callback that carries no line -/
theorem SI.emit_nobytes {cfg : Config} {b : Nat} {st : Core} (σ : Script) (ev : Event) (h0 : ev.lineBytes = [])
    (h : SI cfg b st) : SI cfg b (emit σ st ev).1 := by
  have he := emit_events σ st ev
  have hf : (emit σ st ev).1.binary = st.binary ∧ (emit σ st ev).1.binaryByteOffset = st.binaryByteOffset := by
    unfold emit; dsimp only; split <;> exact ⟨rfl, rfl⟩
  refine ⟨hf.1.trans h.flag, ?_, ?_, ?_⟩
  · rw [hf.2, he]
    intro hs
    obtain ⟨e, hm, hbd⟩ := h.seen hs
    exact ⟨e, by simp [hm], hbd⟩
  · rw [he]; exact h.guarded.snoc (Or.inl (by rw [h0]; simp))
  · intro hq; exact CleanOf.emit_nobytes σ st ev h0 (h.clean hq)

/-- appending a line of which we know: it is free of `b`, or (not `Quit`) the report was made -/
theorem SI.emit_line {cfg : Config} {b : Nat} {st : Core} (σ : Script) (ev : Event)
    (hl : b ∉ ev.lineBytes ∨ (cfg.binary.quitByte = none ∧ ∃ e ∈ st.events, e.isBD = true))
    (h : SI cfg b st) : SI cfg b (emit σ st ev).1 := by
  have he := emit_events σ st ev
  have hf : (emit σ st ev).1.binary = st.binary ∧ (emit σ st ev).1.binaryByteOffset = st.binaryByteOffset := by
    unfold emit; dsimp only; split <;> exact ⟨rfl, rfl⟩
  refine ⟨hf.1.trans h.flag, ?_, ?_, ?_⟩
  · rw [hf.2, he]
    intro hs
    obtain ⟨e, hm, hbd⟩ := h.seen hs
    exact ⟨e, by simp [hm], hbd⟩
  · rw [he]
    apply h.guarded.snoc
    cases hl with
    | inl h1 => exact Or.inl h1
    | inr h1 => exact Or.inr h1.2
  · intro hq
    rw [he]
    intro e hm
    simp only [List.mem_append, List.mem_singleton] at hm
    cases hm with
    | inl h1 => exact h.clean hq e h1
    | inr h1 =>
      subst h1
      cases hl with
      | inl h2 => exact h2
      | inr h2 => rw [h2.1] at hq; simp at hq

/-- the guard at the head of every `sink_*` -/
theorem SI.guard {cfg : Config} {b : Nat} (hb : cfg.binary.byte? = some b) (σ : Script) (buf : Bytes) (r : Span)
    {st : Core} (h : SI cfg b st) :
    SI cfg b (binaryGuard cfg σ buf r st).1 ∧
      ((binaryGuard cfg σ buf r st).2 = .ok false →
        (b ∉ slice buf r.s r.e ∨
          (cfg.binary.quitByte = none ∧ ∃ e ∈ (binaryGuard cfg σ buf r st).1.events, e.isBD = true))) := by
  unfold binaryGuard
  rw [if_pos h.flag]
  rcases detectBinary_cases cfg σ buf r st b hb with ⟨hs, heq⟩ | ⟨hn, hfree, heq⟩ | ⟨hn, off, e1, e2, e3, e4⟩
  · rw [heq]
    refine ⟨h, ?_⟩
    intro hres
    right
    simp only [Res.ok.injEq] at hres
    refine ⟨?_, h.seen hs⟩
    cases hq : cfg.binary.quitByte with
    | none => rfl
    | some x => rw [hq] at hres; simp at hres
  · rw [heq]
    exact ⟨h, fun _ => Or.inl hfree⟩
  · refine ⟨⟨e3.trans h.flag, ?_, ?_, ?_⟩, ?_⟩
    · intro _; exact ⟨.binaryData off, by rw [e1]; simp, rfl⟩
    · rw [e1]; exact h.guarded.snoc (Or.inl (by simp [Event.lineBytes]))
    · intro hq
      rw [e1]
      intro e hm
      simp only [List.mem_append, List.mem_singleton] at hm
      cases hm with
      | inl h1 => exact h.clean hq e h1
      | inr h1 => subst h1; simp [Event.lineBytes]
    · intro hres
      exact Or.inr ⟨e4 hres, .binaryData off, by rw [e1]; simp, rfl⟩

theorem SI.count_lines {cfg : Config} {b : Nat} (buf : Bytes) (u : Nat) {st : Core} (h : SI cfg b st) :
    SI cfg b (countLines cfg buf st u) := by
  apply h.upd (countLines_events' cfg buf st u)
  · unfold Searcher.countLines; split; rfl; split <;> rfl
  · unfold Searcher.countLines; split; rfl; split <;> rfl

/-- the shared tail of the `sink_*` functions after the guard said "go on" -/
theorem SI.line_tail {cfg : Config} {b : Nat} (σ : Script) (buf : Bytes) (r : Span)
    (mk : Option Nat → Nat → Bytes → Event) (hmk : ∀ a c d, (mk a c d).lineBytes = d)
    (upd : Core → Core) (hupd : ∀ s, (upd s).events = s.events ∧ (upd s).binaryByteOffset = s.binaryByteOffset ∧
      (upd s).binary = s.binary)
    {s1 : Core} (h : SI cfg b s1)
    (hl : b ∉ slice buf r.s r.e ∨ (cfg.binary.quitByte = none ∧ ∃ e ∈ s1.events, e.isBD = true)) :
    SI cfg b
      (match emit σ (countLines cfg buf s1 r.s)
          (mk (countLines cfg buf s1 r.s).lineNumber ((countLines cfg buf s1 r.s).absoluteByteOffset + r.s)
            (slice buf r.s r.e)) with
        | (st, .ok true) => (upd st, Res.ok true)
        | (st, r) => (st, r)).1 := by
  have hc := h.count_lines buf r.s
  have he := SI.emit_line (cfg := cfg) (b := b) σ
    (mk (countLines cfg buf s1 r.s).lineNumber ((countLines cfg buf s1 r.s).absoluteByteOffset + r.s) (slice buf r.s r.e))
    (by rw [hmk, countLines_events']; exact hl) hc
  generalize emit σ (countLines cfg buf s1 r.s) _ = g at he ⊢
  obtain ⟨s3, r3⟩ := g
  cases r3 with
  | err => exact he
  | ok b3 =>
    cases b3 with
    | false => exact he
    | true => exact he.upd (hupd s3).1 (hupd s3).2.1 (hupd s3).2.2

theorem SI.sinkCtx {cfg : Config} {b : Nat} (hb : cfg.binary.byte? = some b) (σ : Script) (buf : Bytes)
    (r : Span) (k : CtxKind) (upd : Core → Core)
    (hupd : ∀ s, (upd s).events = s.events ∧ (upd s).binaryByteOffset = s.binaryByteOffset ∧ (upd s).binary = s.binary)
    {st : Core} (h : SI cfg b st) :
    SI cfg b
      (match binaryGuard cfg σ buf r st with
        | (st, .err) => (st, Res.err)
        | (st, .ok true) => (st, .ok false)
        | (st, .ok false) =>
          match emit σ (countLines cfg buf st r.s)
            (.context k (countLines cfg buf st r.s).lineNumber ((countLines cfg buf st r.s).absoluteByteOffset + r.s)
              (slice buf r.s r.e)) with
          | (st, .ok true) => (upd st, .ok true)
          | (st, r) => (st, r)).1 := by
  have hg := h.guard hb σ buf r
  generalize binaryGuard cfg σ buf r st = g at hg ⊢
  obtain ⟨s1, r1⟩ := g
  cases r1 with
  | err => exact hg.1
  | ok bb =>
    cases bb with
    | true => exact hg.1
    | false => exact SI.line_tail σ buf r (Event.context k) (fun _ _ _ => rfl) upd hupd hg.1 (hg.2 rfl)

theorem SI.sink_matched {cfg : Config} {b : Nat} (hb : cfg.binary.byte? = some b) (σ : Script) (buf : Bytes)
    (r : Span) {st : Core} (h : SI cfg b st) : SI cfg b (sinkMatched cfg σ buf st r).1 := by
  unfold Searcher.sinkMatched
  have hg := h.guard hb σ buf r
  generalize binaryGuard cfg σ buf r st = g at hg ⊢
  obtain ⟨s1, r1⟩ := g
  cases r1 with
  | err => exact hg.1
  | ok bb =>
    cases bb with
    | true => exact hg.1
    | false =>
      dsimp only
      have hl := hg.2 rfl
      -- the context break keeps the invariant and the reported `binary_data`
      have hbk : SI cfg b (sinkBreakContext cfg σ s1 r.s).1 ∧
          ((∃ e ∈ s1.events, e.isBD = true) → ∃ e ∈ (sinkBreakContext cfg σ s1 r.s).1.events, e.isBD = true) := by
        unfold sinkBreakContext
        dsimp only
        split
        · exact ⟨hg.1, id⟩
        · refine ⟨SI.emit_nobytes σ _ rfl hg.1, ?_⟩
          intro ⟨e, hm, hbd⟩
          exact ⟨e, by rw [emit_events]; simp [hm], hbd⟩
      generalize sinkBreakContext cfg σ s1 r.s = g2 at hbk ⊢
      obtain ⟨s2, r2⟩ := g2
      cases r2 with
      | err => exact hbk.1
      | ok b2 =>
        cases b2 with
        | false => exact hbk.1
        | true =>
          exact SI.line_tail σ buf r Event.matched (fun _ _ _ => rfl)
            (fun s => { s with lastLineVisited := r.e, afterContextLeft := cfg.afterContext, hasSunk := true })
            (fun _ => ⟨rfl, rfl, rfl⟩) hbk.1
            (by
              cases hl with
              | inl h1 => exact Or.inl h1
              | inr h1 => exact Or.inr ⟨h1.1, hbk.2 h1.2⟩)

/-- the slice strategies keep `SI` through everything `Core` does on a buffer -/
theorem SI.corePres {cfg : Config} {b : Nat} (hb : cfg.binary.byte? = some b) (σ : Script) (buf : Bytes) :
    CorePres cfg σ buf (SI cfg b) where
  upd := fun _ _ h he hbo hf => h.upd he hbo hf
  brk := fun st o h => by
    unfold sinkBreakContext
    dsimp only
    split
    · exact h
    · exact SI.emit_nobytes σ _ rfl h
  sm := fun st r h => h.sink_matched hb σ buf r
  sb := fun st r h => SI.sinkCtx hb σ buf r .before
    (fun s => { s with lastLineVisited := r.e, hasSunk := true }) (fun _ => ⟨rfl, rfl, rfl⟩) h
  sa := fun st r h => SI.sinkCtx hb σ buf r .after
    (fun s => { s with lastLineVisited := r.e, afterContextLeft := s.afterContextLeft - 1, hasSunk := true })
    (fun _ => ⟨rfl, rfl, rfl⟩) h
  so := fun st r h => SI.sinkCtx hb σ buf r .other
    (fun s => { s with lastLineVisited := r.e, hasSunk := true }) (fun _ => ⟨rfl, rfl, rfl⟩) h

theorem SI.finish {cfg : Config} {b : Nat} (σ : Script) (n : Nat) (bo : Option Nat) {st : Core} (h : SI cfg b st) :
    SI cfg b (finish σ st n bo).1 := by
  unfold Searcher.finish
  have := SI.emit_nobytes (cfg := cfg) (b := b) σ (.finish n bo) rfl h
  generalize emit σ st (.finish n bo) = g at this ⊢
  obtain ⟨c3, r3⟩ := g
  cases r3 <;> exact this

/-- **`SliceByLine::run` keeps the contract**: for every configuration, matcher and sink script. -/
theorem sliceByLine_SI (cfg : Config) (m : MatcherI) (σ : Script) (inp : Bytes) (b : Nat)
    (hb : cfg.binary.byte? = some b) : SI cfg b (sliceByLine cfg m σ inp).core := by
  have h0 : SI cfg b (Core.new cfg true) :=
    ⟨rfl, by simp [Core.new], by intro pre ev post h; simp [Core.new] at h, by intro _ e he; simp [Core.new] at he⟩
  have hbeg : SI cfg b (begin σ (Core.new cfg true)).1 := SI.emit_nobytes σ _ rfl h0
  unfold sliceByLine
  dsimp only
  split
  · rename_i st1 heq
    rw [heq] at hbeg
    exact hbeg
  · rename_i st1 keepgoing heq
    rw [heq] at hbeg
    have hbody : SI cfg b
        (if keepgoing = true then
          match detectBinary cfg σ inp ⟨0, min inp.length defaultBufferCapacity⟩ st1 with
          | (st, .err) => (st, Res.err)
          | (st, .ok true) => (st, .ok ())
          | (st, .ok false) => sliceLoop cfg m σ inp (inp.length + 1) st
        else (st1, .ok ())).1 := by
      split
      · have hg := hbeg.guard hb σ inp ⟨0, min inp.length defaultBufferCapacity⟩
        unfold binaryGuard at hg
        rw [if_pos hbeg.flag] at hg
        generalize detectBinary cfg σ inp ⟨0, min inp.length defaultBufferCapacity⟩ st1 = g at hg ⊢
        obtain ⟨s1, r1⟩ := g
        cases r1 with
        | err => exact hg.1
        | ok bb =>
          cases bb with
          | true => exact hg.1
          | false => exact sliceLoop_pres (SI.corePres hb σ inp) m _ s1 hg.1
      · exact hbeg
    generalize (if keepgoing = true then
          match detectBinary cfg σ inp ⟨0, min inp.length defaultBufferCapacity⟩ st1 with
          | (st, .err) => (st, Res.err)
          | (st, .ok true) => (st, .ok ())
          | (st, .ok false) => sliceLoop cfg m σ inp (inp.length + 1) st
        else (st1, .ok ())) = g2 at hbody ⊢
    obtain ⟨s', r'⟩ := g2
    cases r' with
    | err => exact hbody
    | ok u => exact SI.finish σ _ _ hbody

end RgVerif.Searcher
