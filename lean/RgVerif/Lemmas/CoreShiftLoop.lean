import RgVerif.Lemmas.CoreShiftCtx
/-
The loop of `match_by_line_slow` on a window of the roll buffer and on the whole input, exactly
shifted, for every sink script and WITH context lines; the reader's `last_line_visited` may have
been forgotten by `Core::roll` (`XRel`).
-/
namespace RgVerif.Searcher
open RgVerif RgVerif.Matcher RgVerif.Lines RgVerif.GrepSpec

theorem ESim.setPos {cfg : Config} {B w : Bytes} {d : Nat} {s1 s2 : Core} (E : ESim cfg B w d s1 s2) (p : Nat)
    (hm : Bool) :
    ESim cfg B w d { s1 with pos := p + d, hasMatched := s1.hasMatched || hm }
      { s2 with pos := p, hasMatched := s2.hasMatched || hm } :=
  ⟨⟨E.ev, E.abs, rfl, E.bin1, E.bin2⟩, E.llv, E.acl, E.sunk, by show (s1.hasMatched || hm) = (s2.hasMatched || hm); rw [E.hm],
    E.llc1, E.llc2, E.ln⟩

theorem goodLines_head_term {t : Nat} {l : Bytes} {ls : List Bytes} (hg : GoodLines t (l :: ls)) (hne : ls ≠ []) :
    Term t l := by
  cases hg with
  | last _ _ => exact absurd rfl hne
  | cons _ _ ht _ => exact ht

theorem goodLines_tail {t : Nat} {l : Bytes} {ls : List Bytes} (hg : GoodLines t (l :: ls)) : GoodLines t ls := by
  cases hg with
  | last _ _ => exact .nil
  | cons _ _ _ h => exact h

/-- what the reader-side state looks like after the lines up to `e` were searched -/
def PostAt (st : Core) (e : Nat) : Prop :=
  st.lastLineVisited ≤ e ∧ st.pos = e ∧ (st.lastLineVisited = e ∨ st.afterContextLeft = 0)

/-- **The loop of `match_by_line_slow` on a window and on the whole buffer, exactly shifted**: for
every sink script, with context lines. -/
theorem slowLoop_sim {cfg : Config} {B pre w post : Bytes} (W : WinOf B pre w post) (hbin : cfg.binary = .none)
    (m : MatcherI) (σ : Script) (ls : List Bytes) :
    ∀ (prew : Bytes) (s1 s2 : Core), ESim cfg B w pre.length s1 s2 →
      w.take (prew.length + ls.flatten.length) = prew ++ ls.flatten →
      prew.length + ls.flatten.length ≤ w.length →
      PostAt s2 prew.length →
      GoodLines cfg.lineTerm.asByte ls →
      (ls ≠ [] → XRel cfg B w pre.length s1 s2 prew.length) →
      StepSim cfg B w pre.length (slowLoop cfg m σ B (spansFrom (prew.length + pre.length) ls) s1)
        (slowLoop cfg m σ w (spansFrom prew.length ls) s2) ∧
      ((slowLoop cfg m σ w (spansFrom prew.length ls) s2).2 = .ok true →
        PostAt (slowLoop cfg m σ w (spansFrom prew.length ls) s2).1 (prew.length + ls.flatten.length) ∧
        (ls ≠ [] → AllTerm cfg.lineTerm.asByte ls →
          XRel cfg B w pre.length (slowLoop cfg m σ B (spansFrom (prew.length + pre.length) ls) s1).1
            (slowLoop cfg m σ w (spansFrom prew.length ls) s2).1 (prew.length + ls.flatten.length))) := by
  induction ls with
  | nil =>
    intro prew s1 s2 E _ _ hP _ _
    simp only [spansFrom, slowLoop]
    exact ⟨⟨rfl, fun _ => E, E.toEnd⟩, fun _ => ⟨by simpa using hP, fun h => absurd rfl h⟩⟩
  | cons l ls ih =>
    intro prew s1 s2 E htake hw hP hg hX
    obtain ⟨hllv, hpos, hJ⟩ := hP
    have hX0 := hX (by simp)
    have hl := slice_line htake
    have hlB : slice B (prew.length + pre.length) (prew.length + l.length + pre.length) = l := by
      rw [W.slice _ _ (by simp only [List.flatten_cons, List.length_append] at hw; omega)]; exact hl
    have htake' : w.take ((prew ++ l).length + ls.flatten.length) = (prew ++ l) ++ ls.flatten := by
      simpa [Nat.add_assoc] using htake
    simp only [List.flatten_cons, List.length_append] at hw ⊢
    have hBlen : B.length = pre.length + (w.length + post.length) := by rw [W.eq]; simp
    simp only [spansFrom, slowLoop]
    rw [show prew.length + pre.length + l.length = prew.length + l.length + pre.length by omega, hlB, hl]
    -- what the rest of the loop does with related states
    have hrest : ∀ (t1 t2 : Core), ESim cfg B w pre.length t1 t2 → PostAt t2 (prew.length + l.length) →
        (Term cfg.lineTerm.asByte l → XRel cfg B w pre.length t1 t2 (prew.length + l.length)) →
        StepSim cfg B w pre.length
          (slowLoop cfg m σ B (spansFrom (prew.length + l.length + pre.length) ls) t1)
          (slowLoop cfg m σ w (spansFrom (prew.length + l.length) ls) t2) ∧
        ((slowLoop cfg m σ w (spansFrom (prew.length + l.length) ls) t2).2 = .ok true →
          PostAt (slowLoop cfg m σ w (spansFrom (prew.length + l.length) ls) t2).1
            (prew.length + (l.length + ls.flatten.length)) ∧
          (l :: ls ≠ [] → AllTerm cfg.lineTerm.asByte (l :: ls) →
            XRel cfg B w pre.length (slowLoop cfg m σ B (spansFrom (prew.length + l.length + pre.length) ls) t1).1
              (slowLoop cfg m σ w (spansFrom (prew.length + l.length) ls) t2).1
              (prew.length + (l.length + ls.flatten.length)))) := by
      intro t1 t2 E' hP' hX'
      have := ih (prew ++ l) t1 t2 E' htake' (by simp only [List.length_append]; omega)
        (by simpa only [List.length_append] using hP') (goodLines_tail hg)
        (fun hne => by simpa only [List.length_append] using hX' (goodLines_head_term hg hne))
      simp only [List.length_append, Nat.add_assoc] at this
      simp only [Nat.add_assoc]
      refine ⟨this.1, fun hok => ⟨(this.2 hok).1, fun _ hall => ?_⟩⟩
      by_cases hne : ls = []
      · subst hne
        simp only [spansFrom, slowLoop, List.flatten_nil, List.length_nil, Nat.add_zero]
        exact hX' (hall l (by simp))
      · exact (this.2 hok).2 hne (fun x hx => hall x (by simp [hx]))
    -- after the step: the stop_on_nonmatch test, then the rest
    have hafter : ∀ (succ : Bool) (R1 R2 : Core × Res Bool), StepSim cfg B w pre.length R1 R2 →
        (R2.2 = .ok true → PostAt R2.1 (prew.length + l.length) ∧
          (Term cfg.lineTerm.asByte l → XRel cfg B w pre.length R1.1 R2.1 (prew.length + l.length))) →
        StepSim cfg B w pre.length
          (match R1 with
            | (st, .ok true) =>
              if (cfg.stopOnNonmatch && !succ && st.hasMatched) = true then (st, Res.ok false)
              else slowLoop cfg m σ B (spansFrom (prew.length + l.length + pre.length) ls) st
            | (st, r) => (st, r))
          (match R2 with
            | (st, .ok true) =>
              if (cfg.stopOnNonmatch && !succ && st.hasMatched) = true then (st, Res.ok false)
              else slowLoop cfg m σ w (spansFrom (prew.length + l.length) ls) st
            | (st, r) => (st, r)) ∧
        ((match R2 with
            | (st, .ok true) =>
              if (cfg.stopOnNonmatch && !succ && st.hasMatched) = true then (st, Res.ok false)
              else slowLoop cfg m σ w (spansFrom (prew.length + l.length) ls) st
            | (st, r) => (st, r)).2 = .ok true →
          PostAt (match R2 with
            | (st, .ok true) =>
              if (cfg.stopOnNonmatch && !succ && st.hasMatched) = true then (st, Res.ok false)
              else slowLoop cfg m σ w (spansFrom (prew.length + l.length) ls) st
            | (st, r) => (st, r)).1 (prew.length + (l.length + ls.flatten.length)) ∧
          (l :: ls ≠ [] → AllTerm cfg.lineTerm.asByte (l :: ls) →
            XRel cfg B w pre.length (match R1 with
              | (st, .ok true) =>
                if (cfg.stopOnNonmatch && !succ && st.hasMatched) = true then (st, Res.ok false)
                else slowLoop cfg m σ B (spansFrom (prew.length + l.length + pre.length) ls) st
              | (st, r) => (st, r)).1
              (match R2 with
              | (st, .ok true) =>
                if (cfg.stopOnNonmatch && !succ && st.hasMatched) = true then (st, Res.ok false)
                else slowLoop cfg m σ w (spansFrom (prew.length + l.length) ls) st
              | (st, r) => (st, r)).1 (prew.length + (l.length + ls.flatten.length)))) := by
      intro succ R1 R2 hS hlv
      obtain ⟨t1, r1⟩ := R1
      obtain ⟨t2, r2⟩ := R2
      have hres : r1 = r2 := hS.res
      subst hres
      cases r1 with
      | err => exact ⟨⟨rfl, (fun h => by simp at h), hS.fin⟩, fun h => by simp at h⟩
      | ok bb =>
        cases bb with
        | false => exact ⟨⟨rfl, (fun h => by simp at h), hS.fin⟩, fun h => by simp at h⟩
        | true =>
          dsimp only
          have E' : ESim cfg B w pre.length t1 t2 := hS.cont rfl
          rw [E'.hm]
          split
          · exact ⟨⟨rfl, (fun h => by simp at h), E'.toEnd⟩, fun h => by simp at h⟩
          · exact hrest t1 t2 E' (hlv rfl).1 (hlv rfl).2
    cases hs : ((m.shortestMatch (withoutTerminator l cfg.lineTerm)).isSome != cfg.invertMatch) with
    | true =>
      simp only [if_true]
      have hstep : StepSim cfg B w pre.length
          (match beforeContextByLine cfg σ B
              { s1 with pos := prew.length + l.length + pre.length, hasMatched := true } (prew.length + pre.length) with
            | (st, .ok true) => sinkMatched cfg σ B st ⟨prew.length + pre.length, prew.length + l.length + pre.length⟩
            | (st, r) => (st, r))
          (match beforeContextByLine cfg σ w
              { s2 with pos := prew.length + l.length, hasMatched := true } prew.length with
            | (st, .ok true) => sinkMatched cfg σ w st ⟨prew.length, prew.length + l.length⟩
            | (st, r) => (st, r)) := by
        -- before context, then the match itself
        have E0 := E.setPos (prew.length + l.length) true
        simp only [Bool.or_true] at E0
        have hb := beforeContextByLine_sim W hbin σ E0 prew.length hllv (by omega) (hX0.imp id (fun h => h.imp (fun h2 => h2.2) id))
        generalize beforeContextByLine cfg σ B
          { s1 with pos := prew.length + l.length + pre.length, hasMatched := true } (prew.length + pre.length) = g1 at hb ⊢
        generalize beforeContextByLine cfg σ w
          { s2 with pos := prew.length + l.length, hasMatched := true } prew.length = g2 at hb ⊢
        obtain ⟨t1, r1⟩ := g1
        obtain ⟨t2, r2⟩ := g2
        have hres : r1 = r2 := hb.1.res
        subst hres
        cases r1 with
        | err => exact ⟨rfl, (fun h => by simp at h), hb.1.fin⟩
        | ok bb =>
          cases bb with
          | false => exact ⟨rfl, (fun h => by simp at h), hb.1.fin⟩
          | true =>
            dsimp only
            have hb2 := hb.2 rfl
            dsimp only at hb2
            refine sinkMatched_sim W hbin σ (hb.1.cont rfl) prew.length (prew.length + l.length) hb2.1
              (by omega) (by omega) ?_
            cases hb2.2 with
            | inl ht => right; rw [ht]; simp
            | inr hu =>
              rw [hu.1, hu.2]
              cases hX0 with
              | inl ht => right; show decide (s1.lastLineVisited < _) = decide (s2.lastLineVisited < _); rw [ht]; simp
              | inr hF0 =>
                cases hF0 with
                | inl hF =>
                  obtain ⟨_, Z, F2, F1⟩ := hF
                  right
                  show decide (s1.lastLineVisited < _) = decide (s2.lastLineVisited < _)
                  rw [decide_eq_true F1.lt, decide_eq_true F2.lt]
                | inr h0 => exact Or.inl h0
      refine hafter true _ _ hstep (fun hok => ?_)
      have hok1 := hstep.res.trans hok
      have hp0 := beforeContextByLine_pos hbin σ w { s2 with pos := prew.length + l.length, hasMatched := true } prew.length
      generalize beforeContextByLine cfg σ w
        { s2 with pos := prew.length + l.length, hasMatched := true } prew.length = g2 at hok hp0 ⊢
      generalize beforeContextByLine cfg σ B
        { s1 with pos := prew.length + l.length + pre.length, hasMatched := true } (prew.length + pre.length) = g1 at hok1 ⊢
      obtain ⟨t2, r2⟩ := g2
      obtain ⟨t1, r1⟩ := g1
      cases r2 with
      | err => simp at hok
      | ok b2 =>
        cases b2 with
        | false => simp at hok
        | true =>
          cases r1 with
          | err => simp at hok1
          | ok b1 =>
            cases b1 with
            | false => simp at hok1
            | true =>
              dsimp only at hok hok1 hp0 ⊢
              have h2 := sinkMatched_llv_ok cfg σ w t2 ⟨prew.length, prew.length + l.length⟩ hok
              have h1 := sinkMatched_llv_ok cfg σ B t1 ⟨prew.length + pre.length, prew.length + l.length + pre.length⟩ hok1
              have hp := sinkMatched_pos hbin σ w t2 ⟨prew.length, prew.length + l.length⟩
              exact ⟨⟨by rw [h2.1]; exact Nat.le_refl _, by rw [hp, hp0], Or.inl h2.1⟩,
                fun _ => Or.inl (by rw [h1.1, h2.1])⟩
    | false =>
      simp only [Bool.false_eq_true, if_false]
      have E0 := E.setPos (prew.length + l.length) false
      simp only [Bool.or_false] at E0
      have hs1 : ({ s1 with pos := prew.length + l.length + pre.length, hasMatched := s1.hasMatched } : Core)
          = { s1 with pos := prew.length + l.length + pre.length } := rfl
      have hs2 : ({ s2 with pos := prew.length + l.length, hasMatched := s2.hasMatched } : Core)
          = { s2 with pos := prew.length + l.length } := rfl
      rw [hs1, hs2] at E0
      have hacl := E.acl
      have hstep : StepSim cfg B w pre.length
          (if s1.afterContextLeft ≥ 1 then sinkAfterContext cfg σ B { s1 with pos := prew.length + l.length + pre.length }
              ⟨prew.length + pre.length, prew.length + l.length + pre.length⟩
            else if cfg.passthru = true then sinkOtherContext cfg σ B { s1 with pos := prew.length + l.length + pre.length }
              ⟨prew.length + pre.length, prew.length + l.length + pre.length⟩
            else ({ s1 with pos := prew.length + l.length + pre.length }, .ok true))
          (if s2.afterContextLeft ≥ 1 then sinkAfterContext cfg σ w { s2 with pos := prew.length + l.length }
              ⟨prew.length, prew.length + l.length⟩
            else if cfg.passthru = true then sinkOtherContext cfg σ w { s2 with pos := prew.length + l.length }
              ⟨prew.length, prew.length + l.length⟩
            else ({ s2 with pos := prew.length + l.length }, .ok true)) := by
        by_cases ha : s2.afterContextLeft ≥ 1
        · rw [if_pos (by omega : s1.afterContextLeft ≥ 1), if_pos ha]
          exact sinkAfterContext_sim W hbin σ E0 prew.length (prew.length + l.length) hllv (by omega) (by omega)
        · rw [if_neg (by omega : ¬ s1.afterContextLeft ≥ 1), if_neg ha]
          split
          · exact sinkOtherContext_sim W hbin σ E0 prew.length (prew.length + l.length) hllv (by omega) (by omega)
          · exact ⟨rfl, fun _ => E0, E0.toEnd⟩
      refine hafter false _ _ hstep (fun hok => ?_)
      have hok1 := hstep.res.trans hok
      by_cases ha : s2.afterContextLeft ≥ 1
      · have ha1 : s1.afterContextLeft ≥ 1 := by omega
        rw [if_pos ha] at hok ⊢
        rw [if_pos ha1] at hok1 ⊢
        have h2 := sinkAfterContext_llv_ok cfg σ w _ _ hok
        have h1 := sinkAfterContext_llv_ok cfg σ B _ _ hok1
        have hp := sinkAfterContext_pos hbin σ w { s2 with pos := prew.length + l.length } ⟨prew.length, prew.length + l.length⟩
        exact ⟨⟨by rw [h2]; exact Nat.le_refl _, hp, Or.inl h2⟩, fun _ => Or.inl (by rw [h1, h2])⟩
      · have ha1 : ¬ s1.afterContextLeft ≥ 1 := by omega
        rw [if_neg ha] at hok ⊢
        rw [if_neg ha1] at hok1 ⊢
        by_cases hpt : cfg.passthru = true
        · rw [if_pos hpt] at hok ⊢
          rw [if_pos hpt] at hok1 ⊢
          have h2 := sinkOtherContext_llv_ok cfg σ w _ _ hok
          have h1 := sinkOtherContext_llv_ok cfg σ B _ _ hok1
          have hp := sinkOtherContext_pos hbin σ w { s2 with pos := prew.length + l.length } ⟨prew.length, prew.length + l.length⟩
          exact ⟨⟨by rw [h2]; exact Nat.le_refl _, hp, Or.inl h2⟩, fun _ => Or.inl (by rw [h1, h2])⟩
        · rw [if_neg hpt]
          rw [if_neg hpt]
          refine ⟨⟨by show s2.lastLineVisited ≤ _; omega, rfl, Or.inr (by show s2.afterContextLeft = 0; omega)⟩, fun ht => ?_⟩
          cases hX0 with
          | inl hT => exact Or.inl hT
          | inr hF0 =>
            cases hF0 with
            | inr hz => exact Or.inr (Or.inr hz)
            | inl hF =>
              obtain ⟨h0, Z, F2, F1⟩ := hF
              refine Or.inr (Or.inl ⟨h0, Z ++ [l], F2.extend l hl ht (by omega), ?_⟩)
              have := F1.extend l (by rw [show prew.length + pre.length + l.length = prew.length + l.length + pre.length by omega]; exact hlB) ht (by omega)
              rw [show prew.length + pre.length + l.length = prew.length + l.length + pre.length by omega] at this
              exact this
end RgVerif.Searcher
