import RgVerif.Lemmas.SearcherMLLoop
import RgVerif.Lemmas.SearcherLineSafeGen
/-
Geometry of the merged line ranges of multi-line search: only the last can be empty, they are separated, and their
ends are line boundaries; the selection bits of the specification (`coverBits`).
-/
namespace RgVerif.Searcher
open RgVerif RgVerif.Matcher RgVerif.Lines RgVerif.GrepSpec RgVerif.MLSpec

/-! ### merging -/

/-- only the last range can be empty -/
def OLE : List Span → Prop
  | [] => True
  | [_] => True
  | r :: r' :: rest => nonEmpty r = true ∧ OLE (r' :: rest)

theorem OLE.tail : ∀ {r : Span} {l : List Span}, OLE (r :: l) → OLE l := by
  intro r l h
  cases l with
  | nil => trivial
  | cons r' rest => exact h.2

theorem OLE.drop : ∀ (k : Nat) {l : List Span}, OLE l → OLE (l.drop k) := by
  intro k
  induction k with
  | zero => intro l h; simpa using h
  | succ k ih =>
    intro l h
    cases l with
    | nil => simpa using h
    | cons r l => rw [List.drop_succ_cons]; exact ih h.tail

theorem mergeAcc_OLE (len : Nat) : ∀ (rest : List Span) (p : Span),
    p.s ≤ p.e → (nonEmpty p = false → rest = []) → GoodR len p.s rest → OLE (mergeAcc p rest) := by
  intro rest
  induction rest with
  | nil => intro p _ _ _; trivial
  | cons r rest ih =>
    intro p hp hne hg
    obtain ⟨g1, g2, g3, g4, g5⟩ := hg
    have hpne : nonEmpty p = true := by
      cases h : nonEmpty p with
      | true => rfl
      | false => exact absurd (hne h) (by simp)
    have hplt : p.s < p.e := by
      simp [nonEmpty] at hpne; omega
    unfold mergeAcc
    split
    · apply ih ⟨p.s, r.e⟩
      · simp only; omega
      · intro he
        have hre : r.e - p.s = 0 := by simpa [nonEmpty] using he
        apply g4
        simp [nonEmpty]; omega
      · exact g5.weaken g1
    · obtain ⟨r'', rem, e⟩ := mergeAcc_cons r rest
      have := ih r g2 g4 g5
      rw [e] at this ⊢
      exact ⟨hpne, this⟩

/-- the merged ranges are separated, start at or after the first start, and are well-formed -/
theorem mergeAcc_sep (len : Nat) : ∀ (rest : List Span) (p : Span), p.s ≤ p.e → GoodR len p.s rest →
    List.Pairwise (fun r r' => r.e < r'.s) (mergeAcc p rest) ∧ ∀ x ∈ mergeAcc p rest, p.s ≤ x.s ∧ x.s ≤ x.e := by
  intro rest
  induction rest with
  | nil =>
    intro p hp _
    refine ⟨by simp [mergeAcc], ?_⟩
    intro x hx; simp [mergeAcc] at hx; subst hx; exact ⟨Nat.le_refl _, hp⟩
  | cons r rest ih =>
    intro p hp hg
    obtain ⟨g1, g2, g3, g4, g5⟩ := hg
    unfold mergeAcc
    split
    · obtain ⟨h1, h2⟩ := ih ⟨p.s, r.e⟩ (by simp only; omega) (g5.weaken g1)
      exact ⟨h1, h2⟩
    · rename_i hnt
      obtain ⟨h1, h2⟩ := ih r g2 g5
      refine ⟨List.pairwise_cons.mpr ⟨fun x hx => by have := (h2 x hx).1; omega, h1⟩, ?_⟩
      intro x hx
      rcases List.mem_cons.mp hx with rfl | hx
      · exact ⟨Nat.le_refl _, hp⟩
      · have := h2 x hx; exact ⟨by omega, this.2⟩

theorem mergeAcc_ends (S : Nat → Prop) : ∀ (rest : List Span) (p : Span), S p.s → S p.e →
    (∀ r ∈ rest, S r.s ∧ S r.e) → ∀ x ∈ mergeAcc p rest, S x.s ∧ S x.e := by
  intro rest
  induction rest with
  | nil => intro p h1 h2 _ x hx; simp [mergeAcc] at hx; subst hx; exact ⟨h1, h2⟩
  | cons r rest ih =>
    intro p h1 h2 hr x hx
    unfold mergeAcc at hx
    split at hx
    · exact ih ⟨p.s, r.e⟩ h1 (hr r (List.mem_cons_self ..)).2 (fun r' h' => hr r' (List.mem_cons_of_mem _ h')) x hx
    · rcases List.mem_cons.mp hx with rfl | hx
      · exact ⟨h1, h2⟩
      · exact ih r (hr r (List.mem_cons_self ..)).1 (hr r (List.mem_cons_self ..)).2
          (fun r' h' => hr r' (List.mem_cons_of_mem _ h')) x hx

/-! ### line boundaries -/

theorem findByte_get {t : Nat} : ∀ {l : Bytes} {i : Nat}, findByte t l = some i → l[i]? = some t := by
  intro l
  induction l with
  | nil => intro i h; simp [findByte] at h
  | cons b r ih =>
    intro i h
    unfold findByte at h
    split at h
    · rename_i hb
      simp at h; subst h
      simp at hb; simp [hb]
    · cases hr : findByte t r with
      | none => rw [hr] at h; simp at h
      | some j => rw [hr] at h; simp at h; subst h; simpa using ih hr

section
variable {t : Nat} {buf : Bytes} {sl : List SLine}

/-- `x` is the start of a line or the end of the input -/
def IsB (sl : List SLine) (x : Nat) : Prop := ∃ i, i ≤ sl.length ∧ x = offsetAt sl i

theorem term_boundary (L : Layout t buf sl) (hlen : buf.length = offsetAt sl sl.length) {i : Nat}
    (h : buf[i]? = some t) : IsB sl (i + 1) := by
  have hi : i < buf.length := by
    apply Classical.byContradiction; intro hn
    rw [List.getElem?_eq_none (by omega)] at h; exact absurd h (by simp)
  obtain ⟨j, hj, h1, h2⟩ := exists_line L sl.length i (Nat.le_refl _) (by omega)
  have hsucc := off_succ sl j hj
  have hget := Searcher.Layout.get_line L hlen j (i - offsetAt sl j) hj (by omega)
  have e : offsetAt sl j + (i - offsetAt sl j) = i := by omega
  rw [e, h] at hget
  obtain ⟨hnt, hshape⟩ := Searcher.Layout.line_shape L hlen j hj
  generalize withoutTerminator (bytesAt sl j) (.byte t) = body at hnt hshape
  rcases hshape with hs | ⟨hs, _⟩
  · rw [hs] at hget hsucc
    by_cases ha : i - offsetAt sl j < body.length
    · rw [List.getElem?_append_left ha] at hget
      exact absurd (List.mem_of_getElem? hget.symm) hnt
    · simp at hsucc
      exact ⟨j + 1, by omega, by omega⟩
  · rw [hs] at hget
    exact absurd (List.mem_of_getElem? hget.symm) hnt

theorem lineStartOf_isB (L : Layout t buf sl) (hlen : buf.length = offsetAt sl sl.length) (s : Nat) :
    IsB sl (lineStartOf buf t s) := by
  unfold lineStartOf
  cases h : rfindByte t (buf.take s) with
  | none => exact ⟨0, Nat.zero_le _, (off_zero sl).symm⟩
  | some i =>
    obtain ⟨h1, h2⟩ := rfindByte_some h
    simp only [List.length_take] at h1
    rw [List.getElem?_take_of_lt (by omega)] at h2
    exact term_boundary L hlen h2

theorem lineEndOf_isB (L : Layout t buf sl) (hlen : buf.length = offsetAt sl sl.length) (ls e : Nat) :
    IsB sl (lineEndOf buf t ls e) := by
  unfold lineEndOf
  split
  · rename_i hc
    simp only [Bool.and_eq_true, decide_eq_true_eq, beq_iff_eq] at hc
    have := term_boundary L hlen hc.2
    have e1 : e - 1 + 1 = e := by omega
    rw [e1] at this; exact this
  · cases hf : findByte t (buf.drop e) with
    | none => exact ⟨sl.length, Nat.le_refl _, hlen⟩
    | some i =>
      have := findByte_get hf
      rw [List.getElem?_drop] at this
      have hb := term_boundary L hlen this
      simpa [Nat.add_assoc] using hb

theorem locate_isB (L : Layout t buf sl) (hlen : buf.length = offsetAt sl sl.length) (r : Span) :
    IsB sl (locate buf t r).s ∧ IsB sl (locate buf t r).e := by
  rw [locate_eq]
  exact ⟨lineStartOf_isB L hlen _, lineEndOf_isB L hlen _ _⟩

end

/-! ### the selection bits of the specification -/

theorem coverBits_lsOf (blocks : List Span) (inv : Bool) : ∀ (ls : List Bytes) (off : Nat),
    lsOf (coverBits blocks inv off ls) = ls := by
  intro ls
  induction ls with
  | nil => intro _; rfl
  | cons l ls ih => intro off; simp only [coverBits, lsOf, List.map_cons]; congr 1; exact ih _

theorem coverBits_sel (blocks : List Span) (inv : Bool) : ∀ (ls : List Bytes) (off j : Nat), j < ls.length →
    selAt (coverBits blocks inv off ls) j =
      (coveredBy blocks (off + offsetAt (coverBits blocks inv off ls) j)
        (off + offsetAt (coverBits blocks inv off ls) (j + 1)) != inv) := by
  intro ls
  induction ls with
  | nil => intro _ j h; simp at h
  | cons l ls ih =>
    intro off j hj
    cases j with
    | zero => simp [coverBits, selAt, offsetAt]
    | succ j =>
      have := ih (off + l.length) j (by simpa using hj)
      simp only [coverBits, selAt, offsetAt, List.getElem?_cons_succ, List.take_succ_cons, List.map_cons,
        List.sum_cons] at this ⊢
      rw [this]
      simp [Nat.add_assoc]

end RgVerif.Searcher
