import RgVerif.Model.ParWalk
/-
The executable transition function used by the driver only produces `Step`s of the relation
the theorems quantify over (so every replayed trace is covered by the theorems).
-/
namespace RgVerif.ParWalk

theorem take_drop_split {α : Type} (l : List α) (k : Nat) (m : α) (rest : List α)
    (h : l.drop k = m :: rest) : l = l.take k ++ m :: rest := by
  rw [← h, List.take_append_drop]

theorem stepFn_sound {n : Nat} {s s' : State} {w : Nat} {a : Act}
    (h : stepFn n s w a = some s') : Step n s w s' := by
  unfold stepFn at h
  split at h
  case isFalse => cases h
  case isTrue hw =>
    split at h
    case h_1 b hpc =>
      split at h
      case h_1 m d hdq => cases h; exact .popOk hdq hw hpc
      case h_2 hdq => cases h; exact .popEmpty hdq hw hpc
    case h_2 b v vs k hpc =>
      simp only at h
      split at h
      case isFalse => cases h
      case isTrue hc =>
        split at h
        case h_1 m rest hd =>
          cases h
          exact .stealOk hc.1 hc.2.1 (take_drop_split _ _ _ _ hd) hw hpc
        case h_2 => cases h
    case h_3 b v vs hpc => cases h; exact .stealFail hw hpc
    case h_4 b hpc => cases h; exact .stealDone hw hpc
    case h_5 hpc => cases h; exact .sleep hw hpc
    case h_6 m hpc => cases h; exact .activate hw hpc
    case h_7 v hpc =>
      split at h
      case isTrue hq => cases h; exact .checkQuitNow hq hw hpc
      case isFalse hq =>
        have hq : s.quitNow = false := by simpa using hq
        split at h
        · cases h; exact .checkWork hq hw hpc
        · cases h; exact .checkQuit hq hw hpc
        · cases h; exact .checkNone hq hw hpc
    case h_8 t hpc => cases h; exact .visitCont hw hpc
    case h_9 t hpc => cases h; exact .visitQuit hw hpc
    case h_10 k ks hpc => cases h; exact .push hw hpc
    case h_11 hpc => cases h; exact .runDone hw hpc
    case h_12 hpc => cases h; exact .setQuit hw hpc
    case h_13 hpc =>
      split at h
      case isTrue hz => cases h; exact .deactZero hz hw hpc
      case isFalse hz => cases h; exact .deactWait hz hw hpc
    case h_14 c hpc => cases h; exact .sendQuit hw hpc
    case h_15 c hpc => cases h; exact .exit hw hpc
    case h_16 => cases h

/-- Conversely the driver's function can take every step of the relation. -/
theorem stepFn_complete {n : Nat} {s s' : State} {w : Nat} (h : Step n s w s') :
    ∃ a, stepFn n s w a = some s' := by
  cases h
  case popOk b m d hdq hw hpc => exact ⟨.go, by simp [stepFn, hw, hpc, hdq]⟩
  case popEmpty b hdq hw hpc => exact ⟨.go, by simp [stepFn, hw, hpc, hdq]⟩
  case stealOk v b vs keep rest m hv hne hdq hw hpc =>
    refine ⟨.stealOk (rest.length + 1), ?_⟩
    have hlen : (s.dq v).length - (rest.length + 1) = keep.length := by
      rw [hdq]; simp
    have hk : rest.length + 1 ≤ (s.dq v).length := by rw [hdq]; simp
    simp only [stepFn, hw, hpc, if_true, hv, hlen, hk]
    have hd : (s.dq v).drop keep.length = m :: rest := by rw [hdq]; simp
    have ht : (s.dq v).take keep.length = keep := by rw [hdq]; simp
    simp [hd, ht, hne]
  case stealFail v b vs hw hpc => exact ⟨.stealFail, by simp [stepFn, hw, hpc]⟩
  case stealDone b hw hpc => exact ⟨.go, by simp [stepFn, hw, hpc]⟩
  case sleep hw hpc => exact ⟨.go, by simp [stepFn, hw, hpc]⟩
  case activate m hw hpc => exact ⟨.go, by simp [stepFn, hw, hpc]⟩
  case checkQuitNow v hq hw hpc => exact ⟨.go, by simp [stepFn, hw, hpc, hq]⟩
  case checkWork t hq hw hpc => exact ⟨.go, by simp [stepFn, hw, hpc, hq]⟩
  case checkQuit hq hw hpc => exact ⟨.go, by simp [stepFn, hw, hpc, hq]⟩
  case checkNone hq hw hpc => exact ⟨.go, by simp [stepFn, hw, hpc, hq]⟩
  case visitCont t hw hpc => exact ⟨.visitCont, by simp [stepFn, hw, hpc]⟩
  case visitQuit t hw hpc => exact ⟨.visitQuit, by simp [stepFn, hw, hpc]⟩
  case push k ks hw hpc => exact ⟨.go, by simp [stepFn, hw, hpc]⟩
  case runDone hw hpc => exact ⟨.go, by simp [stepFn, hw, hpc]⟩
  case setQuit hw hpc => exact ⟨.go, by simp [stepFn, hw, hpc]⟩
  case deactZero hz hw hpc => exact ⟨.go, by simp [stepFn, hw, hpc, hz]⟩
  case deactWait hz hw hpc => exact ⟨.go, by simp [stepFn, hw, hpc, hz]⟩
  case sendQuit c hw hpc => exact ⟨.go, by simp [stepFn, hw, hpc]⟩
  case exit c hw hpc => exact ⟨.go, by simp [stepFn, hw, hpc]⟩

def demoRoots : List Tree := [.node [0] [.node [1] [], .node [2] [.node [3] []]]]

def demoSched : List (Nat × Act) :=
  [ (1, .go), (1, .stealFail), (1, .go), (1, .go), (1, .go),          -- worker 1 finds nothing, deactivates
    (0, .go), (0, .go), (0, .visitCont), (0, .go), (0, .go), (0, .go), -- worker 0 visits 0, sends 1 and 2
    (1, .go), (1, .stealOk 1),                                         -- idle worker 1 steals entry 1
    (0, .go), (0, .go), (0, .visitCont), (0, .go), (0, .go),           -- worker 0 visits 2, sends 3
    (0, .go), (0, .go), (0, .visitCont), (0, .go),                     -- worker 0 visits 3
    (0, .go), (0, .stealFail), (0, .go), (0, .go), (0, .go),           -- worker 0 finds nothing: counter hits 0
    (0, .go), (0, .go),                                                -- ... pushes Quit and exits
    (1, .go), (1, .go), (1, .visitCont), (1, .go),                     -- worker 1 activates, visits 1
    (1, .go), (1, .stealOk 1), (1, .go), (1, .go), (1, .go) ]          -- steals the Quit, re-sends it, exits

theorem runActs_reachable {n : Nat} {roots : List Tree} (acts : List (Nat × Act)) {s s' : State}
    (hr : Reachable n roots s) (h : runActs n acts s = some s') : Reachable n roots s' := by
  induction acts generalizing s with
  | nil => simp only [runActs] at h; cases h; exact hr
  | cons a acts ih =>
    obtain ⟨w, a⟩ := a
    simp only [runActs] at h
    split at h
    · rename_i s1 hs1
      exact ih (.step hr (stepFn_sound hs1)) h
    · cases h

end RgVerif.ParWalk
