import RgVerif.Lemmas.SearcherMLGeom
import RgVerif.Lemmas.SearcherMLBlock
/-
`MultiLine::run` with context, passthru and line numbers (no inversion): the sink is told exactly `mlSpec`.
-/
namespace RgVerif.Searcher
open RgVerif RgVerif.Matcher RgVerif.Lines RgVerif.GrepSpec RgVerif.MLSpec

/-- the merged line ranges of all matches (the last one may be empty) -/
def totalBlocks (cfg : Config) (m : MatcherI) (inp : Bytes) : List Span :=
  mergeTouching ((mlMatches m inp).map (locate inp cfg.lineTerm.asByte))

theorem mlBlocks_eq_filter (cfg : Config) (m : MatcherI) (inp : Bytes) :
    mlBlocks cfg m inp = (totalBlocks cfg m inp).filter nonEmpty := rfl

/-- the lines of the input with the selection bits of the specification -/
def mlLines (cfg : Config) (m : MatcherI) (inp : Bytes) : List SLine :=
  coverBits (mlBlocks cfg m inp) false 0 (splitLines cfg.lineTerm.asByte inp)

/-- what the proof needs to know about the blocks and the lines -/
structure Geo (t : Nat) (inp : Bytes) (sl : List SLine) (total : List Span) : Prop where
  L : Layout t inp sl
  hlen : inp.length = offsetAt sl sl.length
  ole : OLE total
  sep : List.Pairwise (fun r r' => r.e < r'.s) total
  wf : ∀ r ∈ total, r.s ≤ r.e
  ends : ∀ r ∈ total, IsB sl r.s ∧ IsB sl r.e
  sel : ∀ j, j < sl.length → selAt sl j = coveredBy (total.filter nonEmpty) (offsetAt sl j) (offsetAt sl (j + 1))

theorem geo_of_sane (cfg : Config) {m : MatcherI} {inp : Bytes} (hs : SpanSane m inp) :
    Geo cfg.lineTerm.asByte inp (mlLines cfg m inp) (totalBlocks cfg m inp) := by
  have hls : lsOf (mlLines cfg m inp) = splitLines cfg.lineTerm.asByte inp := coverBits_lsOf _ _ _ _
  have L : Layout cfg.lineTerm.asByte inp (mlLines cfg m inp) := by
    have L0 := layout_splitLines cfg.lineTerm.asByte inp (fun _ => true)
    have h0 : lsOf ((splitLines cfg.lineTerm.asByte inp).map fun l => (l, (fun _ => true) l))
        = splitLines cfg.lineTerm.asByte inp := by simp [lsOf, List.map_map, Function.comp_def]
    exact ⟨by rw [hls]; have := L0.flat; rw [h0] at this; exact this,
           by rw [hls]; have := L0.good; rw [h0] at this; exact this⟩
  have hlen : inp.length = offsetAt (mlLines cfg m inp) (mlLines cfg m inp).length := by
    rw [← off_flat, ← lsOf_length, List.take_length, hls, splitLines_flatten]
  have hg := goodR_of_goodM inp cfg.lineTerm.asByte _ 0 (matchesFrom_good hs (inp.length + 1) 0 (Nat.zero_le _))
  have hends : ∀ r ∈ (mlMatches m inp).map (locate inp cfg.lineTerm.asByte),
      IsB (mlLines cfg m inp) r.s ∧ IsB (mlLines cfg m inp) r.e := by
    intro r hr
    obtain ⟨x, _, rfl⟩ := List.mem_map.mp hr
    exact locate_isB L hlen x
  have hsel : ∀ j, j < (mlLines cfg m inp).length → selAt (mlLines cfg m inp) j =
      coveredBy ((totalBlocks cfg m inp).filter nonEmpty) (offsetAt (mlLines cfg m inp) j)
        (offsetAt (mlLines cfg m inp) (j + 1)) := by
    intro j hj
    have hj' : j < (splitLines cfg.lineTerm.asByte inp).length := by rw [← hls, lsOf_length]; exact hj
    have := coverBits_sel (mlBlocks cfg m inp) false (splitLines cfg.lineTerm.asByte inp) 0 j hj'
    simp only [Nat.zero_add] at this
    show selAt (coverBits (mlBlocks cfg m inp) false 0 (splitLines cfg.lineTerm.asByte inp)) j =
      coveredBy (mlBlocks cfg m inp)
        (offsetAt (coverBits (mlBlocks cfg m inp) false 0 (splitLines cfg.lineTerm.asByte inp)) j)
        (offsetAt (coverBits (mlBlocks cfg m inp) false 0 (splitLines cfg.lineTerm.asByte inp)) (j + 1))
    rw [this]
    cases coveredBy (mlBlocks cfg m inp)
        (offsetAt (coverBits (mlBlocks cfg m inp) false 0 (splitLines cfg.lineTerm.asByte inp)) j)
        (offsetAt (coverBits (mlBlocks cfg m inp) false 0 (splitLines cfg.lineTerm.asByte inp)) (j + 1)) <;> rfl
  unfold totalBlocks mlMatches at *
  generalize (matchesFrom (m.findAt inp) inp.length (inp.length + 1) 0).map (locate inp cfg.lineTerm.asByte) = R at hg hends hsel
  cases R with
  | nil =>
    exact ⟨L, hlen, trivial, List.Pairwise.nil, fun r hr => by simp [mergeTouching] at hr,
      fun r hr => by simp [mergeTouching] at hr, hsel⟩
  | cons r rest =>
    obtain ⟨g1, g2, g3, g4, g5⟩ := hg
    obtain ⟨s1, s2⟩ := mergeAcc_sep inp.length rest r g2 g5
    refine ⟨L, hlen, mergeAcc_OLE inp.length rest r g2 g4 g5, s1, fun x hx => (s2 x hx).2, ?_, hsel⟩
    exact mergeAcc_ends _ rest r (hends r (List.mem_cons_self ..)).1 (hends r (List.mem_cons_self ..)).2
      (fun r' h' => hends r' (List.mem_cons_of_mem _ h'))

section
variable {t : Nat} {inp : Bytes} {sl : List SLine} {total : List Span}

/-- a non-empty block is a run of lines -/
theorem Geo.aligned (G : Geo t inp sl total) {r : Span} (hr : r ∈ total) (hne : nonEmpty r = true) :
    ∃ a b, a < b ∧ b ≤ sl.length ∧ r = ⟨offsetAt sl a, offsetAt sl b⟩ := by
  obtain ⟨⟨a, ha, hsa⟩, ⟨b, hb, heb⟩⟩ := G.ends r hr
  have hlt : r.s < r.e := by simp [nonEmpty] at hne; omega
  refine ⟨a, b, ?_, hb, by cases r; simp_all⟩
  apply Classical.byContradiction; intro h
  have := off_mono sl (show b ≤ a by omega)
  omega

theorem Geo.not_covered (G : Geo t inp sl total) {j : Nat} (hj : j < sl.length)
    (h : ∀ x ∈ total, nonEmpty x = true → x.e ≤ offsetAt sl j ∨ offsetAt sl j < x.s) : selAt sl j = false := by
  rw [G.sel j hj, Bool.eq_false_iff]
  intro hc
  unfold coveredBy at hc
  obtain ⟨x, hx, hxc⟩ := List.any_eq_true.mp hc
  obtain ⟨hxt, hxn⟩ := List.mem_filter.mp hx
  simp only [Bool.and_eq_true, decide_eq_true_eq] at hxc
  have := G.L.off_lt (show j < j + 1 by omega) (by omega)
  rcases h x hxt hxn with h | h <;> omega

theorem Geo.covered (G : Geo t inp sl total) {j a b : Nat} (hj : j < sl.length)
    (hx : (⟨offsetAt sl a, offsetAt sl b⟩ : Span) ∈ total) (hab : a ≤ j) (hjb : j < b) (hne : a < b) (hb : b ≤ sl.length) :
    selAt sl j = true := by
  rw [G.sel j hj]
  unfold coveredBy
  apply List.any_eq_true.mpr
  refine ⟨⟨offsetAt sl a, offsetAt sl b⟩, List.mem_filter.mpr ⟨hx, ?_⟩, ?_⟩
  · have := G.L.off_lt hne hb
    simp [nonEmpty]; omega
  · simp only [Bool.and_eq_true, decide_eq_true_eq]
    exact ⟨off_mono sl hab, off_mono sl (by omega)⟩

theorem drop_eq_cons {α : Type} {l : List α} {k : Nat} {r : α} {rem : List α} (h : l.drop k = r :: rem) :
    ∃ hk : k < l.length, l[k] = r ∧ l.drop (k + 1) = rem := by
  have hk : k < l.length := by
    apply Classical.byContradiction; intro hn
    rw [List.drop_eq_nil_of_le (by omega)] at h; exact absurd h (by simp)
  rw [List.drop_eq_getElem_cons hk] at h
  exact ⟨hk, (List.cons.inj h).1, (List.cons.inj h).2⟩

end

section
variable {t : Nat} {buf : Bytes} {sl : List SLine} {cfg : Config}

/-- the real run of a log-agnostic function, given its run from the shadow log -/
theorem agn_real {f : Core → Core × Res Bool} (hf : Agn f) {st st2 : Core} {E : List Event}
    (h : f (withE st E) = (st2, .ok true)) (hb : st.binaryByteOffset = none) (hev : st.events = coalesce E) :
    f st = (withE st2 (coalesce st2.events), .ok true) := by
  obtain ⟨suf, hs, hr⟩ := hf (withE st E) hb st.events
  have h1 := hr.eq
  have h2 := hr.ev
  simp only [withE_withE, withE_self, h, withE_events] at h1 h2
  rw [h1, h2, coalesce_append_ctx E suf hs, hev]

/-- **one block**: `sink_context` and `sink_matched` on the selected lines `[a, b)`, the lines `[v, a)` unselected -/
theorem block_step (L : Layout t buf sl) (ht : cfg.lineTerm.asByte = t) (hbin : cfg.binary = .none)
    (hpt0 : cfg.passthru = true → cfg.afterContext = 0)
    {v a b : Nat} {st : Core} {E : List Event} (hI : Inv cfg sl v (withE st E)) (hev : st.events = coalesce E)
    (hva : v ≤ a) (hab : a < b) (hb : b ≤ sl.length) (hu : Unsel sl v a)
    (hsel : ∀ j, a ≤ j → j < b → selAt sl j = true)
    (hacl : AclOK cfg.afterContext sl v st.afterContextLeft) (hgap : v = 0 ∨ v < a) :
    ∃ st1 st3 E3, mlSinkContext cfg allCont buf st ⟨offsetAt sl a, offsetAt sl b⟩ = (st1, .ok true) ∧
      mlSinkMatched cfg allCont buf st1 ⟨offsetAt sl a, offsetAt sl b⟩ = (st3, .ok true) ∧ st3.pos = st.pos ∧
      Inv cfg sl b (withE st3 E3) ∧ st3.events = coalesce E3 ∧
      AclOK cfg.afterContext sl b st3.afterContextLeft := by
  obtain ⟨v2, st2, e2, hI2, hv2, hskip, hf2⟩ :=
    ctx_prelude L ht hbin hpt0 hI hva (by omega) hu (hsel a (Nat.le_refl _) hab) hacl (offsetAt sl b)
  have e2' := ctx_real (buf := buf) hbin _ e2 hI.bin hev
  have hjoin : v2 = 0 ∨ v2 < a ∨ selAt sl (v2 - 1) = false := by
    by_cases h0 : v2 = 0
    · exact Or.inl h0
    · by_cases h1 : v2 < a
      · exact Or.inr (Or.inl h1)
      · refine Or.inr (Or.inr (hu (v2 - 1) ?_ (by omega)))
        rcases hgap with h | h <;> omega
  obtain ⟨st3, E3, e3, hI3, hev3, hacl3, hp3⟩ := block_sink L ht hbin hI2 hv2 hab hb hskip hsel hjoin
  refine ⟨_, st3, E3, e2', e3, ?_, hI3, hev3, ?_⟩
  · rw [hp3, hf2.1]; rfl
  · rw [hacl3]
    have := aclOK_match (A := cfg.afterContext) (hsel (b - 1) (by omega) (by omega))
    have e : b - 1 + 1 = b := by omega
    rw [e] at this; exact this

end

section
variable {t : Nat} {inp : Bytes} {sl : List SLine} {total : List Span} {cfg : Config}

/-- the invariant of the loop: the blocks before index `k` have been delivered; `v` lines are decided; the real
log is `coalesce` of the shadow log `E`, which is the grep model's log for `v` lines -/
def MLI (cfg : Config) (sl : List SLine) (total : List Span) (rem : List Span) (st : Core) : Prop :=
  ∃ k v E, total.drop k = rem ∧ k ≤ total.length ∧ v ≤ sl.length ∧ Inv cfg sl v (withE st E) ∧
    st.events = coalesce E ∧ AclOK cfg.afterContext sl v st.afterContextLeft ∧
    (∀ i (h : i < total.length), i < k → nonEmpty total[i] = true → total[i].e ≤ offsetAt sl v) ∧
    (∀ i (h : i < total.length), k ≤ i → nonEmpty total[i] = true → v = 0 ∨ offsetAt sl v < total[i].s)

theorem mli_blockInv (G : Geo t inp sl total) (ht : cfg.lineTerm.asByte = t) (hbin : cfg.binary = .none)
    (hpt0 : cfg.passthru = true → cfg.afterContext = 0) : BlockInv (cfg := cfg) inp (MLI cfg sl total) := by
  constructor
  · rintro rem st x ⟨k, v, E, h1, h2, h3, hI, h5, h6, h7, h8⟩
    exact ⟨k, v, E, h1, h2, h3, Inv.of_fields hI rfl rfl rfl rfl rfl rfl rfl, h5, h6, h7, h8⟩
  · rintro r r' rem st ⟨k, v, E, h1, _⟩
    have := G.ole.drop k
    rw [h1] at this
    exact this.1
  · rintro r rem st ⟨k, v, E, h1, h2, h3, hI, h5, h6, h7, h8⟩ hne
    obtain ⟨hk, hrk, hdrop⟩ := drop_eq_cons h1
    have hmem : r ∈ total := hrk ▸ List.getElem_mem hk
    obtain ⟨a, b, hab, hb, hr⟩ := G.aligned hmem hne
    have hgap : v = 0 ∨ v < a := by
      rcases h8 k hk (Nat.le_refl _) (by rw [hrk]; exact hne) with h | h
      · exact Or.inl h
      · right
        rw [hrk, hr] at h
        apply Classical.byContradiction; intro hn
        have := off_mono sl (show a ≤ v by omega); simp only at h; omega
    have hva : v ≤ a := by rcases hgap with h | h <;> omega
    have hu : Unsel sl v a := by
      intro j hj1 hj2
      apply G.not_covered (by omega)
      intro x hx hxn
      obtain ⟨i, hi, rfl⟩ := List.getElem_of_mem hx
      by_cases hik : i < k
      · left; exact Nat.le_trans (h7 i hi hik hxn) (off_mono sl hj1)
      · right
        have hja := G.L.off_lt hj2 (by omega)
        by_cases hik' : i = k
        · subst hik'; rw [hrk, hr]; exact hja
        · have := (List.pairwise_iff_getElem.mp G.sep) k i hk hi (by omega)
          have hw := G.wf _ (List.getElem_mem hk)
          rw [hrk, hr] at this hw
          simp only at this hw; omega
    have hsel : ∀ j, a ≤ j → j < b → selAt sl j = true :=
      fun j h1 h2 => G.covered (by omega) (hr ▸ hmem) h1 h2 hab hb
    subst hr
    obtain ⟨st1, st3, E3, e1, e3, hp3, hI3, hev3, hacl3⟩ :=
      block_step G.L ht hbin hpt0 hI h5 hva hab hb hu hsel h6 hgap
    refine ⟨st1, st3, e1, e3, hp3, k + 1, b, E3, hdrop, by omega, hb, hI3, hev3, hacl3, ?_, ?_⟩
    · intro i hi hik hin
      by_cases hik' : i = k
      · subst hik'; rw [hrk]; exact Nat.le_refl _
      · exact Nat.le_trans (h7 i hi (by omega) hin) (off_mono sl (by omega))
    · intro i hi hik _
      right
      have := (List.pairwise_iff_getElem.mp G.sep) k i hk hi (by omega)
      rw [hrk] at this; exact this
  · rintro r st ⟨k, v, E, h1, h2, h3, hI, h5, h6, h7, h8⟩ hne
    obtain ⟨hk, hrk, hdrop⟩ := drop_eq_cons h1
    refine ⟨k + 1, v, E, hdrop, by omega, h3, hI, h5, h6, ?_, fun i hi hik hin => h8 i hi (by omega) hin⟩
    intro i hi hik hin
    by_cases hik' : i = k
    · subst hik'; rw [hrk, hne] at hin; exact Bool.noConfusion hin
    · exact h7 i hi (by omega) hin

end

section
variable {t : Nat} {buf : Bytes} {sl : List SLine} {cfg : Config}

/-- the context delivered after the last block, run from the shadow log: afterwards the log is the model's -/
theorem trailing_shadow (L : Layout t buf sl) (ht : cfg.lineTerm.asByte = t) (hbin : cfg.binary = .none)
    (hpt0 : cfg.passthru = true → cfg.afterContext = 0) (hlen : buf.length = offsetAt sl sl.length)
    {v : Nat} {st : Core} (hI : Inv cfg sl v st) (hv : v ≤ sl.length) (hu : Unsel sl v sl.length)
    (hacl : AclOK cfg.afterContext sl v st.afterContextLeft) :
    ∃ st2, (if cfg.passthru then otherContextByLine cfg allCont buf st buf.length
            else afterContextByLine cfg allCont buf st buf.length) = (st2, .ok true) ∧
      st2.events = Event.begin :: (List.range sl.length).flatMap (lineEvents cfg sl) ∧ st2.pos = st.pos ∧
      st2.binaryByteOffset = none := by
  cases hp : cfg.passthru with
  | true =>
    have hA := hpt0 hp
    have hacl0 : st.afterContextLeft = 0 := by
      have h1 := hacl v (Nat.le_refl v) (fun j h1 h2 => by omega)
      rw [hA, afterWin_zero] at h1
      apply Classical.byContradiction; intro hne
      exact Bool.noConfusion (h1.mpr (by omega))
    have hk : ∀ j, v ≤ j → j < v + (sl.length - v) → kindAt cfg sl j = some (.ctx .other) :=
      fun j h1 h2 => kind_other hacl h1 (hu.mono (Nat.le_refl _) (by omega)) (by omega) hp
    obtain ⟨st1, e1, hI1, _, hf1⟩ := otherLoop_spec L ht hbin (sl.length - v) v st hI (by omega) hk
    have ee : v + (sl.length - v) = sl.length := by omega
    rw [ee] at hI1
    refine ⟨st1, ?_, hI1.ev, hf1.1, hI1.bin⟩
    simp only [if_true, otherContextByLine, hI.llv, ht, hlen, L.stepLines_index v sl.length hv (Nat.le_refl _), e1]
  | false =>
    obtain ⟨st1, e1, hI1, hacl1, haclok1, hf1⟩ := afterCtx_step L ht hbin hI hv (Nat.le_refl _) hu hacl
    refine ⟨st1, ?_, ?_, hf1.1, hI1.bin⟩
    · simp only [Bool.false_eq_true, if_false, hlen, e1]
    · rw [hI1.ev]
      congr 1
      symm
      apply flatMap_skip cfg sl _ sl.length (by omega)
      intro j h1 h2
      exact kind_none haclok1 h1 (hu.mono (by omega) (Nat.le_refl _)) h2 (by rw [hacl1]; omega) hp
        (Or.inr (Nat.le_refl _))

end

/-- the model's events do not depend on `stop_on_nonmatch` -/
theorem lineEvents_son (cfg : Config) (sl : List SLine) :
    lineEvents { cfg with stopOnNonmatch := false } sl = lineEvents cfg sl := by
  funext i; rfl

theorem mlSpec_noinv (cfg : Config) (m : MatcherI) (inp : Bytes) (hinv : cfg.invertMatch = false) :
    mlSpec cfg m inp = coalesce (grepSpecLines { cfg with stopOnNonmatch := false } (mlLines cfg m inp)) := by
  cases cfg
  dsimp only at hinv
  subst hinv
  rfl

theorem effective_son (cfg : Config) (sl : List SLine) : effective { cfg with stopOnNonmatch := false } sl = sl := by
  simp [effective]

/-- **Multi-line search with context, passthru and line numbers** (no inversion, binary detection off): for a
matcher whose spans lie inside the haystack at or after the search position, the sink is told exactly `mlSpec`. -/
theorem multiLine_ctx (cfg : Config) (m : MatcherI) (inp : Bytes) (hinv : cfg.invertMatch = false)
    (hbin : cfg.binary = .none) (hpt0 : cfg.passthru = true → cfg.afterContext = 0) (hs : SpanSane m inp) :
    (multiLine cfg m allCont inp).events = mlSpec cfg m inp ∧ (multiLine cfg m allCont inp).result = .ok () := by
  have G := geo_of_sane cfg hs
  have hB := mli_blockInv (cfg := cfg) G rfl hbin hpt0
  generalize hsl : mlLines cfg m inp = sl at G hB
  generalize htot : totalBlocks cfg m inp = total at G hB
  have hfull : fullFrom cfg m inp (inp.length + 1) { core := st0 cfg } = total := by
    rw [← htot]
    unfold fullFrom pendingList totalBlocks mlMatches
    simp [st0, Core.new]
  have hI0 : Inv cfg sl 0 (withE (st0 cfg) [Event.begin]) :=
    ⟨by simp [withE, st0, Core.new, off_zero], by simp [withE, st0, Core.new], fun h => by omega,
      ⟨0, Nat.le_refl _, fun _ => by simp [withE, st0, Core.new, off_zero], by simp [withE, st0, Core.new, lineNo]⟩,
      rfl, rfl, by simp [withE]⟩
  have h0 : MLI cfg sl total (fullFrom cfg m inp (inp.length + 1) { core := st0 cfg }) (st0 cfg) :=
    ⟨0, 0, [Event.begin], by rw [hfull]; rfl, Nat.zero_le _, Nat.zero_le _, hI0, by simp [st0, coalesce],
      aclOK_init _ _, fun i _ h _ => by omega, fun _ _ _ _ => Or.inl rfl⟩
  obtain ⟨st', e, hI', hpos⟩ := mlRun_inv (m := m) hinv hB hs (inp.length + 1) { core := st0 cfg } h0
  have hpos' : st'.pos = inp.length := hpos (Nat.zero_le _) (by simp [st0, Core.new])
  obtain ⟨k, v, E, hdrop, hk, hv, hI, hev, hacl, h7, _⟩ := hI'
  have hkl : k = total.length := by
    have := congrArg List.length hdrop
    simp at this; omega
  have hu : Unsel sl v sl.length := by
    intro j hj1 hj2
    apply G.not_covered hj2
    intro x hx hxn
    obtain ⟨i, hi, rfl⟩ := List.getElem_of_mem hx
    left; exact Nat.le_trans (h7 i hi (by omega) hxn) (off_mono sl hj1)
  obtain ⟨st2, e2, hev2, hp2, hb2⟩ := trailing_shadow G.L rfl hbin hpt0 G.hlen hI hv hu hacl
  have htrail : mlTrailing cfg allCont inp st' = (withE st2 (coalesce st2.events), .ok ()) := by
    unfold mlTrailing
    cases hp : cfg.passthru with
    | true =>
      rw [hp] at e2; simp only [if_true] at e2 ⊢
      rw [agn_real (otherContextByLine_agn (buf := inp) hbin inp.length) e2 hI.bin hev]
    | false =>
      rw [hp] at e2; simp only [Bool.false_eq_true, if_false] at e2 ⊢
      rw [agn_real (afterContextByLine_agn (buf := inp) hbin inp.length) e2 hI.bin hev]
  have hpre : mlPre cfg m allCont inp = (withE st2 (coalesce st2.events), .ok ()) := by
    unfold mlPre
    rw [begin_allCont]
    simp only [if_true]
    rw [detectBinary_none hbin rfl]
    dsimp only
    unfold mlRun at e
    rcases hl : mlLoop cfg m allCont inp (inp.length + 1) { core := st0 cfg } with ⟨s2, kg | _⟩
    · rw [hl] at e
      dsimp only at e ⊢
      rw [e]
      exact htrail
    · rw [hl] at e
      simp at e
  have hspec : mlSpec cfg m inp = coalesce (Event.begin :: (List.range sl.length).flatMap (lineEvents cfg sl)) ++
      [Event.finish inp.length none] := by
    rw [mlSpec_noinv cfg m inp hinv, hsl, grepSpecLines_eq, effective_son, lineEvents_son, ← G.hlen]
    apply coalesce_append_ctx
    intro ev hev; simp at hev; subst hev; rfl
  constructor
  · rw [multiLine_eq, hpre, hspec]
    simp [finishRun, finish_eq, Run.events, byteCount, ite_self, hb2, hev2, hp2, hpos', withE]
  · rw [multiLine_eq, hpre]
    simp [finishRun, finish_eq, allCont]

end RgVerif.Searcher
