import RgVerif.Model.Glue
/-
Simulation between a run under an arbitrary sink script `σ` and the run under the all-continue sink
(property C16): as long as the sink has only answered `Ok(true)` the two runs are identical; at the
first other answer (callback index `k`) the `σ`-run makes no further callback and reports
stop / error to its caller, while the all-continue run only ever extends the log.
-/
namespace RgVerif.Searcher
open RgVerif RgVerif.Matcher RgVerif.Lines

/-- `k` is the first callback index at which the sink does not answer `Ok(true)`. -/
structure FirstStop (σ : Script) (k : Nat) : Prop where
  pre : ∀ i, i < k → σ i = .cont
  at_ : σ k ≠ .cont

/-- what a function reports upwards when the sink answered `r ≠ cont`: the error, or its own "stop" value -/
def haltRes {β : Type} (sv : β) : Resp → Res β
  | .err => .err
  | _ => .ok sv

/-- `r1` = outcome under `σ`, `r2` = outcome under the all-continue sink, from the same state. -/
def Sim {β : Type} (σ : Script) (k : Nat) (sv : β) (r1 r2 : Core × Res β) : Prop :=
  (r1 = r2 ∧ r1.1.events.length ≤ k) ∨
  (r1.1.events.length = k + 1 ∧ r1.1.events <+: r2.1.events ∧ r1.2 = haltRes sv (σ k))

theorem Sim.sync {β : Type} {σ : Script} {k : Nat} {sv : β} {r : Core × Res β} (h : r.1.events.length ≤ k) :
    Sim σ k sv r r := Or.inl ⟨rfl, h⟩

/-- `Resp` as a `Result<bool, _>` -/
def respRes : Resp → Res Bool
  | .cont => .ok true
  | .stop => .ok false
  | .err => .err

theorem emit_eq (σ : Script) (st : Core) (ev : Event) :
    emit σ st ev = ({ st with events := st.events ++ [ev] }, respRes (σ st.events.length)) := by
  unfold emit
  cases h : σ st.events.length <;> simp [respRes, h]

theorem emit_mono (σ : Script) (st : Core) (ev : Event) : st.events <+: (emit σ st ev).1.events := by
  rw [emit_eq]; simp

theorem emit_sim {σ : Script} {k : Nat} (hk : FirstStop σ k) (st : Core) (ev : Event)
    (hl : st.events.length ≤ k) : Sim σ k false (emit σ st ev) (emit allCont st ev) := by
  rw [emit_eq, emit_eq]
  by_cases hlt : st.events.length < k
  · left
    rw [hk.pre _ hlt]
    exact ⟨rfl, by simp; omega⟩
  · right
    have he : st.events.length = k := by omega
    have hne := hk.at_
    rw [he]
    refine ⟨by simp [he], by simp, ?_⟩
    cases hσ : σ k with
    | cont => exact absurd hσ hne
    | stop => rfl
    | err => rfl


/-- Well-behaved pair of outcomes from start state `st`: the all-continue run only extends the log and
does not fail, and if no refusal happened before `st` the two outcomes are in simulation. -/
def WB {β : Type} (σ : Script) (k : Nat) (sv : β) (st : Core) (r1 r2 : Core × Res β) : Prop :=
  st.events <+: r2.1.events ∧ (st.events.length ≤ k → Sim σ k sv r1 r2) ∧ r2.2 ≠ .err

theorem WB.pure_ok {β : Type} {σ : Script} {k : Nat} {sv : β} {st : Core} (st' : Core) (b : β)
    (h : st'.events = st.events) : WB σ k sv st (st', .ok b) (st', .ok b) :=
  ⟨by rw [h]; exact List.prefix_refl _, fun hl => Sim.sync (by rw [h]; exact hl), by simp⟩

theorem WB.of_events_eq {β : Type} {σ : Script} {k : Nat} {sv : β} {st st' : Core} {r1 r2 : Core × Res β}
    (he : st'.events = st.events) (h : WB σ k sv st' r1 r2) : WB σ k sv st r1 r2 := by
  unfold WB at *; rw [he] at h; exact h

theorem emit_wb {σ : Script} {k : Nat} (hk : FirstStop σ k) (st : Core) (ev : Event) :
    WB σ k false st (emit σ st ev) (emit allCont st ev) :=
  ⟨emit_mono _ _ _, emit_sim hk st ev, by rw [emit_eq]; simp [respRes, allCont]⟩

/-- Sequencing: the caller inspects the callee's outcome `x` through `F`. -/
theorem WB.bind {α β : Type} {σ : Script} {k : Nat} (hk : FirstStop σ k) {sva : α} {svb : β} {st : Core}
    {x1 x2 : Core × Res α} (hx : WB σ k sva st x1 x2) {F1 F2 : Core × Res α → Core × Res β}
    (hK : ∀ st' a, WB σ k svb st' (F1 (st', .ok a)) (F2 (st', .ok a)))
    (herr : ∀ st', F1 (st', .err) = (st', .err) ∧ F2 (st', .err) = (st', .err))
    (hstop : ∀ st', F1 (st', .ok sva) = (st', .ok svb)) :
    WB σ k svb st (F1 x1) (F2 x2) := by
  have hmono2 : x2.1.events <+: (F2 x2).1.events := by
    rcases x2 with ⟨st2, a | _⟩
    · exact (hK st2 a).1
    · rw [(herr st2).2]; exact List.prefix_refl _
  have hne2 : (F2 x2).2 ≠ .err := by
    rcases x2 with ⟨st2, a | _⟩
    · exact (hK st2 a).2.2
    · exact absurd rfl hx.2.2
  refine ⟨hx.1.trans hmono2, fun hl => ?_, hne2⟩
  rcases hx.2.1 hl with ⟨rfl, hlen⟩ | ⟨hlen, hpre, hres⟩
  · rcases x1 with ⟨st1, a | _⟩
    · exact (hK st1 a).2.1 hlen
    · rw [(herr st1).1, (herr st1).2]; exact Sim.sync hlen
  · right
    rcases x1 with ⟨s, r1⟩
    simp only at hres hlen hpre
    subst hres
    cases hσ : σ k with
    | cont => exact absurd hσ hk.at_
    | stop =>
      have : haltRes sva Resp.stop = Res.ok sva := rfl
      rw [this, hstop s]
      exact ⟨hlen, hpre.trans hmono2, rfl⟩
    | err =>
      have : haltRes sva Resp.err = (Res.err : Res α) := rfl
      rw [this, (herr s).1]
      exact ⟨hlen, hpre.trans hmono2, rfl⟩

theorem WB.bind' {α β : Type} {σ : Script} {k : Nat} (hk : FirstStop σ k) {sva : α} {svb : β} {st : Core}
    {y1 y2 x1 x2 : Core × Res α} (e1 : y1 = x1) (e2 : y2 = x2) (hy : WB σ k sva st y1 y2)
    {F1 F2 : Core × Res α → Core × Res β}
    (hK : ∀ st' a, WB σ k svb st' (F1 (st', .ok a)) (F2 (st', .ok a)))
    (herr : ∀ st', F1 (st', .err) = (st', .err) ∧ F2 (st', .err) = (st', .err))
    (hstop : ∀ st', F1 (st', .ok sva) = (st', .ok svb)) :
    WB σ k svb st (F1 x1) (F2 x2) := by
  subst e1 e2; exact WB.bind hk hy hK herr hstop

/-- `sim_bind h` : the goal is `WB … (match g σ … with …) (match g allCont … with …)` and `h` is the
well-behavedness of the callee `g`; leaves the continuation goal `∀ st' a, WB …`. -/
syntax "sim_bind " term " , " term " , " term : tactic
macro_rules
  | `(tactic| sim_bind $h , $c1 , $c2) =>
    `(tactic| (try dsimp only
               generalize hx1 : $c1 = x1
               generalize hx2 : $c2 = x2
               apply WB.bind' (by assumption) hx1 hx2 $h
               case herr => exact fun _ => ⟨rfl, rfl⟩
               case hstop => exact fun _ => rfl))

section
variable {σ : Script} {k : Nat} (hk : FirstStop σ k)
include hk

theorem binaryData_wb (st : Core) (off : Nat) :
    WB σ k false st (binaryData σ st off) (binaryData allCont st off) := emit_wb hk st _

theorem begin_wb (st : Core) : WB σ k false st (begin σ st) (begin allCont st) := emit_wb hk st _

theorem detectBinary_wb (cfg : Config) (buf : Bytes) (range : Span) (st : Core) :
    WB σ k true st (detectBinary cfg σ buf range st) (detectBinary cfg allCont buf range st) := by
  unfold detectBinary
  split
  · exact WB.pure_ok _ _ rfl
  · split
    · exact WB.pure_ok _ _ rfl
    · split
      · rename_i i _
        apply WB.of_events_eq (st' := { st with binaryByteOffset := some (range.s + i) }) rfl
        sim_bind (binaryData_wb hk { st with binaryByteOffset := some (range.s + i) } (range.s + i)),
          (binaryData σ { st with binaryByteOffset := some (range.s + i) } (range.s + i)),
          (binaryData allCont { st with binaryByteOffset := some (range.s + i) } (range.s + i))
        intro st' a
        cases a
        · exact WB.pure_ok _ _ rfl
        · exact WB.pure_ok _ _ rfl
      · exact WB.pure_ok _ _ rfl

theorem binaryGuard_wb (cfg : Config) (buf : Bytes) (range : Span) (st : Core) :
    WB σ k true st (binaryGuard cfg σ buf range st) (binaryGuard cfg allCont buf range st) := by
  unfold binaryGuard
  split
  · exact detectBinary_wb hk cfg buf range st
  · exact WB.pure_ok _ _ rfl

theorem sinkBreakContext_wb (cfg : Config) (st : Core) (o : Nat) :
    WB σ k false st (sinkBreakContext cfg σ st o) (sinkBreakContext cfg allCont st o) := by
  unfold sinkBreakContext
  dsimp only
  split
  · exact WB.pure_ok _ _ rfl
  · exact emit_wb hk st _

omit hk in
theorem countLines_events (cfg : Config) (buf : Bytes) (st : Core) (u : Nat) :
    (countLines cfg buf st u).events = st.events := by
  unfold countLines; split
  · rfl
  · split <;> rfl

theorem sinkMatched_wb (cfg : Config) (buf : Bytes) (st : Core) (range : Span) :
    WB σ k false st (sinkMatched cfg σ buf st range) (sinkMatched cfg allCont buf st range) := by
  unfold sinkMatched
  sim_bind (binaryGuard_wb hk cfg buf range st), (binaryGuard cfg σ buf range st), (binaryGuard cfg allCont buf range st)
  intro st' a
  cases a
  · sim_bind (sinkBreakContext_wb hk cfg st' range.s), (sinkBreakContext cfg σ st' range.s),
      (sinkBreakContext cfg allCont st' range.s)
    intro st2 a
    cases a
    · exact WB.pure_ok _ _ rfl
    · apply WB.of_events_eq (st' := countLines cfg buf st2 range.s) (countLines_events _ _ _ _)
      sim_bind (emit_wb hk (countLines cfg buf st2 range.s) _), (emit σ _ _), (emit allCont _ _)
      intro st3 a
      cases a
      · exact WB.pure_ok _ _ rfl
      · exact WB.pure_ok _ _ rfl
  · exact WB.pure_ok _ _ rfl


theorem sinkBeforeContext_wb (cfg : Config) (buf : Bytes) (st : Core) (range : Span) :
    WB σ k false st (sinkBeforeContext cfg σ buf st range) (sinkBeforeContext cfg allCont buf st range) := by
  unfold sinkBeforeContext
  sim_bind (binaryGuard_wb hk cfg buf range st), (binaryGuard cfg σ buf range st), (binaryGuard cfg allCont buf range st)
  intro st' a
  cases a
  · apply WB.of_events_eq (st' := countLines cfg buf st' range.s) (countLines_events _ _ _ _)
    sim_bind (emit_wb hk (countLines cfg buf st' range.s) _), (emit σ _ _), (emit allCont _ _)
    intro st3 a
    cases a <;> exact WB.pure_ok _ _ rfl
  · exact WB.pure_ok _ _ rfl

theorem sinkAfterContext_wb (cfg : Config) (buf : Bytes) (st : Core) (range : Span) :
    WB σ k false st (sinkAfterContext cfg σ buf st range) (sinkAfterContext cfg allCont buf st range) := by
  unfold sinkAfterContext
  sim_bind (binaryGuard_wb hk cfg buf range st), (binaryGuard cfg σ buf range st), (binaryGuard cfg allCont buf range st)
  intro st' a
  cases a
  · apply WB.of_events_eq (st' := countLines cfg buf st' range.s) (countLines_events _ _ _ _)
    sim_bind (emit_wb hk (countLines cfg buf st' range.s) _), (emit σ _ _), (emit allCont _ _)
    intro st3 a
    cases a <;> exact WB.pure_ok _ _ rfl
  · exact WB.pure_ok _ _ rfl

theorem sinkOtherContext_wb (cfg : Config) (buf : Bytes) (st : Core) (range : Span) :
    WB σ k false st (sinkOtherContext cfg σ buf st range) (sinkOtherContext cfg allCont buf st range) := by
  unfold sinkOtherContext
  sim_bind (binaryGuard_wb hk cfg buf range st), (binaryGuard cfg σ buf range st), (binaryGuard cfg allCont buf range st)
  intro st' a
  cases a
  · apply WB.of_events_eq (st' := countLines cfg buf st' range.s) (countLines_events _ _ _ _)
    sim_bind (emit_wb hk (countLines cfg buf st' range.s) _), (emit σ _ _), (emit allCont _ _)
    intro st3 a
    cases a <;> exact WB.pure_ok _ _ rfl
  · exact WB.pure_ok _ _ rfl

theorem beforeLoop_wb (cfg : Config) (buf : Bytes) : ∀ (ls : List Span) (st : Core),
    WB σ k false st (beforeLoop cfg σ buf ls st) (beforeLoop cfg allCont buf ls st)
  | [], st => by rw [beforeLoop, beforeLoop]; exact WB.pure_ok _ _ rfl
  | line :: rest, st => by
    rw [beforeLoop, beforeLoop]
    sim_bind (sinkBreakContext_wb hk cfg st line.s), (sinkBreakContext cfg σ st line.s),
      (sinkBreakContext cfg allCont st line.s)
    intro st1 a
    cases a
    · exact WB.pure_ok _ _ rfl
    · sim_bind (sinkBeforeContext_wb hk cfg buf st1 line), (sinkBeforeContext cfg σ buf st1 line),
        (sinkBeforeContext cfg allCont buf st1 line)
      intro st2 a
      cases a
      · exact WB.pure_ok _ _ rfl
      · exact beforeLoop_wb cfg buf rest st2

theorem beforeContextByLine_wb (cfg : Config) (buf : Bytes) (st : Core) (upto : Nat) :
    WB σ k false st (beforeContextByLine cfg σ buf st upto) (beforeContextByLine cfg allCont buf st upto) := by
  unfold beforeContextByLine
  split
  · exact WB.pure_ok _ _ rfl
  · dsimp only
    split
    · exact WB.pure_ok _ _ rfl
    · exact beforeLoop_wb hk cfg buf _ st

theorem afterLoop_wb (cfg : Config) (buf : Bytes) : ∀ (ls : List Span) (st : Core),
    WB σ k false st (afterLoop cfg σ buf ls st) (afterLoop cfg allCont buf ls st)
  | [], st => by rw [afterLoop, afterLoop]; exact WB.pure_ok _ _ rfl
  | line :: rest, st => by
    rw [afterLoop, afterLoop]
    sim_bind (sinkAfterContext_wb hk cfg buf st line), (sinkAfterContext cfg σ buf st line),
      (sinkAfterContext cfg allCont buf st line)
    intro st1 a
    cases a
    · exact WB.pure_ok _ _ rfl
    · dsimp only
      split
      · exact WB.pure_ok _ _ rfl
      · exact afterLoop_wb cfg buf rest st1

theorem afterContextByLine_wb (cfg : Config) (buf : Bytes) (st : Core) (upto : Nat) :
    WB σ k false st (afterContextByLine cfg σ buf st upto) (afterContextByLine cfg allCont buf st upto) := by
  unfold afterContextByLine
  split
  · exact WB.pure_ok _ _ rfl
  · exact afterLoop_wb hk cfg buf _ st

theorem otherLoop_wb (cfg : Config) (buf : Bytes) : ∀ (ls : List Span) (st : Core),
    WB σ k false st (otherLoop cfg σ buf ls st) (otherLoop cfg allCont buf ls st)
  | [], st => by rw [otherLoop, otherLoop]; exact WB.pure_ok _ _ rfl
  | line :: rest, st => by
    rw [otherLoop, otherLoop]
    sim_bind (sinkOtherContext_wb hk cfg buf st line), (sinkOtherContext cfg σ buf st line),
      (sinkOtherContext cfg allCont buf st line)
    intro st1 a
    cases a
    · exact WB.pure_ok _ _ rfl
    · exact otherLoop_wb cfg buf rest st1

theorem otherContextByLine_wb (cfg : Config) (buf : Bytes) (st : Core) (upto : Nat) :
    WB σ k false st (otherContextByLine cfg σ buf st upto) (otherContextByLine cfg allCont buf st upto) := by
  unfold otherContextByLine
  exact otherLoop_wb hk cfg buf _ st

theorem matchedLoop_wb (cfg : Config) (buf : Bytes) : ∀ (ls : List Span) (st : Core),
    WB σ k false st (matchedLoop cfg σ buf ls st) (matchedLoop cfg allCont buf ls st)
  | [], st => by rw [matchedLoop, matchedLoop]; exact WB.pure_ok _ _ rfl
  | line :: rest, st => by
    rw [matchedLoop, matchedLoop]
    sim_bind (sinkMatched_wb hk cfg buf st line), (sinkMatched cfg σ buf st line),
      (sinkMatched cfg allCont buf st line)
    intro st1 a
    cases a
    · exact WB.pure_ok _ _ rfl
    · exact matchedLoop_wb cfg buf rest st1

end
end RgVerif.Searcher
