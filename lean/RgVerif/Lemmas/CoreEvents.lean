import RgVerif.Model.ReadByLine
/-
Every line a `Core` hands to its sink is a sub-slice of the buffer it was given — for every
matcher, every sink script, every configuration (used by C14: what the roll buffer hides, the sink
never sees).
-/
namespace RgVerif.Searcher
open RgVerif RgVerif.Matcher RgVerif.Lines

/-- the file bytes carried by a callback -/
def Event.lineBytes : Event → Bytes
  | .matched _ _ bs => bs
  | .context _ _ _ bs => bs
  | _ => []

/-- `st'` extends the log of `st` by callbacks whose lines consist of bytes of `buf` -/
def Ext (buf : Bytes) (st st' : Core) : Prop :=
  ∃ new, st'.events = st.events ++ new ∧ ∀ ev ∈ new, ∀ x ∈ ev.lineBytes, x ∈ buf

theorem Ext.refl (buf : Bytes) (st : Core) : Ext buf st st := ⟨[], by simp, by simp⟩

theorem Ext.of_events_eq {buf : Bytes} {st st' : Core} (h : st'.events = st.events) : Ext buf st st' :=
  ⟨[], by simp [h], by simp⟩

theorem Ext.trans {buf : Bytes} {a b c : Core} (h1 : Ext buf a b) (h2 : Ext buf b c) : Ext buf a c := by
  obtain ⟨n1, e1, p1⟩ := h1
  obtain ⟨n2, e2, p2⟩ := h2
  refine ⟨n1 ++ n2, by rw [e2, e1, List.append_assoc], ?_⟩
  intro ev hev
  simp only [List.mem_append] at hev
  cases hev with
  | inl h => exact p1 ev h
  | inr h => exact p2 ev h

/-- a later state with the same log -/
theorem Ext.same {buf : Bytes} {a b c : Core} (h1 : Ext buf a b) (h : c.events = b.events) : Ext buf a c :=
  h1.trans (Ext.of_events_eq h)

theorem mem_slice {buf : Bytes} {s e x : Nat} (h : x ∈ slice buf s e) : x ∈ buf := by
  unfold slice at h
  exact List.mem_of_mem_take (List.mem_of_mem_drop h)

theorem emit_events (σ : Script) (st : Core) (ev : Event) : (emit σ st ev).1.events = st.events ++ [ev] := by
  unfold emit
  dsimp only
  split <;> rfl

theorem emit_ext (σ : Script) (buf : Bytes) (st : Core) (ev : Event) (h : ∀ x ∈ ev.lineBytes, x ∈ buf) :
    Ext buf st (emit σ st ev).1 :=
  ⟨[ev], emit_events σ st ev, by simpa using h⟩

theorem countLines_events' (cfg : Config) (buf : Bytes) (st : Core) (u : Nat) :
    (countLines cfg buf st u).events = st.events := by
  unfold countLines
  split
  · rfl
  · split <;> rfl

theorem detectBinary_ext (cfg : Config) (σ : Script) (buf : Bytes) (r : Span) (st : Core) :
    Ext buf st (detectBinary cfg σ buf r st).1 := by
  unfold detectBinary
  split
  · exact Ext.refl _ _
  · split
    · exact Ext.refl _ _
    · split
      · rename_i i _
        have he := emit_ext σ buf { st with binaryByteOffset := some (r.s + i) } (.binaryData (r.s + i))
          (by simp [Event.lineBytes])
        have he' : Ext buf st (emit σ { st with binaryByteOffset := some (r.s + i) } (.binaryData (r.s + i))).1 :=
          (Ext.of_events_eq (st' := { st with binaryByteOffset := some (r.s + i) }) rfl).trans he
        simp only [binaryData]
        generalize emit σ { st with binaryByteOffset := some (r.s + i) } (.binaryData (r.s + i)) = g at he' ⊢
        obtain ⟨s1, r1⟩ := g
        cases r1 with
        | err => exact he'
        | ok b => cases b <;> exact he'
      · exact Ext.refl _ _

theorem binaryGuard_ext (cfg : Config) (σ : Script) (buf : Bytes) (r : Span) (st : Core) :
    Ext buf st (binaryGuard cfg σ buf r st).1 := by
  unfold binaryGuard
  split
  · exact detectBinary_ext _ _ _ _ _
  · exact Ext.refl _ _

theorem sinkBreakContext_ext (cfg : Config) (σ : Script) (buf : Bytes) (st : Core) (o : Nat) :
    Ext buf st (sinkBreakContext cfg σ st o).1 := by
  unfold sinkBreakContext
  dsimp only
  split
  · exact Ext.refl _ _
  · exact emit_ext σ buf st .contextBreak (by simp [Event.lineBytes])

/-- the common tail of the four `sink_*` functions: count lines, emit a line of `buf`, update fields -/
theorem emit_line_ext (cfg : Config) (σ : Script) (buf : Bytes) (s1 : Core) (r : Span)
    (mk : Option Nat → Nat → Bytes → Event) (hmk : ∀ a b c, (mk a b c).lineBytes = c) :
    Ext buf s1 (emit σ (countLines cfg buf s1 r.s)
      (mk (countLines cfg buf s1 r.s).lineNumber ((countLines cfg buf s1 r.s).absoluteByteOffset + r.s)
        (slice buf r.s r.e))).1 := by
  refine (Ext.of_events_eq (countLines_events' cfg buf s1 r.s)).trans (emit_ext σ buf _ _ ?_)
  intro x hx
  rw [hmk] at hx
  exact mem_slice hx

theorem sinkMatched_ext (cfg : Config) (σ : Script) (buf : Bytes) (st : Core) (r : Span) :
    Ext buf st (sinkMatched cfg σ buf st r).1 := by
  unfold sinkMatched
  have hg := binaryGuard_ext cfg σ buf r st
  generalize binaryGuard cfg σ buf r st = g at hg ⊢
  obtain ⟨s1, r1⟩ := g
  cases r1 with
  | err => exact hg
  | ok b =>
    cases b with
    | true => exact hg
    | false =>
      dsimp only
      have hb := sinkBreakContext_ext cfg σ buf s1 r.s
      generalize sinkBreakContext cfg σ s1 r.s = g2 at hb ⊢
      obtain ⟨s2, r2⟩ := g2
      have h2 : Ext buf st s2 := hg.trans hb
      cases r2 with
      | err => exact h2
      | ok b2 =>
        cases b2 with
        | false => exact h2
        | true =>
          dsimp only
          have he := emit_line_ext cfg σ buf s2 r Event.matched (fun _ _ _ => rfl)
          generalize emit σ (countLines cfg buf s2 r.s) _ = g3 at he ⊢
          obtain ⟨s3, r3⟩ := g3
          have h3 : Ext buf st s3 := h2.trans he
          cases r3 with
          | err => exact h3
          | ok b3 => cases b3 <;> first | exact h3 | exact h3.same rfl

theorem sinkCtx_ext_aux (cfg : Config) (σ : Script) (buf : Bytes) (st : Core) (r : Span) (k : CtxKind)
    (upd : Core → Core) (hupd : ∀ s, (upd s).events = s.events) :
    Ext buf st
      (match binaryGuard cfg σ buf r st with
        | (st, .err) => (st, Res.err)
        | (st, .ok true) => (st, .ok false)
        | (st, .ok false) =>
          match emit σ (countLines cfg buf st r.s)
            (.context k (countLines cfg buf st r.s).lineNumber ((countLines cfg buf st r.s).absoluteByteOffset + r.s)
              (slice buf r.s r.e)) with
          | (st, .ok true) => (upd st, .ok true)
          | (st, r) => (st, r)).1 := by
  have hg := binaryGuard_ext cfg σ buf r st
  generalize binaryGuard cfg σ buf r st = g at hg ⊢
  obtain ⟨s1, r1⟩ := g
  cases r1 with
  | err => exact hg
  | ok b =>
    cases b with
    | true => exact hg
    | false =>
      dsimp only
      have he := emit_line_ext cfg σ buf s1 r (Event.context k) (fun _ _ _ => rfl)
      generalize emit σ (countLines cfg buf s1 r.s) _ = g3 at he ⊢
      obtain ⟨s3, r3⟩ := g3
      have h3 : Ext buf st s3 := hg.trans he
      cases r3 with
      | err => exact h3
      | ok b3 =>
        cases b3 with
        | false => exact h3
        | true => exact h3.same (hupd s3)

theorem sinkBeforeContext_ext (cfg : Config) (σ : Script) (buf : Bytes) (st : Core) (r : Span) :
    Ext buf st (sinkBeforeContext cfg σ buf st r).1 :=
  sinkCtx_ext_aux cfg σ buf st r .before (fun s => { s with lastLineVisited := r.e, hasSunk := true }) (fun _ => rfl)

theorem sinkAfterContext_ext (cfg : Config) (σ : Script) (buf : Bytes) (st : Core) (r : Span) :
    Ext buf st (sinkAfterContext cfg σ buf st r).1 :=
  sinkCtx_ext_aux cfg σ buf st r .after
    (fun s => { s with lastLineVisited := r.e, afterContextLeft := s.afterContextLeft - 1, hasSunk := true })
    (fun _ => rfl)

theorem sinkOtherContext_ext (cfg : Config) (σ : Script) (buf : Bytes) (st : Core) (r : Span) :
    Ext buf st (sinkOtherContext cfg σ buf st r).1 :=
  sinkCtx_ext_aux cfg σ buf st r .other (fun s => { s with lastLineVisited := r.e, hasSunk := true }) (fun _ => rfl)

/-- `match g with | (st, .ok true) => k st | (st, r) => (st, r)`: extension composes -/
theorem bind_ext {buf : Bytes} {st : Core} (g : Core × Res Bool) (k : Core → Core × Res Bool)
    (hg : Ext buf st g.1) (hk : ∀ s, Ext buf s (k s).1) :
    Ext buf st (match g with
      | (st, .ok true) => k st
      | (st, r) => (st, r)).1 := by
  obtain ⟨s1, r1⟩ := g
  cases r1 with
  | err => exact hg
  | ok b =>
    cases b with
    | false => exact hg
    | true => exact hg.trans (hk s1)

theorem beforeLoop_ext (cfg : Config) (σ : Script) (buf : Bytes) (ls : List Span) :
    ∀ st, Ext buf st (beforeLoop cfg σ buf ls st).1 := by
  induction ls with
  | nil => intro st; exact Ext.refl _ _
  | cons l ls ih =>
    intro st
    unfold beforeLoop
    exact bind_ext _ _ (sinkBreakContext_ext cfg σ buf st l.s)
      (fun s => bind_ext _ _ (sinkBeforeContext_ext cfg σ buf s l) ih)

theorem beforeContextByLine_ext (cfg : Config) (σ : Script) (buf : Bytes) (st : Core) (u : Nat) :
    Ext buf st (beforeContextByLine cfg σ buf st u).1 := by
  unfold beforeContextByLine
  split
  · exact Ext.refl _ _
  · dsimp only
    split
    · exact Ext.refl _ _
    · exact beforeLoop_ext _ _ _ _ _

theorem afterLoop_ext (cfg : Config) (σ : Script) (buf : Bytes) (ls : List Span) :
    ∀ st, Ext buf st (afterLoop cfg σ buf ls st).1 := by
  induction ls with
  | nil => intro st; exact Ext.refl _ _
  | cons l ls ih =>
    intro st
    unfold afterLoop
    refine bind_ext _ (fun s => if s.afterContextLeft == 0 then (s, .ok true) else afterLoop cfg σ buf ls s)
      (sinkAfterContext_ext cfg σ buf st l) ?_
    intro s
    split
    · exact Ext.refl _ _
    · exact ih s

theorem afterContextByLine_ext (cfg : Config) (σ : Script) (buf : Bytes) (st : Core) (u : Nat) :
    Ext buf st (afterContextByLine cfg σ buf st u).1 := by
  unfold afterContextByLine
  split
  · exact Ext.refl _ _
  · exact afterLoop_ext _ _ _ _ _

theorem matchedLoop_ext (cfg : Config) (σ : Script) (buf : Bytes) (ls : List Span) :
    ∀ st, Ext buf st (matchedLoop cfg σ buf ls st).1 := by
  induction ls with
  | nil => intro st; exact Ext.refl _ _
  | cons l ls ih =>
    intro st
    unfold matchedLoop
    exact bind_ext _ _ (sinkMatched_ext cfg σ buf st l) ih

theorem slowLoop_ext (cfg : Config) (m : MatcherI) (σ : Script) (buf : Bytes) (ls : List Span) :
    ∀ st, Ext buf st (slowLoop cfg m σ buf ls st).1 := by
  induction ls with
  | nil => intro st; exact Ext.refl _ _
  | cons l ls ih =>
    intro st
    unfold slowLoop
    dsimp only
    refine bind_ext _ (fun s => if (cfg.stopOnNonmatch && !(((m.shortestMatch (withoutTerminator (slice buf l.s l.e) cfg.lineTerm)).isSome) != cfg.invertMatch) && s.hasMatched) = true then (s, .ok false) else slowLoop cfg m σ buf ls s) ?_ ?_
    · split
      · exact (Ext.of_events_eq (st' := { st with pos := l.e, hasMatched := true }) rfl).trans
          (bind_ext _ _ (beforeContextByLine_ext cfg σ buf _ l.s) (fun s => sinkMatched_ext cfg σ buf s l))
      · split
        · exact (Ext.of_events_eq (st' := { st with pos := l.e }) rfl).trans (sinkAfterContext_ext cfg σ buf _ l)
        · split
          · exact (Ext.of_events_eq (st' := { st with pos := l.e }) rfl).trans (sinkOtherContext_ext cfg σ buf _ l)
          · exact Ext.of_events_eq rfl
    · intro s
      split
      · exact Ext.refl _ _
      · exact ih s

theorem matchByLineSlow_ext (cfg : Config) (m : MatcherI) (σ : Script) (buf : Bytes) (st : Core) :
    Ext buf st (matchByLineSlow cfg m σ buf st).1 :=
  slowLoop_ext _ _ _ _ _ _

theorem matchByLineFastInvert_ext (cfg : Config) (m : MatcherI) (σ : Script) (buf : Bytes) (st : Core) :
    Ext buf st (matchByLineFastInvert cfg m σ buf st).1 := by
  unfold matchByLineFastInvert
  -- the two shapes of the first `let`
  have key : ∀ (im : Span) (s0 : Core), s0.events = st.events →
      Ext buf st (if im.e - im.s == 0 then (s0, Res.ok true)
        else
          match afterContextByLine cfg σ buf { s0 with hasMatched := true } im.s with
          | (st, .ok true) =>
            match beforeContextByLine cfg σ buf st im.s with
            | (st, .ok true) => matchedLoop cfg σ buf (stepLines cfg.lineTerm.asByte buf im.s im.e) st
            | (st, r) => (st, r)
          | (st, r) => (st, r)).1 := by
    intro im s0 h0
    split
    · exact Ext.of_events_eq h0
    · refine (Ext.of_events_eq (st' := { s0 with hasMatched := true }) h0).trans ?_
      exact bind_ext _ _ (afterContextByLine_ext cfg σ buf _ im.s)
        (fun s => bind_ext _ _ (beforeContextByLine_ext cfg σ buf s im.s) (fun s2 => matchedLoop_ext cfg σ buf _ s2))
  cases findByLineFast cfg m buf st with
  | none => exact key ⟨st.pos, buf.length⟩ { st with pos := buf.length } rfl
  | some line => exact key ⟨st.pos, line.s⟩ { st with pos := line.e } rfl

theorem fastLoop_ext (cfg : Config) (m : MatcherI) (σ : Script) (buf : Bytes) (fuel : Nat) :
    ∀ st, Ext buf st (fastLoop cfg m σ buf fuel st).1 := by
  induction fuel with
  | zero => intro st; exact Ext.refl _ _
  | succ fuel ih =>
    intro st
    unfold fastLoop
    split
    · exact Ext.refl _ _
    · split
      · exact Ext.refl _ _
      · split
        · have hg := matchByLineFastInvert_ext cfg m σ buf st
          generalize matchByLineFastInvert cfg m σ buf st = g at hg ⊢
          obtain ⟨s1, r1⟩ := g
          cases r1 with
          | err => exact hg
          | ok b =>
            cases b with
            | false => exact hg
            | true => exact hg.trans (ih s1)
        · cases hf : findByLineFast cfg m buf st with
          | none => exact Ext.refl _ _
          | some line =>
            dsimp only
            have hctx : Ext buf st
                (if cfg.maxContext > 0 then
                  match afterContextByLine cfg σ buf { st with hasMatched := true } line.s with
                  | (st, .ok true) => beforeContextByLine cfg σ buf st line.s
                  | (st, r) => (st, r)
                else ({ st with hasMatched := true }, Res.ok true)).1 := by
              split
              · exact (Ext.of_events_eq (st' := { st with hasMatched := true }) rfl).trans
                  (bind_ext _ _ (afterContextByLine_ext cfg σ buf _ line.s)
                    (fun s => beforeContextByLine_ext cfg σ buf s line.s))
              · exact Ext.of_events_eq rfl
            generalize (if cfg.maxContext > 0 then
                  match afterContextByLine cfg σ buf { st with hasMatched := true } line.s with
                  | (st, .ok true) => beforeContextByLine cfg σ buf st line.s
                  | (st, r) => (st, r)
                else ({ st with hasMatched := true }, Res.ok true)) = g at hctx ⊢
            obtain ⟨s1, r1⟩ := g
            cases r1 with
            | err => exact hctx
            | ok b =>
              cases b with
              | false => exact hctx
              | true =>
                dsimp only
                have hm := sinkMatched_ext cfg σ buf { s1 with pos := line.e } line
                have hm' : Ext buf st (sinkMatched cfg σ buf { s1 with pos := line.e } line).1 :=
                  (hctx.same (c := { s1 with pos := line.e }) rfl).trans hm
                generalize sinkMatched cfg σ buf { s1 with pos := line.e } line = g2 at hm' ⊢
                obtain ⟨s2, r2⟩ := g2
                cases r2 with
                | err => exact hm'
                | ok b2 =>
                  cases b2 with
                  | false => exact hm'
                  | true => exact hm'.trans (ih s2)

theorem matchByLineFast_ext (cfg : Config) (m : MatcherI) (σ : Script) (buf : Bytes) (st : Core) :
    Ext buf st (matchByLineFast cfg m σ buf st).1 := by
  unfold matchByLineFast
  have hg := fastLoop_ext cfg m σ buf (buf.length + 1) st
  generalize fastLoop cfg m σ buf (buf.length + 1) st = g at hg ⊢
  obtain ⟨s1, r1⟩ := g
  cases r1 with
  | err => exact hg
  | ok o =>
    cases o with
    | some r => exact hg
    | none =>
      dsimp only
      have ha := afterContextByLine_ext cfg σ buf s1 buf.length
      generalize afterContextByLine cfg σ buf s1 buf.length = g2 at ha ⊢
      obtain ⟨s2, r2⟩ := g2
      have h2 : Ext buf st s2 := hg.trans ha
      cases r2 with
      | err => exact h2
      | ok b => cases b <;> first | exact h2 | exact h2.same rfl

/-- **Whatever `match_by_line` tells the sink about lines, the lines are slices of the buffer.** -/
theorem matchByLine_ext (cfg : Config) (m : MatcherI) (σ : Script) (buf : Bytes) (st : Core) :
    Ext buf st (matchByLine cfg m σ buf st).1 := by
  unfold matchByLine
  split
  · have hg := matchByLineFast_ext cfg m σ buf st
    generalize matchByLineFast cfg m σ buf st = g at hg ⊢
    obtain ⟨s1, r1⟩ := g
    cases r1 with
    | err => exact hg
    | ok r =>
      cases r with
      | switchToSlow => exact hg.trans (matchByLineSlow_ext cfg m σ buf s1)
      | continue_ => exact hg
      | stop => exact hg
  · exact matchByLineSlow_ext _ _ _ _ _

theorem roll_events (cfg : Config) (buf : Bytes) (st : Core) : (roll cfg buf st).1.events = st.events := by
  unfold roll
  exact countLines_events' _ _ _ _

end RgVerif.Searcher
