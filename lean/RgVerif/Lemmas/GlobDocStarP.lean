import RgVerif.Lemmas.GlobDocClass
/-
C12_doc for mixtures of `**` and bracket classes: globs of the form  [`**/`] P₀ (`/**/` Pᵢ)* [`/**`]  where every
Pᵢ is a sequence of wildcard runs and classes (`Piece`s).  Subsumes the `**` grammar (every Pᵢ a single run) and
the class grammar (no `**`).
-/
namespace RgVerif.Glob
open RgVerif RgVerif.GlobDoc

/-! ### the parser and the lexer run through pieces that are followed by more input -/

theorem piecesText_append_head (be : Bool) (g : List Nat) (ps : List Piece) (rest : List Nat)
    (h : piecesOk be (.run g :: ps) = true) (hrest : rest.head? ≠ some 42) :
    (piecesText ps ++ rest).head? ≠ some 42 := by
  cases ps with
  | nil => simpa [piecesText] using hrest
  | cons p ps' =>
    cases p with
    | run g' => simp [piecesOk] at h
    | cls s => simp [piecesText, Piece.text]

theorem parseLoop_pieces_pre (o : Opts) (ps : List Piece) (rest : List Nat) (hok : piecesOk o.be ps = true)
    (hrest : rest.head? ≠ some 42) (fuel : Nat) (st : PState) (hb : st.branches = [])
    (hf : (piecesText ps ++ rest).length < fuel) :
    ∃ fuel' cur, rest.length < fuel' ∧
      parseLoop o fuel st (piecesText ps ++ rest) =
        parseLoop o fuel' { outer := st.outer ++ (piecesToks o.be ps).map Token.s, branches := [], cur := cur } rest := by
  induction ps generalizing fuel st with
  | nil =>
    refine ⟨fuel, st.cur, by simpa [piecesText] using hf, ?_⟩
    simp only [piecesText, piecesToks, List.flatMap_nil, List.nil_append, List.map_nil, List.append_nil]
    cases st; simp_all
  | cons p ps ih =>
    have hps := piecesOk_tail o.be p ps hok
    rw [piecesText_cons, List.append_assoc] at hf ⊢
    rw [piecesToks_cons]
    cases p with
    | run g =>
      simp only [Piece.text, Piece.toks] at hf ⊢
      obtain ⟨fuel1, cur1, hf1, hrec1⟩ := parseLoop_simple_pre o g (piecesText ps ++ rest)
        (piecesOk_run o.be g ps hok) (piecesText_append_head o.be g ps rest hok hrest) fuel st hb hf
      obtain ⟨fuel2, cur2, hf2, hrec2⟩ := ih hps fuel1
        { outer := st.outer ++ (simpleToks o.be g).map Token.s, branches := [], cur := cur1 } rfl hf1
      refine ⟨fuel2, cur2, hf2, ?_⟩
      rw [hrec1, hrec2]
      simp
    | cls s =>
      have hw : s.wf = true := by simp only [piecesOk, Bool.and_eq_true] at hok; exact hok.1
      simp only [Piece.text, Piece.toks, List.cons_append] at hf ⊢
      obtain ⟨f, rfl⟩ : ∃ f, fuel = f + 1 := ⟨fuel - 1, by simp at hf; omega⟩
      obtain ⟨fuel2, cur2, hf2, hrec2⟩ := ih hps f
        { outer := st.outer ++ [.s (.cls s.isNeg s.ranges)], branches := [], cur := some 93 } rfl
        (by simp at hf ⊢; omega)
      refine ⟨fuel2, cur2, hf2, ?_⟩
      rw [parseLoop_class o s hw _ f st hb, hrec2]
      simp

theorem lexGo_pieces_pre (o : DocOpts) (ps : List Piece) (rest : List Nat) (hok : piecesOk o.be ps = true)
    (hrest : rest.head? ≠ some 42) (st : LexSt) (hbr : st.br = none) (hcls : st.cls = none) :
    ∃ cs, lexGo o (piecesText ps ++ rest) st =
      lexGo o rest { items := st.items ++ itemsOf (piecesToks o.be ps), br := none, cls := none, compStart := cs } := by
  induction ps generalizing st with
  | nil =>
    refine ⟨st.compStart, ?_⟩
    simp only [piecesText, piecesToks, List.flatMap_nil, List.nil_append, itemsOf, List.map_nil, List.append_nil]
    cases st; simp_all
  | cons p ps ih =>
    have hps := piecesOk_tail o.be p ps hok
    rw [piecesText_cons, List.append_assoc, piecesToks_cons]
    cases p with
    | run g =>
      simp only [Piece.text, Piece.toks]
      obtain ⟨cs1, hrec1⟩ := lexGo_simple_pre o g (piecesText ps ++ rest)
        (piecesOk_run o.be g ps hok) (piecesText_append_head o.be g ps rest hok hrest) st hbr hcls
      obtain ⟨cs2, hrec2⟩ := ih hps
        { items := st.items ++ itemsOf (simpleToks o.be g), br := none, cls := none, compStart := cs1 } rfl rfl
      refine ⟨cs2, ?_⟩
      rw [hrec1, hrec2]
      simp [itemsOf]
    | cls s =>
      have hw : s.wf = true := by simp only [piecesOk, Bool.and_eq_true] at hok; exact hok.1
      simp only [Piece.text, Piece.toks, List.cons_append]
      obtain ⟨cs2, hrec2⟩ := ih hps
        { items := st.items ++ [.a (.cls s.isNeg s.ranges)], br := none, cls := none, compStart := false } rfl rfl
      refine ⟨cs2, ?_⟩
      rw [lexGo_class o s hw _ st hbr hcls, hrec2]
      simp [itemsOf, trAtom]

/-! ### the grammar  [`**/`] P₀ (`/**/` Pᵢ)* [`/**`] -/

structure StarGlobP where
  pre : Bool
  s0 : List Piece
  segs : List (List Piece)
  post : Bool
  deriving Repr, DecidableEq

def tailTextP : List (List Piece) → Bool → List Nat
  | [], post => if post then [47, 42, 42] else []
  | s :: segs, post => [47, 42, 42, 47] ++ piecesText s ++ tailTextP segs post

def tailToksP (be : Bool) : List (List Piece) → Bool → List Tok
  | [], post => if post then [.recSuffix] else []
  | s :: segs, post => .recZero :: piecesToks be s ++ tailToksP be segs post

def StarGlobP.text (sg : StarGlobP) : List Nat :=
  (if sg.pre then [42, 42, 47] else []) ++ piecesText sg.s0 ++ tailTextP sg.segs sg.post

def StarGlobP.toks (be : Bool) (sg : StarGlobP) : List Tok :=
  (if sg.pre then [.recPrefix] else []) ++ piecesToks be sg.s0 ++ tailToksP be sg.segs sg.post

def StarGlobP.wf (be : Bool) (sg : StarGlobP) : Bool :=
  piecesOk be sg.s0 && sg.segs.all (piecesOk be) &&
  !(sg.pre && (piecesText sg.s0).isEmpty && sg.segs.isEmpty && !sg.post)

theorem tailTextP_head (segs : List (List Piece)) (post : Bool) : (tailTextP segs post).head? ≠ some 42 := by
  cases segs <;> cases post <;> simp [tailTextP]

theorem parseLoop_tailP (o : Opts) (segs : List (List Piece)) (post : Bool)
    (hw : segs.all (piecesOk o.be) = true) (fuel : Nat) (st : PState) (hb : st.branches = [])
    (hf : (tailTextP segs post).length < fuel) :
    parseLoop o fuel st (tailTextP segs post) =
      .ok { outer := st.outer ++ (tailToksP o.be segs post).map Token.s, branches := [], cur := none } := by
  induction segs generalizing fuel st with
  | nil =>
    cases post
    · obtain ⟨f, rfl⟩ : ∃ f, fuel = f + 1 := ⟨fuel - 1, by omega⟩
      simp [tailTextP, tailToksP, parseLoop, hb]
    · obtain ⟨f, rfl⟩ : ∃ f, fuel = f + 3 := ⟨fuel - 3, by simp [tailTextP] at hf; omega⟩
      simp only [tailTextP, ↓reduceIte, tailToksP, List.map_cons, List.map_nil]
      exact parseLoop_dstar_end o f st hb
  | cons s segs ih =>
    simp only [List.all_cons, Bool.and_eq_true] at hw
    obtain ⟨f, rfl⟩ : ∃ f, fuel = f + 2 := ⟨fuel - 2, by simp [tailTextP] at hf; omega⟩
    simp only [tailTextP, List.cons_append, List.nil_append, List.append_assoc]
    rw [parseLoop_dstar_mid o _ f st hb]
    obtain ⟨fuel', cur, hf', hrec⟩ := parseLoop_pieces_pre o s (tailTextP segs post) hw.1
      (tailTextP_head segs post) f { outer := st.outer ++ [.s .recZero], branches := [], cur := some 47 } rfl
      (by simp [tailTextP] at hf ⊢; omega)
    rw [hrec, ih hw.2 fuel' _ rfl hf']
    simp [tailToksP]

theorem parse_starGlobP (o : Opts) (sg : StarGlobP) (hw : sg.wf o.be = true) :
    parse o sg.text = .ok ((sg.toks o.be).map Token.s) := by
  simp only [StarGlobP.wf, Bool.and_eq_true] at hw
  obtain ⟨⟨hs0, hsegs⟩, _⟩ := hw
  unfold parse StarGlobP.text StarGlobP.toks
  have hmain : ∀ (fuel : Nat) (st : PState), st.branches = [] →
      (piecesText sg.s0 ++ tailTextP sg.segs sg.post).length < fuel →
      parseLoop o fuel st (piecesText sg.s0 ++ tailTextP sg.segs sg.post) =
        .ok { outer := st.outer ++ (piecesToks o.be sg.s0 ++ tailToksP o.be sg.segs sg.post).map Token.s,
              branches := [], cur := none } := by
    intro fuel st hb hf
    obtain ⟨fuel', cur, hf', hrec⟩ := parseLoop_pieces_pre o sg.s0 _ hs0 (tailTextP_head sg.segs sg.post)
      fuel st hb hf
    rw [hrec, parseLoop_tailP o sg.segs sg.post hsegs fuel' _ rfl hf']
    simp
  cases hp : sg.pre
  · simp only [Bool.false_eq_true, ↓reduceIte, List.nil_append]
    rw [hmain _ _ rfl (by omega)]
    simp [PState.depth]
  · simp only [↓reduceIte, List.cons_append, List.nil_append, List.length_cons]
    have := parseLoop_dstar_start o (piecesText sg.s0 ++ tailTextP sg.segs sg.post)
      ((piecesText sg.s0 ++ tailTextP sg.segs sg.post).length + 3)
    simp only [st0] at this
    rw [show (piecesText sg.s0 ++ tailTextP sg.segs sg.post).length + 1 + 1 + 1 + 1 =
        ((piecesText sg.s0 ++ tailTextP sg.segs sg.post).length + 3) + 1 by omega, this, hmain _ _ rfl (by omega)]
    simp [PState.depth]

/-- the tokens of pieces translate one to one -/
theorem flatMap_trAtoms_pieces (be : Bool) (ps : List Piece) (hok : piecesOk be ps = true) :
    (piecesToks be ps).flatMap trAtoms = (piecesToks be ps).map trAtom := by
  have hkind := piecesToks_kind be ps hok
  generalize piecesToks be ps = ts at hkind
  induction ts with
  | nil => rfl
  | cons t ts ih =>
    rw [List.flatMap_cons, List.map_cons, ih (fun x hx => hkind x (by simp [hx]))]
    rcases hkind t (by simp) with h | h <;> cases t <;> simp_all [trAtoms, simpleTok, asciiCls]

theorem lexGo_tailP (o : DocOpts) (segs : List (List Piece)) (post : Bool)
    (hw : segs.all (piecesOk o.be) = true) (st : LexSt) (hbr : st.br = none) (hcls : st.cls = none) :
    lexGo o (tailTextP segs post) st =
      some (st.items ++ ((tailToksP o.be segs post).flatMap trAtoms).map Item.a) := by
  induction segs generalizing st with
  | nil =>
    cases post
    · rw [lexGo.eq_def]; simp [tailTextP, tailToksP, hbr, hcls]
    · simp only [tailTextP, ↓reduceIte, tailToksP]
      rw [lexGo_dstar_end o st hbr hcls]
      simp [trAtoms]
  | cons s segs ih =>
    simp only [List.all_cons, Bool.and_eq_true] at hw
    simp only [tailTextP, List.cons_append, List.nil_append, List.append_assoc]
    rw [lexGo_dstar_mid o _ st hbr hcls]
    obtain ⟨cs, hrec⟩ := lexGo_pieces_pre o s (tailTextP segs post) hw.1 (tailTextP_head segs post)
      { items := st.items ++ [.a (.lit 47), .a .dirs], br := none, cls := none, compStart := true } rfl rfl
    rw [hrec, ih hw.2 _ rfl rfl]
    simp only [tailToksP, List.flatMap_cons, List.flatMap_append, trAtoms,
      flatMap_trAtoms_pieces o.be s hw.1, itemsOf]
    simp

theorem lexGo_starGlobP (o : DocOpts) (sg : StarGlobP) (hw : sg.wf o.be = true) :
    lexGo o sg.text { items := [], br := none, cls := none, compStart := true } =
      some (((sg.toks o.be).flatMap trAtoms).map Item.a) := by
  simp only [StarGlobP.wf, Bool.and_eq_true] at hw
  obtain ⟨⟨hs0, hsegs⟩, _⟩ := hw
  unfold StarGlobP.text StarGlobP.toks
  have hmain : ∀ (st : LexSt), st.br = none → st.cls = none →
      lexGo o (piecesText sg.s0 ++ tailTextP sg.segs sg.post) st =
        some (st.items ++ ((piecesToks o.be sg.s0 ++ tailToksP o.be sg.segs sg.post).flatMap trAtoms).map Item.a) := by
    intro st hbr hcls
    obtain ⟨cs, hrec⟩ := lexGo_pieces_pre o sg.s0 _ hs0 (tailTextP_head sg.segs sg.post) st hbr hcls
    rw [hrec, lexGo_tailP o sg.segs sg.post hsegs _ rfl rfl]
    simp only [List.flatMap_append, flatMap_trAtoms_pieces o.be sg.s0 hs0, itemsOf]
    simp
  cases hp : sg.pre
  · simp only [Bool.false_eq_true, ↓reduceIte, List.nil_append]
    rw [hmain _ rfl rfl]; simp
  · simp only [↓reduceIte, List.cons_append, List.nil_append]
    rw [lexGo_dstar_start o _ _ rfl rfl rfl, hmain _ rfl rfl]
    simp [trAtoms, trAtom]

theorem piecesToks_eq_nil (be : Bool) (ps : List Piece) (hok : piecesOk be ps = true)
    (h : piecesToks be ps = []) : piecesText ps = [] := by
  induction ps with
  | nil => rfl
  | cons p rest ih =>
    rw [piecesToks_cons] at h
    have h' := List.append_eq_nil_iff.mp h
    rw [piecesText_cons, ih (piecesOk_tail be p rest hok) h'.2]
    cases p with
    | cls s => simp [Piece.toks] at h'
    | run g =>
      have := simpleToks_eq_nil (piecesOk_run be g rest hok) (by simpa [Piece.toks] using h'.1)
      simp [Piece.text, this]

theorem pieces_first_tok (be : Bool) (ps : List Piece) (hok : piecesOk be ps = true) (t : Tok) (ts : List Tok)
    (h : piecesToks be ps = t :: ts) :
    trAtoms t = [trAtom t] ∧ trAtom t ≠ Atom.dirs ∧ t ≠ .recPrefix ∧ t ≠ .recZero ∧ t ≠ .recSuffix := by
  have := piecesToks_kind be ps hok t (by rw [h]; simp)
  rcases this with h' | h' <;> cases t <;> simp_all [trAtoms, trAtom, simpleTok, asciiCls]

/-- the atoms of a well-formed glob are not all `dirs` -/
theorem starGlobP_not_onlyDirs (be : Bool) (sg : StarGlobP) (hw : sg.wf be = true) :
    onlyDirs (((sg.toks be).flatMap trAtoms).map Item.a) = false := by
  simp only [StarGlobP.wf, Bool.and_eq_true, Bool.not_eq_eq_eq_not, Bool.not_true,
    Bool.and_eq_false_iff, Bool.not_eq_eq_eq_not] at hw
  obtain ⟨⟨hs0, _⟩, hne⟩ := hw
  unfold onlyDirs
  by_cases hall : ((sg.toks be).flatMap trAtoms).map Item.a = []
  · simp [hall]
  · simp only [Bool.and_eq_false_iff, Bool.not_eq_eq_eq_not, Bool.not_true, List.isEmpty_eq_false_iff,
      List.all_eq_false]
    right
    unfold StarGlobP.toks
    cases hs : piecesToks be sg.s0 with
    | nil =>
      have hs0e := piecesToks_eq_nil be sg.s0 hs0 hs
      cases hsegs : sg.segs with
      | nil =>
        cases hpost : sg.post
        · cases hpre : sg.pre
          · exfalso; apply hall; simp [StarGlobP.toks, hs, hsegs, hpost, hpre, tailToksP]
          · exfalso; simp [hpre, hs0e, hsegs, hpost] at hne
        · exact ⟨.a (.lit 47), by simp [hsegs, hpost, tailToksP, trAtoms], by decide⟩
      | cons s segs' => exact ⟨.a (.lit 47), by simp [tailToksP, trAtoms], by decide⟩
    | cons t ts =>
      obtain ⟨h1, h2, _⟩ := pieces_first_tok be sg.s0 hs0 t ts hs
      exact ⟨.a (trAtom t), by simp [h1], by simpa using h2⟩

theorem tailToksP_starTok (be : Bool) (segs : List (List Piece)) (post : Bool)
    (hw : segs.all (piecesOk be) = true) : ∀ t ∈ tailToksP be segs post, starTok t = true := by
  induction segs with
  | nil => cases post <;> simp [tailToksP, starTok]
  | cons s segs ih =>
    simp only [List.all_cons, Bool.and_eq_true] at hw
    intro t ht
    simp only [tailToksP, List.mem_cons, List.mem_append] at ht
    rcases ht with (rfl | ht) | ht
    · simp [starTok]
    · rcases piecesToks_kind be s hw.1 t ht with h | h <;> simp [starTok, h]
    · exact ih hw.2 t ht

theorem starGlobP_toks_starTok (be : Bool) (sg : StarGlobP) (hw : sg.wf be = true) :
    ∀ t ∈ sg.toks be, starTok t = true := by
  simp only [StarGlobP.wf, Bool.and_eq_true] at hw
  obtain ⟨⟨hs0, hsegs⟩, _⟩ := hw
  intro t ht
  simp only [StarGlobP.toks, List.mem_append] at ht
  rcases ht with (ht | ht) | ht
  · have : t = .recPrefix := by
      cases hp : sg.pre <;> simp [hp] at ht
      exact ht
    subst this; simp [starTok]
  · rcases piecesToks_kind be sg.s0 hs0 t ht with h | h <;> simp [starTok, h]
  · exact tailToksP_starTok be sg.segs sg.post hsegs t ht

theorem starGlobP_toks_ne (be : Bool) (sg : StarGlobP) (hw : sg.wf be = true) :
    (sg.toks be).map Token.s ≠ [.s .recPrefix] := by
  have hw' := hw
  simp only [StarGlobP.wf, Bool.and_eq_true, Bool.not_eq_eq_eq_not, Bool.not_true,
    Bool.and_eq_false_iff, Bool.not_eq_eq_eq_not] at hw'
  obtain ⟨⟨hs0, hsegs⟩, hne⟩ := hw'
  intro h
  have hlen := congrArg List.length h
  simp only [StarGlobP.toks, List.map_append, List.length_append, List.length_map, List.length_cons,
    List.length_nil] at hlen
  cases hpre : sg.pre
  · simp only [StarGlobP.toks, hpre, Bool.false_eq_true, ↓reduceIte, List.nil_append] at h
    cases hst : piecesToks be sg.s0 with
    | nil =>
      rw [hst] at h
      cases hsg : sg.segs with
      | nil => rw [hsg] at h; cases hpo : sg.post <;> simp [tailToksP, hpo] at h
      | cons s segs => rw [hsg] at h; simp [tailToksP] at h
    | cons t ts =>
      rw [hst] at h
      obtain ⟨_, _, h3, _⟩ := pieces_first_tok be sg.s0 hs0 t ts hst
      simp only [List.cons_append, List.map_cons, List.cons.injEq, Token.s.injEq] at h
      exact h3 h.1
  · simp only [hpre, ↓reduceIte, List.length_cons, List.length_nil] at hlen
    have h0 : (piecesToks be sg.s0).length = 0 := by omega
    have h1 : (tailToksP be sg.segs sg.post).length = 0 := by omega
    have hs0e := piecesToks_eq_nil be sg.s0 hs0 (List.length_eq_zero_iff.mp h0)
    have hsegs0 : sg.segs = [] := by
      cases hsg : sg.segs with
      | nil => rfl
      | cons s segs => rw [hsg] at h1; simp [tailToksP] at h1
    have hpost : sg.post = false := by
      cases hp : sg.post with
      | false => rfl
      | true => rw [hsegs0, hp] at h1; simp [tailToksP] at h1
    simp [hpre, hs0e, hsegs0, hpost] at hne

/-- **C12_doc for `**` mixed with bracket classes** -/
theorem doc_starGlobP (o : Opts) (sg : StarGlobP) (hw : sg.wf o.be = true) (p : Bytes) :
    ∃ toks, parse o sg.text = .ok toks ∧ okGlob (docOpts o) sg.text = true ∧
      tokMatch o toks p = docMatch (docOpts o) sg.text p := by
  have hlex : docLex (docOpts o) sg.text = some [(sg.toks o.be).flatMap trAtoms] := by
    unfold docLex
    have hbe : (docOpts o).be = o.be := rfl
    rw [lexGo_starGlobP (docOpts o) sg (by rw [hbe]; exact hw)]
    simp only [hbe]
    rw [starGlobP_not_onlyDirs o.be sg hw]
    exact expand_atoms' _ _
  refine ⟨(sg.toks o.be).map Token.s, parse_starGlobP o sg hw, by simp [okGlob, hlex], ?_⟩
  unfold docMatch
  rw [hlex]
  simp only [List.any_cons, List.any_nil, Bool.or_false]
  rw [tokMatch_eq _ _ _ (starGlobP_toks_ne o.be sg hw)]
  exact tokensK_eq_atomsMatch_star o _ (starGlobP_toks_starTok o.be sg hw) p

/-! ### a decidable guard -/

def toPieces (be : Bool) (g : List Nat) : List Piece := scanPieces be (g.length + 1) g []

/-- best-effort decomposition (re-rendered and compared by `okStarGlobP`) -/
def decomposeStarP (be : Bool) (g : List Nat) : StarGlobP :=
  let sg := decomposeStar g
  { pre := sg.pre, s0 := toPieces be sg.s0, segs := sg.segs.map (toPieces be), post := sg.post }

/-- globs of the form [`**/`] P₀ (`/**/` Pᵢ)* [`/**`] whose segments are made of wildcard runs and bracket classes -/
def okStarGlobP (be : Bool) (g : List Nat) : Bool :=
  (decomposeStarP be g).text == g && (decomposeStarP be g).wf be

theorem doc_okStarGlobP (o : Opts) (g : List Nat) (hg : okStarGlobP o.be g = true) (p : Bytes) :
    ∃ toks, parse o g = .ok toks ∧ okGlob (docOpts o) g = true ∧
      tokMatch o toks p = docMatch (docOpts o) g p := by
  unfold okStarGlobP at hg
  simp only [Bool.and_eq_true, beq_iff_eq] at hg
  rw [← hg.1]; exact doc_starGlobP o _ hg.2 p

-- `**/*.[ch]`, `src/**/[a-z]*.rs`, `[!.]*/**`;  outside: `a**[b]`
example : okStarGlobP true [42, 42, 47, 42, 46, 91, 99, 104, 93] = true ∧
    okStarGlobP true [115, 47, 42, 42, 47, 91, 97, 45, 122, 93, 42, 46, 114] = true ∧
    okStarGlobP true [91, 33, 46, 93, 42, 47, 42, 42] = true ∧
    okStarGlobP true [97, 42, 42, 91, 98, 93] = false := by decide

end RgVerif.Glob
