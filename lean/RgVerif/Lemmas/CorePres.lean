import RgVerif.Lemmas.CoreEvents
/-
A generic preservation principle for `Core`: an invariant that survives state updates which leave
the log / the binary offset / the `binary` flag alone, the context break, and the four guarded
`sink_*` calls, survives `match_by_line`, the context helpers and `SliceByLine::run`.
-/
namespace RgVerif.Searcher
open RgVerif RgVerif.Matcher RgVerif.Lines

structure CorePres (cfg : Config) (σ : Script) (buf : Bytes) (I : Core → Prop) : Prop where
  upd : ∀ st st', I st → st'.events = st.events → st'.binaryByteOffset = st.binaryByteOffset →
    st'.binary = st.binary → I st'
  brk : ∀ st o, I st → I (sinkBreakContext cfg σ st o).1
  sm : ∀ st r, I st → I (sinkMatched cfg σ buf st r).1
  sb : ∀ st r, I st → I (sinkBeforeContext cfg σ buf st r).1
  sa : ∀ st r, I st → I (sinkAfterContext cfg σ buf st r).1
  so : ∀ st r, I st → I (sinkOtherContext cfg σ buf st r).1

variable {cfg : Config} {σ : Script} {buf : Bytes} {I : Core → Prop}

theorem bind_pres (g : Core × Res Bool) (k : Core → Core × Res Bool) (hg : I g.1) (hk : ∀ s, I s → I (k s).1) :
    I (match g with
      | (st, .ok true) => k st
      | (st, r) => (st, r)).1 := by
  obtain ⟨s1, r1⟩ := g
  cases r1 with
  | err => exact hg
  | ok b =>
    cases b with
    | false => exact hg
    | true => exact hk s1 hg

theorem beforeLoop_pres (H : CorePres cfg σ buf I) (ls : List Span) :
    ∀ st, I st → I (beforeLoop cfg σ buf ls st).1 := by
  induction ls with
  | nil => intro st h; exact h
  | cons l ls ih =>
    intro st h
    unfold beforeLoop
    exact bind_pres _ _ (H.brk st l.s h) (fun s hs => bind_pres _ _ (H.sb s l hs) ih)

theorem beforeContextByLine_pres (H : CorePres cfg σ buf I) (st : Core) (u : Nat) (h : I st) :
    I (beforeContextByLine cfg σ buf st u).1 := by
  unfold beforeContextByLine
  split
  · exact h
  · dsimp only
    split
    · exact h
    · exact beforeLoop_pres H _ _ h

theorem afterLoop_pres (H : CorePres cfg σ buf I) (ls : List Span) :
    ∀ st, I st → I (afterLoop cfg σ buf ls st).1 := by
  induction ls with
  | nil => intro st h; exact h
  | cons l ls ih =>
    intro st h
    unfold afterLoop
    refine bind_pres _ (fun s => if s.afterContextLeft == 0 then (s, .ok true) else afterLoop cfg σ buf ls s)
      (H.sa st l h) ?_
    intro s hs
    split
    · exact hs
    · exact ih s hs

theorem afterContextByLine_pres (H : CorePres cfg σ buf I) (st : Core) (u : Nat) (h : I st) :
    I (afterContextByLine cfg σ buf st u).1 := by
  unfold afterContextByLine
  split
  · exact h
  · exact afterLoop_pres H _ _ h

theorem matchedLoop_pres (H : CorePres cfg σ buf I) (ls : List Span) :
    ∀ st, I st → I (matchedLoop cfg σ buf ls st).1 := by
  induction ls with
  | nil => intro st h; exact h
  | cons l ls ih =>
    intro st h
    unfold matchedLoop
    exact bind_pres _ _ (H.sm st l h) ih

theorem slowLoop_pres (H : CorePres cfg σ buf I) (m : MatcherI) (ls : List Span) :
    ∀ st, I st → I (slowLoop cfg m σ buf ls st).1 := by
  induction ls with
  | nil => intro st h; exact h
  | cons l ls ih =>
    intro st h
    unfold slowLoop
    dsimp only
    refine bind_pres _ (fun s => if (cfg.stopOnNonmatch && !(((m.shortestMatch (withoutTerminator (slice buf l.s l.e) cfg.lineTerm)).isSome) != cfg.invertMatch) && s.hasMatched) = true then (s, .ok false) else slowLoop cfg m σ buf ls s) ?_ ?_
    · split
      · exact bind_pres _ _
          (beforeContextByLine_pres H _ l.s (H.upd st { st with pos := l.e, hasMatched := true } h rfl rfl rfl))
          (fun s hs => H.sm s l hs)
      · split
        · exact H.sa _ l (H.upd st { st with pos := l.e } h rfl rfl rfl)
        · split
          · exact H.so _ l (H.upd st { st with pos := l.e } h rfl rfl rfl)
          · exact H.upd st _ h rfl rfl rfl
    · intro s hs
      split
      · exact hs
      · exact ih s hs

theorem matchByLineSlow_pres (H : CorePres cfg σ buf I) (m : MatcherI) (st : Core) (h : I st) :
    I (matchByLineSlow cfg m σ buf st).1 :=
  slowLoop_pres H m _ _ h

theorem matchByLineFastInvert_pres (H : CorePres cfg σ buf I) (m : MatcherI) (st : Core) (h : I st) :
    I (matchByLineFastInvert cfg m σ buf st).1 := by
  unfold matchByLineFastInvert
  have key : ∀ (im : Span) (s0 : Core), I s0 →
      I (if im.e - im.s == 0 then (s0, Res.ok true)
        else
          match afterContextByLine cfg σ buf { s0 with hasMatched := true } im.s with
          | (st, .ok true) =>
            match beforeContextByLine cfg σ buf st im.s with
            | (st, .ok true) => matchedLoop cfg σ buf (stepLines cfg.lineTerm.asByte buf im.s im.e) st
            | (st, r) => (st, r)
          | (st, r) => (st, r)).1 := by
    intro im s0 h0
    split
    · exact h0
    · exact bind_pres _ _ (afterContextByLine_pres H _ im.s (H.upd s0 _ h0 rfl rfl rfl))
        (fun s hs => bind_pres _ _ (beforeContextByLine_pres H s im.s hs) (fun s2 hs2 => matchedLoop_pres H _ s2 hs2))
  cases findByLineFast cfg m buf st with
  | none => exact key ⟨st.pos, buf.length⟩ { st with pos := buf.length } (H.upd st _ h rfl rfl rfl)
  | some line => exact key ⟨st.pos, line.s⟩ { st with pos := line.e } (H.upd st _ h rfl rfl rfl)

theorem fastLoop_pres (H : CorePres cfg σ buf I) (m : MatcherI) (fuel : Nat) :
    ∀ st, I st → I (fastLoop cfg m σ buf fuel st).1 := by
  induction fuel with
  | zero => intro st h; exact h
  | succ fuel ih =>
    intro st h
    unfold fastLoop
    split
    · exact h
    · split
      · exact h
      · split
        · have hg := matchByLineFastInvert_pres H m st h
          generalize matchByLineFastInvert cfg m σ buf st = g at hg ⊢
          obtain ⟨s1, r1⟩ := g
          cases r1 with
          | err => exact hg
          | ok b =>
            cases b with
            | false => exact hg
            | true => exact ih s1 hg
        · cases hf : findByLineFast cfg m buf st with
          | none => exact h
          | some line =>
            dsimp only
            have hctx : I
                (if cfg.maxContext > 0 then
                  match afterContextByLine cfg σ buf { st with hasMatched := true } line.s with
                  | (st, .ok true) => beforeContextByLine cfg σ buf st line.s
                  | (st, r) => (st, r)
                else ({ st with hasMatched := true }, Res.ok true)).1 := by
              split
              · exact bind_pres _ _ (afterContextByLine_pres H _ line.s (H.upd st _ h rfl rfl rfl))
                  (fun s hs => beforeContextByLine_pres H s line.s hs)
              · exact H.upd st _ h rfl rfl rfl
            generalize (if cfg.maxContext > 0 then
                  match afterContextByLine cfg σ buf { st with hasMatched := true } line.s with
                  | (st, .ok true) => beforeContextByLine cfg σ buf st line.s
                  | (st, r) => (st, r)
                else ({ st with hasMatched := true }, Res.ok true)) = g at hctx ⊢
            obtain ⟨s1, r1⟩ := g
            cases r1 with
            | err => exact hctx
            | ok b =>
              cases b with
              | false => exact hctx
              | true =>
                dsimp only
                have hm := H.sm { s1 with pos := line.e } line (H.upd s1 _ hctx rfl rfl rfl)
                generalize sinkMatched cfg σ buf { s1 with pos := line.e } line = g2 at hm ⊢
                obtain ⟨s2, r2⟩ := g2
                cases r2 with
                | err => exact hm
                | ok b2 =>
                  cases b2 with
                  | false => exact hm
                  | true => exact ih s2 hm

theorem matchByLineFast_pres (H : CorePres cfg σ buf I) (m : MatcherI) (st : Core) (h : I st) :
    I (matchByLineFast cfg m σ buf st).1 := by
  unfold matchByLineFast
  have hg := fastLoop_pres H m (buf.length + 1) st h
  generalize fastLoop cfg m σ buf (buf.length + 1) st = g at hg ⊢
  obtain ⟨s1, r1⟩ := g
  cases r1 with
  | err => exact hg
  | ok o =>
    cases o with
    | some r => exact hg
    | none =>
      dsimp only
      have ha := afterContextByLine_pres H s1 buf.length hg
      generalize afterContextByLine cfg σ buf s1 buf.length = g2 at ha ⊢
      obtain ⟨s2, r2⟩ := g2
      cases r2 with
      | err => exact ha
      | ok b => cases b <;> first | exact ha | exact H.upd s2 _ ha rfl rfl rfl

/-- **`match_by_line` preserves every such invariant.** -/
theorem matchByLine_pres (H : CorePres cfg σ buf I) (m : MatcherI) (st : Core) (h : I st) :
    I (matchByLine cfg m σ buf st).1 := by
  unfold matchByLine
  split
  · have hg := matchByLineFast_pres H m st h
    generalize matchByLineFast cfg m σ buf st = g at hg ⊢
    obtain ⟨s1, r1⟩ := g
    cases r1 with
    | err => exact hg
    | ok r =>
      cases r with
      | switchToSlow => exact matchByLineSlow_pres H m s1 hg
      | continue_ => exact hg
      | stop => exact hg
  · exact matchByLineSlow_pres H m st h

theorem sliceLoop_pres (H : CorePres cfg σ buf I) (m : MatcherI) (fuel : Nat) :
    ∀ st, I st → I (sliceLoop cfg m σ buf fuel st).1 := by
  induction fuel with
  | zero => intro st h; exact h
  | succ fuel ih =>
    intro st h
    unfold sliceLoop
    split
    · exact h
    · have hg := matchByLine_pres H m st h
      generalize matchByLine cfg m σ buf st = g at hg ⊢
      obtain ⟨s1, r1⟩ := g
      cases r1 with
      | err => exact hg
      | ok b =>
        cases b with
        | false => exact hg
        | true => exact ih s1 hg

end RgVerif.Searcher
