import RgVerif.Lemmas.WalkTerm
/-
C06: facts about the recursive serial model that hold without the hazard guard:
the `ig` stack is balanced, and the result does not depend on the link-jump fuel once it exceeds the
number of free directories.
-/
namespace RgVerif.Walk

/-- The jump function returns the `ig` stack it was given. -/
def JBal (js : SerContents) : Prop :=
  ∀ sp ig depth p rd kids, (js sp ig depth p rd kids).2 = ig

mutual
theorem serEntry_ig (cfg : Cfg) (forest : List Node) (js : SerContents) (hj : JBal js)
    (rd : Option Nat) (sp : List Nat) (ig : List Anc) (depth : Nat) (pp : Path) :
    (k : Node) → (serEntry cfg forest js rd sp ig depth pp k).ig = ig
  | .file name size => by
    unfold serEntry
    split
    · rfl
    · split
      · split
        · rfl
        · split
          · simp [hj _ _ _ _ _ _]
          · rfl
      · split <;> rfl
  | .link name len tgt => by
    unfold serEntry
    split
    · rfl
    · split
      · split
        · rfl
        · split
          · simp [hj _ _ _ _ _ _]
          · rfl
      · split <;> rfl
  | .dir name ino dev ign kids => by
    unfold serEntry
    split
    · rfl
    · split
      · rfl
      · split
        · simp [serKids_ig cfg forest js hj rd _ ((ino, ign) :: ig) (depth + 1) (pp ++ [name]) kids]
        · rfl
theorem serKids_ig (cfg : Cfg) (forest : List Node) (js : SerContents) (hj : JBal js)
    (rd : Option Nat) (sp : List Nat) (ig : List Anc) (depth : Nat) (pp : Path) :
    (ks : List Node) → (serKids cfg forest js rd sp ig depth pp ks).2 = ig
  | [] => by unfold serKids; rfl
  | k :: ks => by
    unfold serKids
    have h1 := serEntry_ig cfg forest js hj rd sp ig depth pp k
    simp only []
    split
    · exact h1
    · simp only []
      rw [h1]
      exact serKids_ig cfg forest js hj rd sp ig depth pp ks
end

theorem serContents_bal (cfg : Cfg) (forest : List Node) : ∀ f, JBal (serContents cfg forest f) := by
  intro f
  induction f with
  | zero => intro sp ig depth p rd kids; rfl
  | succ f ih =>
    intro sp ig depth p rd kids
    simp only [serContents]
    exact serKids_ig cfg forest _ ih rd sp ig depth p kids

/-- When walkdir hands out a directory for a non-directory node, a link was followed to a directory
that is not among the ancestors. -/
theorem wdHandle_dir_inv (cfg : Cfg) (forest : List Node) (sp : List Nat) (rd : Option Nat) (p : Path)
    (k : Node) (d : DirView) (via pushed : Bool)
    (hk : ∀ name ino dev ign kids, k ≠ .dir name ino dev ign kids)
    (h : wdHandle cfg forest sp rd p k = .ok (.dir d via, pushed)) :
    cfg.followLinks = true ∧ sp.any (· == d.ino) = false ∧ d.ino ∈ dirInosL forest := by
  cases k with
  | dir name ino dev ign kids => exact absurd rfl (hk name ino dev ign kids)
  | file name size =>
    simp [wdHandle, followEntry, lstat, View.isSymlink] at h
  | link name len tgt =>
    cases hf : cfg.followLinks with
    | false => simp [wdHandle, followEntry, lstat, View.isSymlink, hf] at h
    | true =>
      cases hr : resolve forest tgt with
      | broken => simp [wdHandle, followEntry, lstat, View.isSymlink, hf, stat, hr] at h
      | file s => simp [wdHandle, followEntry, lstat, View.isSymlink, hf, stat, hr] at h
      | symlink l => simp [wdHandle, followEntry, lstat, View.isSymlink, hf, stat, hr] at h
      | dir d' via' =>
        by_cases hl : sp.any (· == d'.ino) = true
        · simp [wdHandle, followEntry, lstat, View.isSymlink, hf, stat, hr, hl] at h
        · simp [wdHandle, followEntry, lstat, View.isSymlink, hf, stat, hr, hl] at h
          obtain ⟨⟨h1, _⟩, _⟩ := h
          subst h1
          exact ⟨rfl, by rw [← Bool.not_eq_true]; exact hl, resolve_dir_mem hr⟩

theorem spOk_inAnc {cfg : Cfg} {sp : List Nat} {ig : List Anc} (h : SpOk cfg sp ig)
    (hf : cfg.followLinks = true) (i : Nat) : sp.any (· == i) = inAnc ig i := by
  rw [h hf, inAnc_eq]

mutual
theorem serEntry_congr (cfg : Cfg) (forest : List Node) (j1 j2 : SerContents) (n : Nat)
    (H : ∀ sp ig d p r ks, SpOk cfg sp ig → free forest ig < n → j1 sp ig d p r ks = j2 sp ig d p r ks)
    (hb : JBal j2)
    (rd : Option Nat) (sp : List Nat) (ig : List Anc) (hsp : SpOk cfg sp ig)
    (hn : free forest ig ≤ n) (depth : Nat) (pp : Path) :
    (k : Node) → serEntry cfg forest j1 rd sp ig depth pp k = serEntry cfg forest j2 rd sp ig depth pp k
  | .dir name ino dev ign kids => by
    unfold serEntry
    simp only []
    rw [serKids_congr cfg forest j1 j2 n H hb rd (if cfg.followLinks then ino :: sp else sp)
      ((ino, ign) :: ig) (spOk_cons hsp ino ign)
      (Nat.le_trans (free_cons_le forest _ ig) hn) (depth + 1) (pp ++ [name]) kids]
  | .file name size => by
    unfold serEntry
    split
    · rfl
    · rename_i dent pushed hw
      split
      · rename_i d via
        have := wdHandle_dir_inv cfg forest sp rd _ _ d via pushed (by intros; simp) hw
        simp only []
        rw [H _ ((d.ino, d.ign) :: ig) (depth + 1) _ rd d.kids (spOk_cons hsp d.ino d.ign)
          (Nat.lt_of_lt_of_le (free_cons_lt forest d.ino d.ign ig this.2.2
            (by rw [← spOk_inAnc hsp this.1]; exact this.2.1)) hn)]
      · rfl
  | .link name len tgt => by
    unfold serEntry
    split
    · rfl
    · rename_i dent pushed hw
      split
      · rename_i d via
        have := wdHandle_dir_inv cfg forest sp rd _ _ d via pushed (by intros; simp) hw
        simp only []
        rw [H _ ((d.ino, d.ign) :: ig) (depth + 1) _ rd d.kids (spOk_cons hsp d.ino d.ign)
          (Nat.lt_of_lt_of_le (free_cons_lt forest d.ino d.ign ig this.2.2
            (by rw [← spOk_inAnc hsp this.1]; exact this.2.1)) hn)]
      · rfl
theorem serKids_congr (cfg : Cfg) (forest : List Node) (j1 j2 : SerContents) (n : Nat)
    (H : ∀ sp ig d p r ks, SpOk cfg sp ig → free forest ig < n → j1 sp ig d p r ks = j2 sp ig d p r ks)
    (hb : JBal j2)
    (rd : Option Nat) (sp : List Nat) (ig : List Anc) (hsp : SpOk cfg sp ig)
    (hn : free forest ig ≤ n) (depth : Nat) (pp : Path) :
    (ks : List Node) → serKids cfg forest j1 rd sp ig depth pp ks = serKids cfg forest j2 rd sp ig depth pp ks
  | [] => by unfold serKids; rfl
  | k :: ks => by
    unfold serKids
    rw [serEntry_congr cfg forest j1 j2 n H hb rd sp ig hsp hn depth pp k]
    simp only []
    rw [serEntry_ig cfg forest j2 hb rd sp ig depth pp k,
      serKids_congr cfg forest j1 j2 n H hb rd sp ig hsp hn depth pp ks]
end

/-- More link-jump fuel than free directories changes nothing (serial model, no guard needed). -/
theorem serContents_stable (cfg : Cfg) (forest : List Node) :
    ∀ f sp ig depth p rd kids, SpOk cfg sp ig → free forest ig < f →
      serContents cfg forest (f + 1) sp ig depth p rd kids = serContents cfg forest f sp ig depth p rd kids := by
  intro f
  induction f with
  | zero => intro sp ig depth p rd kids _ h; omega
  | succ f ih =>
    intro sp ig depth p rd kids hsp h
    simp only [serContents]
    exact serKids_congr cfg forest _ _ f (fun sp ig d p r ks hs ha => ih sp ig d p r ks hs ha)
      (serContents_bal cfg forest f) rd sp ig hsp (by omega) depth p kids

theorem serContents_stable' (cfg : Cfg) (forest : List Node) (f g : Nat) (sp : List Nat) (ig : List Anc)
    (depth : Nat) (p : Path) (rd : Option Nat) (kids : List Node) (hsp : SpOk cfg sp ig)
    (hf : free forest ig < f) (hg : f ≤ g) :
    serContents cfg forest g sp ig depth p rd kids = serContents cfg forest f sp ig depth p rd kids := by
  induction g with
  | zero => have : f = 0 := by omega
            subst this; rfl
  | succ g ih =>
    by_cases e : f = g + 1
    · subst e; rfl
    · rw [serContents_stable cfg forest g sp ig depth p rd kids hsp (by omega)]
      exact ih (by omega)

end RgVerif.Walk
