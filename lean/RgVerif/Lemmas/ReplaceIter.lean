import RgVerif.Spec.ReplaceAll
import RgVerif.Model.Replace
/-
The match iteration of `grep_matcher::Matcher::try_captures_iter_at` (model `iterGo`) yields exactly
the matches the regex crate's iterator yields (spec `specIter`), for every matcher that is sane and
deterministic in the sense of `Sane`.
-/
namespace RgVerif.Lemmas.ReplaceIter
open RgVerif RgVerif.Matcher RgVerif.ReplaceSpec

/-- overall match of a capture set -/
def sp (c : Caps) : Span := (c.get 0).getD ⟨0, 0⟩

/-- What the proofs need from the engine behind `captures_at(haystack, pos)`:
matches lie in `[pos, len]`, and the answer is the same from any position between the search start
and the match start (leftmost-first search is deterministic). -/
structure Sane (capsAt : Nat → Option Caps) (len : Nat) : Prop where
  ge : ∀ p c, capsAt p = some c → p ≤ (sp c).s
  le : ∀ p c, capsAt p = some c → (sp c).s ≤ (sp c).e
  bound : ∀ p c, capsAt p = some c → (sp c).e ≤ len
  consistent : ∀ p p' c, capsAt p = some c → p ≤ p' → p' ≤ (sp c).s → capsAt p' = some c

def collectStep : List Caps → Caps → List Caps × Bool := fun acc c => (acc ++ [c], true)

/-- the model loop, collecting what it yields -/
def collect (capsAt : Nat → Option Caps) (len fuel lastEnd : Nat) (lastMatch : Option Nat)
    (acc : List Caps) : List Caps :=
  iterGo sp capsAt len collectStep fuel lastEnd lastMatch acc

/-- the spec's "search again from `p` and take whatever is found" -/
def retry (capsAt : Nat → Option Caps) (len fuel p : Nat) : List Caps :=
  if p > len then []
  else match capsAt p with
    | none => []
    | some c' => c' :: specIter capsAt len fuel (sp c').e (some (sp c').e)

theorem collect_zero (capsAt len le lm acc) : collect capsAt len 0 le lm acc = acc := by
  simp [collect, iterGo]

theorem collect_succ (capsAt : Nat → Option Caps) (len fuel le : Nat) (lm : Option Nat) (acc : List Caps) :
    collect capsAt len (fuel + 1) le lm acc =
      if le > len then acc
      else match capsAt le with
        | none => acc
        | some c =>
          if (sp c).s = (sp c).e then
            if some (sp c).e = lm then collect capsAt len fuel ((sp c).e + 1) lm acc
            else collect capsAt len fuel ((sp c).e + 1) (some (sp c).e) (acc ++ [c])
          else collect capsAt len fuel (sp c).e (some (sp c).e) (acc ++ [c]) := by
  unfold collect
  rw [iterGo]
  by_cases hgt : le > len
  · simp [hgt]
  · simp only [hgt, ↓reduceIte]
    cases hc : capsAt le with
    | none => rfl
    | some c =>
      simp only [collectStep, beq_iff_eq]
      by_cases h1 : (sp c).s = (sp c).e <;> by_cases h2 : some (sp c).e = lm <;> simp [h1, h2]

theorem specIter_succ (capsAt : Nat → Option Caps) (len fuel pos : Nat) (last : Option Nat) :
    specIter capsAt len (fuel + 1) pos last =
      if pos > len then []
      else match capsAt pos with
        | none => []
        | some c =>
          if (sp c).s = (sp c).e ∧ some (sp c).e = last then retry capsAt len fuel (pos + 1)
          else c :: specIter capsAt len fuel (sp c).e (some (sp c).e) := by
  rw [specIter]
  by_cases hgt : pos > len
  · simp [hgt]
  · simp only [hgt, ↓reduceIte]
    cases hc : capsAt pos with
    | none => rfl
    | some c =>
      simp only [Bool.and_eq_true, beq_iff_eq, sp, retry]
      rfl

/-- The statement carried through the induction, at measure `n` (an upper bound of `len + 2 - lastEnd`). -/
def Agree (capsAt : Nat → Option Caps) (len n : Nat) : Prop :=
  ∀ fm fs, n ≤ fm → 2 * n + 2 ≤ fs →
    (∀ pos last acc, len + 2 - pos ≤ n → (last = none ∨ last = some pos) →
      collect capsAt len fm pos last acc = acc ++ specIter capsAt len fs pos last) ∧
    (∀ e0 acc, len + 2 - (e0 + 1) ≤ n →
      collect capsAt len fm (e0 + 1) (some e0) acc = acc ++ retry capsAt len fs (e0 + 1))

/-- State "after a yielded empty match at `e`": the model continues from `e + 1`, the spec from `e`
(where it finds the same empty match again and retries). -/
theorem after_empty {capsAt : Nat → Option Caps} {len n : Nat} (hs : Sane capsAt len)
    (ih : Agree capsAt len n) {fm fs e : Nat} {c : Caps} (hfm : n ≤ fm) (hfs : 2 * n + 3 ≤ fs)
    (hc : capsAt e = some c) (hemp : (sp c).s = (sp c).e) (he : (sp c).e = e)
    (hm : len + 2 - (e + 1) ≤ n) (acc : List Caps) :
    collect capsAt len fm (e + 1) (some e) acc = acc ++ specIter capsAt len fs e (some e) := by
  obtain ⟨fs', rfl⟩ : ∃ k, fs = k + 1 := ⟨fs - 1, by omega⟩
  rw [specIter_succ]
  have hle : ¬ e > len := by have := hs.bound e c hc; omega
  simp only [hle, ↓reduceIte, hc, hemp, he, and_self]
  exact (ih fm fs' hfm (by omega)).2 e acc hm

theorem agree_all {capsAt : Nat → Option Caps} {len : Nat} (hs : Sane capsAt len) :
    ∀ n, Agree capsAt len n := by
  intro n
  induction n with
  | zero =>
    intro fm fs _ hfs
    obtain ⟨fs', rfl⟩ : ∃ k, fs = k + 1 := ⟨fs - 1, by omega⟩
    constructor
    · intro pos last acc hm _
      have hgt : pos > len := by omega
      rw [specIter_succ]
      cases fm with
      | zero => simp [collect_zero, hgt]
      | succ fm' => rw [collect_succ]; simp [hgt]
    · intro e0 acc hm
      have hgt : e0 + 1 > len := by omega
      cases fm with
      | zero => simp [collect_zero, retry, hgt]
      | succ fm' => rw [collect_succ]; simp [hgt, retry]
  | succ n ih =>
    intro fm fs hfm hfs
    obtain ⟨fm', rfl⟩ : ∃ k, fm = k + 1 := ⟨fm - 1, by omega⟩
    constructor
    · -- state (A)
      intro pos last acc hm hlast
      obtain ⟨fs', rfl⟩ : ∃ k, fs = k + 1 := ⟨fs - 1, by omega⟩
      rw [collect_succ, specIter_succ]
      by_cases hgt : pos > len
      · simp [hgt]
      · simp only [hgt, ↓reduceIte]
        cases hc : capsAt pos with
        | none => simp
        | some c =>
          simp only
          have hge := hs.ge pos c hc
          have hle := hs.le pos c hc
          by_cases hemp : (sp c).s = (sp c).e
          · by_cases hadj : some (sp c).e = last
            · -- adjacent empty match: the model skips it, the spec retries
              simp only [hemp, hadj, and_self, ↓reduceIte]
              have hpos : (sp c).e = pos := by
                rcases hlast with h | h
                · rw [h] at hadj; cases hadj
                · rw [h] at hadj; injection hadj
              rw [hpos, ← hadj, hpos]
              exact (ih fm' fs' (by omega) (by omega)).2 pos acc (by omega)
            · simp only [hemp, hadj, and_false, ↓reduceIte]
              have hcons := hs.consistent pos (sp c).e c hc (by omega) (by omega)
              have := after_empty hs ih (fm := fm') (fs := fs') (by omega) (by omega) hcons hemp rfl
                (by omega) (acc ++ [c])
              rw [this]; simp
          · simp only [hemp, false_and, ↓reduceIte]
            have := (ih fm' fs' (by omega) (by omega)).1 (sp c).e (some (sp c).e) (acc ++ [c])
              (by omega) (Or.inr rfl)
            rw [this]; simp
    · -- state (B'): the model is one past the previous match end, the spec is retrying
      intro e0 acc hm
      rw [collect_succ]
      unfold retry
      by_cases hgt : e0 + 1 > len
      · simp [hgt]
      · simp only [hgt, ↓reduceIte]
        cases hc : capsAt (e0 + 1) with
        | none => simp
        | some c =>
          simp only
          have hge := hs.ge (e0 + 1) c hc
          have hle := hs.le (e0 + 1) c hc
          have hnadj : ¬ (some (sp c).e = some e0) := by
            intro h; injection h with h; omega
          by_cases hemp : (sp c).s = (sp c).e
          · simp only [hemp, hnadj, ↓reduceIte]
            have hcons := hs.consistent (e0 + 1) (sp c).e c hc (by omega) (by omega)
            have := after_empty hs ih (fm := fm') (fs := fs) (by omega) (by omega) hcons hemp rfl
              (by omega) (acc ++ [c])
            rw [this]; simp
          · simp only [hemp, ↓reduceIte]
            have := (ih fm' fs (by omega) (by omega)).1 (sp c).e (some (sp c).e) (acc ++ [c])
              (by omega) (Or.inr rfl)
            rw [this]; simp

/-- **Iteration agreement**: with enough fuel on both sides, the matches handed to the callback by
`captures_iter_at(haystack, start)` are exactly the matches of the regex crate's iterator. -/
theorem collect_eq_allMatches {capsAt : Nat → Option Caps} {len : Nat} (hs : Sane capsAt len)
    (start : Nat) :
    collect capsAt len (len + 2) start none [] = allMatches capsAt len start := by
  have := (agree_all hs (len + 2) (len + 2) (2 * len + 6) (Nat.le_refl _) (by omega)).1
    start none [] (by omega) (Or.inl rfl)
  simpa [allMatches] using this

theorem takeWhile_all {α} (p : α → Bool) (l : List α) (h : ∀ x ∈ l, p x = true) : l.takeWhile p = l := by
  induction l with
  | nil => rfl
  | cons a l ih =>
    have ha := h a (by simp)
    rw [List.takeWhile_cons, ha]
    simp only [↓reduceIte]
    rw [ih (fun x hx => h x (by simp [hx]))]

/-- every match the spec iterator yields is an answer of the matcher -/
theorem specIter_mem' {capsAt : Nat → Option Caps} {len : Nat} :
    ∀ fuel pos last c, c ∈ specIter capsAt len fuel pos last → ∃ p, capsAt p = some c := by
  intro fuel
  induction fuel with
  | zero => intro pos last c h; simp [specIter] at h
  | succ fuel ih =>
    intro pos last c h
    rw [specIter_succ] at h
    by_cases hgt : pos > len
    · simp [hgt] at h
    · simp only [hgt, ↓reduceIte] at h
      cases hc : capsAt pos with
      | none => simp [hc] at h
      | some c0 =>
        simp only [hc] at h
        split at h
        · unfold retry at h
          by_cases hgt' : pos + 1 > len
          · simp [hgt'] at h
          · simp only [hgt', ↓reduceIte] at h
            cases hc' : capsAt (pos + 1) with
            | none => simp [hc'] at h
            | some c1 =>
              simp only [hc', List.mem_cons] at h
              rcases h with rfl | h
              · exact ⟨_, hc'⟩
              · exact ih _ _ _ h
        · simp only [List.mem_cons] at h
          rcases h with rfl | h
          · exact ⟨_, hc⟩
          · exact ih _ _ _ h

theorem specIter_mem {capsAt : Nat → Option Caps} {len start : Nat} {c : Caps}
    (h : c ∈ allMatches capsAt len start) : ∃ p, capsAt p = some c :=
  specIter_mem' _ _ _ c h

/-! ### The callback as a fold over the collected matches -/

/-- Fold a callback over a list until it answers "stop". -/
def foldUntil {α σ : Type} (f : σ → α → σ × Bool) : σ → List α → σ
  | st, [] => st
  | st, c :: cs => if (f st c).2 then foldUntil f (f st c).1 cs else (f st c).1

theorem collect_acc (capsAt : Nat → Option Caps) (len : Nat) :
    ∀ fuel le lm acc, collect capsAt len fuel le lm acc = acc ++ collect capsAt len fuel le lm [] := by
  intro fuel
  induction fuel with
  | zero => intro le lm acc; simp [collect_zero]
  | succ fuel ih =>
    intro le lm acc
    rw [collect_succ, collect_succ]
    by_cases hgt : le > len
    · simp [hgt]
    · simp only [hgt, ↓reduceIte]
      cases hc : capsAt le with
      | none => simp
      | some c =>
        simp only
        by_cases h1 : (sp c).s = (sp c).e <;> by_cases h2 : some (sp c).e = lm
        · simp only [h1, h2, ↓reduceIte]; exact ih _ _ _
        · simp only [h1, h2, ↓reduceIte]; rw [ih _ _ (acc ++ [c]), ih _ _ ([] ++ [c])]; simp
        · simp only [h1, ↓reduceIte]; rw [ih _ _ (acc ++ [c]), ih _ _ ([] ++ [c])]; simp
        · simp only [h1, ↓reduceIte]; rw [ih _ _ (acc ++ [c]), ih _ _ ([] ++ [c])]; simp

/-- Running the loop with any callback is folding the callback over the collected matches. -/
theorem iterGo_eq_fold {σ : Type} (capsAt : Nat → Option Caps) (len : Nat) (f : σ → Caps → σ × Bool) :
    ∀ fuel le lm st, iterGo sp capsAt len f fuel le lm st =
      foldUntil f st (collect capsAt len fuel le lm []) := by
  intro fuel
  induction fuel with
  | zero => intro le lm st; simp [iterGo, collect_zero, foldUntil]
  | succ fuel ih =>
    intro le lm st
    rw [collect_succ, iterGo]
    by_cases hgt : le > len
    · simp [hgt, foldUntil]
    · simp only [hgt, ↓reduceIte]
      cases hc : capsAt le with
      | none => simp [foldUntil]
      | some c =>
        simp only [beq_iff_eq]
        by_cases h1 : (sp c).s = (sp c).e <;> by_cases h2 : some (sp c).e = lm
        · simp only [h1, h2, ↓reduceIte]; exact ih _ _ _
        · simp only [h1, h2, ↓reduceIte]
          rw [collect_acc]
          simp only [List.nil_append, List.cons_append, foldUntil]
          by_cases hcont : (f st c).2 = true
          · simp only [hcont, ↓reduceIte]; rw [← ih]
          · cases hf : f st c with
            | mk st' b => simp [hf] at hcont ⊢; simp [hcont]
        · simp only [h1, ↓reduceIte]
          rw [collect_acc]
          simp only [List.nil_append, List.cons_append, foldUntil]
          by_cases hcont : (f st c).2 = true
          · simp only [hcont, ↓reduceIte]; rw [← ih]
          · cases hf : f st c with
            | mk st' b => simp [hf] at hcont ⊢; simp [hcont]
        · simp only [h1, ↓reduceIte]
          rw [collect_acc]
          simp only [List.nil_append, List.cons_append, foldUntil]
          by_cases hcont : (f st c).2 = true
          · simp only [hcont, ↓reduceIte]; rw [← ih]
          · cases hf : f st c with
            | mk st' b => simp [hf] at hcont ⊢; simp [hcont]

end RgVerif.Lemmas.ReplaceIter
