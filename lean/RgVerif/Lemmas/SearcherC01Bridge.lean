import RgVerif.Lemmas.SearcherLineSafeGen
import RgVerif.Props.C01Regex
/-
The matcher built by `RegexMatcherBuilder::build_many` (`Rx.MatcherM` + an engine meeting `EngineSpec`), presented to
the searcher model (`bridge`), meets the matcher-level contract `MatchContract` for the LF terminator when its
look-arounds are context independent (`allLooks safeLookLF`): clauses (a), (b), (c) of `Props/C01Regex.lean`.
-/
namespace RgVerif.Props.C01
open RgVerif RgVerif.Matcher RgVerif.Lines RgVerif.Searcher RgVerif.GrepSpec

/-- `Rx.LineTerm` as the searcher's `LineTerm` -/
def convLT : Rx.LineTerm → Lines.LineTerm
  | .byte b => .byte b
  | .crlf => .crlf

def convCand : Rx.Cand → LineMatchKind
  | .candidate i => .candidate i
  | .confirmed i => .confirmed i

/-- The `grep_matcher::Matcher` the searcher is handed: `shortest_match` is the engine on the compiled
expression, `find_candidate_line` / `line_terminator` / `non_matching_bytes` are the built matcher's
(`find_at` is only used by multi-line search and plays no role here). -/
def bridge (m : Rx.MatcherM) (shortest : Bytes → Option Nat) : MatcherI :=
  { findAt := fun _ _ => none
  , shortestAt := fun h at_ => if at_ = 0 then shortest h else none
  , findCandidateLine := fun h => (m.findCandidateLine shortest h).map convCand
  , lineTerminator := m.lineTerm.map convLT
  , nonMatchingBytes := some fun b => m.nonMatching.contains b }


theorem bridge_shortest (m : Rx.MatcherM) (shortest : Bytes → Option Nat) (h : Bytes) :
    (bridge m shortest).shortestAt h 0 = shortest h := by simp [bridge]

/-- what a successful literal search returns: the end of an occurrence of one of the literals -/
theorem fastFindFrom_some (L : List Rx.Lit) (hay : Bytes) : ∀ (fuel pos i : Nat),
    Rx.fastFindFrom L hay fuel pos = some i →
    ∃ q l, l ∈ L ∧ l.bytes <+: hay.drop q ∧ i = q + l.bytes.length := by
  intro fuel
  induction fuel with
  | zero => intro pos i h; simp [Rx.fastFindFrom] at h
  | succ fuel ih =>
    intro pos i h
    simp only [Rx.fastFindFrom] at h
    split at h
    · rename_i l hfind
      simp only [Option.some.injEq] at h
      exact ⟨pos, l, List.mem_of_find?_eq_some hfind,
        List.isPrefixOf_iff_prefix.1 (by simpa using List.find?_some hfind), h.symm⟩
    · split at h
      · exact ih _ _ h
      · cases h

/-- a `Confirmed` answer is only given by a matcher built without `verify_on_line` (/repo 4165f41) -/
theorem confirmed_not_verify (m : Rx.MatcherM) (shortest : Bytes → Option Nat)
    (h : ∃ hay i, (bridge m shortest).findCandidateLine hay = some (.confirmed i)) : m.verifyOnLine = false := by
  obtain ⟨hay, i, h⟩ := h
  simp only [bridge, Rx.MatcherM.findCandidateLine] at h
  cases hf : m.fastLits with
  | some Ls => rw [hf] at h; cases hff : Rx.fastFind Ls hay <;> simp [hff, convCand] at h
  | none =>
    rw [hf] at h
    cases hv : m.verifyOnLine with
    | false => rfl
    | true => rw [hv] at h; cases hs : shortest hay <;> simp [hs, convCand] at h

/-- The built matcher meets the matcher-level contract for LF, given on the line windows that pass the guard `G`:
`hlift` — a match of the line alone is a match in the haystack (always needed: no false negatives) — and, only for a
matcher that answers `Confirmed` (`verifyOnLine = false`), `hlower` — the converse. -/
theorem bridge_contract_core (isWord : Nat → Bool) (rcfg : Rx.Config) (pats : List Bytes) (translated : Rx.Hir)
    (accelerated : Bool) (optimize : Rx.Seq → Rx.Seq) (norm : Rx.Hir → Rx.Hir) (shortest : Bytes → Option Nat)
    (m : Rx.MatcherM) (hb : rcfg.build pats translated accelerated optimize norm = .ok m)
    (hnorm : ∀ h hay s e, Rx.Matches (Rx.lookAt isWord) (norm h) hay s e ↔ Rx.Matches (Rx.lookAt isWord) h hay s e)
    (hopt : C11.OptimizeCert optimize m.hir ((rcfg.lineTerm.map Rx.LineTerm.bytes).getD []))
    (heng : C11.EngineSpec (Rx.lookAt isWord) m.hir shortest)
    (hterm : rcfg.lineTerm = some (.byte 10))
    (hlits : ∀ L, m.fastLits = some L → ∀ l ∈ L, l.bytes ≠ [] ∧ 10 ∉ l.bytes)
    (G : Bytes → Nat → Nat → Prop)
    (hlift : ∀ (hay : Bytes) (w c : Nat), G hay w c → (w = 0 ∨ hay[w - 1]? = some 10) →
      (w + c = hay.length ∨ hay[w + c]? = some 10) → w + c ≤ hay.length → ∀ s e, w ≤ s → s ≤ e → e ≤ w + c →
      Rx.Matches (Rx.lookAt isWord) m.hir ((hay.drop w).take c) (s - w) (e - w) →
      Rx.Matches (Rx.lookAt isWord) m.hir hay s e)
    (hlower : m.verifyOnLine = false → ∀ (hay : Bytes) (w c : Nat), G hay w c → (w = 0 ∨ hay[w - 1]? = some 10) →
      (w + c = hay.length ∨ hay[w + c]? = some 10) → w + c ≤ hay.length → ∀ s e, w ≤ s → s ≤ e → e ≤ w + c →
      Rx.Matches (Rx.lookAt isWord) m.hir hay s e →
      Rx.Matches (Rx.lookAt isWord) m.hir ((hay.drop w).take c) (s - w) (e - w)) :
    MatchContract 10 (bridge m shortest) (Rx.Matches (Rx.lookAt isWord) m.hir) G := by
  have hno : ∀ {hay s e}, Rx.Matches (Rx.lookAt isWord) m.hir hay s e → Rx.NoByteIn 10 hay s e := by
    intro hay s e hm
    have := C01Regex.C01_regex_no_terminator (Rx.lookAt isWord) rcfg pats translated accelerated optimize norm shortest m
      hb (fun h hay s e => (hnorm h hay s e).1) hopt heng hay s e hm 10 (by simp [hterm, Rx.LineTerm.bytes])
    exact (Rx.noByteIn_iff 10 hay s e).2 this
  have hcand : ∀ {hay s e}, Rx.Matches (Rx.lookAt isWord) m.hir hay s e →
      ∃ c, m.findCandidateLine shortest hay = some c ∧ Rx.NoByteIn 10 hay e c.offset := by
    intro hay s e hm
    obtain ⟨c, h1, h2⟩ := C01Regex.C01_regex_candidate (Rx.lookAt isWord) rcfg pats translated accelerated optimize norm
      shortest m hb (fun h hay s e => (hnorm h hay s e).1) hopt heng hay s e hm
    exact ⟨c, h1, h2 10 (by simp [hterm, Rx.LineTerm.bytes])⟩
  constructor
  · intro hay s e hm; exact hm.span
  · intro hay s e hm x h1 h2; exact hno hm x h1 h2
  · intro hay i h; rw [bridge_shortest] at h; exact heng.some_ hay i h
  · intro hay h; rw [bridge_shortest] at h; exact heng.none_ hay h
  · exact hlift
  · intro hconf; exact hlower (confirmed_not_verify m shortest hconf)
  · intro hay h s e hm
    obtain ⟨c, h1, _⟩ := hcand hm
    simp only [bridge] at h
    rw [h1] at h
    cases h
  · intro hay i h
    simp only [bridge, Rx.MatcherM.findCandidateLine] at h ⊢
    cases hf : m.fastLits with
    | some Ls => rw [hf] at h; cases hff : Rx.fastFind Ls hay <;> simp [hff, convCand] at h
    | none =>
      rw [hf] at h
      cases hv : m.verifyOnLine with
      | true => rw [hv] at h; cases hs : shortest hay <;> simp [hs, convCand] at h
      | false =>
        rw [hv] at h
        cases hs : shortest hay with
        | none => simp [hs] at h
        | some k => simp [hs, convCand] at h; subst h; rfl
  · intro hay i h
    simp only [bridge, Rx.MatcherM.findCandidateLine] at h
    cases hf : m.fastLits with
    | none =>
      rw [hf] at h
      cases hv : m.verifyOnLine with
      | false => rw [hv] at h; cases hs : shortest hay <;> simp [hs, convCand] at h
      | true =>
        -- the end of the engine's match, to be judged on the line by the searcher
        rw [hv] at h
        right
        rw [bridge_shortest]
        cases hs : shortest hay with
        | none => simp [hs] at h
        | some k => simp [hs, convCand] at h; subst h; rfl
    | some Ls =>
      left
      rw [hf] at h
      cases hff : Rx.fastFind Ls hay with
      | none => simp [hff] at h
      | some k =>
        simp only [hff, Option.map_some, convCand, Option.some.injEq, LineMatchKind.candidate.injEq] at h
        subst h
        obtain ⟨q, l, hl, hpre, hk⟩ := fastFindFrom_some Ls hay _ 0 k hff
        obtain ⟨hne, hnt⟩ := hlits Ls hf l hl
        have hlen : 0 < l.bytes.length := List.length_pos_iff.mpr hne
        have hple := hpre.length_le
        simp only [List.length_drop] at hple
        have hcand_eq : m.findCandidateLine shortest hay = some (.candidate k) := by
          simp [Rx.MatcherM.findCandidateLine, hf, hff]
        refine ⟨by omega, by omega, ?_, ?_⟩
        · -- the byte before the offset is the last byte of the literal
          have := Rx.prefix_drop_noByte hpre hnt
          exact this (k - 1) (by omega) (by omega)
        · intro s e hm x h1 h2
          obtain ⟨c, hc1, hc2⟩ := hcand hm
          rw [hcand_eq] at hc1
          cases hc1
          exact hc2 x h1 h2

/-- the built matcher meets the matcher-level contract for LF, given context independence on the line
windows that pass the guard `G` -/
theorem bridge_contract_gen (isWord : Nat → Bool) (rcfg : Rx.Config) (pats : List Bytes) (translated : Rx.Hir)
    (accelerated : Bool) (optimize : Rx.Seq → Rx.Seq) (norm : Rx.Hir → Rx.Hir) (shortest : Bytes → Option Nat)
    (m : Rx.MatcherM) (hb : rcfg.build pats translated accelerated optimize norm = .ok m)
    (hnorm : ∀ h hay s e, Rx.Matches (Rx.lookAt isWord) (norm h) hay s e ↔ Rx.Matches (Rx.lookAt isWord) h hay s e)
    (hopt : C11.OptimizeCert optimize m.hir ((rcfg.lineTerm.map Rx.LineTerm.bytes).getD []))
    (heng : C11.EngineSpec (Rx.lookAt isWord) m.hir shortest)
    (hterm : rcfg.lineTerm = some (.byte 10))
    (hlits : ∀ L, m.fastLits = some L → ∀ l ∈ L, l.bytes ≠ [] ∧ 10 ∉ l.bytes)
    (G : Bytes → Nat → Nat → Prop)
    (hctx : ∀ (hay : Bytes) (w c : Nat), G hay w c → (w = 0 ∨ hay[w - 1]? = some 10) →
      (w + c = hay.length ∨ hay[w + c]? = some 10) → w + c ≤ hay.length → ∀ s e, w ≤ s → s ≤ e → e ≤ w + c →
      (Rx.Matches (Rx.lookAt isWord) m.hir hay s e ↔
        Rx.Matches (Rx.lookAt isWord) m.hir ((hay.drop w).take c) (s - w) (e - w))) :
    MatchContract 10 (bridge m shortest) (Rx.Matches (Rx.lookAt isWord) m.hir) G :=
  bridge_contract_core isWord rcfg pats translated accelerated optimize norm shortest m hb hnorm hopt heng hterm hlits G
    (fun hay w c hg hb1 ha hle s e h1 h2 h3 => (hctx hay w c hg hb1 ha hle s e h1 h2 h3).2)
    (fun _ hay w c hg hb1 ha hle s e h1 h2 h3 => (hctx hay w c hg hb1 ha hle s e h1 h2 h3).1)

/-- **A matcher built with `verify_on_line`** (its look-arounds can see beyond the line; /repo 4165f41): only the
"no false negative" half of context independence is needed — the searcher judges every candidate line on its own, as
the slow path does. -/
theorem bridge_contract_verify (isWord : Nat → Bool) (rcfg : Rx.Config) (pats : List Bytes) (translated : Rx.Hir)
    (accelerated : Bool) (optimize : Rx.Seq → Rx.Seq) (norm : Rx.Hir → Rx.Hir) (shortest : Bytes → Option Nat)
    (m : Rx.MatcherM) (hb : rcfg.build pats translated accelerated optimize norm = .ok m)
    (hnorm : ∀ h hay s e, Rx.Matches (Rx.lookAt isWord) (norm h) hay s e ↔ Rx.Matches (Rx.lookAt isWord) h hay s e)
    (hopt : C11.OptimizeCert optimize m.hir ((rcfg.lineTerm.map Rx.LineTerm.bytes).getD []))
    (heng : C11.EngineSpec (Rx.lookAt isWord) m.hir shortest)
    (hterm : rcfg.lineTerm = some (.byte 10))
    (hlits : ∀ L, m.fastLits = some L → ∀ l ∈ L, l.bytes ≠ [] ∧ 10 ∉ l.bytes)
    (hv : m.verifyOnLine = true)
    (G : Bytes → Nat → Nat → Prop)
    (hlift : ∀ (hay : Bytes) (w c : Nat), G hay w c → (w = 0 ∨ hay[w - 1]? = some 10) →
      (w + c = hay.length ∨ hay[w + c]? = some 10) → w + c ≤ hay.length → ∀ s e, w ≤ s → s ≤ e → e ≤ w + c →
      Rx.Matches (Rx.lookAt isWord) m.hir ((hay.drop w).take c) (s - w) (e - w) →
      Rx.Matches (Rx.lookAt isWord) m.hir hay s e) :
    MatchContract 10 (bridge m shortest) (Rx.Matches (Rx.lookAt isWord) m.hir) G :=
  bridge_contract_core isWord rcfg pats translated accelerated optimize norm shortest m hb hnorm hopt heng hterm hlits G
    hlift (fun h => by rw [hv] at h; exact Bool.noConfusion h)

/-- **the built matcher meets the matcher-level contract** (LF terminator, look-arounds that are LF anchors or
ASCII word assertions, well-formed prefilter literals); no guard on the windows -/
theorem bridge_contract (isWord : Nat → Bool) (rcfg : Rx.Config) (pats : List Bytes) (translated : Rx.Hir)
    (accelerated : Bool) (optimize : Rx.Seq → Rx.Seq) (norm : Rx.Hir → Rx.Hir) (shortest : Bytes → Option Nat)
    (m : Rx.MatcherM) (hb : rcfg.build pats translated accelerated optimize norm = .ok m)
    (hnorm : ∀ h hay s e, Rx.Matches (Rx.lookAt isWord) (norm h) hay s e ↔ Rx.Matches (Rx.lookAt isWord) h hay s e)
    (hopt : C11.OptimizeCert optimize m.hir ((rcfg.lineTerm.map Rx.LineTerm.bytes).getD []))
    (heng : C11.EngineSpec (Rx.lookAt isWord) m.hir shortest)
    (hterm : rcfg.lineTerm = some (.byte 10))
    (hsafe : Rx.allLooks Rx.safeLookLF m.hir = true)
    (hlits : ∀ L, m.fastLits = some L → ∀ l ∈ L, l.bytes ≠ [] ∧ 10 ∉ l.bytes) :
    MatchContract 10 (bridge m shortest) (Rx.Matches (Rx.lookAt isWord) m.hir) (fun _ _ _ => True) := by
  apply bridge_contract_gen isWord rcfg pats translated accelerated optimize norm shortest m hb hnorm hopt heng hterm hlits
  intro hay w c _ hbefore hafter hle s e h1 h2 h3
  have hl : Rx.IsLine 10 hay w (w + c) := ⟨hle, Nat.le_add_right _ _, hbefore, hafter⟩
  have := C01Regex.LineSafeB_partial isWord m.hir hsafe hay w (w + c) hl s e h1 h2 h3
  have hs : Rx.slice hay w (w + c) = (hay.drop w).take c := by simp [Rx.slice]
  rw [hs] at this
  exact this

/-- window guard of the Unicode variant: the window is empty or does not start with a UTF-8 continuation byte -/
def NoContStart (hay : Bytes) (w c : Nat) : Prop := c = 0 ∨ Rx.isContByte (hay.getD w 0) = false

/-- the same including the Unicode word assertions (ripgrep's default `-w`), on windows that do not start with a
UTF-8 continuation byte (finding F24 is exactly the excluded case) -/
theorem bridge_contract_unicode (isWord : Nat → Bool) (hw : isWord 10 = false) (rcfg : Rx.Config) (pats : List Bytes)
    (translated : Rx.Hir)
    (accelerated : Bool) (optimize : Rx.Seq → Rx.Seq) (norm : Rx.Hir → Rx.Hir) (shortest : Bytes → Option Nat)
    (m : Rx.MatcherM) (hb : rcfg.build pats translated accelerated optimize norm = .ok m)
    (hnorm : ∀ h hay s e, Rx.Matches (Rx.lookAt isWord) (norm h) hay s e ↔ Rx.Matches (Rx.lookAt isWord) h hay s e)
    (hopt : C11.OptimizeCert optimize m.hir ((rcfg.lineTerm.map Rx.LineTerm.bytes).getD []))
    (heng : C11.EngineSpec (Rx.lookAt isWord) m.hir shortest)
    (hterm : rcfg.lineTerm = some (.byte 10))
    (hsafe : Rx.allLooks (fun k => Rx.safeLookLF k || Rx.safeLookU k) m.hir = true)
    (hlits : ∀ L, m.fastLits = some L → ∀ l ∈ L, l.bytes ≠ [] ∧ 10 ∉ l.bytes) :
    MatchContract 10 (bridge m shortest) (Rx.Matches (Rx.lookAt isWord) m.hir) NoContStart := by
  apply bridge_contract_gen isWord rcfg pats translated accelerated optimize norm shortest m hb hnorm hopt heng hterm hlits
  intro hay w c hg hbefore hafter hle s e h1 h2 h3
  have hl : Rx.IsLineU hay w (w + c) :=
    { le_len := hle, ls_le := Nat.le_add_right _ _, before := hbefore, after := hafter
      guard := by rcases hg with h | h
                  · left; omega
                  · right; exact h }
  have := C01Regex.LineSafeB_partial_unicode isWord hw m.hir hsafe hay w (w + c) hl s e h1 h2 h3
  have hs : Rx.slice hay w (w + c) = (hay.drop w).take c := by simp [Rx.slice]
  rw [hs] at this
  exact this

end RgVerif.Props.C01
