import RgVerif.Lemmas.ParWalkProgress
/-
C07 deadlock freedom: from every reachable state that is not final, some worker — running alone —
reaches a measure-lowering step after finitely many idle-loop steps.
-/
namespace RgVerif.ParWalk

/-- Every worker that has not exited has an enabled step (nothing ever blocks). -/
theorem live_can_step {n : Nat} {s : State} {w : Nat} (hw : w < n)
    (hl : (s.pc w).isExited = false) : ∃ s', Step n s w s' := by
  cases hpc : s.pc w with
  | recv b =>
    cases hdq : s.dq w with
    | nil => exact ⟨_, .popEmpty hdq hw hpc⟩
    | cons m d => exact ⟨_, .popOk hdq hw hpc⟩
  | steal b vs =>
    cases vs with
    | nil => exact ⟨_, .stealDone hw hpc⟩
    | cons v vs => exact ⟨_, .stealFail hw hpc⟩
  | activate m => exact ⟨_, .activate hw hpc⟩
  | check v =>
    cases hq : s.quitNow with
    | true => exact ⟨_, .checkQuitNow hq hw hpc⟩
    | false =>
      rcases v with _ | m
      · exact ⟨_, .checkNone hq hw hpc⟩
      · cases m with
        | work t => exact ⟨_, .checkWork hq hw hpc⟩
        | quit => exact ⟨_, .checkQuit hq hw hpc⟩
  | hold t => exact ⟨_, .visitCont hw hpc⟩
  | running ks =>
    cases ks with
    | nil => exact ⟨_, .runDone hw hpc⟩
    | cons k ks => exact ⟨_, .push hw hpc⟩
  | setQuit => exact ⟨_, .setQuit hw hpc⟩
  | deact =>
    by_cases hz : s.active - 1 = 0
    · exact ⟨_, .deactZero hz hw hpc⟩
    · exact ⟨_, .deactWait hz hw hpc⟩
  | sleep => exact ⟨_, .sleep hw hpc⟩
  | sendQuit c => exact ⟨_, .sendQuit hw hpc⟩
  | exiting c => exact ⟨_, .exit hw hpc⟩
  | exited c => rw [hpc] at hl; cases hl

/-- A step that does not end in the idle loop lowers the measure. -/
theorem step_mu_lt {n : Nat} {s s' : State} {w : Nat} (hs : Step n s w s')
    (h : (s.pc w).idle = false ∨ (s'.pc w).idle = false) : mu n s' < mu n s := by
  rcases step_mu hs with h1 | ⟨_, h2, h3, _⟩
  · exact h1
  · rcases h with h | h
    · rw [h2] at h; cases h
    · rw [h3] at h; cases h

def setPc (s : State) (w : Nat) (P : Pc) : State := { s with pc := upd s.pc w P }

theorem upd_upd {α : Type} (f : Nat → α) (i : Nat) (a b : α) : upd (upd f i a) i b = upd f i b := by
  funext j; simp only [upd]; split <;> rfl

theorem upd_self {α : Type} (f : Nat → α) (i : Nat) : upd f i (f i) = f := by
  funext j; simp only [upd]; split
  · subst_vars; rfl
  · rfl

theorem setPc_setPc (s : State) (w : Nat) (P Q : Pc) : setPc (setPc s w P) w Q = setPc s w Q := by
  simp only [setPc, upd_upd]

theorem setPc_self {s : State} {w : Nat} {P : Pc} (h : s.pc w = P) : setPc s w P = s := by
  subst h
  cases s
  simp only [setPc, upd_self]

@[simp] theorem setPc_pc (s : State) (w : Nat) (P : Pc) : (setPc s w P).pc w = P := by
  simp [setPc]

@[simp] theorem setPc_dq (s : State) (w : Nat) (P : Pc) : (setPc s w P).dq = s.dq := rfl

theorem stutter_setPc {s : State} {w : Nat} {P : Pc} (h1 : (s.pc w).idle = true)
    (h2 : P.idle = true) : Stutter s w (setPc s w P) := by
  refine ⟨h1, by simpa using h2, rfl, rfl, rfl, rfl, rfl, ?_⟩
  intro u hu
  exact upd_other _ _ hu

theorem stutter_setPc2 {s : State} {w : Nat} {P Q : Pc} (h1 : P.idle = true)
    (h2 : Q.idle = true) : Stutter (setPc s w P) w (setPc s w Q) := by
  have := stutter_setPc (s := setPc s w P) (w := w) (P := Q) (by simpa using h1) h2
  rwa [setPc_setPc] at this

/-- Worker `w` alone performs idle-loop (stutter) steps. -/
inductive StutterPath (n w : Nat) : State → State → Prop where
  | refl {s : State} : StutterPath n w s s
  | head {s s1 s2 : State} : Step n s w s1 → Stutter s w s1 → StutterPath n w s1 s2 →
      StutterPath n w s s2

theorem StutterPath.trans {n w : Nat} {a b c : State} (h1 : StutterPath n w a b)
    (h2 : StutterPath n w b c) : StutterPath n w a c := by
  induction h1 with
  | refl => exact h2
  | head hs hst _ ih => exact .head hs hst (ih h2)

theorem StutterPath.single {n w : Nat} {a b : State} (hs : Step n a w b) (hst : Stutter a w b) :
    StutterPath n w a b := .head hs hst .refl

/-- Failing on the victims `pre` of the current round. -/
theorem path_fail {n w : Nat} (hw : w < n) (pre vs : List Nat) (s : State)
    (hpc : s.pc w = .steal true (pre ++ vs)) :
    StutterPath n w s (setPc s w (.steal true vs)) := by
  induction pre generalizing s with
  | nil => rw [setPc_self (by simpa using hpc)]; exact .refl
  | cons v pre ih =>
    have hs : Step n s w (setPc s w (.steal true (pre ++ vs))) := .stealFail hw hpc
    have hst : Stutter s w (setPc s w (.steal true (pre ++ vs))) :=
      stutter_setPc (by rw [hpc]; rfl) rfl
    have := ih (setPc s w (.steal true (pre ++ vs))) (by simp)
    rw [setPc_setPc] at this
    exact .head hs hst this

/-- From anywhere in the idle loop the worker gets back to `recv()`. -/
theorem path_to_recv {n w : Nat} (hw : w < n) (s : State) (hi : (s.pc w).idle = true) :
    StutterPath n w s (setPc s w (.recv true)) := by
  cases hpc : s.pc w with
  | recv b =>
    cases b with
    | true => rw [setPc_self hpc]; exact .refl
    | false => rw [hpc] at hi; cases hi
  | sleep =>
    exact .single (.sleep hw hpc) (stutter_setPc (by rw [hpc]; rfl) rfl)
  | steal b vs =>
    cases b with
    | false => rw [hpc] at hi; cases hi
    | true =>
      have p1 := path_fail hw vs [] s (by simpa using hpc)
      have s2 : Step n (setPc s w (.steal true [])) w (setPc (setPc s w (.steal true [])) w .sleep) :=
        .stealDone (b := true) hw (by simp)
      have s3 : Step n (setPc s w .sleep) w (setPc (setPc s w .sleep) w (.recv true)) :=
        .sleep hw (by simp)
      rw [setPc_setPc] at s2 s3
      refine p1.trans (.head s2 (stutter_setPc2 rfl rfl) ?_)
      rw [← setPc_setPc s w (.steal true []) .sleep]
      have := StutterPath.single s3 (stutter_setPc2 rfl rfl)
      rw [setPc_setPc]
      exact this
  | _ => rw [hpc] at hi; cases hi

theorem exists_concat {α : Type} (l : List α) (h : l ≠ []) : ∃ keep m, l = keep ++ [m] := by
  induction l with
  | nil => exact absurd rfl h
  | cons a l ih =>
    cases l with
    | nil => exact ⟨[], a, rfl⟩
    | cons b l =>
      obtain ⟨k, m, hk⟩ := ih (by simp)
      exact ⟨a :: k, m, by rw [hk]; rfl⟩

/-- An idle worker that is live reaches a measure-lowering step on its own as soon as some deque
holds a message. -/
theorem idle_progress {n w v : Nat} (hw : w < n) (hv : v < n) (s : State)
    (hi : (s.pc w).idle = true) (hdq : s.dq v ≠ []) :
    ∃ s1 s2, StutterPath n w s s1 ∧ Step n s1 w s2 ∧ mu n s2 < mu n s1 := by
  have p0 := path_to_recv hw s hi
  cases hown : s.dq w with
  | cons m d =>
    have st : Step n (setPc s w (.recv true)) w _ :=
      .popOk (b := true) (m := m) (d := d) (by simpa using hown) hw (by simp)
    refine ⟨_, _, p0, st, step_mu_lt st (Or.inr ?_)⟩
    · simp [setPc, afterRecv, Pc.idle]
  | nil =>
    have hne : v ≠ w := by intro e; subst e; exact hdq hown
    obtain ⟨pre, post, ho⟩ := List.append_of_mem (mem_order hw hv hne)
    have s1 : Step n (setPc s w (.recv true)) w
        (setPc (setPc s w (.recv true)) w (.steal true (order n w))) :=
      .popEmpty (by simpa using hown) hw (by simp)
    rw [setPc_setPc] at s1
    have p1 := StutterPath.single s1 (stutter_setPc2 rfl rfl)
    have p2 := path_fail hw pre (v :: post) (setPc s w (.steal true (order n w)))
      (by simp [ho])
    rw [setPc_setPc] at p2
    obtain ⟨keep, m, hk⟩ := exists_concat (s.dq v) hdq
    have st : Step n (setPc s w (.steal true (v :: post))) w _ :=
      .stealOk (b := true) (vs := post) (keep := keep) (m := m) (rest := []) hv hne (by simpa using hk) hw (by simp)
    refine ⟨_, _, p0.trans (p1.trans p2), st, step_mu_lt st (Or.inr ?_)⟩
    simp [afterRecv, Pc.idle]

theorem idle_facts {p : Pc} (h : p.idle = true) :
    p.counted = 0 ∧ p.zeroed = 0 ∧ p.quitHand = 0 ∧ p.isExited = false := by
  cases p <;> simp_all [Pc.idle, Pc.counted, Pc.zeroed, Pc.quitHand, Pc.isExited]
  all_goals (rename Bool => b; cases b <;> simp_all)

theorem exited_facts {p : Pc} (h : p.isExited = true) : p.quitHand = 0 ∧ p.gone = 1 := by
  cases p <;> simp_all [Pc.isExited, Pc.quitHand, Pc.gone]

/-- If every live worker sits in the idle loop (and somebody is live), a message lies in some deque:
somebody has exited (counter invariant), so a `Quit` exists (domino), and nobody holds it in hand. -/
theorem idle_has_msg {n : Nat} {roots : List Tree} {s : State} (hn : 0 < n)
    (h : Reachable n roots s)
    (hall : ∀ u, u < n → (s.pc u).isExited = true ∨ (s.pc u).idle = true) :
    ∃ v, v < n ∧ s.dq v ≠ [] := by
  obtain ⟨_, hpos⟩ := reachable_count hn h
  have hex : ∃ u, u < n ∧ (s.pc u).isExited = true := by
    by_cases hc : 0 < sumTo n (Pc.counted ∘ s.pc)
    · obtain ⟨u, hu, hp⟩ := sumTo_pos hc
      refine ⟨u, hu, ?_⟩
      rcases hall u hu with h1 | h1
      · exact h1
      · have := (idle_facts h1).1
        simp only [Function.comp] at hp; omega
    · have hz : 0 < sumTo n (Pc.zeroed ∘ s.pc) := by omega
      obtain ⟨u, hu, hp⟩ := sumTo_pos hz
      refine ⟨u, hu, ?_⟩
      rcases hall u hu with h1 | h1
      · exact h1
      · have := (idle_facts h1).2.1
        simp only [Function.comp] at hp; omega
  obtain ⟨u, hu, hue⟩ := hex
  have hgone : 0 < sumTo n (Pc.gone ∘ s.pc) := by
    have := le_sumTo (Pc.gone ∘ s.pc) hu
    simp only [Function.comp, (exited_facts hue).2] at this
    omega
  have hq := reachable_quitinv h hgone
  unfold quits at hq
  have hnohand : sumTo n (Pc.quitHand ∘ s.pc) = 0 := by
    apply sumTo_zero
    intro x hx
    simp only [Function.comp]
    rcases hall x hx with h1 | h1
    · exact (exited_facts h1).1
    · exact (idle_facts h1).2.2.1
  have hpos2 : 0 < sumTo n (dqQuits ∘ s.dq) := by omega
  obtain ⟨v, hv, hvq⟩ := sumTo_pos hpos2
  refine ⟨v, hv, ?_⟩
  intro e
  simp only [Function.comp, e, dqQuits_nil] at hvq
  omega

/-- Deadlock freedom: in every reachable state in which not every worker has exited, some worker
— running alone — reaches a step that lowers the termination measure after finitely many idle-loop
steps (none, unless every live worker sits in the idle loop; then a `Quit` or work message lies in
some deque and the next steal round that reaches it is such a step). -/
theorem progress_possible {n : Nat} {roots : List Tree} {s : State} (hn : 0 < n)
    (h : Reachable n roots s) (hne : ¬ AllExited n s) :
    ∃ w, w < n ∧ ∃ s1 s2, StutterPath n w s s1 ∧ Step n s1 w s2 ∧ mu n s2 < mu n s1 := by
  by_cases hA : ∃ w, w < n ∧ (s.pc w).isExited = false ∧ (s.pc w).idle = false
  · obtain ⟨w, hw, hl, hi⟩ := hA
    obtain ⟨s', hs⟩ := live_can_step hw hl
    exact ⟨w, hw, s, s', .refl, hs, step_mu_lt hs (Or.inl hi)⟩
  · have hall : ∀ u, u < n → (s.pc u).isExited = true ∨ (s.pc u).idle = true := by
      intro u hu
      cases he : (s.pc u).isExited with
      | true => exact Or.inl rfl
      | false =>
        cases hi : (s.pc u).idle with
        | true => exact Or.inr rfl
        | false => exact absurd ⟨u, hu, he, hi⟩ hA
    have hlive : ∃ w, w < n ∧ (s.pc w).isExited = false := by
      apply Classical.byContradiction
      intro hcon
      apply hne
      intro w hw
      cases he : (s.pc w).isExited with
      | true => rfl
      | false => exact absurd ⟨w, hw, he⟩ hcon
    obtain ⟨w, hw, hl⟩ := hlive
    have hwi : (s.pc w).idle = true := by
      rcases hall w hw with h1 | h1
      · rw [h1] at hl; cases hl
      · exact h1
    obtain ⟨v, hv, hdq⟩ := idle_has_msg hn h hall
    obtain ⟨s1, s2, hp, hst, hlt⟩ := idle_progress hw hv s hwi hdq
    exact ⟨w, hw, s1, s2, hp, hst, hlt⟩

/-! ### Finite runs -/

/-- `Run n s k s'`: some interleaving leads from `s` to `s'` with exactly `k` measure-lowering
(non-stutter) steps and any number of stutter steps. -/
inductive Run (n : Nat) : State → Nat → State → Prop where
  | refl {s : State} : Run n s 0 s
  | stutter {s s1 s2 : State} {k w : Nat} : Run n s k s1 → Step n s1 w s2 → mu n s2 = mu n s1 →
      Run n s k s2
  | progress {s s1 s2 : State} {k w : Nat} : Run n s k s1 → Step n s1 w s2 → mu n s2 < mu n s1 →
      Run n s (k + 1) s2

theorem Run.bound {n : Nat} {s s' : State} {k : Nat} (h : Run n s k s') : k + mu n s' ≤ mu n s := by
  induction h with
  | refl => omega
  | stutter _ _ he ih => omega
  | progress _ _ hl ih => omega

theorem Run.step {n : Nat} {s s1 s2 : State} {k w : Nat} (h : Run n s k s1) (hs : Step n s1 w s2) :
    ∃ k', Run n s k' s2 := by
  rcases step_mu hs with h1 | ⟨h1, _⟩
  · exact ⟨k + 1, .progress h hs h1⟩
  · exact ⟨k, .stutter h hs h1⟩

theorem Run.reachable {n : Nat} {roots : List Tree} {s s' : State} {k : Nat}
    (h : Run n s k s') (hr : Reachable n roots s) : Reachable n roots s' := by
  induction h with
  | refl => exact hr
  | stutter _ hs _ ih => exact .step ih hs
  | progress _ hs _ ih => exact .step ih hs

theorem Run.trans {n : Nat} {a b c : State} {k j : Nat} (h1 : Run n a k b) (h2 : Run n b j c) :
    Run n a (k + j) c := by
  induction h2 with
  | refl => exact h1
  | stutter _ hs he ih => exact .stutter ih hs he
  | progress _ hs hl ih => exact .progress ih hs hl

theorem idle_cost {n : Nat} {p : Pc} (h : p.idle = true) : p.cost n = 6 := by
  cases p <;> simp_all [Pc.idle, Pc.cost]
  all_goals (rename Bool => b; cases b <;> simp_all [Pc.cost])

theorem stutter_mu {n : Nat} {s s' : State} {w : Nat} (h : Stutter s w s') : mu n s' = mu n s := by
  obtain ⟨h1, h2, h3, _, _, _, _, h4⟩ := h
  unfold mu
  rw [h3]
  congr 1
  apply sumTo_congr
  intro u _
  simp only [Function.comp]
  by_cases e : u = w
  · subst e; rw [idle_cost h1, idle_cost h2]
  · rw [h4 u e]

theorem StutterPath.run {n w : Nat} {a b : State} (h : StutterPath n w a b) : Run n a 0 b := by
  induction h with
  | refl => exact .refl
  | @head s s1 s2 hs hst _ ih =>
    have r1 : Run n s 0 s1 := .stutter .refl hs (stutter_mu hst)
    have := Run.trans r1 ih
    simpa using this

/-- From every reachable state the walk *can* finish (some continuation reaches `AllExited`). -/
theorem can_finish {n : Nat} {roots : List Tree} (hn : 0 < n) :
    ∀ (m : Nat) (s : State), mu n s ≤ m → Reachable n roots s →
      ∃ k s', Run n s k s' ∧ AllExited n s' := by
  intro m
  induction m with
  | zero =>
    intro s hm hr
    by_cases hA : AllExited n s
    · exact ⟨0, s, .refl, hA⟩
    · obtain ⟨w, _, s1, s2, hp, hst, hlt⟩ := progress_possible hn hr hA
      have := hp.run.bound
      omega
  | succ m ih =>
    intro s hm hr
    by_cases hA : AllExited n s
    · exact ⟨0, s, .refl, hA⟩
    · obtain ⟨w, _, s1, s2, hp, hst, hlt⟩ := progress_possible hn hr hA
      have hb := hp.run.bound
      have r2 : Run n s (0 + 1) s2 := .progress hp.run hst hlt
      obtain ⟨k, s', hr', hA'⟩ := ih s2 (by omega) (r2.reachable hr)
      exact ⟨_, s', r2.trans hr', hA'⟩

/-! ### Closed form of the initial measure -/

mutual
theorem cost_eq (n : Nat) : (t : Tree) → t.cost n + 1 = t.entries.length * (n + 12)
  | .node l ks => by
    have := costL_eq n ks
    simp only [Tree.cost, Tree.entries, List.length_cons, Nat.succ_mul]
    omega
theorem costL_eq (n : Nat) : (ts : List Tree) → costL n ts = (entriesL ts).length * (n + 12)
  | [] => by simp [costL, entriesL]
  | t :: ts => by
    have h1 := cost_eq n t
    have h2 := costL_eq n ts
    simp only [costL, entriesL, List.length_append, Nat.add_mul]
    omega
end

theorem sumTo_const (n c : Nat) : sumTo n (fun _ => c) = n * c := by
  induction n with
  | zero => simp [sumTo]
  | succ k ih => simp only [sumTo, ih, Nat.succ_mul]

theorem distribute_cost (n : Nat) (hn : 0 < n) (rs : List Tree) (i : Nat) (acc : Nat → List Msg) :
    sumTo n (dqCost n ∘ distribute n rs i acc) + rs.length = sumTo n (dqCost n ∘ acc) + costL n rs := by
  induction rs generalizing i acc with
  | nil => simp [distribute, costL]
  | cons r rs ih =>
    simp only [distribute, List.length_cons, costL]
    have := ih (i + 1) (upd acc (i % n) (.work r :: acc (i % n)))
    rw [comp_upd] at this
    obtain ⟨q, h1, h2⟩ := sumTo_split (dqCost n ∘ acc) (Nat.mod_lt i hn)
    rw [h2] at this
    rw [h1]
    simp only [Function.comp, dqCost_cons, Msg.cost] at this ⊢
    omega

/-- The initial measure: at most `n·(n+9) + |entries|·(n+12)`. -/
theorem mu_init_le (n : Nat) (hn : 0 < n) (roots : List Tree) :
    mu n (init n roots) ≤ n * (n + 9) + (entriesL roots).length * (n + 12) := by
  unfold mu init
  simp only
  have h1 : sumTo n (Pc.cost n ∘ fun _ => Pc.recv false) = n * (n + 9) := by
    rw [← sumTo_const n (n + 9)]
    exact sumTo_congr (fun i _ => rfl)
  have h2 := distribute_cost n hn roots 0 (fun _ => [])
  have h3 : sumTo n (dqCost n ∘ fun _ => ([] : List Msg)) = 0 :=
    sumTo_zero (by intro i _; simp [Function.comp])
  have h4 := costL_eq n roots
  rw [h1]
  omega

end RgVerif.ParWalk
