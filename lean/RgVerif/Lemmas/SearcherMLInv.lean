import RgVerif.Lemmas.SearcherMLTop
import RgVerif.Lemmas.SearcherFast
/-
`MultiLine::run` with inversion: the sink is told the grep model for the lines outside the line ranges of the
matches that the inverted scan finds (`mlSpecInv`).
-/
namespace RgVerif.Searcher
open RgVerif RgVerif.Matcher RgVerif.Lines RgVerif.GrepSpec RgVerif.MLSpec

theorem mlMatchedLoop_eq (cfg : Config) (σ : Script) (buf : Bytes) : ∀ (lines : List Span) (st : Core),
    (∀ l ∈ lines, nonEmpty l = true) → mlMatchedLoop cfg σ buf lines st = matchedLoop cfg σ buf lines st := by
  intro lines
  induction lines with
  | nil => intro st _; rfl
  | cons l rest ih =>
    intro st h
    have hl : ¬ ((l.e - l.s == 0) = true) := by
      have := h l (List.mem_cons_self ..); simpa [nonEmpty] using this
    unfold mlMatchedLoop matchedLoop
    simp only [mlSinkMatched, if_neg hl, matched]
    rcases sinkMatched cfg σ buf st l with ⟨st1, b | _⟩
    · cases b
      · rfl
      · exact ih st1 (fun x hx => h x (List.mem_cons_of_mem _ hx))
    · rfl

section
variable {t : Nat} {buf : Bytes} {sl : List SLine} {cfg : Config}

/-- context, then one `matched` per line of the gap `[p, a)` of selected lines -/
theorem ml_invert_gap (L : Layout t buf sl) (ht : cfg.lineTerm.asByte = t) (hbin : cfg.binary = .none)
    (hpt0 : cfg.passthru = true → cfg.afterContext = 0)
    {v p a : Nat} {st : Core} (hI : Inv cfg sl v st) (hvp : v ≤ p) (hpa : p < a) (ha : a ≤ sl.length)
    (hu : Unsel sl v p) (hsel : ∀ j, p ≤ j → j < a → selAt sl j = true)
    (hacl : AclOK cfg.afterContext sl v st.afterContextLeft) :
    ∃ st1 st3, mlSinkContext cfg allCont buf st ⟨offsetAt sl p, offsetAt sl a⟩ = (st1, .ok true) ∧
      mlMatchedLoop cfg allCont buf (stepLines cfg.lineTerm.asByte buf (offsetAt sl p) (offsetAt sl a)) st1
        = (st3, .ok true) ∧
      Inv cfg sl a st3 ∧ st3.afterContextLeft = cfg.afterContext ∧ st3.pos = st.pos := by
  obtain ⟨v2, st2, e2, hI2, hv2, hskip, hf2⟩ :=
    ctx_prelude L ht hbin hpt0 hI hvp (by omega) hu (hsel p (Nat.le_refl _) hpa) hacl (offsetAt sl a)
  obtain ⟨st3, e3, hI3, hacl3, _, hf3⟩ :=
    matchedLoop_spec L ht hbin (a - p) p v2 st2 hI2 hv2 (fun h => by omega) (by omega) hskip
      (fun j h1 h2 => kind_matched (hsel j h1 (by omega)))
  have eq : p + (a - p) = a := by omega
  rw [eq] at hI3
  refine ⟨st2, st3, e2, ?_, hI3, hacl3 (by omega), by rw [hf3.1, hf2.1]⟩
  rw [ht, L.stepLines_index p a (by omega) ha, mlMatchedLoop_eq]
  · exact e3
  · intro l hl
    obtain ⟨j, hj, rfl⟩ := List.mem_map.mp hl
    have hj' := List.mem_range'_1.mp hj
    have := L.off_lt (show j < j + 1 by omega) (by omega)
    simp [nonEmpty, span]; omega

/-- the start of the line of a position at or after the start of line `p` is at or after it -/
theorem lineStartOf_ge (L : Layout t buf sl) (hlen : buf.length = offsetAt sl sl.length) {p s : Nat}
    (hp : p < sl.length) (hps : offsetAt sl p ≤ s) : offsetAt sl p ≤ lineStartOf buf t s := by
  by_cases h0 : p = 0
  · subst h0; rw [off_zero]; exact Nat.zero_le _
  · obtain ⟨body, hb, _⟩ := L.term_of_lt (p - 1) (by omega)
    have hsucc := off_succ sl (p - 1) (by omega)
    have e : p - 1 + 1 = p := by omega
    rw [e, hb] at hsucc
    simp at hsucc
    have hget := Searcher.Layout.get_line L hlen (p - 1) body.length (by omega) (by rw [hb]; simp)
    rw [hb] at hget
    simp at hget
    have hpos : offsetAt sl (p - 1) + body.length = offsetAt sl p - 1 := by omega
    rw [hpos] at hget
    have hget' : (buf.take s)[offsetAt sl p - 1]? = some t := by
      rw [List.getElem?_take_of_lt (by omega)]; exact hget
    obtain ⟨j, hj, hle⟩ := rfindByte_ge hget'
    unfold lineStartOf
    rw [hj]; simp only; omega

end

section
variable {t : Nat} {inp : Bytes} {sl : List SLine} {cfg : Config} {m : MatcherI}

/-- the line range of the match found from the start of line `p`: lines `[a, b)`, `p ≤ a`, and the scan resumes at
the start of line `b > p` -/
theorem line_facts (L : Layout t inp sl) (hlen : inp.length = offsetAt sl sl.length) (hs : SpanSane m inp)
    {p : Nat} (hp : p < sl.length) {mat : Span} (hf : m.findAt inp (offsetAt sl p) = some mat) :
    ∃ a b, p ≤ a ∧ a ≤ b ∧ b ≤ sl.length ∧ p < b ∧ locate inp t mat = ⟨offsetAt sl a, offsetAt sl b⟩ ∧
      nextPos inp.length (locate inp t mat) = offsetAt sl b := by
  obtain ⟨ms, me⟩ := mat
  have hpn := L.off_lt hp (Nat.le_refl _)
  obtain ⟨b1, b2, b3⟩ := hs (offsetAt sl p) ms me (by omega) hf
  obtain ⟨⟨a, ha, hsa⟩, ⟨b, hb, heb⟩⟩ := locate_isB (t := t) L hlen ⟨ms, me⟩
  have hge := lineStartOf_ge (t := t) L hlen hp b1
  have hle := lineStartOf_le inp t ms
  have hbd := locate_e_bounds inp t ⟨ms, me⟩ b3
  have hsa' := hsa
  have heb' := heb
  rw [locate_s] at hsa
  simp only at hsa hbd
  have hpa : p ≤ a := by
    apply Classical.byContradiction; intro h
    have := L.off_lt (show a < p by omega) (by omega); omega
  have hab : a ≤ b := by
    apply Classical.byContradiction; intro h
    have := L.off_lt (show b < a by omega) ha; omega
  have hloc : locate inp t ⟨ms, me⟩ = ⟨offsetAt sl a, offsetAt sl b⟩ := by
    cases hr : locate inp t ⟨ms, me⟩ with
    | mk s e =>
      rw [hr] at hsa' heb'
      simp only at hsa' heb'
      rw [hsa', heb']
  have hpb : p < b := by
    apply Classical.byContradiction; intro h
    have hba : b = a := by omega
    subst hba
    have hemp : (locate inp t ⟨ms, me⟩).e - (locate inp t ⟨ms, me⟩).s = 0 := by rw [hloc]; simp
    have := locate_empty inp t ⟨ms, me⟩ b2 b3 hemp
    simp only at this
    have h2 := off_mono sl (show b ≤ p by omega)
    omega
  refine ⟨a, b, hpa, hab, hb, hpb, hloc, ?_⟩
  rw [hloc]
  unfold nextPos
  simp only
  split
  · rename_i hc
    simp only [Bool.and_eq_true, beq_iff_eq, decide_eq_true_eq] at hc
    have hemp : (locate inp t ⟨ms, me⟩).e - (locate inp t ⟨ms, me⟩).s = 0 := by rw [hloc]; exact hc.1
    have := locate_empty inp t ⟨ms, me⟩ b2 b3 hemp
    simp only at this
    omega
  · rfl

theorem invRanges_ge (L : Layout t inp sl) (hlen : inp.length = offsetAt sl sl.length) (hs : SpanSane m inp) :
    ∀ (fuel p : Nat), p ≤ sl.length →
      ∀ r ∈ invRangesFrom (m.findAt inp) (locate inp t) inp.length fuel (offsetAt sl p), offsetAt sl p ≤ r.s := by
  intro fuel
  induction fuel with
  | zero => intro p _ r hr; simp [invRangesFrom] at hr
  | succ fuel ih =>
    intro p hp r hr
    unfold invRangesFrom at hr
    split at hr
    · simp at hr
    · rename_i hlt
      have hpn : p < sl.length := by
        apply Classical.byContradiction; intro h
        have : p = sl.length := by omega
        subst this; omega
      cases hf : m.findAt inp (offsetAt sl p) with
      | none => rw [hf] at hr; simp at hr
      | some mat =>
        rw [hf] at hr
        simp only at hr
        obtain ⟨a, b, hpa, hab, hb, hpb, hloc, hnext⟩ := line_facts (t := t) L hlen hs hpn hf
        rw [hnext] at hr
        rcases List.mem_cons.mp hr with rfl | hr
        · rw [hloc]; exact off_mono sl hpa
        · exact Nat.le_trans (off_mono sl (by omega)) (ih b hb r hr)

/-- a line inside a listed range is covered -/
theorem covered_of_mem {R : List Span} {r : Span} (hr : r ∈ R) {x y : Nat} (h1 : r.s ≤ x) (h2 : y ≤ r.e) :
    coveredBy R x y = true := by
  unfold coveredBy
  exact List.any_eq_true.mpr ⟨r, hr, by simp [h1, h2]⟩

theorem not_covered_of {R : List Span} {x y : Nat} (h : ∀ r ∈ R, x < r.s ∨ r.e < y) : coveredBy R x y = false := by
  rw [Bool.eq_false_iff]
  intro hc
  unfold coveredBy at hc
  obtain ⟨r, hr, hrc⟩ := List.any_eq_true.mp hc
  simp only [Bool.and_eq_true, decide_eq_true_eq] at hrc
  rcases h r hr with h | h <;> omega

theorem invRangesFrom_done (f : Nat → Option Span) (loc : Span → Span) (len fuel pos : Nat) (h : pos ≥ len) :
    invRangesFrom f loc len fuel pos = [] := by
  cases fuel with
  | zero => rfl
  | succ k => simp [invRangesFrom, h]

theorem invRangesFrom_some (f : Nat → Option Span) (loc : Span → Span) (len fuel pos : Nat) {mat : Span}
    (h : ¬ pos ≥ len) (hf : f pos = some mat) :
    invRangesFrom f loc len (fuel + 1) pos = loc mat :: invRangesFrom f loc len fuel (nextPos len (loc mat)) := by
  rw [invRangesFrom]; simp [h, hf]

theorem invRangesFrom_none (f : Nat → Option Span) (loc : Span → Span) (len fuel pos : Nat)
    (hf : f pos = none) : invRangesFrom f loc len (fuel + 1) pos = [] := by
  rw [invRangesFrom]; simp [hf]

/-- **the inverted loop**: from the start of line `p` with `v` lines decided, the loop ends at the end of the input
with the lines `[v', n)` unselected (they lie inside match ranges) -/
theorem mlLoop_inverted (L : Layout t inp sl) (hlen : inp.length = offsetAt sl sl.length)
    (ht : cfg.lineTerm.asByte = t) (hbin : cfg.binary = .none) (hpt0 : cfg.passthru = true → cfg.afterContext = 0)
    (hinv : cfg.invertMatch = true) (hs : SpanSane m inp) (R : List Span)
    (hselR : ∀ j, j < sl.length → selAt sl j = !coveredBy R (offsetAt sl j) (offsetAt sl (j + 1))) :
    ∀ (fuel : Nat) (s : ML) (v p : Nat) (done : List Span), FastInv cfg sl v p s.core → p ≤ sl.length →
      R = done ++ invRangesFrom (m.findAt inp) (locate inp t) inp.length fuel (offsetAt sl p) →
      (∀ r ∈ done, r.e ≤ offsetAt sl p) → s.lastMatch = none → inp.length ≤ offsetAt sl p + fuel →
      ∃ s' v', mlLoop cfg m allCont inp fuel s = (s', .ok true) ∧ s'.lastMatch = none ∧ Inv cfg sl v' s'.core ∧
        v' ≤ sl.length ∧ Unsel sl v' sl.length ∧ AclOK cfg.afterContext sl v' s'.core.afterContextLeft ∧
        s'.core.pos = inp.length := by
  subst ht
  intro fuel
  induction fuel with
  | zero =>
    intro s v p done hF hp _ _ hlm hfuel
    have hpn : p = sl.length := by
      apply Classical.byContradiction; intro h
      have := L.off_lt (show p < sl.length by omega) (Nat.le_refl _); omega
    subst hpn
    exact ⟨s, v, rfl, hlm, hF.inv, hF.vp, hF.unsel, hF.acl, by rw [hF.pos, hlen]⟩
  | succ fuel ih =>
    intro s v p done hF hp hR hdone hlm hfuel
    by_cases hpn : p = sl.length
    · subst hpn
      refine ⟨s, v, ?_, hlm, hF.inv, hF.vp, hF.unsel, hF.acl, by rw [hF.pos, hlen]⟩
      simp [mlLoop, drop_isEmpty_ge, hF.pos, hlen]
    · have hplt : p < sl.length := by omega
      have hposlt := L.off_lt hplt (Nat.le_refl _)
      have hne : ¬ (s.core.pos ≥ inp.length) := by rw [hF.pos, hlen]; omega
      have hloop : ∀ s1, mlSink cfg m allCont inp s = (s1, .ok true) →
          mlLoop cfg m allCont inp (fuel + 1) s = mlLoop cfg m allCont inp fuel s1 := by
        intro s1 h
        simp [mlLoop, drop_isEmpty_ge, hne, h]
      have hnlt : ¬ (offsetAt sl p ≥ inp.length) := by omega
      cases hf : m.findAt inp (offsetAt sl p) with
      | none =>
        -- the rest of the input is one run of selected lines
        have hRd : R = done := by
          rw [hR, invRangesFrom_none _ _ _ _ _ hf]; simp
        have hsel : ∀ j, p ≤ j → j < sl.length → selAt sl j = true := by
          intro j h1 h2
          rw [hselR j h2, hRd, not_covered_of]
          · rfl
          · intro r hr
            right
            have := hdone r hr
            have h3 := off_mono sl h1
            have h4 := L.off_lt (show j < j + 1 by omega) (by omega)
            omega
        have hIm : Inv cfg sl v { s.core with pos := inp.length } := hF.inv.of_fields rfl rfl rfl rfl rfl rfl rfl
        obtain ⟨st1, st3, e1, e3, hI3, hacl3, hpos3⟩ :=
          ml_invert_gap L rfl hbin hpt0 hIm hF.vp hplt (Nat.le_refl _) hF.unsel hsel hF.acl
        have hgne : ¬ ((inp.length - offsetAt sl p == 0) = true) := by simp; omega
        rw [← hlen] at e1 e3
        dsimp only at e1
        have hsink : mlSink cfg m allCont inp s = ({ s with core := st3 }, .ok true) := by
          simp only [mlSink, hinv, if_true, mlSinkMatchedInverted, mlFind, hF.pos, hf, hgne, Bool.false_eq_true,
            if_false, e1, e3]
        rw [hloop _ hsink]
        have hselLast := hsel (sl.length - 1) (by omega) (by omega)
        have hacl' := aclOK_match (A := cfg.afterContext) hselLast
        have e : sl.length - 1 + 1 = sl.length := by omega
        rw [e] at hacl'
        have hF3 : FastInv cfg sl sl.length sl.length ({ s with core := st3 } : ML).core :=
          ⟨hI3, Nat.le_refl _, fun j h1 h2 => by omega, by rw [hacl3]; exact hacl', by rw [hpos3]; exact hlen⟩
        exact ih _ sl.length sl.length done hF3 (Nat.le_refl _)
          (by rw [hRd, invRangesFrom_done _ _ _ _ _ (by omega)]; simp)
          (fun r hr => Nat.le_trans (hdone r hr) (off_mono sl hp)) hlm (by omega)
      | some mat =>
        obtain ⟨a, b, hpa, hab, hb, hpb, hloc, hnext⟩ := line_facts L hlen hs hplt hf
        have hRd : R = done ++ (⟨offsetAt sl a, offsetAt sl b⟩ ::
            invRangesFrom (m.findAt inp) (locate inp cfg.lineTerm.asByte) inp.length fuel (offsetAt sl b)) := by
          have hnext' : nextPos inp.length ⟨offsetAt sl a, offsetAt sl b⟩ = offsetAt sl b := by
            rw [← hloc]; exact hnext
          rw [hR, invRangesFrom_some _ _ _ _ _ hnlt hf, hloc, hnext']
        have hfut := invRanges_ge (m := m) L hlen hs fuel b hb
        have hadv : mlAdvance inp s.core (locate inp cfg.lineTerm.asByte mat) = { s.core with pos := offsetAt sl b } := by
          rw [mlAdvance_eq, hnext]
        -- the lines of the match are unselected
        have hcov : ∀ j, a ≤ j → j < b → selAt sl j = false := by
          intro j h1 h2
          rw [hselR j (by omega), hRd, covered_of_mem (r := ⟨offsetAt sl a, offsetAt sl b⟩)]
          · rfl
          · simp
          · exact off_mono sl h1
          · exact off_mono sl (by omega)
        have hdone' : ∀ r ∈ done ++ [⟨offsetAt sl a, offsetAt sl b⟩], r.e ≤ offsetAt sl b := by
          intro r hr
          rcases List.mem_append.mp hr with h | h
          · exact Nat.le_trans (hdone r h) (off_mono sl (by omega))
          · simp at h; subst h; exact Nat.le_refl _
        have hR' : R = (done ++ [⟨offsetAt sl a, offsetAt sl b⟩]) ++
            invRangesFrom (m.findAt inp) (locate inp cfg.lineTerm.asByte) inp.length fuel (offsetAt sl b) := by
          rw [hRd]; simp
        have hfuel' : inp.length ≤ offsetAt sl b + fuel := by
          have := L.off_lt hpb hb; omega
        by_cases hgap : p = a
        · -- no gap: only the scan position moves
          subst hgap
          have hsink : mlSink cfg m allCont inp s = ({ s with core := { s.core with pos := offsetAt sl b } }, .ok true) := by
            simp only [mlSink, hinv, if_true, mlSinkMatchedInverted, mlFind, hF.pos, hf]
            rw [hadv, hloc]
            simp only [Nat.sub_self, beq_self_eq_true, if_true]
          rw [hloop _ hsink]
          have hF' : FastInv cfg sl v b ({ s with core := { s.core with pos := offsetAt sl b } } : ML).core :=
            ⟨hF.inv.of_fields rfl rfl rfl rfl rfl rfl rfl, by have := hF.vp; omega,
              fun j h1 h2 => by
                by_cases hj : j < p
                · exact hF.unsel j h1 hj
                · exact hcov j (by omega) h2,
              hF.acl, rfl⟩
          exact ih _ v b _ hF' hb hR' hdone' hlm hfuel'
        · have hlt : p < a := by omega
          have hsel : ∀ j, p ≤ j → j < a → selAt sl j = true := by
            intro j h1 h2
            rw [hselR j (by omega), hRd, not_covered_of]
            · rfl
            · intro r hr
              have h3 := off_mono sl h1
              have h4 := L.off_lt (show j < j + 1 by omega) (by omega)
              have h5 := L.off_lt h2 (by omega)
              rcases List.mem_append.mp hr with h | h
              · right; have := hdone r h; omega
              · rcases List.mem_cons.mp h with rfl | h
                · left; exact h5
                · left
                  have := hfut r h
                  have h6 := off_mono sl hab
                  omega
          have hIm : Inv cfg sl v { s.core with pos := offsetAt sl b } := hF.inv.of_fields rfl rfl rfl rfl rfl rfl rfl
          obtain ⟨st1, st3, e1, e3, hI3, hacl3, hpos3⟩ :=
            ml_invert_gap L rfl hbin hpt0 hIm hF.vp hlt (by omega) hF.unsel hsel hF.acl
          have hgne : ¬ ((offsetAt sl a - offsetAt sl p == 0) = true) := by
            have := L.off_lt hlt (by omega); simp; omega
          dsimp only at e1
          have hsink : mlSink cfg m allCont inp s = ({ s with core := st3 }, .ok true) := by
            simp only [mlSink, hinv, if_true, mlSinkMatchedInverted, mlFind, hF.pos, hf]
            rw [hadv, hloc]
            simp only [hgne, Bool.false_eq_true, if_false, e1, e3]
          rw [hloop _ hsink]
          have hselLast := hsel (a - 1) (by omega) (by omega)
          have hacl' := aclOK_match (A := cfg.afterContext) hselLast
          have e : a - 1 + 1 = a := by omega
          rw [e] at hacl'
          have hF3 : FastInv cfg sl a b ({ s with core := st3 } : ML).core :=
            ⟨hI3, hab, fun j h1 h2 => hcov j h1 h2, by rw [hacl3]; exact hacl', by rw [hpos3]⟩
          exact ih _ a b _ hF3 hb hR' hdone' hlm hfuel'

end

theorem layout_coverBits (t : Nat) (inp : Bytes) (blocks : List Span) (inv : Bool) :
    Layout t inp (coverBits blocks inv 0 (splitLines t inp)) ∧
      inp.length = offsetAt (coverBits blocks inv 0 (splitLines t inp)) (coverBits blocks inv 0 (splitLines t inp)).length := by
  have hls : lsOf (coverBits blocks inv 0 (splitLines t inp)) = splitLines t inp := coverBits_lsOf _ _ _ _
  have L0 := layout_splitLines t inp (fun _ => true)
  have h0 : lsOf ((splitLines t inp).map fun l => (l, (fun _ => true) l)) = splitLines t inp := by
    simp [lsOf, List.map_map, Function.comp_def]
  refine ⟨⟨by rw [hls]; have := L0.flat; rw [h0] at this; exact this,
           by rw [hls]; have := L0.good; rw [h0] at this; exact this⟩, ?_⟩
  rw [← off_flat, ← lsOf_length, List.take_length, hls, splitLines_flatten]

theorem mlSpecInv_eq (cfg : Config) (m : MatcherI) (inp : Bytes) (sl : List SLine)
    (hsl : coverBits (invRanges cfg m inp) true 0 (splitLines cfg.lineTerm.asByte inp) = sl)
    (hlen : inp.length = offsetAt sl sl.length) :
    mlSpecInv cfg m inp = Event.begin :: (List.range sl.length).flatMap (lineEvents cfg sl) ++
      [Event.finish inp.length none] := by
  unfold mlSpecInv
  rw [hsl, grepSpecLines_eq, effective_son, lineEvents_son, ← hlen]

/-- **Multi-line search with inversion** (any context, passthru, line numbers; binary detection off), for a matcher
whose spans lie inside the haystack at or after the search position: the sink is told the grep model for the
lines outside the line ranges of the matches the inverted scan finds. -/
theorem multiLine_inverted (cfg : Config) (m : MatcherI) (inp : Bytes) (hinv : cfg.invertMatch = true)
    (hbin : cfg.binary = .none) (hpt0 : cfg.passthru = true → cfg.afterContext = 0) (hs : SpanSane m inp) :
    (multiLine cfg m allCont inp).events = mlSpecInv cfg m inp ∧ (multiLine cfg m allCont inp).result = .ok () := by
  obtain ⟨L, hlen⟩ := layout_coverBits cfg.lineTerm.asByte inp (invRanges cfg m inp) true
  have hselR : ∀ j, j < (coverBits (invRanges cfg m inp) true 0 (splitLines cfg.lineTerm.asByte inp)).length →
      selAt (coverBits (invRanges cfg m inp) true 0 (splitLines cfg.lineTerm.asByte inp)) j =
        !coveredBy (invRanges cfg m inp)
          (offsetAt (coverBits (invRanges cfg m inp) true 0 (splitLines cfg.lineTerm.asByte inp)) j)
          (offsetAt (coverBits (invRanges cfg m inp) true 0 (splitLines cfg.lineTerm.asByte inp)) (j + 1)) := by
    intro j hj
    have hj' : j < (splitLines cfg.lineTerm.asByte inp).length := by
      rw [← coverBits_lsOf (invRanges cfg m inp) true (splitLines cfg.lineTerm.asByte inp) 0, lsOf_length]; exact hj
    have := coverBits_sel (invRanges cfg m inp) true (splitLines cfg.lineTerm.asByte inp) 0 j hj'
    simp only [Nat.zero_add] at this
    rw [this]
    cases coveredBy (invRanges cfg m inp)
      (offsetAt (coverBits (invRanges cfg m inp) true 0 (splitLines cfg.lineTerm.asByte inp)) j)
      (offsetAt (coverBits (invRanges cfg m inp) true 0 (splitLines cfg.lineTerm.asByte inp)) (j + 1)) <;> rfl
  generalize hsl : coverBits (invRanges cfg m inp) true 0 (splitLines cfg.lineTerm.asByte inp) = sl at L hlen hselR
  have hI0 : Inv cfg sl 0 (st0 cfg) :=
    ⟨by simp [st0, Core.new, off_zero], by simp [st0, Core.new], fun h => by omega,
      ⟨0, Nat.le_refl _, fun _ => by simp [st0, Core.new, off_zero], by simp [st0, Core.new, lineNo]⟩,
      rfl, rfl, by simp [st0]⟩
  have hF0 : FastInv cfg sl 0 0 ({ core := st0 cfg } : ML).core :=
    ⟨hI0, Nat.le_refl _, fun j h1 h2 => by omega, aclOK_init _ _, by simp [st0, Core.new, off_zero]⟩
  obtain ⟨s', v', e, hlm, hI, hv, hu, hacl, hpos⟩ :=
    mlLoop_inverted (m := m) L hlen rfl hbin hpt0 hinv hs (invRanges cfg m inp) hselR (inp.length + 1)
      { core := st0 cfg } 0 0 [] hF0 (Nat.zero_le _) (by simp [invRanges, off_zero]) (fun r hr => by simp at hr) rfl
      (by omega)
  obtain ⟨st2, e2, hev2, hp2, hb2⟩ := trailing_shadow L rfl hbin hpt0 hlen hI hv hu hacl
  have htrail : mlTrailing cfg allCont inp s'.core = (st2, .ok ()) := by
    unfold mlTrailing
    cases hp : cfg.passthru with
    | true => rw [hp] at e2; simp only [if_true] at e2 ⊢; rw [e2]
    | false => rw [hp] at e2; simp only [Bool.false_eq_true, if_false] at e2 ⊢; rw [e2]
  have hpre : mlPre cfg m allCont inp = (st2, .ok ()) := by
    unfold mlPre
    rw [begin_allCont]
    simp only [if_true]
    rw [detectBinary_none hbin rfl]
    dsimp only
    rw [e]
    simp only [mlFlush, if_true, hlm]
    exact htrail
  constructor
  · rw [multiLine_eq, hpre, mlSpecInv_eq cfg m inp sl hsl hlen]
    simp [finishRun, finish_eq, Run.events, byteCount, ite_self, hb2, hev2, hp2, hpos]
  · rw [multiLine_eq, hpre]
    simp [finishRun, finish_eq, allCont]

end RgVerif.Searcher
