import RgVerif.Lemmas.SearcherSim
/-
Simulation lemmas (see `SearcherSim.lean`) for the line-by-line drivers: slow path, fast path,
`match_by_line`, the loop of `SliceByLine::run`.
-/
namespace RgVerif.Searcher
open RgVerif RgVerif.Matcher RgVerif.Lines

section
variable {σ : Script} {k : Nat} (hk : FirstStop σ k)
include hk

theorem slowLoop_wb (cfg : Config) (m : MatcherI) (buf : Bytes) : ∀ (ls : List Span) (st : Core),
    WB σ k false st (slowLoop cfg m σ buf ls st) (slowLoop cfg m allCont buf ls st)
  | [], st => by rw [slowLoop, slowLoop]; exact WB.pure_ok _ _ rfl
  | line :: rest, st => by
    rw [slowLoop, slowLoop]
    dsimp only
    have tail : ∀ (succ : Bool) (st' : Core) (a : Bool),
        WB σ k false st'
          (match ((st', Res.ok a) : Core × Res Bool) with
           | (st, .ok true) =>
             if (cfg.stopOnNonmatch && !succ && st.hasMatched) = true then (st, .ok false)
             else slowLoop cfg m σ buf rest st
           | (st, r) => (st, r))
          (match ((st', Res.ok a) : Core × Res Bool) with
           | (st, .ok true) =>
             if (cfg.stopOnNonmatch && !succ && st.hasMatched) = true then (st, .ok false)
             else slowLoop cfg m allCont buf rest st
           | (st, r) => (st, r)) := by
      intro succ st' a
      cases a
      · exact WB.pure_ok _ _ rfl
      · dsimp only
        split
        · exact WB.pure_ok _ _ rfl
        · exact slowLoop_wb cfg m buf rest st'
    by_cases hs : ((m.shortestMatch (withoutTerminator (slice buf line.s line.e) cfg.lineTerm)).isSome
        != cfg.invertMatch) = true
    · simp only [if_pos hs]
      apply WB.of_events_eq (st' := { st with pos := line.e, hasMatched := true }) rfl
      sim_bind (beforeContextByLine_wb hk cfg buf { st with pos := line.e, hasMatched := true } line.s),
        (beforeContextByLine cfg σ buf _ _), (beforeContextByLine cfg allCont buf _ _)
      intro st1 a
      cases a
      · exact WB.pure_ok _ _ rfl
      · sim_bind (sinkMatched_wb hk cfg buf st1 line), (sinkMatched cfg σ buf st1 line),
          (sinkMatched cfg allCont buf st1 line)
        exact tail _
    · simp only [if_neg hs]
      apply WB.of_events_eq (st' := { st with pos := line.e }) rfl
      by_cases hacl : st.afterContextLeft ≥ 1
      · simp only [if_pos hacl]
        sim_bind (sinkAfterContext_wb hk cfg buf { st with pos := line.e } line),
          (sinkAfterContext cfg σ buf _ _), (sinkAfterContext cfg allCont buf _ _)
        exact tail _
      · simp only [if_neg hacl]
        by_cases hpt : cfg.passthru = true
        · simp only [if_pos hpt]
          sim_bind (sinkOtherContext_wb hk cfg buf { st with pos := line.e } line),
            (sinkOtherContext cfg σ buf _ _), (sinkOtherContext cfg allCont buf _ _)
          exact tail _
        · simp only [if_neg hpt]
          exact tail _ _ true

theorem matchByLineSlow_wb (cfg : Config) (m : MatcherI) (buf : Bytes) (st : Core) :
    WB σ k false st (matchByLineSlow cfg m σ buf st) (matchByLineSlow cfg m allCont buf st) := by
  unfold matchByLineSlow
  exact slowLoop_wb hk cfg m buf _ st


theorem matchByLineFastInvert_wb (cfg : Config) (m : MatcherI) (buf : Bytes) (st : Core) :
    WB σ k false st (matchByLineFastInvert cfg m σ buf st) (matchByLineFastInvert cfg m allCont buf st) := by
  unfold matchByLineFastInvert
  have tail : ∀ (im : Span) (st' : Core), st'.events = st.events →
      WB σ k false st
        (if (im.e - im.s == 0) = true then (st', Res.ok true)
         else
           match afterContextByLine cfg σ buf { st' with hasMatched := true } im.s with
           | (st, .ok true) =>
             match beforeContextByLine cfg σ buf st im.s with
             | (st, .ok true) => matchedLoop cfg σ buf (stepLines cfg.lineTerm.asByte buf im.s im.e) st
             | (st, r) => (st, r)
           | (st, r) => (st, r))
        (if (im.e - im.s == 0) = true then (st', Res.ok true)
         else
           match afterContextByLine cfg allCont buf { st' with hasMatched := true } im.s with
           | (st, .ok true) =>
             match beforeContextByLine cfg allCont buf st im.s with
             | (st, .ok true) => matchedLoop cfg allCont buf (stepLines cfg.lineTerm.asByte buf im.s im.e) st
             | (st, r) => (st, r)
           | (st, r) => (st, r)) := by
    intro im st' he
    by_cases h0 : (im.e - im.s == 0) = true
    · simp only [if_pos h0]
      exact WB.pure_ok _ _ he
    · simp only [if_neg h0]
      apply WB.of_events_eq (st' := { st' with hasMatched := true }) he
      sim_bind (afterContextByLine_wb hk cfg buf { st' with hasMatched := true } im.s),
        (afterContextByLine cfg σ buf _ _), (afterContextByLine cfg allCont buf _ _)
      intro st1 a
      cases a
      · exact WB.pure_ok _ _ rfl
      · sim_bind (beforeContextByLine_wb hk cfg buf st1 im.s), (beforeContextByLine cfg σ buf st1 im.s),
          (beforeContextByLine cfg allCont buf st1 im.s)
        intro st2 a
        cases a
        · exact WB.pure_ok _ _ rfl
        · exact matchedLoop_wb hk cfg buf _ st2
  cases findByLineFast cfg m buf st with
  | none => exact tail _ _ rfl
  | some line => exact tail _ _ rfl

theorem fastLoop_wb (cfg : Config) (m : MatcherI) (buf : Bytes) : ∀ (fuel : Nat) (st : Core),
    WB σ k (some FastMatchResult.stop) st (fastLoop cfg m σ buf fuel st) (fastLoop cfg m allCont buf fuel st)
  | 0, st => by rw [fastLoop, fastLoop]; exact WB.pure_ok _ _ rfl
  | fuel + 1, st => by
    rw [fastLoop, fastLoop]
    by_cases h1 : (List.drop st.pos buf).isEmpty = true
    · simp only [if_pos h1]; exact WB.pure_ok _ _ rfl
    · simp only [if_neg h1]
      by_cases h2 : (cfg.stopOnNonmatch && st.hasMatched) = true
      · simp only [if_pos h2]; exact WB.pure_ok _ _ rfl
      · simp only [if_neg h2]
        by_cases h3 : cfg.invertMatch = true
        · simp only [if_pos h3]
          sim_bind (matchByLineFastInvert_wb hk cfg m buf st), (matchByLineFastInvert cfg m σ buf st),
            (matchByLineFastInvert cfg m allCont buf st)
          intro st1 a
          cases a
          · exact WB.pure_ok _ _ rfl
          · exact fastLoop_wb cfg m buf fuel st1
        · simp only [if_neg h3]
          cases findByLineFast cfg m buf st with
          | none => exact WB.pure_ok _ _ rfl
          | some line =>
            dsimp only
            have last : ∀ (st' : Core) (a : Bool),
                WB σ k (some FastMatchResult.stop) st'
                  (match ((st', Res.ok a) : Core × Res Bool) with
                   | (st, .err) => (st, .err)
                   | (st, .ok false) => (st, .ok (some .stop))
                   | (st, .ok true) =>
                     match sinkMatched cfg σ buf { st with pos := line.e } line with
                     | (st, .err) => (st, .err)
                     | (st, .ok false) => (st, .ok (some .stop))
                     | (st, .ok true) => fastLoop cfg m σ buf fuel st)
                  (match ((st', Res.ok a) : Core × Res Bool) with
                   | (st, .err) => (st, .err)
                   | (st, .ok false) => (st, .ok (some .stop))
                   | (st, .ok true) =>
                     match sinkMatched cfg allCont buf { st with pos := line.e } line with
                     | (st, .err) => (st, .err)
                     | (st, .ok false) => (st, .ok (some .stop))
                     | (st, .ok true) => fastLoop cfg m allCont buf fuel st) := by
              intro st' a
              cases a
              · exact WB.pure_ok _ _ rfl
              · apply WB.of_events_eq (st' := { st' with pos := line.e }) rfl
                sim_bind (sinkMatched_wb hk cfg buf { st' with pos := line.e } line),
                  (sinkMatched cfg σ buf _ _), (sinkMatched cfg allCont buf _ _)
                intro st2 a
                cases a
                · exact WB.pure_ok _ _ rfl
                · exact fastLoop_wb cfg m buf fuel st2
            by_cases h4 : cfg.maxContext > 0
            · simp only [if_pos h4]
              apply WB.of_events_eq (st' := { st with hasMatched := true }) rfl
              sim_bind (afterContextByLine_wb hk cfg buf { st with hasMatched := true } line.s),
                (afterContextByLine cfg σ buf _ _), (afterContextByLine cfg allCont buf _ _)
              intro st1 a
              cases a
              · exact WB.pure_ok _ _ rfl
              · sim_bind (beforeContextByLine_wb hk cfg buf st1 line.s), (beforeContextByLine cfg σ buf st1 line.s),
                  (beforeContextByLine cfg allCont buf st1 line.s)
                exact last
            · simp only [if_neg h4]
              exact WB.of_events_eq (st' := { st with hasMatched := true }) rfl (last _ true)


theorem matchByLineFast_wb (cfg : Config) (m : MatcherI) (buf : Bytes) (st : Core) :
    WB σ k FastMatchResult.stop st (matchByLineFast cfg m σ buf st) (matchByLineFast cfg m allCont buf st) := by
  unfold matchByLineFast
  sim_bind (fastLoop_wb hk cfg m buf (buf.length + 1) st), (fastLoop cfg m σ buf (buf.length + 1) st),
    (fastLoop cfg m allCont buf (buf.length + 1) st)
  intro st1 a
  cases a with
  | some r => exact WB.pure_ok _ _ rfl
  | none =>
    sim_bind (afterContextByLine_wb hk cfg buf st1 buf.length), (afterContextByLine cfg σ buf st1 buf.length),
      (afterContextByLine cfg allCont buf st1 buf.length)
    intro st2 a
    cases a <;> exact WB.pure_ok _ _ rfl

theorem matchByLine_wb (cfg : Config) (m : MatcherI) (buf : Bytes) (st : Core) :
    WB σ k false st (matchByLine cfg m σ buf st) (matchByLine cfg m allCont buf st) := by
  unfold matchByLine
  by_cases hf : isLineByLineFast cfg m st = true
  · simp only [if_pos hf]
    sim_bind (matchByLineFast_wb hk cfg m buf st), (matchByLineFast cfg m σ buf st),
      (matchByLineFast cfg m allCont buf st)
    intro st1 a
    cases a with
    | continue_ => exact WB.pure_ok _ _ rfl
    | stop => exact WB.pure_ok _ _ rfl
    | switchToSlow => exact matchByLineSlow_wb hk cfg m buf st1
  · simp only [if_neg hf]
    exact matchByLineSlow_wb hk cfg m buf st

theorem sliceLoop_wb (cfg : Config) (m : MatcherI) (slice_ : Bytes) : ∀ (fuel : Nat) (st : Core),
    WB σ k () st (sliceLoop cfg m σ slice_ fuel st) (sliceLoop cfg m allCont slice_ fuel st)
  | 0, st => by rw [sliceLoop, sliceLoop]; exact WB.pure_ok _ _ rfl
  | fuel + 1, st => by
    rw [sliceLoop, sliceLoop]
    by_cases h1 : (List.drop st.pos slice_).isEmpty = true
    · simp only [if_pos h1]; exact WB.pure_ok _ _ rfl
    · simp only [if_neg h1]
      sim_bind (matchByLine_wb hk cfg m slice_ st), (matchByLine cfg m σ slice_ st),
        (matchByLine cfg m allCont slice_ st)
      intro st1 a
      cases a
      · exact WB.pure_ok _ _ rfl
      · exact sliceLoop_wb cfg m slice_ fuel st1

end
end RgVerif.Searcher
