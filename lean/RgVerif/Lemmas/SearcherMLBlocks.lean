import RgVerif.Lemmas.SearcherML
/-
Structure of the blocks of multi-line search: `locate` bounds and monotonicity, the successive matches of a
sane matcher, and "only the last merged block can be empty" — hence dropping empty blocks (`filter`, the spec)
and stopping at the first empty block (`takeWhile`, the code) are the same.
-/
namespace RgVerif.Searcher
open RgVerif RgVerif.Matcher RgVerif.Lines RgVerif.GrepSpec RgVerif.MLSpec

/-- the matcher reports spans inside the haystack that start at or after the search position -/
def SpanSane (m : MatcherI) (inp : Bytes) : Prop :=
  ∀ pos s e, pos ≤ inp.length → m.findAt inp pos = some ⟨s, e⟩ → pos ≤ s ∧ s ≤ e ∧ e ≤ inp.length

theorem spanSaneB_sound {m : MatcherI} {inp : Bytes} (h : spanSaneB m inp = true) : SpanSane m inp := by
  intro pos s e hpos hf
  unfold spanSaneB at h
  have := List.all_eq_true.mp h pos (List.mem_range.mpr (by omega))
  rw [hf] at this
  simpa [and_assoc] using this

theorem rfindByte_some {t : Nat} : ∀ {l : Bytes} {i : Nat}, rfindByte t l = some i → i < l.length ∧ l[i]? = some t := by
  intro l
  induction l with
  | nil => intro i h; simp [rfindByte] at h
  | cons b r ih =>
    intro i h
    unfold rfindByte at h
    cases hr : rfindByte t r with
    | some j =>
      rw [hr] at h; simp at h; subst h
      obtain ⟨h1, h2⟩ := ih hr
      exact ⟨by simp; omega, by simpa using h2⟩
    | none =>
      rw [hr] at h
      by_cases hb : b = t
      · simp [hb] at h; subst h; simp [hb]
      · simp [hb] at h

/-- the last occurrence is at or after any occurrence -/
theorem rfindByte_ge {t : Nat} : ∀ {l : Bytes} {i : Nat}, l[i]? = some t → ∃ j, rfindByte t l = some j ∧ i ≤ j := by
  intro l
  induction l with
  | nil => intro i h; simp at h
  | cons b r ih =>
    intro i h
    unfold rfindByte
    cases i with
    | zero =>
      simp at h
      cases hr : rfindByte t r with
      | some j => exact ⟨j + 1, rfl, by omega⟩
      | none => exact ⟨0, by simp [h], Nat.le_refl _⟩
    | succ i' =>
      simp at h
      obtain ⟨j, hj, hle⟩ := ih h
      exact ⟨j + 1, by simp [hj], by omega⟩

/-- start of the line containing position `s` -/
def lineStartOf (buf : Bytes) (t s : Nat) : Nat :=
  match rfindByte t (buf.take s) with
  | none => 0
  | some i => i + 1

theorem locate_s (buf : Bytes) (t : Nat) (r : Span) : (locate buf t r).s = lineStartOf buf t r.s := rfl

theorem lineStartOf_le (buf : Bytes) (t s : Nat) : lineStartOf buf t s ≤ s := by
  unfold lineStartOf
  cases h : rfindByte t (buf.take s) with
  | none => exact Nat.zero_le _
  | some i =>
    have := (rfindByte_some h).1
    simp only [List.length_take] at this
    simp only; omega

theorem lineStartOf_mono (buf : Bytes) (t : Nat) {s s' : Nat} (h : s ≤ s') :
    lineStartOf buf t s ≤ lineStartOf buf t s' := by
  unfold lineStartOf
  cases h1 : rfindByte t (buf.take s) with
  | none => exact Nat.zero_le _
  | some i =>
    obtain ⟨hi, hget⟩ := rfindByte_some h1
    simp only [List.length_take] at hi
    have hget' : (buf.take s')[i]? = some t := by
      rw [List.getElem?_take_of_lt (by omega)] at hget ⊢; exact hget
    obtain ⟨j, hj, hle⟩ := rfindByte_ge hget'
    rw [hj]; simp only; omega

theorem findByte_lt {t : Nat} : ∀ {l : Bytes} {i : Nat}, findByte t l = some i → i < l.length := by
  intro l
  induction l with
  | nil => intro i h; simp [findByte] at h
  | cons b r ih =>
    intro i h
    unfold findByte at h
    split at h
    · simp at h; subst h; simp
    · cases hr : findByte t r with
      | none => rw [hr] at h; simp at h
      | some j => rw [hr] at h; simp at h; subst h; have := ih hr; simp; omega

/-- end of the line range of a span ending at `e` whose line starts at `ls` -/
def lineEndOf (buf : Bytes) (t ls e : Nat) : Nat :=
  if e > ls && buf[e - 1]? == some t then e
  else
    match findByte t (buf.drop e) with
    | none => buf.length
    | some i => e + i + 1

theorem locate_eq (buf : Bytes) (t : Nat) (r : Span) :
    locate buf t r = ⟨lineStartOf buf t r.s, lineEndOf buf t (lineStartOf buf t r.s) r.e⟩ := rfl

theorem lineEndOf_bounds (buf : Bytes) (t ls e : Nat) (he : e ≤ buf.length) :
    e ≤ lineEndOf buf t ls e ∧ lineEndOf buf t ls e ≤ buf.length := by
  unfold lineEndOf
  split
  · exact ⟨Nat.le_refl _, he⟩
  · cases hf : findByte t (buf.drop e) with
    | none => exact ⟨he, Nat.le_refl _⟩
    | some i =>
      have := findByte_lt hf
      simp only [List.length_drop] at this
      simp only; omega

theorem locate_e_bounds (buf : Bytes) (t : Nat) (r : Span) (he : r.e ≤ buf.length) :
    r.e ≤ (locate buf t r).e ∧ (locate buf t r).e ≤ buf.length := by
  rw [locate_eq]; exact lineEndOf_bounds buf t _ _ he

/-- an empty line range can only come from the position behind the last byte -/
theorem locate_empty (buf : Bytes) (t : Nat) (r : Span) (hse : r.s ≤ r.e) (he : r.e ≤ buf.length)
    (hemp : (locate buf t r).e - (locate buf t r).s = 0) : r.e = buf.length := by
  have h1 := lineStartOf_le buf t r.s
  have h2 := locate_e_bounds buf t r he
  rw [locate_eq] at hemp h2
  simp only at hemp h2
  have hee : lineEndOf buf t (lineStartOf buf t r.s) r.e = r.e ∧ lineStartOf buf t r.s = r.e := by omega
  obtain ⟨h3, h4⟩ := hee
  unfold lineEndOf at h3
  have hcond : ¬ (decide (r.e > lineStartOf buf t r.s) && (buf[r.e - 1]? == some t)) = true := by
    have : ¬ (r.e > lineStartOf buf t r.s) := by omega
    simp [this]
  rw [if_neg hcond] at h3
  cases hf : findByte t (buf.drop r.e) with
  | none => rw [hf] at h3; exact h3.symm
  | some i => rw [hf] at h3; simp only at h3; omega

/-- successive matches: inside the haystack, starts non-decreasing from `lo`, and a match that ends at the end of
the haystack is the last one -/
def GoodM (len : Nat) : Nat → List Span → Prop
  | _, [] => True
  | lo, m :: rest => lo ≤ m.s ∧ m.s ≤ m.e ∧ m.e ≤ len ∧ (m.e = len → rest = []) ∧ GoodM len m.s rest

theorem GoodM.weaken {len : Nat} : ∀ {l : List Span} {lo lo' : Nat}, lo' ≤ lo → GoodM len lo l → GoodM len lo' l := by
  intro l
  cases l with
  | nil => intro _ _ _ _; trivial
  | cons m rest =>
    intro lo lo' h hg
    obtain ⟨h1, h2, h3, h4, h5⟩ := hg
    exact ⟨by omega, h2, h3, h4, h5⟩

theorem matchesFrom_nil_of_ge (f : Nat → Option Span) (len : Nat) : ∀ (fuel pos : Nat), pos ≥ len →
    matchesFrom f len fuel pos = [] := by
  intro fuel pos h
  cases fuel with
  | zero => rfl
  | succ n => simp [matchesFrom, h]

theorem nextPos_bounds (len : Nat) (mat : Span) (_h1 : mat.s ≤ mat.e) (h2 : mat.e ≤ len) :
    mat.e ≤ nextPos len mat ∧ nextPos len mat ≤ len ∧ (mat.e = len → nextPos len mat = len) := by
  unfold nextPos
  split
  · rename_i h
    simp at h
    refine ⟨by omega, by omega, by omega⟩
  · exact ⟨Nat.le_refl _, h2, fun h => h⟩

theorem matchesFrom_good {m : MatcherI} {inp : Bytes} (hs : SpanSane m inp) :
    ∀ (fuel pos : Nat), pos ≤ inp.length → GoodM inp.length pos (matchesFrom (m.findAt inp) inp.length fuel pos) := by
  intro fuel
  induction fuel with
  | zero => intro pos _; trivial
  | succ n ih =>
    intro pos hpos
    unfold matchesFrom
    split
    · trivial
    · cases hf : m.findAt inp pos with
      | none => trivial
      | some mat =>
        obtain ⟨a, b⟩ := mat
        obtain ⟨h1, h2, h3⟩ := hs pos a b hpos hf
        obtain ⟨n1, n2, n3⟩ := nextPos_bounds inp.length ⟨a, b⟩ h2 h3
        refine ⟨h1, h2, h3, ?_, ?_⟩
        · intro he
          exact matchesFrom_nil_of_ge _ _ _ _ (by rw [n3 he]; exact Nat.le_refl _)
        · exact (ih _ n2).weaken (by simp only at n1 ⊢; omega)

/-- the line ranges of successive matches: starts non-decreasing from `lo`, and an empty one is the last -/
def GoodR (len : Nat) : Nat → List Span → Prop
  | _, [] => True
  | lo, r :: rest => lo ≤ r.s ∧ r.s ≤ r.e ∧ r.e ≤ len ∧ (nonEmpty r = false → rest = []) ∧ GoodR len r.s rest

theorem GoodR.weaken {len : Nat} : ∀ {l : List Span} {lo lo' : Nat}, lo' ≤ lo → GoodR len lo l → GoodR len lo' l := by
  intro l
  cases l with
  | nil => intro _ _ _ _; trivial
  | cons m rest =>
    intro lo lo' h hg
    obtain ⟨h1, h2, h3, h4, h5⟩ := hg
    exact ⟨by omega, h2, h3, h4, h5⟩

theorem goodR_of_goodM (buf : Bytes) (t : Nat) : ∀ (ms : List Span) (lo : Nat), GoodM buf.length lo ms →
    GoodR buf.length (lineStartOf buf t lo) (ms.map (locate buf t)) := by
  intro ms
  induction ms with
  | nil => intro _ _; trivial
  | cons mt rest ih =>
    intro lo hg
    obtain ⟨h1, h2, h3, h4, h5⟩ := hg
    have hb := locate_e_bounds buf t mt h3
    have hsle := lineStartOf_le buf t mt.s
    refine ⟨?_, ?_, hb.2, ?_, ?_⟩
    · rw [locate_s]; exact lineStartOf_mono buf t h1
    · rw [locate_s]; omega
    · intro hne
      have : (locate buf t mt).e - (locate buf t mt).s = 0 := by
        simpa [nonEmpty] using hne
      have he := locate_empty buf t mt h2 h3 this
      rw [h4 he]; rfl
    · rw [locate_s]; exact ih _ h5

theorem filter_takeWhile_single (p : Span) : [p].filter nonEmpty = [p].takeWhile nonEmpty := by
  cases h : nonEmpty p <;> simp [h]

/-- only the last merged block can be empty -/
theorem mergeAcc_filter_takeWhile (len : Nat) : ∀ (rest : List Span) (p : Span),
    p.s ≤ p.e → (nonEmpty p = false → rest = []) → GoodR len p.s rest →
    (mergeAcc p rest).filter nonEmpty = (mergeAcc p rest).takeWhile nonEmpty := by
  intro rest
  induction rest with
  | nil => intro p _ _ _; exact filter_takeWhile_single p
  | cons r rest ih =>
    intro p hp hne hg
    obtain ⟨g1, g2, g3, g4, g5⟩ := hg
    have hpne : nonEmpty p = true := by
      cases h : nonEmpty p with
      | true => rfl
      | false => exact absurd (hne h) (by simp)
    have hplt : p.s < p.e := by
      simp [nonEmpty] at hpne; omega
    unfold mergeAcc
    split
    · rename_i hm
      apply ih ⟨p.s, r.e⟩
      · simp only; omega
      · intro he
        have hre : r.e - p.s = 0 := by simpa [nonEmpty] using he
        apply g4
        simp [nonEmpty]; omega
      · exact g5.weaken g1
    · rw [List.filter_cons_of_pos hpne, List.takeWhile_cons_of_pos hpne]
      rw [ih r g2 g4 g5]

/-- **Dropping the empty blocks is stopping at the first empty block.** The model of the specification filters
the merged line ranges, the code stops when it is about to sink an empty range; for a matcher whose spans lie
inside the haystack at or after the search position the two are the same list. -/
theorem mlBlocks_eq_codeBlocks (cfg : Config) {m : MatcherI} {inp : Bytes} (hs : SpanSane m inp) :
    mlBlocks cfg m inp = codeBlocks cfg m inp := by
  unfold mlBlocks codeBlocks
  show (mergeTouching _).filter nonEmpty = _
  have hg := goodR_of_goodM inp cfg.lineTerm.asByte _ 0 (matchesFrom_good hs (inp.length + 1) 0 (Nat.zero_le _))
  unfold mlMatches
  generalize (matchesFrom (m.findAt inp) inp.length (inp.length + 1) 0).map (locate inp cfg.lineTerm.asByte) = R at hg
  cases R with
  | nil => rfl
  | cons r rest =>
    obtain ⟨g1, g2, g3, g4, g5⟩ := hg
    exact mergeAcc_filter_takeWhile inp.length rest r g2 g4 g5

end RgVerif.Searcher
