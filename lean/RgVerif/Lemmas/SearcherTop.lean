import RgVerif.Lemmas.SearcherTrunc
import RgVerif.Model.Glue
/-
`SliceByLine::run` on the slow path equals the grep model.
-/
namespace RgVerif.Searcher
open RgVerif RgVerif.Matcher RgVerif.Lines RgVerif.GrepSpec

theorem isLineByLineFast_congr (cfg : Config) (m : MatcherI) {st st' : Core} (h : st.hasMatched = st'.hasMatched) :
    isLineByLineFast cfg m st = isLineByLineFast cfg m st' := by
  unfold isLineByLineFast; rw [h]

theorem selAt_of_forall {sl : List SLine} {f : Bytes → Bool} (h : ∀ x ∈ sl, x.2 = f x.1) (j : Nat)
    (hj : j < sl.length) : selAt sl j = f (bytesAt sl j) := by
  simp only [selAt, bytesAt, List.getElem?_eq_getElem hj, Option.map_some, Option.getD_some]
  exact h _ (List.getElem_mem hj)

/-- the state after `begin` -/
def st0 (cfg : Config) : Core := { Core.new cfg true with events := [Event.begin] }

theorem begin_allCont (cfg : Config) : begin allCont (Core.new cfg true) = (st0 cfg, .ok true) := rfl

theorem detectBinary_none {cfg : Config} {σ : Script} {buf : Bytes} {r : Span} {st : Core}
    (hbin : cfg.binary = .none) (hb : st.binaryByteOffset = none) :
    detectBinary cfg σ buf r st = (st, .ok false) := by
  unfold detectBinary; simp [hbin, hb]

/-- the grep model written with the effective lines named -/
theorem grepSpecLines_eq (cfg : Config) (slf : List SLine) :
    grepSpecLines cfg slf = Event.begin :: (List.range (effective cfg slf).length).flatMap
        (lineEvents cfg (effective cfg slf)) ++
      [Event.finish (offsetAt (effective cfg slf) (effective cfg slf).length) none] := by
  simp [grepSpecLines]

/-- Outcome of the slow loop started right after `begin` on the whole input. -/
theorem slow_run {cfg : Config} (m : MatcherI) (inp : Bytes) (hbin : cfg.binary = .none) (hne : inp ≠ []) :
    ∃ st' b, matchByLineSlow cfg m allCont inp (st0 cfg) = (st', .ok b) ∧
      (b = true → st'.pos = inp.length) ∧ st'.binaryByteOffset = none ∧
      st'.events ++ [Event.finish st'.pos none] = grepSpec cfg (lineSel cfg m) inp := by
  generalize hslf : ((splitLines cfg.lineTerm.asByte inp).map fun l => (l, lineSel cfg m l)) = slf
  have Lf : Layout cfg.lineTerm.asByte inp slf := hslf ▸ layout_splitLines _ inp (lineSel cfg m)
  have hselF : ∀ x ∈ slf, x.2 = lineSel cfg m x.1 := by
    intro x hx; rw [← hslf] at hx
    simp only [List.mem_map] at hx
    obtain ⟨l, _, rfl⟩ := hx; rfl
  have hlen : inp.length = offsetAt slf slf.length := by
    have h1 : (lsOf slf).flatten = inp := by
      rw [← hslf]; simp [lsOf, List.map_map, Function.comp_def, splitLines_flatten]
    rw [← off_flat, ← lsOf_length slf, List.take_length, h1]
  have hspec : grepSpec cfg (lineSel cfg m) inp = grepSpecLines cfg slf := by
    unfold grepSpec; rw [hslf]
  obtain ⟨rest, hpre, hstop, hcut⟩ := effective_spec cfg slf
  rw [hspec, grepSpecLines_eq]
  generalize effective cfg slf = sl at *
  subst hpre
  have L : Layout cfg.lineTerm.asByte inp sl := Searcher.Layout.prefix Lf
  have hsel : ∀ j, j < sl.length → selAt sl j = lineSel cfg m (bytesAt sl j) :=
    selAt_of_forall (fun x hx => hselF x (by simp [hx]))
  -- the lines the stepper sees
  have hsteps : stepLines cfg.lineTerm.asByte inp (st0 cfg).pos inp.length
      = (List.range' 0 sl.length).map (span sl)
        ++ (List.range' sl.length rest.length).map (span (sl ++ rest)) := by
    have h := Lf.stepLines_index 0 (sl ++ rest).length (Nat.zero_le _) (Nat.le_refl _)
    rw [off_zero, ← hlen, Nat.sub_zero, spans_prefix] at h
    exact h
  obtain ⟨st', v', hS', hpos', _, e'⟩ :=
    slowLoop_spec (m := m) L rfl hbin hsel hstop sl.length 0 0 (st0 cfg) (by omega) (slowInv_init cfg sl true)
  have hnpos : 0 < sl.length := by
    apply Classical.byContradiction; intro h0
    have hsl : sl = [] := List.length_eq_zero_iff.mp (by omega)
    subst hsl
    by_cases hr : rest = []
    · subst hr; simp [offsetAt] at hlen; exact hne hlen
    · have := hcut hr; simp [stopsAtEnd, hasSel] at this
  have hev := hS'.final
  unfold matchByLineSlow
  rw [hsteps, slowLoop_append, e']
  by_cases hr : rest = []
  · subst hr
    cases hb : (!(decide (0 < sl.length) && stopsAtEnd cfg sl))
    · refine ⟨st', false, by simp, fun h => Bool.noConfusion h, hS'.inv.bin, ?_⟩
      rw [hev, hpos' hnpos]
    · refine ⟨st', true, by simp [slowLoop], fun _ => ?_, hS'.inv.bin, ?_⟩
      · rw [hpos' hnpos, hlen]; simp
      · rw [hev, hpos' hnpos]
  · have hb : (!(decide (0 < sl.length) && stopsAtEnd cfg sl)) = false := by simp [hnpos, hcut hr]
    rw [hb]
    refine ⟨st', false, rfl, fun h => Bool.noConfusion h, hS'.inv.bin, ?_⟩
    rw [hev, hpos' hnpos]

/-- **Slow path = grep model**: with an all-continue sink and no binary detection, when
`is_line_by_line_fast` is false at the start, the sink sees exactly the grep model of the input. -/
theorem sliceByLine_slow (cfg : Config) (m : MatcherI) (inp : Bytes) (hbin : cfg.binary = .none)
    (hslow : isLineByLineFast cfg m (Core.new cfg true) = false) :
    (sliceByLine cfg m allCont inp).events = grepSpec cfg (lineSel cfg m) inp ∧
      (sliceByLine cfg m allCont inp).result = .ok () := by
  unfold sliceByLine
  dsimp only
  rw [begin_allCont]
  simp only [if_true]
  rw [detectBinary_none hbin rfl]
  by_cases hne : inp = []
  · subst hne
    simp [sliceLoop, st0, Core.new, finish, emit_allCont, byteCount, ite_self, Run.events, grepSpec, splitLines,
      grepSpecLines, effective, stopTrunc, offsetAt]
  · obtain ⟨st', b, e1, hpos, hbo, hev⟩ := slow_run (cfg := cfg) m inp hbin hne
    have hfast : isLineByLineFast cfg m (st0 cfg) = false := by
      rw [isLineByLineFast_congr cfg m (st := st0 cfg) (st' := Core.new cfg true) rfl]; exact hslow
    have hloop : sliceLoop cfg m allCont inp (inp.length + 1) (st0 cfg) = (st', .ok ()) := by
      have hd : (List.drop (st0 cfg).pos inp).isEmpty = false := by
        cases inp with
        | nil => exact absurd rfl hne
        | cons a r => rfl
      rw [sliceLoop, hd]
      simp only [Bool.false_eq_true, if_false, matchByLine, hfast, e1]
      cases b with
      | false => rfl
      | true =>
        cases hl : inp.length with
        | zero => exact absurd (List.length_eq_zero_iff.mp hl) hne
        | succ k =>
          simp only [sliceLoop, hpos rfl, hl]
          rw [← hl]; simp
    dsimp only
    rw [hloop]
    simp only [finish, emit_allCont, byteCount, ite_self, hbo, Run.events]
    exact ⟨hev, trivial⟩

end RgVerif.Searcher
