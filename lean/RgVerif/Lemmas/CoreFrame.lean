import RgVerif.Lemmas.CoreShiftCtx
/-
Frame lemmas for `Core`: the deliveries (`sink_*`, the context helpers) neither read nor write the
search position and `has_matched`; they commute with setting those two fields.
-/
namespace RgVerif.Searcher
open RgVerif RgVerif.Matcher RgVerif.Lines RgVerif.GrepSpec

/-- set the search position and `has_matched` -/
def Core.withPH (s : Core) (p : Nat) (h : Bool) : Core := { s with pos := p, hasMatched := h }

/-- `f` commutes with `withPH` -/
def FramesPH (f : Core → Core × Res Bool) : Prop :=
  ∀ (s : Core) (p : Nat) (h : Bool), f (s.withPH p h) = ((f s).1.withPH p h, (f s).2)

theorem emit_ph (σ : Script) (ev : Event) (s : Core) (p : Nat) (h : Bool) :
    emit σ (s.withPH p h) ev = ((emit σ s ev).1.withPH p h, (emit σ s ev).2) := by
  rw [emit_def, emit_def]
  rfl

theorem countLines_ph (cfg : Config) (buf : Bytes) (s : Core) (u p : Nat) (h : Bool) :
    countLines cfg buf (s.withPH p h) u = (countLines cfg buf s u).withPH p h := by
  unfold countLines Core.withPH
  dsimp only
  split
  · rfl
  · split <;> rfl

theorem sinkBreakContext_ph (cfg : Config) (σ : Script) (o : Nat) :
    FramesPH (fun s => sinkBreakContext cfg σ s o) := by
  intro s p h
  show sinkBreakContext cfg σ (s.withPH p h) o
    = ((sinkBreakContext cfg σ s o).1.withPH p h, (sinkBreakContext cfg σ s o).2)
  unfold sinkBreakContext
  dsimp only
  show (if (!(decide (cfg.beforeContext > 0) || decide (cfg.afterContext > 0)) || !s.hasSunk ||
      !decide (s.lastLineVisited < o)) = true then (s.withPH p h, Res.ok true)
      else emit σ (s.withPH p h) .contextBreak) = _
  split
  · rfl
  · exact emit_ph σ .contextBreak s p h

/-- composing two framed steps -/
theorem FramesPH.bind {f g : Core → Core × Res Bool} (hf : FramesPH f) (hg : FramesPH g) :
    FramesPH (fun s => match f s with
      | (st, .ok true) => g st
      | (st, r) => (st, r)) := by
  intro s p h
  dsimp only
  rw [hf s p h]
  generalize f s = x
  obtain ⟨s1, r1⟩ := x
  cases r1 with
  | err => rfl
  | ok b =>
    cases b with
    | false => rfl
    | true => exact hg s1 p h

/-- the tail shared by the `sink_*` functions -/
theorem lineTail_ph (cfg : Config) (σ : Script) (buf : Bytes) (r : Span)
    (mk : Option Nat → Nat → Bytes → Event) (upd : Core → Core)
    (hupd : ∀ s p h, upd (s.withPH p h) = (upd s).withPH p h) :
    FramesPH (fun s =>
      match emit σ (countLines cfg buf s r.s)
          (mk (countLines cfg buf s r.s).lineNumber ((countLines cfg buf s r.s).absoluteByteOffset + r.s)
            (slice buf r.s r.e)) with
      | (st, .ok true) => (upd st, Res.ok true)
      | (st, r) => (st, r)) := by
  intro s p h
  dsimp only
  rw [countLines_ph]
  show (match emit σ ((countLines cfg buf s r.s).withPH p h)
      (mk (countLines cfg buf s r.s).lineNumber ((countLines cfg buf s r.s).absoluteByteOffset + r.s)
        (slice buf r.s r.e)) with
    | (st, .ok true) => (upd st, Res.ok true)
    | (st, r) => (st, r)) = _
  rw [emit_ph]
  generalize emit σ (countLines cfg buf s r.s) _ = x
  obtain ⟨s1, r1⟩ := x
  cases r1 with
  | err => rfl
  | ok b =>
    cases b with
    | false => rfl
    | true => dsimp only; rw [hupd]

theorem sinkCtx_ph {cfg : Config} (hbin : cfg.binary = .none) (σ : Script) (buf : Bytes) (r : Span) (k : CtxKind)
    (upd : Core → Core) (hupd : ∀ s p h, upd (s.withPH p h) = (upd s).withPH p h) :
    FramesPH (fun s =>
      match binaryGuard cfg σ buf r s with
      | (st, .err) => (st, Res.err)
      | (st, .ok true) => (st, .ok false)
      | (st, .ok false) =>
        match emit σ (countLines cfg buf st r.s)
          (.context k (countLines cfg buf st r.s).lineNumber ((countLines cfg buf st r.s).absoluteByteOffset + r.s)
            (slice buf r.s r.e)) with
        | (st, .ok true) => (upd st, .ok true)
        | (st, r) => (st, r)) := by
  intro s p h
  dsimp only
  rw [binaryGuard_none' hbin, binaryGuard_none' hbin]
  exact lineTail_ph cfg σ buf r (Event.context k) upd hupd s p h

theorem sinkBeforeContext_ph {cfg : Config} (hbin : cfg.binary = .none) (σ : Script) (buf : Bytes) (r : Span) :
    FramesPH (fun s => sinkBeforeContext cfg σ buf s r) :=
  sinkCtx_ph hbin σ buf r .before (fun s => { s with lastLineVisited := r.e, hasSunk := true }) (fun _ _ _ => rfl)

theorem sinkAfterContext_ph {cfg : Config} (hbin : cfg.binary = .none) (σ : Script) (buf : Bytes) (r : Span) :
    FramesPH (fun s => sinkAfterContext cfg σ buf s r) :=
  sinkCtx_ph hbin σ buf r .after
    (fun s => { s with lastLineVisited := r.e, afterContextLeft := s.afterContextLeft - 1, hasSunk := true })
    (fun _ _ _ => rfl)

theorem sinkMatched_ph {cfg : Config} (hbin : cfg.binary = .none) (σ : Script) (buf : Bytes) (r : Span) :
    FramesPH (fun s => sinkMatched cfg σ buf s r) := by
  intro s p h
  show sinkMatched cfg σ buf (s.withPH p h) r = ((sinkMatched cfg σ buf s r).1.withPH p h, (sinkMatched cfg σ buf s r).2)
  unfold sinkMatched
  rw [binaryGuard_none' hbin, binaryGuard_none' hbin]
  dsimp only
  exact FramesPH.bind (sinkBreakContext_ph cfg σ r.s)
    (lineTail_ph cfg σ buf r Event.matched
      (fun s => { s with lastLineVisited := r.e, afterContextLeft := cfg.afterContext, hasSunk := true })
      (fun _ _ _ => rfl)) s p h

theorem beforeLoop_ph {cfg : Config} (hbin : cfg.binary = .none) (σ : Script) (buf : Bytes) (ls : List Span) :
    FramesPH (fun s => beforeLoop cfg σ buf ls s) := by
  induction ls with
  | nil => intro s p h; rfl
  | cons l ls ih =>
    intro s p h
    show beforeLoop cfg σ buf (l :: ls) (s.withPH p h) = _
    unfold beforeLoop
    exact FramesPH.bind (sinkBreakContext_ph cfg σ l.s)
      (FramesPH.bind (sinkBeforeContext_ph hbin σ buf l) ih) s p h

theorem beforeContextByLine_ph {cfg : Config} (hbin : cfg.binary = .none) (σ : Script) (buf : Bytes) (u : Nat) :
    FramesPH (fun s => beforeContextByLine cfg σ buf s u) := by
  intro s p h
  show beforeContextByLine cfg σ buf (s.withPH p h) u = _
  unfold beforeContextByLine
  split
  · rfl
  · dsimp only
    show (if (u - s.lastLineVisited == 0) = true then (s.withPH p h, Res.ok true) else _) = _
    split
    · rfl
    · exact beforeLoop_ph hbin σ buf _ s p h

theorem afterLoop_ph {cfg : Config} (hbin : cfg.binary = .none) (σ : Script) (buf : Bytes) (ls : List Span) :
    FramesPH (fun s => afterLoop cfg σ buf ls s) := by
  induction ls with
  | nil => intro s p h; rfl
  | cons l ls ih =>
    intro s p h
    show afterLoop cfg σ buf (l :: ls) (s.withPH p h) = _
    unfold afterLoop
    have hg : FramesPH (fun st => if (st.afterContextLeft == 0) = true then (st, Res.ok true)
        else afterLoop cfg σ buf ls st) := by
      intro s2 p2 h2
      dsimp only
      show (if (s2.afterContextLeft == 0) = true then (s2.withPH p2 h2, Res.ok true)
        else afterLoop cfg σ buf ls (s2.withPH p2 h2)) = _
      split
      · rfl
      · exact ih s2 p2 h2
    exact FramesPH.bind (sinkAfterContext_ph hbin σ buf l) hg s p h

theorem afterContextByLine_ph {cfg : Config} (hbin : cfg.binary = .none) (σ : Script) (buf : Bytes) (u : Nat) :
    FramesPH (fun s => afterContextByLine cfg σ buf s u) := by
  intro s p h
  show afterContextByLine cfg σ buf (s.withPH p h) u = _
  unfold afterContextByLine
  show (if (s.afterContextLeft == 0) = true then (s.withPH p h, Res.ok true)
    else afterLoop cfg σ buf (stepLines cfg.lineTerm.asByte buf s.lastLineVisited u) (s.withPH p h))
    = ((if (s.afterContextLeft == 0) = true then (s, Res.ok true)
        else afterLoop cfg σ buf (stepLines cfg.lineTerm.asByte buf s.lastLineVisited u) s).1.withPH p h,
      (if (s.afterContextLeft == 0) = true then (s, Res.ok true)
        else afterLoop cfg σ buf (stepLines cfg.lineTerm.asByte buf s.lastLineVisited u) s).2)
  by_cases hz : (s.afterContextLeft == 0) = true
  · rw [if_pos hz, if_pos hz]
  · rw [if_neg hz, if_neg hz]
    exact afterLoop_ph hbin σ buf _ s p h

theorem matchedLoop_ph {cfg : Config} (hbin : cfg.binary = .none) (σ : Script) (buf : Bytes) (ls : List Span) :
    FramesPH (fun s => matchedLoop cfg σ buf ls s) := by
  induction ls with
  | nil => intro s p h; rfl
  | cons l ls ih =>
    intro s p h
    show matchedLoop cfg σ buf (l :: ls) (s.withPH p h) = _
    unfold matchedLoop
    exact FramesPH.bind (sinkMatched_ph hbin σ buf l) ih s p h

end RgVerif.Searcher

namespace RgVerif.Searcher
open RgVerif RgVerif.Matcher RgVerif.Lines RgVerif.GrepSpec

/-! ### consequences of the frame property -/

theorem withPH_self (s : Core) : s.withPH s.pos s.hasMatched = s := rfl

theorem FramesPH.pos {f : Core → Core × Res Bool} (hf : FramesPH f) (s : Core) :
    (f s).1.pos = s.pos ∧ (f s).1.hasMatched = s.hasMatched := by
  have h := hf s s.pos s.hasMatched
  rw [withPH_self] at h
  have h1 := congrArg (fun x => x.1) h
  dsimp only at h1
  constructor
  · have := congrArg Core.pos h1; exact this
  · have := congrArg Core.hasMatched h1; exact this

/-- states that agree except for the search position and `has_matched` -/
theorem withPH_inj {a b : Core} (h : a.withPH 0 false = b.withPH 0 false) : a = b.withPH a.pos a.hasMatched := by
  have := congrArg (fun s => Core.withPH s a.pos a.hasMatched) h
  exact this

/-! ### "`Ok(false)` comes from the sink" -/

/-- a result says "stop" only if the sink said so at some callback -/
def NoStopRes (σ : Script) (r : Core × Res Bool) : Prop := r.2 = .ok false → ∃ i, σ i = .stop

theorem emit_noStop (σ : Script) (s : Core) (ev : Event) : NoStopRes σ (emit σ s ev) := by
  intro h
  rw [emit_def] at h
  refine ⟨s.events.length, ?_⟩
  cases hσ : σ s.events.length <;> simp [hσ, respOf] at h ⊢

theorem NoStopRes.bind {σ : Script} (x : Core × Res Bool) (g : Core → Core × Res Bool)
    (hx : NoStopRes σ x) (hg : ∀ s, NoStopRes σ (g s)) :
    NoStopRes σ (match (generalizing := false) x with
      | (st, .ok true) => g st
      | (st, r) => (st, r)) := by
  obtain ⟨s1, r1⟩ := x
  cases r1 with
  | err => intro h; cases h
  | ok b =>
    cases b with
    | false => exact hx
    | true => exact hg s1

theorem sinkBreakContext_noStop (cfg : Config) (σ : Script) (s : Core) (o : Nat) :
    NoStopRes σ (sinkBreakContext cfg σ s o) := by
  unfold sinkBreakContext
  dsimp only
  split
  · intro h; cases h
  · exact emit_noStop σ s _

theorem lineTail_noStop (cfg : Config) (σ : Script) (buf : Bytes) (r : Span)
    (mk : Option Nat → Nat → Bytes → Event) (upd : Core → Core) (s : Core) :
    NoStopRes σ (match emit σ (countLines cfg buf s r.s)
          (mk (countLines cfg buf s r.s).lineNumber ((countLines cfg buf s r.s).absoluteByteOffset + r.s)
            (slice buf r.s r.e)) with
      | (st, .ok true) => (upd st, Res.ok true)
      | (st, r) => (st, r)) :=
  NoStopRes.bind _ (fun st => (upd st, Res.ok true)) (emit_noStop σ _ _) (fun _ h => by cases h)

theorem sinkCtx_noStop {cfg : Config} (hbin : cfg.binary = .none) (σ : Script) (buf : Bytes) (r : Span) (k : CtxKind)
    (upd : Core → Core) (s : Core) :
    NoStopRes σ (match binaryGuard cfg σ buf r s with
      | (st, .err) => (st, Res.err)
      | (st, .ok true) => (st, .ok false)
      | (st, .ok false) =>
        match emit σ (countLines cfg buf st r.s)
          (.context k (countLines cfg buf st r.s).lineNumber ((countLines cfg buf st r.s).absoluteByteOffset + r.s)
            (slice buf r.s r.e)) with
        | (st, .ok true) => (upd st, .ok true)
        | (st, r) => (st, r)) := by
  rw [binaryGuard_none' hbin]
  exact lineTail_noStop cfg σ buf r (Event.context k) upd s

theorem sinkBeforeContext_noStop {cfg : Config} (hbin : cfg.binary = .none) (σ : Script) (buf : Bytes) (s : Core)
    (r : Span) : NoStopRes σ (sinkBeforeContext cfg σ buf s r) :=
  sinkCtx_noStop hbin σ buf r .before _ s

theorem sinkAfterContext_noStop {cfg : Config} (hbin : cfg.binary = .none) (σ : Script) (buf : Bytes) (s : Core)
    (r : Span) : NoStopRes σ (sinkAfterContext cfg σ buf s r) :=
  sinkCtx_noStop hbin σ buf r .after _ s

theorem sinkMatched_noStop {cfg : Config} (hbin : cfg.binary = .none) (σ : Script) (buf : Bytes) (s : Core)
    (r : Span) : NoStopRes σ (sinkMatched cfg σ buf s r) := by
  unfold sinkMatched
  rw [binaryGuard_none' hbin]
  dsimp only
  exact NoStopRes.bind _ _ (sinkBreakContext_noStop cfg σ s r.s)
    (fun st => lineTail_noStop cfg σ buf r Event.matched _ st)

theorem beforeLoop_noStop {cfg : Config} (hbin : cfg.binary = .none) (σ : Script) (buf : Bytes) (ls : List Span) :
    ∀ s, NoStopRes σ (beforeLoop cfg σ buf ls s) := by
  induction ls with
  | nil => intro s h; cases h
  | cons l ls ih =>
    intro s
    unfold beforeLoop
    exact NoStopRes.bind _ _ (sinkBreakContext_noStop cfg σ s l.s)
      (fun st => NoStopRes.bind _ _ (sinkBeforeContext_noStop hbin σ buf st l) ih)

theorem beforeContextByLine_noStop {cfg : Config} (hbin : cfg.binary = .none) (σ : Script) (buf : Bytes) (s : Core)
    (u : Nat) : NoStopRes σ (beforeContextByLine cfg σ buf s u) := by
  unfold beforeContextByLine
  split
  · intro h; cases h
  · dsimp only
    split
    · intro h; cases h
    · exact beforeLoop_noStop hbin σ buf _ s

theorem afterLoop_noStop {cfg : Config} (hbin : cfg.binary = .none) (σ : Script) (buf : Bytes) (ls : List Span) :
    ∀ s, NoStopRes σ (afterLoop cfg σ buf ls s) := by
  induction ls with
  | nil => intro s h; cases h
  | cons l ls ih =>
    intro s
    unfold afterLoop
    refine NoStopRes.bind _ (fun st => if (st.afterContextLeft == 0) = true then (st, Res.ok true)
      else afterLoop cfg σ buf ls st) (sinkAfterContext_noStop hbin σ buf s l) ?_
    intro st
    split
    · intro h; cases h
    · exact ih st

theorem afterContextByLine_noStop {cfg : Config} (hbin : cfg.binary = .none) (σ : Script) (buf : Bytes) (s : Core)
    (u : Nat) : NoStopRes σ (afterContextByLine cfg σ buf s u) := by
  unfold afterContextByLine
  split
  · intro h; cases h
  · exact afterLoop_noStop hbin σ buf _ s

theorem matchedLoop_noStop {cfg : Config} (hbin : cfg.binary = .none) (σ : Script) (buf : Bytes) (ls : List Span) :
    ∀ s, NoStopRes σ (matchedLoop cfg σ buf ls s) := by
  induction ls with
  | nil => intro s h; cases h
  | cons l ls ih =>
    intro s
    unfold matchedLoop
    exact NoStopRes.bind _ _ (sinkMatched_noStop hbin σ buf s l) ih

end RgVerif.Searcher
