import RgVerif.Lemmas.GitTree
import RgVerif.Lemmas.GlobStrat2
import RgVerif.Lemmas.GlobSetIdx
/-
File level of C04: inside one ignore file ripgrep's answer (glob set → highest matching index, directory-only
filter) is "the last matching line wins", and if every line means the same to ripgrep and to git then the
file does (`FileAgree`).
-/
namespace RgVerif.Gitignore
open RgVerif RgVerif.Glob

/-- a glob of the file applies to the entry -/
def GiGlob.hits (g : GiGlob) (path : Bytes) (isDir : Bool) : Bool :=
  g.glob.isMatch path && (!g.isOnlyDir || isDir)

/-! ### pickLast over the set's answer -/

theorem pickLast_congr (G1 G2 : List GiGlob) (isDir : Bool) (idxs : List Nat)
    (h : ∀ i ∈ idxs, G1[i]? = G2[i]?) : pickLast G1 isDir idxs = pickLast G2 isDir idxs := by
  induction idxs with
  | nil => rfl
  | cons i rest ih =>
    simp only [pickLast]
    rw [h i (by simp)]
    have := ih (fun j hj => h j (by simp [hj]))
    rw [this]

/-- `matchAt` of C12 restated for the globs of a file -/
def gMatchAt (G : List GiGlob) (p : Bytes) (i : Nat) : Bool :=
  match G[i]? with
  | some g => g.glob.isMatch p
  | none => false

theorem pickLast_last_wins (xs : List GiGlob) (p : Bytes) (isDir : Bool) :
    (pickLast xs.reverse isDir
      ((List.range xs.length).filter (gMatchAt xs.reverse p)).reverse).toOpt =
    (xs.find? fun g => g.hits p isDir).map fun g => !g.isWhitelist := by
  induction xs with
  | nil => simp [pickLast, Verdict.toOpt]
  | cons g xs ih =>
    have hlen : (g :: xs).length = xs.length + 1 := rfl
    rw [hlen, List.range_succ, List.filter_append, List.reverse_append]
    have hg : (xs.reverse ++ [g])[xs.length]? = some g := by
      rw [List.getElem?_append_right (by simp)]; simp
    have hrev : (g :: xs).reverse = xs.reverse ++ [g] := by simp
    rw [hrev]
    -- the indices below `xs.length` see the same globs
    have hsame : ∀ i, i < xs.length → (xs.reverse ++ [g])[i]? = xs.reverse[i]? := by
      intro i hi
      rw [List.getElem?_append_left (by simpa using hi)]
    have hfilter : (List.range xs.length).filter (gMatchAt (xs.reverse ++ [g]) p)
        = (List.range xs.length).filter (gMatchAt xs.reverse p) := by
      apply List.filter_congr
      intro i hi
      simp only [gMatchAt, hsame i (List.mem_range.mp hi)]
    rw [hfilter]
    have hrest : pickLast (xs.reverse ++ [g]) isDir
          ((List.range xs.length).filter (gMatchAt xs.reverse p)).reverse
        = pickLast xs.reverse isDir ((List.range xs.length).filter (gMatchAt xs.reverse p)).reverse := by
      apply pickLast_congr
      intro i hi
      rw [List.mem_reverse, List.mem_filter, List.mem_range] at hi
      exact hsame i hi.1
    by_cases hm : g.glob.isMatch p = true
    · have : [xs.length].filter (gMatchAt (xs.reverse ++ [g]) p) = [xs.length] := by
        simp [List.filter, gMatchAt, hg, hm]
      rw [this]
      simp only [List.reverse_cons, List.reverse_nil, List.nil_append, List.singleton_append,
        pickLast, hg, List.find?_cons, GiGlob.hits, hm, Bool.true_and]
      by_cases hd : (!g.isOnlyDir || isDir) = true
      · simp only [hd, ↓reduceIte, Option.map_some]
        cases g.isWhitelist <;> simp [Verdict.toOpt]
      · simp only [hd, Bool.false_eq_true, ↓reduceIte]
        rw [hrest, ih]
        simp [GiGlob.hits]
    · have : [xs.length].filter (gMatchAt (xs.reverse ++ [g]) p) = [] := by
        simp [List.filter, gMatchAt, hg, hm]
      rw [this]
      simp only [List.reverse_nil, List.nil_append, List.find?_cons, GiGlob.hits, hm,
        Bool.false_and, Bool.false_eq_true, ↓reduceIte]
      rw [hrest, ih]
      simp [GiGlob.hits]

theorem gMatchAt_eq (G : List GiGlob) (p : Bytes) (i : Nat) :
    gMatchAt G p i = (match (G.map (·.glob))[i]? with
      | some g => tokMatch g.opts g.tokens p
      | none => false) := by
  simp only [gMatchAt, List.getElem?_map]
  cases G[i]? <;> rfl

/-- **Within a file the last matching pattern wins** (and a directory-only pattern only counts for
directories): `Gitignore::matched_stripped`, which goes through the glob set and its strategies, answers like
a scan of the lines from the last to the first — for every list of globs and every path outside the dots class. -/
theorem matchedStripped_last_wins (G : List GiGlob) (p : Bytes) (isDir : Bool)
    (hd : lastCompDots p = false) :
    (matchedStripped G p isDir).toOpt =
      (G.reverse.find? fun g => g.hits p isDir).map fun g => !g.isWhitelist := by
  unfold matchedStripped
  by_cases he : G.isEmpty = true
  · have : G = [] := by simpa using he
    subst this; simp [Verdict.toOpt]
  · simp only [he, Bool.false_eq_true, ↓reduceIte]
    -- C12: the set answers with the increasing list of matching indices
    have hset : setMatches (G.map (·.glob)) p =
        (List.range G.length).filter (gMatchAt G p) := by
      have hC12 : setMatches (G.map (·.glob)) p =
          (List.range (G.map (·.glob)).length).filter (fun i =>
            match (G.map (·.glob))[i]? with
            | some g => tokMatch g.opts g.tokens p
            | none => false) := by
        unfold setMatches GlobSet.new GlobSet.matchesCandidate
        cases hG : G.map (·.glob) with
        | nil => simp [GlobSet.emptySet]
        | cons g0 gs' =>
          simp only [List.isEmpty_cons, Bool.false_eq_true, ↓reduceIte, List.length_cons,
            Nat.add_eq_zero_iff, Nat.succ_ne_self, and_false, beq_iff_eq]
          apply dedup_sort_eq_filter
          intro j
          show j ∈ (GlobSet.emptySet.addAll 0 (g0 :: gs')).pushes (candidate p) ↔ _
          rw [mem_pushes_addAll, pushes_emptySet]
          simp only [List.not_mem_nil, false_or, mem_enumFrom, Nat.zero_le, Nat.sub_zero, true_and]
          constructor
          · rintro ⟨g, hg, hs⟩
            have hlt : j < (g0 :: gs').length := (List.getElem?_eq_some_iff.mp hg).1
            refine ⟨by simpa using hlt, ?_⟩
            rw [strategyOf_correct g p hd] at hs
            simp only [hg]; exact hs
          · rintro ⟨hlt, hm⟩
            have hlt' : j < (g0 :: gs').length := by simpa using hlt
            refine ⟨(g0 :: gs')[j], List.getElem?_eq_getElem hlt', ?_⟩
            rw [strategyOf_correct _ p hd]
            simp only [List.getElem?_eq_getElem hlt'] at hm
            exact hm
      rw [hC12, List.length_map]
      apply List.filter_congr
      intro i _
      rw [gMatchAt_eq]
    rw [hset]
    have := pickLast_last_wins G.reverse p isDir
    simp only [List.reverse_reverse, List.length_reverse] at this
    exact this

/-! ### from lines to the file -/

/-- what one line contributes on ripgrep's side -/
def mHit (ci : Bool) (l : List Nat) (path : Bytes) (isDir : Bool) : Option Bool :=
  match addLine ci l with
  | .glob g => if g.hits path isDir then some (!g.isWhitelist) else none
  | _ => none

/-- what one line contributes on git's side -/
def sHit (ci : Bool) (l : List Nat) (rel : List Bytes) (isDir : Bool) : Option Bool :=
  match GitSpec.parsePat l with
  | some pat => if GitSpec.patMatches ci pat rel isDir then some (!pat.negative) else none
  | none => none

/-- a line means the same to ripgrep and to git -/
def LineAgree (ci : Bool) (l : List Nat) : Prop :=
  ∀ (rel : List Bytes) (isDir : Bool), wfRel rel = true → mHit ci l (joinPath rel) isDir = sHit ci l rel isDir

theorem find_filterMap {α β γ : Type} (f : α → Option β) (q : β → Bool) (h : β → γ) (xs : List α) :
    ((xs.filterMap f).find? q).map h =
      xs.findSome? fun x => (f x).bind fun y => if q y then some (h y) else none := by
  induction xs with
  | nil => rfl
  | cons x xs ih =>
    rw [List.filterMap_cons, List.findSome?_cons]
    cases hf : f x with
    | none =>
      simp only [Option.bind_none]
      exact ih
    | some y =>
      simp only [List.find?_cons, Option.bind_some]
      by_cases hq : q y = true
      · simp only [hq, ↓reduceIte, Option.map_some]
      · simp only [hq, Bool.false_eq_true, ↓reduceIte]
        exact ih

theorem findSome_congr {α β : Type} {f g : α → Option β} {l : List α} (h : ∀ x ∈ l, f x = g x) :
    l.findSome? f = l.findSome? g := by
  induction l with
  | nil => rfl
  | cons x xs ih =>
    rw [List.findSome?_cons, List.findSome?_cons, h x (by simp), ih (fun y hy => h y (by simp [hy]))]

/-- the last component of the joined path is the last element of `rel` -/
theorem lastComp_joinPath_eq (rel : List Bytes) (hne : rel ≠ []) (hall : ∀ c ∈ rel, wfName c = true) :
    lastComp (joinPath rel) = rel.getLast?.getD [] := by
  induction rel with
  | nil => exact absurd rfl hne
  | cons c cs ih =>
    cases cs with
    | nil =>
      have hc := hall c (by simp)
      simp only [wfName, Bool.and_eq_true, Bool.not_eq_eq_eq_not, Bool.not_true] at hc
      have h47 : 47 ∉ c := by simpa using hc.1.1.2
      simp only [joinPath, List.getLast?_singleton, Option.getD_some]
      rw [lastComp_eq, afterLast_of_not_mem h47]
    | cons c2 cs2 =>
      have hrest := ih (by simp) (fun x hx => hall x (by simp [hx]))
      simp only [joinPath, List.append_assoc, List.singleton_append]
      rw [lastComp_eq]
      rcases afterLast_cases 47 (joinPath (c2 :: cs2)) with ⟨h1, h2⟩ | ⟨x, hx⟩
      · rw [afterLast_append_cons _ h1]
        rw [lastComp_eq, h2] at hrest
        rw [hrest]; simp
      · have : c ++ 47 :: joinPath (c2 :: cs2) = (c ++ 47 :: x) ++ 47 :: afterLast 47 (joinPath (c2 :: cs2)) := by
          conv => lhs; rw [hx]
          simp
        rw [this, afterLast_append_cons _ (not_mem_afterLast 47 _)]
        rw [lastComp_eq] at hrest
        rw [hrest]; simp

theorem lastComp_joinPath {rel : List Bytes} (h : wfRel rel = true) :
    lastCompDots (joinPath rel) = false := by
  unfold wfRel at h
  simp only [Bool.and_eq_true, Bool.not_eq_eq_eq_not, Bool.not_true, List.isEmpty_eq_false_iff,
    ne_eq, List.all_eq_true] at h
  have hl := lastComp_joinPath_eq rel h.1 h.2
  unfold lastCompDots
  rw [hl]
  obtain ⟨c, hc⟩ : ∃ c, rel.getLast? = some c := by
    cases hr : rel.getLast? with
    | none => simp at hr; exact absurd hr h.1
    | some c => exact ⟨c, rfl⟩
  rw [hc]
  have hw := h.2 c (List.mem_of_getLast? hc)
  simp only [wfName, Bool.and_eq_true, Bool.not_eq_eq_eq_not, Bool.not_true, bne_iff_ne, ne_eq] at hw
  simp [hw.1.2, hw.2]

/-- if every line of a file means the same to ripgrep and to git, so does the file -/
theorem fileAgree_of_lines (ci : Bool) (lines : List (List Nat)) (h : ∀ l ∈ lines, LineAgree ci l) :
    FileAgree ci lines := by
  intro rel isDir hwf
  rw [matchedStripped_last_wins _ _ _ (lastComp_joinPath hwf)]
  unfold GitSpec.fileVerdict buildGlobs
  rw [← List.filterMap_reverse, ← List.filterMap_reverse, find_filterMap, find_filterMap]
  apply findSome_congr
  intro l hl
  have := h l (List.mem_reverse.mp hl) rel isDir hwf
  unfold mHit sHit at this
  cases ha : addLine ci l <;> cases hp : GitSpec.parsePat l <;> simp_all

end RgVerif.Gitignore
