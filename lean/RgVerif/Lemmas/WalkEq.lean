import RgVerif.Model.Walk
import RgVerif.Spec.Reach
/-
C06: the parallel walker model computes the reachability spec (for every jump function / fuel).
-/
namespace RgVerif.Walk

theorem tooBig_guard (cfg : Cfg) (v : View) :
    (if cfg.maxFilesize.isSome && !v.isDir then tooBig cfg v else false) = tooBig cfg v := by
  cases v <;> simp [tooBig, View.isDir]
  all_goals (split <;> simp_all)

theorem inAnc_eq (anc : List Anc) (i : Nat) : (anc.map (·.1)).any (· == i) = inAnc anc i := by
  simp [inAnc, List.any_map, Function.comp_def]

/-- `generate_work` once the follow step has produced the entry `v`. -/
theorem generateWork_ok (cfg : Cfg) (forest : List Node) (anc : List Anc) (depth : Nat)
    (rootDev : Option Nat) (pp : Path) (k : Node) (v : View)
    (hv : followEntry cfg forest (anc.map (·.1)) (pp ++ [k.name]) k = .ok v) :
    generateWork cfg forest anc depth rootDev pp k =
      ([], if accepted cfg anc (pp ++ [k.name]) k.name v then
             some { path := pp ++ [k.name], depth := depth, view := v, anc := anc, rootDev := rootDev }
           else none) := by
  unfold generateWork
  simp only [hv]
  unfold accepted
  rw [tooBig_guard]
  cases ignoredBy cfg anc k.name v <;> cases tooBig cfg v <;>
    cases filteredOut cfg (pp ++ [k.name]) v <;> simp

theorem generateWork_err (cfg : Cfg) (forest : List Node) (anc : List Anc) (depth : Nat)
    (rootDev : Option Nat) (pp : Path) (k : Node) (e : Out)
    (hv : followEntry cfg forest (anc.map (·.1)) (pp ++ [k.name]) k = .error e) :
    generateWork cfg forest anc depth rootDev pp k = ([e], none) := by
  unfold generateWork
  simp only [hv]

theorem runOne_nondir (cfg : Cfg) (w : Work) (c : List Anc → Nat → Path → Option Nat → List Out)
    (h : w.view.isDir = false) : runOne cfg w c = [.entry w.path] := by
  unfold runOne enterDir
  cases hv : w.view <;> simp_all [View.isDir]

theorem enterDir_dir (cfg : Cfg) (p : Path) (depth : Nat) (d : DirView) (via : Bool) (anc : List Anc)
    (rd : Option Nat) :
    enterDir cfg { path := p, depth := depth, view := .dir d via, anc := anc, rootDev := rd } =
      if devOk rd d.dev && depthOk cfg depth then some ((d.ino, d.ign) :: anc) else none := by
  unfold enterDir
  simp only []
  cases h1 : devOk rd d.dev <;> cases h2 : depthOk cfg depth <;> simp

theorem runOne_dir (cfg : Cfg) (p : Path) (depth : Nat) (d : DirView) (via : Bool) (anc : List Anc)
    (rd : Option Nat) (c : List Anc → Nat → Path → Option Nat → List Out) :
    runOne cfg { path := p, depth := depth, view := .dir d via, anc := anc, rootDev := rd } c =
      .entry p :: (if devOk rd d.dev && depthOk cfg depth then c ((d.ino, d.ign) :: anc) depth p rd else []) := by
  unfold runOne
  rw [enterDir_dir]
  cases devOk rd d.dev && depthOk cfg depth <;> simp

theorem followEntry_nolink (cfg : Cfg) (forest : List Node) (is : List Nat) (p : Path) (k : Node)
    (h : (lstat k).isSymlink = false) : followEntry cfg forest is p k = .ok (lstat k) := by
  unfold followEntry
  simp [h]

theorem resolve_dir_via {forest : List Node} {tgt : Target} {d : DirView} {via : Bool}
    (h : resolve forest tgt = .dir d via) : via = true := by
  cases tgt with
  | missing => simp [resolve] at h
  | file s => simp [resolve] at h
  | dir i =>
    simp only [resolve] at h
    split at h
    · cases h; rfl
    · cases h

theorem followEntry_link_dir (cfg : Cfg) (forest : List Node) (anc : List Anc) (p : Path)
    (name len : Nat) (tgt : Target) (d : DirView) (via : Bool) (hf : cfg.followLinks = true)
    (hr : resolve forest tgt = .dir d via) :
    followEntry cfg forest (anc.map (·.1)) p (.link name len tgt) =
      if inAnc anc d.ino then .error (.loop p) else .ok (.dir d via) := by
  unfold followEntry
  simp only [hf, lstat, View.isSymlink, stat, hr, Bool.and_self, if_true]
  rw [inAnc_eq]

mutual
theorem parEntry_eq (cfg : Cfg) (forest : List Node) (jump : Contents) (rootDev : Option Nat)
    (anc : List Anc) (depth : Nat) (pp : Path) :
    (k : Node) → parEntry cfg forest jump rootDev anc depth pp k =
      reachEntry cfg forest jump rootDev anc depth pp k
  | .file name size => by
    unfold parEntry reachEntry
    rw [generateWork_ok cfg forest anc (depth + 1) rootDev pp (.file name size) (.file size)
      (followEntry_nolink _ _ _ _ _ rfl)]
    simp only [Node.name]
    by_cases hacc : accepted cfg anc (pp ++ [name]) name (View.file size) = true
    · simp only [hacc, if_true, List.nil_append]; rw [runOne_nondir _ _ _ rfl]
    · simp [hacc]
  | .dir name ino dev ign kids => by
    have ih := parKids_eq cfg forest jump rootDev ((ino, ign) :: anc) (depth + 1) (pp ++ [name]) kids
    unfold parEntry reachEntry
    rw [generateWork_ok cfg forest anc (depth + 1) rootDev pp (.dir name ino dev ign kids)
      (.dir ⟨ino, dev, ign, kids⟩ false) (followEntry_nolink _ _ _ _ _ rfl)]
    simp only [Node.name]
    by_cases hacc : accepted cfg anc (pp ++ [name]) name (.dir ⟨ino, dev, ign, kids⟩ false) = true
    · simp only [hacc, if_true, runOne_dir, List.nil_append]
      rw [ih]
    · simp [hacc]
  | .link name len tgt => by
    unfold parEntry reachEntry
    by_cases hf : cfg.followLinks = true
    · simp only [hf, if_true]
      cases hr : resolve forest tgt with
      | broken =>
        rw [generateWork_err cfg forest anc (depth + 1) rootDev pp (.link name len tgt) (.broken (pp ++ [name]))
          (by simp [followEntry, hf, lstat, View.isSymlink, stat, hr, Node.name])]
      | file s =>
        rw [generateWork_ok cfg forest anc (depth + 1) rootDev pp (.link name len tgt) (.file s)
          (by simp [followEntry, hf, lstat, View.isSymlink, stat, hr, Node.name])]
        simp only [Node.name]
        by_cases hacc : accepted cfg anc (pp ++ [name]) name (View.file s) = true
        · simp only [hacc, if_true, List.nil_append]; rw [runOne_nondir _ _ _ rfl]
        · simp [hacc]
      | symlink l =>
        rw [generateWork_ok cfg forest anc (depth + 1) rootDev pp (.link name len tgt) (.symlink l)
          (by simp [followEntry, hf, lstat, View.isSymlink, stat, hr, Node.name])]
        simp only [Node.name]
        by_cases hacc : accepted cfg anc (pp ++ [name]) name (View.symlink l) = true
        · simp only [hacc, if_true, List.nil_append]; rw [runOne_nondir _ _ _ rfl]
        · simp [hacc]
      | dir d via =>
        by_cases hl : inAnc anc d.ino = true
        · rw [generateWork_err cfg forest anc (depth + 1) rootDev pp (.link name len tgt) (.loop (pp ++ [name]))
            (by rw [followEntry_link_dir cfg forest anc _ name len tgt d via hf hr]; simp [hl, Node.name])]
          simp [hl]
        · rw [generateWork_ok cfg forest anc (depth + 1) rootDev pp (.link name len tgt) (.dir d via)
            (by rw [followEntry_link_dir cfg forest anc _ name len tgt d via hf hr]; simp [hl, Node.name])]
          simp only [Node.name, hl]
          have hvia := resolve_dir_via hr
          subst hvia
          by_cases hacc : accepted cfg anc (pp ++ [name]) name (.dir d true) = true
          · simp only [hacc, if_true, runOne_dir, List.nil_append, View.kids]
            simp
          · simp [hacc]
    · have hf' : cfg.followLinks = false := by simpa using hf
      rw [generateWork_ok cfg forest anc (depth + 1) rootDev pp (.link name len tgt) (.symlink len)
        (by simp [followEntry, hf', lstat])]
      simp only [Node.name, hf', Bool.false_eq_true, if_false]
      by_cases hacc : accepted cfg anc (pp ++ [name]) name (View.symlink len) = true
      · simp only [hacc, if_true, List.nil_append]; rw [runOne_nondir _ _ _ rfl]
      · simp [hacc]
theorem parKids_eq (cfg : Cfg) (forest : List Node) (jump : Contents) (rootDev : Option Nat)
    (anc : List Anc) (depth : Nat) (pp : Path) :
    (ks : List Node) → parKids cfg forest jump rootDev anc depth pp ks =
      reachKids cfg forest jump rootDev anc depth pp ks
  | [] => by simp [parKids, reachKids]
  | k :: ks => by
    unfold parKids reachKids
    rw [parEntry_eq cfg forest jump rootDev anc depth pp k,
      parKids_eq cfg forest jump rootDev anc depth pp ks]
end

theorem parContents_eq (cfg : Cfg) (forest : List Node) :
    ∀ f, parContents cfg forest f = reachContents cfg forest f := by
  intro f
  induction f with
  | zero => rfl
  | succ f ih =>
    funext anc depth p rootDev kids
    simp only [parContents, reachContents, ih, parKids_eq]

theorem parRoot_eq (cfg : Cfg) (forest : List Node) (fuel : Nat) (r : Node) :
    parRoot cfg forest fuel r = reachRoot cfg forest fuel r := by
  unfold parRoot reachRoot
  cases hs : stat forest r with
  | broken => rfl
  | file s => simp only []; rw [runOne_nondir _ _ _ rfl]
  | symlink l => simp only []; rw [runOne_nondir _ _ _ rfl]
  | dir d via =>
    simp only [runOne_dir, parContents_eq, View.kids]
    cases cfg.sameFs <;> simp [devOk, rootDepth]

theorem parallel_eq (cfg : Cfg) (forest : List Node) (fuel : Nat) (roots : List Node) :
    parallel cfg forest fuel roots = reach cfg forest fuel roots := by
  unfold parallel reach
  congr 1
  funext r
  exact parRoot_eq cfg forest fuel r

end RgVerif.Walk
