import RgVerif.Lemmas.PrinterJson
import RgVerif.Lemmas.PrinterIter
/-
Helper lemmas for C09 (JSON half): the messages of a search are begin · (match|context)* · end, each
match/context message is the one built from its event, submatches decode to the sub-ranges of the line, and in
single-line mode a sane matcher never drives `SubMatches::new` out of range.
-/
namespace RgVerif.Lemmas.PrinterJsonRun
open RgVerif RgVerif.Matcher RgVerif.Replace RgVerif.Json RgVerif.Printer RgVerif.PrinterSpec
open RgVerif.Lemmas.PrinterIter

/-- `jsont::SubMatch` for the range `m` of `bytes` -/
def subOf (bytes : Bytes) (m : Span) : SubMatch := { m := encodeData (slice bytes m.s m.e), s := m.s, e := m.e }

/-- all ranges can be sliced out of `bytes` -/
def InRange (bytes : Bytes) (ms : List Span) : Prop := ∀ m ∈ ms, m.s ≤ m.e ∧ m.e ≤ bytes.length

theorem subMatches_some {bytes : Bytes} {ms : List Span} {subs : List SubMatch}
    (h : subMatches bytes ms = some subs) : subs = ms.map (subOf bytes) ∧ InRange bytes ms := by
  unfold subMatches at h
  split at h
  · rename_i hall
    injection h with h
    refine ⟨h.symm, ?_⟩
    intro m hm
    have := List.all_eq_true.mp hall m hm
    simpa using this
  · simp at h

theorem subMatches_of_inRange {bytes : Bytes} {ms : List Span} (h : InRange bytes ms) :
    subMatches bytes ms = some (ms.map (subOf bytes)) := by
  unfold subMatches
  have : ms.all (fun m => decide (m.s ≤ m.e) && decide (m.e ≤ bytes.length)) = true := by
    apply List.all_eq_true.mpr
    intro m hm
    have := h m hm
    simp [this.1, this.2]
  simp only [this, ↓reduceIte]
  rfl

/-- the matches of an event relative to its lines, as the JSON sink records them -/
def jsonSpans (sc : SCfg) (find : Oracle) : Event → List Span
  | .matched buf rs re _ _ => shiftSpans rs (findIterInContext sc find buf rs re)
  | .context _ bytes _ _ => if sc.invert then shiftSpans 0 (findIterInContext sc find bytes 0 bytes.length) else []
  | .contextBreak => []

def eventBytes : Event → Bytes
  | .matched buf rs re _ _ => slice buf rs re
  | .context _ bytes _ _ => bytes
  | .contextBreak => []

/-- the message an event must produce -/
def msgOfEvent (sc : SCfg) (jc : JsonCfg) (find : Oracle) (ev : Event) : Option Msg :=
  match ev with
  | .matched _ _ _ off ln =>
    some (.matched (pathData jc.path) (encodeData (eventBytes ev)) ln off
      ((jsonSpans sc find ev).map (subOf (eventBytes ev))))
  | .context _ _ off ln =>
    some (.context (pathData jc.path) (encodeData (eventBytes ev)) ln off
      ((jsonSpans sc find ev).map (subOf (eventBytes ev))))
  | .contextBreak => none

def Msg.isMid : Msg → Bool
  | .matched .. => true
  | .context .. => true
  | _ => false

theorem msgOfEvent_isMid {sc jc find ev m} (h : msgOfEvent sc jc find ev = some m) : Msg.isMid m = true := by
  cases ev <;> simp [msgOfEvent] at h <;> subst h <;> rfl

/-- One event, no panic: the sink appends the begin message if none was written yet, then the event's message. -/
theorem jsonEvent_msgs (sc : SCfg) (jc : JsonCfg) (find : Oracle) (st : JsonState) (ev : Event)
    (hp : (jsonEvent sc jc find st ev).1.panicked = false) :
    (jsonEvent sc jc find st ev).1.msgs =
      (match msgOfEvent sc jc find ev with
       | some m => (st.writeBegin jc).msgs ++ [m]
       | none => st.msgs) ∧
    InRange (eventBytes ev) (jsonSpans sc find ev) := by
  cases ev with
  | contextBreak => simp [jsonEvent, msgOfEvent, InRange, jsonSpans]
  | matched buf rs re off ln =>
    simp only [jsonEvent, jsonMatched, recordMatchesJson] at hp ⊢
    cases hs : subMatches (slice buf rs re) (shiftSpans rs (findIterInContext sc find buf rs re)) with
    | none => simp [hs] at hp
    | some subs =>
      obtain ⟨hsub, hin⟩ := subMatches_some hs
      simp only [msgOfEvent, eventBytes, jsonSpans]
      exact ⟨by rw [hsub], hin⟩
  | context k bytes off ln =>
    simp only [jsonEvent, jsonContext, recordMatchesJson] at hp ⊢
    cases hinv : sc.invert with
    | false =>
      simp only [hinv, Bool.false_eq_true, ↓reduceIte, msgOfEvent, eventBytes, jsonSpans, List.map_nil]
      exact ⟨trivial, by intro m hm; simp at hm⟩
    | true =>
      simp only [hinv, ↓reduceIte] at hp ⊢
      cases hs : subMatches bytes (shiftSpans 0 (findIterInContext sc find bytes 0 bytes.length)) with
      | none => simp [hs] at hp
      | some subs =>
        obtain ⟨hsub, hin⟩ := subMatches_some hs
        simp only [msgOfEvent, eventBytes, jsonSpans, hinv, ↓reduceIte]
        exact ⟨by rw [hsub], hin⟩

/-! ### sequencing -/

/-- the shape of the message list while a search is running -/
def Running (jc : JsonCfg) (st : JsonState) : Prop :=
  (st.beginPrinted = false ∧ st.msgs = []) ∨
  (st.beginPrinted = true ∧ ∃ mids, st.msgs = .begin (pathData jc.path) :: mids ∧ ∀ m ∈ mids, Msg.isMid m = true)

theorem running_writeBegin {jc : JsonCfg} {st : JsonState} (h : Running jc st) :
    (st.writeBegin jc).beginPrinted = true ∧
    ∃ mids, (st.writeBegin jc).msgs = .begin (pathData jc.path) :: mids ∧ ∀ m ∈ mids, Msg.isMid m = true := by
  unfold JsonState.writeBegin
  rcases h with ⟨hb, hm⟩ | ⟨hb, mids, hm, hall⟩
  · simp only [hb, Bool.false_eq_true, ↓reduceIte, hm, List.nil_append]
    exact ⟨trivial, [], rfl, by simp⟩
  · simp only [hb, ↓reduceIte]
    exact ⟨trivial, mids, hm, hall⟩

theorem jsonEvent_beginPrinted (sc : SCfg) (jc : JsonCfg) (find : Oracle) (st : JsonState) (ev : Event) :
    (jsonEvent sc jc find st ev).1.beginPrinted =
      (match ev with | .contextBreak => st.beginPrinted | _ => (st.writeBegin jc).beginPrinted) := by
  cases ev with
  | contextBreak => rfl
  | matched buf rs re off ln =>
    simp only [jsonEvent, jsonMatched]
    split <;> rfl
  | context k bytes off ln =>
    simp only [jsonEvent, jsonContext]
    split <;> rfl

theorem running_event (sc : SCfg) (jc : JsonCfg) (find : Oracle) (st : JsonState) (ev : Event)
    (h : Running jc st) (hp : (jsonEvent sc jc find st ev).1.panicked = false) :
    Running jc (jsonEvent sc jc find st ev).1 := by
  have hmsgs := (jsonEvent_msgs sc jc find st ev hp).1
  have hbp := jsonEvent_beginPrinted sc jc find st ev
  cases hm : msgOfEvent sc jc find ev with
  | none =>
    have hev : ev = .contextBreak := by cases ev <;> simp [msgOfEvent] at hm <;> rfl
    subst hev
    simpa [jsonEvent] using h
  | some m =>
    rw [hm] at hmsgs
    obtain ⟨hb, mids, hmids, hall⟩ := running_writeBegin (jc := jc) h
    right
    refine ⟨?_, mids ++ [m], ?_, ?_⟩
    · rw [hbp]
      cases ev <;> simp [msgOfEvent] at hm <;> exact hb
    · rw [hmsgs, hmids]; rfl
    · intro x hx
      rcases List.mem_append.mp hx with hx | hx
      · exact hall x hx
      · simp only [List.mem_singleton] at hx
        subst hx
        exact msgOfEvent_isMid hm

theorem jsonEvents_cons (sc : SCfg) (jc : JsonCfg) (find : Oracle) (st : JsonState) (ev : Event) (rest : List Event) :
    jsonEvents sc jc find st (ev :: rest) =
      if (jsonEvent sc jc find st ev).2 then jsonEvents sc jc find (jsonEvent sc jc find st ev).1 rest
      else (jsonEvent sc jc find st ev).1 := by
  rw [jsonEvents]

/-- a panic stops the search: the flag never goes back -/
theorem jsonEvent_panicked_cont (sc : SCfg) (jc : JsonCfg) (find : Oracle) (st : JsonState) (ev : Event)
    (h : (jsonEvent sc jc find st ev).1.panicked = true) (h0 : st.panicked = false) :
    (jsonEvent sc jc find st ev).2 = false := by
  cases ev with
  | contextBreak => simp [jsonEvent, h0] at h
  | matched buf rs re off ln =>
    simp only [jsonEvent, jsonMatched] at h ⊢
    split at h
    · rfl
    · simp [JsonState.writeBegin] at h
      split at h <;> simp [h0] at h
  | context k bytes off ln =>
    simp only [jsonEvent, jsonContext] at h ⊢
    split at h
    · rfl
    · simp [JsonState.writeBegin] at h
      split at h <;> simp [h0] at h

theorem running_events (sc : SCfg) (jc : JsonCfg) (find : Oracle) :
    ∀ (evs : List Event) (st : JsonState), Running jc st → st.panicked = false →
      (jsonEvents sc jc find st evs).panicked = false → Running jc (jsonEvents sc jc find st evs) := by
  intro evs
  induction evs with
  | nil => intro st h _ _; simpa [jsonEvents] using h
  | cons ev rest ih =>
    intro st h h0 hp
    rw [jsonEvents_cons] at hp ⊢
    by_cases hc : (jsonEvent sc jc find st ev).2 = true
    · simp only [hc, ↓reduceIte] at hp ⊢
      have hp1 : (jsonEvent sc jc find st ev).1.panicked = false := by
        cases hpp : (jsonEvent sc jc find st ev).1.panicked with
        | false => rfl
        | true =>
          have := jsonEvent_panicked_cont sc jc find st ev hpp h0
          rw [this] at hc
          exact absurd hc (by simp)
      exact ih _ (running_event sc jc find st ev h hp1) hp1 hp
    · simp only [hc, Bool.false_eq_true, ↓reduceIte] at hp ⊢
      exact running_event sc jc find st ev h hp

/-- **Sequencing**: a search that did not panic prints nothing, or `begin`, then only match/context messages,
then `end`. -/
theorem jsonSearch_shape (sc : SCfg) (jc : JsonCfg) (find : Oracle) (evs : List Event) (bc : Nat)
    (hp : (jsonSearch sc jc find evs bc).panicked = false) :
    (jsonSearch sc jc find evs bc).msgs = [] ∨
    ∃ mids stats, (jsonSearch sc jc find evs bc).msgs =
        .begin (pathData jc.path) :: (mids ++ [.end (pathData jc.path) none stats]) ∧
      ∀ m ∈ mids, Msg.isMid m = true := by
  unfold jsonSearch at hp ⊢
  -- state after `begin`
  have hrun0 : Running jc (jsonBegin jc {}).1 ∧ (jsonBegin jc {}).1.panicked = false := by
    unfold jsonBegin
    by_cases h0 : (jc.maxMatches == some 0) = true
    · simp only [h0, ↓reduceIte]; exact ⟨Or.inl ⟨by trivial, by trivial⟩, by trivial⟩
    · simp only [h0, Bool.false_eq_true, ↓reduceIte]
      by_cases h1 : jc.alwaysBeginEnd = true
      · simp only [h1, Bool.not_true, Bool.false_eq_true, ↓reduceIte]
        refine ⟨Or.inr ⟨by trivial, [], by trivial, by simp⟩, by trivial⟩
      · simp only [h1, Bool.not_false, ↓reduceIte]; exact ⟨Or.inl ⟨by trivial, by trivial⟩, by trivial⟩
  generalize hst1 : jsonBegin jc {} = b at hp hrun0 ⊢
  obtain ⟨st1, go⟩ := b
  simp only at hp hrun0 ⊢
  -- state before `finish`
  have hfin : ∀ st2 : JsonState, Running jc st2 → st2.panicked = false →
      (jsonFinish jc st2 bc).msgs = [] ∨
      ∃ mids stats, (jsonFinish jc st2 bc).msgs =
          .begin (pathData jc.path) :: (mids ++ [.end (pathData jc.path) none stats]) ∧
        ∀ m ∈ mids, Msg.isMid m = true := by
    intro st2 hr hnp
    unfold jsonFinish
    simp only [hnp, Bool.false_eq_true, ↓reduceIte]
    rcases hr with ⟨hb, hm⟩ | ⟨hb, mids, hm, hall⟩
    · simp only [hb, Bool.not_false, ↓reduceIte]; exact Or.inl hm
    · simp only [hb, Bool.not_true, Bool.false_eq_true, ↓reduceIte]
      right
      exact ⟨mids, _, by rw [hm]; rfl, hall⟩
  have hpan : ∀ st2 : JsonState, (jsonFinish jc st2 bc).panicked = st2.panicked := by
    intro st2
    unfold jsonFinish
    split
    · rfl
    · split <;> rfl
  by_cases hgo : go = true
  · simp only [hgo, ↓reduceIte] at hp ⊢
    rw [hpan] at hp
    exact hfin _ (running_events sc jc find evs st1 hrun0.1 hrun0.2 hp) hp
  · simp only [hgo, Bool.false_eq_true, ↓reduceIte] at hp ⊢
    exact hfin _ hrun0.1 hrun0.2

/-! ### losslessness of one message -/

/-- what a consumer reads from a submatch object -/
theorem subOf_decodes (bytes : Bytes) (hb : ∀ x ∈ bytes, x < 256) (m : Span) :
    decodeData (subOf bytes m).m = some (slice bytes (subOf bytes m).s (subOf bytes m).e) := by
  unfold subOf
  simp only
  have hsl : ∀ x ∈ slice bytes m.s m.e, x < 256 := by
    intro x hx
    unfold slice at hx
    exact hb x (List.mem_of_mem_take (List.mem_of_mem_drop hx))
  unfold encodeData
  by_cases hv : validUtf8 (slice bytes m.s m.e) = true
  · simp [hv, decodeData]
  · simp [hv, decodeData, PrinterJson.base64_roundtrip _ hsl]

/-! ### no panic -/

theorem slice_length (b : Bytes) (s e : Nat) (h : e ≤ b.length) : (slice b s e).length = e - s := by
  unfold slice
  simp [List.length_drop, List.length_take, Nat.min_eq_left h]

/-- A sane matcher's matches, shifted to the reported lines, can always be sliced out of them: in line-oriented
mode the haystack is the line's own content, in multi-line mode the printers clamp a match to the end of the range. -/
theorem inRange_all (sc : SCfg) (find : Oracle) (buf : Bytes) (rs re : Nat)
    (hrs : rs ≤ re) (hre : re ≤ buf.length)
    (hs : Sane (find (shownHay sc buf rs re)) (shownHay sc buf rs re).length) :
    InRange (slice buf rs re) (shiftSpans rs (findIterInContext sc find buf rs re)) := by
  intro m hm
  unfold shiftSpans at hm
  obtain ⟨m0, hm0, rfl⟩ := List.mem_map.mp hm
  obtain ⟨h1, h2, h4⟩ := findIterInContext_inside sc find buf rs re hrs hs m0 hm0
  rw [slice_length buf rs re hre]
  simp only
  omega

/-- well-formed event whose haystack the matcher answers sanely -/
def EventOk (sc : SCfg) (find : Oracle) : Event → Prop
  | .matched buf rs re _ _ =>
    rs ≤ re ∧ re ≤ buf.length ∧ Sane (find (shownHay sc buf rs re)) (shownHay sc buf rs re).length
  | .context _ bytes _ _ =>
    Sane (find (shownHay sc bytes 0 bytes.length)) (shownHay sc bytes 0 bytes.length).length
  | .contextBreak => True

theorem writeBegin_panicked (jc : JsonCfg) (st : JsonState) : (st.writeBegin jc).panicked = st.panicked := by
  unfold JsonState.writeBegin
  split <;> rfl

theorem jsonEvent_no_panic (sc : SCfg) (jc : JsonCfg) (find : Oracle)
    (st : JsonState) (ev : Event) (h0 : st.panicked = false) (hok : EventOk sc find ev) :
    (jsonEvent sc jc find st ev).1.panicked = false := by
  cases ev with
  | contextBreak => simpa [jsonEvent] using h0
  | matched buf rs re off ln =>
    obtain ⟨hrs, hre, hs⟩ := hok
    simp only [jsonEvent, jsonMatched, recordMatchesJson]
    rw [subMatches_of_inRange (inRange_all sc find buf rs re hrs hre hs)]
    simp [writeBegin_panicked, h0]
  | context k bytes off ln =>
    simp only [jsonEvent, jsonContext, recordMatchesJson]
    cases hinv : sc.invert with
    | false => simp [writeBegin_panicked, h0]
    | true =>
      simp only [↓reduceIte]
      have hin := inRange_all sc find bytes 0 bytes.length (Nat.zero_le _) (Nat.le_refl _) hok
      have hsl : slice bytes 0 bytes.length = bytes := by simp [slice]
      rw [hsl] at hin
      rw [subMatches_of_inRange hin]
      simp [writeBegin_panicked, h0]

theorem jsonEvents_no_panic (sc : SCfg) (jc : JsonCfg) (find : Oracle) :
    ∀ (evs : List Event) (st : JsonState), st.panicked = false → (∀ ev ∈ evs, EventOk sc find ev) →
      (jsonEvents sc jc find st evs).panicked = false := by
  intro evs
  induction evs with
  | nil => intro st h0 _; simpa [jsonEvents] using h0
  | cons ev rest ih =>
    intro st h0 hall
    rw [jsonEvents_cons]
    have h1 := jsonEvent_no_panic sc jc find st ev h0 (hall ev (by simp))
    by_cases hc : (jsonEvent sc jc find st ev).2 = true
    · simp only [hc, ↓reduceIte]
      exact ih _ h1 (fun e he => hall e (List.mem_cons_of_mem _ he))
    · simp only [hc, Bool.false_eq_true, ↓reduceIte]
      exact h1

theorem jsonFinish_panicked (jc : JsonCfg) (st : JsonState) (bc : Nat) :
    (jsonFinish jc st bc).panicked = st.panicked := by
  unfold jsonFinish
  split
  · rfl
  · split <;> rfl

theorem jsonBegin_panicked (jc : JsonCfg) : (jsonBegin jc {}).1.panicked = false := by
  unfold jsonBegin
  split
  · rfl
  · split
    · rfl
    · simp [writeBegin_panicked]

/-- **No panic**: for well-formed events and a sane matcher, `SubMatches::new` never slices out of range. -/
theorem jsonSearch_no_panic (sc : SCfg) (jc : JsonCfg) (find : Oracle)
    (evs : List Event) (bc : Nat) (hall : ∀ ev ∈ evs, EventOk sc find ev) :
    (jsonSearch sc jc find evs bc).panicked = false := by
  unfold jsonSearch
  have h0 := jsonBegin_panicked jc
  generalize jsonBegin jc {} = b at h0 ⊢
  obtain ⟨st1, go⟩ := b
  simp only at h0 ⊢
  rw [jsonFinish_panicked]
  by_cases hgo : go = true
  · simp only [hgo, ↓reduceIte]
    exact jsonEvents_no_panic sc jc find evs st1 h0 hall
  · simp only [hgo, Bool.false_eq_true, ↓reduceIte]
    exact h0

end RgVerif.Lemmas.PrinterJsonRun
