import RgVerif.Model.WalkFs
/-
C06: concrete inputs used by `f25_witness_repaired` (former finding F25) and by the non-vacuity example.
-/
namespace RgVerif.Walk

def f25Forest : List Node :=
  [.dir 1 1 1 [] [.dir 2 2 2 [] [], .file 3 0]]

def f25Cfg : Cfg :=
  { maxDepth := none, maxFilesize := none, followLinks := false, sameFs := true,
    ignored := fun _ _ _ => false,
    filter := some fun p _ => p.getLast? != some 2 }

def demoForest : List Node :=
  [.dir 1 1 1 [7] [.file 2 9, .dir 3 2 2 [] [.file 4 0], .link 5 3 (.dir 1), .file 6 1, .file 7 0,
                   .dir 8 3 1 [] [.file 9 1, .link 10 4 .missing]]]

def demoCfg : Cfg :=
  { maxDepth := some 5, maxFilesize := some 5, followLinks := true, sameFs := true,
    ignored := fun igns n _ => igns.any (·.contains n),
    filter := some fun p _ => p.getLast? != some 6 }

end RgVerif.Walk
