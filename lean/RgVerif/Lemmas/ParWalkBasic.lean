import RgVerif.Model.ParWalk
/-
C07 helper lemmas: worker-indexed sums under function update, entry counting, initial state.
-/
namespace RgVerif.ParWalk

/-! ### `upd` and `sumTo` -/

@[simp] theorem upd_same {α : Type} (f : Nat → α) (i : Nat) (v : α) : upd f i v i = v := by
  simp [upd]

theorem upd_other {α : Type} (f : Nat → α) {i j : Nat} (v : α) (h : j ≠ i) : upd f i v j = f j := by
  simp [upd, h]

theorem comp_upd {α β : Type} (g : α → β) (f : Nat → α) (i : Nat) (v : α) :
    g ∘ upd f i v = upd (g ∘ f) i (g v) := by
  funext j
  simp only [Function.comp, upd]
  split <;> rfl

theorem sumTo_congr {n : Nat} {f g : Nat → Nat} (h : ∀ i, i < n → f i = g i) :
    sumTo n f = sumTo n g := by
  induction n with
  | zero => rfl
  | succ k ih =>
    simp only [sumTo]
    rw [ih (fun i hi => h i (by omega)), h k (by omega)]

theorem sumTo_upd_ge {n i : Nat} (f : Nat → Nat) (v : Nat) (h : n ≤ i) :
    sumTo n (upd f i v) = sumTo n f := by
  apply sumTo_congr
  intro j hj
  exact upd_other f v (by omega)

/-- Splitting a worker-indexed sum at one index. -/
theorem sumTo_split {n i : Nat} (f : Nat → Nat) (h : i < n) :
    ∃ r, sumTo n f = f i + r ∧ ∀ v, sumTo n (upd f i v) = v + r := by
  induction n with
  | zero => omega
  | succ k ih =>
    by_cases hik : i = k
    · subst hik
      refine ⟨sumTo i f, ?_, ?_⟩
      · simp only [sumTo]; omega
      · intro v
        simp only [sumTo, upd_same]
        rw [sumTo_upd_ge f v (Nat.le_refl i)]; omega
    · obtain ⟨r, h1, h2⟩ := ih (by omega)
      refine ⟨r + f k, ?_, ?_⟩
      · simp only [sumTo]; omega
      · intro v
        simp only [sumTo]
        rw [h2 v, upd_other f v (Ne.symm hik)]; omega

/-- Splitting a worker-indexed sum at two distinct indices. -/
theorem sumTo_split2 {n i j : Nat} (f : Nat → Nat) (hi : i < n) (hj : j < n) (hne : i ≠ j) :
    ∃ r, sumTo n f = f i + f j + r ∧ ∀ a b, sumTo n (upd (upd f i a) j b) = a + b + r := by
  obtain ⟨r1, h1, h1'⟩ := sumTo_split f hi
  obtain ⟨r2, h2, h2'⟩ := sumTo_split (upd f i 0) hj
  have e : upd f i 0 j = f j := upd_other f 0 (Ne.symm hne)
  refine ⟨r2, ?_, ?_⟩
  · have := h1' 0; omega
  · intro a b
    obtain ⟨r3, h3, h3'⟩ := sumTo_split (upd f i a) hj
    have e3 : upd f i a j = f j := upd_other f a (Ne.symm hne)
    have := h1' a; have := h1' 0; have := h3' b
    omega

theorem sumTo_zero {n : Nat} {f : Nat → Nat} (h : ∀ i, i < n → f i = 0) : sumTo n f = 0 := by
  induction n with
  | zero => rfl
  | succ k ih => simp only [sumTo]; rw [ih (fun i hi => h i (by omega)), h k (by omega)]

theorem sumTo_eq_zero {n : Nat} {f : Nat → Nat} (h : sumTo n f = 0) : ∀ i, i < n → f i = 0 := by
  induction n with
  | zero => intro i hi; omega
  | succ k ih =>
    simp only [sumTo] at h
    intro i hi
    by_cases hik : i = k
    · subst hik; omega
    · exact ih (by omega) i (by omega)

theorem le_sumTo {n i : Nat} (f : Nat → Nat) (h : i < n) : f i ≤ sumTo n f := by
  obtain ⟨r, h1, _⟩ := sumTo_split f h
  omega

theorem sumTo_pos {n : Nat} {f : Nat → Nat} (h : 0 < sumTo n f) : ∃ i, i < n ∧ 0 < f i := by
  induction n with
  | zero => simp [sumTo] at h
  | succ k ih =>
    simp only [sumTo] at h
    by_cases hk : 0 < f k
    · exact ⟨k, by omega, hk⟩
    · obtain ⟨i, hi, hp⟩ := ih (by omega)
      exact ⟨i, by omega, hp⟩

theorem sumTo_const_one (n : Nat) : sumTo n (fun _ => 1) = n := by
  induction n with
  | zero => rfl
  | succ k ih => simp only [sumTo]; omega

/-! ### Counting entries -/

def cntT (x : Label) (t : Tree) : Nat := t.entries.count x
def cntL (x : Label) (ts : List Tree) : Nat := (entriesL ts).count x

def Msg.cnt (x : Label) : Msg → Nat
  | .work t => cntT x t
  | .quit => 0

def dqCnt (x : Label) (d : List Msg) : Nat := (d.map (Msg.cnt x)).sum

/-- Entries a worker holds *in hand* (outside every deque) at a program point. -/
def Pc.cnt (x : Label) : Pc → Nat
  | .activate m => m.cnt x
  | .check (some m) => m.cnt x
  | .hold t => cntT x t
  | .running ks => cntL x ks
  | _ => 0

/-- Occurrences of label `x` among the entries that are queued or in hand. -/
def held (n : Nat) (x : Label) (s : State) : Nat :=
  sumTo n (Pc.cnt x ∘ s.pc) + sumTo n (dqCnt x ∘ s.dq)

theorem cntL_cons (x : Label) (t : Tree) (ts : List Tree) : cntL x (t :: ts) = cntT x t + cntL x ts := by
  simp [cntL, cntT, entriesL, List.count_append]

@[simp] theorem cntL_nil (x : Label) : cntL x [] = 0 := by simp [cntL, entriesL]

theorem cntT_eq (x : Label) (t : Tree) :
    cntT x t = (if t.label = x then 1 else 0) + cntL x t.kids := by
  cases t with
  | node l ks =>
    simp only [cntT, cntL, Tree.entries, Tree.label, Tree.kids, List.count_cons, beq_iff_eq]
    by_cases h : l = x <;> simp [h] <;> omega

@[simp] theorem dqCnt_nil (x : Label) : dqCnt x [] = 0 := by simp [dqCnt]
@[simp] theorem dqCnt_cons (x : Label) (m : Msg) (d : List Msg) :
    dqCnt x (m :: d) = m.cnt x + dqCnt x d := by simp [dqCnt]
@[simp] theorem dqCnt_append (x : Label) (d e : List Msg) :
    dqCnt x (d ++ e) = dqCnt x d + dqCnt x e := by simp [dqCnt, List.sum_append]

@[simp] theorem dqCost_nil (n : Nat) : dqCost n [] = 0 := by simp [dqCost]
@[simp] theorem dqCost_cons (n : Nat) (m : Msg) (d : List Msg) :
    dqCost n (m :: d) = m.cost n + dqCost n d := by simp [dqCost]
@[simp] theorem dqCost_append (n : Nat) (d e : List Msg) :
    dqCost n (d ++ e) = dqCost n d + dqCost n e := by simp [dqCost, List.sum_append]

/-! ### Initial state -/

theorem distribute_cnt (n : Nat) (x : Label) (hn : 0 < n) (rs : List Tree) (i : Nat) (acc : Nat → List Msg) :
    sumTo n (dqCnt x ∘ distribute n rs i acc) = sumTo n (dqCnt x ∘ acc) + cntL x rs := by
  induction rs generalizing i acc with
  | nil => simp [distribute]
  | cons r rs ih =>
    simp only [distribute]
    rw [ih, comp_upd, cntL_cons]
    obtain ⟨q, h1, h2⟩ := sumTo_split (dqCnt x ∘ acc) (Nat.mod_lt i hn)
    rw [h2, h1]
    simp only [Function.comp, dqCnt_cons, Msg.cnt]
    omega

theorem init_held (n : Nat) (x : Label) (hn : 0 < n) (roots : List Tree) :
    held n x (init n roots) = cntL x roots := by
  simp only [held, init]
  rw [distribute_cnt n x hn]
  rw [sumTo_zero (f := Pc.cnt x ∘ fun _ => Pc.recv false) (by intro i _; rfl)]
  rw [sumTo_zero (f := dqCnt x ∘ fun _ => []) (by intro i _; simp [Function.comp])]
  omega

end RgVerif.ParWalk
