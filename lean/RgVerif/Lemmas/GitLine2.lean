import RgVerif.Lemmas.GitLine
import RgVerif.Lemmas.GitPrefix
/-
`add_line` and git's `parse_path_pattern` on the literal sub-grammar, stage by stage; then `LineAgree`.
-/
namespace RgVerif.Gitignore
open RgVerif RgVerif.Glob

section stages
variable {core : List Nat} {c0 cl : Nat} {tl : List Nat}

/-- the line built around a core -/
def lineOf (neg abs dir : Bool) (core : List Nat) : List Nat :=
  (if neg then [33] else []) ++ (if abs then [47] else []) ++ core ++ (if dir then [47] else [])

theorem mkLine_eq (neg abs dir : Bool) (comps : List (List Nat)) :
    mkLine neg abs dir comps = lineOf neg abs dir (joinPath comps) := rfl

theorem lineOf_getLast (neg abs dir : Bool) (hlast : core.getLast? = some cl) :
    (lineOf neg abs dir core).getLast? = some (if dir then 47 else cl) := by
  have hne : core ≠ [] := by intro h; simp [h] at hlast
  cases dir
  · simp only [lineOf, List.append_nil, Bool.false_eq_true, ↓reduceIte]
    rw [List.getLast?_append, hlast]; rfl
  · simp [lineOf]

theorem lineOf_startsWith35 (neg abs dir : Bool) (hcore : core = c0 :: tl) (h0 : c0 ≠ 35) :
    startsWith (lineOf neg abs dir core) [35] = false := by
  subst hcore
  cases neg <;> cases abs <;> simp [lineOf, startsWith, List.isPrefixOf, Ne.symm h0]

theorem lineOf_trim (neg abs dir : Bool) (hlast : core.getLast? = some cl)
    (hws : isWs cl = false) (h32 : cl ≠ 32) : trimLine (lineOf neg abs dir core) = lineOf neg abs dir core := by
  have hl := lineOf_getLast neg abs dir hlast
  unfold trimLine
  have hx : (if dir then 47 else cl) ≠ 32 := by cases dir <;> simp [h32]
  have hw : isWs (if dir then 47 else cl) = false := by
    cases dir
    · simpa using hws
    · simp [isWs]
  rw [endsWith_bs_sp_false hl hx]
  simp [trimRight_of_last hl hw]

theorem lineOf_ne_nil (neg abs dir : Bool) (hcore : core = c0 :: tl) :
    (lineOf neg abs dir core).isEmpty = false := by
  subst hcore
  cases neg <;> cases abs <;> simp [lineOf]

theorem lineOf_splitPrefix (neg abs dir : Bool) (hcore : core = c0 :: tl)
    (h0 : c0 ≠ 92 ∧ c0 ≠ 33 ∧ c0 ≠ 47) :
    splitPrefix (lineOf neg abs dir core) = (neg, abs, core ++ (if dir then [47] else [])) := by
  subst hcore
  obtain ⟨h92, h33, h47⟩ := h0
  cases neg <;> cases abs <;>
    simp [lineOf, splitPrefix, startsWith, List.isPrefixOf, Ne.symm h92, Ne.symm h33, Ne.symm h47]

theorem splitDirSlash_core (dir : Bool) (hlast : core.getLast? = some cl) (h : cl ≠ 47 ∧ cl ≠ 92) :
    splitDirSlash (core ++ (if dir then [47] else [])) = (dir, core) := by
  cases dir
  · simp only [Bool.false_eq_true, ↓reduceIte, List.append_nil, splitDirSlash, hlast]
    simp [h.1]
  · simp only [↓reduceIte, splitDirSlash, List.getLast?_append, List.getLast?_singleton,
      Option.some_or, BEq.rfl, List.dropLast_concat, hlast]
    simp [h.2]

theorem actualOf_core (abs multi : Bool) (hcore : core = c0 :: tl) (h0 : c0 ≠ 42)
    (hlast : core.getLast? = some cl) (hl : cl ≠ 42) (hslash : core.contains 47 = multi) :
    actualOf abs core = if !abs && !multi then [42, 42, 47] ++ core else core := by
  have hend : ∀ pre : List Nat, endsWith (pre ++ core) [47, 42, 42] = false := by
    intro pre
    apply Bool.eq_false_iff.mpr
    intro hs
    unfold endsWith at hs
    rw [List.isSuffixOf_iff_suffix] at hs
    obtain ⟨t, ht⟩ := hs
    have := congrArg List.getLast? ht
    rw [List.getLast?_append, List.getLast?_append, hlast] at this
    simp at this
    exact hl this.symm
  unfold actualOf
  rw [hslash]
  cases abs <;> cases multi
  · have hs : startsWith core [42, 42, 47] = false := by
      subst hcore; simp [startsWith, List.isPrefixOf, Ne.symm h0]
    have he : (core == [42, 42]) = false := by
      subst hcore; simp [h0]
    simp only [Bool.not_false, Bool.and_self, ↓reduceIte, hs, he, Bool.or_self, Bool.false_eq_true]
    rw [hend [42, 42, 47]]; simp
  all_goals
    simp only [Bool.not_false, Bool.not_true, Bool.and_false, Bool.false_and, Bool.false_eq_true,
      ↓reduceIte]
    have := hend []
    simp only [List.nil_append] at this
    rw [this]; simp

end stages

/-- ripgrep's glob for a literal line -/
def rgGlobOf (neg abs dir : Bool) (comps : List (List Nat)) : GiGlob :=
  let core := joinPath comps
  let single := !abs && !(decide (2 ≤ comps.length))
  { original := mkLine neg abs dir comps,
    actual := if single then [42, 42, 47] ++ core else core,
    isWhitelist := neg, isOnlyDir := dir,
    glob := { opts := giOpts false,
              tokens := if single then .s .recPrefix :: lits core else lits core } }

theorem addLine_mkLine (neg abs dir : Bool) (comps : List (List Nat)) (h : okComps comps = true) :
    addLine false (mkLine neg abs dir comps) = .glob (rgGlobOf neg abs dir comps) := by
  have hf := core_facts h
  obtain ⟨c0, tl, hcore, hp0⟩ := hf.head
  obtain ⟨cl, hlast, hpl⟩ := hf.last
  have hn0 := plain_ne hp0
  have hnl := plain_ne hpl
  have hwsl := plain_not_ws hpl
  rw [mkLine_eq]
  unfold addLine
  rw [lineOf_startsWith35 neg abs dir hcore hn0.2.2.2.2.2.2.2.2.2.1]
  simp only [Bool.false_eq_true, ↓reduceIte]
  rw [lineOf_trim neg abs dir hlast hwsl hnl.2.2.2.2.2.2.2.2.2.2, lineOf_ne_nil neg abs dir hcore]
  simp only [Bool.false_eq_true, ↓reduceIte]
  rw [lineOf_splitPrefix neg abs dir hcore ⟨hn0.1, hn0.2.2.2.2.2.2.2.2.1, hn0.2.2.2.2.2.2.2.1⟩]
  have hne2 : (joinPath comps ++ (if dir then [47] else [])).isEmpty = false := by
    rw [hcore]; simp
  simp only [hne2, Bool.false_eq_true, ↓reduceIte]
  rw [splitDirSlash_core dir hlast ⟨hnl.2.2.2.2.2.2.2.1, hnl.1⟩]
  simp only
  have hne3 : (joinPath comps).isEmpty = false := by rw [hcore]; simp
  simp only [hne3, Bool.and_false, Bool.false_eq_true, ↓reduceIte]
  rw [actualOf_core abs _ hcore hn0.2.1 hlast hnl.2.1 hf.slash]
  unfold rgGlobOf
  cases hs : (!abs && !(decide (2 ≤ comps.length)))
  · simp only [Bool.false_eq_true, ↓reduceIte]
    rw [parse_core _ _ hf.all]
    rfl
  · simp only [↓reduceIte]
    rw [parse_dstar_core _ _ hf.all]
    rfl

theorem trimSpaces_go_id (l kept : List Nat) (h : ∀ c ∈ l, c ≠ 32 ∧ c ≠ 92) :
    GitSpec.trimSpaces.go l kept [] = kept ++ l := by
  induction l generalizing kept with
  | nil => simp [GitSpec.trimSpaces.go]
  | cons c rest ih =>
    have hc := h c (by simp)
    have ih' := fun kept => ih kept (fun x hx => h x (by simp [hx]))
    unfold GitSpec.trimSpaces.go
    split
    · simp_all
    · simp_all
    · simp_all
    · rename_i heq
      simp only [List.cons.injEq] at heq
      obtain ⟨rfl, rfl⟩ := heq
      rw [ih']
      simp

theorem coreChar_ne {c : Nat} (h : coreChar c = true) : c ≠ 32 ∧ c ≠ 92 := by
  simp only [coreChar, Bool.or_eq_true, beq_iff_eq] at h
  rcases h with h | h
  · have := plain_ne h; exact ⟨this.2.2.2.2.2.2.2.2.2.2, this.1⟩
  · subst h; decide

section gitstages
variable {core : List Nat} {c0 cl : Nat} {tl : List Nat}

theorem stripNeg_lineOf (neg abs dir : Bool) (hcore : core = c0 :: tl) (h33 : c0 ≠ 33) :
    GitSpec.stripNeg (lineOf neg abs dir core) = (neg, lineOf false abs dir core) := by
  subst hcore
  cases neg <;> cases abs <;> simp [GitSpec.stripNeg, lineOf, h33]

theorem stripDir_lineOf (abs dir : Bool) (hlast : core.getLast? = some cl) (h47 : cl ≠ 47) :
    GitSpec.stripDir (lineOf false abs dir core) = (dir, lineOf false abs false core) := by
  have hl := lineOf_getLast (core := core) false abs dir hlast
  unfold GitSpec.stripDir
  rw [hl]
  cases dir
  · simp [h47]
  · simp only [↓reduceIte, BEq.rfl]
    simp [lineOf]

theorem contains_lineOf (abs multi : Bool) (hslash : core.contains 47 = multi) :
    (lineOf false abs false core).contains 47 = (abs || multi) := by
  cases abs <;> simp [lineOf, ← hslash]

theorem stripLead_lineOf (abs : Bool) (hcore : core = c0 :: tl) (h47 : c0 ≠ 47) :
    GitSpec.stripLead (lineOf false abs false core) = core := by
  subst hcore
  cases abs <;> simp [GitSpec.stripLead, lineOf, h47]

end gitstages

/-- git's reading of a literal line -/
theorem parsePat_mkLine (neg abs dir : Bool) (comps : List (List Nat)) (h : okComps comps = true) :
    GitSpec.parsePat (mkLine neg abs dir comps) =
      some { negative := neg, mustBeDir := dir,
             noDir := !abs && !(decide (2 ≤ comps.length)), text := joinPath comps } := by
  have hf := core_facts h
  obtain ⟨c0, tl, hcore, hp0⟩ := hf.head
  obtain ⟨cl, hlast, hpl⟩ := hf.last
  have hn0 := plain_ne hp0
  have hnl := plain_ne hpl
  have hchars : ∀ c ∈ mkLine neg abs dir comps, c ≠ 32 ∧ c ≠ 92 := by
    intro c hc
    simp only [mkLine, List.mem_append] at hc
    rcases hc with ((hc | hc) | hc) | hc
    · cases neg <;> simp at hc; subst hc; decide
    · cases abs <;> simp at hc; subst hc; decide
    · exact coreChar_ne (hf.all c hc)
    · cases dir <;> simp at hc; subst hc; decide
  have htrim : GitSpec.trimSpaces (mkLine neg abs dir comps) = mkLine neg abs dir comps := by
    unfold GitSpec.trimSpaces
    rw [trimSpaces_go_id _ _ hchars]; rfl
  have hhead : (mkLine neg abs dir comps).head? ≠ some 35 ∧ (mkLine neg abs dir comps).isEmpty = false := by
    rw [mkLine_eq, hcore]
    cases neg <;> cases abs <;> simp [lineOf, hn0.2.2.2.2.2.2.2.2.2.1]
  unfold GitSpec.parsePat
  have hb : ((mkLine neg abs dir comps).isEmpty || (mkLine neg abs dir comps).head? == some 35) = false := by
    simp [hhead.1, hhead.2]
  rw [hb, htrim, mkLine_eq]
  simp only [Bool.false_eq_true, ↓reduceIte]
  rw [stripNeg_lineOf neg abs dir hcore hn0.2.2.2.2.2.2.2.2.1]
  simp only
  rw [stripDir_lineOf abs dir hlast hnl.2.2.2.2.2.2.2.1]
  simp only
  rw [contains_lineOf abs _ hf.slash, stripLead_lineOf abs hcore hn0.2.2.2.2.2.2.2.1]
  simp

theorem joinComps_eq (rel : List Bytes) : GitSpec.joinComps rel = joinPath rel := by
  induction rel with
  | nil => rfl
  | cons c cs ih =>
    cases cs with
    | nil => rfl
    | cons c2 cs2 => simp only [GitSpec.joinComps, joinPath, ih]

/-- ripgrep's glob for a literal line matches exactly the entries git's pattern matches -/
theorem rgGlob_matches (neg abs dir : Bool) (comps : List (List Nat)) (h : okComps comps = true)
    (rel : List Bytes) (hwf : wfRel rel = true) :
    (rgGlobOf neg abs dir comps).glob.isMatch (joinPath rel) =
      (if !abs && !(decide (2 ≤ comps.length)) then rel.getLast?.getD [] == joinPath comps
       else joinPath rel == joinPath comps) := by
  have hf := core_facts h
  have hascii : utf8Str (joinPath comps) = joinPath comps :=
    utf8Str_ascii (fun c hc => coreChar_lt (hf.all c hc))
  obtain ⟨c0, tl, hcore, _⟩ := hf.head
  have hne : joinPath comps ≠ [] := by rw [hcore]; simp
  unfold wfRel at hwf
  simp only [Bool.and_eq_true, Bool.not_eq_eq_eq_not, Bool.not_true, List.isEmpty_eq_false_iff,
    ne_eq, List.all_eq_true] at hwf
  apply bool_eq_of_iff
  unfold rgGlobOf Glob.isMatch
  cases hs : (!abs && !(decide (2 ≤ comps.length)))
  · simp only [Bool.false_eq_true, ↓reduceIte]
    rw [tokMatch_eq _ _ _ (by simpa using lits_ne_single_recPrefix [] _ hne),
      tokensK_lits_end _ rfl, hascii]
    simp
  · simp only [↓reduceIte]
    have hmulti : (joinPath comps).contains 47 = false := by
      have := hf.slash
      simp only [Bool.and_eq_true, Bool.not_eq_eq_eq_not, Bool.not_true] at hs
      rw [hs.2] at this; exact this
    have h47 : 47 ∉ joinPath comps := by simpa using hmulti
    rw [tokMatch_eq _ _ _ (by
      have := lits_ne_single_recPrefix [.s .recPrefix] _ hne
      simpa using this), recPrefix_lits_match _ rfl, hascii,
      ← lastComp_joinPath_eq rel hwf.1 hwf.2, lastComp_eq]
    simp only [beq_iff_eq]
    constructor
    · rintro (hp | ⟨x, hx⟩)
      · rw [hp, afterLast_of_not_mem h47]
      · rw [hx, afterLast_append_cons _ h47]
    · intro hl
      rcases afterLast_cases 47 (joinPath rel) with ⟨_, hp⟩ | ⟨x, hx⟩
      · left; rw [← hp, hl]
      · right; exact ⟨x, by rw [← hl]; exact hx⟩

/-- **`addline_wildmatch`** on the literal sub-grammar: ripgrep's rewrite of the line and git's reading of it
select the same entries with the same polarity -/
theorem lineAgree_mkLine (neg abs dir : Bool) (comps : List (List Nat)) (h : okComps comps = true) :
    LineAgree false (mkLine neg abs dir comps) := by
  intro rel isDir hwf
  have hf := core_facts h
  unfold mHit sHit
  rw [addLine_mkLine neg abs dir comps h, parsePat_mkLine neg abs dir comps h]
  have hm := rgGlob_matches neg abs dir comps h rel hwf
  have hw1 := wm_core false true (joinPath comps) hf.all (rel.getLast?.getD [])
  have hw2 := wm_core true true (joinPath comps) hf.all (joinPath rel)
  have hd : GitSpec.okDstarPos (joinPath comps) = true := by
    apply GitSpec.okDstarPos_of_literal
    intro c hc
    have := hf.all c hc
    simp only [coreChar, plain, Bool.or_eq_true, Bool.and_eq_true, beq_iff_eq] at this
    rcases this with h1 | h1
    · have h2 := h1.2
      simp only [Bool.not_eq_eq_eq_not, Bool.not_true, List.contains_eq_mem, List.mem_cons,
        List.not_mem_nil, or_false, decide_eq_false_iff_not, not_or] at h2
      simp [GitSpec.isGlobSpecial, h2.1, h2.2.1, h2.2.2.1, h2.2.2.2.1]
    · subst h1; decide
  simp only [GiGlob.hits, GitSpec.patMatches, GitSpec.matchPathname_eq_wm _ _ _ hd, hm, hw1, hw2, joinComps_eq]
  simp only [rgGlobOf]
  cases (!abs && !(decide (2 ≤ comps.length))) <;> simp [Bool.and_comm]

theorem lineAgree_of_okLine (l : List Nat) (h : okLine l = true) : LineAgree false l := by
  unfold okLine at h
  simp only [Bool.and_eq_true, beq_iff_eq] at h
  rw [← h.1]
  exact lineAgree_mkLine _ _ _ _ h.2

end RgVerif.Gitignore
