import RgVerif.Spec.MaxCount
/-
The printers' match limit: where the sink first refuses (`firstFalse (answers …)`) is where the
counting spec says (`quitIndex`), for every stream of callbacks.
-/
namespace RgVerif.MaxCount
open RgVerif RgVerif.Searcher

def NoBegin (E : List Event) : Prop := ∀ ev ∈ E, ev ≠ Event.begin

theorem nthIndex_ge (p : Event → Bool) : ∀ (E : List Event) (i c k : Nat), nthIndex p i c E = some k → i ≤ k := by
  intro E
  induction E with
  | nil => intro i c k h; simp [nthIndex] at h
  | cons ev rest ih =>
    intro i c k h
    unfold nthIndex at h
    split at h
    · split at h
      · simp at h; omega
      · have := ih _ _ _ h; omega
    · have := ih _ _ _ h; omega

/-- phase 2: the limit is reached, `r ≥ 1` trailing lines are still let through -/
theorem answers_phase2 (N A : Nat) : ∀ (E : List Event) (i mc r : Nat), N ≤ mc → 1 ≤ r → NoBegin E →
    firstFalse i (answers (some N) A ⟨mc, r⟩ E) = nthIndex trailing i r E := by
  intro E
  induction E with
  | nil => intro i mc r _ _ _; rfl
  | cons ev rest ih =>
    intro i mc r hmc hr hnb
    have hnb' : NoBegin rest := fun e he => hnb e (by simp [he])
    have hev : ev ≠ Event.begin := hnb ev (by simp)
    cases ev with
    | begin => exact absurd rfl hev
    | matched ln off bs =>
      have hmore : moreThanLimit (some N) ⟨mc + 1, r⟩ = true := by simp [moreThanLimit]; omega
      simp only [answers, pcStep, hmore, if_true, firstFalse, nthIndex, trailing]
      by_cases h1 : r ≤ 1
      · have hr1 : r = 1 := by omega
        subst hr1
        have hq : shouldQuit (some N) ⟨mc + 1, 0⟩ = true := by simp [shouldQuit]; omega
        simp [hq]
      · have hq : shouldQuit (some N) ⟨mc + 1, r - 1⟩ = false := by
          have : ¬ (mc + 1 < N) := by omega
          simp [shouldQuit, this]; omega
        simp only [hq, Bool.not_false, if_true, h1, if_false]
        exact ih (i + 1) (mc + 1) (r - 1) (by omega) (by omega) hnb'
    | context kind ln off bs =>
      cases kind with
      | after =>
        simp only [answers, pcStep, beq_self_eq_true, if_true, firstFalse, nthIndex, trailing]
        by_cases h1 : r ≤ 1
        · have hr1 : r = 1 := by omega
          subst hr1
          have hq : shouldQuit (some N) ⟨mc, 0⟩ = true := by simp [shouldQuit]; omega
          simp [hq]
        · have hq : shouldQuit (some N) ⟨mc, r - 1⟩ = false := by
            have : ¬ (mc < N) := by omega
            simp [shouldQuit, this]; omega
          simp only [hq, Bool.not_false, if_true, h1, if_false]
          exact ih (i + 1) mc (r - 1) hmc (by omega) hnb'
      | before =>
        have hq : shouldQuit (some N) ⟨mc, r⟩ = false := by
          have : ¬ (mc < N) := by omega
          simp [shouldQuit, this]; omega
        have hk : (CtxKind.before == CtxKind.after) = false := by decide
        simp only [answers, pcStep, hk, Bool.false_eq_true, if_false, hq, Bool.not_false, firstFalse, if_true,
          nthIndex, trailing]
        exact ih (i + 1) mc r hmc hr hnb'
      | other =>
        have hq : shouldQuit (some N) ⟨mc, r⟩ = false := by
          have : ¬ (mc < N) := by omega
          simp [shouldQuit, this]; omega
        have hk : (CtxKind.other == CtxKind.after) = false := by decide
        simp only [answers, pcStep, hk, Bool.false_eq_true, if_false, hq, Bool.not_false, firstFalse, if_true,
          nthIndex, trailing]
        exact ih (i + 1) mc r hmc hr hnb'
    | contextBreak =>
      simp only [answers, pcStep, firstFalse, if_true, nthIndex, trailing, Bool.false_eq_true, if_false]
      exact ih (i + 1) mc r hmc hr hnb'
    | binaryData o =>
      simp only [answers, pcStep, firstFalse, if_true, nthIndex, trailing, Bool.false_eq_true, if_false]
      exact ih (i + 1) mc r hmc hr hnb'
    | finish a b =>
      simp only [answers, pcStep, firstFalse, if_true, nthIndex, trailing, Bool.false_eq_true, if_false]
      exact ih (i + 1) mc r hmc hr hnb'

theorem quitFrom_skip (N A i : Nat) (ev : Event) (rest : List Event) (h : isMatched ev = false) :
    quitFrom N A i (ev :: rest) = quitFrom N A (i + 1) rest := by
  unfold quitFrom
  simp only [nthIndex, h, Bool.false_eq_true, if_false]
  cases hk : nthIndex isMatched (i + 1) N rest with
  | none => rfl
  | some k =>
    have := nthIndex_ge _ _ _ _ _ hk
    simp only
    have e : k + 1 - i = (k + 1 - (i + 1)) + 1 := by omega
    rw [e, List.drop_succ_cons]

/-- phase 1: fewer than `N` matches so far -/
theorem answers_phase1 (N A : Nat) : ∀ (E : List Event) (i c r : Nat), c < N → NoBegin E →
    firstFalse i (answers (some N) A ⟨c, r⟩ E) = quitFrom (N - c) A i E := by
  intro E
  induction E with
  | nil => intro i c r _ _; simp [answers, firstFalse, quitFrom, nthIndex]
  | cons ev rest ih =>
    intro i c r hc hnb
    have hnb' : NoBegin rest := fun e he => hnb e (by simp [he])
    have hev : ev ≠ Event.begin := hnb ev (by simp)
    have hq : ∀ r', shouldQuit (some N) ⟨c, r'⟩ = false := by intro r'; simp [shouldQuit, hc]
    cases ev with
    | begin => exact absurd rfl hev
    | matched ln off bs =>
      have hmore : moreThanLimit (some N) ⟨c + 1, r⟩ = false := by simp [moreThanLimit]; omega
      simp only [answers, pcStep, hmore, Bool.false_eq_true, if_false, firstFalse]
      by_cases hlast : c + 1 = N
      · -- this is the N-th match
        have h1 : N - c ≤ 1 := by omega
        by_cases hA : A = 0
        · subst hA
          have hsq : shouldQuit (some N) ⟨c + 1, 0⟩ = true := by simp [shouldQuit]; omega
          simp [hsq, quitFrom, nthIndex, isMatched, h1]
        · have hsq : shouldQuit (some N) ⟨c + 1, A⟩ = false := by
            have : ¬ (c + 1 < N) := by omega
            simp [shouldQuit, this]; omega
          simp only [hsq, Bool.not_false, if_true]
          rw [answers_phase2 N A rest (i + 1) (c + 1) A (by omega) (by omega) hnb']
          simp [quitFrom, nthIndex, isMatched, h1, hA]
      · have hsq : shouldQuit (some N) ⟨c + 1, A⟩ = false := by
          have : c + 1 < N := by omega
          simp [shouldQuit, this]
        simp only [hsq, Bool.not_false, if_true]
        rw [ih (i + 1) (c + 1) A (by omega) hnb']
        have h1 : ¬ (N - c ≤ 1) := by omega
        unfold quitFrom
        simp only [nthIndex, isMatched, if_true, h1, if_false]
        have e1 : N - c - 1 = N - (c + 1) := by omega
        rw [e1]
        cases hk : nthIndex isMatched (i + 1) (N - (c + 1)) rest with
        | none => rfl
        | some k =>
          have := nthIndex_ge _ _ _ _ _ hk
          simp only
          have e : k + 1 - i = (k + 1 - (i + 1)) + 1 := by omega
          rw [e, List.drop_succ_cons]
    | context kind ln off bs =>
      simp only [answers, pcStep, firstFalse]
      split <;> (simp only [hq, Bool.not_false, if_true]; rw [ih (i + 1) c _ hc hnb', quitFrom_skip _ _ _ _ _ rfl])
    | contextBreak =>
      simp only [answers, pcStep, firstFalse, if_true]
      rw [ih (i + 1) c r hc hnb', quitFrom_skip _ _ _ _ _ rfl]
    | binaryData o =>
      simp only [answers, pcStep, firstFalse, if_true]
      rw [ih (i + 1) c r hc hnb', quitFrom_skip _ _ _ _ _ rfl]
    | finish a b =>
      simp only [answers, pcStep, firstFalse, if_true]
      rw [ih (i + 1) c r hc hnb', quitFrom_skip _ _ _ _ _ rfl]

/-- **the sink with limit `N` first refuses exactly where the counting spec says** -/
theorem firstFalse_eq_quitIndex (N A : Nat) (rest : List Event) (hnb : NoBegin rest) :
    firstFalse 0 (answers (some N) A {} (Event.begin :: rest)) = quitIndex N A (Event.begin :: rest) := by
  unfold quitIndex
  by_cases hN : N = 0
  · subst hN; simp [answers, pcStep, firstFalse]
  · have hb : (some N == some 0) = false := by simp [hN]
    simp only [answers, pcStep, hb, Bool.not_false, firstFalse, if_true, hN, if_false, List.drop_succ_cons, List.drop_zero]
    have := answers_phase1 N A rest 1 0 0 (by omega) hnb
    simpa using this

theorem firstFalse_spec : ∀ (l : List Bool) (i k : Nat), firstFalse i l = some k →
    i ≤ k ∧ l[k - i]? = some false ∧ ∀ j, j < k - i → l[j]? = some true := by
  intro l
  induction l with
  | nil => intro i k h; simp [firstFalse] at h
  | cons b rest ih =>
    intro i k h
    unfold firstFalse at h
    cases b with
    | false =>
      simp at h; subst h
      exact ⟨Nat.le_refl _, by simp, fun j hj => by omega⟩
    | true =>
      simp only [if_true] at h
      obtain ⟨h1, h2, h3⟩ := ih (i + 1) k h
      refine ⟨by omega, ?_, ?_⟩
      · have e : k - i = (k - (i + 1)) + 1 := by omega
        rw [e]; simpa using h2
      · intro j hj
        cases j with
        | zero => rfl
        | succ j' => simpa using h3 j' (by omega)

theorem firstFalse_none : ∀ (l : List Bool) (i : Nat), firstFalse i l = none → ∀ (j : Nat), l[j]? ≠ some false := by
  intro l
  induction l with
  | nil => intro i _ j; simp
  | cons b rest ih =>
    intro i h j
    unfold firstFalse at h
    cases b with
    | false => simp at h
    | true =>
      simp only [if_true] at h
      cases j with
      | zero => simp
      | succ j' => simpa using ih (i + 1) h j'

end RgVerif.MaxCount
