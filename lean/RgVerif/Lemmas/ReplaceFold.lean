import RgVerif.Lemmas.ReplaceIter
import RgVerif.Lemmas.Interp
/-
`replace_with_captures_in_context` (model) is "replace all" (spec) over the matches that start
before the end of the range.
-/
namespace RgVerif.Lemmas.ReplaceFold
open RgVerif RgVerif.Matcher RgVerif.ReplaceSpec RgVerif.Replace RgVerif.Interp
open RgVerif.Lemmas.ReplaceIter

/-- the closure `replace_all` hands to `replace_with_captures_in_context`, as a function -/
def replaceStep (names : List (Bytes × Nat)) (bytes : Bytes) (re : Nat) (atEnd : Bool) (tmpl : Bytes) :
    RState → Caps → RState × Bool :=
  fun st c =>
    let m := (c.get 0).getD ⟨0, 0⟩
    if beyondRange re atEnd m.s || decide (m.e > re) then (st, false)
    else
      let dst1 := st.dst ++ slice bytes st.lastMatch m.s
      let exp := interpolate (envOf bytes names c) tmpl
      ({ lastMatch := m.e, dst := dst1 ++ exp,
         spans := st.spans ++ [⟨dst1.length, dst1.length + exp.length⟩] }, true)

theorem replace_unfold (capsAt : Nat → Option Caps) (names : List (Bytes × Nat))
    (bytes : Bytes) (rs re : Nat) (atEnd : Bool) (tmpl : Bytes) :
    replaceWithCapturesInContext capsAt names bytes rs re atEnd tmpl =
      (let st := iterGo sp capsAt bytes.length (replaceStep names bytes re atEnd tmpl)
                  (bytes.length + 2) rs none ⟨rs, [], []⟩
       { st with dst := st.dst ++ slice bytes st.lastMatch (min bytes.length re) }) := rfl

/-- the matches the printer keeps: those starting before `re`, or exactly at `re` when the range ends the
haystack without a terminator -/
def keep (re : Nat) (atEnd : Bool) (c : Caps) : Bool :=
  decide ((sp c).s < re) || (atEnd && (sp c).s == re)

theorem fold_spec (names : List (Bytes × Nat)) (bytes : Bytes) (re to : Nat) (atEnd : Bool) (tmpl : Bytes) :
    ∀ (ms : List Caps) (_hms : ∀ c ∈ ms, (sp c).e ≤ re) (st : RState),
      (foldUntil (replaceStep names bytes re atEnd tmpl) st ms).dst ++
        slice bytes (foldUntil (replaceStep names bytes re atEnd tmpl) st ms).lastMatch to =
      st.dst ++ replaceAllSpec bytes (fun c => interpolate (envOf bytes names c) tmpl)
        (ms.takeWhile (keep re atEnd)) st.lastMatch to := by
  intro ms
  induction ms with
  | nil => intro _ st; simp [foldUntil, replaceAllSpec, slice]
  | cons c ms ih =>
    intro hms st
    have hce : (sp c).e ≤ re := hms c (by simp)
    have hbey : decide (((c.get 0).getD ⟨0, 0⟩).e > re) = false := by
      simp only [sp] at hce; simp; omega
    have ih := ih (fun x hx => hms x (by simp [hx]))
    by_cases hk : keep re atEnd c = true
    · have hcond : beyondRange re atEnd (sp c).s = false := by
        unfold keep at hk
        unfold beyondRange
        cases atEnd <;> simp at hk ⊢ <;> omega
      have hstep : (replaceStep names bytes re atEnd tmpl st c).2 = true := by
        unfold replaceStep; simp only [sp] at hcond; simp only [hcond, hbey]; simp
      simp only [foldUntil, hstep, ↓reduceIte, List.takeWhile_cons, hk]
      rw [ih]
      unfold replaceStep
      simp only [sp] at hcond
      simp only [hcond, hbey]
      simp [replaceAllSpec, slice, sp, List.append_assoc]
    · have hcond : beyondRange re atEnd (sp c).s = true := by
        unfold keep at hk
        unfold beyondRange
        cases atEnd <;> simp at hk ⊢ <;> omega
      have hstep : replaceStep names bytes re atEnd tmpl st c = (st, false) := by
        unfold replaceStep; simp only [sp] at hcond; simp [hcond]
      simp [foldUntil, hstep, List.takeWhile_cons, hk, replaceAllSpec, slice]

/-- **Replace-all, line level.** For every sane matcher, the replacement buffer built by the printer for
the range `[rs, re)` of `bytes` is the regex crate's replace-all over the matches the printer keeps
(text between matches copied verbatim, each match replaced by the interpolated template). -/
theorem replace_eq_spec (capsAt : Nat → Option Caps) (names : List (Bytes × Nat))
    (bytes : Bytes) (rs re : Nat) (atEnd : Bool) (tmpl : Bytes) (hs : Sane capsAt bytes.length)
    (hre : bytes.length ≤ re) :
    (replaceWithCapturesInContext capsAt names bytes rs re atEnd tmpl).dst =
      replaceAllSpec bytes (fun c => interpolate (envOf bytes names c) tmpl)
        ((allMatches capsAt bytes.length rs).takeWhile (keep re atEnd))
        rs (min bytes.length re) := by
  rw [replace_unfold]
  simp only
  rw [iterGo_eq_fold]
  have hc := collect_eq_allMatches hs rs
  rw [hc]
  have hms : ∀ c ∈ allMatches capsAt bytes.length rs, (sp c).e ≤ re := by
    intro c hc'
    obtain ⟨p, hp⟩ := specIter_mem hc'
    have := hs.bound p c hp
    omega
  have := fold_spec names bytes re (min bytes.length re) atEnd tmpl (allMatches capsAt bytes.length rs) hms ⟨rs, [], []⟩
  simpa using this

/-! ### `trim_line_terminator` and `is_at_unterminated_end` -/

/-- Cutting the terminator of the range `[rs, re)` either shortens the range (then the range was not empty), or
leaves it when it does not end in the terminator byte. -/
theorem trim_cases (t : LineTerm) (haystack : Bytes) (rs re : Nat) :
    (trimLineTerminator t haystack rs re < re ∧ rs < re) ∨
    (trimLineTerminator t haystack rs re = re ∧ t.isSuffix ((haystack.take re).drop rs) = false) := by
  unfold trimLineTerminator
  by_cases hsuf : t.isSuffix ((haystack.take re).drop rs) = true
  · left
    simp only [hsuf, ↓reduceIte]
    have hre : rs < re := by
      by_cases h : rs < re
      · exact h
      · have : (haystack.take re).drop rs = [] := by
          apply List.drop_eq_nil_of_le; rw [List.length_take]; omega
        rw [this] at hsuf; simp [LineTerm.isSuffix] at hsuf
    refine ⟨?_, hre⟩
    split <;> omega
  · right
    simp only [hsuf, Bool.false_eq_true, ↓reduceIte, true_and]

theorem atEnd_of_unterminated (t : LineTerm) (haystack : Bytes) (rs re : Nat)
    (hrange : rs ≤ re ∧ re ≤ haystack.length) (hns : t.isSuffix (haystack.take re) = false) :
    isAtUnterminatedEnd t (haystack.take re) rs re = true := by
  unfold isAtUnterminatedEnd
  have hl : (haystack.take re).length = re := by rw [List.length_take]; omega
  simp only [hl, beq_self_eq_true, hrange.1, decide_true, Bool.true_and, Bool.not_eq_eq_eq_not,
    Bool.not_true]
  unfold LineTerm.isSuffix slice at *
  by_cases hrs : rs < re
  · have h1 : ((haystack.take re).take re) = haystack.take re := by
      rw [List.take_take]; simp
    rw [h1, List.getLast?_drop]
    have : ¬ ((haystack.take re).length ≤ rs) := by omega
    simp only [this, ↓reduceIte]
    exact hns
  · have : rs = re := by omega
    subst this
    have h1 : ((haystack.take rs).take rs) = haystack.take rs := by
      rw [List.take_take]; simp
    rw [h1]
    have : (haystack.take rs).drop rs = [] := by
      apply List.drop_eq_nil_of_le; omega
    rw [this]; simp

end RgVerif.Lemmas.ReplaceFold
