import RgVerif.Lemmas.ReplaceIter
import RgVerif.Lemmas.Interp
/-
`replace_with_captures_in_context` (model) is "replace all" (spec) over the matches that start
before the end of the range.
-/
namespace RgVerif.Lemmas.ReplaceFold
open RgVerif RgVerif.Matcher RgVerif.ReplaceSpec RgVerif.Replace RgVerif.Interp
open RgVerif.Lemmas.ReplaceIter

/-- the closure `replace_all` hands to `replace_with_captures_in_context`, as a function -/
def replaceStep (names : List (Bytes × Nat)) (bytes : Bytes) (re : Nat) (tmpl : Bytes) :
    RState → Caps → RState × Bool :=
  fun st c =>
    let m := (c.get 0).getD ⟨0, 0⟩
    if m.s ≥ re then (st, false)
    else
      let dst1 := st.dst ++ slice bytes st.lastMatch m.s
      let exp := interpolate (envOf bytes names c) tmpl
      ({ lastMatch := m.e, dst := dst1 ++ exp,
         spans := st.spans ++ [⟨dst1.length, dst1.length + exp.length⟩] }, true)

theorem replace_unfold (capsAt : Nat → Option Caps) (names : List (Bytes × Nat))
    (bytes : Bytes) (rs re : Nat) (tmpl : Bytes) :
    replaceWithCapturesInContext capsAt names bytes rs re tmpl =
      (let st := iterGo sp capsAt bytes.length (replaceStep names bytes re tmpl)
                  (bytes.length + 2) rs none ⟨rs, [], []⟩
       { st with dst := st.dst ++ slice bytes st.lastMatch (min bytes.length re) }) := rfl

theorem fold_spec (names : List (Bytes × Nat)) (bytes : Bytes) (re to : Nat) (tmpl : Bytes) :
    ∀ (ms : List Caps) (st : RState),
      (foldUntil (replaceStep names bytes re tmpl) st ms).dst ++
        slice bytes (foldUntil (replaceStep names bytes re tmpl) st ms).lastMatch to =
      st.dst ++ replaceAllSpec bytes (fun c => interpolate (envOf bytes names c) tmpl)
        (ms.takeWhile (fun c => decide ((sp c).s < re))) st.lastMatch to := by
  intro ms
  induction ms with
  | nil => intro st; simp [foldUntil, replaceAllSpec, slice]
  | cons c ms ih =>
    intro st
    by_cases hge : (sp c).s ≥ re
    · have hlt : ¬ (sp c).s < re := by omega
      have hstep : replaceStep names bytes re tmpl st c = (st, false) := by
        unfold replaceStep; simp only [sp] at hge; simp [hge]
      simp [foldUntil, hstep, List.takeWhile_cons, hlt, replaceAllSpec, slice]
    · have hlt : (sp c).s < re := by omega
      have hstep : (replaceStep names bytes re tmpl st c).2 = true := by
        unfold replaceStep; simp only [sp] at hge; simp [hge]
      simp only [foldUntil, hstep, ↓reduceIte, List.takeWhile_cons, hlt, decide_true]
      rw [ih]
      unfold replaceStep
      simp only [sp] at hge
      simp [hge, replaceAllSpec, slice, sp, List.append_assoc]

/-- **Replace-all, line level.** For every sane matcher, the replacement buffer built by the printer for
the range `[rs, re)` of `bytes` is the regex crate's replace-all over the matches that start before `re`
(text between matches copied verbatim, each match replaced by the interpolated template). -/
theorem replace_eq_spec (capsAt : Nat → Option Caps) (names : List (Bytes × Nat))
    (bytes : Bytes) (rs re : Nat) (tmpl : Bytes) (hs : Sane capsAt bytes.length) :
    (replaceWithCapturesInContext capsAt names bytes rs re tmpl).dst =
      replaceAllSpec bytes (fun c => interpolate (envOf bytes names c) tmpl)
        ((allMatches capsAt bytes.length rs).takeWhile (fun c => decide ((sp c).s < re)))
        rs (min bytes.length re) := by
  rw [replace_unfold]
  simp only
  rw [iterGo_eq_fold]
  have hc := collect_eq_allMatches hs rs
  rw [hc]
  have := fold_spec names bytes re (min bytes.length re) tmpl (allMatches capsAt bytes.length rs) ⟨rs, [], []⟩
  simpa using this

end RgVerif.Lemmas.ReplaceFold
