import RgVerif.Model.Strip
import RgVerif.Lemmas.HirBasic
/-
Lemmas about `strip.rs`: the class-difference membership lemma, `stripGo` establishes `noByte`,
`noByte` is sound for the denotation, and `stripGo` keeps exactly the matches free of the byte.
-/
namespace RgVerif.Rx
open RgVerif

/-! ### class difference -/

theorem mem_removeByte {rs : Ranges} {b : Nat} {r' : Range} :
    r' ∈ removeByte rs b ↔ ∃ r ∈ rs,
      (¬(r.1 ≤ b ∧ b ≤ r.2) ∧ r' = r) ∨
      ((r.1 ≤ b ∧ b ≤ r.2) ∧ ((r.1 < b ∧ r' = (r.1, b - 1)) ∨ (b < r.2 ∧ r' = (b + 1, r.2)))) := by
  unfold removeByte
  rw [List.mem_flatMap]
  constructor
  · rintro ⟨r, hr, h⟩
    refine ⟨r, hr, ?_⟩
    split at h
    · rename_i hc
      right
      refine ⟨hc, ?_⟩
      rw [List.mem_append] at h
      rcases h with h | h
      · left; split at h <;> simp_all
      · right; split at h <;> simp_all
    · left; simp_all
  · rintro ⟨r, hr, h⟩
    refine ⟨r, hr, ?_⟩
    rcases h with ⟨hn, rfl⟩ | ⟨hc, h⟩
    · simp [hn]
    · rw [if_pos hc, List.mem_append]
      rcases h with ⟨h1, rfl⟩ | ⟨h1, rfl⟩
      · left; simp [h1]
      · right; simp [h1]

/-- The membership lemma behind class stripping. -/
theorem inCls_removeByte (rs : Ranges) (b c : Nat) :
    inCls (removeByte rs b) c = true ↔ inCls rs c = true ∧ c ≠ b := by
  rw [inCls_iff, inCls_iff]
  constructor
  · rintro ⟨r', hr', h1, h2⟩
    obtain ⟨r, hr, h⟩ := mem_removeByte.1 hr'
    rcases h with ⟨hn, rfl⟩ | ⟨hc, ⟨hlt, rfl⟩ | ⟨hlt, rfl⟩⟩
    · refine ⟨⟨r', hr, h1, h2⟩, ?_⟩
      rintro rfl; exact hn ⟨h1, h2⟩
    · simp only at h1 h2
      exact ⟨⟨r, hr, h1, by omega⟩, by omega⟩
    · simp only at h1 h2
      exact ⟨⟨r, hr, by omega, h2⟩, by omega⟩
  · rintro ⟨⟨r, hr, h1, h2⟩, hne⟩
    by_cases hc : r.1 ≤ b ∧ b ≤ r.2
    · rcases Nat.lt_or_gt_of_ne hne with hlt | hgt
      · exact ⟨(r.1, b - 1), mem_removeByte.2 ⟨r, hr, Or.inr ⟨hc, Or.inl ⟨by omega, rfl⟩⟩⟩, h1, by simp only; omega⟩
      · exact ⟨(b + 1, r.2), mem_removeByte.2 ⟨r, hr, Or.inr ⟨hc, Or.inr ⟨by omega, rfl⟩⟩⟩, by simp only; omega, h2⟩
    · exact ⟨r, mem_removeByte.2 ⟨r, hr, Or.inl ⟨hc, rfl⟩⟩, h1, h2⟩

theorem inCls_removeByte_self (rs : Ranges) (b : Nat) : inCls (removeByte rs b) b = false := by
  cases h : inCls (removeByte rs b) b
  · rfl
  · exact absurd rfl ((inCls_removeByte rs b b).1 h).2

/-! ### `stripGo` establishes `noByte` -/

theorem contains_false_iff {bs : Bytes} {b : Nat} : bs.contains b = false ↔ b ∉ bs := by
  simp

mutual
theorem stripGo_noByte : ∀ (h : Hir) (b : Nat) (h' : Hir), stripGo h b = .ok h' → noByte b h' = true
  | .empty, b, h', hs => by simp [stripGo] at hs; subst hs; simp [noByte]
  | .lit bs, b, h', hs => by
      simp only [stripGo] at hs
      split at hs
      · cases hs
      · cases hs; simp_all [noByte]
  | .classU rs, b, h', hs => by
      simp only [stripGo] at hs
      split at hs
      · cases hs; rename_i he; simp [noByte, List.isEmpty_iff.1 he, inCls_nil]
      · split at hs
        · cases hs
        · cases hs; simp [noByte, inCls_removeByte_self]
  | .classB rs, b, h', hs => by
      simp only [stripGo] at hs
      split at hs
      · cases hs; rename_i he; simp [noByte, List.isEmpty_iff.1 he, inCls_nil]
      · split at hs
        · cases hs
        · cases hs; simp [noByte, inCls_removeByte_self]
  | .look k, b, h', hs => by simp [stripGo] at hs; subst hs; simp [noByte]
  | .rep min max g sub, b, h', hs => by
      simp only [stripGo] at hs
      split at hs
      · rename_i sub' hsub; cases hs; simp only [noByte]; exact stripGo_noByte sub b sub' hsub
      · cases hs
  | .cap i sub, b, h', hs => by
      simp only [stripGo] at hs
      split at hs
      · rename_i sub' hsub; cases hs; simp only [noByte]; exact stripGo_noByte sub b sub' hsub
      · cases hs
  | .concat xs, b, h', hs => by
      simp only [stripGo] at hs
      split at hs
      · rename_i xs' hxs; cases hs; simp only [noByte]; exact stripList_noByte xs b xs' hxs
      · cases hs
  | .alt xs, b, h', hs => by
      simp only [stripGo] at hs
      split at hs
      · rename_i xs' hxs; cases hs; simp only [noByte]; exact stripList_noByte xs b xs' hxs
      · cases hs
theorem stripList_noByte : ∀ (xs : HirList) (b : Nat) (xs' : HirList), stripList xs b = .ok xs' → noByteL b xs' = true
  | .nil, b, xs', hs => by simp [stripList] at hs; subst hs; simp [noByteL]
  | .cons h t, b, xs', hs => by
      simp only [stripList] at hs
      split at hs
      · cases hs
      · rename_i h' hh
        split at hs
        · rename_i t' ht
          cases hs
          simp only [noByteL, Bool.and_eq_true]
          exact ⟨stripGo_noByte h b h' hh, stripList_noByte t b t' ht⟩
        · cases hs
end

/-! ### `noByte` is sound -/

mutual
theorem noByte_sound {lk : LookFn} {b : Nat} (hb : b < 128) : ∀ (h : Hir) {hay : Bytes} {s e : Nat},
    noByte b h = true → Matches lk h hay s e → NoByteIn b hay s e
  | .empty, _, _, _, _, .empty _ => fun i h1 h2 => by omega
  | .lit bs, hay, s, _, hn, .lit _ hsl => by
      apply noByteIn_of_slice_eq hsl
      simpa [noByte] using hn
  | .classB rs, hay, s, _, hn, .classB (b := c) hget hin => by
      intro i h1 h2
      have : i = s := by omega
      subst this
      rw [hget]
      intro heq
      cases heq
      simp [noByte, hin] at hn
  | .classU rs, hay, s, _, hn, .classU (c := c) hin _ _ hsl => by
      apply noByteIn_of_slice_eq hsl
      intro hmem
      have := mem_utf8Enc_ascii hb hmem
      subst this
      simp [noByte, hin] at hn
  | .look _, _, _, _, _, .look _ _ => fun i h1 h2 => by omega
  | .rep _ _ _ sub, _, _, _, hn, .rep n _ _ hr => by
      simp only [noByte] at hn
      exact noByte_sound_rep hb sub hn hr
  | .cap _ sub, _, _, _, hn, .cap hm => by
      simp only [noByte] at hn
      exact noByte_sound hb sub hn hm
  | .concat xs, _, _, _, hn, .concat hm => by
      simp only [noByte] at hn
      exact noByte_sound_seq hb xs hn hm
  | .alt xs, _, _, _, hn, .alt hm => by
      simp only [noByte] at hn
      exact noByte_sound_any hb xs hn hm
theorem noByte_sound_seq {lk : LookFn} {b : Nat} (hb : b < 128) : ∀ (xs : HirList) {hay : Bytes} {s e : Nat},
    noByteL b xs = true → MatchesSeq lk xs hay s e → NoByteIn b hay s e
  | .nil, _, _, _, _, .nil _ => fun i h1 h2 => by omega
  | .cons h t, _, _, _, hn, .cons (m := m) h1 h2 => by
      simp only [noByteL, Bool.and_eq_true] at hn
      have a := noByte_sound hb h hn.1 h1
      have c := noByte_sound_seq hb t hn.2 h2
      intro i hi1 hi2
      rcases Nat.lt_or_ge i m with hlt | hge
      · exact a i hi1 hlt
      · exact c i hge hi2
theorem noByte_sound_any {lk : LookFn} {b : Nat} (hb : b < 128) : ∀ (xs : HirList) {hay : Bytes} {s e : Nat},
    noByteL b xs = true → MatchesAny lk xs hay s e → NoByteIn b hay s e
  | .cons h t, _, _, _, hn, .head h1 => by
      simp only [noByteL, Bool.and_eq_true] at hn
      exact noByte_sound hb h hn.1 h1
  | .cons h t, _, _, _, hn, .tail h1 => by
      simp only [noByteL, Bool.and_eq_true] at hn
      exact noByte_sound_any hb t hn.2 h1
theorem noByte_sound_rep {lk : LookFn} {b : Nat} (hb : b < 128) : ∀ (sub : Hir) {hay : Bytes} {n s e : Nat},
    noByte b sub = true → MatchesRep lk sub hay n s e → NoByteIn b hay s e
  | _, _, _, _, _, _, .zero _ => fun i h1 h2 => by omega
  | sub, _, _, _, _, hn, .succ (m := m) h1 h2 => by
      have a := noByte_sound hb sub hn h1
      have c := noByte_sound_rep hb sub hn h2
      intro i hi1 hi2
      rcases Nat.lt_or_ge i m with hlt | hge
      · exact a i hi1 hlt
      · exact c i hge hi2
end

end RgVerif.Rx

namespace RgVerif.Rx
open RgVerif

theorem NoByteIn.left {b : Nat} {hay : Bytes} {s m e : Nat} (h : NoByteIn b hay s e) (hm : m ≤ e) :
    NoByteIn b hay s m := fun i h1 h2 => h i h1 (by omega)

theorem NoByteIn.right {b : Nat} {hay : Bytes} {s m e : Nat} (h : NoByteIn b hay s e) (hm : s ≤ m) :
    NoByteIn b hay m e := fun i h1 h2 => h i (by omega) h2

/-! ### stripping only removes matches: every match of the stripped tree is a match of the original -/

mutual
theorem stripGo_mono {lk : LookFn} {b : Nat} : ∀ (h h' : Hir) {hay : Bytes} {s e : Nat},
    stripGo h b = .ok h' → Matches lk h' hay s e → Matches lk h hay s e
  | .empty, h', _, _, _, hs, hm => by simp [stripGo] at hs; subst hs; exact hm
  | .lit bs, h', _, _, _, hs, hm => by
      simp only [stripGo] at hs
      split at hs
      · cases hs
      · cases hs; exact hm
  | .classU rs, h', _, _, _, hs, hm => by
      simp only [stripGo] at hs
      split at hs
      · cases hs; exact hm
      · split at hs
        · cases hs
        · cases hs
          cases hm with
          | classU hin hsc hl hsl => exact .classU ((inCls_removeByte rs b _).1 hin).1 hsc hl hsl
  | .classB rs, h', _, _, _, hs, hm => by
      simp only [stripGo] at hs
      split at hs
      · cases hs; exact hm
      · split at hs
        · cases hs
        · cases hs
          cases hm with
          | classB hget hin => exact .classB hget ((inCls_removeByte rs b _).1 hin).1
  | .look k, h', _, _, _, hs, hm => by simp [stripGo] at hs; subst hs; exact hm
  | .rep min max g sub, h', _, _, _, hs, hm => by
      simp only [stripGo] at hs
      split at hs
      · rename_i sub' hsub
        cases hs
        cases hm with
        | rep n h1 h2 hr => exact .rep n h1 h2 (stripGo_mono_rep sub sub' hsub hr)
      · cases hs
  | .cap i sub, h', _, _, _, hs, hm => by
      simp only [stripGo] at hs
      split at hs
      · rename_i sub' hsub
        cases hs
        cases hm with
        | cap hm => exact .cap (stripGo_mono sub sub' hsub hm)
      · cases hs
  | .concat xs, h', _, _, _, hs, hm => by
      simp only [stripGo] at hs
      split at hs
      · rename_i xs' hxs
        cases hs
        cases hm with
        | concat hm => exact .concat (stripList_mono_seq xs xs' hxs hm)
      · cases hs
  | .alt xs, h', _, _, _, hs, hm => by
      simp only [stripGo] at hs
      split at hs
      · rename_i xs' hxs
        cases hs
        cases hm with
        | alt hm => exact .alt (stripList_mono_any xs xs' hxs hm)
      · cases hs
theorem stripList_mono_seq {lk : LookFn} {b : Nat} : ∀ (xs xs' : HirList) {hay : Bytes} {s e : Nat},
    stripList xs b = .ok xs' → MatchesSeq lk xs' hay s e → MatchesSeq lk xs hay s e
  | .nil, xs', _, _, _, hs, hm => by simp [stripList] at hs; subst hs; exact hm
  | .cons h t, xs', _, _, _, hs, hm => by
      simp only [stripList] at hs
      split at hs
      · cases hs
      · rename_i h' hh
        split at hs
        · rename_i t' ht
          cases hs
          cases hm with
          | cons h1 h2 => exact .cons (stripGo_mono h h' hh h1) (stripList_mono_seq t t' ht h2)
        · cases hs
theorem stripList_mono_any {lk : LookFn} {b : Nat} : ∀ (xs xs' : HirList) {hay : Bytes} {s e : Nat},
    stripList xs b = .ok xs' → MatchesAny lk xs' hay s e → MatchesAny lk xs hay s e
  | .nil, xs', _, _, _, hs, hm => by simp [stripList] at hs; subst hs; exact hm
  | .cons h t, xs', _, _, _, hs, hm => by
      simp only [stripList] at hs
      split at hs
      · cases hs
      · rename_i h' hh
        split at hs
        · rename_i t' ht
          cases hs
          cases hm with
          | head h1 => exact .head (stripGo_mono h h' hh h1)
          | tail h1 => exact .tail (stripList_mono_any t t' ht h1)
        · cases hs
theorem stripGo_mono_rep {lk : LookFn} {b : Nat} : ∀ (sub sub' : Hir) {hay : Bytes} {n s e : Nat},
    stripGo sub b = .ok sub' → MatchesRep lk sub' hay n s e → MatchesRep lk sub hay n s e
  | _, _, _, _, _, _, _, .zero hs => .zero hs
  | sub, sub', _, _, _, _, hsub, .succ h1 h2 =>
      .succ (stripGo_mono sub sub' hsub h1) (stripGo_mono_rep sub sub' hsub h2)
end

/-! ### … and keeps every match that is free of the byte -/

mutual
theorem stripGo_keep {lk : LookFn} {b : Nat} (hb : b < 128) : ∀ (h h' : Hir) {hay : Bytes} {s e : Nat},
    stripGo h b = .ok h' → Matches lk h hay s e → NoByteIn b hay s e → Matches lk h' hay s e
  | .empty, h', _, _, _, hs, hm, _ => by simp [stripGo] at hs; subst hs; exact hm
  | .lit bs, h', _, _, _, hs, hm, _ => by
      simp only [stripGo] at hs
      split at hs
      · cases hs
      · cases hs; exact hm
  | .classU rs, h', hay, s, _, hs, hm, hnb => by
      simp only [stripGo] at hs
      split at hs
      · cases hs; exact hm
      · split at hs
        · cases hs
        · cases hs
          cases hm with
          | classU hin hsc hl hsl =>
            rename_i c
            refine .classU ((inCls_removeByte rs b c).2 ⟨hin, ?_⟩) hsc hl hsl
            rintro rfl
            have hmem : c ∈ slice hay s (s + (utf8Enc c).length) := by
              rw [hsl, utf8Enc_ascii hb]; simp
            exact ((noByteIn_iff _ _ _ _).1 hnb) hmem
  | .classB rs, h', hay, s, _, hs, hm, hnb => by
      simp only [stripGo] at hs
      split at hs
      · cases hs; exact hm
      · split at hs
        · cases hs
        · cases hs
          cases hm with
          | classB hget hin =>
            rename_i c
            refine .classB hget ((inCls_removeByte rs b c).2 ⟨hin, ?_⟩)
            rintro rfl
            exact hnb s (Nat.le_refl _) (by omega) hget
  | .look k, h', _, _, _, hs, hm, _ => by simp [stripGo] at hs; subst hs; exact hm
  | .rep min max g sub, h', _, _, _, hs, hm, hnb => by
      simp only [stripGo] at hs
      split at hs
      · rename_i sub' hsub
        cases hs
        cases hm with
        | rep n h1 h2 hr => exact .rep n h1 h2 (stripGo_keep_rep hb sub sub' hsub hr hnb)
      · cases hs
  | .cap i sub, h', _, _, _, hs, hm, hnb => by
      simp only [stripGo] at hs
      split at hs
      · rename_i sub' hsub
        cases hs
        cases hm with
        | cap hm => exact .cap (stripGo_keep hb sub sub' hsub hm hnb)
      · cases hs
  | .concat xs, h', _, _, _, hs, hm, hnb => by
      simp only [stripGo] at hs
      split at hs
      · rename_i xs' hxs
        cases hs
        cases hm with
        | concat hm => exact .concat (stripList_keep_seq hb xs xs' hxs hm hnb)
      · cases hs
  | .alt xs, h', _, _, _, hs, hm, hnb => by
      simp only [stripGo] at hs
      split at hs
      · rename_i xs' hxs
        cases hs
        cases hm with
        | alt hm => exact .alt (stripList_keep_any hb xs xs' hxs hm hnb)
      · cases hs
theorem stripList_keep_seq {lk : LookFn} {b : Nat} (hb : b < 128) : ∀ (xs xs' : HirList) {hay : Bytes} {s e : Nat},
    stripList xs b = .ok xs' → MatchesSeq lk xs hay s e → NoByteIn b hay s e → MatchesSeq lk xs' hay s e
  | .nil, xs', _, _, _, hs, hm, _ => by simp [stripList] at hs; subst hs; exact hm
  | .cons h t, xs', _, _, _, hs, hm, hnb => by
      simp only [stripList] at hs
      split at hs
      · cases hs
      · rename_i h' hh
        split at hs
        · rename_i t' ht
          cases hs
          cases hm with
          | cons h1 h2 =>
            have a := Matches.span h1
            have c := MatchesSeq.span h2
            exact .cons (stripGo_keep hb h h' hh h1 (hnb.left c.1))
              (stripList_keep_seq hb t t' ht h2 (hnb.right a.1))
        · cases hs
theorem stripList_keep_any {lk : LookFn} {b : Nat} (hb : b < 128) : ∀ (xs xs' : HirList) {hay : Bytes} {s e : Nat},
    stripList xs b = .ok xs' → MatchesAny lk xs hay s e → NoByteIn b hay s e → MatchesAny lk xs' hay s e
  | .nil, xs', _, _, _, hs, hm, _ => by cases hm
  | .cons h t, xs', _, _, _, hs, hm, hnb => by
      simp only [stripList] at hs
      split at hs
      · cases hs
      · rename_i h' hh
        split at hs
        · rename_i t' ht
          cases hs
          cases hm with
          | head h1 => exact .head (stripGo_keep hb h h' hh h1 hnb)
          | tail h1 => exact .tail (stripList_keep_any hb t t' ht h1 hnb)
        · cases hs
theorem stripGo_keep_rep {lk : LookFn} {b : Nat} (hb : b < 128) : ∀ (sub sub' : Hir) {hay : Bytes} {n s e : Nat},
    stripGo sub b = .ok sub' → MatchesRep lk sub hay n s e → NoByteIn b hay s e → MatchesRep lk sub' hay n s e
  | _, _, _, _, _, _, _, .zero hs, _ => .zero hs
  | sub, sub', _, _, _, _, hsub, .succ h1 h2, hnb =>
      have a := Matches.span h1
      have c := MatchesRep.span h2
      .succ (stripGo_keep hb sub sub' hsub h1 (hnb.left c.1)) (stripGo_keep_rep hb sub sub' hsub h2 (hnb.right a.1))
end

/-! ### what is rejected -/

mutual
theorem stripGo_error_iff (b : Nat) : ∀ (h : Hir), (∃ e, stripGo h b = .error e) ↔ needsByte b h = true
  | .empty => by simp [stripGo, needsByte]
  | .lit bs => by
      simp only [stripGo, needsByte]
      split <;> simp_all
  | .classU rs => by
      simp only [stripGo, needsByte]
      split
      · simp_all
      · split <;> simp_all
  | .classB rs => by
      simp only [stripGo, needsByte]
      split
      · simp_all
      · split <;> simp_all
  | .look _ => by simp [stripGo, needsByte]
  | .rep _ _ _ sub => by
      have ih := stripGo_error_iff b sub
      simp only [stripGo, needsByte]
      rw [← ih]
      split <;> simp_all
  | .cap _ sub => by
      have ih := stripGo_error_iff b sub
      simp only [stripGo, needsByte]
      rw [← ih]
      split <;> simp_all
  | .concat xs => by
      have ih := stripList_error_iff b xs
      simp only [stripGo, needsByte]
      rw [← ih]
      split <;> simp_all
  | .alt xs => by
      have ih := stripList_error_iff b xs
      simp only [stripGo, needsByte]
      rw [← ih]
      split <;> simp_all
theorem stripList_error_iff (b : Nat) : ∀ (xs : HirList), (∃ e, stripList xs b = .error e) ↔ needsByteL b xs = true
  | .nil => by simp [stripList, needsByteL]
  | .cons h t => by
      have ih1 := stripGo_error_iff b h
      have ih2 := stripList_error_iff b t
      simp only [stripList, needsByteL, Bool.or_eq_true]
      rw [← ih1, ← ih2]
      split
      · simp_all
      · split <;> simp_all
end

mutual
/-- Every error of `stripGo` is `NotAllowed(b)`. -/
theorem stripGo_error_kind (b : Nat) : ∀ (h : Hir) (e : StripErr), stripGo h b = .error e → e = .notAllowed b
  | .empty, e, he => by simp [stripGo] at he
  | .lit bs, e, he => by
      simp only [stripGo] at he
      split at he
      · cases he; rfl
      · cases he
  | .classU rs, e, he => by
      simp only [stripGo] at he
      split at he
      · cases he
      · split at he
        · cases he; rfl
        · cases he
  | .classB rs, e, he => by
      simp only [stripGo] at he
      split at he
      · cases he
      · split at he
        · cases he; rfl
        · cases he
  | .look _, e, he => by simp [stripGo] at he
  | .rep _ _ _ sub, e, he => by
      simp only [stripGo] at he
      split at he
      · cases he
      · rename_i e' hsub; cases he; exact stripGo_error_kind b sub _ hsub
  | .cap _ sub, e, he => by
      simp only [stripGo] at he
      split at he
      · cases he
      · rename_i e' hsub; cases he; exact stripGo_error_kind b sub _ hsub
  | .concat xs, e, he => by
      simp only [stripGo] at he
      split at he
      · cases he
      · rename_i e' hsub; cases he; exact stripList_error_kind b xs _ hsub
  | .alt xs, e, he => by
      simp only [stripGo] at he
      split at he
      · cases he
      · rename_i e' hsub; cases he; exact stripList_error_kind b xs _ hsub
theorem stripList_error_kind (b : Nat) : ∀ (xs : HirList) (e : StripErr), stripList xs b = .error e → e = .notAllowed b
  | .nil, e, he => by simp [stripList] at he
  | .cons h t, e, he => by
      simp only [stripList] at he
      split at he
      · rename_i e' hh; cases he; exact stripGo_error_kind b h _ hh
      · split at he
        · cases he
        · rename_i e' ht; cases he; exact stripList_error_kind b t _ ht
end

end RgVerif.Rx
