import RgVerif.Lemmas.HirLiteral
import RgVerif.Lemmas.HirStrip
/-
`lits_no_term`: no literal extracted from an expression that cannot consume the byte `b`
(`noByte b h`) contains `b` — so an occurrence of an extracted literal never crosses a line.
-/
namespace RgVerif.Rx
open RgVerif

def Seq.Free (b : Nat) (s : Seq) : Prop := ∀ L, s = some L → ∀ l ∈ L, b ∉ l.bytes
def TSeq.Free (b : Nat) (t : TSeq) : Prop := Seq.Free b t.seq

theorem Seq.free_none (b : Nat) : Seq.Free b none := by intro L h; cases h

theorem dedupGo_from (prev : Lit) (rest : List Lit) :
    ∀ l' ∈ dedupGo prev rest, ∃ l ∈ prev :: rest, l'.bytes = l.bytes := by
  induction rest generalizing prev with
  | nil => intro l' h; simp [dedupGo] at h; subst h; exact ⟨l', by simp, rfl⟩
  | cons x rest ih =>
    intro l' h
    simp only [dedupGo] at h
    split at h
    · obtain ⟨l, hl, hb⟩ := ih _ l' h
      rcases List.mem_cons.1 hl with rfl | hl
      · refine ⟨prev, by simp, ?_⟩
        rw [hb]; split <;> simp [Lit.inexact]
      · exact ⟨l, by simp [hl], hb⟩
    · rcases List.mem_cons.1 h with rfl | h
      · exact ⟨l', by simp, rfl⟩
      · obtain ⟨l, hl, hb⟩ := ih x l' h
        exact ⟨l, by simp [List.mem_cons.1 hl |>.elim (fun e => Or.inr (Or.inl e)) (fun e => Or.inr (Or.inr e))], hb⟩

theorem dedupLits_from (L : List Lit) : ∀ l' ∈ dedupLits L, ∃ l ∈ L, l'.bytes = l.bytes := by
  cases L with
  | nil => intro l' h; cases h
  | cons a rest => exact dedupGo_from a rest

theorem free_dedupLits {b : Nat} {L : List Lit} (h : ∀ l ∈ L, b ∉ l.bytes) : ∀ l ∈ dedupLits L, b ∉ l.bytes := by
  intro l' hl'
  obtain ⟨l, hl, hb⟩ := dedupLits_from L l' hl'
  rw [hb]; exact h l hl

theorem Seq.free_some {b : Nat} {L : List Lit} (h : ∀ l ∈ L, b ∉ l.bytes) : Seq.Free b (some L) := by
  intro L' hL'; cases hL'; exact h

theorem Seq.free_get {b : Nat} {L : List Lit} (h : Seq.Free b (some L)) : ∀ l ∈ L, b ∉ l.bytes := h L rfl

theorem Seq.free_makeInexact {b : Nat} {s : Seq} (h : Seq.Free b s) : Seq.Free b s.makeInexact := by
  cases s with
  | none => exact Seq.free_none b
  | some L =>
    apply Seq.free_some
    intro l hl
    obtain ⟨l0, hl0, rfl⟩ := List.mem_map.1 hl
    exact Seq.free_get h l0 hl0

theorem Seq.free_keepFirstBytes {b : Nat} {s : Seq} (n : Nat) (h : Seq.Free b s) : Seq.Free b (s.keepFirstBytes n) := by
  cases s with
  | none => exact Seq.free_none b
  | some L =>
    apply Seq.free_some
    intro l hl
    obtain ⟨l0, hl0, rfl⟩ := List.mem_map.1 hl
    have := Seq.free_get h l0 hl0
    unfold Lit.keepFirst
    split
    · exact this
    · exact fun hm => this (List.mem_of_mem_take hm)

theorem Seq.free_dedup {b : Nat} {s : Seq} (h : Seq.Free b s) : Seq.Free b s.dedup := by
  cases s with
  | none => exact Seq.free_none b
  | some L => exact Seq.free_some (free_dedupLits (Seq.free_get h))

theorem Seq.free_union {b : Nat} {s1 s2 : Seq} (h1 : Seq.Free b s1) (h2 : Seq.Free b s2) : Seq.Free b (s1.union s2) := by
  cases s2 with
  | none => exact Seq.free_none b
  | some L2 =>
    cases s1 with
    | none => exact Seq.free_none b
    | some L1 =>
      apply Seq.free_some
      apply free_dedupLits
      intro l hl
      rcases List.mem_append.1 hl with hl | hl
      · exact Seq.free_get h1 l hl
      · exact Seq.free_get h2 l hl

theorem Seq.free_crossForward {b : Nat} {s1 s2 : Seq} (h1 : Seq.Free b s1) (h2 : Seq.Free b s2) :
    Seq.Free b (s1.crossForward s2) := by
  cases s2 with
  | none =>
    simp only [Seq.crossForward]
    split
    · exact Seq.free_none b
    · exact Seq.free_makeInexact h1
  | some L2 =>
    cases s1 with
    | none => exact Seq.free_none b
    | some L1 =>
      apply Seq.free_some
      apply free_dedupLits
      intro l hl
      obtain ⟨a, ha, hla⟩ := List.mem_flatMap.1 hl
      split at hla
      · obtain ⟨c, hc, rfl⟩ := List.mem_map.1 hla
        simp only [List.mem_append, not_or]
        exact ⟨Seq.free_get h1 a ha, Seq.free_get h2 c hc⟩
      · simp only [List.mem_singleton] at hla
        subst hla
        exact Seq.free_get h1 _ ha

theorem TSeq.free_choose {b : Nat} {x y : TSeq} (hx : x.Free b) (hy : y.Free b) : (x.choose y).Free b := by
  rcases TSeq.choose_cases x y with h | h <;> rw [h]
  · exact Seq.free_makeInexact hx
  · exact Seq.free_makeInexact hy

theorem free_exCross {b : Nat} {t1 t2 : TSeq} (h1 : t1.Free b) (h2 : t2.Free b) : (exCross t1 t2).Free b := by
  unfold exCross
  split
  · exact TSeq.free_choose h1 h2
  · apply Seq.free_keepFirstBytes
    apply Seq.free_crossForward h1
    split
    · exact Seq.free_none b
    · exact h2

theorem free_exUnion {b : Nat} {t1 t2 : TSeq} (h1 : t1.Free b) (h2 : t2.Free b) : (exUnion t1 t2).Free b := by
  unfold exUnion
  split
  · apply Seq.free_union (Seq.free_dedup (Seq.free_keepFirstBytes _ h1))
    split
    · exact Seq.free_none b
    · exact Seq.free_dedup (Seq.free_keepFirstBytes _ h2)
  · exact Seq.free_union h1 h2

theorem free_singleton_empty (b : Nat) (p : Bool) : (TSeq.mk (Seq.singleton ⟨[], true⟩) p).Free b := by
  apply Seq.free_some
  intro l hl
  simp at hl
  subst hl
  simp

theorem free_crossLoop {b : Nat} {sub : TSeq} (hs : sub.Free b) : ∀ (k : Nat) (seq : TSeq), seq.Free b →
    (crossLoop sub k seq).Free b
  | 0, seq, h => h
  | k + 1, seq, h => by
      simp only [crossLoop]
      split
      · exact h
      · exact free_crossLoop hs k _ (free_exCross h hs)

theorem free_extractRepetition {b : Nat} {sub : TSeq} (hs : sub.Free b) (min : Nat) (max : Option Nat) (g : Bool) :
    (extractRepetition min max g sub).Free b := by
  unfold extractRepetition
  have he := free_singleton_empty b true
  have hi : (sub.makeInexact).Free b := Seq.free_makeInexact hs
  split
  · simp only
    have hx : (if (max != some 1) = true then sub.makeInexact else sub).Free b := by split <;> assumption
    split
    · exact free_exUnion hx he
    · exact free_exUnion he hx
  · split
    · split
      · simp only
        split
        · exact Seq.free_makeInexact (free_crossLoop hs _ _ he)
        · exact free_crossLoop hs _ _ he
      · split
        · exact Seq.free_makeInexact (free_crossLoop hs _ _ he)
        · exact hi
    · exact hi

theorem foldl_push_from (f : Nat → Lit) (xs : List Nat) (L0 : List Lit) :
    ∀ L, xs.foldl (fun s c => Seq.push s (f c)) (some L0) = some L → ∀ l ∈ L, l ∈ L0 ∨ ∃ c ∈ xs, l = f c := by
  induction xs generalizing L0 with
  | nil => intro L h l hl; simp at h; subst h; exact Or.inl hl
  | cons x xs ih =>
    intro L h l hl
    simp only [List.foldl_cons] at h
    have hstep : ∃ L1, Seq.push (some L0) (f x) = some L1 ∧ ∀ l ∈ L1, l ∈ L0 ∨ l = f x := by
      simp only [Seq.push, Option.map]
      split
      · exact ⟨L0, rfl, fun l h => Or.inl h⟩
      · refine ⟨L0 ++ [f x], rfl, ?_⟩
        intro l h
        rcases List.mem_append.1 h with h | h
        · exact Or.inl h
        · exact Or.inr (by simpa using h)
    obtain ⟨L1, h1, h2⟩ := hstep
    rw [h1] at h
    rcases ih L1 L h l hl with h3 | ⟨c, hc, rfl⟩
    · rcases h2 l h3 with h4 | rfl
      · exact Or.inl h4
      · exact Or.inr ⟨x, by simp, rfl⟩
    · exact Or.inr ⟨c, by simp [hc], rfl⟩

theorem mem_classElems_inCls {rs : Ranges} {c : Nat} (h : c ∈ classElems rs) : inCls rs c = true := by
  unfold classElems at h
  obtain ⟨r, hr, hc⟩ := List.mem_flatMap.1 h
  rw [List.mem_range'_1] at hc
  exact (inCls_iff rs c).2 ⟨r, hr, by omega, by omega⟩

theorem free_extractClassBytes {b : Nat} {rs : Ranges} (h : inCls rs b = false) : (extractClassBytes rs).Free b := by
  unfold extractClassBytes
  split
  · exact Seq.free_none b
  · apply Seq.free_keepFirstBytes
    intro L hL l hl
    simp only [Seq.empty] at hL
    rcases foldl_push_from (fun b => ⟨[b], true⟩) (classElems rs) [] L hL l hl with h0 | ⟨c, hc, rfl⟩
    · cases h0
    · simp only [List.mem_singleton]
      rintro rfl
      rw [mem_classElems_inCls hc] at h
      cases h

theorem free_extractClassUnicode {b : Nat} (hb : b < 128) {rs : Ranges} (h : inCls rs b = false) :
    (extractClassUnicode rs).Free b := by
  unfold extractClassUnicode
  split
  · exact Seq.free_none b
  · apply Seq.free_keepFirstBytes
    intro L hL l hl
    simp only [Seq.empty] at hL
    rcases foldl_push_from (fun c => ⟨utf8Enc c, true⟩) ((classElems rs).filter isScalar) [] L hL l hl with h0 | ⟨c, hc, rfl⟩
    · cases h0
    · intro hmem
      have := mem_utf8Enc_ascii hb hmem
      subst this
      rw [mem_classElems_inCls (List.mem_filter.1 hc).1] at h
      cases h

mutual
theorem extract_free {b : Nat} (hb : b < 128) : ∀ (h : Hir), noByte b h = true → (extract h).Free b
  | .empty, _ => free_singleton_empty b true
  | .look _, _ => free_singleton_empty b true
  | .lit bs, hn => by
      simp only [extract]
      show Seq.Free b (Seq.keepFirstBytes limitLiteralLen (Seq.singleton ⟨bs, true⟩))
      apply Seq.free_keepFirstBytes
      apply Seq.free_some
      intro l hl
      simp at hl
      subst hl
      simpa [noByte] using hn
  | .classU rs, hn => by
      simp only [extract]
      exact free_extractClassUnicode hb (by simpa [noByte] using hn)
  | .classB rs, hn => by
      simp only [extract]
      exact free_extractClassBytes (by simpa [noByte] using hn)
  | .rep min max g sub, hn => by
      simp only [extract]
      simp only [noByte] at hn
      exact free_extractRepetition (extract_free hb sub hn) min max g
  | .cap _ sub, hn => by
      simp only [extract]
      simp only [noByte] at hn
      exact extract_free hb sub hn
  | .concat xs, hn => by
      simp only [extract]
      simp only [noByte] at hn
      exact extractConcat_free hb xs hn _ none (free_singleton_empty b true) (by intro p hp; cases hp)
  | .alt xs, hn => by
      simp only [extract]
      simp only [noByte] at hn
      exact extractAlt_free hb xs hn _ (Seq.free_some (by intro l hl; cases hl))
theorem extractConcat_free {b : Nat} (hb : b < 128) : ∀ (xs : HirList), noByteL b xs = true →
    ∀ (seq : TSeq) (prev : Option TSeq), seq.Free b → (∀ p, prev = some p → p.Free b) →
    (extractConcat xs seq prev).Free b
  | .nil, _, seq, prev, hs, hp => by
      simp only [extractConcat]
      split
      · rename_i p
        exact TSeq.free_choose (hp p rfl) hs
      · exact hs
  | .cons h t, hn, seq, prev, hs, hp => by
      simp only [noByteL, Bool.and_eq_true] at hn
      simp only [extractConcat]
      split
      · split
        · exact hs
        · split
          · exact hs
          · apply extractConcat_free hb t hn.2
            · exact free_exCross (free_singleton_empty b false) (extract_free hb h hn.1)
            · intro p hp'
              cases hp'
              cases prev with
              | none => exact hs
              | some q => exact TSeq.free_choose (hp q rfl) hs
      · exact extractConcat_free hb t hn.2 _ prev (free_exCross hs (extract_free hb h hn.1)) hp
theorem extractAlt_free {b : Nat} (hb : b < 128) : ∀ (xs : HirList), noByteL b xs = true →
    ∀ (seq : TSeq), seq.Free b → (extractAlt xs seq).Free b
  | .nil, _, seq, hs => by simpa [extractAlt] using hs
  | .cons h t, hn, seq, hs => by
      simp only [noByteL, Bool.and_eq_true] at hn
      simp only [extractAlt]
      split
      · exact hs
      · exact extractAlt_free hb t hn.2 _ (free_exUnion hs (extract_free hb h hn.1))
end

end RgVerif.Rx
