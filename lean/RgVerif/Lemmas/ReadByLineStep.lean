import RgVerif.Lemmas.ReadByLineSlice
import RgVerif.Lemmas.LineBufferFill
namespace RgVerif.Searcher
open RgVerif RgVerif.Matcher RgVerif.Lines RgVerif.GrepSpec

/-- `Core::roll` when no context is configured: everything is consumed. -/
theorem roll_noCtx {cfg : Config} (h : NoCtx cfg) (buf : Bytes) (st : Core) :
    roll cfg buf st =
      ({ (countLines cfg buf st buf.length) with
          absoluteByteOffset := (countLines cfg buf st buf.length).absoluteByteOffset + buf.length,
          lastLineCounted := 0, lastLineVisited := 0, pos := 0 }, buf.length) := by
  unfold roll
  simp [Config.maxContext, h.hA, h.hB]

theorem goodLines_append_allTerm {t : Nat} {a b : List Bytes} (ha : AllTerm t a) (hb : GoodLines t b) :
    GoodLines t (a ++ b) := by
  induction a with
  | nil => simpa using hb
  | cons x xs ih =>
    exact .cons _ _ (ha x (by simp)) (ih (fun y hy => ha y (by simp [hy])))

theorem goodLines_flatten_ne_nil {t : Nat} {ls : List Bytes} (hg : GoodLines t ls) (hne : ls ≠ []) :
    ls.flatten ≠ [] := by
  cases hg with
  | nil => exact absurd rfl hne
  | last l hu => simpa using hu.1
  | cons l ls' ht _ =>
    have := ht.ne_nil
    simp [this]

/-- a good list of lines whose bytes end with the terminator has only terminated lines -/
theorem goodLines_allTerm_of_last {t : Nat} {ls : List Bytes} (hg : GoodLines t ls)
    (hl : ls.flatten.getLast? = some t) : AllTerm t ls := by
  induction hg with
  | nil => intro l hl'; simp at hl'
  | last l hu =>
    exfalso
    simp only [List.flatten_cons, List.flatten_nil, List.append_nil] at hl
    have : t ∈ l := List.mem_of_getLast? hl
    exact hu.2 this
  | cons l ls' ht hg' ih =>
    intro x hx
    simp only [List.mem_cons] at hx
    cases hx with
    | inl e => rw [e]; exact ht
    | inr e =>
      by_cases hne : ls' = []
      · rw [hne] at e; simp at e
      · have hfn := goodLines_flatten_ne_nil hg' hne
        have : ls'.flatten.getLast? = some t := by
          simp only [List.flatten_cons] at hl
          rw [List.getLast?_append] at hl
          cases hb : ls'.flatten.getLast? with
          | none => rw [List.getLast?_eq_none_iff] at hb; exact absurd hb hfn
          | some y => rw [hb] at hl; simpa using hl
        exact ih this x e

theorem take_add_window (inp : Bytes) (d n : Nat) :
    inp.take (d + n) = inp.take d ++ LineBuffer.window inp d n := by
  unfold LineBuffer.window
  rw [List.take_add]

open RgVerif.LineBuffer in
/-- What `rdr.consume(buffer.len()); rdr.fill()` gives with detection off and eager allocation:
the next window of the input, at a line boundary unless it is the end of the input. -/
theorem lb_step {lbcfg : LineBuffer.Config} {inp : Bytes} {lb : LB} {rdr : Reader} {a mm rest : Bytes}
    (hI : LineBuffer.Inv lbcfg inp lb rdr a mm rest) (hb : lbcfg.binary = .none) (hal : lbcfg.alloc = .eager)
    (hz : NoZero rdr.script) :
    ∃ lb1, lb.consume lb.buffer.length = some lb1 ∧
      ∃ more a' m' rest', (lb1.fill rdr).2.2 = .ok more ∧ more = (!(lb1.fill rdr).1.buffer.isEmpty) ∧
        LineBuffer.Inv lbcfg inp (lb1.fill rdr).1 (lb1.fill rdr).2.1 a' m' rest' ∧
        (lb1.fill rdr).1.abs = lb.abs + lb.buffer.length ∧
        (lb1.fill rdr).1.binOff = none ∧ NoZero (lb1.fill rdr).2.1.script ∧
        (lb1.fill rdr).1.buffer = window inp (lb1.fill rdr).1.abs (lb1.fill rdr).1.buffer.length ∧
        (lb1.fill rdr).1.abs + (lb1.fill rdr).1.buffer.length ≤ inp.length ∧
        ((lb1.fill rdr).1.buffer.getLast? = some lbcfg.lineterm ∨
          (lb1.fill rdr).1.abs + (lb1.fill rdr).1.buffer.length = inp.length) := by
  have hc : lb.buffer.length ≤ lb.buffer.length := Nat.le_refl _
  have hcons : lb.consume lb.buffer.length
      = some { lb with pos := lb.pos + lb.buffer.length, abs := lb.abs + lb.buffer.length } := by
    unfold LB.consume; simp
  refine ⟨_, hcons, ?_⟩
  generalize hlb1 : ({ lb with pos := lb.pos + lb.buffer.length, abs := lb.abs + lb.buffer.length } : LB) = lb1
  rw [hlb1] at hcons
  have hI1 := hI.consume _ lb1 hcons
  obtain ⟨m', rest', hI2, habs, hpost, hpos⟩ := fill_spec lbcfg inp lb1 rdr _ _ _ hI1
  have hcfg2 : (lb1.fill rdr).1.cfg = lbcfg := hI2.hcfg
  have hns1 : ¬ lb1.stopped := by
    unfold LB.stopped
    rw [hI1.hcfg, hb]
    simp [BinDet.isQuit]
  have hns2 : ¬ (lb1.fill rdr).1.stopped := by
    unfold LB.stopped
    rw [hcfg2, hb]
    simp [BinDet.isQuit]
  have hpos0 := hpos hns1
  have habs1 : lb1.abs = lb.abs + lb.buffer.length := by rw [← hlb1]
  -- the result is Ok
  cases hres : (lb1.fill rdr).2.2 with
  | allocErr =>
    rw [hres] at hpost
    have : (lb1.fill rdr).1.cfg.alloc ≠ .eager := hpost
    rw [hcfg2] at this
    exact absurd hal this
  | fuel => rw [hres] at hpost; exact absurd hpost (by simp [FillPost])
  | ok more =>
    rw [hres] at hpost
    obtain ⟨p1, p2, p3⟩ := hpost
    have hbin : (lb1.fill rdr).1.binOff = none := by
      have := hI2.hbin
      unfold BinOK at this
      rw [hcfg2, hb] at this
      exact this
    have hwin := hI2.window
    have hview : view lbcfg inp = inp := by simp [view, hb]
    rw [hview] at hwin
    have hblen := hI2.buffer_len
    have hmlen := hI2.mlen
    have hsplit := hI2.split
    have hle : (lb1.fill rdr).1.abs + (lb1.fill rdr).1.buffer.length ≤ inp.length := by
      have h1 := hI2.habs
      have h2 := hI2.hlast
      have hlen : inp.length = (a ++ List.take lb.buffer.length mm).length + (m'.length + rest'.length) := by
        have := congrArg List.length hsplit
        simp only [List.length_append] at this ⊢
        omega
      simp only [List.length_append] at hlen h1
      omega
    refine ⟨more, _, m', rest', rfl, p1, hI2, by rw [habs, habs1], hbin, fill_noZero lb1 rdr hz, hwin, hle, ?_⟩
    cases p2 with
    | inr pB =>
      left
      -- buffer() = buf.take last (pos = 0), whose last byte is the terminator
      have hbuf : (lb1.fill rdr).1.buffer = (lb1.fill rdr).1.buf.take (lb1.fill rdr).1.last := by
        unfold LB.buffer; rw [hpos0]; simp
      rw [hbuf, List.getLast?_take]
      have hl := hI2.hlast
      simp only [show ¬ ((lb1.fill rdr).1.last = 0) by omega, if_false]
      rw [pB.2]
      simp
    | inl pA =>
      right
      have hdata : (lb1.fill rdr).2.1.data = [] := by
        cases pA.2 with
        | inl hs => exact absurd hs hns2
        | inr hd => exact hd hz
      have hrest : rest' = [] := by
        cases hI2.hrdr with
        | inl hs => exact absurd hs hns2
        | inr hr => rw [← hr]; exact hdata
      have h1 := hI2.habs
      have hlen : inp.length = (a ++ List.take lb.buffer.length mm).length + m'.length := by
        have := congrArg List.length hsplit
        rw [hrest] at this
        simp only [List.length_append, List.length_nil] at this ⊢
        omega
      have e1 := pA.1
      simp only [List.length_append] at hlen h1
      omega

end RgVerif.Searcher
