import RgVerif.Lemmas.PrinterStd
/-
Helper lemmas for C09: the slow multi-line path of the Standard printer (`sink_slow_multi_line` with
`write_colored_matches` and no colour) prints every line of the block exactly once — the pieces the loop writes
concatenate to the line without its terminator, then the configured terminator follows.
-/
namespace RgVerif.Lemmas.PrinterMulti
open RgVerif RgVerif.Matcher RgVerif.Replace RgVerif.Printer RgVerif.PrinterSpec
open RgVerif.Lemmas.PrinterRecord RgVerif.Lemmas.PrinterStd

/-! ### slices -/

theorem slice_eq (b : Bytes) (s e : Nat) : slice b s e = (b.drop s).take (e - s) := by
  unfold slice
  rw [List.drop_take]

theorem slice_self (b : Bytes) (s : Nat) : slice b s s = [] := by
  rw [slice_eq]; simp

theorem slice_append (b : Bytes) (a m c : Nat) (h1 : a ≤ m) (h2 : m ≤ c) :
    slice b a m ++ slice b m c = slice b a c := by
  rw [slice_eq, slice_eq, slice_eq]
  have hc : c - a = (m - a) + (c - m) := by omega
  rw [hc, List.take_add]
  congr 2
  rw [List.drop_drop]
  congr 1
  omega

/-- slices of `pre ++ line ++ post` that lie inside `line` -/
theorem slice_mid (pre line post : Bytes) (i j : Nat) (hj : j ≤ line.length) :
    slice (pre ++ line ++ post) (pre.length + i) (pre.length + j) = slice line i j := by
  rw [slice_eq, slice_eq]
  rw [List.append_assoc, List.drop_append]
  have h0 : pre.length + i - pre.length = i := by omega
  have hd : List.drop (pre.length + i) pre = [] := by
    apply List.drop_eq_nil_of_le; omega
  have hj' : pre.length + j - (pre.length + i) = j - i := by omega
  simp only [hd, h0, List.nil_append, hj']
  rw [List.drop_append]
  have : j - i ≤ (List.drop i line).length := by simp; omega
  rw [List.take_append_of_le_length this]

/-! ### the piece loop of `write_colored_matches` -/

theorem coloredGo_spec (bytes : Bytes) (ms : List Span) :
    ∀ (fuel ls le midx : Nat) (acc : Bytes), ls ≤ le → midx < ms.length → (le - ls) + (ms.length - midx) < fuel →
      (coloredGo bytes ms fuel ls le midx acc).1 = acc ++ slice bytes ls le ∧
      (coloredGo bytes ms fuel ls le midx acc).2 < ms.length := by
  intro fuel
  induction fuel with
  | zero => intro ls le midx acc _ _ h; omega
  | succ fuel ih =>
    intro ls le midx acc hle hmid hf
    rw [coloredGo]
    by_cases heq : (ls == le) = true
    · have : ls = le := by simpa using heq
      subst this
      simp [slice_self, hmid]
    · have hne : ls ≠ le := by simpa using heq
      have hlt : ls < le := by omega
      simp only [heq, Bool.false_eq_true, ↓reduceIte]
      have hget : ms[midx]? = some ms[midx] := by simp [hmid]
      rw [hget]
      simp only
      by_cases h1 : ms[midx].e ≤ ls
      · simp only [h1, ↓reduceIte]
        by_cases h2 : midx + 1 < ms.length
        · simp only [h2, ↓reduceIte]
          exact ih ls le (midx + 1) acc hle h2 (by omega)
        · simp only [h2, ↓reduceIte]
          exact ⟨trivial, hmid⟩
      · simp only [h1, ↓reduceIte]
        by_cases h3 : ls < ms[midx].s
        · simp only [h3, ↓reduceIte]
          have hup1 : ls ≤ min le ms[midx].s := by omega
          have hup2 : min le ms[midx].s ≤ le := by omega
          have := ih (min le ms[midx].s) le midx (acc ++ slice bytes ls (min le ms[midx].s)) hup2 hmid (by omega)
          refine ⟨?_, this.2⟩
          rw [this.1, List.append_assoc, slice_append bytes ls _ le hup1 hup2]
        · simp only [h3, ↓reduceIte]
          have hup1 : ls ≤ min le ms[midx].e := by omega
          have hup2 : min le ms[midx].e ≤ le := by omega
          have := ih (min le ms[midx].e) le midx (acc ++ slice bytes ls (min le ms[midx].e)) hup2 hmid (by omega)
          refine ⟨?_, this.2⟩
          rw [this.1, List.append_assoc, slice_append bytes ls _ le hup1 hup2]

theorem trim_le (lt : LineTerm) (buf : Bytes) (s e : Nat) : trimLineTerminator lt buf s e ≤ e := by
  unfold trimLineTerminator
  split
  · simp only; split <;> omega
  · exact Nat.le_refl _

/-- `write_colored_matches` without colour writes the line without its terminator, whatever the matches. -/
theorem writeColoredMatches_spec (lt : LineTerm) (bytes : Bytes) (ls le : Nat) (ms : List Span) (midx : Nat)
    (hne : ms ≠ []) (hmid : midx < ms.length) (hle : ls ≤ trimLineTerminator lt bytes ls le) :
    (writeColoredMatches lt bytes ls le ms midx).1 = slice bytes ls (trimLineTerminator lt bytes ls le) ∧
    (writeColoredMatches lt bytes ls le ms midx).2 < ms.length := by
  unfold writeColoredMatches
  have : ms.isEmpty = false := by cases hs : ms with | nil => exact absurd hs hne | cons _ _ => rfl
  simp only [this, Bool.false_eq_true, ↓reduceIte]
  have := coloredGo_spec bytes ms ((trimLineTerminator lt bytes ls le - ls) + ms.length + 1) ls
    (trimLineTerminator lt bytes ls le) midx [] hle hmid (by omega)
  simpa using this

/-! ### trimming a line that sits inside a block -/

theorem getLast?_mid (pre line post : Bytes) (_hl : line ≠ []) :
    ((List.take (pre.length + line.length) (pre ++ line ++ post)).drop pre.length).getLast? = line.getLast? := by
  have : List.take (pre.length + line.length) (pre ++ line ++ post) = pre ++ line := by
    rw [← List.length_append, List.take_left']
    rfl
  rw [this]
  simp

/-- Trimming the terminator of a line inside a block, then adding the configured terminator, gives the line with
a missing terminator completed — unless `--crlf` meets a bare `\n`. -/
theorem trim_then_term (lt : LineTerm) (pre line post : Bytes) (hl : line ≠ []) (hok : crlfLineOk lt line = true) :
    pre.length ≤ trimLineTerminator lt (pre ++ line ++ post) pre.length (pre.length + line.length) ∧
    slice (pre ++ line ++ post) pre.length
        (trimLineTerminator lt (pre ++ line ++ post) pre.length (pre.length + line.length)) ++ lt.bytes
      = completed lt line := by
  have hpos : 0 < line.length := List.length_pos_iff.mpr hl
  have hsl : ∀ j, j ≤ line.length →
      slice (pre ++ line ++ post) pre.length (pre.length + j) = line.take j := by
    intro j hj
    have := slice_mid pre line post 0 j hj
    simp only [Nat.add_zero] at this
    rw [this, slice_eq]
    simp
  unfold trimLineTerminator
  rw [show ((List.take (pre.length + line.length) (pre ++ line ++ post)).drop pre.length) =
    ((List.take (pre.length + line.length) (pre ++ line ++ post)).drop pre.length) from rfl]
  unfold LineTerm.isSuffix
  rw [getLast?_mid pre line post hl]
  unfold completed
  by_cases hlast : line.getLast? = some lt.asByte
  · -- the line is terminated
    simp only [hlast, beq_self_eq_true, ↓reduceIte]
    obtain ⟨body, hbody⟩ : ∃ body, line = body ++ [lt.asByte] := by
      have := List.getLast?_eq_some_iff.mp hlast
      obtain ⟨ys, hys⟩ := this
      exact ⟨ys, hys⟩
    cases lt with
    | byte b =>
      simp only [LineTerm.asByte] at hbody
      have hfalse : (LineTerm.byte b == LineTerm.crlf) = false := rfl
      simp only [hfalse, Bool.false_and, Bool.false_eq_true, ↓reduceIte, LineTerm.bytes]
      have hlen : pre.length + line.length - 1 = pre.length + body.length := by
        rw [hbody]; simp
      rw [hlen, hsl body.length (by rw [hbody]; simp)]
      refine ⟨by omega, ?_⟩
      rw [hbody]; simp
    | crlf =>
      simp only [LineTerm.asByte] at hbody
      -- the guard gives the CR in front of the LF
      have hcr : ∃ body', body = body' ++ [13] := by
        unfold crlfLineOk at hok
        rw [hbody] at hok
        simp only [List.reverse_append, List.reverse_cons, List.reverse_nil, List.nil_append, List.singleton_append]
          at hok
        cases hb : body.reverse with
        | nil => simp [hb] at hok
        | cons x xs =>
          simp only [hb] at hok
          have hx : x = 13 := by
            by_cases hx : x = 13
            · exact hx
            · split at hok <;> simp_all
          refine ⟨xs.reverse, ?_⟩
          have := congrArg List.reverse hb
          simp only [List.reverse_reverse, List.reverse_cons] at this
          rw [this, hx]
      obtain ⟨body', hbody'⟩ := hcr
      have hline : line = body' ++ [13, 10] := by rw [hbody, hbody']; simp
      have hlen1 : pre.length + line.length - 1 = pre.length + body'.length + 1 := by
        rw [hline]; simp; omega
      have hget : (pre ++ line ++ post)[pre.length + body'.length + 1 - 1]? = some 13 := by
        rw [hline]
        have : pre.length + body'.length + 1 - 1 = pre.length + body'.length := by omega
        rw [this]
        simp [List.getElem?_append_left]
      have htrue : (LineTerm.crlf == LineTerm.crlf) = true := rfl
      simp only [hlen1, htrue, Bool.true_and, hget, beq_self_eq_true, Bool.and_true, LineTerm.bytes]
      have hgt : decide (pre.length + body'.length + 1 > 0) = true := by simp
      simp only [hgt, ↓reduceIte]
      have hlen2 : pre.length + body'.length + 1 - 1 = pre.length + body'.length := by omega
      rw [hlen2, hsl body'.length (by rw [hline]; simp)]
      refine ⟨by omega, ?_⟩
      rw [hline]; simp
  · -- no terminator: nothing is trimmed, one is added
    have : (line.getLast? == some lt.asByte) = false := by simpa using hlast
    simp only [this, Bool.false_eq_true, ↓reduceIte, hlast]
    rw [hsl line.length (Nat.le_refl _)]
    refine ⟨by omega, ?_⟩
    simp

/-! ### lines of a block -/

theorem splitLines_flatten (t : Nat) (b : Bytes) : (splitLines t b).flatten = b := by
  induction b with
  | nil => simp [splitLines]
  | cons x rest ih =>
    unfold splitLines
    by_cases hx : (x == t) = true
    · simp [hx, ih]
    · simp only [hx, Bool.false_eq_true, ↓reduceIte]
      cases hs : splitLines t rest with
      | nil => rw [hs] at ih; simp at ih; simp [ih]
      | cons l ls => rw [hs] at ih; simp at ih ⊢; rw [ih]

theorem splitLines_ne_nil (t : Nat) (b : Bytes) : ∀ l ∈ splitLines t b, l ≠ [] := by
  induction b with
  | nil => simp [splitLines]
  | cons x rest ih =>
    unfold splitLines
    by_cases hx : (x == t) = true
    · simp only [hx, ↓reduceIte, List.mem_cons]
      intro l hl
      rcases hl with hl | hl
      · subst hl; simp
      · exact ih l hl
    · simp only [hx, Bool.false_eq_true, ↓reduceIte]
      cases hs : splitLines t rest with
      | nil => simp
      | cons l ls =>
        rw [hs] at ih
        simp only [List.mem_cons]
        intro l' hl'
        rcases hl' with hl' | hl'
        · subst hl'; simp
        · exact ih l' (by simp [hl'])

theorem prelude_text_eq (c : StdCfg) (isCtx : Bool) (off : Nat) (ln col : Option Nat) (text : Bytes) :
    writePrelude c isCtx off ln col ++ text =
      printRecord c { path := recPath c, lineNo := ln, col := if c.column then col else none
                    , off := optIf c.byteOffset off, isCtx, text := text } := by
  rw [writePrelude_eq]
  simp [printRecord]

/-- The slow multi-line loop over the lines of a block prints one record per line: the line itself (missing
terminator completed), its own line number and offset, and the column of the block's first match. -/
theorem sinkSlowMultiLineGo_eq (sc : SCfg) (c : StdCfg) (s : Sunk) (hne : s.ms ≠ []) :
    ∀ (lines : List Bytes) (pre post : Bytes) (count midx : Nat),
      s.bytes = pre ++ lines.flatten ++ post → (∀ l ∈ lines, l ≠ [] ∧ crlfLineOk sc.lt l = true) →
      midx < s.ms.length →
      sinkSlowMultiLineGo sc c s count midx (spansFrom pre.length lines) =
        (blockRecords sc.lt c s.absOff s.lineNo (optIf c.column ((s.ms.headD ⟨0, 0⟩).s + 1)) count pre.length
          lines).flatMap (printRecord c) := by
  intro lines
  induction lines with
  | nil => intro pre post count midx _ _ _; simp [spansFrom, sinkSlowMultiLineGo, blockRecords]
  | cons line rest ih =>
    intro pre post count midx hb hall hmid
    have hline := hall line (by simp)
    have hbytes : s.bytes = pre ++ line ++ (rest.flatten ++ post) := by
      rw [hb]; simp
    obtain ⟨htle, htrim⟩ := trim_then_term sc.lt pre line (rest.flatten ++ post) hline.1 hline.2
    rw [← hbytes] at htle htrim
    obtain ⟨hw, hmid'⟩ := writeColoredMatches_spec sc.lt s.bytes pre.length (pre.length + line.length) s.ms midx hne
      hmid htle
    simp only [spansFrom, sinkSlowMultiLineGo, blockRecords, List.flatMap_cons]
    rw [show writeColoredMatches sc.lt s.bytes pre.length (pre.length + line.length) s.ms midx =
      ((writeColoredMatches sc.lt s.bytes pre.length (pre.length + line.length) s.ms midx).1,
       (writeColoredMatches sc.lt s.bytes pre.length (pre.length + line.length) s.ms midx).2) from rfl]
    simp only
    rw [hw]
    have hrec := ih (pre ++ line) post (count + 1)
      (writeColoredMatches sc.lt s.bytes pre.length (pre.length + line.length) s.ms midx).2
      (by rw [hb]; simp) (fun l hl => hall l (List.mem_cons_of_mem _ hl)) hmid'
    simp only [List.length_append] at hrec
    rw [hrec]
    have : writePrelude c false (s.absOff + pre.length) (Option.map (fun x => x + count) s.lineNo)
          (some ((s.ms.headD ⟨0, 0⟩).s + 1)) ++
        slice s.bytes pre.length (trimLineTerminator sc.lt s.bytes pre.length (pre.length + line.length)) ++
        sc.lt.bytes =
        printRecord c { path := recPath c, lineNo := Option.map (fun x => x + count) s.lineNo
                      , col := optIf c.column ((s.ms.headD ⟨0, 0⟩).s + 1)
                      , off := optIf c.byteOffset (s.absOff + pre.length), isCtx := false
                      , text := completed sc.lt line } := by
      rw [List.append_assoc, htrim, prelude_text_eq]
      simp [optIf]
    rw [← this]

/-- `sink_slow_multi_line` without `--only-matching` / `--vimgrep`. -/
theorem sinkSlowMultiLine_eq (sc : SCfg) (c : StdCfg) (s : Sunk) (hne : s.ms ≠ [])
    (ho : c.onlyMatching = false) (hp : c.perMatch = false)
    (hok : (splitLines sc.lt.asByte s.bytes).all (crlfLineOk sc.lt) = true) :
    sinkSlowMultiLine sc c s =
      (blockRecords sc.lt c s.absOff s.lineNo (optIf c.column ((s.ms.headD ⟨0, 0⟩).s + 1)) 0 0
        (splitLines sc.lt.asByte s.bytes)).flatMap (printRecord c) := by
  unfold sinkSlowMultiLine lineSpans
  simp only [ho, hp, Bool.false_eq_true, ↓reduceIte]
  have hpos : 0 < s.ms.length := List.length_pos_iff.mpr hne
  have := sinkSlowMultiLineGo_eq sc c s hne (splitLines sc.lt.asByte s.bytes) [] [] 0 0
    (by simp [splitLines_flatten])
    (fun l hl => ⟨splitLines_ne_nil _ _ l hl, List.all_eq_true.mp hok l hl⟩) hpos
  simpa using this

/-! ### `--vimgrep` on a multi-line block -/

theorem perMatchPiecesGo_spec (bytes : Bytes) (m : Span) :
    ∀ (fuel ls le : Nat) (acc : Bytes), ls ≤ le → le - ls < fuel →
      perMatchPiecesGo bytes m fuel ls le acc = acc ++ slice bytes ls le := by
  intro fuel
  induction fuel with
  | zero => intro ls le acc _ h; omega
  | succ fuel ih =>
    intro ls le acc hle hf
    rw [perMatchPiecesGo]
    by_cases heq : (ls == le) = true
    · have : ls = le := by simpa using heq
      subst this
      simp [slice_self]
    · have hne : ls ≠ le := by simpa using heq
      simp only [heq, Bool.false_eq_true, ↓reduceIte]
      by_cases h1 : m.e ≤ ls
      · simp [h1]
      · simp only [h1, ↓reduceIte]
        by_cases h3 : ls < m.s
        · simp only [h3, ↓reduceIte]
          have hup1 : ls ≤ min le m.s := by omega
          have hup2 : min le m.s ≤ le := by omega
          rw [ih _ _ _ hup2 (by omega), List.append_assoc, slice_append bytes ls _ le hup1 hup2]
        · simp only [h3, ↓reduceIte]
          have hup1 : ls ≤ min le m.e := by omega
          have hup2 : min le m.e ≤ le := by omega
          rw [ih _ _ _ hup2 (by omega), List.append_assoc, slice_append bytes ls _ le hup1 hup2]

/-- The per-match loop over the lines of a block prints, for the match `m`, one record per line that overlaps it
(only the first under `per_match_one_line`). -/
theorem perMatchLinesGo_eq (sc : SCfg) (c : StdCfg) (s : Sunk) (m : Span) :
    ∀ (lines : List Bytes) (pre post : Bytes) (count : Nat),
      s.bytes = pre ++ lines.flatten ++ post → (∀ l ∈ lines, l ≠ [] ∧ crlfLineOk sc.lt l = true) →
      perMatchLinesGo sc c s m count (spansFrom pre.length lines) =
        (perMatchBlockRecords sc.lt c s.absOff s.lineNo m count pre.length lines).flatMap (printRecord c) := by
  intro lines
  induction lines with
  | nil => intro pre post count _ _; simp [spansFrom, perMatchLinesGo, perMatchBlockRecords]
  | cons line rest ih =>
    intro pre post count hb hall
    have hline := hall line (by simp)
    have hbytes : s.bytes = pre ++ line ++ (rest.flatten ++ post) := by rw [hb]; simp
    obtain ⟨htle, htrim⟩ := trim_then_term sc.lt pre line (rest.flatten ++ post) hline.1 hline.2
    rw [← hbytes] at htle htrim
    have hrec := ih (pre ++ line) post (count + 1) (by rw [hb]; simp)
      (fun l hl => hall l (List.mem_cons_of_mem _ hl))
    simp only [List.length_append] at hrec
    simp only [spansFrom, perMatchLinesGo, perMatchBlockRecords]
    by_cases h1 : pre.length ≥ m.e
    · simp [h1]
    · simp only [h1, ↓reduceIte]
      by_cases h2 : pre.length + line.length ≤ m.s
      · simp only [h2, ↓reduceIte]
        exact hrec
      · simp only [h2, ↓reduceIte, List.flatMap_cons]
        rw [perMatchPiecesGo_spec s.bytes m _ _ _ [] htle (by omega)]
        have : writePrelude c false (s.absOff + pre.length) (Option.map (fun x => x + count) s.lineNo)
              (some (m.s - pre.length + 1)) ++
            ([] ++ slice s.bytes pre.length (trimLineTerminator sc.lt s.bytes pre.length (pre.length + line.length))) ++
            sc.lt.bytes =
            printRecord c { path := recPath c, lineNo := Option.map (fun x => x + count) s.lineNo
                          , col := optIf c.column (m.s - pre.length + 1)
                          , off := optIf c.byteOffset (s.absOff + pre.length), isCtx := false
                          , text := completed sc.lt line } := by
          rw [List.nil_append, List.append_assoc, htrim, prelude_text_eq]
          simp [optIf]
        rw [this]
        by_cases h3 : c.perMatchOneLine = true
        · simp [h3]
        · simp only [h3, Bool.false_eq_true, ↓reduceIte]
          rw [hrec]

/-- `sink_slow_multi_per_match` -/
theorem sinkSlowMultiLine_perMatch_eq (sc : SCfg) (c : StdCfg) (s : Sunk)
    (ho : c.onlyMatching = false) (hp : c.perMatch = true)
    (hok : (splitLines sc.lt.asByte s.bytes).all (crlfLineOk sc.lt) = true) :
    sinkSlowMultiLine sc c s =
      (s.ms.flatMap fun m => perMatchBlockRecords sc.lt c s.absOff s.lineNo m 0 0
        (splitLines sc.lt.asByte s.bytes)).flatMap (printRecord c) := by
  unfold sinkSlowMultiLine lineSpans
  simp only [ho, hp, Bool.false_eq_true, ↓reduceIte, List.flatMap_assoc]
  congr 1
  funext m
  have := perMatchLinesGo_eq sc c s m (splitLines sc.lt.asByte s.bytes) [] [] 0
    (by simp [splitLines_flatten])
    (fun l hl => ⟨splitLines_ne_nil _ _ l hl, List.all_eq_true.mp hok l hl⟩)
  simpa using this

/-! ### one event / a whole stream, including the slow multi-line path -/

/-- Paths of the Standard printer covered by `C09_standard`: every one (no `--only-matching`); on the slow
multi-line path no line of the block may be a bare-LF line under `--crlf` (finding F19). -/
def coveredPath (sc : SCfg) (c : StdCfg) (find : Oracle) (ev : Event) : Bool :=
  match ev with
  | .matched buf rs re _ _ =>
    if sc.multiLine && !(eventSpans sc c find ev).isEmpty then
      (splitLines sc.lt.asByte (slice buf rs re)).all (crlfLineOk sc.lt)
    else true
  | _ => true

theorem stdEvent_out_covered (sc : SCfg) (c : StdCfg) (find : Oracle) (st : StdState) (ev : Event)
    (ho : c.onlyMatching = false) (hc : coveredPath sc c find ev = true) :
    (stdEvent sc c find st ev).1.out = st.out ++ eventOutput sc c find st.count st.total ev := by
  by_cases hf : fastPath sc c find ev = true
  · exact stdEvent_out sc c find st ev ho hf
  · cases ev with
    | contextBreak => simp [fastPath] at hf
    | context k b off ln => simp [fastPath] at hf
    | matched buf rs re off ln =>
      simp only [fastPath, Bool.not_eq_true', Bool.not_eq_false, Bool.and_eq_true, Bool.not_eq_true'] at hf
      obtain ⟨hml, hne⟩ := hf
      simp only [coveredPath, hml, hne, Bool.not_false, Bool.and_self, ↓reduceIte] at hc
      have hok := hc
      have hnil : eventSpans sc c find (.matched buf rs re off ln) ≠ [] := by
        intro h; rw [h] at hne; simp at hne
      simp only [stdEvent, stdMatched, StdState.write_out, eventOutput, sink, List.append_cancel_left_eq]
      rw [recordMatchesStd_matched sc c find buf rs re off ln]
      unfold eventRecords sinkBody
      simp only [hne, Bool.false_eq_true, ↓reduceIte, hml, Option.isSome_none, Bool.not_false, Bool.and_self]
      cases hpm : c.perMatch with
      | false =>
        rw [sinkSlowMultiLine_eq sc c _ hnil ho hpm hok]
        cases hms : eventSpans sc c find (.matched buf rs re off ln) with
        | nil => exact absurd hms hnil
        | cons m0 rest => simp
      | true =>
        rw [sinkSlowMultiLine_perMatch_eq sc c _ ho hpm hok]
        cases hms : eventSpans sc c find (.matched buf rs re off ln) with
        | nil => exact absurd hms hnil
        | cons m0 rest => simp

theorem stdEvents_out_covered (sc : SCfg) (c : StdCfg) (find : Oracle) (ho : c.onlyMatching = false) :
    ∀ (evs : List Event) (st : StdState), (∀ ev ∈ evs, coveredPath sc c find ev = true) →
      (stdEvents sc c find st evs).out =
        st.out ++ (processed sc c find st evs).flatMap
          (fun p => eventOutput sc c find p.1.count p.1.total p.2) := by
  intro evs
  induction evs with
  | nil => intro st _; simp [stdEvents, processed]
  | cons ev rest ih =>
    intro st hall
    rw [stdEvents_cons]
    unfold processed
    have hev := stdEvent_out_covered sc c find st ev ho (hall ev (by simp))
    by_cases hc : (stdEvent sc c find st ev).2 = true
    · simp only [hc, ↓reduceIte, List.flatMap_cons]
      rw [ih _ (fun e he => hall e (List.mem_cons_of_mem _ he)), hev]
      simp
    · simp only [hc, Bool.false_eq_true, ↓reduceIte, List.flatMap_cons, List.flatMap_nil, List.append_nil]
      exact hev

end RgVerif.Lemmas.PrinterMulti
