import RgVerif.Lemmas.PrinterStd
/-
Helper lemmas for C09: the slow multi-line path of the Standard printer (`sink_slow_multi_line` with
`write_colored_matches` and no colour) prints every line of the block exactly once — the pieces the loop writes
concatenate to the line without its terminator, then the configured terminator follows.
-/
namespace RgVerif.Lemmas.PrinterMulti
open RgVerif RgVerif.Matcher RgVerif.Replace RgVerif.Printer RgVerif.PrinterSpec
open RgVerif.Lemmas.PrinterRecord RgVerif.Lemmas.PrinterStd

/-! ### slices -/

theorem slice_eq (b : Bytes) (s e : Nat) : slice b s e = (b.drop s).take (e - s) := by
  unfold slice
  rw [List.drop_take]

theorem slice_self (b : Bytes) (s : Nat) : slice b s s = [] := by
  rw [slice_eq]; simp

theorem slice_append (b : Bytes) (a m c : Nat) (h1 : a ≤ m) (h2 : m ≤ c) :
    slice b a m ++ slice b m c = slice b a c := by
  rw [slice_eq, slice_eq, slice_eq]
  have hc : c - a = (m - a) + (c - m) := by omega
  rw [hc, List.take_add]
  congr 2
  rw [List.drop_drop]
  congr 1
  omega

/-- slices of `pre ++ line ++ post` that lie inside `line` -/
theorem slice_mid (pre line post : Bytes) (i j : Nat) (hj : j ≤ line.length) :
    slice (pre ++ line ++ post) (pre.length + i) (pre.length + j) = slice line i j := by
  rw [slice_eq, slice_eq]
  rw [List.append_assoc, List.drop_append]
  have h0 : pre.length + i - pre.length = i := by omega
  have hd : List.drop (pre.length + i) pre = [] := by
    apply List.drop_eq_nil_of_le; omega
  have hj' : pre.length + j - (pre.length + i) = j - i := by omega
  simp only [hd, h0, List.nil_append, hj']
  rw [List.drop_append]
  have : j - i ≤ (List.drop i line).length := by simp; omega
  rw [List.take_append_of_le_length this]

/-! ### the piece loop of `write_colored_matches` -/

theorem coloredGo_spec (bytes : Bytes) (ms : List Span) :
    ∀ (fuel ls le midx : Nat) (acc : Bytes), ls ≤ le → midx < ms.length → (le - ls) + (ms.length - midx) < fuel →
      (coloredGo bytes ms fuel ls le midx acc).1 = acc ++ slice bytes ls le ∧
      (coloredGo bytes ms fuel ls le midx acc).2 < ms.length := by
  intro fuel
  induction fuel with
  | zero => intro ls le midx acc _ _ h; omega
  | succ fuel ih =>
    intro ls le midx acc hle hmid hf
    rw [coloredGo]
    by_cases heq : (ls == le) = true
    · have : ls = le := by simpa using heq
      subst this
      simp [slice_self, hmid]
    · have hne : ls ≠ le := by simpa using heq
      have hlt : ls < le := by omega
      simp only [heq, Bool.false_eq_true, ↓reduceIte]
      have hget : ms[midx]? = some ms[midx] := by simp [hmid]
      rw [hget]
      simp only
      by_cases h1 : ms[midx].e ≤ ls
      · simp only [h1, ↓reduceIte]
        by_cases h2 : midx + 1 < ms.length
        · simp only [h2, ↓reduceIte]
          exact ih ls le (midx + 1) acc hle h2 (by omega)
        · simp only [h2, ↓reduceIte]
          exact ⟨trivial, hmid⟩
      · simp only [h1, ↓reduceIte]
        by_cases h3 : ls < ms[midx].s
        · simp only [h3, ↓reduceIte]
          have hup1 : ls ≤ min le ms[midx].s := by omega
          have hup2 : min le ms[midx].s ≤ le := by omega
          have := ih (min le ms[midx].s) le midx (acc ++ slice bytes ls (min le ms[midx].s)) hup2 hmid (by omega)
          refine ⟨?_, this.2⟩
          rw [this.1, List.append_assoc, slice_append bytes ls _ le hup1 hup2]
        · simp only [h3, ↓reduceIte]
          have hup1 : ls ≤ min le ms[midx].e := by omega
          have hup2 : min le ms[midx].e ≤ le := by omega
          have := ih (min le ms[midx].e) le midx (acc ++ slice bytes ls (min le ms[midx].e)) hup2 hmid (by omega)
          refine ⟨?_, this.2⟩
          rw [this.1, List.append_assoc, slice_append bytes ls _ le hup1 hup2]

theorem trim_le (lt : LineTerm) (buf : Bytes) (s e : Nat) : trimLineTerminator lt buf s e ≤ e := by
  unfold trimLineTerminator
  split
  · simp only; split <;> omega
  · exact Nat.le_refl _

/-- `write_colored_matches` without colour writes the line without its terminator, whatever the matches. -/
theorem writeColoredMatches_spec (lt : LineTerm) (bytes : Bytes) (ls le : Nat) (ms : List Span) (midx : Nat)
    (hne : ms ≠ []) (hmid : midx < ms.length) (hle : ls ≤ trimLineTerminator lt bytes ls le) :
    (writeColoredMatches lt bytes ls le ms midx).1 = slice bytes ls (trimLineTerminator lt bytes ls le) ∧
    (writeColoredMatches lt bytes ls le ms midx).2 < ms.length := by
  unfold writeColoredMatches
  have : ms.isEmpty = false := by cases hs : ms with | nil => exact absurd hs hne | cons _ _ => rfl
  simp only [this, Bool.false_eq_true, ↓reduceIte]
  have := coloredGo_spec bytes ms ((trimLineTerminator lt bytes ls le - ls) + ms.length + 1) ls
    (trimLineTerminator lt bytes ls le) midx [] hle hmid (by omega)
  simpa using this

/-! ### trimming a line that sits inside a block -/

theorem getLast?_mid (pre line post : Bytes) (_hl : line ≠ []) :
    ((List.take (pre.length + line.length) (pre ++ line ++ post)).drop pre.length).getLast? = line.getLast? := by
  have : List.take (pre.length + line.length) (pre ++ line ++ post) = pre ++ line := by
    rw [← List.length_append, List.take_left']
    rfl
  rw [this]
  simp

/-- Trimming the terminator of a line inside a block, then adding the configured terminator, gives the line with
a missing terminator completed — unless `--crlf` meets a bare `\n`. -/
theorem trim_then_term (lt : LineTerm) (pre line post : Bytes) (hl : line ≠ []) (hok : crlfLineOk lt line = true) :
    pre.length ≤ trimLineTerminator lt (pre ++ line ++ post) pre.length (pre.length + line.length) ∧
    slice (pre ++ line ++ post) pre.length
        (trimLineTerminator lt (pre ++ line ++ post) pre.length (pre.length + line.length)) ++ lt.bytes
      = completed lt line := by
  have hpos : 0 < line.length := List.length_pos_iff.mpr hl
  have hsl : ∀ j, j ≤ line.length →
      slice (pre ++ line ++ post) pre.length (pre.length + j) = line.take j := by
    intro j hj
    have := slice_mid pre line post 0 j hj
    simp only [Nat.add_zero] at this
    rw [this, slice_eq]
    simp
  unfold trimLineTerminator
  rw [show ((List.take (pre.length + line.length) (pre ++ line ++ post)).drop pre.length) =
    ((List.take (pre.length + line.length) (pre ++ line ++ post)).drop pre.length) from rfl]
  unfold LineTerm.isSuffix
  rw [getLast?_mid pre line post hl]
  unfold completed
  by_cases hlast : line.getLast? = some lt.asByte
  · -- the line is terminated
    simp only [hlast, beq_self_eq_true, ↓reduceIte]
    obtain ⟨body, hbody⟩ : ∃ body, line = body ++ [lt.asByte] := by
      have := List.getLast?_eq_some_iff.mp hlast
      obtain ⟨ys, hys⟩ := this
      exact ⟨ys, hys⟩
    cases lt with
    | byte b =>
      simp only [LineTerm.asByte] at hbody
      have hfalse : (LineTerm.byte b == LineTerm.crlf) = false := rfl
      simp only [hfalse, Bool.false_and, Bool.false_eq_true, ↓reduceIte, LineTerm.bytes]
      have hlen : pre.length + line.length - 1 = pre.length + body.length := by
        rw [hbody]; simp
      rw [hlen, hsl body.length (by rw [hbody]; simp)]
      refine ⟨by omega, ?_⟩
      rw [hbody]; simp
    | crlf =>
      simp only [LineTerm.asByte] at hbody
      -- the guard gives the CR in front of the LF
      have hcr : ∃ body', body = body' ++ [13] := by
        unfold crlfLineOk at hok
        rw [hbody] at hok
        simp only [List.reverse_append, List.reverse_cons, List.reverse_nil, List.nil_append, List.singleton_append]
          at hok
        cases hb : body.reverse with
        | nil => simp [hb] at hok
        | cons x xs =>
          simp only [hb] at hok
          have hx : x = 13 := by
            by_cases hx : x = 13
            · exact hx
            · split at hok <;> simp_all
          refine ⟨xs.reverse, ?_⟩
          have := congrArg List.reverse hb
          simp only [List.reverse_reverse, List.reverse_cons] at this
          rw [this, hx]
      obtain ⟨body', hbody'⟩ := hcr
      have hline : line = body' ++ [13, 10] := by rw [hbody, hbody']; simp
      have hlen1 : pre.length + line.length - 1 = pre.length + body'.length + 1 := by
        rw [hline]; simp; omega
      have hget : (pre ++ line ++ post)[pre.length + body'.length + 1 - 1]? = some 13 := by
        rw [hline]
        have : pre.length + body'.length + 1 - 1 = pre.length + body'.length := by omega
        rw [this]
        simp [List.getElem?_append_left]
      have htrue : (LineTerm.crlf == LineTerm.crlf) = true := rfl
      simp only [hlen1, htrue, Bool.true_and, hget, beq_self_eq_true, Bool.and_true, LineTerm.bytes]
      have hgt : decide (pre.length + body'.length + 1 > 0) = true := by simp
      simp only [hgt, ↓reduceIte]
      have hlen2 : pre.length + body'.length + 1 - 1 = pre.length + body'.length := by omega
      rw [hlen2, hsl body'.length (by rw [hline]; simp)]
      refine ⟨by omega, ?_⟩
      rw [hline]; simp
  · -- no terminator: nothing is trimmed, one is added
    have : (line.getLast? == some lt.asByte) = false := by simpa using hlast
    simp only [this, Bool.false_eq_true, ↓reduceIte, hlast]
    rw [hsl line.length (Nat.le_refl _)]
    refine ⟨by omega, ?_⟩
    simp

/-- Since b0493c8 the slow paths write the line's own terminator: trimming the terminator of a line inside a block
and then writing what was trimmed (or the configured terminator when nothing was) gives the line with a missing
terminator completed — for every line terminator mode. `hpre`: a line consisting of a lone `\n` is not preceded by a
`\r` (true inside a block: the previous line ends in `\n`). -/
theorem trim_then_own (lt : LineTerm) (pre line post : Bytes) (hl : line ≠ [])
    (hpre : lt = .crlf → line = [10] → pre.getLast? ≠ some 13) :
    pre.length ≤ trimLineTerminator lt (pre ++ line ++ post) pre.length (pre.length + line.length) ∧
    slice (pre ++ line ++ post) pre.length
        (trimLineTerminator lt (pre ++ line ++ post) pre.length (pre.length + line.length)) ++
      writeOwnLineTerm lt (pre ++ line ++ post) pre.length (pre.length + line.length)
      = completed lt line := by
  have hpos : 0 < line.length := List.length_pos_iff.mpr hl
  have hsl : ∀ j, j ≤ line.length →
      slice (pre ++ line ++ post) pre.length (pre.length + j) = line.take j := by
    intro j hj
    have := slice_mid pre line post 0 j hj
    simp only [Nat.add_zero] at this
    rw [this, slice_eq]
    simp
  have htail : ∀ j, j ≤ line.length →
      slice (pre ++ line ++ post) (pre.length + j) (pre.length + line.length) = line.drop j := by
    intro j hj
    rw [slice_mid pre line post j line.length (Nat.le_refl _), slice_eq]
    exact List.take_of_length_le (by simp)
  -- value of the trimmed end, by cases
  have hcases : ∃ k, k ≤ line.length ∧
      trimLineTerminator lt (pre ++ line ++ post) pre.length (pre.length + line.length) = pre.length + k ∧
      ((k = line.length ∧ line.getLast? ≠ some lt.asByte) ∨
       (k < line.length ∧ line.getLast? = some lt.asByte)) := by
    unfold trimLineTerminator LineTerm.isSuffix
    rw [getLast?_mid pre line post hl]
    by_cases hlast : line.getLast? = some lt.asByte
    · simp only [hlast, beq_self_eq_true, ↓reduceIte]
      obtain ⟨body, hbody⟩ : ∃ body, line = body ++ [lt.asByte] := by
        obtain ⟨ys, hys⟩ := List.getLast?_eq_some_iff.mp hlast
        exact ⟨ys, hys⟩
      have hlen : line.length = body.length + 1 := by rw [hbody]; simp
      split
      · -- CRLF and a CR in front of the LF
        rename_i hc
        simp only [Bool.and_eq_true, beq_iff_eq, decide_eq_true_eq] at hc
        obtain ⟨⟨hcr, hgt⟩, hget⟩ := hc
        -- the CR belongs to the line
        have hb : body ≠ [] := by
          intro hb
          have hline : line = [10] := by rw [hbody, hb, hcr]; rfl
          have hpre := hpre hcr
          have hl1 : line.length = 1 := by rw [hline]; rfl
          have hidx : pre.length + line.length - 1 - 1 = pre.length - 1 := by omega
          rw [hidx] at hget
          have hp : pre ≠ [] := by
            intro hp; rw [hp] at hgt; simp [hline] at hgt
          have : (pre ++ line ++ post)[pre.length - 1]? = pre.getLast? := by
            rw [List.append_assoc, List.getElem?_append_left (by
              have := List.length_pos_iff.mpr hp; omega)]
            rw [List.getLast?_eq_getElem?]
          rw [this] at hget
          exact hpre hline hget
        have hbl : 0 < body.length := List.length_pos_iff.mpr hb
        exact ⟨body.length - 1, by omega, by omega, Or.inr ⟨by omega, by first | exact hlast | trivial⟩⟩
      · exact ⟨body.length, by omega, by omega, Or.inr ⟨by omega, by first | exact hlast | trivial⟩⟩
    · have : (line.getLast? == some lt.asByte) = false := by simpa using hlast
      simp only [this, Bool.false_eq_true, ↓reduceIte]
      exact ⟨line.length, Nat.le_refl _, rfl, Or.inl ⟨rfl, hlast⟩⟩
  obtain ⟨k, hk, htrim, hcase⟩ := hcases
  rw [htrim]
  refine ⟨by omega, ?_⟩
  unfold writeOwnLineTerm completed
  rw [htrim, hsl k hk]
  rcases hcase with ⟨hkl, hlast⟩ | ⟨hkl, hlast⟩
  · have : ¬ (pre.length + k < pre.length + line.length) := by omega
    simp only [this, ↓reduceIte, hlast]
    rw [hkl]; simp
  · have : pre.length + k < pre.length + line.length := by omega
    simp only [this, ↓reduceIte, hlast, htail k hk]
    exact List.take_append_drop k line

/-- every line but the last ends in the terminator byte -/
def TermExceptLast (t : Nat) : List Bytes → Prop
  | [] => True
  | [_] => True
  | l :: l' :: rest => l.getLast? = some t ∧ TermExceptLast t (l' :: rest)

/-! ### lines of a block -/

theorem splitLines_flatten (t : Nat) (b : Bytes) : (splitLines t b).flatten = b := by
  induction b with
  | nil => simp [splitLines]
  | cons x rest ih =>
    unfold splitLines
    by_cases hx : (x == t) = true
    · simp [hx, ih]
    · simp only [hx, Bool.false_eq_true, ↓reduceIte]
      cases hs : splitLines t rest with
      | nil => rw [hs] at ih; simp at ih; simp [ih]
      | cons l ls => rw [hs] at ih; simp at ih ⊢; rw [ih]

theorem splitLines_ne_nil (t : Nat) (b : Bytes) : ∀ l ∈ splitLines t b, l ≠ [] := by
  induction b with
  | nil => simp [splitLines]
  | cons x rest ih =>
    unfold splitLines
    by_cases hx : (x == t) = true
    · simp only [hx, ↓reduceIte, List.mem_cons]
      intro l hl
      rcases hl with hl | hl
      · subst hl; simp
      · exact ih l hl
    · simp only [hx, Bool.false_eq_true, ↓reduceIte]
      cases hs : splitLines t rest with
      | nil => simp
      | cons l ls =>
        rw [hs] at ih
        simp only [List.mem_cons]
        intro l' hl'
        rcases hl' with hl' | hl'
        · subst hl'; simp
        · exact ih l' (by simp [hl'])

theorem splitLines_head_last (t : Nat) (b : Bytes) :
    ∀ l l' rest, splitLines t b = l :: l' :: rest → l.getLast? = some t := by
  induction b with
  | nil => intro l l' rest h; simp [splitLines] at h
  | cons x xs ih =>
    intro l l' rest h
    unfold splitLines at h
    by_cases hx : (x == t) = true
    · simp only [hx, ↓reduceIte, List.cons.injEq] at h
      rw [← h.1]
      simp at hx
      simp [hx]
    · simp only [hx, Bool.false_eq_true, ↓reduceIte] at h
      cases hs : splitLines t xs with
      | nil => rw [hs] at h; simp at h
      | cons a as =>
        rw [hs] at h
        simp only [List.cons.injEq] at h
        obtain ⟨h1, h2⟩ := h
        have := ih a l' rest (by rw [hs, h2])
        rw [← h1]
        have hane : a ≠ [] := splitLines_ne_nil t xs a (by rw [hs]; simp)
        rw [List.getLast?_cons_of_ne_nil hane]
        exact this
      
theorem splitLines_termExceptLast (t : Nat) (b : Bytes) : TermExceptLast t (splitLines t b) := by
  induction b with
  | nil => simp [splitLines, TermExceptLast]
  | cons x xs ih =>
    unfold splitLines
    by_cases hx : (x == t) = true
    · simp only [hx, ↓reduceIte]
      cases hs : splitLines t xs with
      | nil => simp [TermExceptLast]
      | cons a as =>
        rw [hs] at ih
        simp at hx
        exact ⟨by simp [hx], ih⟩
    · simp only [hx, Bool.false_eq_true, ↓reduceIte]
      cases hs : splitLines t xs with
      | nil => simp [TermExceptLast]
      | cons a as =>
        rw [hs] at ih
        cases as with
        | nil => simp [TermExceptLast]
        | cons a' as' =>
          have hane : a ≠ [] := splitLines_ne_nil t xs a (by rw [hs]; simp)
          exact ⟨by rw [List.getLast?_cons_of_ne_nil hane]; exact ih.1, ih.2⟩

theorem prelude_text_eq (c : StdCfg) (isCtx : Bool) (off : Nat) (ln col : Option Nat) (text : Bytes) :
    writePrelude c isCtx off ln col ++ text =
      printRecord c { path := recPath c, lineNo := ln, col := if c.column then col else none
                    , off := optIf c.byteOffset off, isCtx, text := text } := by
  rw [writePrelude_eq]
  simp [printRecord]

/-- invariant of the line loops: what precedes the current line is empty or ends in the terminator byte -/
theorem hpre_of (lt : LineTerm) (pre line : Bytes) (h : pre = [] ∨ pre.getLast? = some lt.asByte) :
    lt = .crlf → line = [10] → pre.getLast? ≠ some 13 := by
  intro hlt _
  rcases h with h | h
  · rw [h]; simp
  · rw [h, hlt]; simp [LineTerm.asByte]

theorem pre_step (t : Nat) (pre line : Bytes) (rest : List Bytes) (hl : line ≠ [])
    (hterm : TermExceptLast t (line :: rest)) (hr : rest ≠ []) :
    (pre ++ line = [] ∨ (pre ++ line).getLast? = some t) := by
  right
  cases rest with
  | nil => exact absurd rfl hr
  | cons l' rest' =>
    rw [List.getLast?_append, hterm.1]; rfl

theorem term_tail (t : Nat) (line : Bytes) (rest : List Bytes) (h : TermExceptLast t (line :: rest)) :
    TermExceptLast t rest := by
  cases rest with
  | nil => trivial
  | cons l' rest' => exact h.2

/-- The slow multi-line loop over the lines of a block prints one record per line: the line itself (its own
terminator kept, a missing one completed), its own line number and offset, and the column of the block's first
match. -/
theorem sinkSlowMultiLineGo_eq (sc : SCfg) (c : StdCfg) (s : Sunk) (hne : s.ms ≠ []) :
    ∀ (lines : List Bytes) (pre post : Bytes) (count midx : Nat),
      s.bytes = pre ++ lines.flatten ++ post → (∀ l ∈ lines, l ≠ []) → TermExceptLast sc.lt.asByte lines →
      (pre = [] ∨ pre.getLast? = some sc.lt.asByte) →
      midx < s.ms.length →
      sinkSlowMultiLineGo sc c s count midx (spansFrom pre.length lines) =
        (blockRecords sc.lt c s.absOff s.lineNo (optIf c.column ((s.ms.headD ⟨0, 0⟩).s + 1)) count pre.length
          lines).flatMap (printRecord c) := by
  intro lines
  induction lines with
  | nil => intro pre post count midx _ _ _ _ _; simp [spansFrom, sinkSlowMultiLineGo, blockRecords]
  | cons line rest ih =>
    intro pre post count midx hb hall hterm hpre hmid
    have hline := hall line (by simp)
    have hbytes : s.bytes = pre ++ line ++ (rest.flatten ++ post) := by
      rw [hb]; simp
    obtain ⟨htle, htrim⟩ := trim_then_own sc.lt pre line (rest.flatten ++ post) hline (hpre_of sc.lt pre line hpre)
    rw [← hbytes] at htle htrim
    obtain ⟨hw, hmid'⟩ := writeColoredMatches_spec sc.lt s.bytes pre.length (pre.length + line.length) s.ms midx hne
      hmid htle
    simp only [spansFrom, sinkSlowMultiLineGo, blockRecords, List.flatMap_cons]
    rw [show writeColoredMatches sc.lt s.bytes pre.length (pre.length + line.length) s.ms midx =
      ((writeColoredMatches sc.lt s.bytes pre.length (pre.length + line.length) s.ms midx).1,
       (writeColoredMatches sc.lt s.bytes pre.length (pre.length + line.length) s.ms midx).2) from rfl]
    simp only
    rw [hw]
    have hrec : sinkSlowMultiLineGo sc c s (count + 1)
        (writeColoredMatches sc.lt s.bytes pre.length (pre.length + line.length) s.ms midx).2
        (spansFrom (pre.length + line.length) rest) =
        (blockRecords sc.lt c s.absOff s.lineNo (optIf c.column ((s.ms.headD ⟨0, 0⟩).s + 1)) (count + 1)
          (pre.length + line.length) rest).flatMap (printRecord c) := by
      cases hr : rest with
      | nil => simp [spansFrom, sinkSlowMultiLineGo, blockRecords]
      | cons l' rest' =>
        have := ih (pre ++ line) post (count + 1)
          (writeColoredMatches sc.lt s.bytes pre.length (pre.length + line.length) s.ms midx).2
          (by rw [hb]; simp) (fun l hl => hall l (List.mem_cons_of_mem _ hl)) (term_tail _ _ _ hterm)
          (pre_step sc.lt.asByte pre line rest hline hterm (by rw [hr]; simp)) hmid'
        simp only [List.length_append] at this
        rw [← hr]; exact this
    rw [hrec]
    have : writePrelude c false (s.absOff + pre.length) (Option.map (fun x => x + count) s.lineNo)
          (some ((s.ms.headD ⟨0, 0⟩).s + 1)) ++
        slice s.bytes pre.length (trimLineTerminator sc.lt s.bytes pre.length (pre.length + line.length)) ++
        writeOwnLineTerm sc.lt s.bytes pre.length (pre.length + line.length) =
        printRecord c { path := recPath c, lineNo := Option.map (fun x => x + count) s.lineNo
                      , col := optIf c.column ((s.ms.headD ⟨0, 0⟩).s + 1)
                      , off := optIf c.byteOffset (s.absOff + pre.length), isCtx := false
                      , text := completed sc.lt line } := by
      rw [List.append_assoc, htrim, prelude_text_eq]
      simp [optIf]
    rw [← this]

/-- `sink_slow_multi_line` without `--only-matching` / `--vimgrep`: every line of the block with its own
terminator, for every line terminator mode. -/
theorem sinkSlowMultiLine_eq (sc : SCfg) (c : StdCfg) (s : Sunk) (hne : s.ms ≠ [])
    (ho : c.onlyMatching = false) (hp : c.perMatch = false) :
    sinkSlowMultiLine sc c s =
      (blockRecords sc.lt c s.absOff s.lineNo (optIf c.column ((s.ms.headD ⟨0, 0⟩).s + 1)) 0 0
        (splitLines sc.lt.asByte s.bytes)).flatMap (printRecord c) := by
  unfold sinkSlowMultiLine lineSpans
  simp only [ho, hp, Bool.false_eq_true, ↓reduceIte]
  have hpos : 0 < s.ms.length := List.length_pos_iff.mpr hne
  have := sinkSlowMultiLineGo_eq sc c s hne (splitLines sc.lt.asByte s.bytes) [] [] 0 0
    (by simp [splitLines_flatten]) (splitLines_ne_nil _ _) (splitLines_termExceptLast _ _) (Or.inl rfl) hpos
  simpa using this

/-! ### `--vimgrep` on a multi-line block -/

theorem perMatchPiecesGo_spec (bytes : Bytes) (m : Span) :
    ∀ (fuel ls le : Nat) (acc : Bytes), ls ≤ le → le - ls < fuel →
      perMatchPiecesGo bytes m fuel ls le acc = acc ++ slice bytes ls le := by
  intro fuel
  induction fuel with
  | zero => intro ls le acc _ h; omega
  | succ fuel ih =>
    intro ls le acc hle hf
    rw [perMatchPiecesGo]
    by_cases heq : (ls == le) = true
    · have : ls = le := by simpa using heq
      subst this
      simp [slice_self]
    · have hne : ls ≠ le := by simpa using heq
      simp only [heq, Bool.false_eq_true, ↓reduceIte]
      by_cases h1 : m.e ≤ ls
      · simp [h1]
      · simp only [h1, ↓reduceIte]
        by_cases h3 : ls < m.s
        · simp only [h3, ↓reduceIte]
          have hup1 : ls ≤ min le m.s := by omega
          have hup2 : min le m.s ≤ le := by omega
          rw [ih _ _ _ hup2 (by omega), List.append_assoc, slice_append bytes ls _ le hup1 hup2]
        · simp only [h3, ↓reduceIte]
          have hup1 : ls ≤ min le m.e := by omega
          have hup2 : min le m.e ≤ le := by omega
          rw [ih _ _ _ hup2 (by omega), List.append_assoc, slice_append bytes ls _ le hup1 hup2]

/-- The per-match loop over the lines of a block prints, for the match `m`, one record per line that overlaps it
(only the first under `per_match_one_line`), each line with its own terminator. -/
theorem perMatchLinesGo_eq (sc : SCfg) (c : StdCfg) (s : Sunk) (m : Span) :
    ∀ (lines : List Bytes) (pre post : Bytes) (count : Nat),
      s.bytes = pre ++ lines.flatten ++ post → (∀ l ∈ lines, l ≠ []) → TermExceptLast sc.lt.asByte lines →
      (pre = [] ∨ pre.getLast? = some sc.lt.asByte) →
      perMatchLinesGo sc c s m count (spansFrom pre.length lines) =
        (perMatchBlockRecords sc.lt c s.absOff s.lineNo m count pre.length lines).flatMap (printRecord c) := by
  intro lines
  induction lines with
  | nil => intro pre post count _ _ _ _; simp [spansFrom, perMatchLinesGo, perMatchBlockRecords]
  | cons line rest ih =>
    intro pre post count hb hall hterm hpre
    have hline := hall line (by simp)
    have hbytes : s.bytes = pre ++ line ++ (rest.flatten ++ post) := by rw [hb]; simp
    obtain ⟨htle, htrim⟩ := trim_then_own sc.lt pre line (rest.flatten ++ post) hline (hpre_of sc.lt pre line hpre)
    rw [← hbytes] at htle htrim
    have hrec : perMatchLinesGo sc c s m (count + 1) (spansFrom (pre.length + line.length) rest) =
        (perMatchBlockRecords sc.lt c s.absOff s.lineNo m (count + 1) (pre.length + line.length)
          rest).flatMap (printRecord c) := by
      cases hr : rest with
      | nil => simp [spansFrom, perMatchLinesGo, perMatchBlockRecords]
      | cons l' rest' =>
        have := ih (pre ++ line) post (count + 1) (by rw [hb]; simp)
          (fun l hl => hall l (List.mem_cons_of_mem _ hl)) (term_tail _ _ _ hterm)
          (pre_step sc.lt.asByte pre line rest hline hterm (by rw [hr]; simp))
        simp only [List.length_append] at this
        rw [← hr]; exact this
    simp only [spansFrom, perMatchLinesGo, perMatchBlockRecords]
    by_cases h1 : pre.length ≥ m.e
    · simp [h1]
    · simp only [h1, ↓reduceIte]
      by_cases h2 : pre.length + line.length ≤ m.s
      · simp only [h2, ↓reduceIte]
        exact hrec
      · simp only [h2, ↓reduceIte, List.flatMap_cons]
        rw [perMatchPiecesGo_spec s.bytes m _ _ _ [] htle (by omega)]
        have : writePrelude c false (s.absOff + pre.length) (Option.map (fun x => x + count) s.lineNo)
              (some (m.s - pre.length + 1)) ++
            ([] ++ slice s.bytes pre.length (trimLineTerminator sc.lt s.bytes pre.length (pre.length + line.length))) ++
            writeOwnLineTerm sc.lt s.bytes pre.length (pre.length + line.length) =
            printRecord c { path := recPath c, lineNo := Option.map (fun x => x + count) s.lineNo
                          , col := optIf c.column (m.s - pre.length + 1)
                          , off := optIf c.byteOffset (s.absOff + pre.length), isCtx := false
                          , text := completed sc.lt line } := by
          rw [List.nil_append, List.append_assoc, htrim, prelude_text_eq]
          simp [optIf]
        rw [this]
        by_cases h3 : c.perMatchOneLine = true
        · simp [h3]
        · simp only [h3, Bool.false_eq_true, ↓reduceIte]
          rw [hrec]

/-- `sink_slow_multi_per_match` -/
theorem sinkSlowMultiLine_perMatch_eq (sc : SCfg) (c : StdCfg) (s : Sunk)
    (ho : c.onlyMatching = false) (hp : c.perMatch = true) :
    sinkSlowMultiLine sc c s =
      (s.ms.flatMap fun m => perMatchBlockRecords sc.lt c s.absOff s.lineNo m 0 0
        (splitLines sc.lt.asByte s.bytes)).flatMap (printRecord c) := by
  unfold sinkSlowMultiLine lineSpans
  simp only [ho, hp, Bool.false_eq_true, ↓reduceIte, List.flatMap_assoc]
  congr 1
  funext m
  have := perMatchLinesGo_eq sc c s m (splitLines sc.lt.asByte s.bytes) [] [] 0
    (by simp [splitLines_flatten]) (splitLines_ne_nil _ _) (splitLines_termExceptLast _ _) (Or.inl rfl)
  simpa using this

/-! ### one event / a whole stream, including the slow multi-line path -/

/-- Every path of the Standard printer without `--only-matching`, the slow multi-line paths included, for every
line terminator mode (F19 repaired in b0493c8: the slow paths keep each line's own terminator). -/
theorem stdEvent_out_all (sc : SCfg) (c : StdCfg) (find : Oracle) (st : StdState) (ev : Event)
    (ho : c.onlyMatching = false) :
    (stdEvent sc c find st ev).1.out = st.out ++ eventOutput sc c find st.count st.total ev := by
  by_cases hf : fastPath sc c find ev = true
  · exact stdEvent_out sc c find st ev ho hf
  · cases ev with
    | contextBreak => simp [fastPath] at hf
    | context k b off ln => simp [fastPath] at hf
    | matched buf rs re off ln =>
      simp only [fastPath, Bool.not_eq_true', Bool.not_eq_false, Bool.and_eq_true, Bool.not_eq_true'] at hf
      obtain ⟨hml, hne⟩ := hf
      have hnil : eventSpans sc c find (.matched buf rs re off ln) ≠ [] := by
        intro h; rw [h] at hne; simp at hne
      simp only [stdEvent, stdMatched, StdState.write_out, eventOutput, sink, List.append_cancel_left_eq]
      rw [recordMatchesStd_matched sc c find buf rs re off ln]
      unfold eventRecords sinkBody
      simp only [hne, Bool.false_eq_true, ↓reduceIte, hml, Option.isSome_none, Bool.not_false, Bool.and_self]
      cases hpm : c.perMatch with
      | false =>
        rw [sinkSlowMultiLine_eq sc c _ hnil ho hpm]
        cases hms : eventSpans sc c find (.matched buf rs re off ln) with
        | nil => exact absurd hms hnil
        | cons m0 rest => simp
      | true =>
        rw [sinkSlowMultiLine_perMatch_eq sc c _ ho hpm]
        cases hms : eventSpans sc c find (.matched buf rs re off ln) with
        | nil => exact absurd hms hnil
        | cons m0 rest => simp

theorem stdEvents_out_all (sc : SCfg) (c : StdCfg) (find : Oracle) (ho : c.onlyMatching = false) :
    ∀ (evs : List Event) (st : StdState),
      (stdEvents sc c find st evs).out =
        st.out ++ (processed sc c find st evs).flatMap
          (fun p => eventOutput sc c find p.1.count p.1.total p.2) := by
  intro evs
  induction evs with
  | nil => intro st; simp [stdEvents, processed]
  | cons ev rest ih =>
    intro st
    rw [stdEvents_cons]
    unfold processed
    have hev := stdEvent_out_all sc c find st ev ho
    by_cases hc : (stdEvent sc c find st ev).2 = true
    · simp only [hc, ↓reduceIte, List.flatMap_cons]
      rw [ih _, hev]
      simp
    · simp only [hc, Bool.false_eq_true, ↓reduceIte, List.flatMap_cons, List.flatMap_nil, List.append_nil]
      exact hev

end RgVerif.Lemmas.PrinterMulti
