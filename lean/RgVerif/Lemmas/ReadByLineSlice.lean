import RgVerif.Lemmas.ReadByLineLines
import RgVerif.Lemmas.SearcherTop
namespace RgVerif.Searcher
open RgVerif RgVerif.Matcher RgVerif.Lines RgVerif.GrepSpec

/-- line number of the first line: `Some(1)` or `None` -/
def ln0 (cfg : Config) : Option Nat := if cfg.lineNumber then some 1 else none

/-- without `stop_on_nonmatch` the choice fast/slow does not depend on the state -/
theorem isLineByLineFast_noson (cfg : Config) (m : MatcherI) (hson : cfg.stopOnNonmatch = false) (st st' : Core) :
    isLineByLineFast cfg m st = isLineByLineFast cfg m st' := by
  unfold isLineByLineFast
  simp [hson]

/-- `match_by_line_slow` on a whole buffer, from its start. -/
theorem matchByLineSlow_buffer {cfg : Config} (m : MatcherI) (h : NoCtx cfg) (buf : Bytes) (st : Core)
    (ls : List Bytes) (hg : GoodLines cfg.lineTerm.asByte ls) (hfl : ls.flatten = buf)
    (hpos : st.pos = 0) (hllc : st.lastLineCounted = 0) (hacl : st.afterContextLeft = 0)
    (hbo : st.binaryByteOffset = none) :
    ∃ st', matchByLineSlow cfg m allCont buf st = (st', .ok true) ∧ AfterLines cfg m buf 0 ls st st' := by
  unfold matchByLineSlow
  have hsteps : stepLines cfg.lineTerm.asByte buf st.pos buf.length = spansFrom 0 ls := by
    rw [hpos]
    have := stepLines_good (t := cfg.lineTerm.asByte) (buf := buf) [] ls hg buf.length
      (by simp [hfl]) (by simp [hfl])
    simpa using this
  rw [hsteps]
  have := slowLoop_lines m buf h ls [] st (by simp [hfl]) (by simp [hllc]) hacl hbo
  simpa using this

theorem lnAt_zero (cfg : Config) (buf : Bytes) (st : Core) (hllc : st.lastLineCounted = 0) :
    lnAt cfg buf st 0 = st.lineNumber := by
  unfold lnAt
  rw [hllc]
  cases st.lineNumber <;> simp [slice, count]

/-- **The slice strategy without context, in closed form.** -/
theorem sliceByLine_noCtx {cfg : Config} (m : MatcherI) (h : NoCtx cfg) (inp : Bytes)
    (hslow : isLineByLineFast cfg m (Core.new cfg true) = false)
    (ls : List Bytes) (hg : GoodLines cfg.lineTerm.asByte ls) (hfl : ls.flatten = inp) :
    (sliceByLine cfg m allCont inp).events =
      Event.begin :: lineEvs cfg m 0 (ln0 cfg) ls ++ [Event.finish inp.length none] := by
  unfold sliceByLine
  dsimp only
  rw [begin_allCont]
  simp only [if_true]
  rw [detectBinary_none h.hbin rfl]
  by_cases hne : inp = []
  · subst hne
    have hls : ls = [] := by
      cases hg with
      | nil => rfl
      | last l hu => simp at hfl; exact absurd hfl hu.1
      | cons l ls' ht _ => simp at hfl; exact absurd hfl.1 ht.ne_nil
    subst hls
    simp [sliceLoop, st0, Core.new, finish, emit_allCont, byteCount, ite_self, Run.events, lineEvs]
  · obtain ⟨st', hrun, hA⟩ := matchByLineSlow_buffer m h inp (st0 cfg) ls hg hfl rfl rfl rfl rfl
    have hfast : isLineByLineFast cfg m (st0 cfg) = false := by
      rw [isLineByLineFast_noson cfg m h.hson (st0 cfg) (Core.new cfg true)]; exact hslow
    have hls : ls ≠ [] := by
      intro hc
      rw [hc] at hfl
      exact hne hfl.symm
    have hpos : st'.pos = inp.length := by
      have := hA.pos hls
      simpa [hfl] using this
    have hloop : sliceLoop cfg m allCont inp (inp.length + 1) (st0 cfg) = (st', .ok ()) := by
      have hd : (List.drop (st0 cfg).pos inp).isEmpty = false := by
        cases inp with
        | nil => exact absurd rfl hne
        | cons a r => rfl
      cases hl : inp.length with
      | zero => exact absurd (List.length_eq_zero_iff.mp hl) hne
      | succ n =>
        rw [sliceLoop, hd]
        simp only [Bool.false_eq_true, if_false, matchByLine, hfast, hrun]
        rw [sliceLoop]
        simp [hpos]
    dsimp only
    rw [hloop]
    simp only [finish, emit_allCont, byteCount, ite_self, hA.bin, hpos, Run.events]
    rw [hA.ev]
    simp [st0, Core.new, lnAt_zero, ln0]

end RgVerif.Searcher
