import RgVerif.Spec.BlockSpec
namespace RgVerif.BufWriter
open RgVerif.BlockSpec

theorem joinSep_cons (line b : Bytes) (rest : List Bytes) : joinSep line (b :: rest) = b ++ joinAfter line rest := by
  induction rest generalizing b with
  | nil => simp [joinSep, joinAfter]
  | cons c rest ih =>
    simp only [joinSep]
    rw [ih c]
    simp [joinAfter, List.append_assoc]

theorem joinAfter_cons (line b : Bytes) (rest : List Bytes) :
    joinAfter line (b :: rest) = line ++ b ++ joinAfter line rest := by
  simp [joinAfter]

theorem nonempty_cons (b : Bytes) (rest : List Bytes) :
    nonempty (b :: rest) = if b.isEmpty then nonempty rest else b :: nonempty rest := by
  unfold nonempty
  cases h : b.isEmpty <;> simp [h]

/-- `BufferWriter::print` folded over the buffers, from any state. -/
theorem foldl_bwPrint (sep : Option Bytes) (bufs : List Bytes) (st : BW) :
    (bufs.foldl (bwPrint sep) st).out =
      st.out ++ (if st.printed then joinAfter (sepLine sep [10]) (nonempty bufs)
                 else joinSep (sepLine sep [10]) (nonempty bufs)) := by
  induction bufs generalizing st with
  | nil => cases st.printed <;> simp [nonempty, joinAfter, joinSep]
  | cons b rest ih =>
    simp only [List.foldl_cons]
    rw [ih, nonempty_cons]
    cases hb : b.isEmpty with
    | true => simp [bwPrint, hb]
    | false =>
      simp only [bwPrint, hb, Bool.false_eq_true, if_false, if_true, bwTerminator, Char.reduceToNat]
      rw [joinSep_cons, joinAfter_cons]
      cases sep with
      | none => cases st.printed <;> simp [sepLine, List.append_assoc]
      | some s => cases st.printed <;> simp [sepLine, List.append_assoc]

theorem seqPrint_out_pos (sep : Option Bytes) (term : Bytes) (st : Seq) (b : Bytes) (hb : b.isEmpty = false) :
    (seqPrint sep term st b).out.length > 0 := by
  have : b.length > 0 := by
    cases b with
    | nil => simp at hb
    | cons => simp
  unfold seqPrint
  simp only [hb, Bool.false_eq_true, if_false]
  cases sep with
  | none => simp; omega
  | some s => split <;> (simp; omega)

/-- the printer-owned separator, folded over the files, from any state -/
theorem foldl_seqPrint (sep : Option Bytes) (term : Bytes) (blks : List Bytes) (st : Seq) :
    (blks.foldl (seqPrint sep term) st).out =
      st.out ++ (if st.out.length > 0 then joinAfter (sepLine sep term) (nonempty blks)
                 else joinSep (sepLine sep term) (nonempty blks)) := by
  induction blks generalizing st with
  | nil => split <;> simp [nonempty, joinAfter, joinSep]
  | cons b rest ih =>
    simp only [List.foldl_cons]
    rw [ih, nonempty_cons]
    cases hb : b.isEmpty with
    | true => simp [seqPrint, hb]
    | false =>
      have hpos := seqPrint_out_pos sep term st b hb
      simp only [hpos, if_true, Bool.false_eq_true, if_false]
      rw [joinSep_cons, joinAfter_cons]
      simp only [seqPrint, hb, Bool.false_eq_true, if_false]
      cases sep with
      | none => by_cases h : st.out.length > 0 <;> simp [h, sepLine, List.append_assoc]
      | some s =>
        by_cases h : st.out.length > 0
        · simp [h, sepLine, List.append_assoc]
        · have h0 : st.out = [] := by
            cases hs : st.out with
            | nil => rfl
            | cons => simp [hs] at h
          simp [h0, sepLine]

end RgVerif.BufWriter
