import RgVerif.Lemmas.HirContext
import RgVerif.Lemmas.HirEnds
/-
Context independence of the Unicode word assertions on a line window whose first byte is not a
UTF-8 continuation byte (the excluded case is finding F24).
-/
set_option linter.unusedSectionVars false
namespace RgVerif.Rx
open RgVerif

/-- a sequence with an ASCII byte at a continuation position does not decode -/
theorem utf8Dec_none_of_ascii : ∀ (xs : Bytes) (i r : Nat), 1 ≤ i → xs[i]? = some r → r < 0x80 → utf8Dec xs = none
  | [], i, r, _, h, _ => by simp at h
  | [_], i, r, hi, h, _ => by
      have : i = 0 := by
        rcases Nat.lt_or_ge i 1 with h' | h'
        · omega
        · rw [List.getElem?_eq_none (by simpa using h')] at h; cases h
      omega
  | [a, b], i, r, hi, h, hr => by
      match i, hi, h with
      | 1, _, h => simp at h; subst h; rw [dec2]; simp; omega
      | i + 2, _, h => simp at h
  | [a, b, c], i, r, hi, h, hr => by
      match i, hi, h with
      | 1, _, h => simp at h; subst h; rw [dec3]; simp; omega
      | 2, _, h => simp at h; subst h; rw [dec3]; simp; omega
      | i + 3, _, h => simp at h
  | [a, b, c, d], i, r, hi, h, hr => by
      match i, hi, h with
      | 1, _, h => simp at h; subst h; rw [dec4]; simp; omega
      | 2, _, h => simp at h; subst h; rw [dec4]; simp; omega
      | 3, _, h => simp at h; subst h; rw [dec4]; simp; omega
      | i + 4, _, h => simp at h
  | _ :: _ :: _ :: _ :: _ :: _, _, _, _, _, _ => rfl

theorem u8len_le4 {b n : Nat} (h : u8len b = some n) : 1 ≤ n ∧ n ≤ 4 := by
  unfold u8len at h
  repeat' split at h
  all_goals first | (cases h; omega) | cases h

/-- a sequence cut short by an ASCII byte (the line terminator) decodes like the cut sequence -/
theorem decodeFwd_append_ascii (A R : Bytes) (hA : A ≠ [])
    (hR : R = [] ∨ ∃ r t, R = r :: t ∧ r < 0x80) : decodeFwd (A ++ R) = decodeFwd A := by
  rcases hR with rfl | ⟨r, t, rfl, hr⟩
  · simp
  · cases A with
    | nil => exact absurd rfl hA
    | cons a0 A' =>
      simp only [List.cons_append, decodeFwd]
      cases hn : u8len a0 with
      | none => rfl
      | some n =>
        have hn4 := u8len_le4 hn
        simp only [List.length_cons, List.length_append]
        by_cases hin : n ≤ A'.length + 1
        · -- the announced sequence lies inside `A`
          have h1 : ¬ (n > A'.length + (t.length + 1) + 1) := by omega
          have h2 : ¬ (n > A'.length + 1) := by omega
          simp only [h1, h2, if_false]
          have : (a0 :: (A' ++ r :: t)).take n = (a0 :: A').take n := by
            have e : (a0 :: (A' ++ r :: t)) = (a0 :: A') ++ (r :: t) := rfl
            rw [e, List.take_append_of_le_length (by simpa using hin)]
          rw [this]
        · have h2 : n > A'.length + 1 := by omega
          simp only [h2, if_true]
          by_cases hout : n > A'.length + (t.length + 1) + 1
          · simp only [hout, if_true]
          · have hn1 : (n == 1) = false := beq_eq_false_iff_ne.2 (by omega)
            simp only [hout, if_false, hn1, Bool.false_eq_true]
            congr 1
            apply utf8Dec_none_of_ascii _ (A'.length + 1) r (by omega) _ hr
            have : (a0 :: (A' ++ r :: t)) = (a0 :: A') ++ (r :: t) := rfl
            rw [this, List.getElem?_take, if_pos (by omega), List.getElem?_append_right (by simp)]
            simp

def isContByte (b : Nat) : Bool := 0x80 ≤ b && b ≤ 0xBF

section
variable {buf : Bytes} {ls le : Nat}

theorem slice_take {p : Nat} (h2 : p ≤ le) : (slice buf ls le).take (p - ls) = slice buf ls p := by
  unfold slice
  rw [List.take_take]
  congr 1
  omega

theorem slice_drop {p : Nat} (h1 : ls ≤ p) : (slice buf ls le).drop (p - ls) = slice buf p le := by
  apply List.ext_getElem?
  intro j
  rw [List.getElem?_drop, slice_getElem?, slice_getElem?]
  by_cases hj : j < le - p
  · rw [if_pos (by omega), if_pos hj]; congr 1; omega
  · rw [if_neg (by omega), if_neg hj]

theorem take_eq_take_append_slice {p : Nat} (h1 : ls ≤ p) : buf.take p = buf.take ls ++ slice buf ls p := by
  unfold slice
  have : p = ls + (p - ls) := by omega
  conv => lhs; rw [this, List.take_add]

theorem drop_eq_slice_append_drop {p : Nat} (h2 : p ≤ le) : buf.drop p = slice buf p le ++ buf.drop le := by
  unfold slice
  have : buf.drop le = (buf.drop p).drop (le - p) := by rw [List.drop_drop]; congr 1; omega
  rw [this, List.take_append_drop]

/-! ### backwards -/

theorem backStart_ctx (B L : Bytes) (p : Nat) (hget : ∀ x, ls ≤ x → B.getD x 0 = L.getD (x - ls) 0) :
    ∀ (fuel st : Nat), ls ≤ st → st < p →
      ((∃ q, ls ≤ q ∧ q ≤ st ∧ isContByte (B.getD q 0) = false) ∨ ls + fuel ≤ st) →
      backStart B (p - 4) fuel st = ls + backStart L (p - ls - 4) fuel (st - ls) ∧
      ls ≤ backStart B (p - 4) fuel st := by
  intro fuel
  induction fuel with
  | zero => intro st h1 _ _; simp only [backStart]; omega
  | succ f ih =>
    intro st h1 h2 hg
    simp only [backStart]
    rw [← hget st h1]
    by_cases hst : st = ls
    · subst hst
      have hgd : isContByte (B.getD st 0) = false := by
        rcases hg with ⟨q, hq1, hq2, hq3⟩ | hg
        · have : q = st := by omega
          subst this; exact hq3
        · omega
      have hg' : (128 ≤ B.getD st 0 && B.getD st 0 ≤ 191) = false := hgd
      rw [hg', Bool.and_false, Bool.and_false]
      simp only [Bool.false_eq_true, if_false]
      omega
    · have hc : decide (st > p - 4) = decide (st - ls > p - ls - 4) := by
        congr 1
        apply propext
        omega
      rw [hc]
      split
      · rename_i hcond
        have hcont : isContByte (B.getD st 0) = true := by
          simp only [Bool.and_eq_true] at hcond
          unfold isContByte
          simp only [Bool.and_eq_true]
          exact hcond.2
        have hg2 : (∃ q, ls ≤ q ∧ q ≤ st - 1 ∧ isContByte (B.getD q 0) = false) ∨ ls + f ≤ st - 1 := by
          rcases hg with ⟨q, hq1, hq2, hq3⟩ | hg
          · left
            refine ⟨q, hq1, ?_, hq3⟩
            by_cases hqs : q = st
            · subst hqs; rw [hcont] at hq3; cases hq3
            · omega
          · right; omega
        have := ih (st - 1) (by omega) (by omega) hg2
        rw [show st - 1 - ls = st - ls - 1 by omega] at this
        exact this
      · omega

/-- `decode_last` sees the same bytes in the buffer and on the line when `ls < p` -/
theorem decodeLast_ctx_gen {p : Nat} (hlen : le ≤ buf.length) (h1 : ls < p) (h2 : p ≤ le)
    (hguard : (∃ q, ls ≤ q ∧ q < p ∧ isContByte (buf.getD q 0) = false) ∨ ls + 4 ≤ p) :
    decodeLast (buf.take p) = decodeLast ((slice buf ls le).take (p - ls)) := by
  rw [slice_take h2]
  have hB : (buf.take p).length = p := by rw [List.length_take]; omega
  have hL : (slice buf ls p).length = p - ls := slice_length buf ls p (by omega)
  unfold decodeLast
  have e1 : (buf.take p).isEmpty = false := by
    cases h : buf.take p with
    | nil => rw [h] at hB; simp at hB; omega
    | cons _ _ => rfl
  have e2 : (slice buf ls p).isEmpty = false := by
    cases h : slice buf ls p with
    | nil => rw [h] at hL; simp at hL; omega
    | cons _ _ => rfl
  rw [e1, e2]
  simp only [Bool.false_eq_true, if_false]
  rw [hB, hL]
  have hget : ∀ x, ls ≤ x → (buf.take p).getD x 0 = (slice buf ls p).getD (x - ls) 0 := by
    intro x hx
    rw [List.getD_eq_getElem?_getD, List.getD_eq_getElem?_getD, slice_getElem?, List.getElem?_take]
    by_cases hxp : x < p
    · rw [if_pos hxp, if_pos (by omega), show ls + (x - ls) = x by omega]
    · rw [if_neg hxp, if_neg (by omega)]
  have hg : (∃ q, ls ≤ q ∧ q ≤ p - 1 ∧ isContByte ((buf.take p).getD q 0) = false) ∨ ls + 3 ≤ p - 1 := by
    rcases hguard with ⟨q, hq1, hq2, hq3⟩ | hgp
    · left
      refine ⟨q, hq1, by omega, ?_⟩
      rw [List.getD_eq_getElem?_getD, List.getElem?_take, if_pos hq2, ← List.getD_eq_getElem?_getD]
      exact hq3
    · right; omega
  obtain ⟨hs, hge⟩ := backStart_ctx (buf.take p) (slice buf ls p) p hget 3 (p - 1) (by omega) (by omega) hg
  rw [show p - 1 - ls = p - ls - 1 by omega] at hs
  rw [hs]
  congr 1
  -- dropping `ls + k` from the buffer prefix = dropping `k` from the line prefix
  generalize backStart (slice buf ls p) (p - ls - 4) 3 (p - ls - 1) = k
  rw [take_eq_take_append_slice (buf := buf) (ls := ls) (p := p) (by omega)]
  rw [← List.drop_drop, List.drop_left' (by rw [List.length_take]; omega)]


theorem decodeLast_ctx {p : Nat} (hlen : le ≤ buf.length) (h1 : ls < p) (h2 : p ≤ le)
    (hguard : isContByte (buf.getD ls 0) = false) :
    decodeLast (buf.take p) = decodeLast ((slice buf ls le).take (p - ls)) :=
  decodeLast_ctx_gen hlen h1 h2 (Or.inl ⟨ls, Nat.le_refl _, h1, hguard⟩)

/-! ### the six Unicode word assertions -/

theorem decodeFwd_lf (t : Bytes) : decodeFwd (10 :: t) = some (some 10) := by
  simp [decodeFwd, u8len]

theorem decodeFwd_ascii (r : Nat) (t : Bytes) (hr : r < 128) : decodeFwd (r :: t) = some (some r) := by
  have : u8len r = some 1 := by unfold u8len; rw [if_pos (by omega)]
  simp [decodeFwd, this]

theorem decodeLast_ends_lf (bs : Bytes) (hne : bs ≠ []) (hlast : bs.getD (bs.length - 1) 0 = 10) :
    decodeLast bs = some (some 10) := by
  unfold decodeLast
  have e : bs.isEmpty = false := by cases bs with | nil => exact absurd rfl hne | cons _ _ => rfl
  rw [e]
  simp only [Bool.false_eq_true, if_false]
  have hb : backStart bs (bs.length - 4) 3 (bs.length - 1) = bs.length - 1 := by
    simp only [backStart, hlast]
    simp
  rw [hb]
  have hlen : 0 < bs.length := by cases bs with | nil => exact absurd rfl hne | cons _ _ => simp
  have : bs.drop (bs.length - 1) = [10] := by
    apply List.ext_getElem?
    intro j
    rw [List.getElem?_drop]
    cases j with
    | zero =>
      rw [List.getD_eq_getElem?_getD] at hlast
      have hl : bs.length - 1 < bs.length := by omega
      rw [Nat.add_zero, List.getElem?_eq_getElem hl]
      rw [List.getElem?_eq_getElem hl] at hlast
      simp at hlast
      simp [hlast]
    | succ j => rw [List.getElem?_eq_none (by omega)]; simp
  rw [this]
  exact decodeFwd_lf []

/-- the window is a line whose first byte, if any, does not continue a UTF-8 sequence -/
structure IsLineU (buf : Bytes) (ls le : Nat) : Prop extends IsLine 10 buf ls le where
  guard : ls = le ∨ isContByte (buf.getD ls 0) = false

/-- the general window with the same guard -/
structure WinU (fol : Nat → Bool) (buf : Bytes) (ls le : Nat) : Prop extends Win fol buf ls le where
  guard : ls = le ∨ isContByte (buf.getD ls 0) = false

theorem IsLineU.toWinU (hl : IsLineU buf ls le) : WinU (· == 10) buf ls le :=
  { hl.toIsLine.toWin with guard := hl.guard }

theorem take_ends_lf (hlen : le ≤ buf.length) (hls : ls ≤ le) (hbefore : ls = 0 ∨ buf[ls - 1]? = some 10)
    (h0 : ls ≠ 0) : decodeLast (buf.take ls) = some (some 10) := by
  have hL : (buf.take ls).length = ls := by rw [List.length_take]; omega
  apply decodeLast_ends_lf
  · intro h; rw [h] at hL; simp at hL; omega
  · rw [hL, List.getD_eq_getElem?_getD, List.getElem?_take, if_pos (by omega), ← List.getD_eq_getElem?_getD]
    exact ctx_before10 hbefore h0

theorem drop_starts {fol : Nat → Bool} (hl : Win fol buf ls le) (h0 : le ≠ buf.length) :
    ∃ r t, buf.drop le = r :: t ∧ fol r = true := by
  rcases hl.after with h | ⟨r, h, hf⟩
  · exact absurd h h0
  · have hlt : le < buf.length := by have := hl.le_len; omega
    refine ⟨r, buf.drop (le + 1), ?_, hf⟩
    rw [List.getElem?_eq_getElem hlt] at h
    have h' : buf[le] = r := by simpa using h
    rw [← h']
    exact List.drop_eq_getElem_cons hlt

section
variable (isWord : Nat → Bool) (hw : isWord 10 = false) {fol : Nat → Bool}
  (hf : ∀ r, fol r = true → r < 128 ∧ isWord r = false)
include hw hf

theorem ctx_wordRev (hl : WinU fol buf ls le) {p : Nat} (h1 : ls ≤ p) (h2 : p ≤ le) :
    wordRev isWord buf p = wordRev isWord (slice buf ls le) (p - ls) := by
  unfold wordRev
  by_cases hp : p = ls
  · subst hp
    rw [Nat.sub_self, List.take_zero]
    by_cases h0 : p = 0
    · subst h0; rfl
    · rw [take_ends_lf hl.le_len hl.ls_le hl.before h0]
      simp [decodeLast, hw]
  · have hg : isContByte (buf.getD ls 0) = false := by
      rcases hl.guard with h | h
      · omega
      · exact h
    rw [decodeLast_ctx hl.le_len (by omega) h2 hg]

theorem ctx_okRev (hl : WinU fol buf ls le) {p : Nat} (h1 : ls ≤ p) (h2 : p ≤ le) :
    (decide (p > 0) && !isOkDecode (decodeLast (buf.take p))) =
      (decide (p - ls > 0) && !isOkDecode (decodeLast ((slice buf ls le).take (p - ls)))) := by
  by_cases hp : p = ls
  · subst hp
    have b : decide (p - p > 0) = false := by simp
    rw [b, Bool.false_and]
    by_cases h0 : p = 0
    · subst h0; rfl
    · rw [take_ends_lf hl.le_len hl.ls_le hl.before h0]; simp [isOkDecode]
  · have hg : isContByte (buf.getD ls 0) = false := by
      rcases hl.guard with h | h
      · omega
      · exact h
    rw [decodeLast_ctx hl.le_len (by omega) h2 hg]
    have a : decide (p > 0) = true := decide_eq_true (by omega)
    have b : decide (p - ls > 0) = true := decide_eq_true (by omega)
    rw [a, b]

theorem ctx_decodeFwd (hl : Win fol buf ls le) {p : Nat} (h1 : ls ≤ p) (h2 : p < le) :
    decodeFwd (buf.drop p) = decodeFwd ((slice buf ls le).drop (p - ls)) := by
  rw [slice_drop h1, drop_eq_slice_append_drop (buf := buf) (le := le) (p := p) (by omega)]
  apply decodeFwd_append_ascii
  · intro h
    have := slice_length buf p le hl.le_len
    rw [h] at this
    simp at this
    omega
  · by_cases h0 : le = buf.length
    · left; rw [h0]; simp
    · right
      obtain ⟨r, t, ht, hfr⟩ := drop_starts hl h0
      exact ⟨r, t, ht, (hf r hfr).1⟩

theorem ctx_wordFwd (hl : Win fol buf ls le) {p : Nat} (h1 : ls ≤ p) (h2 : p ≤ le) :
    wordFwd isWord buf p = wordFwd isWord (slice buf ls le) (p - ls) := by
  unfold wordFwd
  by_cases hp : p = le
  · subst hp
    have : (slice buf ls p).drop (p - ls) = [] := by
      apply List.drop_eq_nil_of_le
      rw [slice_length buf ls p hl.le_len]; omega
    rw [this]
    by_cases h0 : p = buf.length
    · rw [h0, List.drop_length]
    · obtain ⟨r, t, ht, hfr⟩ := drop_starts hl h0
      rw [ht, decodeFwd_ascii r t (hf r hfr).1]
      simp [decodeFwd, (hf r hfr).2]
  · rw [ctx_decodeFwd isWord hw hf hl h1 (by omega)]

theorem ctx_okFwd (hl : Win fol buf ls le) {p : Nat} (h1 : ls ≤ p) (h2 : p ≤ le) :
    (decide (p < buf.length) && !isOkDecode (decodeFwd (buf.drop p))) =
      (decide (p - ls < (slice buf ls le).length) && !isOkDecode (decodeFwd ((slice buf ls le).drop (p - ls)))) := by
  rw [ctx_len hl.le_len]
  by_cases hp : p = le
  · subst hp
    have b : decide (p - ls < p - ls) = false := by simp
    rw [b, Bool.false_and]
    by_cases h0 : p = buf.length
    · have a : decide (p < buf.length) = false := by simp [h0]
      rw [a, Bool.false_and]
    · obtain ⟨r, t, ht, hfr⟩ := drop_starts hl h0
      rw [ht, decodeFwd_ascii r t (hf r hfr).1]; simp [isOkDecode]
  · rw [ctx_decodeFwd isWord hw hf hl h1 (by omega)]
    have a : decide (p < buf.length) = true := decide_eq_true (by have := hl.le_len; omega)
    have b : decide (p - ls < le - ls) = true := decide_eq_true (by omega)
    rw [a, b]

theorem ctx_gtRev (hl : WinU fol buf ls le) {p : Nat} (h1 : ls ≤ p) (h2 : p ≤ le) :
    (decide (p > 0) && wordRev isWord buf p) =
      (decide (p - ls > 0) && wordRev isWord (slice buf ls le) (p - ls)) := by
  rw [ctx_wordRev isWord hw hf hl h1 h2]
  by_cases hp : p = ls
  · subst hp
    rw [Nat.sub_self]
    simp [wordRev, decodeLast]
  · have a : decide (p > 0) = true := decide_eq_true (by omega)
    have b : decide (p - ls > 0) = true := decide_eq_true (by omega)
    rw [a, b]

theorem ctx_ltFwd (hl : Win fol buf ls le) {p : Nat} (h1 : ls ≤ p) (h2 : p ≤ le) :
    (decide (p < buf.length) && wordFwd isWord buf p) =
      (decide (p - ls < (slice buf ls le).length) && wordFwd isWord (slice buf ls le) (p - ls)) := by
  rw [ctx_wordFwd isWord hw hf hl h1 h2, ctx_len hl.le_len]
  by_cases hp : p = le
  · subst hp
    have : (slice buf ls p).drop (p - ls) = [] := by
      apply List.drop_eq_nil_of_le
      rw [slice_length buf ls p hl.le_len]; omega
    simp [wordFwd, this, decodeFwd]
  · have a : decide (p < buf.length) = true := decide_eq_true (by have := hl.le_len; omega)
    have b : decide (p - ls < le - ls) = true := decide_eq_true (by omega)
    rw [a, b]

/-- the Unicode word assertions that are context independent on such a window (all six) -/
def safeLookU : Look → Bool
  | .WordUnicode | .WordUnicodeNegate | .WordStartUnicode | .WordEndUnicode
  | .WordStartHalfUnicode | .WordEndHalfUnicode => true
  | _ => false

theorem lookAt_ctx_unicodeW (hl : WinU fol buf ls le) (k : Look) (hk : safeLookU k = true) :
    CtxLook (lookAt isWord) buf ls le k := by
  intro p h1 h2
  have e1 := ctx_wordRev isWord hw hf hl h1 h2
  have e2 := ctx_wordFwd isWord hw hf hl.toWin h1 h2
  have e3 := ctx_okRev isWord hw hf hl h1 h2
  have e4 := ctx_okFwd isWord hw hf hl.toWin h1 h2
  have e5 := ctx_gtRev isWord hw hf hl h1 h2
  have e6 := ctx_ltFwd isWord hw hf hl.toWin h1 h2
  cases k <;> simp only [safeLookU] at hk <;> first | (cases hk) | skip
  all_goals simp only [lookAt]
  · rw [e1, e2]
  · rw [e3, e4, e5, e6]
  · rw [e1, e2]
  · rw [e1, e2]
  · rw [e3, e5]
  · rw [e4, e6]

end

theorem lookAt_ctx_unicode (isWord : Nat → Bool) (hw : isWord 10 = false) (hl : IsLineU buf ls le) (k : Look)
    (hk : safeLookU k = true) : CtxLook (lookAt isWord) buf ls le k :=
  lookAt_ctx_unicodeW isWord hw (fol := (· == 10))
    (by intro r hr; have : r = 10 := by simpa using hr
        subst this; exact ⟨by decide, hw⟩)
    hl.toWinU k hk

end
end RgVerif.Rx
