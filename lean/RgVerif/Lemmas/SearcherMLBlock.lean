import RgVerif.Lemmas.SearcherCtx
import RgVerif.Lemmas.SearcherMLAgn
import RgVerif.Lemmas.SearcherML
/-
One block of multi-line search: `sink_context` then `sink_matched` on the lines `[a, b)`, related to the grep model
through a shadow log in which the block is delivered line by line (`coalesce` of the shadow log is the real log).
-/
namespace RgVerif.Searcher
open RgVerif RgVerif.Matcher RgVerif.Lines RgVerif.GrepSpec RgVerif.MLSpec

theorem lineMatches_snoc (ln : Nat → Option Nat) (off : Nat → Nat) (bytes : Nat → Bytes) : ∀ (d a : Nat),
    lineMatches ln off bytes a (d + 1) = lineMatches ln off bytes a d ++ [.matched (ln (a + d)) (off (a + d)) (bytes (a + d))] := by
  intro d
  induction d with
  | zero => intro a; simp [lineMatches]
  | succ d ih =>
    intro a
    rw [lineMatches, ih (a + 1), lineMatches]
    have : a + 1 + d = a + (d + 1) := by omega
    rw [this]; rfl

theorem lastEv_snoc : ∀ (X : List Event) (e : Event), lastEv (X ++ [e]) = some e := by
  intro X
  induction X with
  | nil => intro e; rfl
  | cons x X ih =>
    intro e
    cases X with
    | nil => rfl
    | cons y Y => exact ih e

theorem afterWin_zero (sl : List SLine) (i : Nat) : afterWin 0 sl i = false := by
  rw [Bool.eq_false_iff]
  intro h
  obtain ⟨j, hj, hs⟩ := afterWin_iff.mp h
  omega

section
variable {t : Nat} {buf : Bytes} {sl : List SLine} {cfg : Config}

theorem off_succ_all (sl : List SLine) (j : Nat) : offsetAt sl (j + 1) = offsetAt sl j + (bytesAt sl j).length := by
  by_cases h : j < sl.length
  · exact off_succ sl j h
  · rw [off_ge sl (j + 1) (by omega), off_ge sl j (by omega)]
    simp [bytesAt, show sl[j]? = none from List.getElem?_eq_none (by omega)]

/-- the bytes of the lines `[a, a+d)` -/
theorem blockBytes_flat (sl : List SLine) : ∀ (d a : Nat), a + d ≤ sl.length →
    blockBytes (bytesAt sl) a d = (((lsOf sl).take (a + d)).drop a).flatten := by
  intro d
  induction d with
  | zero => intro a _; simp [blockBytes]
  | succ d ih =>
    intro a h
    have hl : a < ((lsOf sl).take (a + (d + 1))).length := by
      rw [List.length_take, lsOf_length]; omega
    rw [blockBytes, ih (a + 1) (by omega), List.drop_eq_getElem_cons hl, List.flatten_cons]
    have e : a + 1 + d = a + (d + 1) := by omega
    rw [e]
    congr 1
    simp [bytesAt, lsOf, show a < sl.length by omega]

theorem blockBytes_slice (L : Layout t buf sl) (d a : Nat) (h : a + d ≤ sl.length) :
    blockBytes (bytesAt sl) a d = slice buf (offsetAt sl a) (offsetAt sl (a + d)) := by
  rw [blockBytes_flat sl d a h, L.slice_region a (a + d) (by omega)]

/-- the model's events for the lines `[v2, a + d]`: nothing for `[v2, a)`, then the selected lines `a … a + d` -/
theorem block_flat {v2 a : Nat} (hv2 : v2 ≤ a) (hskip : ∀ j, v2 ≤ j → j < a → kindAt cfg sl j = none) :
    ∀ (d : Nat), (∀ j, a ≤ j → j ≤ a + d → selAt sl j = true) →
    (List.range (a + d + 1)).flatMap (lineEvents cfg sl) =
      (List.range v2).flatMap (lineEvents cfg sl) ++ (if breakBefore cfg sl a then [Event.contextBreak] else []) ++
        lineMatches (lineNo cfg) (offsetAt sl) (bytesAt sl) a (d + 1) := by
  intro d
  induction d with
  | zero =>
    intro hsel
    rw [flatMap_range_succ, flatMap_skip cfg sl v2 a hv2 hskip,
      lineEvents_some (kind_matched (hsel a (Nat.le_refl _) (Nat.le_refl _)))]
    simp [lineMatches, evOf, List.append_assoc]
  | succ d ih =>
    intro hsel
    have e : a + (d + 1) + 1 = (a + d + 1) + 1 := by omega
    rw [e, flatMap_range_succ, ih (fun j h1 h2 => hsel j h1 (by omega)),
      lineEvents_some (kind_matched (hsel (a + d + 1) (by omega) (by omega))),
      lineMatches_snoc _ _ _ (d + 1) a]
    have hbrk : breakBefore cfg sl (a + (d + 1)) = false :=
      breakBefore_adjacent (fun _ => by
        have : a + (d + 1) - 1 = a + d := by omega
        rw [this]
        simp [delivered, kind_matched (cfg := cfg) (hsel (a + d) (by omega) (by omega))])
    simp [hbrk, evOf, List.append_assoc, Nat.add_assoc]

/-- the last event of the model's log for the first `v` lines when line `v - 1` is delivered -/
theorem lastEv_log {v : Nat} (hv : 0 < v) {k : Kind} (hk : kindAt cfg sl (v - 1) = some k) :
    lastEv (Event.begin :: (List.range v).flatMap (lineEvents cfg sl)) = some (evOf cfg sl (v - 1) k) := by
  obtain ⟨w, rfl⟩ : ∃ w, v = w + 1 := ⟨v - 1, by omega⟩
  simp only [Nat.add_sub_cancel] at hk ⊢
  rw [flatMap_range_succ, lineEvents_some hk, ← List.cons_append, ← List.append_assoc]
  exact lastEv_snoc _ _

/-- `other_context_by_line`'s loop over the lines `v … v+d-1`, all of kind *other* -/
theorem otherLoop_spec (L : Layout t buf sl) (ht : cfg.lineTerm.asByte = t) (hbin : cfg.binary = .none) :
    ∀ (d v : Nat) (st : Core), Inv cfg sl v st → v + d ≤ sl.length →
      (∀ j, v ≤ j → j < v + d → kindAt cfg sl j = some (.ctx .other)) →
      ∃ st', otherLoop cfg allCont buf ((List.range' v d).map (span sl)) st = (st', .ok true) ∧
        Inv cfg sl (v + d) st' ∧ st'.afterContextLeft = st.afterContextLeft ∧ Frame st st' := by
  intro d
  induction d with
  | zero =>
    intro v st hI _ _
    exact ⟨st, by simp [otherLoop], by simpa using hI, rfl, Frame.refl st⟩
  | succ d ih =>
    intro v st hI hn hk
    obtain ⟨st1, e1, hI1, hacl1, hf1⟩ :=
      sinkOther_step L ht hbin hI (by omega) (hk v (Nat.le_refl v) (by omega))
    obtain ⟨st2, e2, hI2, hacl2, hf2⟩ := ih (v + 1) st1 hI1 (by omega) (fun j h1 h2 => hk j (by omega) (by omega))
    refine ⟨st2, ?_, ?_, by rw [hacl2, hacl1], hf1.trans hf2⟩
    · rw [List.range'_succ, List.map_cons, otherLoop, e1]
      exact e2
    · have : v + (d + 1) = v + 1 + d := by omega
      rw [this]; exact hI2

/-- `sink_context` before the block that starts with the selected line `a`: afterwards every undecided line
before `a` is one the model does not deliver either -/
theorem ctx_prelude (L : Layout t buf sl) (ht : cfg.lineTerm.asByte = t) (hbin : cfg.binary = .none)
    (hpt0 : cfg.passthru = true → cfg.afterContext = 0)
    {v a : Nat} {st : Core} (hI : Inv cfg sl v st) (hva : v ≤ a) (ha : a < sl.length)
    (hu : Unsel sl v a) (hs : selAt sl a = true) (hacl : AclOK cfg.afterContext sl v st.afterContextLeft) (e : Nat) :
    ∃ v2 st2, mlSinkContext cfg allCont buf st ⟨offsetAt sl a, e⟩ = (st2, .ok true) ∧ Inv cfg sl v2 st2 ∧ v2 ≤ a ∧
      (∀ j, v2 ≤ j → j < a → kindAt cfg sl j = none) ∧ Frame st st2 := by
  cases hp : cfg.passthru with
  | true =>
    have hA := hpt0 hp
    have hacl0 : st.afterContextLeft = 0 := by
      have h1 := hacl v (Nat.le_refl v) (fun j h1 h2 => by omega)
      rw [hA, afterWin_zero] at h1
      apply Classical.byContradiction; intro hne
      exact Bool.noConfusion (h1.mpr (by omega))
    have hk : ∀ j, v ≤ j → j < v + (a - v) → kindAt cfg sl j = some (.ctx .other) :=
      fun j h1 h2 => kind_other hacl h1 (hu.mono (Nat.le_refl _) (by omega)) (by omega) hp
    obtain ⟨st1, e1, hI1, _, hf1⟩ := otherLoop_spec L ht hbin (a - v) v st hI (by omega) hk
    have ee : v + (a - v) = a := by omega
    rw [ee] at hI1
    refine ⟨a, st1, ?_, hI1, Nat.le_refl _, fun j h1 h2 => by omega, hf1⟩
    simp only [mlSinkContext, hp, if_true, otherContextByLine, hI.llv, ht, L.stepLines_index v a hva (by omega), e1]
  | false =>
    obtain ⟨st1, e1, hI1, hacl1, haclok1, hf1⟩ := afterCtx_step L ht hbin hI hva (by omega) hu hacl
    have hz : v + min st.afterContextLeft (a - v) < a → st1.afterContextLeft = 0 := by
      intro h; rw [hacl1]; omega
    obtain ⟨v2, st2, e2, hI2, hv2, hskip2, _, hf2⟩ :=
      beforeCtx_step L ht hbin hI1 (by omega) ha (hu.mono (by omega) (Nat.le_refl _)) hs haclok1 hz
        (fun h => by rw [hp] at h; exact Bool.noConfusion h)
    refine ⟨v2, st2, ?_, hI2, hv2, hskip2, hf1.trans hf2⟩
    simp only [mlSinkContext, hp, Bool.false_eq_true, if_false, e1, e2]

/-- the real run of `sink_context`, given the run from the shadow log -/
theorem ctx_real (hbin : cfg.binary = .none) {st st2 : Core} {E : List Event} (r : Span)
    (h : mlSinkContext cfg allCont buf (withE st E) r = (st2, .ok true)) (hb : st.binaryByteOffset = none)
    (hev : st.events = coalesce E) :
    mlSinkContext cfg allCont buf st r = (withE st2 (coalesce st2.events), .ok true) := by
  obtain ⟨suf, hs, hr⟩ := mlSinkContext_agn (buf := buf) hbin r (withE st E) hb st.events
  have h1 := hr.eq
  have h2 := hr.ev
  simp only [withE_withE, withE_self, h, withE_events] at h1 h2
  rw [h1, h2, coalesce_append_ctx E suf hs, hev]

theorem sel_of_kind_matched {j : Nat} (h : kindAt cfg sl j = some .matched) : selAt sl j = true := by
  unfold kindAt at h
  cases hs : selAt sl j with
  | true => rfl
  | false =>
    rw [hs] at h
    simp only [Bool.false_eq_true, if_false] at h
    split at h
    · exact Kind.noConfusion (Option.some.inj h)
    · split at h
      · exact Kind.noConfusion (Option.some.inj h)
      · split at h
        · exact Kind.noConfusion (Option.some.inj h)
        · exact absurd h (by simp)

/-- the last event of the shadow log does not join the block that starts at line `a` -/
theorem log_noJoin (L : Layout t buf sl) {v2 a : Nat} {st2 : Core} (hI2 : Inv cfg sl v2 st2) (hv2 : v2 ≤ a)
    (ha : a ≤ sl.length) (hjoin : v2 = 0 ∨ v2 < a ∨ selAt sl (v2 - 1) = false) (ln : Option Nat) (bs : Bytes)
    {x : Event} (hx : lastEv st2.events = some x) : ¬ Joins x (.matched ln (offsetAt sl a) bs) := by
  rw [hI2.ev] at hx
  by_cases h0 : v2 = 0
  · subst h0
    simp [lastEv] at hx
    subst hx
    exact fun h => h
  · have hd := hI2.deliv (by omega)
    unfold delivered at hd
    cases hk : kindAt cfg sl (v2 - 1) with
    | none => rw [hk] at hd; exact Bool.noConfusion hd
    | some k =>
      rw [lastEv_log (by omega) hk] at hx
      have hx' := Option.some.inj hx
      subst hx'
      cases k with
      | ctx c => exact fun h => h
      | matched =>
        intro hj
        have hj' : offsetAt sl (v2 - 1) + (bytesAt sl (v2 - 1)).length = offsetAt sl a := hj
        have hs := off_succ_all sl (v2 - 1)
        have e : v2 - 1 + 1 = v2 := by omega
        rw [e] at hs
        rcases hjoin with h | h | h
        · exact h0 h
        · have := L.off_lt h ha; omega
        · rw [sel_of_kind_matched hk] at h; exact Bool.noConfusion h

/-- `sink_matched` on the block of the selected lines `[a, b)`, after `sink_context` -/
theorem block_sink (L : Layout t buf sl) (ht : cfg.lineTerm.asByte = t) (hbin : cfg.binary = .none)
    {v2 a b : Nat} {st2 : Core} (hI2 : Inv cfg sl v2 st2) (hv2 : v2 ≤ a) (hab : a < b) (hb : b ≤ sl.length)
    (hskip : ∀ j, v2 ≤ j → j < a → kindAt cfg sl j = none)
    (hsel : ∀ j, a ≤ j → j < b → selAt sl j = true)
    (hjoin : v2 = 0 ∨ v2 < a ∨ selAt sl (v2 - 1) = false) :
    ∃ st3 E3, mlSinkMatched cfg allCont buf (withE st2 (coalesce st2.events)) ⟨offsetAt sl a, offsetAt sl b⟩
        = (st3, .ok true) ∧
      Inv cfg sl b (withE st3 E3) ∧ st3.events = coalesce E3 ∧ st3.afterContextLeft = cfg.afterContext ∧
      st3.pos = st2.pos := by
  have hlt : offsetAt sl a < offsetAt sl b := L.off_lt hab hb
  have hne : ¬ ((offsetAt sl b - offsetAt sl a == 0) = true) := by simp; omega
  have hbrk : brkCond cfg (withE st2 (coalesce st2.events)) (offsetAt sl a) = breakBefore cfg sl a :=
    (show brkCond cfg (withE st2 (coalesce st2.events)) (offsetAt sl a) = brkCond cfg st2 (offsetAt sl a) from rfl).trans
      (brkCond_eq L hI2 hv2 (by omega) hskip)
  obtain ⟨c, hcv, hllc, hln⟩ := hI2.cnt
  obtain ⟨d, hd⟩ : ∃ d, b = a + d + 1 := ⟨b - a - 1, by omega⟩
  generalize hB : (if breakBefore cfg sl a then [Event.contextBreak] else []) = brk
  have hBn : NoMatched brk := by
    rw [← hB]; intro e he; split at he <;> simp at he; subst he; rfl
  have hcl := countLines_spec (st := withE st2 (coalesce st2.events ++ brk))
    L ht hllc hln (show c ≤ a by omega) (show a < sl.length by omega)
  have hW : ({ withE st2 (coalesce st2.events) with events := (withE st2 (coalesce st2.events)).events ++ brk } : Core)
      = withE st2 (coalesce st2.events ++ brk) := rfl
  have hLM := coalesce_lineMatches (lineNo cfg) (offsetAt sl) (bytesAt sl) (off_succ_all sl) d a
  refine ⟨deliverGen cfg buf Event.matched cfg.afterContext
      { withE st2 (coalesce st2.events) with events := (withE st2 (coalesce st2.events)).events ++ brk }
      ⟨offsetAt sl a, offsetAt sl b⟩,
    st2.events ++ brk ++ lineMatches (lineNo cfg) (offsetAt sl) (bytesAt sl) a (d + 1), ?_, ?_, ?_, rfl, ?_⟩
  · unfold mlSinkMatched matched
    simp only [if_neg hne]
    rw [sinkMatched_allCont (st := withE st2 (coalesce st2.events)) _ hbin
      (show (withE st2 (coalesce st2.events)).binaryByteOffset = none from hI2.bin)]
    simp only [hbrk, hB]
  · unfold deliverGen
    simp only
    rw [hW, hcl]
    constructor
    · rfl
    · simp [withE]; omega
    · intro _
      have : b - 1 = a + d := by omega
      rw [this]
      simp [delivered, kind_matched (cfg := cfg) (hsel (a + d) (by omega) (by omega))]
    · exact ⟨a, by omega, fun hc => by simp [withE, hc], by simp [withE]⟩
    · exact hI2.abs
    · exact hI2.bin
    · simp only [withE_events]
      rw [hd, block_flat hv2 hskip d (fun j h1 h2 => hsel j h1 (by omega)), hI2.ev, hB]
      simp [List.append_assoc]
  · unfold deliverGen
    simp only
    rw [hW, hcl]
    simp only
    rw [coalesce_append (st2.events ++ brk), hLM, coalesce_append_ctx _ _ hBn, blockBytes_slice L (d + 1) a (by omega)]
    · have e1 : (withE st2 (coalesce st2.events ++ brk)).absoluteByteOffset = 0 := hI2.abs
      have e2 : a + (d + 1) = b := by omega
      simp [e1, e2]
    · intro x y tl hx hy
      rw [hLM] at hy
      have hy' := (List.cons.inj hy).1
      subst hy'
      by_cases hbb : breakBefore cfg sl a = true
      · rw [hbb] at hB; simp only [if_true] at hB; subst hB
        rw [lastEv_snoc] at hx
        have := Option.some.inj hx; subst this
        exact fun h => h
      · have : brk = [] := by rw [← hB]; simp [hbb]
        subst this
        rw [List.append_nil] at hx
        exact log_noJoin L hI2 hv2 (by omega) hjoin _ _ hx
  · unfold deliverGen
    simp only
    rw [hW]
    exact (countLines_frame cfg buf (withE st2 (coalesce st2.events ++ brk)) (offsetAt sl a)).1

end
end RgVerif.Searcher
