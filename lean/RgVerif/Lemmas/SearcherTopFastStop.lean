import RgVerif.Lemmas.SearcherTopFast
/-
`SliceByLine::run` on the fast path with `stop_on_nonmatch` (no inversion: that combination takes the slow
path): the fast loop delivers the first match with its context and then switches to the slow loop.
-/
namespace RgVerif.Searcher
open RgVerif RgVerif.Matcher RgVerif.Lines RgVerif.GrepSpec

theorem selAt_prefix (sl rest : List SLine) (j : Nat) (h : j < sl.length) : selAt (sl ++ rest) j = selAt sl j := by
  simp [selAt, List.getElem?_append_left h]

/-- the first selected line survives the `stop_on_nonmatch` cut -/
theorem stopTrunc_first_sel : ∀ (l : List SLine) (i : Nat), (∀ j, j < i → selAt l j = false) → i < l.length →
    i < (stopTrunc false l).length := by
  intro l
  induction l with
  | nil => intro i _ h; simp at h
  | cons x r ih =>
    intro i hu hi
    have hc : ¬ (!x.2 && false) = true := by simp
    rw [stopTrunc_cons_go r hc]
    cases i with
    | zero => simp
    | succ i' =>
      have hx : x.2 = false := by have := hu 0 (by omega); rwa [selAt_cons_zero] at this
      have : (false || x.2) = false := by simp [hx]
      rw [this]
      have := ih i' (fun j hj => by have := hu (j + 1) (by omega); rwa [selAt_cons_succ] at this)
        (by simp at hi; omega)
      simp; omega

/-- without a selected line nothing is cut -/
theorem stopTrunc_none_sel : ∀ (l : List SLine), (∀ j, j < l.length → selAt l j = false) → stopTrunc false l = l := by
  intro l
  induction l with
  | nil => intro _; rfl
  | cons x r ih =>
    intro hu
    have hc : ¬ (!x.2 && false) = true := by simp
    rw [stopTrunc_cons_go r hc]
    have hx : x.2 = false := by have := hu 0 (by simp); rwa [selAt_cons_zero] at this
    have : (false || x.2) = false := by simp [hx]
    rw [this, ih (fun j hj => by have := hu (j + 1) (by simp; omega); rwa [selAt_cons_succ] at this)]

theorem spans_prefix_from (sl rest : List SLine) (p : Nat) (hp : p ≤ sl.length) :
    (List.range' p ((sl ++ rest).length - p)).map (span (sl ++ rest))
      = (List.range' p (sl.length - p)).map (span sl) ++ (List.range' sl.length rest.length).map (span (sl ++ rest)) := by
  have h1 : (sl ++ rest).length - p = (sl.length - p) + rest.length := by simp; omega
  have h2 : p + (sl.length - p) = sl.length := by omega
  rw [h1, ← List.range'_append_1, List.map_append, h2]
  congr 1
  apply List.map_congr_left
  intro j hj
  simp only [List.mem_range'_1] at hj
  simp only [span]
  rw [offsetAt_prefix _ _ _ (by omega), offsetAt_prefix _ _ _ (by omega)]

theorem pmAt_prefix {cfg : Config} (sl rest : List SLine) (j : Nat) (h : j < sl.length) :
    pmAt cfg (sl ++ rest) j = pmAt cfg sl j := by
  unfold pmAt; rw [selAt_prefix sl rest j h]

/-- **Fast path with `stop_on_nonmatch` = grep model.** -/
theorem sliceByLine_fast_stop (cfg : Config) (m : MatcherI) (inp : Bytes) (hbin : cfg.binary = .none)
    (hfast : isLineByLineFast cfg m (Core.new cfg true) = true) (hstop : cfg.stopOnNonmatch = true)
    (hfind : FindSpec cfg m inp (linesOf cfg m inp)) :
    (sliceByLine cfg m allCont inp).events = grepSpec cfg (lineSel cfg m) inp ∧
      (sliceByLine cfg m allCont inp).result = .ok () := by
  have hpt := fast_passthru_false hfast
  have hinv : cfg.invertMatch = false := by
    unfold isLineByLineFast at hfast
    cases hi : cfg.invertMatch
    · rfl
    · simp [hpt, hstop, hi] at hfast
  by_cases hne : inp = []
  · subst hne
    unfold sliceByLine
    dsimp only
    rw [begin_allCont]
    simp only [if_true]
    rw [detectBinary_none hbin rfl]
    simp [sliceLoop, st0, Core.new, finish, emit_allCont, byteCount, ite_self, Run.events, grepSpec, splitLines,
      grepSpecLines, effective, stopTrunc, offsetAt]
  -- the lines, and the part of them that counts
  have hlenF := linesOf_length cfg m inp
  have LF : Layout cfg.lineTerm.asByte inp (linesOf cfg m inp) := layout_splitLines _ inp (lineSel cfg m)
  have hselF : ∀ x ∈ linesOf cfg m inp, x.2 = lineSel cfg m x.1 := by
    intro x hx
    simp only [linesOf, List.mem_map] at hx
    obtain ⟨l, _, rfl⟩ := hx; rfl
  have hspec : grepSpec cfg (lineSel cfg m) inp = grepSpecLines cfg (linesOf cfg m inp) := rfl
  obtain ⟨rest, hpre, hstopok, hcut⟩ := effective_spec cfg (linesOf cfg m inp)
  have heff : effective cfg (linesOf cfg m inp) = stopTrunc false (linesOf cfg m inp) := by
    simp [effective, hstop]
  rw [hspec, grepSpecLines_eq]
  generalize hsl : effective cfg (linesOf cfg m inp) = sl at *
  generalize hslf : linesOf cfg m inp = slf at *
  subst hpre
  have L : Layout cfg.lineTerm.asByte inp sl := Searcher.Layout.prefix LF
  have hsel : ∀ j, j < sl.length → selAt sl j = lineSel cfg m (bytesAt sl j) :=
    selAt_of_forall (fun x hx => hselF x (by simp [hx]))
  have hF0 : FastInv cfg sl 0 0 (st0 cfg) :=
    ⟨(slowInv_init cfg _ true).inv, Nat.le_refl _, fun j h1 h2 => by omega, aclOK_init _ _, by simp [st0, Core.new, off_zero]⟩
  have hfast0 : isLineByLineFast cfg m (st0 cfg) = true := by
    rw [isLineByLineFast_congr cfg m (st := st0 cfg) (st' := Core.new cfg true) rfl]; exact hfast
  have hposlen : 0 < inp.length := List.length_pos_iff.mpr hne
  have hd0 : (List.drop (st0 cfg).pos inp).isEmpty = false := by
    cases inp with
    | nil => exact absurd rfl hne
    | cons a r => rfl
  -- what `match_by_line` returns
  have key : ∃ st' b, matchByLine cfg m allCont inp (st0 cfg) = (st', .ok b) ∧ (b = true → st'.pos = inp.length) ∧
      st'.binaryByteOffset = none ∧
      st'.events ++ [Event.finish st'.pos none] = Event.begin ::
        (List.range sl.length).flatMap (lineEvents cfg sl) ++ [Event.finish (offsetAt sl sl.length) none] := by
    have hfindr := hfind (st0 cfg) 0 (Nat.zero_le _) (by simp [st0, Core.new, off_zero])
    rw [Nat.sub_zero] at hfindr
    unfold matchByLine
    simp only [hfast0, if_true]
    unfold matchByLineFast
    cases hff : firstFrom (pmAt cfg (sl ++ rest)) 0 (sl ++ rest).length with
    | none =>
      -- no selected line at all: nothing is cut and nothing is delivered
      have hnone := firstFrom_none hff
      have hall : ∀ j, j < (sl ++ rest).length → selAt (sl ++ rest) j = false := by
        intro j hj
        have := hnone j (Nat.zero_le _) (by omega)
        rwa [pmAt_noninv hinv] at this
      have hrest : rest = [] := by
        have h1 := congrArg List.length heff
        rw [stopTrunc_none_sel _ hall, List.length_append] at h1
        exact List.length_eq_zero_iff.mp (by omega)
      subst hrest
      simp only [List.append_nil] at *
      rw [hff] at hfindr
      have hloop : fastLoop cfg m allCont inp (inp.length + 1) (st0 cfg) = (st0 cfg, .ok none) := by
        rw [fastLoop, hd0]
        have hm0 : (st0 cfg).hasMatched = false := rfl
        simp only [Bool.false_eq_true, if_false, hm0, Bool.and_false, hinv, hfindr, Option.map_none]
      rw [hloop]
      have hE : EndInv cfg sl 0 (st0 cfg) :=
        ⟨hF0.inv, Nat.zero_le _, fun j _ h2 => hall j h2, aclOK_init _ _⟩
      obtain ⟨st2, e2, hI2, hacl2, haclok2, hf2⟩ :=
        afterCtx_step L rfl hbin hE.inv hE.vn (Nat.le_refl _) hE.unsel hE.acl
      rw [← hlenF] at e2
      simp only [e2]
      refine ⟨{ st2 with pos := inp.length }, true, rfl, fun _ => rfl, hI2.bin, ?_⟩
      show st2.events ++ [Event.finish inp.length none] = _
      have hskip : ∀ j, 0 + min (st0 cfg).afterContextLeft (sl.length - 0) ≤ j → j < sl.length →
          kindAt cfg sl j = none := by
        intro j h1 h2
        exact kind_none haclok2 h1 (hE.unsel.mono (by omega) (Nat.le_refl _)) h2 (by rw [hacl2]; omega) hpt
          (Or.inr (Nat.le_refl _))
      rw [hI2.ev, flatMap_skip cfg sl _ sl.length (by simp [st0, Core.new]) hskip, hlenF]
    | some i =>
      obtain ⟨_, hin, hpmi, hbefore⟩ := firstFrom_some hff
      rw [pmAt_noninv hinv] at hpmi
      have hiF : i < (sl ++ rest).length := by omega
      have hbeforeF : ∀ j, j < i → selAt (sl ++ rest) j = false := by
        intro j hj
        have := hbefore j (Nat.zero_le _) hj
        rwa [pmAt_noninv hinv] at this
      have hi : i < sl.length := by
        have := stopTrunc_first_sel _ i hbeforeF hiF
        rw [← heff] at this; exact this
      have hsi : selAt sl i = true := by rw [← selAt_prefix sl rest i hi]; exact hpmi
      have hu : Unsel sl 0 i := fun j _ h2 => by
        rw [← selAt_prefix sl rest j (by omega)]; exact hbeforeF j h2
      rw [hff] at hfindr
      have hspan : span (sl ++ rest) i = span sl i := by
        simp only [span]; rw [offsetAt_prefix _ _ _ (by omega), offsetAt_prefix _ _ _ (by omega)]
      simp only [Option.map_some, hspan] at hfindr
      -- first iteration: context and the match
      have hIm : Inv cfg sl 0 { st0 cfg with hasMatched := true } := hF0.inv.of_fields rfl rfl rfl rfl rfl rfl rfl
      obtain ⟨st1, st2, e1, e2, h3⟩ := fast_match_step L rfl hbin hpt hIm (Nat.zero_le _) hi hu hsi hF0.acl
      obtain ⟨st3, e3, hI3, hacl3, hpos3, hm3⟩ := h3 (offsetAt sl (i + 1))
      have hs : (span sl i).s = offsetAt sl i := rfl
      have he : (span sl i).e = offsetAt sl (i + 1) := rfl
      have hiter1 : fastLoop cfg m allCont inp (inp.length + 1) (st0 cfg)
          = fastLoop cfg m allCont inp inp.length st3 := by
        rw [fastLoop, hd0]
        have hm0 : (st0 cfg).hasMatched = false := rfl
        simp only [Bool.false_eq_true, if_false, hm0, Bool.and_false, hinv, hfindr]
        by_cases hmc : cfg.maxContext > 0
        · simp only [hmc, if_true, hs, he, e1, e2, e3]
        · have hA : cfg.afterContext = 0 := by unfold Config.maxContext at hmc; omega
          have hB : cfg.beforeContext = 0 := by unfold Config.maxContext at hmc; omega
          have e1' : st1 = { st0 cfg with hasMatched := true } := by
            have : afterContextByLine cfg allCont inp { st0 cfg with hasMatched := true } (offsetAt sl i)
                = ({ st0 cfg with hasMatched := true }, .ok true) := by simp [afterContextByLine, st0, Core.new]
            rw [this] at e1; exact (Prod.mk.inj e1).1.symm
          have e2' : st2 = st1 := by
            have : beforeContextByLine cfg allCont inp st1 (offsetAt sl i) = (st1, .ok true) := by
              simp [beforeContextByLine, hB]
            rw [this] at e2; exact (Prod.mk.inj e2).1.symm
          subst e2'
          subst e1'
          dsimp only at e3
          simp only [hmc, if_false, he, e3]
      rw [hiter1]
      have hm3' : st3.hasMatched = true := hm3
      -- second iteration
      obtain ⟨k, hk⟩ : ∃ k, inp.length = k + 1 := ⟨inp.length - 1, by omega⟩
      by_cases hend : i + 1 = (sl ++ rest).length
      · -- the match is the last line of the input
        have hrest : rest = [] := by
          have : sl.length ≤ i + 1 := by simp at hend; omega
          have h2 : (sl ++ rest).length = sl.length + rest.length := by simp
          exact List.length_eq_zero_iff.mp (by omega)
        subst hrest
        simp only [List.append_nil] at *
        have hposend : st3.pos = inp.length := by rw [hpos3, hend, hlenF]
        have hloop2 : fastLoop cfg m allCont inp inp.length st3 = (st3, .ok none) := by
          rw [hk, fastLoop, hposend]; simp
        rw [hloop2]
        have hE : EndInv cfg sl (i + 1) st3 :=
          ⟨hI3, by omega, fun j h1 h2 => by omega, by rw [hacl3]; exact aclOK_match hsi⟩
        obtain ⟨st4, e4, hI4, hacl4, haclok4, hf4⟩ :=
          afterCtx_step L rfl hbin hE.inv hE.vn (Nat.le_refl _) hE.unsel hE.acl
        rw [← hlenF] at e4
        simp only [e4]
        refine ⟨{ st4 with pos := inp.length }, true, rfl, fun _ => rfl, hI4.bin, ?_⟩
        show st4.events ++ [Event.finish inp.length none] = _
        have hmin : i + 1 + min st3.afterContextLeft (sl.length - (i + 1)) = sl.length := by omega
        rw [hmin] at hI4
        rw [hI4.ev, hlenF]
      · -- hand over to the slow loop
        have hposlt : st3.pos < inp.length := by
          have h := LF.off_lt (show i + 1 < (sl ++ rest).length by omega) (Nat.le_refl _)
          rw [offsetAt_prefix sl rest (i + 1) (by omega)] at h
          rw [hpos3, hlenF]; exact h
        have hdrop : (List.drop st3.pos inp).isEmpty = false := by
          rw [List.isEmpty_eq_false_iff]
          intro h0
          have := congrArg List.length h0
          simp at this; omega
        have hloop2 : fastLoop cfg m allCont inp inp.length st3 = (st3, .ok (some .switchToSlow)) := by
          rw [hk, fastLoop, hdrop]
          try simp [hstop, hm3']
        rw [hloop2]
        dsimp only
        -- the slow loop from line i + 1
        have hS3 : SlowInv cfg sl (i + 1) (i + 1) st3 :=
          ⟨hI3, Nat.le_refl _, fun j h1 h2 => by omega, by rw [hacl3]; exact aclOK_match hsi, fun h => by omega,
            fun h => by simp [hpt] at h, by rw [hm3', hasSel_succ, hsi]; simp⟩
        have hsteps : stepLines cfg.lineTerm.asByte inp st3.pos inp.length
            = (List.range' (i + 1) (sl.length - (i + 1))).map (span sl)
              ++ (List.range' sl.length rest.length).map (span (sl ++ rest)) := by
          have h := LF.stepLines_index (i + 1) (sl ++ rest).length (by omega) (Nat.le_refl _)
          rw [← hlenF, spans_prefix_from sl rest (i + 1) (by omega), offsetAt_prefix _ _ _ (by omega)] at h
          rw [hpos3]; exact h
        obtain ⟨st', v', hS', hpos', hst', e'⟩ :=
          slowLoop_spec (m := m) L rfl hbin hsel hstopok (sl.length - (i + 1)) (i + 1) (i + 1) st3 (by omega) hS3
        have hev := hS'.final
        unfold matchByLineSlow
        rw [hsteps, slowLoop_append, e']
        by_cases hd : 0 < sl.length - (i + 1)
        · by_cases hr : rest = []
          · subst hr
            cases hb : (!(decide (0 < sl.length - (i + 1)) && stopsAtEnd cfg sl))
            · refine ⟨st', false, by simp [slowLoop], fun h => Bool.noConfusion h, hS'.inv.bin, ?_⟩
              rw [hev, hpos' hd]
            · refine ⟨st', true, by simp [slowLoop], fun _ => ?_, hS'.inv.bin, ?_⟩
              · rw [hpos' hd, hlenF]; simp
              · rw [hev, hpos' hd]
          · have hb : (!(decide (0 < sl.length - (i + 1)) && stopsAtEnd cfg sl)) = false := by simp [hd, hcut hr]
            rw [hb]
            refine ⟨st', false, rfl, fun h => Bool.noConfusion h, hS'.inv.bin, ?_⟩
            rw [hev, hpos' hd]
        · -- impossible: the cut would fall on the selected line i
          have hn : sl.length = i + 1 := by omega
          have hr : rest ≠ [] := by
            intro hr; subst hr; simp at hend; omega
          have := hcut hr
          simp only [stopsAtEnd, hn, Nat.add_sub_cancel, hsi, Bool.not_true, Bool.and_false, Bool.false_and] at this
          exact Bool.noConfusion this
  -- assemble `SliceByLine::run`
  obtain ⟨st', b, e1, hpos, hbo, hev⟩ := key
  unfold sliceByLine
  dsimp only
  rw [begin_allCont]
  simp only [if_true]
  rw [detectBinary_none hbin rfl]
  have hloop : sliceLoop cfg m allCont inp (inp.length + 1) (st0 cfg) = (st', .ok ()) := by
    rw [sliceLoop, hd0]
    simp only [Bool.false_eq_true, if_false, e1]
    cases b with
    | false => rfl
    | true =>
      cases hl : inp.length with
      | zero => omega
      | succ k =>
        simp only [sliceLoop, hpos rfl, hl]
        rw [← hl]; simp
  dsimp only
  rw [hloop]
  simp only [finish, emit_allCont, byteCount, ite_self, hbo, Run.events]
  exact ⟨hev, trivial⟩

end RgVerif.Searcher
