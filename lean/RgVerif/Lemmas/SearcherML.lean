import RgVerif.Lemmas.SearcherSimML
import RgVerif.Lemmas.SearcherDeliver
import RgVerif.Lemmas.SearcherTop
import RgVerif.Spec.MultiLine
/-
`MultiLine::run` without context and inversion: the blocks delivered are exactly the spec's pipeline
(successive matches → `locate` → merge touching ranges), each as one `matched` callback.
-/
namespace RgVerif.Searcher
open RgVerif RgVerif.Matcher RgVerif.Lines RgVerif.GrepSpec RgVerif.MLSpec

/-- the callback for a block (line numbers off) -/
def blockEv (inp : Bytes) (r : Span) : Event := .matched none r.s (slice inp r.s r.e)

def nonEmpty (r : Span) : Bool := r.e - r.s != 0

/-- configuration of the theorem: no context, no passthru, no inversion, no line numbers, no binary detection -/
structure PlainCfg (cfg : Config) : Prop where
  a : cfg.afterContext = 0
  b : cfg.beforeContext = 0
  pt : cfg.passthru = false
  inv : cfg.invertMatch = false
  ln : cfg.lineNumber = false
  bin : cfg.binary = .none

/-- what stays true of the core during such a run -/
structure Plain (st : Core) : Prop where
  acl : st.afterContextLeft = 0
  ln : st.lineNumber = none
  bbo : st.binaryByteOffset = none
  abs : st.absoluteByteOffset = 0

theorem mlSinkContext_plain {cfg : Config} (hc : PlainCfg cfg) (inp : Bytes) {st : Core} (hs : Plain st) (r : Span) :
    mlSinkContext cfg allCont inp st r = (st, .ok true) := by
  unfold mlSinkContext afterContextByLine beforeContextByLine
  simp [hc.pt, hc.b, hs.acl]

theorem mlSinkMatched_plain {cfg : Config} (hc : PlainCfg cfg) (inp : Bytes) {st : Core} (hs : Plain st) (r : Span) :
    mlSinkMatched cfg allCont inp st r =
      if nonEmpty r then
        ({ st with events := st.events ++ [blockEv inp r], lastLineVisited := r.e, afterContextLeft := 0,
                   hasSunk := true }, .ok true)
      else (st, .ok false) := by
  unfold mlSinkMatched matched nonEmpty
  by_cases he : (r.e - r.s == 0) = true
  · have h0 : r.e - r.s = 0 := by simpa using he
    simp [h0]
  · have hne : (r.e - r.s != 0) = true := by simpa using he
    simp only [he, hne, if_true, Bool.false_eq_true, if_false]
    rw [sinkMatched_allCont r hc.bin hs.bbo]
    have hb : brkCond cfg st r.s = false := by simp [brkCond, anyContext, hc.a, hc.b]
    simp only [hb, Bool.false_eq_true, if_false, List.append_nil, deliverGen, countLines, hs.ln, hs.abs, hc.a,
      Nat.zero_add, blockEv]

theorem mergeTouching_nil : mergeTouching [] = [] := rfl
theorem mergeTouching_single (r : Span) : mergeTouching [r] = [r] := rfl
theorem mergeTouching_cons2 (r1 r2 : Span) (rest : List Span) :
    mergeTouching (r1 :: r2 :: rest) =
      if r1.e ≥ r2.s then mergeTouching (⟨r1.s, r2.e⟩ :: rest) else r1 :: mergeTouching (r2 :: rest) := by
  simp only [mergeTouching, mergeAcc]

/-- the loop of `MultiLine::run` followed by the final flush of `last_match` -/
def mlRun (cfg : Config) (m : MatcherI) (inp : Bytes) (fuel : Nat) (s : ML) : Core × Res Bool :=
  match mlLoop cfg m allCont inp fuel s with
  | (s', .err) => (s'.core, .err)
  | (s', .ok kg) => mlFlush cfg allCont inp s' kg

def pendingList (s : ML) : List Span :=
  match s.lastMatch with
  | none => []
  | some r => [r]

/-- what the loop plus the flush deliver from state `s` on -/
def planFrom (cfg : Config) (m : MatcherI) (inp : Bytes) (fuel : Nat) (s : ML) : List Span :=
  (mergeTouching (pendingList s ++
    (matchesFrom (m.findAt inp) inp.length fuel s.core.pos).map (locate inp cfg.lineTerm.asByte))).takeWhile nonEmpty

theorem mlAdvance_pos (inp : Bytes) (st : Core) (mat : Span) : (mlAdvance inp st mat).pos = nextPos inp.length mat := by
  unfold mlAdvance nextPos
  dsimp only
  split <;> rfl

theorem mlAdvance_plain (inp : Bytes) {st : Core} (hs : Plain st) (mat : Span) : Plain (mlAdvance inp st mat) := by
  unfold mlAdvance; dsimp only
  split <;> exact ⟨hs.acl, hs.ln, hs.bbo, hs.abs⟩

theorem flush_plan {cfg : Config} (hc : PlainCfg cfg) (inp : Bytes) (s : ML) (hs : Plain s.core) :
    ∃ st' b, mlFlush cfg allCont inp s true = (st', .ok b) ∧ Plain st' ∧
      st'.events = s.core.events ++ ((pendingList s).takeWhile nonEmpty).map (blockEv inp) := by
  cases hl : s.lastMatch with
  | none =>
    refine ⟨s.core, true, by simp [mlFlush, hl], hs, by simp [pendingList, hl]⟩
  | some r =>
    by_cases hne : nonEmpty r = true
    · have he : ¬ (r.e - r.s == 0) = true := by simpa [nonEmpty] using hne
      have e1 : mlFlush cfg allCont inp s true = mlSinkMatched cfg allCont inp s.core r := by
        unfold mlFlush; simp only [if_true, hl, if_neg he, mlSinkContext_plain hc inp hs]
      rw [e1, mlSinkMatched_plain hc inp hs, if_pos hne]
      exact ⟨_, true, rfl, ⟨rfl, hs.ln, hs.bbo, hs.abs⟩, by simp [pendingList, hl, hne]⟩
    · have he : (r.e - r.s == 0) = true := by simpa [nonEmpty] using hne
      have e1 : mlFlush cfg allCont inp s true = (s.core, .ok true) := by
        unfold mlFlush; simp only [if_true, hl, if_pos he]
      rw [e1]
      exact ⟨s.core, true, rfl, hs, by simp [pendingList, hl, hne]⟩

theorem drop_isEmpty_ge (inp : Bytes) (pos : Nat) : (inp.drop pos).isEmpty = decide (pos ≥ inp.length) := by
  by_cases h : pos ≥ inp.length
  · simp [h, List.drop_eq_nil_of_le h]
  · simp only [h, decide_false]
    rw [List.isEmpty_eq_false_iff]
    intro he
    have := congrArg List.length he
    simp at this; omega

theorem mlRun_zero (cfg : Config) (m : MatcherI) (inp : Bytes) (s : ML) :
    mlRun cfg m inp 0 s = mlFlush cfg allCont inp s true := by
  simp [mlRun, mlLoop]

theorem mlRun_done (cfg : Config) (m : MatcherI) (inp : Bytes) (fuel : Nat) (s : ML)
    (h : s.core.pos ≥ inp.length) : mlRun cfg m inp (fuel + 1) s = mlFlush cfg allCont inp s true := by
  simp [mlRun, mlLoop, drop_isEmpty_ge, h]

theorem mlRun_cont (cfg : Config) (m : MatcherI) (inp : Bytes) (fuel : Nat) (s s1 : ML)
    (h : ¬ s.core.pos ≥ inp.length) (hs : mlSink cfg m allCont inp s = (s1, .ok true)) :
    mlRun cfg m inp (fuel + 1) s = mlRun cfg m inp fuel s1 := by
  simp [mlRun, mlLoop, drop_isEmpty_ge, h, hs]

theorem mlRun_stop (cfg : Config) (m : MatcherI) (inp : Bytes) (fuel : Nat) (s s1 : ML)
    (h : ¬ s.core.pos ≥ inp.length) (hs : mlSink cfg m allCont inp s = (s1, .ok false)) :
    mlRun cfg m inp (fuel + 1) s = (s1.core, .ok false) := by
  simp [mlRun, mlLoop, drop_isEmpty_ge, h, hs, mlFlush]

theorem planFrom_nomatch (cfg : Config) (m : MatcherI) (inp : Bytes) (fuel : Nat) (s : ML)
    (h : matchesFrom (m.findAt inp) inp.length fuel s.core.pos = []) :
    planFrom cfg m inp fuel s = (pendingList s).takeWhile nonEmpty := by
  unfold planFrom
  rw [h, List.map_nil, List.append_nil]
  unfold pendingList
  cases s.lastMatch with
  | none => rw [mergeTouching_nil]
  | some r => rw [mergeTouching_single]

theorem matchesFrom_done (f : Nat → Option Span) (len fuel pos : Nat) (h : pos ≥ len) :
    matchesFrom f len fuel pos = [] := by
  cases fuel with
  | zero => rfl
  | succ k => simp [matchesFrom, h]

/-- **the loop and the final flush deliver exactly the planned blocks** -/
theorem mlRun_plan {cfg : Config} (hc : PlainCfg cfg) (m : MatcherI) (inp : Bytes) :
    ∀ (fuel : Nat) (s : ML), Plain s.core →
      ∃ st' b, mlRun cfg m inp fuel s = (st', .ok b) ∧ Plain st' ∧
        st'.events = s.core.events ++ (planFrom cfg m inp fuel s).map (blockEv inp) := by
  intro fuel
  induction fuel with
  | zero =>
    intro s hs
    rw [mlRun_zero, planFrom_nomatch cfg m inp 0 s rfl]
    exact flush_plan hc inp s hs
  | succ fuel ih =>
    intro s hs
    by_cases hpos : s.core.pos ≥ inp.length
    · rw [mlRun_done cfg m inp fuel s hpos,
        planFrom_nomatch cfg m inp (fuel + 1) s (matchesFrom_done _ _ _ _ hpos)]
      exact flush_plan hc inp s hs
    · cases hf : m.findAt inp s.core.pos with
      | none =>
        have hsink : mlSink cfg m allCont inp s
            = ({ s with core := { s.core with pos := inp.length } }, .ok true) := by
          simp [mlSink, hc.inv, mlFind, hf]
        rw [mlRun_cont cfg m inp fuel s _ hpos hsink]
        obtain ⟨st', b, e, hp, hev⟩ := ih { s with core := { s.core with pos := inp.length } }
          ⟨hs.acl, hs.ln, hs.bbo, hs.abs⟩
        refine ⟨st', b, e, hp, ?_⟩
        rw [hev]
        have h1 : planFrom cfg m inp fuel { s with core := { s.core with pos := inp.length } }
            = (pendingList s).takeWhile nonEmpty :=
          planFrom_nomatch cfg m inp fuel _ (matchesFrom_done _ _ _ _ (Nat.le_refl _))
        have h2 : planFrom cfg m inp (fuel + 1) s = (pendingList s).takeWhile nonEmpty :=
          planFrom_nomatch cfg m inp (fuel + 1) s (by simp [matchesFrom, hpos, hf])
        rw [h1, h2]
      | some mat =>
        have hms : matchesFrom (m.findAt inp) inp.length (fuel + 1) s.core.pos
            = mat :: matchesFrom (m.findAt inp) inp.length fuel (nextPos inp.length mat) := by
          simp [matchesFrom, hpos, hf]
        have hadv := mlAdvance_pos inp s.core mat
        have hadvp := mlAdvance_plain inp hs mat
        have hadve := mlAdvance_events inp s.core mat
        generalize hline : locate inp cfg.lineTerm.asByte mat = line
        cases hl : s.lastMatch with
        | none =>
          have hsink : mlSink cfg m allCont inp s
              = ({ core := mlAdvance inp s.core mat, lastMatch := some line }, .ok true) := by
            simp [mlSink, hc.inv, mlFind, hf, hl, hline]
          rw [mlRun_cont cfg m inp fuel s _ hpos hsink]
          obtain ⟨st', b, e, hp, hev⟩ := ih { core := mlAdvance inp s.core mat, lastMatch := some line } hadvp
          refine ⟨st', b, e, hp, ?_⟩
          rw [hev, hadve]
          congr 2
          unfold planFrom pendingList
          simp only [hl, hms, hadv, List.map_cons, hline, List.nil_append, List.singleton_append]
        | some P =>
          by_cases hge : P.e ≥ line.s
          · have hsink : mlSink cfg m allCont inp s
                = ({ core := mlAdvance inp s.core mat, lastMatch := some ⟨P.s, line.e⟩ }, .ok true) := by
              simp [mlSink, hc.inv, mlFind, hf, hl, hline, hge]
            rw [mlRun_cont cfg m inp fuel s _ hpos hsink]
            obtain ⟨st', b, e, hp, hev⟩ :=
              ih { core := mlAdvance inp s.core mat, lastMatch := some ⟨P.s, line.e⟩ } hadvp
            refine ⟨st', b, e, hp, ?_⟩
            rw [hev, hadve]
            congr 2
            unfold planFrom pendingList
            simp only [hl, hms, hadv, List.map_cons, hline, List.singleton_append]
            rw [mergeTouching_cons2, if_pos hge]
          · have hctx := mlSinkContext_plain hc inp hadvp P
            have hmat := mlSinkMatched_plain hc inp hadvp P
            have hplan : planFrom cfg m inp (fuel + 1) s
                = (P :: mergeTouching (line :: (matchesFrom (m.findAt inp) inp.length fuel
                    (nextPos inp.length mat)).map (locate inp cfg.lineTerm.asByte))).takeWhile nonEmpty := by
              unfold planFrom pendingList
              simp only [hl, hms, List.map_cons, hline, List.singleton_append]
              rw [mergeTouching_cons2, if_neg hge]
            by_cases hne : nonEmpty P = true
            · rw [if_pos hne] at hmat
              have hsink : mlSink cfg m allCont inp s
                  = ({ core := { mlAdvance inp s.core mat with
                                  events := (mlAdvance inp s.core mat).events ++ [blockEv inp P]
                                  lastLineVisited := P.e, afterContextLeft := 0, hasSunk := true },
                       lastMatch := some line }, .ok true) := by
                simp [mlSink, hc.inv, mlFind, hf, hl, hline, hge, hctx, hmat]
              rw [mlRun_cont cfg m inp fuel s _ hpos hsink]
              obtain ⟨st', b, e, hp, hev⟩ := ih
                { core := { mlAdvance inp s.core mat with
                              events := (mlAdvance inp s.core mat).events ++ [blockEv inp P]
                              lastLineVisited := P.e, afterContextLeft := 0, hasSunk := true },
                  lastMatch := some line } ⟨rfl, hadvp.ln, hadvp.bbo, hadvp.abs⟩
              refine ⟨st', b, e, hp, ?_⟩
              rw [hev, hplan, List.takeWhile_cons_of_pos hne]
              simp only [hadve, List.map_cons, List.append_assoc, List.singleton_append]
              congr 2
              unfold planFrom pendingList
              simp only [hadv, List.singleton_append]
            · rw [if_neg hne] at hmat
              have hsink : mlSink cfg m allCont inp s
                  = ({ core := mlAdvance inp s.core mat, lastMatch := some line }, .ok false) := by
                simp [mlSink, hc.inv, mlFind, hf, hl, hline, hge, hctx, hmat]
              rw [mlRun_stop cfg m inp fuel s _ hpos hsink]
              refine ⟨_, false, rfl, hadvp, ?_⟩
              rw [hplan, List.takeWhile_cons_of_neg hne, hadve]
              simp


/-- the blocks as the code delivers them: an empty range ends the delivery -/
def codeBlocks (cfg : Config) (m : MatcherI) (inp : Bytes) : List Span :=
  (mergeTouching ((mlMatches m inp).map (locate inp cfg.lineTerm.asByte))).takeWhile nonEmpty

theorem mlTrailing_plain {cfg : Config} (hc : PlainCfg cfg) (inp : Bytes) {st : Core} (hs : Plain st) :
    mlTrailing cfg allCont inp st = (st, .ok ()) := by
  unfold mlTrailing afterContextByLine
  simp [hc.pt, hs.acl]

/-- **Multi-line search without context**: the sink is told `begin`, one `matched` per block of the plan
(successive matches over the whole input → lines → merged), and `finish`. -/
theorem multiLine_plain {cfg : Config} (hc : PlainCfg cfg) (m : MatcherI) (inp : Bytes) :
    ∃ bc, (multiLine cfg m allCont inp).events =
        Event.begin :: (codeBlocks cfg m inp).map (blockEv inp) ++ [Event.finish bc none] ∧
      (multiLine cfg m allCont inp).result = .ok () := by
  have hp0 : Plain (st0 cfg) := ⟨rfl, by simp [st0, Core.new, hc.ln], rfl, rfl⟩
  obtain ⟨st', b, e, hp, hev⟩ := mlRun_plan hc m inp (inp.length + 1) { core := st0 cfg } hp0
  have hplan : planFrom cfg m inp (inp.length + 1) { core := st0 cfg } = codeBlocks cfg m inp := by
    unfold planFrom codeBlocks pendingList mlMatches
    simp [st0, Core.new]
  rw [hplan] at hev
  have hpre : mlPre cfg m allCont inp = (st', .ok ()) := by
    unfold mlPre
    rw [begin_allCont]
    simp only [if_true]
    rw [detectBinary_none hc.bin rfl]
    dsimp only
    unfold mlRun at e
    rcases hl : mlLoop cfg m allCont inp (inp.length + 1) { core := st0 cfg } with ⟨s2, kg | _⟩
    · rw [hl] at e
      dsimp only at e ⊢
      rw [e]
      cases b
      · rfl
      · exact mlTrailing_plain hc inp hp
    · rw [hl] at e
      simp at e
  refine ⟨byteCount cfg st', ?_, ?_⟩
  · rw [multiLine_eq, hpre]
    simp [finishRun, finish_eq, Run.events, hev, hp.bbo, st0]
  · rw [multiLine_eq, hpre]
    simp [finishRun, finish_eq, allCont]

end RgVerif.Searcher
