import RgVerif.Lemmas.CoreSliceContract
/-
The `MultiLine` strategy (`glue.rs`, `-U`) keeps every invariant of `CorePres`: everything it
delivers goes through `Core::matched` / the `*_context_by_line` helpers, i.e. through the guarded
`sink_*` calls; what it does itself only moves `pos` / `last_match`.  Hence the C14 searcher
contract (`SI`) for the multi-line searcher.
-/
namespace RgVerif.Searcher
open RgVerif RgVerif.Matcher RgVerif.Lines

variable {cfg : Config} {σ : Script} {buf : Bytes} {I : Core → Prop}

theorem otherLoop_pres (H : CorePres cfg σ buf I) (ls : List Span) :
    ∀ st, I st → I (otherLoop cfg σ buf ls st).1 := by
  induction ls with
  | nil => intro st h; exact h
  | cons l ls ih =>
    intro st h
    unfold otherLoop
    exact bind_pres _ _ (H.so st l h) ih

theorem otherContextByLine_pres (H : CorePres cfg σ buf I) (st : Core) (u : Nat) (h : I st) :
    I (otherContextByLine cfg σ buf st u).1 :=
  otherLoop_pres H _ _ h

theorem mlAdvance_pres (H : CorePres cfg σ buf I) (st : Core) (r : Span) (h : I st) : I (mlAdvance buf st r) := by
  unfold mlAdvance
  dsimp only
  split
  · exact H.upd st _ h rfl rfl rfl
  · exact H.upd st _ h rfl rfl rfl

theorem mlSinkMatched_pres (H : CorePres cfg σ buf I) (st : Core) (r : Span) (h : I st) :
    I (mlSinkMatched cfg σ buf st r).1 := by
  unfold mlSinkMatched
  split
  · exact h
  · exact H.sm st r h

theorem mlSinkContext_pres (H : CorePres cfg σ buf I) (st : Core) (r : Span) (h : I st) :
    I (mlSinkContext cfg σ buf st r).1 := by
  unfold mlSinkContext
  split
  · exact bind_pres _ (fun st => (st, Res.ok true)) (otherContextByLine_pres H st r.s h) (fun s hs => hs)
  · exact bind_pres _ _ (afterContextByLine_pres H st r.s h)
      (fun s hs => bind_pres _ (fun st => (st, Res.ok true)) (beforeContextByLine_pres H s r.s hs) (fun s2 hs2 => hs2))

theorem mlMatchedLoop_pres (H : CorePres cfg σ buf I) (ls : List Span) :
    ∀ st, I st → I (mlMatchedLoop cfg σ buf ls st).1 := by
  induction ls with
  | nil => intro st h; exact h
  | cons l ls ih =>
    intro st h
    unfold mlMatchedLoop
    exact bind_pres _ _ (mlSinkMatched_pres H st l h) ih

theorem mlSinkMatchedInverted_pres (H : CorePres cfg σ buf I) (m : MatcherI) (s : ML) (h : I s.core) :
    I (mlSinkMatchedInverted cfg m σ buf s).1.core := by
  unfold mlSinkMatchedInverted
  have key : ∀ (im : Span) (s0 : Core), I s0 →
      I (if im.e - im.s == 0 then (({ s with core := s0 } : ML), Res.ok true)
        else
          match mlSinkContext cfg σ buf s0 im with
          | (st, .ok true) =>
            let (st, r) := mlMatchedLoop cfg σ buf (stepLines cfg.lineTerm.asByte buf im.s im.e) st
            (({ s with core := st } : ML), r)
          | (st, r) => (({ s with core := st } : ML), r)).1.core := by
    intro im s0 h0
    split
    · exact h0
    · have hc := mlSinkContext_pres H s0 im h0
      generalize mlSinkContext cfg σ buf s0 im = g at hc ⊢
      obtain ⟨s1, r1⟩ := g
      cases r1 with
      | err => exact hc
      | ok b =>
        cases b with
        | false => exact hc
        | true => exact mlMatchedLoop_pres H _ s1 hc
  dsimp only
  cases mlFind m buf s.core with
  | none => exact key ⟨s.core.pos, buf.length⟩ { s.core with pos := buf.length } (H.upd s.core _ h rfl rfl rfl)
  | some mat =>
    exact key ⟨s.core.pos, (locate buf cfg.lineTerm.asByte mat).s⟩
      (mlAdvance buf s.core (locate buf cfg.lineTerm.asByte mat)) (mlAdvance_pres H _ _ h)

theorem mlSink_pres (H : CorePres cfg σ buf I) (m : MatcherI) (s : ML) (h : I s.core) :
    I (mlSink cfg m σ buf s).1.core := by
  unfold mlSink
  split
  · exact mlSinkMatchedInverted_pres H m s h
  · cases mlFind m buf s.core with
    | none => exact H.upd s.core _ h rfl rfl rfl
    | some mat =>
      dsimp only
      have ha := mlAdvance_pres H s.core mat h
      cases s.lastMatch with
      | none => exact ha
      | some lm =>
        dsimp only
        split
        · exact ha
        · have hc := mlSinkContext_pres H _ lm ha
          generalize mlSinkContext cfg σ buf (mlAdvance buf s.core mat) lm = g at hc ⊢
          obtain ⟨s1, r1⟩ := g
          cases r1 with
          | err => exact hc
          | ok b =>
            cases b with
            | false => exact hc
            | true => exact mlSinkMatched_pres H s1 lm hc

theorem mlLoop_pres (H : CorePres cfg σ buf I) (m : MatcherI) (fuel : Nat) :
    ∀ s : ML, I s.core → I (mlLoop cfg m σ buf fuel s).1.core := by
  induction fuel with
  | zero => intro s h; exact h
  | succ fuel ih =>
    intro s h
    unfold mlLoop
    split
    · exact h
    · have hg := mlSink_pres H m s h
      generalize mlSink cfg m σ buf s = g at hg ⊢
      obtain ⟨s1, r1⟩ := g
      cases r1 with
      | err => exact hg
      | ok b =>
        cases b with
        | false => exact hg
        | true => exact ih s1 hg

/-- **`MultiLine::run` keeps the contract**: for every configuration, matcher and sink script. -/
theorem multiLine_SI (cfg : Config) (m : MatcherI) (σ : Script) (inp : Bytes) (b : Nat)
    (hb : cfg.binary.byte? = some b) : SI cfg b (multiLine cfg m σ inp).core := by
  have h0 : SI cfg b (Core.new cfg true) :=
    ⟨rfl, by simp [Core.new], by intro pre ev post h; simp [Core.new] at h, by intro _ e he; simp [Core.new] at he⟩
  have hbeg : SI cfg b (begin σ (Core.new cfg true)).1 := SI.emit_nobytes σ _ rfl h0
  have H := SI.corePres hb σ inp
  unfold multiLine
  dsimp only
  split
  · rename_i st1 heq
    rw [heq] at hbeg
    exact hbeg
  · rename_i st1 keepgoing heq
    rw [heq] at hbeg
    -- the trailing context after the last match
    have htail : ∀ st : Core, SI cfg b st →
        SI cfg b (if cfg.passthru = true then
            match otherContextByLine cfg σ inp st inp.length with
            | (st, .err) => (st, Res.err)
            | (st, .ok _) => (st, .ok ())
          else
            match afterContextByLine cfg σ inp st inp.length with
            | (st, .err) => (st, Res.err)
            | (st, .ok _) => (st, .ok ())).1 := by
      intro st hs
      split
      · have := otherContextByLine_pres H st inp.length hs
        generalize otherContextByLine cfg σ inp st inp.length = g at this ⊢
        obtain ⟨s1, r1⟩ := g
        cases r1 <;> exact this
      · have := afterContextByLine_pres H st inp.length hs
        generalize afterContextByLine cfg σ inp st inp.length = g at this ⊢
        obtain ⟨s1, r1⟩ := g
        cases r1 <;> exact this
    -- flushing the pending match
    have hflush : ∀ (s : ML) (kg : Bool), SI cfg b s.core →
        SI cfg b (if kg = true then
            match s.lastMatch with
            | none => (s.core, Res.ok true)
            | some lastMatch =>
              if lastMatch.e - lastMatch.s == 0 then (s.core, Res.ok true)
              else
                match mlSinkContext cfg σ inp s.core lastMatch with
                | (st, .ok true) => mlSinkMatched cfg σ inp st lastMatch
                | (st, r) => (st, r)
          else (s.core, Res.ok false)).1 := by
      intro s kg hs
      split
      · cases s.lastMatch with
        | none => exact hs
        | some lm =>
          dsimp only
          split
          · exact hs
          · exact bind_pres _ _ (mlSinkContext_pres H s.core lm hs) (fun s2 hs2 => mlSinkMatched_pres H s2 lm hs2)
      · exact hs
    have hbody : SI cfg b
        (if keepgoing = true then
          match detectBinary cfg σ inp ⟨0, min inp.length defaultBufferCapacity⟩ st1 with
          | (st, .err) => (st, Res.err)
          | (st, .ok true) => (st, .ok ())
          | (st, .ok false) =>
            match mlLoop cfg m σ inp (inp.length + 1) { core := st } with
            | (s, .err) => (s.core, Res.err)
            | (s, .ok keepgoing) =>
              match (if keepgoing = true then
                  match s.lastMatch with
                  | none => (s.core, Res.ok true)
                  | some lastMatch =>
                    if lastMatch.e - lastMatch.s == 0 then (s.core, Res.ok true)
                    else
                      match mlSinkContext cfg σ inp s.core lastMatch with
                      | (st, .ok true) => mlSinkMatched cfg σ inp st lastMatch
                      | (st, r) => (st, r)
                else (s.core, Res.ok false)) with
              | (st, .err) => (st, Res.err)
              | (st, .ok false) => (st, .ok ())
              | (st, .ok true) =>
                if cfg.passthru = true then
                  match otherContextByLine cfg σ inp st inp.length with
                  | (st, .err) => (st, Res.err)
                  | (st, .ok _) => (st, .ok ())
                else
                  match afterContextByLine cfg σ inp st inp.length with
                  | (st, .err) => (st, Res.err)
                  | (st, .ok _) => (st, .ok ())
        else (st1, .ok ())).1 := by
      split
      · have hg := hbeg.guard hb σ inp ⟨0, min inp.length defaultBufferCapacity⟩
        unfold binaryGuard at hg
        rw [if_pos hbeg.flag] at hg
        generalize detectBinary cfg σ inp ⟨0, min inp.length defaultBufferCapacity⟩ st1 = g at hg ⊢
        obtain ⟨s1, r1⟩ := g
        cases r1 with
        | err => exact hg.1
        | ok bb =>
          cases bb with
          | true => exact hg.1
          | false =>
            dsimp only
            have hl := mlLoop_pres H m (inp.length + 1) { core := s1 } hg.1
            generalize mlLoop cfg m σ inp (inp.length + 1) { core := s1 } = gl at hl ⊢
            obtain ⟨s2, r2⟩ := gl
            cases r2 with
            | err => exact hl
            | ok kg =>
              dsimp only
              have hf := hflush s2 kg hl
              generalize (if kg = true then
                  match s2.lastMatch with
                  | none => (s2.core, Res.ok true)
                  | some lastMatch =>
                    if lastMatch.e - lastMatch.s == 0 then (s2.core, Res.ok true)
                    else
                      match mlSinkContext cfg σ inp s2.core lastMatch with
                      | (st, .ok true) => mlSinkMatched cfg σ inp st lastMatch
                      | (st, r) => (st, r)
                else (s2.core, Res.ok false)) = gf at hf ⊢
              obtain ⟨s3, r3⟩ := gf
              cases r3 with
              | err => exact hf
              | ok b3 =>
                cases b3 with
                | false => exact hf
                | true => exact htail s3 hf
      · exact hbeg
    generalize (if keepgoing = true then
          match detectBinary cfg σ inp ⟨0, min inp.length defaultBufferCapacity⟩ st1 with
          | (st, .err) => (st, Res.err)
          | (st, .ok true) => (st, .ok ())
          | (st, .ok false) =>
            match mlLoop cfg m σ inp (inp.length + 1) { core := st } with
            | (s, .err) => (s.core, Res.err)
            | (s, .ok keepgoing) =>
              match (if keepgoing = true then
                  match s.lastMatch with
                  | none => (s.core, Res.ok true)
                  | some lastMatch =>
                    if lastMatch.e - lastMatch.s == 0 then (s.core, Res.ok true)
                    else
                      match mlSinkContext cfg σ inp s.core lastMatch with
                      | (st, .ok true) => mlSinkMatched cfg σ inp st lastMatch
                      | (st, r) => (st, r)
                else (s.core, Res.ok false)) with
              | (st, .err) => (st, Res.err)
              | (st, .ok false) => (st, .ok ())
              | (st, .ok true) =>
                if cfg.passthru = true then
                  match otherContextByLine cfg σ inp st inp.length with
                  | (st, .err) => (st, Res.err)
                  | (st, .ok _) => (st, .ok ())
                else
                  match afterContextByLine cfg σ inp st inp.length with
                  | (st, .err) => (st, Res.err)
                  | (st, .ok _) => (st, .ok ())
        else (st1, .ok ())) = g2 at hbody ⊢
    obtain ⟨s', r'⟩ := g2
    cases r' with
    | err => exact hbody
    | ok u => exact SI.finish σ _ _ hbody

end RgVerif.Searcher
