import RgVerif.Lemmas.SearcherLayout
/-
Single-line delivery: what each `sink_*` of `Core` does to the invariant `Inv` that ties the core's
state to the grep model (all-continue sink, binary detection off).
-/
namespace RgVerif.Searcher
open RgVerif RgVerif.Matcher RgVerif.Lines RgVerif.GrepSpec

/-! ### spec side -/

theorem flatMap_range_succ (f : Nat → List Event) (j : Nat) :
    (List.range (j + 1)).flatMap f = (List.range j).flatMap f ++ f j := by
  rw [List.range_succ, List.flatMap_append]; simp

theorem lineEvents_none {cfg : Config} {sl : List SLine} {j : Nat} (h : kindAt cfg sl j = none) :
    lineEvents cfg sl j = [] := by simp [lineEvents, h]

/-- skipping undelivered lines does not change the delivered events -/
theorem flatMap_skip (cfg : Config) (sl : List SLine) (v : Nat) : ∀ (j : Nat), v ≤ j →
    (∀ j', v ≤ j' → j' < j → kindAt cfg sl j' = none) →
    (List.range j).flatMap (lineEvents cfg sl) = (List.range v).flatMap (lineEvents cfg sl) := by
  intro j
  induction j with
  | zero => intro h _; have : v = 0 := by omega
            subst this; rfl
  | succ j ih =>
    intro h hs
    by_cases hv : v = j + 1
    · subst hv; rfl
    · rw [flatMap_range_succ, lineEvents_none (hs j (by omega) (by omega)), List.append_nil]
      exact ih (by omega) (fun j' h1 h2 => hs j' h1 (by omega))

theorem any_range_delivered {cfg : Config} {sl : List SLine} {j : Nat} :
    (List.range j).any (delivered cfg sl) = true ↔ ∃ j', j' < j ∧ delivered cfg sl j' = true := by
  simp [List.any_eq_true]

/-- the break rule, given that the lines `[v, j)` are not delivered and `v - 1` is the last delivered one -/
theorem breakBefore_eq {cfg : Config} {sl : List SLine} {v j : Nat} (hvj : v ≤ j)
    (hskip : ∀ j', v ≤ j' → j' < j → kindAt cfg sl j' = none)
    (hd : 0 < v → delivered cfg sl (v - 1) = true) :
    breakBefore cfg sl j = (anyContext cfg && decide (0 < v) && decide (v < j)) := by
  have hnd : ∀ j', v ≤ j' → j' < j → delivered cfg sl j' = false := by
    intro j' h1 h2; simp [delivered, hskip j' h1 h2]
  unfold breakBefore
  cases hac : anyContext cfg
  · simp
  · simp only [Bool.true_and]
    by_cases h0 : 0 < v
    · by_cases hlt : v < j
      · have h1 : delivered cfg sl (j - 1) = false := hnd (j - 1) (by omega) (by omega)
        have h2 : (List.range j).any (delivered cfg sl) = true :=
          any_range_delivered.mpr ⟨v - 1, by omega, hd h0⟩
        simp [h0, hlt, h1, h2]; omega
      · have : v = j := by omega
        subst this
        simp [h0, hd h0]
    · have hv : v = 0 := by omega
      subst hv
      have h2 : (List.range j).any (delivered cfg sl) = false := by
        rw [Bool.eq_false_iff]
        intro h
        obtain ⟨j', hj', hdj⟩ := any_range_delivered.mp h
        rw [hnd j' (by omega) hj'] at hdj; exact Bool.noConfusion hdj
      simp [h2]

/-! ### the invariant -/

/-- `v` lines have been decided (the last of them, if any, was delivered) and the sink saw exactly
what the grep model prescribes for them. -/
structure Inv (cfg : Config) (sl : List SLine) (v : Nat) (st : Core) : Prop where
  llv : st.lastLineVisited = offsetAt sl v
  sunk : st.hasSunk = decide (0 < v)
  deliv : 0 < v → delivered cfg sl (v - 1) = true
  /-- the line counter stands at the start of some decided line `c` (the last one for line-by-line search,
  the first line of the last block for multi-line search) -/
  cnt : ∃ c, c ≤ v - 1 ∧ (cfg.lineNumber = true → st.lastLineCounted = offsetAt sl c) ∧ st.lineNumber = lineNo cfg c
  abs : st.absoluteByteOffset = 0
  bin : st.binaryByteOffset = none
  ev : st.events = Event.begin :: (List.range v).flatMap (lineEvents cfg sl)

/-- the event of line `j` for kind `k` -/
def evOf (cfg : Config) (sl : List SLine) (j : Nat) : Kind → Event
  | .matched => Event.matched (lineNo cfg j) (offsetAt sl j) (bytesAt sl j)
  | .ctx c => Event.context c (lineNo cfg j) (offsetAt sl j) (bytesAt sl j)

def mkOf : Kind → Option Nat → Nat → Bytes → Event
  | .matched => Event.matched
  | .ctx c => Event.context c

theorem lineEvents_some {cfg : Config} {sl : List SLine} {j : Nat} {k : Kind} (h : kindAt cfg sl j = some k) :
    lineEvents cfg sl j = (if breakBefore cfg sl j then [Event.contextBreak] else []) ++ [evOf cfg sl j k] := by
  simp only [lineEvents, h]
  cases k <;> rfl

/-! ### normal forms for the all-continue sink -/

theorem emit_allCont (st : Core) (ev : Event) :
    emit allCont st ev = ({ st with events := st.events ++ [ev] }, .ok true) := rfl

theorem binaryGuard_none {cfg : Config} {σ : Script} {buf : Bytes} {r : Span} {st : Core}
    (hbin : cfg.binary = .none) (hb : st.binaryByteOffset = none) :
    binaryGuard cfg σ buf r st = (st, .ok false) := by
  unfold binaryGuard detectBinary
  simp [hbin, hb]

def brkCond (cfg : Config) (st : Core) (o : Nat) : Bool :=
  anyContext cfg && st.hasSunk && decide (st.lastLineVisited < o)

theorem sinkBreakContext_allCont (cfg : Config) (st : Core) (o : Nat) :
    sinkBreakContext cfg allCont st o
      = ({ st with events := st.events ++ (if brkCond cfg st o then [Event.contextBreak] else []) }, .ok true) := by
  unfold sinkBreakContext brkCond anyContext
  cases st
  simp only [emit_allCont]
  split
  · simp_all
    rename_i h
    intro h1 h2
    rcases h with (⟨ha, hb⟩ | h) | h
    · omega
    · simp_all
    · exact h
  · simp_all

/-- the common shape of `sink_matched` / `sink_*_context` after the guard and the break -/
def deliverGen (cfg : Config) (buf : Bytes) (mk : Option Nat → Nat → Bytes → Event) (acl : Nat)
    (st : Core) (r : Span) : Core :=
  let st1 := countLines cfg buf st r.s
  { st1 with events := st1.events ++ [mk st1.lineNumber (st1.absoluteByteOffset + r.s) (slice buf r.s r.e)]
           , lastLineVisited := r.e, afterContextLeft := acl, hasSunk := true }

theorem sinkMatched_allCont {cfg : Config} {buf : Bytes} {st : Core} (r : Span)
    (hbin : cfg.binary = .none) (hb : st.binaryByteOffset = none) :
    sinkMatched cfg allCont buf st r
      = (deliverGen cfg buf Event.matched cfg.afterContext
          { st with events := st.events ++ (if brkCond cfg st r.s then [Event.contextBreak] else []) } r, .ok true) := by
  unfold sinkMatched
  rw [binaryGuard_none hbin hb]
  simp only [sinkBreakContext_allCont, emit_allCont, deliverGen]

theorem sinkBeforeContext_allCont {cfg : Config} {buf : Bytes} {st : Core} (r : Span)
    (hbin : cfg.binary = .none) (hb : st.binaryByteOffset = none) :
    sinkBeforeContext cfg allCont buf st r
      = (deliverGen cfg buf (Event.context .before) st.afterContextLeft st r, .ok true) := by
  unfold sinkBeforeContext
  rw [binaryGuard_none hbin hb]
  simp only [emit_allCont, deliverGen]
  cases st; simp [countLines]; split <;> (try split) <;> rfl


theorem sinkAfterContext_allCont {cfg : Config} {buf : Bytes} {st : Core} (r : Span)
    (hbin : cfg.binary = .none) (hb : st.binaryByteOffset = none) :
    sinkAfterContext cfg allCont buf st r
      = (deliverGen cfg buf (Event.context .after) (st.afterContextLeft - 1) st r, .ok true) := by
  unfold sinkAfterContext
  rw [binaryGuard_none hbin hb]
  simp only [emit_allCont, deliverGen]
  cases st; simp [countLines]; split <;> (try split) <;> rfl

theorem sinkOtherContext_allCont {cfg : Config} {buf : Bytes} {st : Core} (r : Span)
    (hbin : cfg.binary = .none) (hb : st.binaryByteOffset = none) :
    sinkOtherContext cfg allCont buf st r
      = (deliverGen cfg buf (Event.context .other) st.afterContextLeft st r, .ok true) := by
  unfold sinkOtherContext
  rw [binaryGuard_none hbin hb]
  simp only [emit_allCont, deliverGen]
  cases st; simp [countLines]; split <;> (try split) <;> rfl

/-! ### counting lines -/

theorem countLines_spec {t : Nat} {buf : Bytes} {sl : List SLine} {cfg : Config} (L : Layout t buf sl)
    (ht : cfg.lineTerm.asByte = t) {c j : Nat} {st : Core}
    (hllc : cfg.lineNumber = true → st.lastLineCounted = offsetAt sl c)
    (hln : st.lineNumber = lineNo cfg c) (hvj : c ≤ j) (hj : j < sl.length) :
    countLines cfg buf st (offsetAt sl j)
      = { st with lineNumber := lineNo cfg j
                , lastLineCounted := if cfg.lineNumber then offsetAt sl j else st.lastLineCounted } := by
  unfold countLines
  cases hc : cfg.lineNumber
  · cases st; simp_all [lineNo]
  · have hllc' := hllc hc
    simp only [hln, lineNo, hc, if_true, hllc']
    by_cases hge : offsetAt sl c ≥ offsetAt sl j
    · have hvj' : ¬ (c < j) := fun h => by
        have := L.off_lt h (by omega); omega
      have h0 : c = j := by omega
      simp only [hge, if_true]
      cases st
      simp_all [lineNo]
    · have hlt : c < j := by
        apply Classical.byContradiction; intro h
        exact hge (off_mono sl (by omega))
      simp only [hge, if_false, ht, L.count_region c j (by omega) hj]
      have : c + 1 + (j - c) = j + 1 := by omega
      rw [this]

/-! ### delivering one line -/

theorem deliver_inv {t : Nat} {buf : Bytes} {sl : List SLine} {cfg : Config} (L : Layout t buf sl)
    (ht : cfg.lineTerm.asByte = t) {v j : Nat} {st : Core} (hI : Inv cfg sl v st) (hvj : v ≤ j)
    (hj : j < sl.length) (hskip : ∀ j', v ≤ j' → j' < j → kindAt cfg sl j' = none)
    {k : Kind} (hk : kindAt cfg sl j = some k) (acl : Nat) :
    Inv cfg sl (j + 1) (deliverGen cfg buf (mkOf k) acl
      { st with events := st.events ++ (if breakBefore cfg sl j then [Event.contextBreak] else []) } (span sl j)) := by
  obtain ⟨c, hcv, hllc, hln⟩ := hI.cnt
  have hcl := countLines_spec (st := { st with events := st.events ++ (if breakBefore cfg sl j then [Event.contextBreak] else []) })
    L ht hllc hln (by omega) hj
  unfold deliverGen
  simp only [span] at *
  rw [hcl]
  constructor
  · rfl
  · simp
  · intro _; simp [delivered, hk]
  · exact ⟨j, by simp, fun hc => by simp [hc], by simp⟩
  · exact hI.abs
  · exact hI.bin
  · simp only [hI.abs, Nat.zero_add, L.slice_line j hj]
    rw [flatMap_range_succ, flatMap_skip cfg sl v j hvj hskip, lineEvents_some hk, hI.ev]
    cases k <;> simp [mkOf, evOf]

end RgVerif.Searcher
