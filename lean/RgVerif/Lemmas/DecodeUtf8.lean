import RgVerif.Lemmas.Decode
/-
The streaming UTF-8 decoder of Model/Decode.lean against the whole-string specification `transcode8`.
-/
namespace RgVerif.Decode
open RgVerif RgVerif.Utf16Spec

abbrev c2 (b0 : Nat) : Bool := decide (0xC2 ≤ b0) && decide (b0 ≤ 0xDF)
abbrev c3 (b0 : Nat) : Bool := decide (0xE0 ≤ b0) && decide (b0 ≤ 0xEF)
abbrev c4 (b0 : Nat) : Bool := decide (0xF0 ≤ b0) && decide (b0 ≤ 0xF4)

theorem need_2 (b0 : Nat) (h : need b0 = 2) : ¬ b0 < 0x80 ∧ c2 b0 = true := by
  unfold need at h
  split at h
  · rename_i h2; simp only [Bool.and_eq_true, decide_eq_true_eq] at h2; exact ⟨by omega, by simp [c2, h2]⟩
  · split at h <;> (try split at h) <;> simp at h

theorem need_3 (b0 : Nat) (h : need b0 = 3) : ¬ b0 < 0x80 ∧ c2 b0 = false ∧ c3 b0 = true := by
  unfold need at h
  split at h
  · simp at h
  · rename_i h2
    split at h
    · rename_i h3
      simp only [Bool.and_eq_true, decide_eq_true_eq] at h3
      exact ⟨by omega, by simpa [c2] using h2, by simp [c3, h3]⟩
    · split at h <;> simp at h

theorem need_4 (b0 : Nat) (h : need b0 = 4) : ¬ b0 < 0x80 ∧ c2 b0 = false ∧ c3 b0 = false ∧ c4 b0 = true := by
  unfold need at h
  split at h
  · simp at h
  · rename_i h2
    split at h
    · simp at h
    · rename_i h3
      split at h
      · rename_i h4
        simp only [Bool.and_eq_true, decide_eq_true_eq] at h4
        exact ⟨by omega, by simpa [c2] using h2, by simpa [c3] using h3, by simp [c4, h4]⟩
      · simp at h

theorem need_0 (b0 : Nat) (h : need b0 = 0) : c2 b0 = false ∧ c3 b0 = false ∧ c4 b0 = false := by
  unfold need at h
  split at h
  · simp at h
  · rename_i h2
    split at h
    · simp at h
    · rename_i h3
      split at h
      · simp at h
      · rename_i h4
        exact ⟨by simpa [c2] using h2, by simpa [c3] using h3, by simpa [c4] using h4⟩

theorem need_cases (b0 : Nat) : need b0 = 0 ∨ need b0 = 2 ∨ need b0 = 3 ∨ need b0 = 4 := by
  unfold need
  split
  · exact .inr (.inl rfl)
  · split
    · exact .inr (.inr (.inl rfl))
    · split
      · exact .inr (.inr (.inr rfl))
      · exact .inl rfl

theorem need_ascii (b : Nat) (h : b < 0x80) : need b = 0 := by
  unfold need
  simp only [Bool.and_eq_true, decide_eq_true_eq]
  split
  · omega
  · split
    · omega
    · split
      · omega
      · rfl

/-! ### `transcode8` in the vocabulary of `need` / `okNext` -/

theorem T_nil : transcode8 [] = [] := by rw [transcode8.eq_def]

theorem T_ascii (b : Nat) (r : Bytes) (h : b < 0x80) : transcode8 (b :: r) = b :: transcode8 r := by
  rw [transcode8.eq_def]; simp [h]

theorem T_bad (b : Nat) (r : Bytes) (h : ¬ b < 0x80) (hn : need b = 0) :
    transcode8 (b :: r) = utf8Encode replacement ++ transcode8 r := by
  obtain ⟨h2, h3, h4⟩ := need_0 b hn
  rw [transcode8.eq_def]
  simp only [h, if_false, h2, h3, h4, Bool.false_eq_true]

theorem okNext1_2 (b0 b : Nat) (h : need b0 = 2) : okNext [b0] b = isCont b := by
  simp [okNext, h]

theorem T1_nil (b0 : Nat) (h : 2 ≤ need b0) : transcode8 [b0] = utf8Encode replacement := by
  rcases need_cases b0 with h0 | h2 | h3 | h4
  · omega
  · obtain ⟨ha, hc⟩ := need_2 b0 h2
    rw [transcode8.eq_def]; simp only [ha, if_false, hc, if_true]
  · obtain ⟨ha, hc2, hc3⟩ := need_3 b0 h3
    rw [transcode8.eq_def]; simp only [ha, if_false, hc2, hc3, if_true, Bool.false_eq_true]
  · obtain ⟨ha, hc2, hc3, hc4⟩ := need_4 b0 h4
    rw [transcode8.eq_def]; simp only [ha, if_false, hc2, hc3, hc4, if_true, Bool.false_eq_true]

theorem T1_bad (b0 b : Nat) (r : Bytes) (h : 2 ≤ need b0) (hk : okNext [b0] b = false) :
    transcode8 (b0 :: b :: r) = utf8Encode replacement ++ transcode8 (b :: r) := by
  rcases need_cases b0 with h0 | h2 | h3 | h4
  · omega
  · obtain ⟨ha, hc⟩ := need_2 b0 h2
    rw [okNext1_2 b0 b h2] at hk
    rw [transcode8.eq_def]; simp only [ha, if_false, hc, if_true, hk, Bool.false_eq_true]
  · obtain ⟨ha, hc2, hc3⟩ := need_3 b0 h3
    simp only [okNext, h3, if_true] at hk
    rw [transcode8.eq_def]; simp only [ha, if_false, hc2, hc3, if_true, Bool.false_eq_true, hk]
  · obtain ⟨ha, hc2, hc3, hc4⟩ := need_4 b0 h4
    simp only [okNext, h4, if_true, Nat.reduceEqDiff, if_false] at hk
    rw [transcode8.eq_def]; simp only [ha, if_false, hc2, hc3, hc4, if_true, Bool.false_eq_true, hk]

theorem T1_done (b0 b : Nat) (r : Bytes) (h : need b0 = 2) (hk : okNext [b0] b = true) :
    transcode8 (b0 :: b :: r) = b0 :: b :: transcode8 r := by
  obtain ⟨ha, hc⟩ := need_2 b0 h
  rw [okNext1_2 b0 b h] at hk
  rw [transcode8.eq_def]; simp only [ha, if_false, hc, if_true, hk]

theorem T2_nil (b0 b1 : Nat) (h : 3 ≤ need b0) (hk : okNext [b0] b1 = true) :
    transcode8 [b0, b1] = utf8Encode replacement := by
  rcases need_cases b0 with h0 | h2 | h3 | h4
  · omega
  · omega
  · obtain ⟨ha, hc2, hc3⟩ := need_3 b0 h3
    simp only [okNext, h3, if_true] at hk
    rw [transcode8.eq_def]; simp only [ha, if_false, hc2, hc3, if_true, Bool.false_eq_true, hk]
  · obtain ⟨ha, hc2, hc3, hc4⟩ := need_4 b0 h4
    simp only [okNext, h4, if_true, Nat.reduceEqDiff, if_false] at hk
    rw [transcode8.eq_def]; simp only [ha, if_false, hc2, hc3, hc4, if_true, Bool.false_eq_true, hk]

theorem T2_bad (b0 b1 b : Nat) (r : Bytes) (h : 3 ≤ need b0) (hk : okNext [b0] b1 = true) (hb : isCont b = false) :
    transcode8 (b0 :: b1 :: b :: r) = utf8Encode replacement ++ transcode8 (b :: r) := by
  rcases need_cases b0 with h0 | h2 | h3 | h4
  · omega
  · omega
  · obtain ⟨ha, hc2, hc3⟩ := need_3 b0 h3
    simp only [okNext, h3, if_true] at hk
    rw [transcode8.eq_def]; simp only [ha, if_false, hc2, hc3, if_true, Bool.false_eq_true, hk, hb]
  · obtain ⟨ha, hc2, hc3, hc4⟩ := need_4 b0 h4
    simp only [okNext, h4, if_true, Nat.reduceEqDiff, if_false] at hk
    rw [transcode8.eq_def]; simp only [ha, if_false, hc2, hc3, hc4, if_true, Bool.false_eq_true, hk, hb]

theorem T2_done (b0 b1 b : Nat) (r : Bytes) (h : need b0 = 3) (hk : okNext [b0] b1 = true) (hb : isCont b = true) :
    transcode8 (b0 :: b1 :: b :: r) = b0 :: b1 :: b :: transcode8 r := by
  obtain ⟨ha, hc2, hc3⟩ := need_3 b0 h
  simp only [okNext, h, if_true] at hk
  rw [transcode8.eq_def]; simp only [ha, if_false, hc2, hc3, if_true, Bool.false_eq_true, hk, hb]

theorem T3_nil (b0 b1 b2 : Nat) (h : need b0 = 4) (hk : okNext [b0] b1 = true) (hb : isCont b2 = true) :
    transcode8 [b0, b1, b2] = utf8Encode replacement := by
  obtain ⟨ha, hc2, hc3, hc4⟩ := need_4 b0 h
  simp only [okNext, h, if_true, Nat.reduceEqDiff, if_false] at hk
  rw [transcode8.eq_def]; simp only [ha, if_false, hc2, hc3, hc4, if_true, Bool.false_eq_true, hk, hb]

theorem T3_bad (b0 b1 b2 b : Nat) (r : Bytes) (h : need b0 = 4) (hk : okNext [b0] b1 = true) (hb2 : isCont b2 = true)
    (hb : isCont b = false) :
    transcode8 (b0 :: b1 :: b2 :: b :: r) = utf8Encode replacement ++ transcode8 (b :: r) := by
  obtain ⟨ha, hc2, hc3, hc4⟩ := need_4 b0 h
  simp only [okNext, h, if_true, Nat.reduceEqDiff, if_false] at hk
  rw [transcode8.eq_def]; simp only [ha, if_false, hc2, hc3, hc4, if_true, Bool.false_eq_true, hk, hb2, hb]

theorem T3_done (b0 b1 b2 b : Nat) (r : Bytes) (h : need b0 = 4) (hk : okNext [b0] b1 = true) (hb2 : isCont b2 = true)
    (hb : isCont b = true) :
    transcode8 (b0 :: b1 :: b2 :: b :: r) = b0 :: b1 :: b2 :: b :: transcode8 r := by
  obtain ⟨ha, hc2, hc3, hc4⟩ := need_4 b0 h
  simp only [okNext, h, if_true, Nat.reduceEqDiff, if_false] at hk
  rw [transcode8.eq_def]; simp only [ha, if_false, hc2, hc3, hc4, if_true, Bool.false_eq_true, hk, hb2, hb]

/-! ### the machine -/

/-- output of the machine on `bs` from state `s`, including the end-of-stream flush -/
def R8 (s : U8) (bs : Bytes) : Bytes :=
  (Machine.runBytes utf8Machine s bs).2 ++ finish8 (Machine.runBytes utf8Machine s bs).1

theorem R8_nil (s : U8) : R8 s [] = finish8 s := by
  simp [R8, Machine.runBytes]

theorem R8_cons (s : U8) (b : Nat) (r : Bytes) : R8 s (b :: r) = (step8 s b).2 ++ R8 (step8 s b).1 r := by
  show (step8 s b).2 ++ (Machine.runBytes utf8Machine (step8 s b).1 r).2 ++
      finish8 (Machine.runBytes utf8Machine (step8 s b).1 r).1 = _
  simp [R8, List.append_assoc]

/-- a pending sequence that `b` cannot continue: one U+FFFD, then `b` is looked at afresh -/
theorem R8_reprocess (b0 : Nat) (q : Bytes) (b : Nat) (r : Bytes) (hk : okNext (b0 :: q) b = false) :
    R8 ⟨false, b0 :: q⟩ (b :: r) = utf8Encode replacement ++ R8 ⟨false, []⟩ (b :: r) := by
  rw [R8_cons, R8_cons]
  simp only [step8, hk, Bool.false_eq_true, if_false, List.append_assoc]

/-- valid pending sequences -/
def vp : Bytes → Bool
  | [] => true
  | [b0] => decide (2 ≤ need b0)
  | [b0, b1] => decide (3 ≤ need b0) && okNext [b0] b1
  | [b0, b1, b2] => decide (need b0 = 4) && okNext [b0] b1 && isCont b2
  | _ => false

theorem R8_spec : ∀ (n : Nat) (p bs : Bytes), 2 * bs.length + p.length ≤ n → vp p = true →
    R8 ⟨false, p⟩ bs = transcode8 (p ++ bs) := by
  intro n
  induction n with
  | zero =>
    intro p bs hn _
    have hb : bs = [] := List.eq_nil_of_length_eq_zero (by omega)
    have hp : p = [] := List.eq_nil_of_length_eq_zero (by omega)
    subst hb hp
    simp [R8_nil, finish8, T_nil]
  | succ n ih =>
    intro p bs hn hv
    match p, hv with
    | [], _ =>
      match bs with
      | [] => simp [R8_nil, finish8, T_nil]
      | b :: r =>
        simp only [List.length_cons, List.length_nil] at hn
        rw [R8_cons]
        by_cases ha : b < 0x80
        · simp only [step8, start8, ha, if_true, List.nil_append]
          rw [T_ascii b r ha, ih [] r (by simp; omega) rfl]
          simp
        · by_cases h2 : 2 ≤ need b
          · simp only [step8, start8, ha, if_false, h2, if_true, List.nil_append]
            exact ih [b] r (by simp; omega) (by simp [vp, h2])
          · have h0 : need b = 0 := by rcases need_cases b with h | h | h | h <;> omega
            simp only [step8, start8, ha, if_false, h2, List.nil_append]
            rw [T_bad b r ha h0, ih [] r (by simp; omega) rfl]
            simp
    | [b0], hv =>
      have h2 : 2 ≤ need b0 := by simpa [vp] using hv
      match bs with
      | [] => simp [R8_nil, finish8, T1_nil b0 h2]
      | b :: r =>
        simp only [List.length_cons, List.length_nil] at hn
        cases hk : okNext [b0] b with
        | false =>
          rw [R8_reprocess b0 [] b r hk, ih [] (b :: r) (by simp; omega) rfl]
          simp [T1_bad b0 b r h2 hk]
        | true =>
          rw [R8_cons]
          by_cases hd : need b0 = 2
          · simp only [step8, hk, if_true, List.length_nil, Nat.zero_add, hd, Bool.false_and, Bool.false_eq_true,
              if_false, List.nil_append, List.cons_append]
            rw [ih [] r (by simp; omega) rfl]
            simp [T1_done b0 b r hd hk]
          · have hne : ¬ (0 + 2 = need b0) := by omega
            simp only [step8, hk, if_true, List.length_nil, hne, if_false, List.nil_append, List.cons_append]
            have := ih [b0, b] r (by simp; omega) (by simp [vp, hk]; omega)
            simpa using this
    | [b0, b1], hv =>
      have hv' : 3 ≤ need b0 ∧ okNext [b0] b1 = true := by simpa [vp] using hv
      obtain ⟨h3, hk1⟩ := hv'
      match bs with
      | [] => simp [R8_nil, finish8, T2_nil b0 b1 h3 hk1]
      | b :: r =>
        simp only [List.length_cons, List.length_nil] at hn
        have hok : okNext [b0, b1] b = isCont b := rfl
        cases hc : isCont b with
        | false =>
          rw [R8_reprocess b0 [b1] b r (by rw [hok, hc]), ih [] (b :: r) (by simp; omega) rfl]
          simp [T2_bad b0 b1 b r h3 hk1 hc]
        | true =>
          rw [R8_cons]
          by_cases hd : need b0 = 3
          · simp only [step8, hok, hc, if_true, List.length_cons, List.length_nil, hd, Bool.false_and,
              Bool.false_eq_true, if_false, List.cons_append, List.nil_append]
            rw [ih [] r (by simp; omega) rfl]
            simp [T2_done b0 b1 b r hd hk1 hc]
          · have h4 : need b0 = 4 := by rcases need_cases b0 with h | h | h | h <;> omega
            have hne : ¬ (0 + 1 + 2 = need b0) := by omega
            simp only [step8, hok, hc, if_true, List.length_cons, List.length_nil, hne, if_false,
              List.cons_append, List.nil_append]
            have := ih [b0, b1, b] r (by simp; omega) (by simp [vp, h4, hk1, hc])
            simpa using this
    | [b0, b1, b2], hv =>
      have hv' : (need b0 = 4 ∧ okNext [b0] b1 = true) ∧ isCont b2 = true := by simpa [vp] using hv
      obtain ⟨⟨h4, hk1⟩, hc2⟩ := hv'
      match bs with
      | [] => simp [R8_nil, finish8, T3_nil b0 b1 b2 h4 hk1 hc2]
      | b :: r =>
        simp only [List.length_cons, List.length_nil] at hn
        have hok : okNext [b0, b1, b2] b = isCont b := rfl
        cases hc : isCont b with
        | false =>
          rw [R8_reprocess b0 [b1, b2] b r (by rw [hok, hc]), ih [] (b :: r) (by simp; omega) rfl]
          simp [T3_bad b0 b1 b2 b r h4 hk1 hc2 hc]
        | true =>
          rw [R8_cons]
          simp only [step8, hok, hc, if_true, List.length_cons, List.length_nil, h4, Bool.false_and,
            Bool.false_eq_true, if_false, List.cons_append, List.nil_append]
          rw [ih [] r (by simp; omega) rfl]
          simp [T3_done b0 b1 b2 b r h4 hk1 hc2 hc]
    | _ :: _ :: _ :: _ :: _, hv => simp [vp] at hv

/-! ### the decoder's own mark -/

/-- Unless the input starts with EF BB BF, the "nothing emitted yet" flag changes nothing. -/
theorem R8_first (bs : Bytes) : ∀ p : Bytes, (p ++ bs).take 3 ≠ [0xEF, 0xBB, 0xBF] →
    R8 ⟨true, p⟩ bs = R8 ⟨false, p⟩ bs := by
  induction bs with
  | nil => intro p _; simp [R8_nil, finish8]
  | cons b r ih =>
    intro p hp
    rw [R8_cons, R8_cons]
    match p, hp with
    | [], hp =>
      simp only [step8, start8]
      split
      · rfl
      · split
        · exact congrArg _ (ih [b] (by simpa using hp))
        · rfl
    | b0 :: q, hp =>
      simp only [step8]
      split
      · split
        · rename_i hlen
          have hne : (b0 :: q ++ [b] == [0xEF, 0xBB, 0xBF]) = false := by
            cases hq : (b0 :: q ++ [b] == [0xEF, 0xBB, 0xBF]) with
            | false => rfl
            | true =>
              exfalso
              have heq : b0 :: q ++ [b] = [0xEF, 0xBB, 0xBF] := by simpa using hq
              apply hp
              have : (b0 :: q) ++ b :: r = (b0 :: q ++ [b]) ++ r := by simp
              rw [this, heq]
              rfl
          have hne' : ¬ (b0 = 239 ∧ q ++ [b] = [187, 191]) := by simpa using hne
          simp [hne']
        · have := ih (b0 :: q ++ [b]) (by simpa using hp)
          exact congrArg _ this
      · rfl

theorem R8_mark (r : Bytes) : R8 ⟨true, []⟩ (0xEF :: 0xBB :: 0xBF :: r) = R8 ⟨false, []⟩ r := by
  rw [R8_cons, R8_cons, R8_cons]
  simp [step8, start8, need, okNext, isCont]

/-- **The streaming UTF-8 decoder computes the whole-string specification** (own mark removed). -/
theorem utf8_decode_eq (bs : Bytes) :
    utf8Machine.decode [bs] = transcode8 (if ownMark .utf8 bs then bs.drop 3 else bs) := by
  have hdec : utf8Machine.decode [bs] = R8 ⟨true, []⟩ bs := by
    simp only [Machine.decode, Machine.runChunks, List.append_nil, R8]
    rfl
  rw [hdec]
  by_cases hm : ownMark .utf8 bs = true
  · have hbs : ∃ r, bs = 0xEF :: 0xBB :: 0xBF :: r := by
      unfold ownMark at hm
      split at hm <;> simp_all
    obtain ⟨r, rfl⟩ := hbs
    rw [R8_mark, R8_spec _ [] r (Nat.le_refl _) rfl]
    simp [hm]
  · have hm' : ownMark .utf8 bs = false := by simpa using hm
    have hne : ([] ++ bs).take 3 ≠ [0xEF, 0xBB, 0xBF] := by
      intro h
      match bs, h with
      | a :: b :: c :: r, h =>
        simp only [List.nil_append, List.take_succ_cons, List.take_zero, List.cons.injEq, and_true] at h
        obtain ⟨rfl, rfl, rfl⟩ := h
        simp [ownMark] at hm'
    rw [R8_first bs [] hne, R8_spec _ [] bs (Nat.le_refl _) rfl, hm']
    simp

/-- A single-byte table decoder computes its table, byte by byte. -/
theorem table_decode_eq (table : Nat → Nat) (bs : Bytes) :
    (tableMachine table).decode [bs] = bs.flatMap fun b => utf8Encode (table b) := by
  have : ∀ (bs : Bytes) (s : Unit),
      Machine.runBytes (tableMachine table) s bs = ((), bs.flatMap fun b => utf8Encode (table b)) := by
    intro bs
    induction bs with
    | nil => intro s; rfl
    | cons b r ih =>
      intro s
      have hi := ih ()
      simp only [tableMachine] at hi ⊢
      simp [Machine.runBytes, hi]
  have h := this bs ()
  simp only [tableMachine] at h ⊢
  simp [Machine.decode, Machine.runChunks, h]

end RgVerif.Decode
