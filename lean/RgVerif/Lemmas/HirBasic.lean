import RgVerif.Model.HirSem
/-
Basic facts about slices, class membership, UTF-8 encodings and the shape of match spans.
-/
namespace RgVerif.Rx
open RgVerif

/-! ### slices -/

theorem slice_getElem? (hay : Bytes) (s e j : Nat) :
    (slice hay s e)[j]? = if j < e - s then hay[s + j]? else none := by
  unfold slice
  rw [List.getElem?_take]
  split <;> simp [List.getElem?_drop]

theorem slice_length (hay : Bytes) (s e : Nat) (h : e ≤ hay.length) : (slice hay s e).length = e - s := by
  unfold slice
  simp [List.length_take, List.length_drop]
  omega

theorem slice_self (hay : Bytes) (s : Nat) : slice hay s s = [] := by
  unfold slice; simp

theorem slice_append (hay : Bytes) (s m e : Nat) (h1 : s ≤ m) (h2 : m ≤ e) :
    slice hay s e = slice hay s m ++ slice hay m e := by
  unfold slice
  have : e - s = (m - s) + (e - m) := by omega
  rw [this, List.take_add]
  congr 2
  rw [List.drop_drop]
  congr 1
  omega

/-- Membership in a slice is membership at an index of the span. -/
theorem mem_slice_iff (hay : Bytes) (s e b : Nat) :
    b ∈ slice hay s e ↔ ∃ i, s ≤ i ∧ i < e ∧ hay[i]? = some b := by
  constructor
  · intro h
    obtain ⟨j, hj⟩ := List.getElem?_of_mem h
    rw [slice_getElem?] at hj
    split at hj
    · exact ⟨s + j, by omega, by omega, hj⟩
    · cases hj
  · rintro ⟨i, h1, h2, h3⟩
    apply List.mem_of_getElem? (i := i - s)
    rw [slice_getElem?]
    have : s + (i - s) = i := by omega
    simp [this, h3]
    omega

/-- "byte `b` does not occur in `hay[s, e)`", index form. -/
def NoByteIn (b : Nat) (hay : Bytes) (s e : Nat) : Prop := ∀ i, s ≤ i → i < e → hay[i]? ≠ some b

theorem noByteIn_iff (b : Nat) (hay : Bytes) (s e : Nat) : NoByteIn b hay s e ↔ b ∉ slice hay s e := by
  rw [mem_slice_iff]
  unfold NoByteIn
  constructor
  · rintro h ⟨i, h1, h2, h3⟩; exact h i h1 h2 h3
  · intro h i h1 h2 h3; exact h ⟨i, h1, h2, h3⟩

theorem noByteIn_of_slice_eq {b : Nat} {hay : Bytes} {s e : Nat} {w : Bytes}
    (hw : slice hay s e = w) (hb : b ∉ w) : NoByteIn b hay s e := by
  rw [noByteIn_iff, hw]; exact hb

/-! ### classes -/

theorem inCls_iff (rs : Ranges) (c : Nat) : inCls rs c = true ↔ ∃ r ∈ rs, r.1 ≤ c ∧ c ≤ r.2 := by
  unfold inCls
  simp [List.any_eq_true]

theorem inCls_nil (c : Nat) : inCls [] c = false := by simp [inCls]

/-! ### UTF-8 -/

theorem utf8Enc_ascii {c : Nat} (h : c < 128) : utf8Enc c = [c] := by
  unfold utf8Enc; simp [h]

/-- An ASCII byte occurs in an encoding only as the encoding of itself. -/
theorem mem_utf8Enc_ascii {b c : Nat} (hb : b < 128) (h : b ∈ utf8Enc c) : c = b := by
  unfold utf8Enc at h
  split at h
  · simp at h; omega
  · split at h
    · simp at h; omega
    · split at h
      · simp at h; omega
      · simp at h; omega

theorem utf8Enc_length_pos (c : Nat) : 0 < (utf8Enc c).length := by
  unfold utf8Enc; repeat' split
  all_goals simp

/-! ### spans -/

mutual
theorem Matches.span {lk : LookFn} : ∀ {h : Hir} {hay : Bytes} {s e : Nat},
    Matches lk h hay s e → s ≤ e ∧ e ≤ hay.length
  | .empty, _, _, _, .empty hs => ⟨Nat.le_refl _, hs⟩
  | .lit _, _, _, _, .lit hl _ => ⟨Nat.le_add_right _ _, hl⟩
  | .classB _, hay, s, _, .classB hb _ => by
      have : s < hay.length := by
        rcases Nat.lt_or_ge s hay.length with h | h
        · exact h
        · rw [List.getElem?_eq_none h] at hb; cases hb
      omega
  | .classU _, _, _, _, .classU _ _ hl _ => ⟨Nat.le_add_right _ _, hl⟩
  | .look _, _, _, _, .look hs _ => ⟨Nat.le_refl _, hs⟩
  | .rep _ _ _ _, _, _, _, .rep _ _ _ hr => MatchesRep.span hr
  | .cap _ _, _, _, _, .cap hm => Matches.span hm
  | .concat _, _, _, _, .concat hm => MatchesSeq.span hm
  | .alt _, _, _, _, .alt hm => MatchesAny.span hm
theorem MatchesSeq.span {lk : LookFn} : ∀ {xs : HirList} {hay : Bytes} {s e : Nat},
    MatchesSeq lk xs hay s e → s ≤ e ∧ e ≤ hay.length
  | .nil, _, _, _, .nil hs => ⟨Nat.le_refl _, hs⟩
  | .cons _ _, _, _, _, .cons h1 h2 => by
      have a := Matches.span h1
      have b := MatchesSeq.span h2
      omega
theorem MatchesAny.span {lk : LookFn} : ∀ {xs : HirList} {hay : Bytes} {s e : Nat},
    MatchesAny lk xs hay s e → s ≤ e ∧ e ≤ hay.length
  | .cons _ _, _, _, _, .head h1 => Matches.span h1
  | .cons _ _, _, _, _, .tail h1 => MatchesAny.span h1
theorem MatchesRep.span {lk : LookFn} : ∀ {sub : Hir} {hay : Bytes} {n s e : Nat},
    MatchesRep lk sub hay n s e → s ≤ e ∧ e ≤ hay.length
  | _, _, _, _, _, .zero hs => ⟨Nat.le_refl _, hs⟩
  | _, _, _, _, _, .succ h1 h2 => by
      have a := Matches.span h1
      have b := MatchesRep.span h2
      omega
end

end RgVerif.Rx
