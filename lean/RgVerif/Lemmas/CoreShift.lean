import RgVerif.Lemmas.ReadByLineGLines
/-
Exact-shift simulation of `Core`'s slow path: running on a window `w` of a buffer `B` at offset
`d` does the same as running on `B` with all positions shifted by `d`, for every sink script.
-/
namespace RgVerif.Searcher
open RgVerif RgVerif.Matcher RgVerif.Lines RgVerif.GrepSpec

/-- `w` is the window of `B` at offset `pre.length` -/
structure WinOf (B pre w post : Bytes) : Prop where
  eq : B = pre ++ (w ++ post)

theorem WinOf.slice {B pre w post : Bytes} (h : WinOf B pre w post) (s e : Nat) (he : e ≤ w.length) :
    slice B (s + pre.length) (e + pre.length) = slice w s e := by
  rw [h.eq]
  unfold Lines.slice
  rw [Nat.add_comm e, Nat.add_comm s, List.take_append, List.drop_append]
  simp only [List.take_of_length_le (Nat.le_add_right _ _), List.drop_of_length_le (Nat.le_add_right _ _),
    List.nil_append, Nat.add_sub_cancel_left]
  rw [List.take_append_of_le_length he]

/-- what is needed of two states to finish a search identically (byte count, log) -/
structure ESimEnd (d : Nat) (s1 s2 : Core) : Prop where
  ev : s1.events = s2.events
  abs : s1.absoluteByteOffset + d = s2.absoluteByteOffset
  pos : s1.pos = s2.pos + d
  bin1 : s1.binaryByteOffset = none
  bin2 : s2.binaryByteOffset = none

/-- the exact-shift relation between a state on `B` and a state on the window `w` -/
structure ESim (cfg : Config) (B w : Bytes) (d : Nat) (s1 s2 : Core) : Prop extends ESimEnd d s1 s2 where
  /-- the reader may have forgotten an older `last_line_visited` (`Core::roll`); it never lies ahead -/
  llv : s1.lastLineVisited ≤ s2.lastLineVisited + d
  acl : s1.afterContextLeft = s2.afterContextLeft
  sunk : s1.hasSunk = s2.hasSunk
  hm : s1.hasMatched = s2.hasMatched
  llc1 : s1.lastLineCounted ≤ s1.lastLineVisited
  llc2 : s2.lastLineCounted ≤ s2.lastLineVisited
  ln : ∀ p, s2.lastLineVisited ≤ p → p ≤ w.length → lnAt cfg B s1 (p + d) = lnAt cfg w s2 p

/-- the result of a step on both sides: same answer, related states -/
structure StepSim (cfg : Config) (B w : Bytes) (d : Nat) (R1 R2 : Core × Res Bool) : Prop where
  res : R1.2 = R2.2
  cont : R1.2 = .ok true → ESim cfg B w d R1.1 R2.1
  fin : ESimEnd d R1.1 R2.1

def respOf : Resp → Res Bool
  | .cont => .ok true
  | .stop => .ok false
  | .err => .err

theorem emit_def (σ : Script) (st : Core) (ev : Event) :
    emit σ st ev = ({ st with events := st.events ++ [ev] }, respOf (σ st.events.length)) := by
  unfold emit
  dsimp only
  cases σ st.events.length <;> rfl

/-- the two sides of a delivery: same callback, related states afterwards -/
theorem deliver_sim {cfg : Config} {B pre w post : Bytes} (W : WinOf B pre w post) {s1 s2 : Core}
    (E : ESim cfg B w pre.length s1 s2) (o e : Nat) (ho : s2.lastLineVisited ≤ o) (hoe : o ≤ e) (he : e ≤ w.length)
    (mk : Option Nat → Nat → Bytes → Event) :
    let cl1 := countLines cfg B s1 (o + pre.length)
    let cl2 := countLines cfg w s2 o
    let ev1 := mk cl1.lineNumber (cl1.absoluteByteOffset + (o + pre.length)) (slice B (o + pre.length) (e + pre.length))
    let ev2 := mk cl2.lineNumber (cl2.absoluteByteOffset + o) (slice w o e)
    ev1 = ev2 ∧ cl1.events = cl2.events ∧
    ESimEnd pre.length { cl1 with events := cl1.events ++ [ev1] } { cl2 with events := cl2.events ++ [ev2] } ∧
    ∀ (upd1 upd2 : Core → Core) (g : Nat → Nat),
      (∀ s, (upd1 s).events = s.events ∧ (upd1 s).absoluteByteOffset = s.absoluteByteOffset ∧ (upd1 s).pos = s.pos ∧
        (upd1 s).hasMatched = s.hasMatched ∧ (upd1 s).lineNumber = s.lineNumber ∧
        (upd1 s).lastLineCounted = s.lastLineCounted ∧ (upd1 s).binaryByteOffset = s.binaryByteOffset ∧
        (upd1 s).lastLineVisited = e + pre.length ∧ (upd1 s).afterContextLeft = g s.afterContextLeft ∧
        (upd1 s).hasSunk = true) →
      (∀ s, (upd2 s).events = s.events ∧ (upd2 s).absoluteByteOffset = s.absoluteByteOffset ∧ (upd2 s).pos = s.pos ∧
        (upd2 s).hasMatched = s.hasMatched ∧ (upd2 s).lineNumber = s.lineNumber ∧
        (upd2 s).lastLineCounted = s.lastLineCounted ∧ (upd2 s).binaryByteOffset = s.binaryByteOffset ∧
        (upd2 s).lastLineVisited = e ∧ (upd2 s).afterContextLeft = g s.afterContextLeft ∧
        (upd2 s).hasSunk = true) →
      ESim cfg B w pre.length (upd1 { cl1 with events := cl1.events ++ [ev1] })
        (upd2 { cl2 with events := cl2.events ++ [ev2] }) := by
  intro cl1 cl2 ev1 ev2
  have c1 := countLines_other cfg B s1 (o + pre.length)
  have c2 := countLines_other cfg w s2 o
  have l1 := countLines_ln cfg B s1 (o + pre.length)
  have l2 := countLines_ln cfg w s2 o
  have hm1 : cl1.hasMatched = s1.hasMatched := by
    show (countLines cfg B s1 (o + pre.length)).hasMatched = _
    unfold countLines; split; rfl; split <;> rfl
  have hm2 : cl2.hasMatched = s2.hasMatched := by
    show (countLines cfg w s2 o).hasMatched = _
    unfold countLines; split; rfl; split <;> rfl
  have hllc1 : s1.lastLineCounted ≤ o + pre.length := by have := E.llc1; have := E.llv; omega
  have hllc2 : s2.lastLineCounted ≤ o := by have := E.llc2; omega
  have k1 := countLines_llc_le cfg B s1 (o + pre.length) hllc1
  have k2 := countLines_llc_le cfg w s2 o hllc2
  have hev : ev1 = ev2 := by
    show mk _ _ _ = mk _ _ _
    rw [l1, l2, E.ln o ho (by omega), c1.2.1, c2.2.1, W.slice o e he, ← E.abs]
    congr 1
    omega
  have hevs : cl1.events = cl2.events := by
    show (countLines cfg B s1 (o + pre.length)).events = (countLines cfg w s2 o).events
    rw [c1.1, c2.1, E.ev]
  refine ⟨hev, hevs, ?_, ?_⟩
  · exact ⟨by show cl1.events ++ [ev1] = cl2.events ++ [ev2]; rw [hevs, hev],
      by show cl1.absoluteByteOffset + _ = cl2.absoluteByteOffset; rw [show cl1.absoluteByteOffset = s1.absoluteByteOffset from c1.2.1, show cl2.absoluteByteOffset = s2.absoluteByteOffset from c2.2.1]; exact E.abs,
      by show cl1.pos = cl2.pos + _; rw [show cl1.pos = s1.pos from c1.2.2.2.2.2, show cl2.pos = s2.pos from c2.2.2.2.2.2]; exact E.pos,
      by show cl1.binaryByteOffset = none; rw [show cl1.binaryByteOffset = s1.binaryByteOffset from c1.2.2.2.1]; exact E.bin1,
      by show cl2.binaryByteOffset = none; rw [show cl2.binaryByteOffset = s2.binaryByteOffset from c2.2.2.2.1]; exact E.bin2⟩
  · intro upd1 upd2 g h1 h2
    obtain ⟨a1, a2, a3, a4, a5, a6, a7, a8, a9, a10⟩ := h1 { cl1 with events := cl1.events ++ [ev1] }
    obtain ⟨b1, b2, b3, b4, b5, b6, b7, b8, b9, b10⟩ := h2 { cl2 with events := cl2.events ++ [ev2] }
    refine ⟨⟨?_, ?_, ?_, ?_, ?_⟩, ?_, ?_, ?_, ?_, ?_, ?_, ?_⟩
    · rw [a1, b1]; show cl1.events ++ [ev1] = cl2.events ++ [ev2]; rw [hevs, hev]
    · rw [a2, b2]; show cl1.absoluteByteOffset + _ = cl2.absoluteByteOffset
      rw [show cl1.absoluteByteOffset = s1.absoluteByteOffset from c1.2.1, show cl2.absoluteByteOffset = s2.absoluteByteOffset from c2.2.1]; exact E.abs
    · rw [a3, b3]; show cl1.pos = cl2.pos + _
      rw [show cl1.pos = s1.pos from c1.2.2.2.2.2, show cl2.pos = s2.pos from c2.2.2.2.2.2]; exact E.pos
    · rw [a7]; show cl1.binaryByteOffset = none
      rw [show cl1.binaryByteOffset = s1.binaryByteOffset from c1.2.2.2.1]; exact E.bin1
    · rw [b7]; show cl2.binaryByteOffset = none
      rw [show cl2.binaryByteOffset = s2.binaryByteOffset from c2.2.2.2.1]; exact E.bin2
    · rw [a8, b8]; exact Nat.le_refl _
    · rw [a9, b9]; show g cl1.afterContextLeft = g cl2.afterContextLeft
      rw [show cl1.afterContextLeft = s1.afterContextLeft from c1.2.2.1, show cl2.afterContextLeft = s2.afterContextLeft from c2.2.2.1, E.acl]
    · rw [a10, b10]
    · rw [a4, b4]; show cl1.hasMatched = cl2.hasMatched; rw [hm1, hm2, E.hm]
    · rw [a6, a8]; exact Nat.le_trans k1 (by omega)
    · rw [b6, b8]; exact Nat.le_trans k2 hoe
    · intro p hp hpw
      rw [b8] at hp
      have e1 : lnAt cfg B (upd1 { cl1 with events := cl1.events ++ [ev1] }) (p + pre.length) = lnAt cfg B cl1 (p + pre.length) := by
        unfold lnAt; rw [a5, a6]
      have e2 : lnAt cfg w (upd2 { cl2 with events := cl2.events ++ [ev2] }) p = lnAt cfg w cl2 p := by
        unfold lnAt; rw [b5, b6]
      rw [e1, e2]
      show lnAt cfg B (countLines cfg B s1 (o + pre.length)) (p + pre.length) = lnAt cfg w (countLines cfg w s2 o) p
      rw [lnAt_countLines cfg B s1 _ _ hllc1 (by omega), lnAt_countLines cfg w s2 _ _ hllc2 (by omega)]
      exact E.ln p (by omega) hpw

theorem ESim.toEnd {cfg : Config} {B w : Bytes} {d : Nat} {s1 s2 : Core} (E : ESim cfg B w d s1 s2) :
    ESimEnd d s1 s2 := E.toESimEnd

theorem sinkCtx_sim_aux {cfg : Config} {B pre w post : Bytes} (W : WinOf B pre w post) (hbin : cfg.binary = .none)
    (σ : Script) {s1 s2 : Core} (E : ESim cfg B w pre.length s1 s2) (o e : Nat)
    (ho : s2.lastLineVisited ≤ o) (hoe : o ≤ e) (he : e ≤ w.length) (k : CtxKind)
    (upd1 upd2 : Core → Core) (g : Nat → Nat)
    (h1 : ∀ s, (upd1 s).events = s.events ∧ (upd1 s).absoluteByteOffset = s.absoluteByteOffset ∧ (upd1 s).pos = s.pos ∧
        (upd1 s).hasMatched = s.hasMatched ∧ (upd1 s).lineNumber = s.lineNumber ∧
        (upd1 s).lastLineCounted = s.lastLineCounted ∧ (upd1 s).binaryByteOffset = s.binaryByteOffset ∧
        (upd1 s).lastLineVisited = e + pre.length ∧ (upd1 s).afterContextLeft = g s.afterContextLeft ∧
        (upd1 s).hasSunk = true)
    (h2 : ∀ s, (upd2 s).events = s.events ∧ (upd2 s).absoluteByteOffset = s.absoluteByteOffset ∧ (upd2 s).pos = s.pos ∧
        (upd2 s).hasMatched = s.hasMatched ∧ (upd2 s).lineNumber = s.lineNumber ∧
        (upd2 s).lastLineCounted = s.lastLineCounted ∧ (upd2 s).binaryByteOffset = s.binaryByteOffset ∧
        (upd2 s).lastLineVisited = e ∧ (upd2 s).afterContextLeft = g s.afterContextLeft ∧
        (upd2 s).hasSunk = true) :
    StepSim cfg B w pre.length
      (match binaryGuard cfg σ B ⟨o + pre.length, e + pre.length⟩ s1 with
        | (st, .err) => (st, Res.err)
        | (st, .ok true) => (st, .ok false)
        | (st, .ok false) =>
          match emit σ (countLines cfg B st (o + pre.length))
            (.context k (countLines cfg B st (o + pre.length)).lineNumber
              ((countLines cfg B st (o + pre.length)).absoluteByteOffset + (o + pre.length))
              (slice B (o + pre.length) (e + pre.length))) with
          | (st, .ok true) => (upd1 st, .ok true)
          | (st, r) => (st, r))
      (match binaryGuard cfg σ w ⟨o, e⟩ s2 with
        | (st, .err) => (st, Res.err)
        | (st, .ok true) => (st, .ok false)
        | (st, .ok false) =>
          match emit σ (countLines cfg w st o)
            (.context k (countLines cfg w st o).lineNumber ((countLines cfg w st o).absoluteByteOffset + o)
              (slice w o e)) with
          | (st, .ok true) => (upd2 st, .ok true)
          | (st, r) => (st, r)) := by
  rw [binaryGuard_none hbin E.bin1, binaryGuard_none hbin E.bin2]
  dsimp only
  obtain ⟨hev, hevs, hend, hcont⟩ := deliver_sim W E o e ho hoe he (Event.context k)
  rw [emit_def, emit_def, hevs, hev]
  cases σ (countLines cfg w s2 o).events.length with
  | cont =>
    simp only [respOf]
    refine ⟨rfl, fun _ => ?_, ?_⟩
    · have := hcont upd1 upd2 g h1 h2
      rw [hev, hevs] at this
      exact this
    · have := (hcont upd1 upd2 g h1 h2).toEnd
      rw [hev, hevs] at this
      exact this
  | stop =>
    simp only [respOf]
    refine ⟨rfl, (fun h => by simp at h), ?_⟩
    rw [hev, hevs] at hend
    exact hend
  | err =>
    simp only [respOf]
    refine ⟨rfl, (fun h => by simp at h), ?_⟩
    rw [hev, hevs] at hend
    exact hend

theorem sinkBeforeContext_sim {cfg : Config} {B pre w post : Bytes} (W : WinOf B pre w post) (hbin : cfg.binary = .none)
    (σ : Script) {s1 s2 : Core} (E : ESim cfg B w pre.length s1 s2) (o e : Nat)
    (ho : s2.lastLineVisited ≤ o) (hoe : o ≤ e) (he : e ≤ w.length) :
    StepSim cfg B w pre.length (sinkBeforeContext cfg σ B s1 ⟨o + pre.length, e + pre.length⟩)
      (sinkBeforeContext cfg σ w s2 ⟨o, e⟩) :=
  sinkCtx_sim_aux W hbin σ E o e ho hoe he .before
    (fun s => { s with lastLineVisited := e + pre.length, hasSunk := true })
    (fun s => { s with lastLineVisited := e, hasSunk := true }) id
    (fun _ => ⟨rfl, rfl, rfl, rfl, rfl, rfl, rfl, rfl, rfl, rfl⟩) (fun _ => ⟨rfl, rfl, rfl, rfl, rfl, rfl, rfl, rfl, rfl, rfl⟩)

theorem sinkAfterContext_sim {cfg : Config} {B pre w post : Bytes} (W : WinOf B pre w post) (hbin : cfg.binary = .none)
    (σ : Script) {s1 s2 : Core} (E : ESim cfg B w pre.length s1 s2) (o e : Nat)
    (ho : s2.lastLineVisited ≤ o) (hoe : o ≤ e) (he : e ≤ w.length) :
    StepSim cfg B w pre.length (sinkAfterContext cfg σ B s1 ⟨o + pre.length, e + pre.length⟩)
      (sinkAfterContext cfg σ w s2 ⟨o, e⟩) :=
  sinkCtx_sim_aux W hbin σ E o e ho hoe he .after
    (fun s => { s with lastLineVisited := e + pre.length, afterContextLeft := s.afterContextLeft - 1, hasSunk := true })
    (fun s => { s with lastLineVisited := e, afterContextLeft := s.afterContextLeft - 1, hasSunk := true })
    (fun a => a - 1)
    (fun _ => ⟨rfl, rfl, rfl, rfl, rfl, rfl, rfl, rfl, rfl, rfl⟩) (fun _ => ⟨rfl, rfl, rfl, rfl, rfl, rfl, rfl, rfl, rfl, rfl⟩)

theorem sinkOtherContext_sim {cfg : Config} {B pre w post : Bytes} (W : WinOf B pre w post) (hbin : cfg.binary = .none)
    (σ : Script) {s1 s2 : Core} (E : ESim cfg B w pre.length s1 s2) (o e : Nat)
    (ho : s2.lastLineVisited ≤ o) (hoe : o ≤ e) (he : e ≤ w.length) :
    StepSim cfg B w pre.length (sinkOtherContext cfg σ B s1 ⟨o + pre.length, e + pre.length⟩)
      (sinkOtherContext cfg σ w s2 ⟨o, e⟩) :=
  sinkCtx_sim_aux W hbin σ E o e ho hoe he .other
    (fun s => { s with lastLineVisited := e + pre.length, hasSunk := true })
    (fun s => { s with lastLineVisited := e, hasSunk := true }) id
    (fun _ => ⟨rfl, rfl, rfl, rfl, rfl, rfl, rfl, rfl, rfl, rfl⟩) (fun _ => ⟨rfl, rfl, rfl, rfl, rfl, rfl, rfl, rfl, rfl, rfl⟩)

/-- `sink_break_context` on both sides -/
theorem sinkBreakContext_sim {cfg : Config} {B w : Bytes} {d : Nat} (σ : Script) {s1 s2 : Core}
    (E : ESim cfg B w d s1 s2) (o : Nat)
    (hgap : cfg.maxContext = 0 ∨ decide (s1.lastLineVisited < o + d) = decide (s2.lastLineVisited < o)) :
    StepSim cfg B w d (sinkBreakContext cfg σ s1 (o + d)) (sinkBreakContext cfg σ s2 o) := by
  unfold sinkBreakContext
  dsimp only
  have hcond : (!(decide (cfg.beforeContext > 0) || decide (cfg.afterContext > 0)) || !s1.hasSunk ||
        !decide (s1.lastLineVisited < o + d))
      = (!(decide (cfg.beforeContext > 0) || decide (cfg.afterContext > 0)) || !s2.hasSunk ||
        !decide (s2.lastLineVisited < o)) := by
    cases hgap with
    | inl h0 =>
      unfold Config.maxContext at h0
      have hb : cfg.beforeContext = 0 := by omega
      have ha : cfg.afterContext = 0 := by omega
      simp [hb, ha]
    | inr hg => rw [hg, E.sunk]
  rw [hcond]
  split
  · exact ⟨rfl, fun _ => E, E.toEnd⟩
  · rw [emit_def, emit_def, E.ev]
    have hE : ESim cfg B w d { s1 with events := s2.events ++ [Event.contextBreak] }
        { s2 with events := s2.events ++ [Event.contextBreak] } :=
      ⟨⟨rfl, E.abs, E.pos, E.bin1, E.bin2⟩, E.llv, E.acl, E.sunk, E.hm, E.llc1, E.llc2, E.ln⟩
    cases σ s2.events.length with
    | cont => exact ⟨rfl, fun _ => hE, hE.toEnd⟩
    | stop => exact ⟨rfl, (fun h => by simp [respOf] at h), hE.toEnd⟩
    | err => exact ⟨rfl, (fun h => by simp [respOf] at h), hE.toEnd⟩

theorem sinkBreakContext_llv (cfg : Config) (σ : Script) (st : Core) (o : Nat) :
    (sinkBreakContext cfg σ st o).1.lastLineVisited = st.lastLineVisited := by
  unfold sinkBreakContext
  dsimp only
  split
  · rfl
  · rw [emit_def]

theorem sinkMatched_sim {cfg : Config} {B pre w post : Bytes} (W : WinOf B pre w post) (hbin : cfg.binary = .none)
    (σ : Script) {s1 s2 : Core} (E : ESim cfg B w pre.length s1 s2) (o e : Nat)
    (ho : s2.lastLineVisited ≤ o) (hoe : o ≤ e) (he : e ≤ w.length)
    (hgap : cfg.maxContext = 0 ∨ decide (s1.lastLineVisited < o + pre.length) = decide (s2.lastLineVisited < o)) :
    StepSim cfg B w pre.length (sinkMatched cfg σ B s1 ⟨o + pre.length, e + pre.length⟩)
      (sinkMatched cfg σ w s2 ⟨o, e⟩) := by
  unfold sinkMatched
  rw [binaryGuard_none hbin E.bin1, binaryGuard_none hbin E.bin2]
  dsimp only
  have hb := sinkBreakContext_sim σ E o hgap
  have hl2 := sinkBreakContext_llv cfg σ s2 o
  generalize sinkBreakContext cfg σ s1 (o + pre.length) = g1 at hb ⊢
  generalize sinkBreakContext cfg σ s2 o = g2 at hb hl2 ⊢
  obtain ⟨t1, r1⟩ := g1
  obtain ⟨t2, r2⟩ := g2
  have hres : r1 = r2 := hb.res
  subst hres
  cases r1 with
  | err => exact ⟨rfl, (fun h => by simp at h), hb.fin⟩
  | ok bb =>
    cases bb with
    | false => exact ⟨rfl, (fun h => by simp at h), hb.fin⟩
    | true =>
      dsimp only
      have E2 : ESim cfg B w pre.length t1 t2 := hb.cont rfl
      -- the break does not move `last_line_visited`
      have hllv : t2.lastLineVisited ≤ o := by
        have : t2.lastLineVisited = s2.lastLineVisited := hl2
        omega
      obtain ⟨hev, hevs, hend, hcont⟩ := deliver_sim W E2 o e hllv hoe he Event.matched
      rw [emit_def, emit_def, hevs, hev]
      have hc := hcont
        (fun s => { s with lastLineVisited := e + pre.length, afterContextLeft := cfg.afterContext, hasSunk := true })
        (fun s => { s with lastLineVisited := e, afterContextLeft := cfg.afterContext, hasSunk := true })
        (fun _ => cfg.afterContext)
        (fun _ => ⟨rfl, rfl, rfl, rfl, rfl, rfl, rfl, rfl, rfl, rfl⟩) (fun _ => ⟨rfl, rfl, rfl, rfl, rfl, rfl, rfl, rfl, rfl, rfl⟩)
      rw [hev, hevs] at hc hend
      cases σ (countLines cfg w t2 o).events.length with
      | cont => exact ⟨rfl, fun _ => hc, hc.toEnd⟩
      | stop => exact ⟨rfl, (fun h => by simp [respOf] at h), hend⟩
      | err => exact ⟨rfl, (fun h => by simp [respOf] at h), hend⟩

end RgVerif.Searcher
