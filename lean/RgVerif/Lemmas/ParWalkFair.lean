import RgVerif.Lemmas.ParWalkLive
/-
C07 termination of infinite executions under weak fairness.
-/
namespace RgVerif.ParWalk

/-- An infinite execution: `σ i` is the state at time `i`, `who i` the worker that steps; once every
worker has exited the execution stays put. -/
def Exec (n : Nat) (σ : Nat → State) (who : Nat → Nat) : Prop :=
  ∀ i, Step n (σ i) (who i) (σ (i + 1)) ∨ (AllExited n (σ i) ∧ σ (i + 1) = σ i)

/-- Weak fairness of the scheduler: a worker is not ignored for ever — from any time on it either
has exited at some later time or takes a step. -/
def WeaklyFair (n : Nat) (σ : Nat → State) (who : Nat → Nat) : Prop :=
  ∀ w, w < n → ∀ i, ∃ j, i ≤ j ∧
    (((σ j).pc w).isExited = true ∨ (who j = w ∧ Step n (σ j) w (σ (j + 1))))

/-- A steal attempt that fails although the victim's deque is not empty (`Steal::Retry`). -/
def SpuriousFail (s : State) (w : Nat) (s' : State) : Prop :=
  ∃ b v vs, s.pc w = .steal b (v :: vs) ∧ s.dq v ≠ [] ∧ s'.pc w = .steal b vs

/-- `Retry` happens only finitely often (in reality: only when a concurrent operation succeeds). -/
def FinitelyManyRetries (σ : Nat → State) (who : Nat → Nat) : Prop :=
  ∃ i0, ∀ j, i0 ≤ j → ¬ SpuriousFail (σ j) (who j) (σ (j + 1))

theorem antitone_le (f : Nat → Nat) (h : ∀ i, f (i + 1) ≤ f i) : ∀ i j, i ≤ j → f j ≤ f i := by
  intro i j hij
  induction j with
  | zero => have : i = 0 := by omega
            subst this; exact Nat.le_refl _
  | succ j ih =>
    by_cases e : i = j + 1
    · subst e; exact Nat.le_refl _
    · exact Nat.le_trans (h j) (ih (by omega))

/-- A non-increasing sequence of naturals is eventually constant. -/
theorem antitone_stabilises : ∀ (m : Nat) (f : Nat → Nat), (∀ i, f (i + 1) ≤ f i) → f 0 ≤ m →
    ∃ i1, ∀ j, i1 ≤ j → f j = f i1 := by
  intro m
  induction m with
  | zero =>
    intro f h h0
    refine ⟨0, ?_⟩
    intro j _
    have := antitone_le f h 0 j (by omega)
    omega
  | succ m ih =>
    intro f h h0
    by_cases hc : ∀ j, f j = f 0
    · exact ⟨0, fun j _ => hc j⟩
    · have : ∃ j, f j ≠ f 0 := Classical.byContradiction fun hn => hc fun j =>
        Classical.byContradiction fun hj => hn ⟨j, hj⟩
      obtain ⟨j, hj⟩ := this
      have hle := antitone_le f h 0 j (by omega)
      obtain ⟨i1, hi1⟩ := ih (fun k => f (j + k)) (fun i => h (j + i)) (by
        show f (j + 0) ≤ m
        rw [Nat.add_zero]; omega)
      refine ⟨j + i1, ?_⟩
      intro k hk
      have := hi1 (k - j) (by omega)
      rw [show j + (k - j) = k by omega] at this
      exact this

section
variable {n : Nat} {roots : List Tree} {σ : Nat → State} {who : Nat → Nat}

theorem exec_reachable (h0 : Reachable n roots (σ 0)) (he : Exec n σ who) :
    ∀ i, Reachable n roots (σ i) := by
  intro i
  induction i with
  | zero => exact h0
  | succ i ih =>
    rcases he i with hs | ⟨_, e⟩
    · exact .step ih hs
    · rw [e]; exact ih

theorem exec_mu_antitone (he : Exec n σ who) : ∀ i, mu n (σ (i + 1)) ≤ mu n (σ i) := by
  intro i
  rcases he i with hs | ⟨_, e⟩
  · rcases step_mu hs with h | ⟨h, _⟩ <;> omega
  · rw [e]; exact Nat.le_refl _

/-- From `i1` on every step is a stutter step (given that the execution never finishes). -/
theorem exec_frozen (he : Exec n σ who) (hnot : ∀ i, ¬ AllExited n (σ i)) (i1 : Nat)
    (hmu : ∀ j, i1 ≤ j → mu n (σ j) = mu n (σ i1)) :
    ∀ j, i1 ≤ j → Step n (σ j) (who j) (σ (j + 1)) ∧ Stutter (σ j) (who j) (σ (j + 1)) := by
  intro j hj
  rcases he j with hs | ⟨ha, _⟩
  · refine ⟨hs, ?_⟩
    rcases step_mu hs with h | ⟨_, h⟩
    · have := hmu j hj
      have := hmu (j + 1) (by omega)
      omega
    · exact h
  · exact absurd ha (hnot j)

theorem frozen_dq (i1 : Nat)
    (hfr : ∀ j, i1 ≤ j → Step n (σ j) (who j) (σ (j + 1)) ∧ Stutter (σ j) (who j) (σ (j + 1))) :
    ∀ j, i1 ≤ j → (σ j).dq = (σ i1).dq := by
  intro j hj
  induction j with
  | zero => have : i1 = 0 := by omega
            subst this; rfl
  | succ j ih =>
    by_cases e : i1 = j + 1
    · subst e; rfl
    · have := (hfr j (by omega)).2
      rw [this.2.2.1]; exact ih (by omega)

/-- In the frozen suffix a worker's program point only changes when it is scheduled. -/
theorem frozen_pc_unscheduled (i1 : Nat)
    (hfr : ∀ j, i1 ≤ j → Step n (σ j) (who j) (σ (j + 1)) ∧ Stutter (σ j) (who j) (σ (j + 1)))
    (u : Nat) : ∀ gap j, i1 ≤ j → (∀ t, j ≤ t → t < j + gap → who t ≠ u) →
      (σ (j + gap)).pc u = (σ j).pc u := by
  intro gap
  induction gap with
  | zero => intro j _ _; rfl
  | succ gap ih =>
    intro j hj hno
    have h1 := ih j hj (fun t h1 h2 => hno t h1 (by omega))
    have hst := (hfr (j + gap) (by omega)).2
    have hne : who (j + gap) ≠ u := hno (j + gap) (by omega) (by omega)
    have := hst.2.2.2.2.2.2.2 u (fun e => hne e.symm)
    rw [show j + (gap + 1) = j + gap + 1 by omega, this, h1]

/-- In the frozen suffix a live worker that is not in the idle loop is never scheduled again —
which weak fairness forbids. -/
theorem frozen_all_idle (hf : WeaklyFair n σ who) (i1 : Nat)
    (hfr : ∀ j, i1 ≤ j → Step n (σ j) (who j) (σ (j + 1)) ∧ Stutter (σ j) (who j) (σ (j + 1)))
    (u : Nat) (hu : u < n) (j : Nat) (hj : i1 ≤ j) :
    ((σ j).pc u).isExited = true ∨ ((σ j).pc u).idle = true := by
  cases he : ((σ j).pc u).isExited with
  | true => exact Or.inl rfl
  | false =>
    cases hi : ((σ j).pc u).idle with
    | true => exact Or.inr rfl
    | false =>
      exfalso
      -- pc u never changes after j
      have hconst : ∀ gap, (σ (j + gap)).pc u = (σ j).pc u := by
        intro gap
        induction gap with
        | zero => rfl
        | succ gap ih =>
          have hst := (hfr (j + gap) (by omega)).2
          by_cases hw : who (j + gap) = u
          · have := hst.1
            rw [hw, ih, hi] at this
            cases this
          · have := hst.2.2.2.2.2.2.2 u (fun e => hw e.symm)
            rw [show j + (gap + 1) = j + gap + 1 by omega, this, ih]
      obtain ⟨k, hk, hor⟩ := hf u hu j
      have hpk := hconst (k - j)
      rw [show j + (k - j) = k by omega] at hpk
      rcases hor with h | ⟨hw, _⟩
      · rw [hpk, he] at h; cases h
      · have := (hfr k (by omega)).2.1
        rw [hw, hpk, hi] at this
        cases this

/-- The next time an idle live worker is scheduled (its program point has not changed till then). -/
theorem next_own_step (hf : WeaklyFair n σ who) (i1 : Nat)
    (hfr : ∀ j, i1 ≤ j → Step n (σ j) (who j) (σ (j + 1)) ∧ Stutter (σ j) (who j) (σ (j + 1)))
    (w : Nat) (hw : w < n) (j : Nat) (hj : i1 ≤ j) (hl : ((σ j).pc w).isExited = false) :
    ∃ k, j ≤ k ∧ who k = w ∧ (σ k).pc w = (σ j).pc w := by
  obtain ⟨k0, hk0, hor⟩ := hf w hw j
  -- first time in [j, k0] at which w is scheduled
  have key : ∀ gap j', i1 ≤ j' → (σ j').pc w = (σ j).pc w →
      (((σ (j' + gap)).pc w).isExited = true ∨ who (j' + gap) = w) →
      ∃ k, j' ≤ k ∧ who k = w ∧ (σ k).pc w = (σ j).pc w := by
    intro gap
    induction gap with
    | zero =>
      intro j' _ hp hor'
      rcases hor' with h | h
      · rw [Nat.add_zero, hp, hl] at h; cases h
      · exact ⟨j', Nat.le_refl _, by simpa using h, hp⟩
    | succ gap ih =>
      intro j' hj' hp hor'
      by_cases hwj : who j' = w
      · exact ⟨j', Nat.le_refl _, hwj, hp⟩
      · have hst := (hfr j' hj').2
        have hpc := hst.2.2.2.2.2.2.2 w (fun e => hwj e.symm)
        obtain ⟨k, hk, h1, h2⟩ := ih (j' + 1) (by omega) (by rw [hpc, hp])
          (by rw [show j' + 1 + gap = j' + (gap + 1) by omega]; exact hor')
        exact ⟨k, by omega, h1, h2⟩
  have := key (k0 - j) j hj rfl (by
    rw [show j + (k0 - j) = k0 by omega]
    rcases hor with h | ⟨h, _⟩
    · exact Or.inl h
    · exact Or.inr h)
  exact this

end

/-! ### Inversion of idle-loop steps -/

theorem stutter_from_sleep {n : Nat} {s s' : State} {w : Nat} (hs : Step n s w s')
    (hP : s.pc w = .sleep) : s'.pc w = .recv true := by
  cases hs
  all_goals
    rename_i hw hpc
    rw [hP] at hpc
    first
      | cases hpc
      | skip
  all_goals simp

theorem stutter_from_steal_nil {n : Nat} {s s' : State} {w : Nat} (hs : Step n s w s')
    (hP : s.pc w = .steal true []) : s'.pc w = .sleep := by
  cases hs
  all_goals
    rename_i hw hpc
    rw [hP] at hpc
    first
      | cases hpc
      | skip
  all_goals simp

theorem stutter_from_steal_cons {n : Nat} {s s' : State} {w x : Nat} {xs : List Nat}
    (hs : Step n s w s') (hst : Stutter s w s') (hP : s.pc w = .steal true (x :: xs)) :
    s'.pc w = .steal true xs := by
  have hidle := hst.2.1
  cases hs
  all_goals
    rename_i hw hpc
    rw [hP] at hpc
    first
      | cases hpc
      | skip
  · -- stealOk: the worker would leave the idle loop
    exfalso
    simp [afterRecv, Pc.idle] at hidle
  · simp

theorem stutter_from_recv {n : Nat} {s s' : State} {w : Nat}
    (hs : Step n s w s') (hst : Stutter s w s') (hP : s.pc w = .recv true) :
    s.dq w = [] ∧ s'.pc w = .steal true (order n w) := by
  have hidle := hst.2.1
  cases hs
  all_goals
    rename_i hw hpc
    rw [hP] at hpc
    first
      | cases hpc
      | skip
  · exfalso
    simp [afterRecv, Pc.idle] at hidle
  · rename_i hdq
    exact ⟨hdq, by simp⟩

/-! ### No infinite idle spinning next to a message -/

section
variable {n : Nat} {σ : Nat → State} {who : Nat → Nat}

/-- The facts about the frozen suffix used below. -/
structure Frozen (n : Nat) (σ : Nat → State) (who : Nat → Nat) (i2 w v : Nat) : Prop where
  fair : WeaklyFair n σ who
  stut : ∀ j, i2 ≤ j → Step n (σ j) (who j) (σ (j + 1)) ∧ Stutter (σ j) (who j) (σ (j + 1))
  noretry : ∀ j, i2 ≤ j → ¬ SpuriousFail (σ j) (who j) (σ (j + 1))
  hw : w < n
  hv : v < n
  msg : (σ i2).dq v ≠ []

theorem Frozen.own_step {i2 w v : Nat} (F : Frozen n σ who i2 w v) (j : Nat) (hj : i2 ≤ j)
    (hidle : ((σ j).pc w).idle = true) :
    ∃ k, j ≤ k ∧ who k = w ∧ (σ k).pc w = (σ j).pc w ∧ Step n (σ k) w (σ (k + 1)) ∧
      Stutter (σ k) w (σ (k + 1)) := by
  obtain ⟨k, hk, hwk, hpk⟩ := next_own_step F.fair i2 F.stut w F.hw j hj (idle_facts hidle).2.2.2
  have := F.stut k (by omega)
  rw [hwk] at this
  exact ⟨k, hk, hwk, hpk, this.1, this.2⟩

theorem Frozen.dq_v {i2 w v : Nat} (F : Frozen n σ who i2 w v) (j : Nat) (hj : i2 ≤ j) :
    (σ j).dq v ≠ [] := by
  rw [frozen_dq i2 F.stut j hj]; exact F.msg

theorem Frozen.doomed_at_victim {i2 w v : Nat} (F : Frozen n σ who i2 w v) (post : List Nat)
    (j : Nat) (hj : i2 ≤ j) (hP : (σ j).pc w = .steal true (v :: post)) : False := by
  obtain ⟨k, hk, hwho, hpk, hs, hst⟩ := F.own_step j hj (by rw [hP]; rfl)
  rw [hP] at hpk
  have hnext := stutter_from_steal_cons hs hst hpk
  apply F.noretry k (by omega)
  rw [hwho]
  exact ⟨true, v, post, hpk, F.dq_v k (by omega), hnext⟩

theorem Frozen.doomed_prefix {i2 w v : Nat} (F : Frozen n σ who i2 w v) (post : List Nat) :
    ∀ (pre : List Nat) (j : Nat), i2 ≤ j → (σ j).pc w = .steal true (pre ++ v :: post) → False := by
  intro pre
  induction pre with
  | nil => intro j hj hP; exact F.doomed_at_victim post j hj hP
  | cons x pre ih =>
    intro j hj hP
    obtain ⟨k, hk, _, hpk, hs, hst⟩ := F.own_step j hj (by rw [hP]; rfl)
    rw [hP] at hpk
    exact ih (k + 1) (by omega) (stutter_from_steal_cons hs hst hpk)

theorem Frozen.doomed_recv {i2 w v : Nat} (F : Frozen n σ who i2 w v)
    (j : Nat) (hj : i2 ≤ j) (hP : (σ j).pc w = .recv true) : False := by
  obtain ⟨k, hk, _, hpk, hs, hst⟩ := F.own_step j hj (by rw [hP]; rfl)
  rw [hP] at hpk
  obtain ⟨hdq, hnext⟩ := stutter_from_recv hs hst hpk
  have hne : v ≠ w := by
    intro e
    apply F.dq_v k (by omega)
    rw [e]; exact hdq
  obtain ⟨pre, post, ho⟩ := List.append_of_mem (mem_order F.hw F.hv hne)
  rw [ho] at hnext
  exact F.doomed_prefix post pre (k + 1) (by omega) hnext

theorem Frozen.doomed_sleep {i2 w v : Nat} (F : Frozen n σ who i2 w v)
    (j : Nat) (hj : i2 ≤ j) (hP : (σ j).pc w = .sleep) : False := by
  obtain ⟨k, hk, _, hpk, hs, _⟩ := F.own_step j hj (by rw [hP]; rfl)
  rw [hP] at hpk
  exact F.doomed_recv (k + 1) (by omega) (stutter_from_sleep hs hpk)

theorem Frozen.doomed_steal {i2 w v : Nat} (F : Frozen n σ who i2 w v) :
    ∀ (vs : List Nat) (j : Nat), i2 ≤ j → (σ j).pc w = .steal true vs → False := by
  intro vs
  induction vs with
  | nil =>
    intro j hj hP
    obtain ⟨k, hk, _, hpk, hs, _⟩ := F.own_step j hj (by rw [hP]; rfl)
    rw [hP] at hpk
    exact F.doomed_sleep (k + 1) (by omega) (stutter_from_steal_nil hs hpk)
  | cons x xs ih =>
    intro j hj hP
    obtain ⟨k, hk, _, hpk, hs, hst⟩ := F.own_step j hj (by rw [hP]; rfl)
    rw [hP] at hpk
    exact ih (k + 1) (by omega) (stutter_from_steal_cons hs hst hpk)

/-- A live idle worker cannot spin for ever next to a non-empty deque. -/
theorem Frozen.contradiction {i2 w v : Nat} (F : Frozen n σ who i2 w v)
    (hidle : ((σ i2).pc w).idle = true) : False := by
  cases hpc : (σ i2).pc w with
  | recv b =>
    cases b with
    | true => exact F.doomed_recv i2 (Nat.le_refl _) hpc
    | false => rw [hpc] at hidle; cases hidle
  | steal b vs =>
    cases b with
    | true => exact F.doomed_steal vs i2 (Nat.le_refl _) hpc
    | false => rw [hpc] at hidle; cases hidle
  | sleep => exact F.doomed_sleep i2 (Nat.le_refl _) hpc
  | _ => rw [hpc] at hidle; cases hidle

end

/-- Every weakly fair execution with finitely many spurious steal failures reaches the state in
which every worker has exited. -/
theorem fair_terminates {n : Nat} {roots : List Tree} {σ : Nat → State} {who : Nat → Nat}
    (hn : 0 < n) (h0 : Reachable n roots (σ 0)) (he : Exec n σ who) (hf : WeaklyFair n σ who)
    (hr : FinitelyManyRetries σ who) : ∃ i, AllExited n (σ i) := by
  apply Classical.byContradiction
  intro hcon
  have hnot : ∀ i, ¬ AllExited n (σ i) := fun i hi => hcon ⟨i, hi⟩
  obtain ⟨i1, hi1⟩ := antitone_stabilises (mu n (σ 0)) (fun i => mu n (σ i)) (exec_mu_antitone he)
    (Nat.le_refl _)
  obtain ⟨i0, hi0⟩ := hr
  -- the suffix from i2 on: only stutter steps, no spurious failures
  let i2 := max i0 i1
  have hfr1 := exec_frozen he hnot i1 hi1
  have hfr : ∀ j, i2 ≤ j → Step n (σ j) (who j) (σ (j + 1)) ∧ Stutter (σ j) (who j) (σ (j + 1)) :=
    fun j hj => hfr1 j (Nat.le_trans (Nat.le_max_right i0 i1) hj)
  have hall : ∀ u, u < n → ((σ i2).pc u).isExited = true ∨ ((σ i2).pc u).idle = true :=
    fun u hu => frozen_all_idle hf i2 hfr u hu i2 (Nat.le_refl _)
  have hreach := exec_reachable h0 he i2
  obtain ⟨v, hv, hdq⟩ := idle_has_msg hn hreach hall
  -- a live worker exists and is idle
  have hlive : ∃ w, w < n ∧ ((σ i2).pc w).isExited = false := by
    apply Classical.byContradiction
    intro hc
    apply hnot i2
    intro w hw
    cases hx : ((σ i2).pc w).isExited with
    | true => rfl
    | false => exact absurd ⟨w, hw, hx⟩ hc
  obtain ⟨w, hw, hl⟩ := hlive
  have hwi : ((σ i2).pc w).idle = true := by
    rcases hall w hw with h1 | h1
    · rw [h1] at hl; cases hl
    · exact h1
  have F : Frozen n σ who i2 w v :=
    { fair := hf, stut := hfr,
      noretry := fun j hj => hi0 j (Nat.le_trans (Nat.le_max_left i0 i1) hj),
      hw := hw, hv := hv, msg := hdq }
  exact F.contradiction hwi

end RgVerif.ParWalk
