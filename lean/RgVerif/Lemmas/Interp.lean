import RgVerif.Spec.ReplaceAll
/-
Helper lemmas for C19: the code's `find_cap_ref` agrees with the regex crate's
reference grammar on templates satisfying `braceOk`.
-/
namespace RgVerif.Lemmas.Interp
open RgVerif RgVerif.Interp RgVerif.ReplaceSpec

/-- What a capture environment of a real regex satisfies: there is no group with an index
beyond `u32::MAX`, and no group is named by something that parses as a number (names start with a
letter or `_`). Under this the `u32`/`usize` difference between the two parsers is unobservable. -/
def EnvOk (env : Env) : Prop :=
  (∀ n, u32Max < n → env.group n = none) ∧
  (∀ name, (parseBounded usizeMax name).isSome → env.nameIdx name = none)

/-- `parseBounded` in the shape used by the proofs. -/
theorem parseBounded_eq (m : Nat) (bs : Bytes) :
    ∃ ds : Bytes, parseBounded m bs =
      (if (ds.isEmpty || !ds.all isDigit) = true then none
       else if digitsVal ds ≤ m then some (digitsVal ds) else none) ∧
      ∀ m', parseBounded m' bs =
      (if (ds.isEmpty || !ds.all isDigit) = true then none
       else if digitsVal ds ≤ m' then some (digitsVal ds) else none) := by
  refine ⟨(match bs with | 43 :: t => t | _ => bs), rfl, fun _ => rfl⟩

theorem parseBounded_mono {a b : Nat} (hab : a ≤ b) {bs : Bytes} {n : Nat}
    (h : parseBounded a bs = some n) : parseBounded b bs = some n := by
  obtain ⟨ds, _, hall⟩ := parseBounded_eq a bs
  rw [hall a] at h
  rw [hall b]
  by_cases hc : (ds.isEmpty || !ds.all isDigit) = true
  · simp [hc] at h
  · simp only [hc] at h ⊢
    by_cases hle : digitsVal ds ≤ a
    · have : digitsVal ds ≤ b := by omega
      simp [hle] at h
      subst h
      simp [this]
    · simp [hle] at h

theorem parseBounded_none_some {a b : Nat} {bs : Bytes} {n : Nat}
    (h1 : parseBounded a bs = none) (h2 : parseBounded b bs = some n) : a < n := by
  obtain ⟨ds, _, hall⟩ := parseBounded_eq a bs
  rw [hall a] at h1
  rw [hall b] at h2
  by_cases hc : (ds.isEmpty || !ds.all isDigit) = true
  · simp [hc] at h2
  · simp only [hc] at h1 h2
    by_cases hle : digitsVal ds ≤ b
    · simp [hle] at h2
      by_cases hla : digitsVal ds ≤ a
      · simp [hla] at h1
      · omega
    · simp [hle] at h2

theorem expand_toRef {env : Env} (h : EnvOk env) (name : Bytes) :
    env.expand (toRefU32 name) = env.expand (toRefUsize name) := by
  unfold toRefU32 toRefUsize
  cases h32 : parseBounded u32Max name with
  | some n =>
    have := parseBounded_mono (a := u32Max) (b := usizeMax) (by decide) h32
    simp [this]
  | none =>
    cases h64 : parseBounded usizeMax name with
    | none => simp
    | some n =>
      have hlt := parseBounded_none_some h32 h64
      have hn := h.2 name (by simp [h64])
      have hg := h.1 n hlt
      simp [Env.expand, hn, hg]

/-! ### List facts -/

theorem drop_takeWhile_length {α} (p : α → Bool) (l : List α) :
    l.drop (l.takeWhile p).length = l.dropWhile p := by
  induction l with
  | nil => simp
  | cons a l ih =>
    by_cases h : p a
    · simp [List.takeWhile_cons, h, ih]
    · simp [List.takeWhile_cons, h]

theorem dropWhile_head_false {α} (p : α → Bool) {l : List α} {x : α} {rest : List α}
    (h : l.dropWhile p = x :: rest) : p x = false := by
  induction l with
  | nil => simp at h
  | cons a l ih =>
    by_cases ha : p a
    · simp [ha] at h; exact ih h
    · simp [ha] at h; cases h.1; simpa using ha

theorem takeWhile_stop {α} (p : α → Bool) (nm : List α) (x : α) (rest : List α)
    (hall : ∀ y ∈ nm, p y = true) (hx : p x = false) :
    (nm ++ x :: rest).takeWhile p = nm := by
  rw [List.takeWhile_append_of_pos hall]
  simp [List.takeWhile_cons, hx]

theorem dropWhile_nil_all {α} (p : α → Bool) {l : List α} (h : l.dropWhile p = []) :
    ∀ x ∈ l, p x = true := by
  induction l with
  | nil => simp
  | cons a l ih =>
    by_cases ha : p a
    · simp [ha] at h; intro x hx; simp at hx; rcases hx with rfl | hx; exact ha; exact ih h x hx
    · simp [ha] at h

theorem validUtf8_ascii (bs : Bytes) (h : ∀ b ∈ bs, b < 0x80) : validUtf8 bs = true := by
  induction bs with
  | nil => simp [validUtf8]
  | cons b rest ih =>
    have hb : b < 0x80 := h b (by simp)
    unfold validUtf8
    simp only [hb, ↓reduceIte]
    exact ih (fun x hx => h x (by simp [hx]))

theorem isCapLetter_lt {b : Nat} (h : isCapLetter b = true) : b < 0x80 := by
  unfold isCapLetter at h
  simp at h
  omega

theorem isCapLetter_125 : isCapLetter 125 = false := by decide

/-- Braced form `${…`. -/
theorem findCapRef_vs_refAt_braced (body : Bytes) (hok : braceHeadOk (36 :: 123 :: body) = true) :
    (findCapRef (36 :: 123 :: body) = none ∧ refAt (36 :: 123 :: body) = none) ∨
    ∃ name k, findCapRef (36 :: 123 :: body) = some ⟨toRefU32 name, k⟩ ∧
      refAt (36 :: 123 :: body) = some (toRefUsize name, k) := by
  -- the run up to the first `}`
  have hD := drop_takeWhile_length (fun b => b != 125) body
  cases hd : body.dropWhile (fun b => b != 125) with
  | nil =>
    left
    have hall := dropWhile_nil_all _ hd
    constructor
    · unfold findCapRef
      simp only
      split
      · rfl
      · rw [drop_takeWhile_length]
        split
        · rename_i heq
          have hm : 125 ∈ body := (List.dropWhile_sublist _).subset (by rw [heq]; simp)
          have := hall 125 hm
          simp at this
        · rfl
    · unfold refAt
      simp only
      rw [hD, hd]
  | cons x rest =>
    have hx := dropWhile_head_false _ hd
    have hx125 : x = 125 := by simpa using hx
    subst hx125
    right
    -- guard: the name is non-empty and made of cap letters
    have hg : ((body.takeWhile (fun b => b != 125)).isEmpty = false) ∧
        (body.takeWhile (fun b => b != 125)).all isCapLetter = true := by
      unfold braceHeadOk at hok
      simp only at hok
      rw [hD, hd] at hok
      simpa using hok
    have hbody : body = body.takeWhile (fun b => b != 125) ++ 125 :: rest := by
      have := @List.takeWhile_append_dropWhile _ (fun b => b != 125) body
      rw [hd] at this
      exact this.symm
    generalize hnm : body.takeWhile (fun b => b != 125) = nm at *
    have hallc : ∀ y ∈ nm, isCapLetter y = true := by
      intro y hy
      have := hg.2
      rw [List.all_eq_true] at this
      exact this y hy
    have htw : body.takeWhile isCapLetter = nm := by
      rw [hbody]; exact takeWhile_stop _ _ _ _ hallc isCapLetter_125
    refine ⟨nm, nm.length + 3, ?_, ?_⟩
    · unfold findCapRef
      simp only
      rw [htw]
      have hne : nm.isEmpty = false := hg.1
      simp only [hne, Bool.false_eq_true, ↓reduceIte]
      have : body.drop nm.length = 125 :: rest := by
        rw [← hD] at hd
        exact hd
      rw [this]
      rfl
    · unfold refAt
      simp only
      rw [hnm]
      have : body.drop nm.length = 125 :: rest := by
        rw [← hD] at hd
        exact hd
      rw [this]
      have hv : validUtf8 nm = true :=
        validUtf8_ascii nm (fun b hb => isCapLetter_lt (hallc b hb))
      simp [hv]

/-- On a template head satisfying the guard, the code's parser and the reference parser agree up to
the `u32`/`usize` number parse. -/
theorem findCapRef_vs_refAt (r : Bytes) (hok : braceHeadOk r = true) :
    (findCapRef r = none ∧ refAt r = none) ∨
    ∃ name k, findCapRef r = some ⟨toRefU32 name, k⟩ ∧ refAt r = some (toRefUsize name, k) := by
  match r with
  | [] => left; simp [findCapRef, refAt]
  | [x] => left; unfold findCapRef refAt; split <;> simp_all
  | a :: c :: rest =>
    by_cases ha : a = 36
    · subst ha
      by_cases hc : c = 123
      · subst hc; exact findCapRef_vs_refAt_braced rest hok
      · have e1 : findCapRef (36 :: c :: rest) =
            (if ((c :: rest).takeWhile isCapLetter).isEmpty then none
             else some ⟨toRefU32 ((c :: rest).takeWhile isCapLetter),
                        ((c :: rest).takeWhile isCapLetter).length + 1⟩) := by
          unfold findCapRef
          split
          · rename_i heq; injection heq with _ h2; injection h2 with h3 _; exact absurd h3 hc
          · rename_i heq; injection heq with _ h2; injection h2 with h3 h4; subst h3; subst h4; rfl
          · rename_i h1 h2; exact absurd rfl (h2 c rest)
        have e2 : refAt (36 :: c :: rest) =
            (if ((c :: rest).takeWhile isCapLetter).isEmpty then none
             else some (toRefUsize ((c :: rest).takeWhile isCapLetter),
                        ((c :: rest).takeWhile isCapLetter).length + 1)) := by
          unfold refAt
          split
          · rename_i heq; injection heq with _ h2; injection h2 with h3 _; exact absurd h3 hc
          · rename_i heq; injection heq with _ h2; injection h2 with h3 h4; subst h3; subst h4; rfl
          · rename_i h1 h2; exact absurd rfl (h2 c rest)
        rw [e1, e2]
        by_cases he : ((c :: rest).takeWhile isCapLetter).isEmpty = true
        · left; simp [he]
        · right
          refine ⟨(c :: rest).takeWhile isCapLetter, ((c :: rest).takeWhile isCapLetter).length + 1, ?_, ?_⟩
          · simp [he]
          · simp [he]
    · left
      unfold findCapRef refAt
      constructor <;> (split <;> simp_all)

end RgVerif.Lemmas.Interp

namespace RgVerif.Lemmas.Interp
open RgVerif RgVerif.Interp RgVerif.ReplaceSpec

theorem braceOk_tail {b : Nat} {rest : Bytes} (h : braceOk (b :: rest) = true) : braceOk rest = true := by
  unfold braceOk at h
  simp at h
  exact h.2

theorem braceOk_head {t : Bytes} (h : braceOk t = true) : braceHeadOk t = true := by
  cases t with
  | nil => simp [braceHeadOk]
  | cons b rest =>
    unfold braceOk at h
    simp at h
    exact h.1

theorem braceOk_drop (k : Nat) {t : Bytes} (h : braceOk t = true) : braceOk (t.drop k) = true := by
  induction k generalizing t with
  | zero => simpa
  | succ k ih =>
    cases t with
    | nil => simpa
    | cons b rest => simpa using ih (braceOk_tail h)

theorem expand_cons_lit (env : Env) (b : Nat) (ts : List Tok) :
    (Tok.lit b :: ts).flatMap (Tok.out env) = b :: ts.flatMap (Tok.out env) := by
  simp [Tok.out]

/-! ### Unfolding lemmas in usable form -/

theorem interpolate_nil (env : Env) : interpolate env [] = [] := by
  unfold interpolate; rfl

theorem interpolate_dd (env : Env) (rest : Bytes) :
    interpolate env (36 :: 36 :: rest) = 36 :: interpolate env rest := by
  rw [interpolate]

theorem interpolate_other (env : Env) {b : Nat} (rest : Bytes) (hb : b ≠ 36) :
    interpolate env (b :: rest) = b :: interpolate env rest := by
  rw [interpolate]
  · intro rest' h; exact absurd h hb
  · intro h; exact absurd h hb

theorem interpolate_d_none (env : Env) (rest : Bytes) (hne : ∀ r', rest ≠ 36 :: r')
    (h : findCapRef (36 :: rest) = none) :
    interpolate env (36 :: rest) = 36 :: interpolate env rest := by
  rw [interpolate]
  · split
    · rfl
    · rename_i cr hcr; rw [h] at hcr; cases hcr
  · intro r' heq; exact hne r' heq

theorem interpolate_d_some (env : Env) (rest : Bytes) (hne : ∀ r', rest ≠ 36 :: r')
    {cr : CapRef} (h : findCapRef (36 :: rest) = some cr) :
    interpolate env (36 :: rest) =
      env.expand cr.cap ++ interpolate env ((36 :: rest).drop cr.endPos) := by
  rw [interpolate]
  · split
    · rename_i hcr; rw [h] at hcr; cases hcr
    · rename_i cr' hcr; rw [h] at hcr; injection hcr with hcr; subst hcr; rfl
  · intro r' heq; exact hne r' heq

theorem tokens_nil : tokens [] = [] := by
  unfold tokens; rfl

theorem tokens_dd (rest : Bytes) : tokens (36 :: 36 :: rest) = .lit 36 :: tokens rest := by
  rw [tokens]

theorem tokens_other {b : Nat} (rest : Bytes) (hb : b ≠ 36) :
    tokens (b :: rest) = .lit b :: tokens rest := by
  rw [tokens]
  · intro rest' h; exact absurd h hb
  · intro h; exact absurd h hb

theorem tokens_d_none (rest : Bytes) (hne : ∀ r', rest ≠ 36 :: r')
    (h : refAt (36 :: rest) = none) : tokens (36 :: rest) = .lit 36 :: tokens rest := by
  rw [tokens]
  · split
    · rfl
    · rename_i x hx; rw [h] at hx; cases hx
  · intro r' heq; exact hne r' heq

theorem tokens_d_some (rest : Bytes) (hne : ∀ r', rest ≠ 36 :: r')
    {x : Ref × Nat} (h : refAt (36 :: rest) = some x) :
    tokens (36 :: rest) = .ref x.1 :: tokens ((36 :: rest).drop x.2) := by
  rw [tokens]
  · split
    · rename_i hx; rw [h] at hx; cases hx
    · rename_i x' hx; rw [h] at hx; injection hx with hx; subst hx; rfl
  · intro r' heq; exact hne r' heq


theorem expand_nil (env : Env) : expand env [] = [] := by
  simp [expand, tokens_nil]

/-- A `$` that is not followed by `$`: the two parsers agree, so both sides take the same step. -/
theorem step_dollar (env : Env) (henv : EnvOk env) (rest : Bytes) (hne : ∀ r', rest ≠ 36 :: r')
    (hok : braceOk (36 :: rest) = true)
    (ih : ∀ t : Bytes, t.length ≤ rest.length → braceOk t = true → interpolate env t = expand env t) :
    interpolate env (36 :: rest) = expand env (36 :: rest) := by
  rcases findCapRef_vs_refAt (36 :: rest) (braceOk_head hok) with ⟨h1, h2⟩ | ⟨name, k, h1, h2⟩
  · rw [interpolate_d_none env rest hne h1]
    unfold expand
    rw [tokens_d_none rest hne h2, expand_cons_lit]
    have := ih rest (Nat.le_refl _) (braceOk_tail hok)
    unfold expand at this
    rw [this]
  · rw [interpolate_d_some env rest hne h1]
    unfold expand
    rw [tokens_d_some rest hne h2]
    have hk : 0 < k := findCapRef_pos h1
    have hlen : ((36 :: rest).drop k).length ≤ rest.length := by
      simp [List.length_drop]; omega
    have := ih ((36 :: rest).drop k) hlen (braceOk_drop k hok)
    unfold expand at this
    simp only [List.flatMap_cons, Tok.out]
    rw [← this, expand_toRef henv]

/-- Main agreement theorem, by induction on the length of the template. -/
theorem interpolate_eq_expand_aux (env : Env) (henv : EnvOk env) :
    ∀ (n : Nat) (t : Bytes), t.length ≤ n → braceOk t = true → interpolate env t = expand env t := by
  intro n
  induction n with
  | zero =>
    intro t hl _
    have : t = [] := by cases t <;> simp_all
    subst this
    rw [interpolate_nil, expand_nil]
  | succ n ih =>
    intro t hl hok
    match t, hl, hok with
    | [], _, _ => rw [interpolate_nil, expand_nil]
    | b :: rest, hl, hok =>
      have hl' : rest.length ≤ n := by simpa using hl
      by_cases hb : b = 36
      · subst hb
        by_cases hdd : ∃ r', rest = 36 :: r'
        · obtain ⟨r', rfl⟩ := hdd
          rw [interpolate_dd]
          unfold expand
          rw [tokens_dd, expand_cons_lit]
          have := ih r' (by simp at hl'; omega) (braceOk_tail (braceOk_tail hok))
          unfold expand at this
          rw [this]
        · have hne : ∀ r', rest ≠ 36 :: r' := fun r' h => hdd ⟨r', h⟩
          exact step_dollar env henv rest hne hok
            (fun t ht hokt => ih t (Nat.le_trans ht hl') hokt)
      · rw [interpolate_other env rest hb]
        unfold expand
        rw [tokens_other rest hb, expand_cons_lit]
        have := ih rest hl' (braceOk_tail hok)
        unfold expand at this
        rw [this]

end RgVerif.Lemmas.Interp
