import RgVerif.Lemmas.Exit
/-
C15 — exit status and error reporting contract: the theorems that decide the property.
`main`/`run`/`search`/`search_parallel`/`files`/`files_parallel` are `RgVerif.Exit.*` (Model/Exit.lean),
the contract is `RgVerif.ExitSpec.*` (Spec/ExitSpec.lean).
-/
namespace RgVerif.Props.C15
open RgVerif.Exit RgVerif.ExitSpec

/-- The table, spelled out as in the property. -/
theorem specExit_table (m e q : Bool) :
    (specExit m e q = 0 ↔ (m = true ∧ (q = true ∨ e = false))) ∧
    (specExit m e q = 2 ↔ (e = true ∧ ¬ (m = true ∧ q = true))) ∧
    (specExit m e q = 1 ↔ (m = false ∧ e = false)) := by
  cases m <;> cases q <;> cases e <;> decide

/-- **Exit status = the table applied to what is in the tree**, for all four drivers, every list of
entries, every admissible schedule of the parallel drivers, `--quiet`/`--stats`/`--no-messages`/implicit
path, provided no write to stdout fails (that case is `C15_pipe`). -/
theorem exit_eq_spec (c : Cfg) (all ran : List Item) (hs : Sched c all ran) (hw : WritesOk all)
    (hok : c.setupOk = true) :
    (main c .ok ran).exit = specExit (specMatched c all) (specErrored c all) c.quiet := by
  cases hm : c.mode with
  | search =>
    cases hmp : c.matchesPossible with
    | false =>
      simp [main, run, hm, hmp, specMatched, specErrored, exitCode_eq_specExit]
    | true =>
      cases hp : c.parallel with
      | false =>
        have : ran = all := by simpa [Sched, hp] using hs
        subst this
        rw [main_search_seq c ran hm hmp hp hok, searchLoop_nopipe c ran {} hw]
        simp only [Bool.false_eq_true, if_false]
        apply exit_core
        · simp [specMatched, hm, hmp, searchLoop_matched c ran {} hw]
        · intro hq
          obtain ⟨h1, h2⟩ := searchLoop_full c hm ran {} hw hq
          rw [afterCheck_errored, h1, h2]
          simp [specErrored, hm, hmp]
      | true =>
        obtain ⟨rest, hperm, hrest⟩ : ∃ rest, (ran ++ rest).Perm all ∧ (quitIssued c ran = false → rest = []) := by
          simpa [Sched, hp] using hs
        have hwr : WritesOk ran := fun x hx => hw x (hperm.mem_iff.mp (List.mem_append_left _ hx))
        obtain ⟨f1, f2, f3, f4⟩ := parSearchLoop_flags c hm ran {} hwr
        rw [main_search_par c ran hm hmp hp hok, f4]
        simp only [Bool.false_eq_true, if_false]
        cases hq : (parSearchLoop c ran {}).2 with
        | true =>
          obtain ⟨q1, q2⟩ := parSearchLoop_quit c ran {} hwr hq
          have hM : specMatched c all = true := by
            have : (ran ++ rest).any isMatch = true := by
              rw [List.any_append, ← Bool.false_or (ran.any isMatch), ← f1, q1]; rfl
            simpa [specMatched, hm, hmp, hperm.any_eq] using this
          rw [q1, hM, qam_quiet c q2]
          cases (afterCheck c (parSearchLoop c ran {}).1).errored <;> cases specErrored c all <;> decide
        | false =>
          have hr : rest = [] := hrest (by simp [quitIssued, hm, hq])
          subst hr
          simp only [List.append_nil] at hperm
          apply exit_core
          · simp [specMatched, hm, hmp, ← hperm.any_eq, f1]
          · intro _
            rw [afterCheck_errored, f2, f3]
            simp [specErrored, hm, hmp, ← hperm.any_eq]
  | files =>
    cases hp : c.parallel with
    | false =>
      have : ran = all := by simpa [Sched, hp] using hs
      subst this
      obtain ⟨h1, h2⟩ := filesLoop_ok c ran {} hw
      rw [main_files_seq c ran hm hp hok, h1]
      simp only [Bool.false_eq_true, if_false]
      apply exit_core
      · simp [specMatched, hm, h2]
      · intro hq
        rw [filesLoop_full c hm ran {} hw hq]
        simp [specErrored, hm]
    | true =>
      obtain ⟨rest, hperm, hrest⟩ : ∃ rest, (ran ++ rest).Perm all ∧ (quitIssued c ran = false → rest = []) := by
        simpa [Sched, hp] using hs
      have hwr : WritesOk ran := fun x hx => hw x (hperm.mem_iff.mp (List.mem_append_left _ hx))
      obtain ⟨f1, f2⟩ := filesParWalk_flags c hm ran {}
      have hpt := printThread_ok _ (filesParWalk_sent_ok c ran {} hwr)
      rw [main_files_par c ran hm hp hok, hpt]
      simp only [reduceCtorEq, if_false]
      cases hq : (c.qam && ran.any isFile) with
      | true =>
        simp only [Bool.and_eq_true] at hq
        have hM : specMatched c all = true := by
          have : (ran ++ rest).any isFile = true := by rw [List.any_append, hq.2]; rfl
          simpa [specMatched, hm, hperm.any_eq] using this
        rw [f1, hq.2, hM, qam_quiet c hq.1]
        cases (filesParWalk c ran {}).1.errored <;> cases specErrored c all <;> decide
      | false =>
        have hr : rest = [] := hrest (by simp [quitIssued, hm, hq, hpt])
        subst hr
        simp only [List.append_nil] at hperm
        apply exit_core
        · simp [specMatched, hm, ← hperm.any_eq, f1]
        · intro _
          rw [f2]
          simp [specErrored, hm, ← hperm.any_eq]

/-- The property's wording: 0 ⇔ matched and (quiet or no error); 2 ⇔ error and not (matched and quiet);
1 ⇔ nothing matched and no error. -/
theorem exit_table (c : Cfg) (all ran : List Item) (hs : Sched c all ran) (hw : WritesOk all)
    (hok : c.setupOk = true) :
    ((main c .ok ran).exit = 0 ↔ (specMatched c all = true ∧ (c.quiet = true ∨ specErrored c all = false))) ∧
    ((main c .ok ran).exit = 2 ↔ (specErrored c all = true ∧ ¬ (specMatched c all = true ∧ c.quiet = true))) ∧
    ((main c .ok ran).exit = 1 ↔ (specMatched c all = false ∧ specErrored c all = false)) := by
  rw [exit_eq_spec c all ran hs hw hok]
  exact specExit_table _ _ _

/-- An invalid pattern / glob / encoding / flag: status 2, one diagnostic, no results. -/
theorem invalid_args_no_results (c : Cfg) (items : List Item) :
    main c .err items = ⟨2, [.fatal], []⟩ ∧
    (c.setupOk = false → (c.mode = .search → c.matchesPossible = true) →
      main c .ok items = ⟨2, [.fatal], []⟩) := by
  refine ⟨rfl, ?_⟩
  intro h hmp
  cases hm : c.mode with
  | search =>
    have := hmp hm
    cases hp : c.parallel <;> simp [main, run, hm, this, hp, search, searchParallel, h]
  | files =>
    cases hp : c.parallel <;> simp [main, run, hm, hp, files, filesParallel, h]

/-- A failing entry (unreadable file or directory, vanished file, dangling symlink …) changes nothing
in the results written to stdout: the run over `pre ++ f :: post` prints exactly what the run over
`pre ++ post` prints — all four drivers, every configuration, every parse outcome. -/
theorem errors_do_not_suppress (c : Cfg) (p : Parse) (pre post : List Item) (f : Item)
    (hf : isFault c f = true) :
    (main c p (pre ++ f :: post)).out = (main c p (pre ++ post)).out := by
  cases p with
  | err => rfl
  | special => rfl
  | ok =>
    cases hok : c.setupOk with
    | false =>
      cases hm : c.mode <;> cases hmp : c.matchesPossible <;> cases hp : c.parallel <;>
        simp [main, run, hm, hmp, hp, search, searchParallel, files, filesParallel, hok]
    | true =>
      cases hm : c.mode with
      | search =>
        cases hmp : c.matchesPossible with
        | false => simp [main, run, hm, hmp]
        | true =>
          cases hp : c.parallel with
          | false =>
            have key := (searchLoop_drop c pre post f hf {}).2
            rw [main_search_seq c _ hm hmp hp hok, main_search_seq c _ hm hmp hp hok]
            split <;> split <;> simpa using key
          | true =>
            have key := (parSearchLoop_drop c pre post f hf {}).2
            rw [main_search_par c _ hm hmp hp hok, main_search_par c _ hm hmp hp hok]
            split <;> split <;> simpa using key
      | files =>
        cases hp : c.parallel with
        | false =>
          have key := (filesLoop_drop c hm pre post f hf {}).2
          rw [main_files_seq c _ hm hp hok, main_files_seq c _ hm hp hok]
          split <;> split <;> simpa using key
        | true =>
          have hw : f = .walkErr := by
            cases f with
            | walkErr => rfl
            | skip => simp [isFault] at hf
            | file id sr wr => cases sr <;> simp [isFault, hm] at hf
          subst hw
          rw [main_files_par c _ hm hp hok, main_files_par c _ hm hp hok,
            filesParWalk_drop, filesParWalk_out, filesParWalk_out]
          split <;> rfl

/-- Without `--quiet`'s early stop and with a live consumer, the results of *every* healthy entry are
written, in processing order — whatever faults lie in between. -/
theorem all_results_produced (c : Cfg) (ran : List Item) (hq : c.qam = false) (hw : WritesOk ran)
    (hok : c.setupOk = true) (hmp : c.matchesPossible = true) :
    (main c .ok ran).out = ran.filterMap (okId c) := by
  cases hm : c.mode with
  | search =>
    cases hp : c.parallel with
    | false =>
      rw [main_search_seq c _ hm hmp hp hok, searchLoop_nopipe c ran {} hw]
      simp [searchLoop_out c hm hq ran {} hw]
    | true =>
      rw [main_search_par c _ hm hmp hp hok, (parSearchLoop_flags c hm ran {} hw).2.2.2]
      simp [parSearchLoop_out c hm ran {} hw]
  | files =>
    cases hp : c.parallel with
    | false =>
      rw [main_files_seq c _ hm hp hok, (filesLoop_ok c ran {} hw).1]
      simp [filesLoop_out c hm hq ran {} hw]
    | true =>
      rw [main_files_par c _ hm hp hok, printThread_ok _ (filesParWalk_sent_ok c ran {} hw)]
      simp [filesParWalk_out, filesPar_out c hm hq ran {} hw]

/-! ### The consumer closes the pipe -/

/-- Full statement: whenever a write to stdout fails with EPIPE the run exits 0 and every line on
stderr is owed to a faulty entry (nothing is said about the pipe).  `raw` pairs every entry with
"goes through `--pre`"; the EPIPE is located on the raw results, the run sees `raw.map seen`. -/
def C15_pipe_full : Prop :=
  ∀ (c : Cfg) (raw : List (Bool × Item)), c.setupOk = true → c.matchesPossible = true →
    pipeHit c (raw.map (·.2)) = true →
    (main c .ok (raw.map seen)).exit = 0 ∧
    ∀ d ∈ (main c .ok (raw.map seen)).diags, d ∈ (raw.map (·.2)).filterMap (diagOf c)

/-- It fails on the current tree, twice.
(a) `rg --files missing dir | head -c0` exits 2: `files` leaves its loop with `break` and `run` then
consults `errored` (likewise `files_parallel`), whereas `search`/`search_parallel` hand the broken pipe to
`main`, which exits 0.
(b) `rg -j1 --pre cat x big | head -c0` exits 2 with "preprocessor command failed: … Broken pipe":
`search_preprocessor` re-wraps the printer's `BrokenPipe` as `ErrorKind::Other`, so `search` treats it as a
file error and carries on. -/
theorem C15_pipe_full_fails : ¬ C15_pipe_full := by
  intro h
  have := (h { mode := .files } [(false, .walkErr), (false, .file 0 (.ok false) .pipe)] rfl rfl (by decide)).1
  revert this
  decide

/-- Witness (b) on its own: with `--pre`, a pipe closed during the first file gives status 2 and a
diagnostic for that file. -/
theorem C15_pipe_pre_fails :
    pipeHit {} ([(true, Item.file 0 .pipe .ok)].map (·.2)) = true ∧
    main {} .ok ([(true, Item.file 0 .pipe .ok)].map seen) = ⟨2, [.file 0], []⟩ := by
  decide

/-- **Proved part**.  Guards: (i) the EPIPE reaches the driver loop with its kind intact — `ran` is what
the loop sees, so for a `--pre` file this excludes the re-wrapped case (b) above; (ii) `pipeGuard`:
searching, or `--quiet`, or no fault was reported (excludes (a)).  Then a broken pipe at any write — any
entry, any position, single- or multi-threaded, any schedule — gives exit status 0 and no diagnostic
about it. -/
theorem C15_pipe (c : Cfg) (ran : List Item) (hok : c.setupOk = true) (hmp : c.matchesPossible = true)
    (hpipe : pipeHit c ran = true) (hg : pipeGuard c ran = true) :
    (main c .ok ran).exit = 0 ∧ ∀ d ∈ (main c .ok ran).diags, d ∈ ran.filterMap (diagOf c) := by
  cases hm : c.mode with
  | search =>
    cases hp : c.parallel with
    | false =>
      have hl : (searchLoop c ran {}).2 = true := by simpa [pipeHit, hm, hp] using hpipe
      rw [main_search_seq c _ hm hmp hp hok, hl]
      refine ⟨rfl, fun d hd => ?_⟩
      rcases searchLoop_diags c hm ran {} d hd with h | h
      · simp at h
      · exact h
    | true =>
      have hl : (parSearchLoop c ran {}).1.brokenPipe = true := by simpa [pipeHit, hm, hp] using hpipe
      rw [main_search_par c _ hm hmp hp hok, hl]
      refine ⟨rfl, fun d hd => ?_⟩
      rcases parSearchLoop_diags c hm hp ran {} d hd with h | h
      · simp at h
      · exact h
  | files =>
    have hg' : c.quiet = true ∨ ran.any (isFault c) = false := by
      simpa [pipeGuard, hm] using hg
    cases hp : c.parallel with
    | false =>
      have hl : filesPipe c ran = true := by simpa [pipeHit, hm, hp] using hpipe
      obtain ⟨h1, h2, h3⟩ := filesLoop_pipe c ran {} hl
      rw [main_files_seq c _ hm hp hok, h1]
      simp only [Bool.false_eq_true, if_false]
      refine ⟨?_, fun d hd => ?_⟩
      · rw [h2]
        rcases hg' with hq | hf
        · rw [hq]; cases (filesLoop c ran {}).1.errored <;> decide
        · cases he : (filesLoop c ran {}).1.errored with
          | false => cases c.quiet <;> decide
          | true =>
            rcases h3 he with h | h
            · simp at h
            · rw [hf] at h; simp at h
      · rcases filesLoop_diags c ran {} d hd with h | h
        · simp at h
        · exact h
    | true =>
      have hl : (printThread (filesParWalk c ran {}).2).2 = .pipe := by simpa [pipeHit, hm, hp] using hpipe
      have hne := printThread_pipe_ne_nil _ hl
      have hmt := filesParWalk_sent_matched c ran {} hne
      obtain ⟨_, f2⟩ := filesParWalk_flags c hm ran {}
      rw [main_files_par c _ hm hp hok, hl]
      simp only [reduceCtorEq, if_false]
      refine ⟨?_, fun d hd => ?_⟩
      · rw [hmt, f2]
        rcases hg' with hq | hf
        · rw [hq]; cases ({} : St).errored || ran.any (isFault c) <;> decide
        · rw [hf]; cases c.quiet <;> decide
      · rcases filesParWalk_diags c ran {} d hd with h | h
        · simp at h
        · exact h

/-- Non-vacuity of `C15_pipe`: the pipe closes while the second of three files is being printed, after a
fault was reported — single-threaded search, parallel search, and `--files` without fault. -/
example :
    (pipeHit {} [.walkErr, .file 0 (.ok true) .ok, .file 1 .pipe .ok, .file 2 (.ok true) .ok] = true ∧
      pipeGuard {} [.walkErr, .file 0 (.ok true) .ok, .file 1 .pipe .ok, .file 2 (.ok true) .ok] = true) ∧
    (pipeHit { parallel := true } [.file 2 .err .ok, .file 0 (.ok false) .pipe, .file 1 (.ok true) .ok] = true ∧
      pipeGuard { parallel := true } [.file 2 .err .ok, .file 0 (.ok false) .pipe, .file 1 (.ok true) .ok] = true) ∧
    (pipeHit { mode := .files } [.skip, .file 0 (.ok false) .ok, .file 1 (.ok false) .pipe] = true ∧
      pipeGuard { mode := .files } [.skip, .file 0 (.ok false) .ok, .file 1 (.ok false) .pipe] = true) := by
  decide

/-- Non-vacuity of `exit_table`: an admissible parallel schedule that stops early. -/
example : Sched { parallel := true, quiet := true }
    [.file 0 .err .ok, .file 1 (.ok true) .ok, .walkErr] [.file 1 (.ok true) .ok] :=
  by
    refine (if_pos rfl).mpr ⟨[.file 0 .err .ok, .walkErr], ?_, by decide⟩
    decide

end RgVerif.Props.C15
