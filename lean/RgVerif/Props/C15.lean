import RgVerif.Lemmas.Exit
/-
C15 — exit status and error reporting contract: the theorems that decide the property.
`main`/`run`/`search`/`search_parallel`/`files`/`files_parallel` are `RgVerif.Exit.*` (Model/Exit.lean),
the contract is `RgVerif.ExitSpec.*` (Spec/ExitSpec.lean).
-/
namespace RgVerif.Props.C15
open RgVerif.Exit RgVerif.ExitSpec

/-- The table, spelled out as in the property. -/
theorem specExit_table (m e q : Bool) :
    (specExit m e q = 0 ↔ (m = true ∧ (q = true ∨ e = false))) ∧
    (specExit m e q = 2 ↔ (e = true ∧ ¬ (m = true ∧ q = true))) ∧
    (specExit m e q = 1 ↔ (m = false ∧ e = false)) := by
  cases m <;> cases q <;> cases e <;> decide

/-- **Exit status = the table applied to what is in the tree**, for all four drivers, every list of
entries, every admissible schedule of the parallel drivers, `--quiet`/`--stats`/`--no-messages`/implicit
path, provided no write to stdout fails (that case is `C15_pipe`). -/
theorem exit_eq_spec (c : Cfg) (all ran : List Item) (hs : Sched c all ran) (hw : WritesOk all)
    (hok : c.setupOk = true) (hfl : flushes c = true → c.flush = .ok) :
    (main c .ok ran).exit = specExit (specMatched c all) (specErrored c all) c.quiet := by
  cases hm : c.mode with
  | search =>
    cases hmp : c.matchesPossible with
    | false =>
      simp [main, run, hm, hmp, specMatched, specErrored, exitCode_eq_specExit]
    | true =>
      cases hp : c.parallel with
      | false =>
        have : ran = all := by simpa [Sched, hp] using hs
        subst this
        rw [main_search_seq c ran hm hmp hp hok, searchLoop_nopipe c ran (initSt c) hw]
        simp only [Bool.false_eq_true, if_false]
        rw [conclude_ok _ _ _ (hfl (by simp [flushes, hm, hmp, hp]))]
        apply exit_core
        · simp [specMatched, hm, hmp, searchLoop_matched c ran (initSt c) hw]
        · intro hq
          obtain ⟨h1, h2⟩ := searchLoop_full c hm ran (initSt c) hw hq
          rw [afterCheck_errored, h1, h2]
          simp [specErrored, hm, hmp, Bool.or_assoc]
      | true =>
        obtain ⟨rest, hperm, hrest⟩ : ∃ rest, (ran ++ rest).Perm all ∧ (quitIssued c ran = false → rest = []) := by
          simpa [Sched, hp] using hs
        have hwr : WritesOk ran := fun x hx => hw x (hperm.mem_iff.mp (List.mem_append_left _ hx))
        obtain ⟨f1, f2, f3, f4⟩ := parSearchLoop_flags c hm ran (initSt c) hwr
        simp only [initSt_matched, initSt_errored, initSt_searched, initSt_brokenPipe] at f1 f2 f3 f4
        rw [main_search_par c ran hm hmp hp hok, f4]
        simp only [Bool.false_eq_true, if_false]
        cases hq : (parSearchLoop c ran (initSt c)).2 with
        | true =>
          obtain ⟨q1, q2⟩ := parSearchLoop_quit c ran (initSt c) hwr hq
          have hM : specMatched c all = true := by
            have : (ran ++ rest).any isMatch = true := by
              rw [List.any_append, ← Bool.false_or (ran.any isMatch), ← f1, q1]; rfl
            simpa [specMatched, hm, hmp, hperm.any_eq] using this
          rw [q1, hM, qam_quiet c q2]
          show exitCode true true _ = specExit true _ true
          cases (afterCheck c (parSearchLoop c ran (initSt c)).1).errored <;> cases specErrored c all <;> decide
        | false =>
          have hr : rest = [] := hrest (by simp [quitIssued, hm, hq])
          subst hr
          simp only [List.append_nil] at hperm
          apply exit_core
          · simp [specMatched, hm, hmp, ← hperm.any_eq, f1]
          · intro _
            rw [afterCheck_errored, f2, f3]
            simp [specErrored, hm, hmp, ← hperm.any_eq, Bool.or_assoc]
  | files =>
    cases hp : c.parallel with
    | false =>
      have : ran = all := by simpa [Sched, hp] using hs
      subst this
      obtain ⟨h1, h2⟩ := filesLoop_ok c ran (initSt c) hw
      rw [main_files_seq c ran hm hp hok, h1]
      simp only
      rw [conclude_ok _ _ _ (hfl (by simp [flushes, hm]))]
      apply exit_core
      · simp [specMatched, hm, h2]
      · intro hq
        rw [filesLoop_full c hm ran (initSt c) hw hq]
        simp [specErrored, hm]
    | true =>
      obtain ⟨rest, hperm, hrest⟩ : ∃ rest, (ran ++ rest).Perm all ∧ (quitIssued c ran = false → rest = []) := by
        simpa [Sched, hp] using hs
      have hwr : WritesOk ran := fun x hx => hw x (hperm.mem_iff.mp (List.mem_append_left _ hx))
      obtain ⟨f1, f2⟩ := filesParWalk_flags c hm ran (initSt c)
      have hpt := printThread_ok _ (filesParWalk_sent_ok c ran (initSt c) hwr)
      rw [main_files_par c ran hm hp hok, hpt]
      simp only
      rw [conclude_ok _ _ _ (hfl (by simp [flushes, hm]))]
      cases hq : (c.qam && ran.any isFile) with
      | true =>
        simp only [Bool.and_eq_true] at hq
        have hM : specMatched c all = true := by
          have : (ran ++ rest).any isFile = true := by rw [List.any_append, hq.2]; rfl
          simpa [specMatched, hm, hperm.any_eq] using this
        rw [f1, hq.2, hM, qam_quiet c hq.1]
        show exitCode ((initSt c).matched || true) true _ = specExit true _ true
        rw [initSt_matched]
        cases (filesParWalk c ran (initSt c)).1.errored <;> cases specErrored c all <;> decide
      | false =>
        have hr : rest = [] := hrest (by simp [quitIssued, hm, hq, hpt])
        subst hr
        simp only [List.append_nil] at hperm
        apply exit_core
        · simp [specMatched, hm, ← hperm.any_eq, f1]
        · intro _
          rw [f2]
          simp [specErrored, hm, ← hperm.any_eq]

/-- The property's wording: 0 ⇔ matched and (quiet or no error); 2 ⇔ error and not (matched and quiet);
1 ⇔ nothing matched and no error. -/
theorem exit_table (c : Cfg) (all ran : List Item) (hs : Sched c all ran) (hw : WritesOk all)
    (hok : c.setupOk = true) (hfl : flushes c = true → c.flush = .ok) :
    ((main c .ok ran).exit = 0 ↔ (specMatched c all = true ∧ (c.quiet = true ∨ specErrored c all = false))) ∧
    ((main c .ok ran).exit = 2 ↔ (specErrored c all = true ∧ ¬ (specMatched c all = true ∧ c.quiet = true))) ∧
    ((main c .ok ran).exit = 1 ↔ (specMatched c all = false ∧ specErrored c all = false)) := by
  rw [exit_eq_spec c all ran hs hw hok hfl]
  exact specExit_table _ _ _

/-- An invalid pattern / glob / encoding / flag: status 2, one diagnostic (after the one about the configuration
file, if that could not be read either), no results. -/
theorem invalid_args_no_results (c : Cfg) (items : List Item) :
    main c .err items = ⟨2, (initSt c).diags ++ [.fatal], []⟩ ∧
    (c.setupOk = false → (c.mode = .search → c.matchesPossible = true) →
      main c .ok items = ⟨2, (initSt c).diags ++ [.fatal], []⟩) := by
  refine ⟨by simp [main, run], ?_⟩
  intro h hmp
  cases hm : c.mode with
  | search =>
    have := hmp hm
    cases hp : c.parallel <;> simp [main, run, hm, this, hp, search, searchParallel, h]
  | files =>
    cases hp : c.parallel <;> simp [main, run, hm, hp, files, filesParallel, h]

/-- A failing entry (unreadable file or directory, vanished file, dangling symlink …) changes nothing
in the results written to stdout: the run over `pre ++ f :: post` prints exactly what the run over
`pre ++ post` prints — all four drivers, every configuration, every parse outcome. -/
theorem errors_do_not_suppress (c : Cfg) (p : Parse) (pre post : List Item) (f : Item)
    (hf : isFault c f = true) :
    (main c p (pre ++ f :: post)).out = (main c p (pre ++ post)).out := by
  cases p with
  | err => rfl
  | special => rfl
  | ok =>
    cases hok : c.setupOk with
    | false =>
      cases hm : c.mode <;> cases hmp : c.matchesPossible <;> cases hp : c.parallel <;>
        simp [main, run, hm, hmp, hp, search, searchParallel, files, filesParallel, hok]
    | true =>
      cases hm : c.mode with
      | search =>
        cases hmp : c.matchesPossible with
        | false => simp [main, run, hm, hmp]
        | true =>
          cases hp : c.parallel with
          | false =>
            have key := (searchLoop_drop c pre post f hf (initSt c)).2
            rw [main_search_seq c _ hm hmp hp hok, main_search_seq c _ hm hmp hp hok]
            split <;> split <;> simpa using key
          | true =>
            have key := (parSearchLoop_drop c pre post f hf (initSt c)).2
            rw [main_search_par c _ hm hmp hp hok, main_search_par c _ hm hmp hp hok]
            split <;> split <;> simpa using key
      | files =>
        cases hp : c.parallel with
        | false =>
          have key := (filesLoop_drop c hm pre post f hf (initSt c)).2
          rw [main_files_seq c _ hm hp hok, main_files_seq c _ hm hp hok]
          split <;> split <;> simpa using key
        | true =>
          have hw : f = .walkErr := by
            cases f with
            | walkErr => rfl
            | skip => simp [isFault] at hf
            | file id sr wr => cases sr <;> simp [isFault, hm] at hf
          subst hw
          rw [main_files_par c _ hm hp hok, main_files_par c _ hm hp hok,
            filesParWalk_drop, filesParWalk_out, filesParWalk_out]
          split <;> simp

/-- Without `--quiet`'s early stop and with a live consumer, the results of *every* healthy entry are
written, in processing order — whatever faults lie in between. -/
theorem all_results_produced (c : Cfg) (ran : List Item) (hq : c.qam = false) (hw : WritesOk ran)
    (hok : c.setupOk = true) (hmp : c.matchesPossible = true) :
    (main c .ok ran).out = ran.filterMap (okId c) := by
  cases hm : c.mode with
  | search =>
    cases hp : c.parallel with
    | false =>
      rw [main_search_seq c _ hm hmp hp hok, searchLoop_nopipe c ran (initSt c) hw]
      simp [searchLoop_out c hm hq ran (initSt c) hw]
    | true =>
      rw [main_search_par c _ hm hmp hp hok, (parSearchLoop_flags c hm ran (initSt c) hw).2.2.2]
      simp [parSearchLoop_out c hm ran (initSt c) hw]
  | files =>
    cases hp : c.parallel with
    | false =>
      rw [main_files_seq c _ hm hp hok, (filesLoop_ok c ran (initSt c) hw).1]
      simp [filesLoop_out c hm hq ran (initSt c) hw]
    | true =>
      rw [main_files_par c _ hm hp hok, printThread_ok _ (filesParWalk_sent_ok c ran (initSt c) hw)]
      simp [filesParWalk_out, filesPar_out c hm hq ran (initSt c) hw]

/-! ### The configuration file, and the last write -/

/-- **A configuration file that cannot be read or parsed counts as an error** (since 379b616): the status is 2
unless `--quiet` found a match, the results are those of the same run without the complaint, and the complaint
is on stderr (unless `--no-messages`). -/
theorem C15_config (c : Cfg) (all ran : List Item) (hs : Sched c all ran) (hw : WritesOk all)
    (hok : c.setupOk = true) (hfl : flushes c = true → c.flush = .ok) (hce : c.configErr = true) :
    (main c .ok ran).exit = (if specMatched c all && c.quiet then 0 else 2) ∧
    (c.messages = true → Diag.config ∈ (main c .ok ran).diags) := by
  constructor
  · rw [exit_eq_spec c all ran hs hw hok hfl]
    have : specErrored c all = true := by simp [specErrored, hce]
    rw [this]
    cases specMatched c all <;> cases c.quiet <;> decide
  · intro hmsg
    have h0 := config_in_initSt c hce hmsg
    cases hm : c.mode with
    | search =>
      cases hmp : c.matchesPossible with
      | false => simpa [main, run, hm, hmp] using h0
      | true =>
        cases hp : c.parallel with
        | false =>
          rw [main_search_seq c ran hm hmp hp hok]
          split
          · exact searchLoop_keeps c ran _ _ h0
          · exact conclude_keeps _ _ _ _ (afterCheck_keeps _ _ _ (searchLoop_keeps c ran _ _ h0))
        | true =>
          rw [main_search_par c ran hm hmp hp hok]
          split
          · exact parSearchLoop_keeps c ran _ _ h0
          · exact afterCheck_keeps _ _ _ (parSearchLoop_keeps c ran _ _ h0)
    | files =>
      cases hp : c.parallel with
      | false =>
        rw [main_files_seq c ran hm hp hok]
        split
        · exact conclude_keeps _ _ _ _ (filesLoop_keeps c ran _ _ h0)
        · exact filesLoop_keeps c ran _ _ h0
        · exact List.mem_append_left _ (filesLoop_keeps c ran _ _ h0)
      | true =>
        rw [main_files_par c ran hm hp hok]
        split
        · exact conclude_keeps _ _ _ _ (filesParWalk_keeps c ran _ _ h0)
        · exact filesParWalk_keeps c ran _ _ h0
        · exact List.mem_append_left _ (filesParWalk_keeps c ran _ _ h0)

/-- **The last write** (since f052aea).  On the paths that end with an explicit flush of stdout (single-threaded
search, `--files` with any number of threads), when every earlier write went through: a flush that fails is an
error — status 2 and a diagnostic —, a flush that meets a closed pipe ends the run quietly with status 0 and
no diagnostic of its own. -/
theorem C15_flush (c : Cfg) (ran : List Item) (hflushes : flushes c = true) (hw : WritesOk ran)
    (hok : c.setupOk = true) :
    (c.flush = .err → (main c .ok ran).exit = 2 ∧ Diag.fatal ∈ (main c .ok ran).diags) ∧
    (c.flush = .pipe → (main c .ok ran).exit = 0 ∧
      ∀ d ∈ (main c .ok ran).diags, d = .config ∨ d = .nothingSearched ∨ d ∈ ran.filterMap (diagOf c)) := by
  cases hm : c.mode with
  | search =>
    have hx : c.matchesPossible = true ∧ c.parallel = false := by simpa [flushes, hm] using hflushes
    obtain ⟨hmp, hp⟩ := hx
    rw [main_search_seq c ran hm hmp hp hok, searchLoop_nopipe c ran (initSt c) hw]
    simp only [Bool.false_eq_true, if_false]
    constructor
    · intro he
      rw [conclude_err _ _ _ he]
      exact ⟨rfl, by simp⟩
    · intro he
      rw [conclude_pipe _ _ _ he]
      refine ⟨rfl, fun d hd => ?_⟩
      rcases mem_afterCheck _ _ _ hd with h | h
      · rcases searchLoop_diags c hm hp ran _ d h with h | h
        · exact .inl (mem_initSt_diags c d h)
        · exact .inr (.inr h)
      · exact .inr (.inl h)
  | files =>
    cases hp : c.parallel with
    | false =>
      rw [main_files_seq c ran hm hp hok, (filesLoop_ok c ran (initSt c) hw).1]
      simp only
      constructor
      · intro he
        rw [conclude_err _ _ _ he]
        exact ⟨rfl, by simp⟩
      · intro he
        rw [conclude_pipe _ _ _ he]
        refine ⟨rfl, fun d hd => ?_⟩
        rcases filesLoop_diags c ran _ d hd with h | h
        · exact .inl (mem_initSt_diags c d h)
        · exact .inr (.inr h)
    | true =>
      rw [main_files_par c ran hm hp hok, printThread_ok _ (filesParWalk_sent_ok c ran (initSt c) hw)]
      simp only
      constructor
      · intro he
        rw [conclude_err _ _ _ he]
        exact ⟨rfl, by simp⟩
      · intro he
        rw [conclude_pipe _ _ _ he]
        refine ⟨rfl, fun d hd => ?_⟩
        rcases filesParWalk_diags c ran _ d hd with h | h
        · exact .inl (mem_initSt_diags c d h)
        · exact .inr (.inr h)

/-- **The full table**: whatever the last write does.  Exit status = the property's table when the final flush
succeeds (or the path has none), 2 when it fails, 0 when it meets a closed pipe — all four drivers, every
schedule, provided the earlier writes went through (a write that fails earlier is `C15_pipe` / the per-file
write diagnostics). -/
theorem exit_eq_spec_full (c : Cfg) (all ran : List Item) (hs : Sched c all ran) (hw : WritesOk all)
    (hok : c.setupOk = true) : (main c .ok ran).exit = specExitFull c all := by
  unfold specExitFull
  cases hfz : flushes c with
  | false =>
    simp only [Bool.false_eq_true, if_false]
    exact exit_eq_spec c all ran hs hw hok (by simp [hfz])
  | true =>
    simp only [if_true]
    have hwr : WritesOk ran := by
      cases hp : c.parallel with
      | false =>
        have : ran = all := by simpa [Sched, hp] using hs
        rw [this]; exact hw
      | true =>
        obtain ⟨rest, hperm, _⟩ : ∃ rest, (ran ++ rest).Perm all ∧ (quitIssued c ran = false → rest = []) := by
          simpa [Sched, hp] using hs
        exact fun x hx => hw x (hperm.mem_iff.mp (List.mem_append_left _ hx))
    cases hf : c.flush with
    | ok => exact exit_eq_spec c all ran hs hw hok (fun _ => hf)
    | pipe => exact ((C15_flush c ran hfz hwr hok).2 hf).1
    | err => exact ((C15_flush c ran hfz hwr hok).1 hf).1

/-- What the model says where the `--stats` trailer / `--json` summary is the only output and cannot be written.
Single-threaded (block buffered) it is what the final flush writes: status 2.  With several threads
`print_stats`'s result and the flush after it are both discarded (`let _ =`), so the run ends as if nothing
had happened: status 1 (known finding `summary-write-error-ignored`; the same happens single-threaded under
`--line-buffered`, where nothing is left for the final flush). -/
theorem summary_only_write_error :
    (main { stats := true, flush := .err } .ok [.file 0 (.ok false) .ok]).exit = 2 ∧
    (main { stats := true, flush := .err, parallel := true } .ok [.file 0 (.ok false) .ok]) = ⟨1, [], [0]⟩ ∧
    specExitFull { stats := true, flush := .err } [.file 0 (.ok false) .ok] = 2 := by
  decide

/-! ### `--stats` -/

/-- With `--stats` (or `--json`) and a live consumer, the summary is printed and counts exactly the files
of the tree whose search succeeded, and those of them that matched — single- and multi-threaded, every
schedule, whatever faults occurred in between, with or without `--quiet` (which does not stop early
under `--stats`). -/
theorem stats_table (c : Cfg) (all ran : List Item) (hs : Sched c all ran) (hw : WritesOk all)
    (hmode : c.mode = .search) (hst : c.stats = true) (hok : c.setupOk = true) (hmp : c.matchesPossible = true) :
    statsPrinted c ran = some (specStats all) := by
  have hq : c.qam = false := by simp [Cfg.qam, hst]
  cases hp : c.parallel with
  | false =>
    have : ran = all := by simpa [Sched, hp] using hs
    subst this
    simp [statsPrinted, hst, hmode, hmp, hok, hp, searchStats_ok c hq ran false {} hw, specStats]
  | true =>
    obtain ⟨rest, hperm, hrest⟩ : ∃ rest, (ran ++ rest).Perm all ∧ (quitIssued c ran = false → rest = []) := by
      simpa [Sched, hp] using hs
    have hwr : WritesOk ran := fun x hx => hw x (hperm.mem_iff.mp (List.mem_append_left _ hx))
    have hbp := (parSearchLoop_flags c hmode ran (initSt c) hwr).2.2.2
    have hnq : (parSearchLoop c ran (initSt c)).2 = false := by
      cases hqq : (parSearchLoop c ran (initSt c)).2 with
      | false => rfl
      | true =>
        have := (parSearchLoop_quit c ran (initSt c) hwr hqq).2
        rw [hq] at this
        cases this
    have hr : rest = [] := hrest (by simp [quitIssued, hmode, hnq])
    subst hr
    simp only [List.append_nil] at hperm
    have hbp' : (parSearchLoop c ran (initSt c)).1.brokenPipe = false := by simpa using hbp
    simp [statsPrinted, hst, hmode, hmp, hok, hp, hbp', parStats_eq, specStats, hperm.countP_eq]

/-- A consumer that closes the pipe gets no summary (the driver returns before `print_stats`). -/
theorem stats_not_after_pipe (c : Cfg) (ran : List Item) (hmode : c.mode = .search)
    (hpipe : pipeHit c ran = true) (hq : c.qam = false) : statsPrinted c ran = none := by
  unfold statsPrinted
  split
  · rfl
  · cases hp : c.parallel with
    | true =>
      have : (parSearchLoop c ran (initSt c)).1.brokenPipe = true := by simpa [pipeHit, hmode, hp] using hpipe
      simp [this]
    | false =>
      have hl : (searchLoop c ran (initSt c)).2 = true := by simpa [pipeHit, hmode, hp] using hpipe
      simp only [Bool.not_false, if_true]
      -- the two loops leave at the same entry
      have key : ∀ (items : List Item) (st : St) (m : Bool) (s : Stats), st.matched = m →
          (searchLoop c items st).2 = true → searchStats c items m s = none := by
        intro items
        induction items with
        | nil => intro st m s _ h; simp [searchLoop] at h
        | cons x xs ih =>
          intro st m s hm h
          cases x with
          | walkErr => simp only [searchLoop] at h; simp only [searchStats]; exact ih _ m s (by simpa using hm) h
          | skip => simp only [searchLoop] at h; simp only [searchStats]; exact ih _ m s hm h
          | file id sr wr =>
            cases sr with
            | pipe => simp [searchStats]
            | err => simp only [searchLoop] at h; simp only [searchStats]; exact ih _ m s (by simpa using hm) h
            | ok mm =>
              simp only [searchLoop, hq, Bool.and_false, Bool.false_eq_true, if_false] at h
              simp only [searchStats, hq, Bool.and_false, Bool.false_eq_true, if_false]
              exact ih _ (m || mm) _ (by simp [hm]) h
      exact key ran (initSt c) false {} (initSt_matched c) hl

/-! ### The consumer closes the pipe -/

/-- `search_preprocessor` keeps the kind of the error it re-wraps (the revert of ea0b57f is a mutant). -/
theorem preprocessor_keeps_kind (x : Bool × Item) : seen x = x.2 := by
  obtain ⟨pre, it⟩ := x
  cases pre <;> cases it <;> rfl

/-- **A broken pipe at any write gives exit status 0 and no diagnostic about it** — whichever entry is
being printed, at any position, in all four drivers (single- and multi-threaded, any schedule of the
parallel ones), whatever faults were reported before, with or without `--pre`.  Every line on stderr is
owed to a faulty entry. -/
theorem C15_pipe (c : Cfg) (ran : List Item) (hok : c.setupOk = true) (hmp : c.matchesPossible = true)
    (hpipe : pipeHit c ran = true) :
    (main c .ok ran).exit = 0 ∧ ∀ d ∈ (main c .ok ran).diags, d = .config ∨ d ∈ ran.filterMap (diagOf c) := by
  cases hm : c.mode with
  | search =>
    cases hp : c.parallel with
    | false =>
      have hl : (searchLoop c ran (initSt c)).2 = true := by simpa [pipeHit, hm, hp] using hpipe
      rw [main_search_seq c _ hm hmp hp hok, hl]
      refine ⟨rfl, fun d hd => ?_⟩
      rcases searchLoop_diags c hm hp ran (initSt c) d hd with h | h
      · exact .inl (mem_initSt_diags c d h)
      · exact .inr h
    | true =>
      have hl : (parSearchLoop c ran (initSt c)).1.brokenPipe = true := by simpa [pipeHit, hm, hp] using hpipe
      rw [main_search_par c _ hm hmp hp hok, hl]
      refine ⟨rfl, fun d hd => ?_⟩
      rcases parSearchLoop_diags c hm hp ran (initSt c) d hd with h | h
      · exact .inl (mem_initSt_diags c d h)
      · exact .inr h
  | files =>
    cases hp : c.parallel with
    | false =>
      have hl : filesPipe c ran = true := by simpa [pipeHit, hm, hp] using hpipe
      rw [main_files_seq c _ hm hp hok, filesLoop_pipe c ran (initSt c) hl]
      refine ⟨rfl, fun d hd => ?_⟩
      rcases filesLoop_diags c ran (initSt c) d hd with h | h
      · exact .inl (mem_initSt_diags c d h)
      · exact .inr h
    | true =>
      have hl : (printThread (filesParWalk c ran (initSt c)).2).2 = .pipe := by simpa [pipeHit, hm, hp] using hpipe
      rw [main_files_par c _ hm hp hok, hl]
      refine ⟨rfl, fun d hd => ?_⟩
      rcases filesParWalk_diags c ran (initSt c) d hd with h | h
      · exact .inl (mem_initSt_diags c d h)
      · exact .inr h

/-- The same for the entries as `search` sees them when files go through `--pre`. -/
theorem C15_pipe_pre (c : Cfg) (raw : List (Bool × Item)) (hok : c.setupOk = true)
    (hmp : c.matchesPossible = true) (hpipe : pipeHit c (raw.map (·.2)) = true) :
    (main c .ok (raw.map seen)).exit = 0 ∧
    ∀ d ∈ (main c .ok (raw.map seen)).diags, d = .config ∨ d ∈ (raw.map (·.2)).filterMap (diagOf c) := by
  have : raw.map seen = raw.map (·.2) := List.map_congr_left (fun x _ => preprocessor_keeps_kind x)
  rw [this]
  exact C15_pipe c _ hok hmp hpipe

/-- Non-vacuity of `C15_pipe`: the pipe closes while the second of three files is being printed, after a
fault was reported — single-threaded search, parallel search, `--files` (both drivers). -/
example :
    pipeHit {} [.walkErr, .file 0 (.ok true) .ok, .file 1 .pipe .ok, .file 2 (.ok true) .ok] = true ∧
    pipeHit { parallel := true } [.file 2 .err .ok, .file 0 (.ok false) .pipe, .file 1 (.ok true) .ok] = true ∧
    pipeHit { mode := .files } [.walkErr, .file 0 (.ok false) .ok, .file 1 (.ok false) .pipe] = true ∧
    pipeHit { mode := .files, parallel := true } [.walkErr, .file 0 (.ok false) .ok, .file 1 (.ok false) .pipe] = true := by
  decide

/-- Non-vacuity of `exit_table`: an admissible parallel schedule that stops early. -/
example : Sched { parallel := true, quiet := true }
    [.file 0 .err .ok, .file 1 (.ok true) .ok, .walkErr] [.file 1 (.ok true) .ok] :=
  by
    refine (if_pos rfl).mpr ⟨[.file 0 .err .ok, .walkErr], ?_, by decide⟩
    decide

end RgVerif.Props.C15
