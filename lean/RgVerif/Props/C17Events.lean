import RgVerif.Props.C17
import RgVerif.Props.C02
/-
C17 at the level of search RESULTS: the bytes the transcoding reader hands to the searcher are the UTF-8
transcoding of the input for every fragmentation of the ENCODED input (`C17_all_modelled`), and the roll
buffer searcher delivers, for every fragmentation of those TRANSCODED bytes (how many bytes
`decode_to_utf8` happens to write per `read` call -- the "output-side fragmentation" that
`Model/Decode.lean` does not model), the callbacks of a slice search of the transcoded text (`C02`).
Composed: an encoded stream is searched exactly as its UTF-8 equivalent.
-/
namespace RgVerif.Props.C17
open RgVerif RgVerif.Decode RgVerif.Utf16Spec RgVerif.Searcher RgVerif.LineBuffer RgVerif.Matcher

/-- **C17, results**: for every decoding configuration inside the guard of `C17`, every fragmentation
`chunks` of the encoded input, every script `out` of the sizes in which the decoder hands its output on
(and `Interrupted` reads), every buffer configuration, matcher, searcher configuration (detection off,
slow path) and sink script: the incremental search of the decoder's output makes exactly the callbacks
of `SliceByLine::run` on the UTF-8 transcoding of the whole input, and returns the same `Ok` / `Err`. -/
theorem C17_events (c : Cfg) (chunks : List Bytes)
    (hb : ∀ b ∈ chunks.flatten, b < 256) (hg : c17Guard c chunks.flatten = true)
    (cfg : Searcher.Config) (m : MatcherI) (σ : Script) (hbin : cfg.binary = .none)
    (hslow : isLineByLineFast cfg m (Core.new cfg true) = false)
    (lbcfg : LineBuffer.Config) (hlt : lbcfg.lineterm = cfg.lineTerm.asByte) (hlb : lbcfg.binary = .none)
    (hal : lbcfg.alloc = .eager) (out : List Step) (hz : NoZero out) :
    let decoded := readerOutput c (machines utf8Machine otherMachine) chunks
    let text := searched otherSpec c chunks.flatten
    (readByLine cfg m σ lbcfg ⟨decoded, out, 0⟩).events = (sliceByLine cfg m σ text).events ∧
      (readByLine cfg m σ lbcfg ⟨decoded, out, 0⟩).result = (sliceByLine cfg m σ text).result := by
  intro decoded text
  have hd : decoded = text := C17_all_modelled c chunks hb hg
  have h := C02.C02 cfg m σ hbin hslow lbcfg hlt hlb hal ⟨decoded, out, 0⟩ hz
  rw [hd] at h ⊢
  exact h

/-- the same for a memory map / slice: `search_slice` on an input that needs transcoding takes the reader
detour (`slice_eq_reader`), so its results are those of the transcoded text as well -/
theorem C17_events_slice (c : Cfg) (slice : Bytes)
    (hb : ∀ b ∈ slice, b < 256) (hg : c17Guard c slice = true)
    (cfg : Searcher.Config) (m : MatcherI) (σ : Script) (hbin : cfg.binary = .none)
    (hslow : isLineByLineFast cfg m (Core.new cfg true) = false)
    (lbcfg : LineBuffer.Config) (hlt : lbcfg.lineterm = cfg.lineTerm.asByte) (hlb : lbcfg.binary = .none)
    (hal : lbcfg.alloc = .eager) (out : List Step) (hz : NoZero out) :
    (readByLine cfg m σ lbcfg ⟨sliceSearched c (machines utf8Machine otherMachine) slice, out, 0⟩).events =
      (sliceByLine cfg m σ (searched otherSpec c slice)).events := by
  rw [slice_eq_reader]
  have h := C17_events c [slice] (by simpa using hb) (by simpa using hg) cfg m σ hbin hslow lbcfg hlt hlb hal out hz
  simp only [List.flatten_cons, List.flatten_nil, List.append_nil] at h
  exact h.1

/-! Non-vacuity (computed): a UTF-16LE input with mark, `a`, an astral character, a lone low surrogate, newline,
`A` -- cut in the middle of code units -- whose decoded output is handed on 1 or 2 bytes at a time with an
interrupted read into a 4-byte roll buffer: the guard holds, the matcher ("line contains x"... here: never) is on the
slow path, and the callbacks equal those of the slice search of the transcoded text. -/
def exMatcher : MatcherI := MatcherI.ofFindAt fun h at_ => if 97 ∈ h.drop at_ then some ⟨at_, h.length⟩ else none
def exChunks : List Bytes := [[0xFF], [0xFE, 0x61, 0x00, 0x3D], [0xD8, 0x00, 0xDE, 0x00], [0xDC, 0x0A, 0x00, 0x41, 0x00]]
def exLb : LineBuffer.Config := { capacity := 4, lineterm := 10, binary := .none, alloc := .eager }
example : c17Guard ⟨none, true⟩ exChunks.flatten = true ∧
    isLineByLineFast ({} : Searcher.Config) exMatcher (Core.new {} true) = false := by decide
/-- all hypotheses of `C17_events` hold for this instance, so its conclusion is a fact about it -/
example :
    (readByLine {} exMatcher allCont exLb
      ⟨readerOutput ⟨none, true⟩ (machines utf8Machine otherMachine) exChunks, [.ret 1, .intr, .ret 2, .ret 1], 0⟩).events =
    (sliceByLine {} exMatcher allCont (searched otherSpec ⟨none, true⟩ exChunks.flatten)).events :=
  (C17_events ⟨none, true⟩ exChunks (by decide) (by decide) {} exMatcher allCont rfl (by decide) exLb rfl rfl rfl
    [.ret 1, .intr, .ret 2, .ret 1]
    (by intro st h; simp at h; rcases h with h | h | h | h <;> subst h <;> simp)).1

end RgVerif.Props.C17
