import RgVerif.Props.C17
import RgVerif.Props.C02
/-
C17 at the level of search RESULTS: the bytes the transcoding reader hands to the searcher are the UTF-8
transcoding of the input for every fragmentation of the ENCODED input (`C17_all_modelled`), and the roll
buffer searcher delivers, for every fragmentation of those TRANSCODED bytes (how many bytes
`decode_to_utf8` happens to write per `read` call -- the "output-side fragmentation" that
`Model/Decode.lean` does not model), the callbacks of a slice search of the transcoded text (`C02`).
Composed: an encoded stream is searched exactly as its UTF-8 equivalent.
-/
namespace RgVerif.Props.C17
open RgVerif RgVerif.Decode RgVerif.Utf16Spec RgVerif.Searcher RgVerif.LineBuffer RgVerif.Matcher

/-- **C17, results**: for every decoding configuration inside the guard of `C17`, every fragmentation
`chunks` of the encoded input, every script `out` of the sizes in which the decoder hands its output on
(and `Interrupted` reads), every buffer configuration, matcher, searcher configuration (detection off,
slow path) and sink script: the incremental search of the decoder's output makes exactly the callbacks
of `SliceByLine::run` on the UTF-8 transcoding of the whole input, and returns the same `Ok` / `Err`. -/
theorem C17_events (c : Cfg) (chunks : List Bytes)
    (hb : ∀ b ∈ chunks.flatten, b < 256) (hg : c17Guard c chunks.flatten = true)
    (cfg : Searcher.Config) (m : MatcherI) (σ : Script) (hbin : cfg.binary = .none)
    (hslow : isLineByLineFast cfg m (Core.new cfg true) = false)
    (lbcfg : LineBuffer.Config) (hlt : lbcfg.lineterm = cfg.lineTerm.asByte) (hlb : lbcfg.binary = .none)
    (hal : lbcfg.alloc = .eager) (out : List Step) (hz : NoZero out) :
    let decoded := readerOutput c (machines utf8Machine otherMachine) chunks
    let text := searched otherSpec c chunks.flatten
    (readByLine cfg m σ lbcfg ⟨decoded, out, 0⟩).events = (sliceByLine cfg m σ text).events ∧
      (readByLine cfg m σ lbcfg ⟨decoded, out, 0⟩).result = (sliceByLine cfg m σ text).result := by
  intro decoded text
  have hd : decoded = text := C17_all_modelled c chunks hb hg
  have h := C02.C02 cfg m σ hbin hslow lbcfg hlt hlb hal ⟨decoded, out, 0⟩ hz
  rw [hd] at h ⊢
  exact h

/-- the same for a memory map / slice: `search_slice` on an input that needs transcoding takes the reader
detour (`slice_eq_reader`), so its results are those of the transcoded text as well -/
theorem C17_events_slice (c : Cfg) (slice : Bytes)
    (hb : ∀ b ∈ slice, b < 256) (hg : c17Guard c slice = true)
    (cfg : Searcher.Config) (m : MatcherI) (σ : Script) (hbin : cfg.binary = .none)
    (hslow : isLineByLineFast cfg m (Core.new cfg true) = false)
    (lbcfg : LineBuffer.Config) (hlt : lbcfg.lineterm = cfg.lineTerm.asByte) (hlb : lbcfg.binary = .none)
    (hal : lbcfg.alloc = .eager) (out : List Step) (hz : NoZero out) :
    (readByLine cfg m σ lbcfg ⟨sliceSearched c (machines utf8Machine otherMachine) slice, out, 0⟩).events =
      (sliceByLine cfg m σ (searched otherSpec c slice)).events := by
  rw [slice_eq_reader]
  have h := C17_events c [slice] (by simpa using hb) (by simpa using hg) cfg m σ hbin hslow lbcfg hlt hlb hal out hz
  simp only [List.flatten_cons, List.flatten_nil, List.append_nil] at h
  exact h.1

end RgVerif.Props.C17
