import RgVerif.Props.C01
import RgVerif.Props.C02
/-
C01 for the READER strategy: the lines `Searcher::search_reader` reports (stdin, `--no-mmap`, directory
traversal: the roll buffer) are the lines whose content the user's expression matches, for every
fragmentation of the input and every buffer capacity.  Composition of the C02 simulation with
`C01_slow_end_to_end`.
-/
namespace RgVerif.Props.C01
open RgVerif RgVerif.Matcher RgVerif.Lines RgVerif.Searcher RgVerif.GrepSpec RgVerif.LineBuffer

/-- **C01, slow path, end to end, incremental search of a reader**: as `C01_slow_end_to_end`, for
`search_reader` with EVERY read script (fragments of any size, `Interrupted` reads) and initial capacity. -/
theorem C01_slow_end_to_end_reader (lk : Rx.LookFn) (rcfg : Rx.Config) (pats : List Bytes) (translated : Rx.Hir)
    (accelerated : Bool) (optimize : Rx.Seq → Rx.Seq) (norm : Rx.Hir → Rx.Hir) (shortest : Bytes → Option Nat)
    (m : Rx.MatcherM) (hb : rcfg.build pats translated accelerated optimize norm = .ok m)
    (hnorm : ∀ h hay s e, Rx.Matches lk (norm h) hay s e ↔ Rx.Matches lk h hay s e)
    (heng : C11.EngineSpec lk m.hir shortest)
    (cfg : Searcher.Config) (inp : Bytes) (script : List Step) (cap : Option Nat)
    (hbin : cfg.binary = .none) (hml : cfg.multiLine = false) (hs : cfg.stopOnNonmatch = false)
    (hslow : isLineByLineFast cfg (bridge m shortest) (Core.new cfg true) = false)
    (hclean : ContentClean rcfg cfg.lineTerm inp) (hz : NoZero script) :
    reported (searchReader cfg (bridge m shortest) allCont none cap ⟨inp, script, 0⟩).events =
      selectedLines cfg.lineTerm.asByte (userSel lk rcfg pats translated cfg.lineTerm cfg.invertMatch) inp := by
  have hmm : multiLineWithMatcher cfg (bridge m shortest) = false := by simp [multiLineWithMatcher, hml]
  have key : (searchReader cfg (bridge m shortest) allCont none cap ⟨inp, script, 0⟩).events
      = (sliceByLine cfg (bridge m shortest) allCont inp).events := by
    unfold searchReader
    simp only [hmm, Bool.false_eq_true, if_false]
    exact (C02.C02 cfg (bridge m shortest) allCont hbin hslow (lineBufferConfig cfg none cap) rfl
      (by simp [lineBufferConfig, hbin, BinaryDetection.toLB]) (by simp [lineBufferConfig])
      (⟨inp, script, 0⟩ : Reader).withBomPeek (withBomPeek_noZero _ hz)).1
  rw [key]
  exact C01_slow_end_to_end lk rcfg pats translated accelerated optimize norm shortest m hb hnorm heng cfg inp
    hbin hs hslow hclean

end RgVerif.Props.C01
