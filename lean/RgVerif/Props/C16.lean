import RgVerif.Lemmas.SearcherStop
import RgVerif.Lemmas.SearcherSimML
import RgVerif.Lemmas.SearcherMaxCountTop
/-
C16 — stopping early or failing mid-stream yields a prefix of the full results; completion is
signalled exactly once after a requested stop and never after an error.

Model: `Model/Core.lean`, `Model/Glue.lean`; every `keepgoing` / `?` site is an explicit `match` there.
The sink is a script `σ : Nat → Resp` over the callback index; `FirstStop σ k` says that `k` is the first
callback the sink does not answer with `Ok(true)`.  Proofs: `Lemmas/SearcherSim*.lean` (a simulation
lemma per function of `Core`), `Lemmas/SearcherStop.lean`.
-/
namespace RgVerif.Props.C16
open RgVerif RgVerif.Matcher RgVerif.Lines RgVerif.Searcher

/-- **C16, line-by-line search of a slice** (slow and fast path, every configuration incl. binary
detection modes, every matcher, every input, every sink script).  Let `E` be the sink's log of the
uninterrupted search and `k` the first callback the sink refuses.
* If callback `k` comes before the final `finish` of `E`: the log is exactly the first `k+1` entries of `E`,
  followed by one `finish` iff the sink said *stop*, and by nothing iff it returned an error; the search
  returns `Err` iff the sink returned an error (at `k`, or in that closing `finish`).
* Otherwise (the sink refuses nothing before `finish`): the log is `E`, and the search returns `Err` iff
  `finish` itself returned an error.
* The uninterrupted search returns `Ok`. -/
theorem C16_stop (cfg : Config) (m : MatcherI) (inp : Bytes) (σ : Script) (k : Nat) (hk : FirstStop σ k) :
    let R := sliceByLine cfg m σ inp
    let R0 := sliceByLine cfg m allCont inp
    R0.result = .ok () ∧
    (k + 1 < R0.events.length →
      (∃ bc bo, R.events = R0.events.take (k + 1) ++ (if σ k = .stop then [Event.finish bc bo] else [])) ∧
      (R.result = .err ↔ (σ k = .err ∨ (σ k = .stop ∧ σ (k + 1) = .err)))) ∧
    (R0.events.length ≤ k + 1 →
      R.events = R0.events ∧ (R.result = .err ↔ (k + 1 = R0.events.length ∧ σ k = .err))) := by
  intro R R0
  have h := run_prefix cfg hk (st0 := Core.new cfg true) rfl (slicePre_wb hk cfg m inp)
  rw [← sliceByLine_eq, ← sliceByLine_eq] at h
  exact h

/-- **C16, multi-line search** (`MultiLine::run`, with the repaired final flush: F9): same statement. -/
theorem C16_stop_multiline (cfg : Config) (m : MatcherI) (inp : Bytes) (σ : Script) (k : Nat)
    (hk : FirstStop σ k) :
    let R := multiLine cfg m σ inp
    let R0 := multiLine cfg m allCont inp
    R0.result = .ok () ∧
    (k + 1 < R0.events.length →
      (∃ bc bo, R.events = R0.events.take (k + 1) ++ (if σ k = .stop then [Event.finish bc bo] else [])) ∧
      (R.result = .err ↔ (σ k = .err ∨ (σ k = .stop ∧ σ (k + 1) = .err)))) ∧
    (R0.events.length ≤ k + 1 →
      R.events = R0.events ∧ (R.result = .err ↔ (k + 1 = R0.events.length ∧ σ k = .err))) := by
  intro R R0
  have h := run_prefix cfg hk (st0 := Core.new cfg true) rfl (mlPre_wb hk cfg m inp)
  rw [← multiLine_eq, ← multiLine_eq] at h
  exact h

/-- **C16 for `Searcher::search_slice`** whichever strategy it picks (the choice does not depend on the sink). -/
theorem C16_stop_search_slice (cfg : Config) (m : MatcherI) (inp : Bytes) (σ : Script) (k : Nat)
    (hk : FirstStop σ k) :
    let R := searchSlice cfg m σ inp
    let R0 := searchSlice cfg m allCont inp
    R0.result = .ok () ∧
    (k + 1 < R0.events.length →
      (∃ bc bo, R.events = R0.events.take (k + 1) ++ (if σ k = .stop then [Event.finish bc bo] else [])) ∧
      (R.result = .err ↔ (σ k = .err ∨ (σ k = .stop ∧ σ (k + 1) = .err)))) ∧
    (R0.events.length ≤ k + 1 →
      R.events = R0.events ∧ (R.result = .err ↔ (k + 1 = R0.events.length ∧ σ k = .err))) := by
  unfold searchSlice
  split
  · exact C16_stop_multiline cfg m inp σ k hk
  · exact C16_stop cfg m inp σ k hk

/-- Nothing is delivered after the refused callback except the closing `finish`: the log of the
interrupted search is never longer than `k + 2`. -/
theorem C16_nothing_after (cfg : Config) (m : MatcherI) (inp : Bytes) (σ : Script) (k : Nat)
    (hk : FirstStop σ k) (hlt : k + 1 < (sliceByLine cfg m allCont inp).events.length) :
    (sliceByLine cfg m σ inp).events.length ≤ k + 2 := by
  obtain ⟨_, h1, _⟩ := C16_stop cfg m inp σ k hk
  obtain ⟨⟨bc, bo, he⟩, _⟩ := h1 hlt
  rw [he]
  simp only [List.length_append, List.length_take]
  split <;> simp <;> omega

/-! ### The per-file match limit (`-m N`)

`Spec/MaxCount.lean`: `maxCountScript (some N) A E` is what the printers' sink (`StandardSink` / JSON: `should_quit`,
`match_more_than_limit`, `after_context_remaining`) answers along the uninterrupted stream `E`; `quitIndex N A E`
is the counting spec: the `N`-th `matched` callback if `A = 0`, else the `A`-th following callback that is a match
or an after-context line. -/

open RgVerif.MaxCount in
/-- a sink that is a deterministic function of the callbacks it has seen, given by its answers `as` along the
uninterrupted stream: it is shown the stream up to its first refusal, then one `finish` — or the whole stream -/
theorem C16_answers (cfg : Config) (m : MatcherI) (inp : Bytes) (as : List Bool) :
    let E := (sliceByLine cfg m allCont inp).events
    let R := sliceByLine cfg m (scriptOf as) inp
    R.result = .ok () ∧
    match firstFalse 0 as with
    | some k => k + 1 < E.length → ∃ bc bo, R.events = E.take (k + 1) ++ [Event.finish bc bo]
    | none => R.events = E := by
  intro E R
  cases hq : firstFalse 0 as with
  | none =>
    have hR : R = sliceByLine cfg m allCont inp := by show sliceByLine cfg m _ inp = _; rw [scriptOf_never hq]
    refine ⟨?_, ?_⟩
    · rw [hR]
      have h0 : FirstStop (fun i => if i = 0 then Resp.stop else Resp.cont) 0 :=
        ⟨fun i h => by omega, by simp⟩
      exact (C16_stop cfg m inp _ 0 h0).1
    · simp only; rw [hR]
  | some k =>
    obtain ⟨hfs, hstop⟩ := scriptOf_firstStop hq
    obtain ⟨h0, h1, h2⟩ := C16_stop cfg m inp _ k hfs
    have hres : R.result = .ok () := by
      cases hr : R.result with
      | ok u => rfl
      | err =>
        by_cases hlt : k + 1 < E.length
        · have := (h1 hlt).2.1 hr
          rcases this with h | ⟨_, h⟩
          · exact absurd h (scriptOf_ne_err _ _)
          · exact absurd h (scriptOf_ne_err _ _)
        · have := ((h2 (by show E.length ≤ k + 1; omega)).2.1 hr).2
          exact absurd this (scriptOf_ne_err _ _)
    refine ⟨hres, ?_⟩
    simp only
    intro hlt
    obtain ⟨⟨bc, bo, he⟩, _⟩ := h1 hlt
    rw [hstop] at he
    exact ⟨bc, bo, by simpa using he⟩

open RgVerif.MaxCount in
/-- **C16, match limit** (Standard / JSON printer sinks; `A` is the after-context the sink counts, i.e. the
searcher's): with the printers' limit `N` as the sink, the sink sees exactly the uninterrupted stream up to and
including the callback at which the counting spec says the limit (plus its `A` trailing lines) is exhausted,
then one `finish`; and the whole stream if that point is never reached. The search returns `Ok`. (`hE`, `hnb`:
the uninterrupted stream starts with its only `begin` — true of every stream equal to the grep model,
`grepSpecLines_shape`.) -/
theorem C16_maxcount (cfg : Config) (m : MatcherI) (inp : Bytes) (N A : Nat) (rest : List Event)
    (hE : (sliceByLine cfg m allCont inp).events = Event.begin :: rest) (hnb : NoBegin rest) :
    let E := (sliceByLine cfg m allCont inp).events
    let R := sliceByLine cfg m (maxCountScript (some N) A E) inp
    R.result = .ok () ∧
    match quitIndex N A E with
    | some k => k + 1 < E.length → ∃ bc bo, R.events = E.take (k + 1) ++ [Event.finish bc bo]
    | none => R.events = E := by
  intro E R
  have h := C16_answers cfg m inp (answers (some N) A {} E)
  have hq : firstFalse 0 (answers (some N) A {} E) = quitIndex N A E := by
    show firstFalse 0 (answers (some N) A {} (sliceByLine cfg m allCont inp).events)
      = quitIndex N A (sliceByLine cfg m allCont inp).events
    rw [hE]; exact firstFalse_eq_quitIndex N A rest hnb
  rw [hq] at h
  exact h

open RgVerif.MaxCount in
/-- **C16, match limit of the Summary printer** (`-c`, `--count-matches`, line-oriented search): its sink counts
`matched` callbacks only and refuses at the `N`-th one, whatever context is configured: the stream it is shown
is the uninterrupted one up to the `N`-th match, then `finish`. -/
theorem C16_maxcount_summary (cfg : Config) (m : MatcherI) (inp : Bytes) (N : Nat) (rest : List Event)
    (hE : (sliceByLine cfg m allCont inp).events = Event.begin :: rest) (hnb : NoBegin rest) :
    let E := (sliceByLine cfg m allCont inp).events
    let R := sliceByLine cfg m (summaryScript (some N) E) inp
    R.result = .ok () ∧
    match quitIndex N 0 E with
    | some k => k + 1 < E.length → ∃ bc bo, R.events = E.take (k + 1) ++ [Event.finish bc bo]
    | none => R.events = E := by
  intro E R
  have h := C16_answers cfg m inp (summaryAnswers (some N) 0 E)
  have hq : firstFalse 0 (summaryAnswers (some N) 0 E) = quitIndex N 0 E := by
    show firstFalse 0 (summaryAnswers (some N) 0 (sliceByLine cfg m allCont inp).events)
      = quitIndex N 0 (sliceByLine cfg m allCont inp).events
    rw [hE]; exact summary_firstFalse_eq_quitIndex N rest hnb
  rw [hq] at h
  exact h

/-! ### Non-vacuity -/

def mX : MatcherI := MatcherI.ofFindAt fun h at_ => if 120 ∈ h.drop at_ then some ⟨at_, h.length⟩ else none
def cfg11 : Config := { afterContext := 1, beforeContext := 1 }
def inp6 : Bytes := [121, 10, 120, 10, 121, 10, 121, 10, 121, 10, 120, 10]
def stopAt (k : Nat) : Script := fun i => if i = k then .stop else .cont

example : FirstStop (stopAt 2) 2 := ⟨fun i h => by simp [stopAt]; omega, by simp [stopAt]⟩

/-- the uninterrupted run has 8 callbacks; stopping at the match (index 2) leaves 3 + `finish` -/
example : (sliceByLine cfg11 mX allCont inp6).events.length = 8 := by decide
example : (sliceByLine cfg11 mX (stopAt 2) inp6).events =
    [.begin, .context .before (some 1) 0 [121, 10], .matched (some 2) 2 [120, 10], .finish 4 none] := by decide

/-- `-m 1 -A 1` on the six-line input: the first match with its before-context, one trailing line, `finish` -/
example : MaxCount.quitIndex 1 1 (sliceByLine cfg11 mX allCont inp6).events = some 3 := by decide
example : (sliceByLine cfg11 mX (MaxCount.maxCountScript (some 1) 1 (sliceByLine cfg11 mX allCont inp6).events) inp6).events =
    [.begin, .context .before (some 1) 0 [121, 10], .matched (some 2) 2 [120, 10],
     .context .after (some 3) 4 [121, 10], .finish 6 none] := by decide

end RgVerif.Props.C16
