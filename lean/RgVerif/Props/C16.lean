import RgVerif.Lemmas.SearcherStop
import RgVerif.Lemmas.SearcherSimML
import RgVerif.Lemmas.SearcherMaxCountTop
/-
C16 — stopping early or failing mid-stream yields a prefix of the full results; completion is
signalled exactly once after a requested stop and never after an error.

Model: `Model/Core.lean`, `Model/Glue.lean`; every `keepgoing` / `?` site is an explicit `match` there.
The sink is a script `σ : Nat → Resp` over the callback index; `FirstStop σ k` says that `k` is the first
callback the sink does not answer with `Ok(true)`.  Proofs: `Lemmas/SearcherSim*.lean` (a simulation
lemma per function of `Core`), `Lemmas/SearcherStop.lean`.
-/
namespace RgVerif.Props.C16
open RgVerif RgVerif.Matcher RgVerif.Lines RgVerif.Searcher

/-- **C16, line-by-line search of a slice** (slow and fast path, every configuration incl. binary
detection modes, every matcher, every input, every sink script).  Let `E` be the sink's log of the
uninterrupted search and `k` the first callback the sink refuses.
* If callback `k` comes before the final `finish` of `E`: the log is exactly the first `k+1` entries of `E`,
  followed by one `finish` iff the sink said *stop*, and by nothing iff it returned an error; the search
  returns `Err` iff the sink returned an error (at `k`, or in that closing `finish`).
* Otherwise (the sink refuses nothing before `finish`): the log is `E`, and the search returns `Err` iff
  `finish` itself returned an error.
* The uninterrupted search returns `Ok`. -/
theorem C16_stop (cfg : Config) (m : MatcherI) (inp : Bytes) (σ : Script) (k : Nat) (hk : FirstStop σ k) :
    let R := sliceByLine cfg m σ inp
    let R0 := sliceByLine cfg m allCont inp
    R0.result = .ok () ∧
    (k + 1 < R0.events.length →
      (∃ bc bo, R.events = R0.events.take (k + 1) ++ (if σ k = .stop then [Event.finish bc bo] else [])) ∧
      (R.result = .err ↔ (σ k = .err ∨ (σ k = .stop ∧ σ (k + 1) = .err)))) ∧
    (R0.events.length ≤ k + 1 →
      R.events = R0.events ∧ (R.result = .err ↔ (k + 1 = R0.events.length ∧ σ k = .err))) := by
  intro R R0
  have h := run_prefix hk (st0 := Core.new cfg true) rfl (slicePre_wb hk cfg m inp)
  rw [← sliceByLine_eq, ← sliceByLine_eq] at h
  exact h

/-- **C16, multi-line search** (`MultiLine::run`, with the repaired final flush: F9): same statement. -/
theorem C16_stop_multiline (cfg : Config) (m : MatcherI) (inp : Bytes) (σ : Script) (k : Nat)
    (hk : FirstStop σ k) :
    let R := multiLine cfg m σ inp
    let R0 := multiLine cfg m allCont inp
    R0.result = .ok () ∧
    (k + 1 < R0.events.length →
      (∃ bc bo, R.events = R0.events.take (k + 1) ++ (if σ k = .stop then [Event.finish bc bo] else [])) ∧
      (R.result = .err ↔ (σ k = .err ∨ (σ k = .stop ∧ σ (k + 1) = .err)))) ∧
    (R0.events.length ≤ k + 1 →
      R.events = R0.events ∧ (R.result = .err ↔ (k + 1 = R0.events.length ∧ σ k = .err))) := by
  intro R R0
  have h := run_prefix hk (st0 := Core.new cfg true) rfl (mlPre_wb hk cfg m inp)
  rw [← multiLine_eq, ← multiLine_eq] at h
  exact h

/-- **C16 for `Searcher::search_slice`** whichever strategy it picks (the choice does not depend on the sink). -/
theorem C16_stop_search_slice (cfg : Config) (m : MatcherI) (inp : Bytes) (σ : Script) (k : Nat)
    (hk : FirstStop σ k) :
    let R := searchSlice cfg m σ inp
    let R0 := searchSlice cfg m allCont inp
    R0.result = .ok () ∧
    (k + 1 < R0.events.length →
      (∃ bc bo, R.events = R0.events.take (k + 1) ++ (if σ k = .stop then [Event.finish bc bo] else [])) ∧
      (R.result = .err ↔ (σ k = .err ∨ (σ k = .stop ∧ σ (k + 1) = .err)))) ∧
    (R0.events.length ≤ k + 1 →
      R.events = R0.events ∧ (R.result = .err ↔ (k + 1 = R0.events.length ∧ σ k = .err))) := by
  unfold searchSlice
  split
  · exact C16_stop_multiline cfg m inp σ k hk
  · exact C16_stop cfg m inp σ k hk

/-- Nothing is delivered after the refused callback except the closing `finish`: the log of the
interrupted search is never longer than `k + 2`. -/
theorem C16_nothing_after (cfg : Config) (m : MatcherI) (inp : Bytes) (σ : Script) (k : Nat)
    (hk : FirstStop σ k) (hlt : k + 1 < (sliceByLine cfg m allCont inp).events.length) :
    (sliceByLine cfg m σ inp).events.length ≤ k + 2 := by
  obtain ⟨_, h1, _⟩ := C16_stop cfg m inp σ k hk
  obtain ⟨⟨bc, bo, he⟩, _⟩ := h1 hlt
  rw [he]
  simp only [List.length_append, List.length_take]
  split <;> simp <;> omega

/-! ### The per-file match limit (`-m N`)

`Spec/MaxCount.lean`: `maxCountScript (some N) A E` is what the printers' sink (`StandardSink` / JSON: `should_quit`,
`match_more_than_limit`, `after_context_remaining`) answers along the uninterrupted stream `E`; `quitIndex N A E`
is the counting spec: the `N`-th `matched` callback if `A = 0`, else the `A`-th following callback that is a match
or an after-context line. -/

open RgVerif.MaxCount in
/-- **C16, match limit**: with the printers' limit `N` as the sink, the sink sees exactly the uninterrupted
stream up to and including the callback at which the counting spec says the limit (plus its `A` trailing
lines) is exhausted, then one `finish`; and the whole stream if that point is never reached. The search
returns `Ok`. (`hE`, `hnb`: the uninterrupted stream starts with its only `begin` — true of every stream equal
to the grep model, `grepSpecLines_shape`.) -/
theorem C16_maxcount (cfg : Config) (m : MatcherI) (inp : Bytes) (N : Nat) (rest : List Event)
    (hE : (sliceByLine cfg m allCont inp).events = Event.begin :: rest) (hnb : NoBegin rest) :
    let E := (sliceByLine cfg m allCont inp).events
    let R := sliceByLine cfg m (maxCountScript (some N) cfg.afterContext E) inp
    R.result = .ok () ∧
    match quitIndex N cfg.afterContext E with
    | some k => k + 1 < E.length → ∃ bc bo, R.events = E.take (k + 1) ++ [Event.finish bc bo]
    | none => R.events = E := by
  intro E R
  have hEE : E = Event.begin :: rest := hE
  cases hq : quitIndex N cfg.afterContext E with
  | none =>
    have hall : maxCountScript (some N) cfg.afterContext E = allCont := by
      rw [hEE] at hq ⊢; exact maxCount_never hnb hq
    have hR : R = sliceByLine cfg m allCont inp := by show sliceByLine cfg m _ inp = _; rw [hall]
    refine ⟨?_, ?_⟩
    · rw [hR]
      have h0 : FirstStop (fun i => if i = 0 then Resp.stop else Resp.cont) 0 :=
        ⟨fun i h => by omega, by simp⟩
      exact (C16_stop cfg m inp _ 0 h0).1
    · simp only; rw [hR]
  | some k =>
    obtain ⟨hfs, hstop⟩ : FirstStop (maxCountScript (some N) cfg.afterContext E) k ∧
        maxCountScript (some N) cfg.afterContext E k = .stop := by
      rw [hEE] at hq ⊢; exact maxCount_firstStop hnb hq
    obtain ⟨h0, h1, h2⟩ := C16_stop cfg m inp _ k hfs
    have hres : R.result = .ok () := by
      cases hr : R.result with
      | ok u => rfl
      | err =>
        by_cases hlt : k + 1 < E.length
        · have := (h1 hlt).2.1 hr
          rcases this with h | ⟨_, h⟩
          · exact absurd h (maxCountScript_ne_err _ _ _ _)
          · exact absurd h (maxCountScript_ne_err _ _ _ _)
        · have := ((h2 (by show E.length ≤ k + 1; omega)).2.1 hr).2
          exact absurd this (maxCountScript_ne_err _ _ _ _)
    refine ⟨hres, ?_⟩
    simp only
    intro hlt
    obtain ⟨⟨bc, bo, he⟩, _⟩ := h1 hlt
    rw [hstop] at he
    exact ⟨bc, bo, by simpa using he⟩

/-! ### Non-vacuity -/

def mX : MatcherI := MatcherI.ofFindAt fun h at_ => if 120 ∈ h.drop at_ then some ⟨at_, h.length⟩ else none
def cfg11 : Config := { afterContext := 1, beforeContext := 1 }
def inp6 : Bytes := [121, 10, 120, 10, 121, 10, 121, 10, 121, 10, 120, 10]
def stopAt (k : Nat) : Script := fun i => if i = k then .stop else .cont

example : FirstStop (stopAt 2) 2 := ⟨fun i h => by simp [stopAt]; omega, by simp [stopAt]⟩

/-- the uninterrupted run has 8 callbacks; stopping at the match (index 2) leaves 3 + `finish` -/
example : (sliceByLine cfg11 mX allCont inp6).events.length = 8 := by decide
example : (sliceByLine cfg11 mX (stopAt 2) inp6).events =
    [.begin, .context .before (some 1) 0 [121, 10], .matched (some 2) 2 [120, 10], .finish 4 none] := by decide

/-- `-m 1 -A 1` on the six-line input: the first match with its before-context, one trailing line, `finish` -/
example : MaxCount.quitIndex 1 1 (sliceByLine cfg11 mX allCont inp6).events = some 3 := by decide
example : (sliceByLine cfg11 mX (MaxCount.maxCountScript (some 1) 1 (sliceByLine cfg11 mX allCont inp6).events) inp6).events =
    [.begin, .context .before (some 1) 0 [121, 10], .matched (some 2) 2 [120, 10],
     .context .after (some 3) 4 [121, 10], .finish 6 none] := by decide

end RgVerif.Props.C16
