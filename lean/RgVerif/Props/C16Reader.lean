import RgVerif.Props.C16
import RgVerif.Props.C02
/-
C16 for the READER strategy (`Searcher::search_reader`: pass-through decoder with its BOM peek, the
roll buffer of `line_buffer.rs`, `ReadByLine::{run,fill}`, `Core::roll`) -- obtained by composing the
simulation of C02 (`ReadByLine::run` makes the callbacks of `SliceByLine::run` for EVERY sink script,
every fragmentation of the input and every buffer capacity) with the prefix theorem of the slice
strategy (`C16_stop`).  Before this file the reader's prefix rule was checked on the real code only
(checks/C16.json `assumptions`); these are theorems about `Model/ReadByLine.lean`, the model the C02
harness ties to `search_reader` on every run.
-/
namespace RgVerif.Props.C16
open RgVerif RgVerif.Matcher RgVerif.Lines RgVerif.Searcher RgVerif.LineBuffer

/-- **C16, incremental search of a reader** (slow path of `Core`, binary detection off): for every
configuration (contexts, inversion, passthru, `stop_on_nonmatch`, any terminator), every matcher, every
input, EVERY read script (fragmentation, `Interrupted`) and initial capacity, and every sink script whose
first refusal is callback `k`: the reader's log is the first `k+1` entries of ITS OWN uninterrupted log,
closed by one `finish` iff the sink said *stop* and by nothing iff it failed; `Err` is returned iff the
sink failed.  (Same statement as `C16_stop`, about `search_reader`.) -/
theorem C16_stop_reader (cfg : Searcher.Config) (m : MatcherI) (inp : Bytes) (script : List Step) (cap : Option Nat)
    (σ : Script) (k : Nat) (hk : FirstStop σ k)
    (hbin : cfg.binary = .none) (hml : cfg.multiLine = false)
    (hslow : isLineByLineFast cfg m (Core.new cfg true) = false) (hz : NoZero script) :
    let R := searchReader cfg m σ none cap ⟨inp, script, 0⟩
    let R0 := searchReader cfg m allCont none cap ⟨inp, script, 0⟩
    R0.result = .ok () ∧
    (k + 1 < R0.events.length →
      (∃ bc bo, R.events = R0.events.take (k + 1) ++ (if σ k = .stop then [Event.finish bc bo] else [])) ∧
      (R.result = .err ↔ (σ k = .err ∨ (σ k = .stop ∧ σ (k + 1) = .err)))) ∧
    (R0.events.length ≤ k + 1 →
      R.events = R0.events ∧ (R.result = .err ↔ (k + 1 = R0.events.length ∧ σ k = .err))) := by
  have hmm : multiLineWithMatcher cfg m = false := by simp [multiLineWithMatcher, hml]
  have key : ∀ τ : Script,
      (searchReader cfg m τ none cap ⟨inp, script, 0⟩).events = (sliceByLine cfg m τ inp).events ∧
      (searchReader cfg m τ none cap ⟨inp, script, 0⟩).result = (sliceByLine cfg m τ inp).result := by
    intro τ
    unfold searchReader
    simp only [hmm, Bool.false_eq_true, if_false]
    exact C02.C02 cfg m τ hbin hslow (lineBufferConfig cfg none cap) rfl
      (by simp [lineBufferConfig, hbin, BinaryDetection.toLB]) (by simp [lineBufferConfig])
      (⟨inp, script, 0⟩ : Reader).withBomPeek (withBomPeek_noZero _ hz)
  intro R R0
  have h := C16_stop cfg m inp σ k hk
  simp only at h
  have e1 := key σ
  have e0 := key allCont
  show R0.result = .ok () ∧ _
  simp only [R, R0, e1.1, e1.2, e0.1, e0.2]
  exact h

/-- **C16, a fault in the middle of the stream of a reader** (the allocation failure of a roll buffer
under a heap limit -- the mid-stream `Err` the model of `ReadByLine::fill` can raise): the search
returns the error after a PREFIX of the callbacks of the uninterrupted search of the same bytes;
nothing is reordered, altered or invented before the error.  Or no fault occurs and the two logs are
the same. -/
theorem C16_fault_reader (cfg : Searcher.Config) (m : MatcherI) (inp : Bytes) (script : List Step)
    (heapLimit cap : Option Nat) (σ : Script)
    (hbin : cfg.binary = .none) (hml : cfg.multiLine = false)
    (hslow : isLineByLineFast cfg m (Core.new cfg true) = false) (hz : NoZero script) :
    let R := searchReader cfg m σ heapLimit cap ⟨inp, script, 0⟩
    let E := (searchSlice cfg m σ inp).events
    (R.events = E ∧ R.result = (searchSlice cfg m σ inp).result) ∨
    (heapLimit.isSome = true ∧ R.result = .err ∧ ∃ rest, E = R.events ++ rest) :=
  C02.C02_heap_limit cfg m σ inp script heapLimit cap hbin hml hslow hz

/-- **C16, incremental search of a reader on the FAST path** (under the matcher contract `LineSafe` that
C01/C11 establish for the regex matcher): with a sink that refuses callback `k`, the reader returns the
same `Ok`/`Err` as the slice search and makes the same callbacks up to the byte count carried by
`finish` (finding F10b) -- so, by `C16_stop`, a prefix of the uninterrupted slice log closed by at most
one `finish`. -/
theorem C16_stop_reader_fast (cfg : Searcher.Config) (m : MatcherI) (inp : Bytes) (script : List Step) (cap : Option Nat)
    (σ : Script) (k : Nat) (hk : FirstStop σ k)
    (hbin : cfg.binary = .none) (hml : cfg.multiLine = false)
    (hsafe : ∀ a n, Searcher.LineSafe cfg m (window inp a n) (linesOf cfg m (window inp a n)))
    (hz : NoZero script) :
    let R := searchReader cfg m σ none cap ⟨inp, script, 0⟩
    let R0 := sliceByLine cfg m allCont inp
    (k + 1 < R0.events.length →
      (∃ bc bo, R.events.map Event.noCount =
        (R0.events.take (k + 1) ++ (if σ k = .stop then [Event.finish bc bo] else [])).map Event.noCount) ∧
      (R.result = .err ↔ (σ k = .err ∨ (σ k = .stop ∧ σ (k + 1) = .err)))) ∧
    (R0.events.length ≤ k + 1 →
      R.events.map Event.noCount = R0.events.map Event.noCount ∧
      (R.result = .err ↔ (k + 1 = R0.events.length ∧ σ k = .err))) := by
  have hmm : multiLineWithMatcher cfg m = false := by simp [multiLineWithMatcher, hml]
  have key : (searchReader cfg m σ none cap ⟨inp, script, 0⟩).events.map Event.noCount
        = (sliceByLine cfg m σ inp).events.map Event.noCount ∧
      (searchReader cfg m σ none cap ⟨inp, script, 0⟩).result = (sliceByLine cfg m σ inp).result := by
    unfold searchReader
    simp only [hmm, Bool.false_eq_true, if_false]
    exact C02.C02_fast_any_sink cfg m σ hbin (lineBufferConfig cfg none cap) rfl
      (by simp [lineBufferConfig, hbin, BinaryDetection.toLB]) (by simp [lineBufferConfig])
      (⟨inp, script, 0⟩ : Reader).withBomPeek hsafe (withBomPeek_noZero _ hz)
  intro R R0
  have h := C16_stop cfg m inp σ k hk
  simp only at h
  obtain ⟨_, h1, h2⟩ := h
  refine ⟨fun hlt => ?_, fun hle => ?_⟩
  · obtain ⟨⟨bc, bo, he⟩, hr⟩ := h1 hlt
    refine ⟨⟨bc, bo, ?_⟩, ?_⟩
    · show (searchReader cfg m σ none cap ⟨inp, script, 0⟩).events.map Event.noCount = _
      rw [key.1, he]
    · show (searchReader cfg m σ none cap ⟨inp, script, 0⟩).result = .err ↔ _
      rw [key.2]; exact hr
  · obtain ⟨he, hr⟩ := h2 hle
    refine ⟨?_, ?_⟩
    · show (searchReader cfg m σ none cap ⟨inp, script, 0⟩).events.map Event.noCount = _
      rw [key.1, he]
    · show (searchReader cfg m σ none cap ⟨inp, script, 0⟩).result = .err ↔ _
      rw [key.2]; exact hr

open RgVerif.MaxCount in
/-- **C16, match limit, incremental search of a reader** (`rg -m N [-A a]` on stdin / `--no-mmap` /
directory traversal; slow path): with the printers' limit as the sink, `search_reader` shows the sink
exactly its own uninterrupted stream up to the callback at which the limit (plus its trailing context)
is exhausted, then one `finish` -- it never fetches and searches another buffer after the sink said
stop -- for every read script and buffer capacity. -/
theorem C16_maxcount_reader (cfg : Searcher.Config) (m : MatcherI) (inp : Bytes) (script : List Step) (cap : Option Nat)
    (N A : Nat) (rest : List Event)
    (hbin : cfg.binary = .none) (hml : cfg.multiLine = false)
    (hslow : isLineByLineFast cfg m (Core.new cfg true) = false) (hz : NoZero script)
    (hE : (searchReader cfg m allCont none cap ⟨inp, script, 0⟩).events = Event.begin :: rest) (hnb : NoBegin rest) :
    let E := (searchReader cfg m allCont none cap ⟨inp, script, 0⟩).events
    let R := searchReader cfg m (maxCountScript (some N) A E) none cap ⟨inp, script, 0⟩
    R.result = .ok () ∧
    match quitIndex N A E with
    | some k => k + 1 < E.length → ∃ bc bo, R.events = E.take (k + 1) ++ [Event.finish bc bo]
    | none => R.events = E := by
  have hmm : multiLineWithMatcher cfg m = false := by simp [multiLineWithMatcher, hml]
  have key : ∀ τ : Script,
      (searchReader cfg m τ none cap ⟨inp, script, 0⟩).events = (sliceByLine cfg m τ inp).events ∧
      (searchReader cfg m τ none cap ⟨inp, script, 0⟩).result = (sliceByLine cfg m τ inp).result := by
    intro τ
    unfold searchReader
    simp only [hmm, Bool.false_eq_true, if_false]
    exact C02.C02 cfg m τ hbin hslow (lineBufferConfig cfg none cap) rfl
      (by simp [lineBufferConfig, hbin, BinaryDetection.toLB]) (by simp [lineBufferConfig])
      (⟨inp, script, 0⟩ : Reader).withBomPeek (withBomPeek_noZero _ hz)
  have e0 := key allCont
  rw [e0.1] at hE
  have h := C16_maxcount cfg m inp N A rest hE hnb
  simp only at h
  intro E R
  show R.result = .ok () ∧ _
  simp only [R, E, e0.1, (key _).1, (key _).2]
  exact h


/-! Non-vacuity: the hypotheses of `C16_stop_reader` hold for a concrete configuration with context lines,
a matcher on the slow path, a six-line input read one byte at a time with an interrupted read, and a sink
that stops at its third callback; the interrupted log is then the 3-entry prefix plus `finish`. -/
example : cfg11.binary = .none ∧ cfg11.multiLine = false ∧
    isLineByLineFast cfg11 mX (Core.new cfg11 true) = false ∧ FirstStop (stopAt 2) 2 :=
  ⟨rfl, rfl, by decide, ⟨fun i h => by simp [stopAt]; omega, by simp [stopAt]⟩⟩
example : NoZero [Step.ret 1, Step.intr, Step.ret 1, Step.ret 2] := by
  intro st h; simp at h; rcases h with h | h | h | h <;> subst h <;> simp
example : (searchReader cfg11 mX (stopAt 2) none (some 3) ⟨inp6, [Step.ret 1, Step.intr, Step.ret 1, Step.ret 2], 0⟩).events.length = 4 ∧
    (searchReader cfg11 mX allCont none (some 3) ⟨inp6, [Step.ret 1, Step.intr, Step.ret 1, Step.ret 2], 0⟩).events.length = 8 := by
  decide

end RgVerif.Props.C16
