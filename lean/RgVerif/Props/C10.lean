import RgVerif.Lemmas.PrinterModes
import RgVerif.Lemmas.PrinterOnly
import RgVerif.Lemmas.PrinterRun
/-
C10 — all reporting modes agree with each other.
Only the theorems that decide the property live here (helper lemmas: `Lemmas/Printer*.lean`).

Every mode is a sink over the *same* event stream `evs` of the searcher, with the same matcher `find` and the
same `find_iter_at_in_context` (`findIterInContext`); the modes are the models of `summary.rs` (`sumSearch`),
`standard.rs` (`stdSearch`) and `json.rs` (`jsonSearch`).  `countFold sc find N 0 0 evs` is the reference count:
(number of `matched` callbacks, number of individual matches in them) up to the `N`-th matched callback.

Standing hypotheses, each stated where used:
 * `sc.afterContext = 0` — context flags are not part of C10;
 * `(sc.multiLine && !sc.invert) = false` for `--count` — in effective multi-line mode `--count` is documented to
   count matches (known finding class `multiline-count-counts-matches`);
 * the JSON sink did not abort (`panicked = false`; in single-line mode this is a theorem, C09_json_total_partial).
-/
namespace RgVerif.Props.C10
open RgVerif RgVerif.Matcher RgVerif.Replace RgVerif.Json RgVerif.Printer RgVerif.PrinterSpec RgVerif.Summary
open RgVerif.Lemmas.PrinterIter RgVerif.Lemmas.PrinterJsonRun RgVerif.Lemmas.PrinterCount RgVerif.Lemmas.PrinterModes
open RgVerif.Lemmas.PrinterStd RgVerif.Lemmas.PrinterOnly RgVerif.Lemmas.PrinterRun

/-! ## --count = matched callbacks = match records of standard mode -/

/-- `--count` (and every Summary kind that does not quit early) counts the matched callbacks. -/
theorem summary_match_count (sc : SCfg) (c : SumCfg) (find : Oracle) (evs : List Event) (bc : Nat)
    (hsl : (sc.multiLine && !sc.invert) = false) (hq : c.hasStats = true ∨ c.kind.quitEarly = false) :
    (sumSearch sc c find evs bc).matchCount = (refCount sc find c.maxMatches evs).1 ∧
    (c.hasStats = true → ((sumSearch sc c find evs bc).stats.getD {}).matchCount = (refCount sc find c.maxMatches evs).2) := by
  unfold sumSearch refCount
  by_cases h0 : (c.maxMatches == some 0) = true
  · simp only [h0, ↓reduceIte, sumFinish]
    refine ⟨by trivial, ?_⟩
    intro hs
    simp [hs]
  · have h0' : (c.maxMatches == some 0) = false := by simpa using h0
    simp only [h0', Bool.false_eq_true, ↓reduceIte, sumFinish]
    have hq' : ((if c.hasStats = true then some ({} : Stats) else none).isNone && c.kind.quitEarly) = false := by
      rcases hq with h | h
      · simp [h]
      · simp [h]
    have := sumEvents_count sc c find hsl evs { stats := if c.hasStats then some {} else none } hq' (below_zero h0')
    refine ⟨this.1, ?_⟩
    intro hs
    have h2 := this.2
    simp only [hs, ↓reduceIte, Option.map_some] at h2 ⊢
    cases hst : (sumEvents sc c find { stats := some {} } evs).stats with
    | none => simp [hst] at h2
    | some s =>
      simp only [hst, Option.map_some, Option.some.injEq] at h2
      simpa using h2

/-- The Standard sink counts the same matched callbacks, whatever it prints. -/
theorem standard_match_count (sc : SCfg) (c : StdCfg) (find : Oracle) (w : StdState) (evs : List Event) (bc : Nat)
    (ha : sc.afterContext = 0) :
    (stdSearch sc c find w evs bc).matchCount = (refCount sc find c.maxMatches evs).1 := by
  unfold stdSearch refCount stdBegin stdFinish
  by_cases h0 : (c.maxMatches == some 0) = true
  · simp [h0]
  · have h0' : (c.maxMatches == some 0) = false := by simpa using h0
    simp only [h0', Bool.not_false, ↓reduceIte, Bool.false_eq_true]
    exact stdEvents_matchCount sc c find ha evs _ rfl (below_zero h0')

/-- **count_eq_lines**: for the same stream, matcher and `-m N`, `--count` equals the number of matched
callbacks the Standard sink consumed; in single-line mode each of them prints exactly one match record
(`C09.matched_record_own`), so this is the number of matching lines standard mode prints. -/
theorem count_eq_lines (sc : SCfg) (cS : SumCfg) (cT : StdCfg) (find : Oracle) (w : StdState) (evs : List Event)
    (bc bc' : Nat) (hk : cS.kind = .count) (hN : cS.maxMatches = cT.maxMatches)
    (hsl : (sc.multiLine && !sc.invert) = false) (ha : sc.afterContext = 0) :
    (sumSearch sc cS find evs bc).matchCount = (stdSearch sc cT find w evs bc').matchCount := by
  rw [(summary_match_count sc cS find evs bc hsl (Or.inr (by simp [hk, Kind.quitEarly]))).1,
    standard_match_count sc cT find w evs bc' ha, hN]

/-- **Run level**: the Standard sink's match count is the number of match records (records with the match
separator) among the records of the events it consumed — single-line mode, no `--vimgrep`. -/
theorem match_records_eq_match_count (sc : SCfg) (c : StdCfg) (find : Oracle) (st : StdState) (evs : List Event)
    (hml : sc.multiLine = false) (hp : c.perMatch = false) :
    (stdEvents sc c find st evs).matchCount =
      st.matchCount + matchRecordCount sc c find (processed sc c find st evs) :=
  matchCount_eq_match_records sc c find hml hp evs st

/-- **count = printed matching lines**: `--count` equals the number of match records standard mode prints for the
same stream, matcher and `-m N` (the records are those of `C09_standard`, counted over the consumed events). -/
theorem count_eq_printed_lines (sc : SCfg) (cS : SumCfg) (cT : StdCfg) (find : Oracle) (w : StdState)
    (evs : List Event) (bc : Nat) (hk : cS.kind = .count) (hN : cS.maxMatches = cT.maxMatches)
    (hml : sc.multiLine = false) (ha : sc.afterContext = 0) (hp : cT.perMatch = false)
    (h0 : (cT.maxMatches == some 0) = false) :
    (sumSearch sc cS find evs bc).matchCount =
      matchRecordCount sc cT find
        (processed sc cT find
          (stdBegin cT { w with matchCount := 0, afterRem := 0, stats := if cT.stats then some {} else none }).1 evs) := by
  rw [count_eq_lines sc cS cT find w evs bc bc hk hN (by simp [hml]) ha]
  unfold stdSearch stdFinish
  simp only [stdBegin, h0, Bool.not_false, ↓reduceIte]
  rw [match_records_eq_match_count sc cT find _ evs hml hp]
  simp

/-- what `-c` prints is that number -/
theorem count_out (sc : SCfg) (c : SumCfg) (find : Oracle) (evs : List Event) (bc : Nat) (hk : c.kind = .count)
    (hpos : (sumSearch sc c find evs bc).matchCount > 0) :
    (sumSearch sc c find evs bc).out =
      writePathField c ++ decimal (sumSearch sc c find evs bc).matchCount ++ sc.lt.bytes := by
  rw [sumSearch_out_count sc c find evs bc hk]
  simp [hpos]

/-! ## --count-matches = JSON submatches = -o records -/

/-- **countmatches_eq_o_eq_json**: for the same stream, matcher and `-m N`, the number `--count-matches` prints
(`stats.matches` of the Summary sink), `stats.matches` of the JSON sink, the number of submatch objects in the
JSON `match` messages, and `stats.matches` of the Standard sink with `-o` are one and the same number: the total
of `find_iter_at_in_context` over the consumed matched callbacks. -/
theorem countmatches_eq_o_eq_json (sc : SCfg) (cS : SumCfg) (cO : StdCfg) (jc : JsonCfg) (find : Oracle)
    (w : StdState) (evs : List Event) (bc : Nat)
    (hk : cS.kind = .countMatches) (hNo : cO.maxMatches = cS.maxMatches) (hNj : jc.maxMatches = cS.maxMatches)
    (hso : cO.stats = true) (hsl : (sc.multiLine && !sc.invert) = false) (ha : sc.afterContext = 0)
    (hp : (jsonSearch sc jc find evs bc).panicked = false) :
    ((sumSearch sc cS find evs bc).stats.getD {}).matchCount = (refCount sc find cS.maxMatches evs).2 ∧
    (jsonSearch sc jc find evs bc).stats.matchCount = (refCount sc find cS.maxMatches evs).2 ∧
    matchSubs (jsonSearch sc jc find evs bc).msgs = (refCount sc find cS.maxMatches evs).2 ∧
    ((stdSearch sc cO find w evs bc).stats.getD {}).matchCount = (refCount sc find cS.maxMatches evs).2 := by
  have hhs : cS.hasStats = true := by simp [SumCfg.hasStats, hk, Kind.requiresStats]
  refine ⟨(summary_match_count sc cS find evs bc hsl (Or.inl hhs)).2 hhs, ?_, ?_, ?_⟩
  · -- JSON stats
    unfold refCount
    unfold jsonSearch jsonBegin at hp ⊢
    rw [← hNj]
    by_cases h0 : (jc.maxMatches == some 0) = true
    · simp [h0, jsonFinish]
    · have h0' : (jc.maxMatches == some 0) = false := by simpa using h0
      simp only [h0', Bool.false_eq_true, ↓reduceIte] at hp ⊢
      by_cases hab : jc.alwaysBeginEnd = true
      · simp only [hab, Bool.not_true, Bool.false_eq_true, ↓reduceIte] at hp ⊢
        rw [jsonFinish_panicked] at hp
        have := (jsonEvents_count sc jc find ha evs _ (by simp [JsonState.writeBegin])
          (by simp [JsonState.writeBegin]) (by simpa [JsonState.writeBegin] using below_zero h0') hp).2.1
        unfold jsonFinish
        split
        · simpa [JsonState.writeBegin] using this
        · split <;> simpa [JsonState.writeBegin] using this
      · simp only [hab, Bool.not_false, ↓reduceIte] at hp ⊢
        rw [jsonFinish_panicked] at hp
        have := (jsonEvents_count sc jc find ha evs _ rfl rfl (below_zero h0') hp).2.1
        unfold jsonFinish
        split
        · simpa using this
        · split <;> simpa using this
  · -- JSON submatch objects
    unfold refCount
    unfold jsonSearch jsonBegin at hp ⊢
    rw [← hNj]
    by_cases h0 : (jc.maxMatches == some 0) = true
    · simp [h0, jsonFinish, matchSubs]
    · have h0' : (jc.maxMatches == some 0) = false := by simpa using h0
      simp only [h0', Bool.false_eq_true, ↓reduceIte] at hp ⊢
      by_cases hab : jc.alwaysBeginEnd = true
      · simp only [hab, Bool.not_true, Bool.false_eq_true, ↓reduceIte] at hp ⊢
        rw [jsonFinish_panicked] at hp
        have := (jsonEvents_count sc jc find ha evs _ (by simp [JsonState.writeBegin])
          (by simp [JsonState.writeBegin]) (by simpa [JsonState.writeBegin] using below_zero h0') hp).2.2
        unfold jsonFinish
        split
        · simpa [JsonState.writeBegin, matchSubs] using this
        · split
          · simpa [JsonState.writeBegin, matchSubs] using this
          · rw [matchSubs_append]
            simpa [JsonState.writeBegin, matchSubs] using this
      · simp only [hab, Bool.not_false, ↓reduceIte] at hp ⊢
        rw [jsonFinish_panicked] at hp
        have := (jsonEvents_count sc jc find ha evs _ rfl rfl (below_zero h0') hp).2.2
        unfold jsonFinish
        split
        · simpa [matchSubs] using this
        · split
          · simpa [matchSubs] using this
          · rw [matchSubs_append]
            simpa [matchSubs] using this
  · -- Standard -o with stats
    have hg : cO.granular = true := by simp [StdCfg.granular, hso]
    unfold stdSearch refCount stdBegin stdFinish
    rw [← hNo]
    by_cases h0 : (cO.maxMatches == some 0) = true
    · simp [h0, hso]
    · have h0' : (cO.maxMatches == some 0) = false := by simpa using h0
      simp only [h0', Bool.not_false, ↓reduceIte, Bool.false_eq_true, hso]
      have := (stdEvents_count sc cO find ha hg evs
        { w with total := w.total + w.count, count := 0, matchCount := 0, afterRem := 0, stats := some {} } rfl
        (below_zero h0')).2
      simp only [Option.map_some] at this
      cases hst : (stdEvents sc cO find
        { w with total := w.total + w.count, count := 0, matchCount := 0, afterRem := 0, stats := some {} } evs).stats with
      | none => simp [hst] at this
      | some s =>
        simp only [hst, Option.map_some, Option.some.injEq] at this
        simpa using this

/-- **-o records**: with `--only-matching` (single-line path) a line whose match list is non-empty prints exactly
one record per match — the matched text, at the match's own offset and column. -/
theorem only_matching_records (sc : SCfg) (c : StdCfg) (s : Sunk) (ho : c.onlyMatching = true)
    (hml : (sc.multiLine && !s.ctx.isSome) = false) (hne : s.ms ≠ []) :
    sinkBody sc c s = (s.ms.map (onlyRecord sc.lt c s)).flatMap (printRecord c) := by
  unfold sinkBody
  have : s.ms.isEmpty = false := by cases hs : s.ms with | nil => exact absurd hs hne | cons _ _ => rfl
  simp only [this, Bool.false_eq_true, ↓reduceIte, hml]
  exact sinkSlow_only sc c s ho

/-- **-U -o, byte level**: in multi-line mode `--only-matching` prints, line by line, one record per non-empty
intersection of a (sorted, disjoint) match with the line: a match spanning k lines gives k records, an empty match
none — the precise content of finding class `multiline-only-matching-records`. -/
theorem only_matching_multiline_records (sc : SCfg) (c : StdCfg) (s : Sunk) (hne : s.ms ≠ []) (hs : Sorted s.ms)
    (ho : c.onlyMatching = true)
    (hok : (splitLines sc.lt.asByte s.bytes).all (crlfLineOk sc.lt) = true) :
    sinkSlowMultiLine sc c s =
      ((lineSpans sc.lt.asByte s.bytes).zipIdx 0).flatMap
        (fun q => linePieces sc c s q.2 q.1.1 (trimLineTerminator sc.lt s.bytes q.1.1 q.1.2)) :=
  sinkSlowMultiLine_only_eq sc c s hne hs ho hok

/-- the matches every printer records for a range are sorted, disjoint and well-formed (sane matcher) -/
theorem recorded_matches_sorted (sc : SCfg) (find : Oracle) (bytes : Bytes) (rs re : Nat)
    (hs : Sane (find (shownHay sc bytes rs re)) (shownHay sc bytes rs re).length) :
    Sorted (shiftSpans rs (findIterInContext sc find bytes rs re)) :=
  findIterInContext_sorted sc find bytes rs re hs

/-- non-vacuity / the finding in the model: `a\nb` on `a\nb\n` (one match `[0,3)`) prints two `-o` records, the
empty match of `$` at `[1,1)` in `a\n` prints none. -/
example :
    sinkSlowMultiLine { multiLine := true } { onlyMatching := true }
      { bytes := [97, 10, 98, 10], absOff := 0, lineNo := none, ctx := none, ms := [⟨0, 3⟩] } = [97, 10, 98, 10] ∧
    sinkSlowMultiLine { multiLine := true } { onlyMatching := true }
      { bytes := [97, 10], absOff := 0, lineNo := none, ctx := none, ms := [⟨1, 1⟩] } = [] := by
  decide

/-! ## every matched line has a submatch -/

/-- **matched_has_submatch**: if, on the haystack the printers show it (multi-line: the buffer cut after the
look-ahead, searched from the start of the range; line-oriented: the line's own content, searched from 0), the
matcher finds a match — in multi-line mode one that starts inside the reported range, or exactly at the end of a
final line without terminator — then the printers' match list for that range is not empty. -/
theorem matched_has_submatch (sc : SCfg) (find : Oracle) (buf : Bytes) (rs re : Nat) (m : Span)
    (hrs : shownFrom sc rs ≤ (shownHay sc buf rs re).length)
    (hf : find (shownHay sc buf rs re) (shownFrom sc rs) = some m)
    (hin : sc.multiLine = true →
      (m.s < re ∨ (isAtUnterminatedEnd sc.lt (cutHaystack sc buf re) rs re = true ∧ m.s = re))) :
    findIterInContext sc find buf rs re ≠ [] := by
  obtain ⟨t, ht⟩ := findIterInContext_head sc find buf rs re m hrs hf hin
  rw [ht]
  simp

/-- The guard-free form the property asks for, in single-line mode (since 0cdcce3 the printers search a line on
its own): a reported line in whose own content (terminator removed) the matcher finds *some* match from the first
byte has at least one submatch — whatever the match, also the empty one at the very end (finding F6, repaired). -/
theorem matched_has_submatch_single_line (sc : SCfg) (find : Oracle) (buf : Bytes) (rs re : Nat) (m : Span)
    (hml : sc.multiLine = false)
    (hf : find (lineHaystack sc.lt buf rs re) 0 = some m) :
    findIterInContext sc find buf rs re ≠ [] := by
  have hsh : shownHay sc buf rs re = lineHaystack sc.lt buf rs re := by simp [shownHay, hml]
  have hfr : shownFrom sc rs = 0 := by simp [shownFrom, hml]
  exact matched_has_submatch sc find buf rs re m (by rw [hfr]; omega) (by rw [hsh, hfr]; exact hf)
    (by intro h; rw [hml] at h; cases h)

/-- non-vacuity: the F6 witness — `$` on the single unterminated line `abc` — satisfies the hypotheses -/
example :
    findIterInContext {} (fun _ p => if p ≤ 3 then some ⟨3, 3⟩ else none) [97, 98, 99] 0 3 = [⟨3, 3⟩] := by
  decide

/-! ## -l, --files-without-match, --quiet -/

/-- the Summary sink has a positive match count iff a matched callback arrived (and `-m` is not 0) -/
theorem summary_pos (sc : SCfg) (c : SumCfg) (find : Oracle) (evs : List Event) (bc : Nat)
    (hsl : (sc.multiLine && !sc.invert) = false) :
    (sumSearch sc c find evs bc).matchCount > 0 ↔ ((c.maxMatches == some 0) = false ∧ hasMatched evs = true) := by
  unfold sumSearch sumFinish
  by_cases h0 : (c.maxMatches == some 0) = true
  · simp [h0]
  · have h0' : (c.maxMatches == some 0) = false := by simpa using h0
    simp only [h0', Bool.false_eq_true, ↓reduceIte, true_and]
    rw [sumEvents_pos sc c find hsl]
    simp

/-- **l_iff_count_pos**: `--files-with-matches` prints the path iff `--count` (same stream, matcher, limit) is
non-zero. -/
theorem l_iff_count_pos (sc : SCfg) (cL cC : SumCfg) (find : Oracle) (evs : List Event) (bc bc' : Nat)
    (hl : cL.kind = .pathWithMatch) (hN : cL.maxMatches = cC.maxMatches) (p : Bytes) (hp : cL.path = some p)
    (hsl : (sc.multiLine && !sc.invert) = false) :
    (sumSearch sc cL find evs bc).out ≠ [] ↔ (sumSearch sc cC find evs bc').matchCount > 0 := by
  rw [summary_pos sc cC find evs bc' hsl, ← hN, ← summary_pos sc cL find evs bc hsl,
    sumSearch_out_l sc cL find evs bc hl]
  have hne := writePathLine_ne_nil sc.lt cL p hp
  by_cases h : (sumSearch sc cL find evs bc).matchCount > 0 <;> simp [h, hne]

/-- **L_is_complement**: `--files-without-match` prints the path exactly when `--files-with-matches` does not. -/
theorem L_is_complement (sc : SCfg) (cL cW : SumCfg) (find : Oracle) (evs : List Event) (bc bc' : Nat)
    (hl : cL.kind = .pathWithMatch) (hw : cW.kind = .pathWithoutMatch) (hN : cL.maxMatches = cW.maxMatches)
    (p : Bytes) (hp : cL.path = some p) (hpw : cW.path = some p)
    (hsl : (sc.multiLine && !sc.invert) = false) :
    (sumSearch sc cW find evs bc').out ≠ [] ↔ ¬ (sumSearch sc cL find evs bc).out ≠ [] := by
  rw [l_iff_count_pos sc cL cW find evs bc bc' hl hN p hp hsl, sumSearch_out_L sc cW find evs bc' hw]
  have hne := writePathLine_ne_nil sc.lt cW p hpw
  by_cases h : (sumSearch sc cW find evs bc').matchCount > 0
  · have : ((sumSearch sc cW find evs bc').matchCount == 0) = false := by simp; omega
    simp [h, this]
  · have : ((sumSearch sc cW find evs bc').matchCount == 0) = true := by simp; omega
    simp [h, this, hne]

/-- **q_same_status**: `--quiet` reports "matched" exactly when the Standard sink does, so (without error
messages) the exit status is the same. -/
theorem q_same_status (sc : SCfg) (cQ : SumCfg) (cT : StdCfg) (find : Oracle) (w : StdState) (evs : List Event)
    (bc bc' : Nat) (hq : cQ.kind = .quiet) (hN : cQ.maxMatches = cT.maxMatches)
    (hsl : (sc.multiLine && !sc.invert) = false) :
    sumHasMatch cQ (sumSearch sc cQ find evs bc) = decide ((stdSearch sc cT find w evs bc').matchCount > 0) ∧
    exitCode (sumHasMatch cQ (sumSearch sc cQ find evs bc)) true false =
      exitCode (decide ((stdSearch sc cT find w evs bc').matchCount > 0)) false false := by
  have hsum := summary_pos sc cQ find evs bc hsl
  have hstd : (stdSearch sc cT find w evs bc').matchCount > 0 ↔
      ((cT.maxMatches == some 0) = false ∧ hasMatched evs = true) := by
    unfold stdSearch stdBegin stdFinish
    by_cases h0 : (cT.maxMatches == some 0) = true
    · simp [h0]
    · have h0' : (cT.maxMatches == some 0) = false := by simpa using h0
      have hne : cT.maxMatches ≠ some 0 := by intro h; simp [h] at h0'
      simp only [h0', Bool.not_false, ↓reduceIte, true_and]
      rw [stdEvents_pos sc cT find hne]
      simp
  have heq : sumHasMatch cQ (sumSearch sc cQ find evs bc) = decide ((stdSearch sc cT find w evs bc').matchCount > 0) := by
    unfold sumHasMatch
    simp only [hq]
    rw [hN] at hsum
    by_cases h : (stdSearch sc cT find w evs bc').matchCount > 0
    · have := hsum.mpr (hstd.mp h)
      simp [h, this]
    · have : ¬ (sumSearch sc cQ find evs bc).matchCount > 0 := fun hh => h (hstd.mpr (hsum.mp hh))
      simp [h, this]
  refine ⟨heq, ?_⟩
  rw [heq]
  unfold exitCode
  cases decide ((stdSearch sc cT find w evs bc').matchCount > 0) <;> rfl

/-! ## --stats totals are sums -/

/-- **stats_are_sums**: the totals `main.rs` prints are the field-wise sums of the per-file stats, and "matched"
is the disjunction of the per-file results (also when `--quiet` stops at the first matching file). -/
theorem stats_are_sums (rs : List FileResult) (q : Bool) :
    (searchAll false true rs).2 = some (sumStats rs) ∧
    (searchAll q true rs).1 = rs.any (·.hasMatch) ∧ (searchAll q false rs).1 = rs.any (·.hasMatch) := by
  unfold searchAll sumStats
  refine ⟨aggregate_stats rs false {}, ?_, ?_⟩
  · rw [aggregate_matched]; simp
  · rw [aggregate_matched]; simp

/-- a file's own stats are sums over its events: `matches` is the total of `find_iter_at_in_context` over the
consumed matched callbacks (`refCount`), for every sink that computes stats (see `countmatches_eq_o_eq_json`). -/
theorem stats_add_fields (a b : Stats) :
    (a.add b).matchCount = a.matchCount + b.matchCount ∧ (a.add b).matchedLines = a.matchedLines + b.matchedLines ∧
    (a.add b).searches = a.searches + b.searches ∧ (a.add b).searchesWithMatch = a.searchesWithMatch + b.searchesWithMatch ∧
    (a.add b).bytesSearched = a.bytesSearched + b.bytesSearched ∧ (a.add b).bytesPrinted = a.bytesPrinted + b.bytesPrinted := by
  simp [Stats.add]

/-! ## mode normalisation -/

/-- `-v --count-matches` is `--count`; `-o --count` is `--count-matches`; under `-v` every count mode is `--count`
(also `-c -o -v`, finding F33 repaired by 221fc03); normalising twice changes nothing. -/
theorem normalize_modes :
    normalizeMode .countMatches true false = .count ∧ normalizeMode .countMatches true true = .count ∧
    normalizeMode .count false true = .countMatches ∧ normalizeMode .count true true = .count ∧
    normalizeMode .count false false = .count ∧ normalizeMode .countMatches false false = .countMatches ∧
    (∀ m inv only, normalizeMode (normalizeMode m inv only) inv only = normalizeMode m inv only) ∧
    (∀ m only, normalizeMode m true only ≠ .countMatches) := by
  refine ⟨by decide, by decide, by decide, by decide, by decide, by decide, ?_, ?_⟩
  · intro m inv only; cases m <;> cases inv <;> cases only <;> rfl
  · intro m only; cases m <;> cases only <;> decide

end RgVerif.Props.C10
