import RgVerif.Lemmas.Process
/-
C18 — preprocessor / decompression output is what gets searched; failures surface; stderr never blocks.
Model: `RgVerif.Process` (process.rs, decompress.rs, search.rs), contract: `RgVerif.ProcessSpec`.
-/
namespace RgVerif.Props.C18
open RgVerif RgVerif.Process RgVerif.ProcessSpec

/-! ### `CommandReader::close` -/

/-- The decision table of `close`: an error exactly when the reader was still open and the child could not
be waited for, or exited unsuccessfully and either its output had been read to the end or it wrote
something to stderr (or stderr could not be read). -/
theorem close_table (r : Reader) (ch : Child) :
    (close r ch).2 = .err ↔
      (r.stdoutOpen = true ∧
        (ch.wait = .failed ∨ (ch.wait = .exited false ∧ (r.eof = true ∨ ch.stderr.isEmpty = false)))) := by
  cases ho : r.stdoutOpen with
  | false => simp [close_of_closed r ch ho]
  | true =>
    rw [close_open r ch ho]
    unfold closeErrs
    cases hw : ch.wait with
    | failed => simp
    | exited s => cases s <;> cases r.eof <;> cases ch.stderr.isEmpty <;> simp

/-- `close` agrees with the contract ("unsuccessful after its output was consumed ⇒ error; stopped early and
silent ⇒ no error"). -/
theorem close_eq_spec (r : Reader) (ch : Child) (ho : r.stdoutOpen = true) :
    (close r ch).2 = if specCloseErr r.eof ch then .err else .ok :=
  close_open r ch ho

/-- `close` is idempotent: the second call does nothing and succeeds. -/
theorem close_idempotent (r : Reader) (ch : Child) : close (close r ch).1 ch = ((close r ch).1, .ok) :=
  close_of_closed _ ch (close_closed r ch)

/-- **Reading a command's output.** For every script of pipe reads, every child, whether the consumer reads
to the end (`stop = none`) or stops after `k` reads: the bytes delivered are exactly the bytes the pipe
delivered (all of them, resp. those of the first `k` reads), and an error is reported (by the `read` that
hits EOF or by the final `close`) exactly when the contract says so — with "consumed" meaning the reader
saw the end of the stream. -/
theorem searched_bytes_and_failures (ch : Child) (reads : List Nat) (stop : Option Nat) :
    let res := consume ch reads stop {} 0
    let early := match stop with
      | some k => decide (k ≤ reads.length)
      | none => false
    res.2.1 = (match stop with
      | some k => ((reads.take k).map (· + 1)).sum
      | none => (reads.map (· + 1)).sum) ∧
    ((res.2.2.1 = true ∨ res.2.2.2 = .err) ↔ specCloseErr (!early) ch = true) := by
  have := consume_spec ch reads stop {} 0 rfl rfl
  simp only [Nat.zero_add] at this
  exact this

/-- A child that rg stopped listening to (killed by SIGPIPE or exiting with any status) and that wrote
nothing to stderr is never an error; the same child is an error once rg has read its output to the end. -/
theorem stopped_early_is_not_an_error (status : Bool) :
    (close { stdoutOpen := true, eof := false } ⟨.exited status, .bytes []⟩).2 = .ok ∧
    ((close { stdoutOpen := true, eof := true } ⟨.exited status, .bytes []⟩).2 = .err ↔ status = false) := by
  cases status <;> decide

/-- Full statement of "a command terminated because ripgrep stopped reading early is not treated as an
error": whenever the reader had not seen EOF, `close` succeeds (given the child could be waited for). -/
def stopped_early_full : Prop :=
  ∀ (ch : Child), ch.wait ≠ .failed → (close { stdoutOpen := true, eof := false } ch).2 = .ok

/-- It fails on the current tree: a child that had written anything to stderr (a progress note, a warning)
and is then killed by SIGPIPE because rg stopped reading is reported as failed
(known finding `stopped-early-command-with-stderr-output-is-reported-as-failed`). -/
theorem stopped_early_full_fails : ¬ stopped_early_full := by
  intro h
  have := h ⟨.exited false, .bytes [110, 111, 116, 101]⟩ (by decide)
  revert this
  decide

/-- **Proved part** (guard: the child wrote nothing to stderr): stopping early is never an error. -/
theorem stopped_early_partial (ch : Child) (hw : ch.wait ≠ .failed) (hs : ch.stderr.isEmpty = true) :
    (close { stdoutOpen := true, eof := false } ch).2 = .ok := by
  rw [close_open _ ch rfl]
  unfold closeErrs
  cases h : ch.wait with
  | failed => exact absurd h hw
  | exited s => cases s <;> simp [hs]

/-- Non-vacuity: a child killed by a signal, silent. -/
example : (⟨.exited false, .bytes []⟩ : Child).wait ≠ .failed ∧ (⟨.exited false, .bytes []⟩ : Child).stderr.isEmpty = true := by
  decide

/-! ### The search result is kept only if `close` succeeded too -/

theorem result_kept_iff_close_ok {α : Type} (openOk spawnOk : Bool) (search : Outcome α) (cl : CloseRes) (a : α) :
    searchPreprocessor openOk spawnOk search cl = .ok a ↔
      (openOk = true ∧ spawnOk = true ∧ search = .ok a ∧ cl = .ok) := by
  cases openOk <;> cases spawnOk <;> cases search <;> cases cl <;> simp [searchPreprocessor]

/-- A command that cannot be started is an error for `--pre` … -/
theorem pre_spawn_failure_is_error {α : Type} (search : Outcome α) (cl : CloseRes) :
    searchPreprocessor true false search cl = .err := rfl

theorem decompress_result {α : Type} (rd : DecompReader) (search : Outcome α) (cl : CloseRes) (a : α) :
    searchDecompress rd search cl = .ok a ↔
      (search = .ok a ∧ (rd = .passthru ∨ (rd = .command ∧ cl = .ok))) := by
  cases rd <;> cases search <;> cases cl <;> simp [searchDecompress]

/-- Full statement of "if the command cannot be started … an error naming the file is reported" for `-z`. -/
def decompress_spawn_failure_full : Prop :=
  ∀ (search : Outcome Unit) (cl : CloseRes), searchDecompress (decompBuild true false true) search cl = .err

/-- … it fails: for `-z` a decompressor that cannot be started silently falls back to the raw file
(upstream's documented choice; known finding `decompressor-missing-falls-back-to-raw`). -/
theorem decompress_spawn_failure_falls_back :
    decompBuild true false true = .passthru ∧ ¬ decompress_spawn_failure_full := by
  refine ⟨rfl, fun h => ?_⟩
  have := h (.ok ()) .ok
  revert this
  decide

/-! ### Which strategy searches a path -/

/-- The override matcher behind `--pre-glob`: last matching glob wins, a plain glob includes, `!glob`
excludes, and an unmatched path is excluded iff the set has an including glob. -/
theorem preglob_eq_spec (gs : List PreGlob) : overrideIgnored gs = specIgnored gs :=
  overrideIgnored_eq_spec gs

/-- `SearchWorker::search` picks the documented strategy, for every configuration. -/
theorem selection (c : SelCfg) : select c = specStrategy c := by
  unfold select specStrategy shouldPreprocess shouldDecompress
  rw [overrideIgnored_eq_spec]
  cases c.isStdin <;> cases c.pre <;> cases c.searchZip <;> cases c.recognised <;>
    cases hg : c.preGlobs <;> cases specIgnored c.preGlobs <;> simp_all

/-- Spelled out: the preprocessor runs iff it is set and the globs are empty or do not exclude the path;
otherwise decompression iff `-z` and the path is recognised; otherwise the file is searched directly. -/
theorem selection_table (c : SelCfg) (h : c.isStdin = false) :
    (select c = .preprocessor ↔ (c.pre = true ∧ (c.preGlobs = [] ∨ specIgnored c.preGlobs = false))) ∧
    (select c = .decompress ↔
      (¬ (c.pre = true ∧ (c.preGlobs = [] ∨ specIgnored c.preGlobs = false)) ∧ c.searchZip = true ∧ c.recognised = true)) ∧
    (select c = .direct ↔
      (¬ (c.pre = true ∧ (c.preGlobs = [] ∨ specIgnored c.preGlobs = false)) ∧ ¬ (c.searchZip = true ∧ c.recognised = true))) := by
  rw [selection]
  unfold specStrategy
  simp only [h, Bool.false_eq_true, if_false]
  by_cases h1 : c.pre = true ∧ (c.preGlobs = [] ∨ specIgnored c.preGlobs = false)
  · simp [h1]
  · by_cases h2 : c.searchZip = true ∧ c.recognised = true
    · simp [h1, h2]
    · simp [h1, h2]

/-! ### Large stderr never blocks: two pipes of any capacity -/

/-- **With a concurrent stderr drainer the reader always gets through**: for every pipe capacity `K ≥ 1`
and every program of the child (any interleaving of stdout and stderr writes, any length), under every
scheduling of child, reader and drainer — including a reader that stops early and a child that is killed
by or ignores the resulting SIGPIPE — every run is finite (at most `2·|prog| + 1` steps) and can only end
in `Done` (child exited, stdout at EOF or closed): no reachable state is stuck. -/
theorem async_stderr_no_deadlock (K : Nat) (hK : 1 ≤ K) (prog : List Bool) :
    (∀ n s, ReachN K true (initState prog) n s → n ≤ 2 * prog.length + 1) ∧
    (∀ s, Reach K true (initState prog) s → ¬ Done s → ∃ t, Step K true s t) := by
  refine ⟨fun n s h => ?_, fun s _ hd => async_progress hK s hd⟩
  have := reachN_measure h
  simp [Process.measure, initState] at this
  omega

/-- ripgrep's own configuration (`async_stderr(true)`, a source-anchored constant) is the safe one. -/
theorem ripgrep_stderr_no_deadlock (K : Nat) (hK : 1 ≤ K) (prog : List Bool) :
    ∀ s, Reach K ripgrepAsyncStderr (initState prog) s → ¬ Done s → ∃ t, Step K ripgrepAsyncStderr s t :=
  (async_stderr_no_deadlock K hK prog).2

/-- The foil: without the drainer (`async_stderr(false)`), for every capacity there is a child — one that
writes `K + 1` bytes to stderr — and a schedule after which nobody can move although the child has not
exited: the reader gave up waiting for stdout and `close` waits for the child, the child waits for
someone to read stderr. -/
theorem sync_stderr_can_deadlock (K : Nat) :
    ∃ prog s, Reach K false (initState prog) s ∧ ¬ Done s ∧ ∀ t, ¬ Step K false s t := by
  refine ⟨List.replicate (K + 1) true, ⟨[true], 0, K, true⟩, ?_, ?_, ?_⟩
  · have h := sync_fill K K (Nat.le_refl _)
    have h1 : K + 1 - K = 1 := by omega
    rw [h1] at h
    exact .step h .close
  · intro hd; exact absurd hd.1 (by simp)
  · intro t ht
    cases ht with
    | childErr h => omega
    | drain n h _ _ => cases h

/-- … and exactly that is the boundary: if everything the child ever writes to stderr fits into the pipe
(`errOps prog ≤ K`), the synchronous reader gets through as well, under every schedule. The deadlock needs
a child that writes more to stderr than the pipe holds — `close` waits for the child before it drains
stderr (`wait()` first, `read_to_end` afterwards). -/
theorem sync_ok_iff_stderr_fits (K : Nat) (hK : 1 ≤ K) (prog : List Bool) (hfit : errOps prog ≤ K) :
    ∀ s, Reach K false (initState prog) s → ¬ Done s → ∃ t, Step K false s t := by
  intro s hr
  have hinv : s.err + errOps s.prog ≤ K := by
    induction hr with
    | refl => simpa [initState] using hfit
    | step _ hs ih => exact sync_invariant hs ih
  exact fun hd => sync_progress_small hK s hinv hd

/-- The executable scheduler used by the driver takes only steps of the relation. -/
theorem stepFn_sound (K : Nat) (async : Bool) (s t : PState) (c : Choice) (h : stepFn K async s c = some t) :
    Step K async s t := by
  obtain ⟨prog, out, err, closed⟩ := s
  cases c with
  | child =>
    cases prog with
    | nil => simp [stepFn] at h
    | cons b rest =>
      cases b with
      | false =>
        cases closed with
        | true => simp [stepFn] at h; subst h; exact .childOutIgnored
        | false =>
          simp only [stepFn, Bool.false_eq_true, if_false] at h
          split at h
          · rename_i hlt; injection h with h; subst h; exact .childOut hlt
          · cases h
      | true =>
        simp only [stepFn] at h
        split at h
        · rename_i hlt; injection h with h; subst h; exact .childErr hlt
        · cases h
  | childKill =>
    cases prog with
    | nil => simp [stepFn] at h
    | cons b rest =>
      cases b with
      | true => simp [stepFn] at h
      | false =>
        cases closed with
        | true => simp [stepFn] at h; subst h; exact .childOutKilled
        | false => simp [stepFn] at h
  | read n =>
    cases closed with
    | true => simp [stepFn] at h
    | false =>
      simp only [stepFn, Bool.not_false, Bool.true_and, Bool.and_eq_true, decide_eq_true_eq] at h
      split at h
      · rename_i hc; injection h with h; subst h; exact .read n hc.1 hc.2
      · cases h
  | close =>
    cases closed with
    | true => simp [stepFn] at h
    | false => simp [stepFn] at h; subst h; exact .close
  | drain n =>
    simp only [stepFn, Bool.and_eq_true, Bool.or_eq_true, decide_eq_true_eq] at h
    split at h
    · rename_i hc
      injection h with h; subst h
      cases async with
      | true => exact .drain n rfl hc.1.2 hc.2
      | false =>
        have hp : prog = [] := by
          rcases hc.1.1 with h | h
          · cases h
          · simpa using h
        subst hp
        exact .drainAfterWait n rfl hc.1.2 hc.2
    · cases h

end RgVerif.Props.C18
