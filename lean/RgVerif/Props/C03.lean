import RgVerif.Lemmas.SearcherTop
/-
C03 — results follow the grep model (order, uniqueness, context windows, separators, numbering,
byte offsets, byte count).  Only the deciding statements live here; proofs are in `Lemmas/Searcher*.lean`.

Model: `Model/Lines.lean`, `Model/Core.lean`, `Model/Glue.lean` (`sliceByLine` = `SliceByLine::run`).
Spec:  `Spec/Grep.lean` (`grepSpec`: per-line-index definition of kind / break / number / offset).
The matcher is an arbitrary `MatcherI`; the selection predicate is the one the code asks the matcher for
(`lineSel`: verdict on the line without its terminator, flipped by `invert_match`).
-/
namespace RgVerif.Props.C03
open RgVerif RgVerif.Matcher RgVerif.Lines RgVerif.Searcher RgVerif.GrepSpec

/-- **C03, slow path.** For every configuration (any A, B, inversion, passthru, line numbers on/off,
stop-on-nonmatch, any terminator), every matcher and every input: whenever `Core` takes the slow
line-by-line path, the sink of an uninterrupted `SliceByLine::run` sees exactly the grep model of the
input, and the search returns `Ok`. -/
theorem C03_slow (cfg : Config) (m : MatcherI) (inp : Bytes) (hbin : cfg.binary = .none)
    (hslow : isLineByLineFast cfg m (Core.new cfg true) = false) :
    (sliceByLine cfg m allCont inp).events = grepSpec cfg (lineSel cfg m) inp ∧
      (sliceByLine cfg m allCont inp).result = .ok () :=
  sliceByLine_slow cfg m inp hbin hslow

/-- passthru always takes the slow path, for every matcher: the theorem applies unconditionally there -/
theorem C03_passthru (cfg : Config) (m : MatcherI) (inp : Bytes) (hbin : cfg.binary = .none)
    (hpt : cfg.passthru = true) :
    (sliceByLine cfg m allCont inp).events = grepSpec cfg (lineSel cfg m) inp :=
  (sliceByLine_slow cfg m inp hbin (by simp [isLineByLineFast, hpt])).1

/-- a matcher without a line terminator and without a non-matching byte set (the trait defaults)
always takes the slow path -/
theorem C03_default_matcher (cfg : Config) (m : MatcherI) (inp : Bytes) (hbin : cfg.binary = .none)
    (h1 : m.lineTerminator = none) (h2 : m.nonMatchingBytes = none) :
    (sliceByLine cfg m allCont inp).events = grepSpec cfg (lineSel cfg m) inp :=
  (sliceByLine_slow cfg m inp hbin (by simp [isLineByLineFast, h1, h2])).1

/-! ### Non-vacuity: a concrete matcher ("line contains `x`"), context 1/1, six lines, two groups -/

def mX : MatcherI := MatcherI.ofFindAt fun h at_ => if 120 ∈ h.drop at_ then some ⟨at_, h.length⟩ else none
def cfg11 : Config := { afterContext := 1, beforeContext := 1 }
def inp6 : Bytes := [121, 10, 120, 10, 121, 10, 121, 10, 121, 10, 120, 10]

example : isLineByLineFast cfg11 mX (Core.new cfg11 true) = false := by decide

example : grepSpec cfg11 (lineSel cfg11 mX) inp6 =
    [.begin, .context .before (some 1) 0 [121, 10], .matched (some 2) 2 [120, 10],
     .context .after (some 3) 4 [121, 10], .contextBreak, .context .before (some 5) 8 [121, 10],
     .matched (some 6) 10 [120, 10], .finish 12 none] := by decide

end RgVerif.Props.C03
