import RgVerif.Lemmas.SearcherTop
import RgVerif.Lemmas.SearcherTopFast
import RgVerif.Lemmas.SearcherTopFastStop
import RgVerif.Lemmas.SearcherFind
import RgVerif.Lemmas.SearcherSpecFacts
/-
C03 — results follow the grep model (order, uniqueness, context windows, separators, numbering,
byte offsets, byte count).  Only the deciding statements live here; proofs are in `Lemmas/Searcher*.lean`.

Model: `Model/Lines.lean`, `Model/Core.lean`, `Model/Glue.lean` (`sliceByLine` = `SliceByLine::run`).
Spec:  `Spec/Grep.lean` (`grepSpec`: per-line-index definition of kind / break / number / offset).
The matcher is an arbitrary `MatcherI`; the selection predicate is the one the code asks the matcher for
(`lineSel`: verdict on the line without its terminator, flipped by `invert_match`).
-/
namespace RgVerif.Props.C03
open RgVerif RgVerif.Matcher RgVerif.Lines RgVerif.Searcher RgVerif.GrepSpec

/-- **C03, slow path.** For every configuration (any A, B, inversion, passthru, line numbers on/off,
stop-on-nonmatch, any terminator), every matcher and every input: whenever `Core` takes the slow
line-by-line path, the sink of an uninterrupted `SliceByLine::run` sees exactly the grep model of the
input, and the search returns `Ok`. -/
theorem C03_slow (cfg : Config) (m : MatcherI) (inp : Bytes) (hbin : cfg.binary = .none)
    (hslow : isLineByLineFast cfg m (Core.new cfg true) = false) :
    (sliceByLine cfg m allCont inp).events = grepSpec cfg (lineSel cfg m) inp ∧
      (sliceByLine cfg m allCont inp).result = .ok () :=
  sliceByLine_slow cfg m inp hbin hslow

/-- passthru always takes the slow path, for every matcher: the theorem applies unconditionally there -/
theorem C03_passthru (cfg : Config) (m : MatcherI) (inp : Bytes) (hbin : cfg.binary = .none)
    (hpt : cfg.passthru = true) :
    (sliceByLine cfg m allCont inp).events = grepSpec cfg (lineSel cfg m) inp :=
  (sliceByLine_slow cfg m inp hbin (by simp [isLineByLineFast, hpt])).1

/-- a matcher without a line terminator and without a non-matching byte set (the trait defaults)
always takes the slow path -/
theorem C03_default_matcher (cfg : Config) (m : MatcherI) (inp : Bytes) (hbin : cfg.binary = .none)
    (h1 : m.lineTerminator = none) (h2 : m.nonMatchingBytes = none) :
    (sliceByLine cfg m allCont inp).events = grepSpec cfg (lineSel cfg m) inp :=
  (sliceByLine_slow cfg m inp hbin (by simp [isLineByLineFast, h1, h2])).1

/-- **C03, fast path** (plain, inverted, and with `stop_on_nonmatch`, where the fast loop hands over to the
slow loop after the first match). `FindSpec` is the contract of `find_by_line_fast` on this input: started
at a line start it returns the first line from there on that the pattern matches (`C03_linesafe` derives it
from the matcher contract `LineSafe`). Under it the fast path delivers exactly the grep model, with the
*same* selection predicate as the slow path. -/
theorem C03_fast (cfg : Config) (m : MatcherI) (inp : Bytes) (hbin : cfg.binary = .none)
    (hfast : isLineByLineFast cfg m (Core.new cfg true) = true)
    (hfind : FindSpec cfg m inp (linesOf cfg m inp)) :
    (sliceByLine cfg m allCont inp).events = grepSpec cfg (lineSel cfg m) inp ∧
      (sliceByLine cfg m allCont inp).result = .ok () := by
  cases hs : cfg.stopOnNonmatch
  · exact sliceByLine_fast cfg m inp hbin hfast hs hfind
  · exact sliceByLine_fast_stop cfg m inp hbin hfast hs hfind

/-- **C03** — for every configuration (A, B, inversion, passthru, line numbers, stop-on-nonmatch, terminator),
every matcher and every input, whichever path `Core` takes: the sink of an uninterrupted
`SliceByLine::run` sees exactly the grep model of the input, provided `find_by_line_fast` meets its
contract whenever the fast path is taken. -/
theorem C03 (cfg : Config) (m : MatcherI) (inp : Bytes) (hbin : cfg.binary = .none)
    (hfind : isLineByLineFast cfg m (Core.new cfg true) = true → FindSpec cfg m inp (linesOf cfg m inp)) :
    (sliceByLine cfg m allCont inp).events = grepSpec cfg (lineSel cfg m) inp ∧
      (sliceByLine cfg m allCont inp).result = .ok () := by
  cases hf : isLineByLineFast cfg m (Core.new cfg true)
  · exact C03_slow cfg m inp hbin hf
  · exact C03_fast cfg m inp hbin hf (hfind hf)

/-- **C03 for a line-safe matcher**: the contract in terms of the matcher's answers
(`Lemmas/SearcherFind.lean`; decidable per input by `lineSafeCheck`). -/
theorem C03_linesafe (cfg : Config) (m : MatcherI) (inp : Bytes) (hbin : cfg.binary = .none)
    (hsafe : LineSafe cfg m inp (linesOf cfg m inp)) :
    (sliceByLine cfg m allCont inp).events = grepSpec cfg (lineSel cfg m) inp ∧
      (sliceByLine cfg m allCont inp).result = .ok () := by
  apply C03 cfg m inp hbin
  intro _
  have L : Layout cfg.lineTerm.asByte inp (linesOf cfg m inp) := layout_splitLines _ inp (lineSel cfg m)
  have hsel : ∀ j, j < (linesOf cfg m inp).length →
      selAt (linesOf cfg m inp) j = lineSel cfg m (bytesAt (linesOf cfg m inp) j) :=
    selAt_of_forall (fun x hx => by
      simp only [linesOf, List.mem_map] at hx
      obtain ⟨l, _, rfl⟩ := hx; rfl)
  exact findSpec_of_lineSafe L (linesOf_length cfg m inp) rfl hsel hsafe

/-! ### Corollaries (the five clauses of the property)

`Agrees` is the conclusion of `C03_slow` / `C03_fast`; each clause below holds for every run covered by
either theorem. -/

/-- the sink's log equals the grep model of the input -/
def Agrees (cfg : Config) (m : MatcherI) (inp : Bytes) : Prop :=
  (sliceByLine cfg m allCont inp).events = grepSpec cfg (lineSel cfg m) inp

/-- results come in input order and no line is delivered twice (offsets strictly increase) -/
theorem delivered_sorted_nodup {cfg : Config} {m : MatcherI} {inp : Bytes} (h : Agrees cfg m inp) :
    ((sliceByLine cfg m allCont inp).events.filterMap evOff).Pairwise (· < ·) := by
  rw [h]; exact spec_sorted_nodup cfg _ inp

/-- every delivered line is a line of the input with its true 1-based number, true offset and own bytes -/
theorem numbers_true {cfg : Config} {m : MatcherI} {inp : Bytes} (h : Agrees cfg m inp)
    (ev : Event) (hev : ev ∈ (sliceByLine cfg m allCont inp).events) (off : Nat) (ho : evOff ev = some off) :
    ∃ i, i < (effective cfg (linesOf cfg m inp)).length ∧
      off = offsetAt (effective cfg (linesOf cfg m inp)) i ∧
      evLine ev = some (lineNo cfg i) ∧ evBytes ev = some (bytesAt (effective cfg (linesOf cfg m inp)) i) := by
  rw [h] at hev
  exact spec_numbers_true cfg _ ev hev off ho

/-- a search that runs to completion reports the input's full length -/
theorem bytecount_full {cfg : Config} {m : MatcherI} {inp : Bytes} (h : Agrees cfg m inp)
    (hs : cfg.stopOnNonmatch = false) :
    (sliceByLine cfg m allCont inp).events.getLast? = some (Event.finish inp.length none) := by
  rw [h]; exact spec_bytecount_full cfg _ inp hs

/-- context windows are exact: line `i` is delivered iff it is selected, or within `A` lines after /
(passthru off) `B` lines before a selected line, or passthru is on -/
theorem context_exact (cfg : Config) (sl : List SLine) (i : Nat) :
    delivered cfg sl i = true ↔
      (selAt sl i = true ∨ (∃ j, j < i ∧ selAt sl j = true ∧ i - j ≤ cfg.afterContext) ∨ cfg.passthru = true ∨
        ∃ j, i < j ∧ selAt sl j = true ∧ j - i ≤ cfg.beforeContext) :=
  spec_context_exact cfg sl i

/-- a separator is signalled exactly between non-adjacent groups of delivered lines -/
theorem break_iff_gap (cfg : Config) (sl : List SLine) (i : Nat) (hd : delivered cfg sl i = true) :
    Event.contextBreak ∈ lineEvents cfg sl i ↔
      ((cfg.beforeContext > 0 ∨ cfg.afterContext > 0) ∧ i ≥ 1 ∧ delivered cfg sl (i - 1) = false ∧
        ∃ j, j < i ∧ delivered cfg sl j = true) :=
  spec_break_iff_gap cfg sl i hd

/-! ### Non-vacuity: a concrete matcher ("line contains `x`"), context 1/1, six lines, two groups -/

def mX : MatcherI := MatcherI.ofFindAt fun h at_ => if 120 ∈ h.drop at_ then some ⟨at_, h.length⟩ else none
def cfg11 : Config := { afterContext := 1, beforeContext := 1 }
def inp6 : Bytes := [121, 10, 120, 10, 121, 10, 121, 10, 121, 10, 120, 10]

example : isLineByLineFast cfg11 mX (Core.new cfg11 true) = false := by decide

example : grepSpec cfg11 (lineSel cfg11 mX) inp6 =
    [.begin, .context .before (some 1) 0 [121, 10], .matched (some 2) 2 [120, 10],
     .context .after (some 3) 4 [121, 10], .contextBreak, .context .before (some 5) 8 [121, 10],
     .matched (some 6) 10 [120, 10], .finish 12 none] := by decide

end RgVerif.Props.C03
