import RgVerif.Lemmas.Precedence
/-
C05 — which files are searched follows the documented precedence of filters.
Decision logic stated outright, one theorem per sentence of the property, about the model of
`dir.rs::{matched, matched_dir_entry, matched_ignore}`, `overrides.rs`, `types.rs`, `walk.rs::skip_entry`
and the flag table of `hiargs.rs::walk_builder` (`Model/IgnoreDir.lean`); `Spec/Precedence.lean` is the
documented order as one function.
-/
namespace RgVerif.Props.C05
open RgVerif RgVerif.IgnoreDir RgVerif.Precedence

/-- the per-source verdicts the model's matchers give for one entry -/
def verdictsOf (o : Opts) (m : Matchers) (levels : List Level) (curDir : Bytes) (absBase : Option Bytes)
    (path0 : Bytes) (isDir : Bool) : SourceVerdicts :=
  let path := (Gitignore.stripPrefix [46, 47] path0).getD path0
  let qs := consulted (o.parents && absBase.isSome) levels path (rebase (absBase.getD []) curDir path)
  let repo := inRepo o.requireGit levels
  let rules := hasAnyIgnoreRules o (!m.explicit.isEmpty)
  { override := if !m.overrides.globs.isEmpty then overrideMatched m.overrides m.overrideWhitelists path isDir else .none,
    rgignore := if rules then plainAgg (·.custom) isDir qs else .none,
    ignore := if rules then plainAgg (·.ignore) isDir qs else .none,
    gitignore := if rules && repo then gitAgg (·.gitignore) isDir qs else .none,
    exclude := if rules && repo then gitAgg (·.exclude) isDir qs else .none,
    global := if rules && repo then (if o.gitGlobal then m.global else Gi.empty).matched path isDir else .none,
    ignoreFile := if rules then explicitLoop m.explicit path isDir else .none,
    types := if !m.types.isEmpty then typesMatched m.types m.typesSelected path isDir else .none,
    hiddenName := isHidden path0 }

/-- **Command-line globs override everything**: when `-g` globs exist and say anything about the entry,
that is the answer, whatever ignore files, types or hiddenness say. -/
theorem override_wins (o : Opts) (m : Matchers) (levels : List Level) (curDir : Bytes)
    (absBase : Option Bytes) (path : Bytes) (isDir : Bool)
    (hne : m.overrides.globs.isEmpty = false)
    (hov : (overrideMatched m.overrides m.overrideWhitelists
              ((Gitignore.stripPrefix [46, 47] path).getD path) isDir).isNone = false) :
    matched o m levels curDir absBase path isDir =
      overrideMatched m.overrides m.overrideWhitelists ((Gitignore.stripPrefix [46, 47] path).getD path) isDir := by
  unfold matched
  simp [hne, hov]

/-- **Source order**: `.rgignore` beats `.ignore` beats `.gitignore` beats `.git/info/exclude` beats the global
gitignore beats `--ignore-file`; inside one kind the nearest directory that says anything decides; git kinds
are cut at the repository root; directories above the search root are asked (about the re-based path) only
when `parents` is on. -/
theorem source_order (o : Opts) (levels : List Level) (curDir : Bytes) (absBase : Option Bytes)
    (explicit : List Gi) (global : Gi) (path : Bytes) (isDir : Bool) :
    matchedIgnore o levels curDir absBase explicit global path isDir =
      let qs := consulted (o.parents && absBase.isSome) levels path (rebase (absBase.getD []) curDir path)
      let repo := inRepo o.requireGit levels
      firstOf [plainAgg (·.custom) isDir qs,
               plainAgg (·.ignore) isDir qs,
               if repo then gitAgg (·.gitignore) isDir qs else .none,
               if repo then gitAgg (·.exclude) isDir qs else .none,
               if repo then (if o.gitGlobal then global else Gi.empty).matched path isDir else .none,
               explicitLoop explicit path isDir] :=
  matchedIgnore_eq o levels curDir absBase explicit global path isDir

/-- **Git-sourced rules apply only inside a repository** (unless `--no-require-git`): with `require_git` and no
`.git` on the whole chain, `.gitignore`, `.git/info/exclude` and the global gitignore contribute nothing. -/
theorem git_sources_need_repo (o : Opts) (levels : List Level) (curDir : Bytes) (absBase : Option Bytes)
    (explicit : List Gi) (global : Gi) (path : Bytes) (isDir : Bool)
    (hreq : o.requireGit = true) (hno : ∀ l ∈ levels, l.hasGit = false) :
    matchedIgnore o levels curDir absBase explicit global path isDir =
      let qs := consulted (o.parents && absBase.isSome) levels path (rebase (absBase.getD []) curDir path)
      firstOf [plainAgg (·.custom) isDir qs, plainAgg (·.ignore) isDir qs, explicitLoop explicit path isDir] := by
  rw [matchedIgnore_eq]
  have : inRepo o.requireGit levels = false := by
    simp only [inRepo, hreq, Bool.not_true, Bool.false_or, List.any_eq_false]
    intro l hl; simp [hno l hl]
  simp only [this, Bool.false_eq_true, ↓reduceIte, firstOf_cons, M3.none_or]

/-- and with `--no-require-git` they always do -/
theorem no_require_git_in_repo (levels : List Level) : inRepo false levels = true := by simp [inRepo]

/-- **Then file-type selection**: with no override verdict, an ignore verdict of the ignore files stops; else
an ignore or whitelist verdict of the type matcher decides; else a whitelist verdict of the ignore files
survives. -/
theorem types_after_ignore (o : Opts) (m : Matchers) (levels : List Level) (curDir : Bytes)
    (absBase : Option Bytes) (path : Bytes) (isDir : Bool)
    (hov : (verdictsOf o m levels curDir absBase path isDir).override.isNone = true) :
    matched o m levels curDir absBase path isDir =
      let p := (Gitignore.stripPrefix [46, 47] path).getD path
      let ig := if hasAnyIgnoreRules o (!m.explicit.isEmpty)
                then matchedIgnore o levels curDir absBase m.explicit m.global p isDir else .none
      let ty := if !m.types.isEmpty then typesMatched m.types m.typesSelected p isDir else .none
      if ig.isIgnore then .ignore
      else if ty.isIgnore then .ignore
      else if ty.isWhitelist then .whitelist
      else if ig.isWhitelist then .whitelist else .none := by
  unfold matched
  simp only [verdictsOf] at hov
  simp only [hov, Bool.not_true, Bool.false_eq_true, ↓reduceIte]
  generalize (if hasAnyIgnoreRules o (!m.explicit.isEmpty) = true then
      matchedIgnore o levels curDir absBase m.explicit m.global
        ((Gitignore.stripPrefix [46, 47] path).getD path) isDir else M3.none) = ig
  generalize (if (!m.types.isEmpty) = true then
      typesMatched m.types m.typesSelected ((Gitignore.stripPrefix [46, 47] path).getD path) isDir
      else M3.none) = ty
  cases ig <;> cases ty <;> rfl

/-- **Hidden entries are skipped only if nothing whitelisted them**: the hidden filter applies exactly when
every other filter said nothing. -/
theorem hidden_only_if_nothing_whitelisted (o : Opts) (m : Matchers) (levels : List Level)
    (curDir : Bytes) (absBase : Option Bytes) (path : Bytes) (isDir : Bool) :
    shouldSkip o m levels curDir absBase path isDir =
      ((matched o m levels curDir absBase path isDir).isIgnore ||
       ((matched o m levels curDir absBase path isDir).isNone && o.hidden && isHidden path)) := by
  unfold shouldSkip
  cases matched o m levels curDir absBase path isDir <;> simp [M3.isNone, M3.isIgnore]
  cases o.hidden <;> cases isHidden path <;> rfl

/-- **A path named on the command line is always searched**: depth-0 entries pass every filter. -/
theorem explicit_always_searched (o : Opts) (m : Matchers) (levels : List Level) (curDir : Bytes)
    (absBase : Option Bytes) (path : Bytes) (isDir : Bool) :
    skipEntry o m levels curDir absBase 0 path isDir = false := rfl

/-- the combination logic of `matched` + `matched_dir_entry` + `should_skip_entry` on bare verdicts -/
theorem decide_core (ov ig ty : M3) (hid hn : Bool) :
    (let r := if (!ov.isNone) = true then ov else
        if ig.isIgnore = true then ig else
        if ty.isIgnore = true then ty else
        if ty.isWhitelist = true then ty else (if ig.isWhitelist = true then ig else M3.none)
     let r := if (r.isNone && hid && hn) = true then M3.ignore else r
     r.isIgnore) =
    (if (!ov.isNone) = true then ov.isIgnore else
     if ig.isIgnore = true then true
     else if ty.isIgnore = true then true
     else if (ig.isWhitelist || ty.isWhitelist) = true then false
     else hid && hn) := by
  cases ov <;> cases ig <;> cases ty <;> cases hid <;> cases hn <;> rfl

/-- **C05**: the decision of the model for an entry met during traversal is the documented decision function
applied to the per-source verdicts — for every chain of directories (any depth, with or without absolute
parents), every option set, every content of the rule sources. -/
theorem C05 (o : Opts) (m : Matchers) (levels : List Level) (curDir : Bytes) (absBase : Option Bytes)
    (path : Bytes) (isDir : Bool) :
    shouldSkip o m levels curDir absBase path isDir =
      Precedence.decide o.hidden (verdictsOf o m levels curDir absBase path isDir) := by
  -- the ignore-file verdict of the model is the first of the six per-source verdicts
  have hig : firstOf [(verdictsOf o m levels curDir absBase path isDir).rgignore,
                      (verdictsOf o m levels curDir absBase path isDir).ignore,
                      (verdictsOf o m levels curDir absBase path isDir).gitignore,
                      (verdictsOf o m levels curDir absBase path isDir).exclude,
                      (verdictsOf o m levels curDir absBase path isDir).global,
                      (verdictsOf o m levels curDir absBase path isDir).ignoreFile] =
      (if hasAnyIgnoreRules o (!m.explicit.isEmpty)
       then matchedIgnore o levels curDir absBase m.explicit m.global
              ((Gitignore.stripPrefix [46, 47] path).getD path) isDir else .none) := by
    rw [matchedIgnore_eq]
    simp only [verdictsOf]
    cases hasAnyIgnoreRules o (!m.explicit.isEmpty) <;> cases inRepo o.requireGit levels <;>
      simp [firstOf_cons, firstOf_nil, M3.none_or]
  unfold Precedence.decide
  rw [hig]
  unfold shouldSkip matched
  simp only [verdictsOf]
  exact decide_core _ _ _ _ _

/-- **C05 over a tree**: for one walk root (named in any way, with or without directories above it), an entry
at any depth below the root is yielded by the walker exactly when the documented decision function says "do
not skip" for the entry itself and for every directory on the way down to it — each asked of the chain of
rule files that is in force in its own parent directory. -/
theorem C05_tree (w : World) (comps : List Bytes) (isDir : Bool) :
    entryVisited w comps isDir =
      (List.range comps.length).all fun i =>
        let pre := comps.take (i + 1)
        let chain := chainFor w pre.dropLast
        !(Precedence.decide w.opts.hidden
            (verdictsOf w.opts w.m chain.1 (if w.fixRebase then w.rootGiven else chain.2)
              (if wantsParents w.opts then some w.rootAbs else none)
              (pre.foldl joinName w.rootGiven) (if i + 1 == comps.length then isDir else true))) := by
  unfold entryVisited
  have all_congr_mem : ∀ (l : List Nat) (f g : Nat → Bool), (∀ x ∈ l, f x = g x) → l.all f = l.all g := by
    intro l f g h
    induction l with
    | nil => rfl
    | cons a l ih =>
      simp only [List.all_cons, h a (by simp), ih (fun x hx => h x (by simp [hx]))]
  apply all_congr_mem
  intro i hi
  have hi' : i < comps.length := List.mem_range.mp hi
  have hlen : (comps.take (i + 1)).length = i + 1 := by
    rw [List.length_take]; omega
  unfold entrySkipped skipEntry
  simp only [hlen, Nat.add_eq_zero_iff, Nat.succ_ne_self, and_false, beq_iff_eq, ↓reduceIte, C05]

/-- and the root itself, like every path named on the command line, is never filtered (depth 0) -/
theorem C05_root (w : World) (isDir : Bool) : entryVisited w [] isDir = true := by
  simp [entryVisited]

/-! ### the flags (`hiargs.rs::walk_builder`): each removes exactly its own source -/

/-- `--hidden` switches off the hidden filter and nothing else -/
theorem flag_hidden (f : Flags) :
    walkOpts { f with hidden := true } = { walkOpts f with hidden := false } := by
  cases f; simp [walkOpts]

/-- `--no-ignore-dot`: no `.rgignore` and no `.ignore` matcher is built in any directory; nothing else changes -/
theorem flag_no_ignore_dot (f : Flags) (d : DirFiles) :
    childLevel (walkOpts { f with no_ignore_dot := true }) d =
      { childLevel (walkOpts f) d with custom := Gi.empty, ignore := Gi.empty } := by
  cases f; simp [walkOpts, childLevel]

/-- `--no-ignore-vcs`: no `.gitignore` / `.git/info/exclude` matcher, no repository detection, and the global
gitignore is off -/
theorem flag_no_ignore_vcs (f : Flags) (d : DirFiles) :
    childLevel (walkOpts { f with no_ignore_vcs := true }) d =
      { childLevel (walkOpts f) d with gitignore := Gi.empty, exclude := Gi.empty, hasGit := false } ∧
    (walkOpts { f with no_ignore_vcs := true }).gitGlobal = false := by
  cases f; simp [walkOpts, childLevel]

/-- `--no-ignore-exclude`: only the `.git/info/exclude` matcher disappears (when VCS rules are on at all) -/
theorem flag_no_ignore_exclude (f : Flags) (d : DirFiles) (h : f.no_ignore_vcs = false) :
    childLevel (walkOpts { f with no_ignore_exclude := true }) d =
      { childLevel (walkOpts f) d with exclude := Gi.empty } := by
  cases f; simp_all [walkOpts, childLevel]

/-- `--no-ignore-global`: only the global gitignore is switched off -/
theorem flag_no_ignore_global (f : Flags) :
    walkOpts { f with no_ignore_global := true } = { walkOpts f with gitGlobal := false } := by
  cases f; simp [walkOpts]

/-- `--no-ignore-parent`: only the directories above the search root stop being consulted -/
theorem flag_no_ignore_parent (f : Flags) :
    walkOpts { f with no_ignore_parent := true } = { walkOpts f with parents := false } := by
  cases f; simp [walkOpts]

/-- `--no-ignore-files`: the `--ignore-file` arguments are not loaded; the walk options do not change -/
theorem flag_no_ignore_files (f : Flags) :
    useIgnoreFiles { f with no_ignore_files := true } = false ∧
    walkOpts { f with no_ignore_files := true } = walkOpts f := by
  cases f; simp [walkOpts, useIgnoreFiles]

/-- `--no-require-git`: git-sourced rules no longer need a repository; nothing else changes -/
theorem flag_no_require_git (f : Flags) :
    walkOpts { f with no_require_git := true } = { walkOpts f with requireGit := false } := by
  cases f; simp [walkOpts]

/-- `--no-ignore` = dot + exclude + global + parent + vcs, and (documented) not `--ignore-file` -/
theorem flag_no_ignore (f : Flags) :
    let o := walkOpts f.noIgnore
    o.ignore = false ∧ o.hasCustomNames = false ∧ o.gitIgnore = false ∧ o.gitExclude = false ∧
    o.gitGlobal = false ∧ o.parents = false ∧ o.hidden = (walkOpts f).hidden ∧
    o.requireGit = (walkOpts f).requireGit ∧ useIgnoreFiles f.noIgnore = useIgnoreFiles f := by
  cases f; simp [walkOpts, Flags.noIgnore, useIgnoreFiles]

/-- `-u` is `--no-ignore`; `-uu` adds `--hidden` -/
theorem flag_unrestricted (f : Flags) :
    f.unrestricted 1 = f.noIgnore ∧ f.unrestricted 2 = { (Flags.noIgnore f) with hidden := true } ∧
    f.unrestricted 3 = f.unrestricted 2 := by
  cases f; simp [Flags.unrestricted, Flags.noIgnore]

/-- **Repeated and negated switches: the later one wins.**  Whatever precedes it on the command line, a switch
or its negation given last decides its field (`--no-ignore` / `--ignore` decide the five fields dot, exclude,
global, parent, vcs at once and leave `hidden`, `no_ignore_files`, `no_require_git` alone). -/
theorem flags_later_wins (ts : List FlagTok) (v : Bool) :
    (foldToks (ts ++ [.hidden v])).hidden = v ∧
    (foldToks (ts ++ [.noIgnoreDot v])).no_ignore_dot = v ∧
    (foldToks (ts ++ [.noIgnoreExclude v])).no_ignore_exclude = v ∧
    (foldToks (ts ++ [.noIgnoreFiles v])).no_ignore_files = v ∧
    (foldToks (ts ++ [.noIgnoreGlobal v])).no_ignore_global = v ∧
    (foldToks (ts ++ [.noIgnoreParent v])).no_ignore_parent = v ∧
    (foldToks (ts ++ [.noIgnoreVcs v])).no_ignore_vcs = v ∧
    (foldToks (ts ++ [.noRequireGit v])).no_require_git = v ∧
    (let f := foldToks (ts ++ [.noIgnore v]); let g := foldToks ts
     f.no_ignore_dot = v ∧ f.no_ignore_exclude = v ∧ f.no_ignore_global = v ∧ f.no_ignore_parent = v ∧
     f.no_ignore_vcs = v ∧ f.hidden = g.hidden ∧ f.no_ignore_files = g.no_ignore_files ∧
     f.no_require_git = g.no_require_git) := by
  simp [foldToks, List.foldl_append, applyTok]

/-- `-u`, `-uu`, `-uuu` from a clean command line are `Flags.unrestricted`; a negation given after them takes its
field back (`-uu --no-hidden` hides hidden files again, `-u --ignore-vcs` respects `.gitignore` again) -/
theorem flags_unrestricted_fold :
    foldToks [.unrestricted] = Flags.default.unrestricted 1 ∧
    foldToks [.unrestricted, .unrestricted] = Flags.default.unrestricted 2 ∧
    foldToks [.unrestricted, .unrestricted, .unrestricted] = Flags.default.unrestricted 3 ∧
    (foldToks [.unrestricted, .unrestricted, .hidden false]).hidden = false ∧
    (foldToks [.hidden false, .unrestricted, .unrestricted]).hidden = true ∧
    (foldToks [.unrestricted, .noIgnoreVcs false]).no_ignore_vcs = false := by decide

/-- non-vacuity: `.ignore` whitelists what `.gitignore` ignores, `.rgignore` ignores it again -/
example :
    firstOf [M3.ignore, M3.whitelist, M3.ignore, M3.none, M3.none, M3.none] = M3.ignore ∧
    firstOf [M3.none, M3.whitelist, M3.ignore, M3.none, M3.none, M3.none] = M3.whitelist ∧
    Precedence.decide true (⟨M3.none, M3.none, M3.whitelist, M3.ignore, M3.none, M3.none, M3.none, M3.none, true⟩ : SourceVerdicts)
      = false := by decide

end RgVerif.Props.C05
