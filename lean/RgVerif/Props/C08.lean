import RgVerif.Lemmas.BufWriter
/-
C08 — multi-threaded output is a permutation of the single-threaded per-file blocks.
Model: `RgVerif.BufWriter` (termcolor `BufferWriter::print`, `write_search_prelude`, hiargs `threads` /
`file_separator`); contract: `RgVerif.BlockSpec`.
-/
namespace RgVerif.Props.C08
open RgVerif RgVerif.BufWriter RgVerif.BlockSpec

/-- **Multi-threaded**: whatever order `bufs` the workers obtained the stdout lock in, the output is the
non-empty buffers in that order with `separator ++ "\n"` exactly between neighbours (nothing before the
first, nothing after the last, nothing for a file without output). -/
theorem par_output (sep : Option Bytes) (bufs : List Bytes) :
    outPar sep bufs = joinSep (sepLine sep [10]) (nonempty bufs) := by
  unfold outPar
  rw [foldl_bwPrint]
  simp

/-- **Lock discipline**: for every interleaving of the workers' events (any number of workers, any
schedule), stdout is `outPar` of the buffers in the order of the `print` events, each being exactly what
its worker wrote since its last `clear()` — nothing of another file, nothing of another worker. -/
theorem sched_output (sep : Option Bytes) (evs : List Ev) :
    outSched sep evs = outPar sep (printed evs (fun _ => [])) := by
  have key : ∀ (evs : List Ev) (st : Par),
      (evs.foldl (parStep sep) st).bw = (printed evs st.bufs).foldl (bwPrint sep) st.bw := by
    intro evs
    induction evs with
    | nil => intro st; rfl
    | cons e rest ih =>
      intro st
      cases e with
      | search w blk => simp only [List.foldl_cons, printed]; exact ih _
      | print w => simp only [List.foldl_cons, printed]; exact ih _
  unfold outSched outPar
  rw [key]

/-- **Single-threaded**: the files in traversal order, `separator ++ line terminator` between neighbours. -/
theorem seq_output (sep : Option Bytes) (term : Bytes) (blks : List Bytes) :
    outSeq sep term blks = joinSep (sepLine sep term) (nonempty blks) := by
  unfold outSeq
  rw [foldl_seqPrint]
  simp

/-- `--files` with several threads: the path lines in the order the print thread received them. -/
theorem files_par_output (lines : List Bytes) : outFilesPar lines = joinSep [] lines := by
  induction lines with
  | nil => rfl
  | cons l rest ih =>
    cases rest with
    | nil => simp [outFilesPar, joinSep]
    | cons m rest' =>
      simp only [outFilesPar, List.flatten_cons, joinSep, List.append_nil] at ih ⊢
      rw [← ih]

/-- Full statement: for every lock order `π` of the same files, the multi-threaded output consists of a
permutation of the single-threaded blocks joined by the *same* separator line, and the inputs of the
exit status (`p` = "this file has a match") agree. -/
def C08_full : Prop :=
  ∀ (sep : Option Bytes) (term : Bytes) (order π : List Bytes) (p : Bytes → Bool), π.Perm order →
    ∃ bs, bs.Perm (nonempty order) ∧
      outPar sep π = joinSep (sepLine sep term) bs ∧
      outSeq sep term order = joinSep (sepLine sep term) (nonempty order) ∧
      π.any p = order.any p

/-- It fails on the current tree (finding F11): under `--crlf` the printer-owned separator is `--\r\n`,
termcolor's is `--\n`. -/
theorem C08_full_fails : ¬ C08_full := by
  intro h
  obtain ⟨bs, hp, h1, -, -⟩ := h (some [45, 45]) [13, 10] [[97, 13, 10], [98, 13, 10]] [[97, 13, 10], [98, 13, 10]]
    (fun _ => true) (List.Perm.refl _)
  have hlen := hp.length_eq
  have hn : nonempty [[97, 13, 10], [98, 13, 10]] = [[97, 13, 10], [98, 13, 10]] := by decide
  rw [hn] at hp hlen
  match bs, hlen with
  | [x, y], _ =>
    have hx : x ∈ [[97, 13, 10], [98, 13, 10]] := hp.mem_iff.mp (by simp)
    have hy : y ∈ [[97, 13, 10], [98, 13, 10]] := hp.mem_iff.mp (by simp)
    have hl : (outPar (some [45, 45]) [[97, 13, 10], [98, 13, 10]]).length = 9 := by decide
    rw [h1] at hl
    simp only [joinSep, sepLine, List.length_append, List.length_cons, List.length_nil] at hl
    simp only [List.mem_cons, List.not_mem_nil, or_false] at hx hy
    rcases hx with rfl | rfl <;> rcases hy with rfl | rfl <;> simp at hl

/-- **Proved part** (guard: no separator is configured, or the line terminator is `\n` — i.e. everything
except `--crlf` / `--null-data` combined with `--heading` or context): for **every** lock order `π`
(any permutation of the files), the multi-threaded output is a permutation of the single-threaded
per-file blocks — each block contiguous and byte-identical, none lost or duplicated, the separator line
exactly between blocks — and the exit status inputs agree. -/
theorem C08 (sep : Option Bytes) (term : Bytes) (hsep : sep = none ∨ term = [10])
    (order π : List Bytes) (p : Bytes → Bool) (hperm : π.Perm order) :
    ∃ bs, bs.Perm (nonempty order) ∧
      outPar sep π = joinSep (sepLine sep term) bs ∧
      outSeq sep term order = joinSep (sepLine sep term) (nonempty order) ∧
      π.any p = order.any p := by
  refine ⟨nonempty π, hperm.filter _, ?_, seq_output sep term order, hperm.any_eq⟩
  rw [par_output]
  rcases hsep with h | h
  · subst h; rfl
  · subst h; rfl

/-- Non-vacuity: three files, one without output, context separator `--`, a lock order different from
the traversal order. -/
example : (some [45, 45] = none ∨ ([10] : Bytes) = [10]) ∧
    [[99, 10], [], [97, 10]].Perm [[97, 10], [], [99, 10]] ∧
    outPar (some [45, 45]) [[99, 10], [], [97, 10]] = [99, 10, 45, 45, 10, 97, 10] ∧
    outSeq (some [45, 45]) [10] [[97, 10], [], [99, 10]] = [97, 10, 45, 45, 10, 99, 10] := by
  refine ⟨.inr rfl, by decide, by decide, by decide⟩

/-- `--sort`: one thread, hence the single-threaded driver, hence exactly the single-threaded output of
the sorted traversal — a function of the sorted file list alone (reproducible). -/
theorem C08_sort (oneFile : Bool) (low : Option Nat) (avail : Nat) (sep : Option Bytes) (term : Bytes)
    (sorted : List Bytes) :
    threads true oneFile low avail = 1 ∧
    runOut (threads true oneFile low avail) sep term sorted = outSeq sep term sorted := by
  constructor <;> simp [threads, runOut]

/-- The separator the two paths are configured with is the same value (`hiargs.rs::file_separator` feeds
both `BufferWriter::separator` and `StandardBuilder::separator_search`); only the byte appended differs. -/
theorem separator_lines_agree_iff (sep : Option Bytes) (term : Bytes) :
    sepLine sep [10] = sepLine sep term ↔ (sep = none ∨ term = [10]) := by
  cases sep with
  | none => simp [sepLine]
  | some s => simp [sepLine, eq_comm]

end RgVerif.Props.C08
