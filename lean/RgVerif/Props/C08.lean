import RgVerif.Lemmas.BufWriter
import RgVerif.Lemmas.BlockParse
/-
C08 — multi-threaded output is a permutation of the single-threaded per-file blocks.
Model: `RgVerif.BufWriter` (termcolor `BufferWriter::print`, `write_search_prelude`, hiargs `threads` /
`file_separator`); contract: `RgVerif.BlockSpec`.
-/
namespace RgVerif.Props.C08
open RgVerif RgVerif.BufWriter RgVerif.BlockSpec

/-- **Multi-threaded**: whatever order `bufs` the workers obtained the stdout lock in, the output is the
non-empty buffers in that order with `separator ++ "\n"` exactly between neighbours (nothing before the
first, nothing after the last, nothing for a file without output). -/
theorem par_output (sep : Option Bytes) (bufs : List Bytes) :
    outPar sep bufs = joinSep (sepLine sep [10]) (nonempty bufs) := by
  unfold outPar
  rw [foldl_bwPrint]
  simp

/-- **Lock discipline**: for every interleaving of the workers' events (any number of workers, any
schedule), stdout is `outPar` of the buffers in the order of the `print` events, each being exactly what
its worker wrote since its last `clear()` — nothing of another file, nothing of another worker. -/
theorem sched_output (sep : Option Bytes) (evs : List Ev) :
    outSched sep evs = outPar sep (printed evs (fun _ => [])) := by
  have key : ∀ (evs : List Ev) (st : Par),
      (evs.foldl (parStep sep) st).bw = (printed evs st.bufs).foldl (bwPrint sep) st.bw := by
    intro evs
    induction evs with
    | nil => intro st; rfl
    | cons e rest ih =>
      intro st
      cases e with
      | search w blk => simp only [List.foldl_cons, printed]; exact ih _
      | print w => simp only [List.foldl_cons, printed]; exact ih _
  unfold outSched outPar
  rw [key]

/-- **Single-threaded**: the files in traversal order, `separator ++ line terminator` between neighbours. -/
theorem seq_output (sep : Option Bytes) (term : Bytes) (blks : List Bytes) :
    outSeq sep term blks = joinSep (sepLine sep term) (nonempty blks) := by
  unfold outSeq
  rw [foldl_seqPrint]
  simp

/-- `--files` with several threads: the path lines in the order the print thread received them. -/
theorem files_par_output (lines : List Bytes) : outFilesPar lines = joinSep [] lines := by
  induction lines with
  | nil => rfl
  | cons l rest ih =>
    cases rest with
    | nil => simp [outFilesPar, joinSep]
    | cons m rest' =>
      simp only [outFilesPar, List.flatten_cons, joinSep, List.append_nil] at ih ⊢
      rw [← ih]

/-- Full statement: for every lock order `π` of the same files, the multi-threaded output consists of a
permutation of the single-threaded blocks joined by the *same* separator line, and the inputs of the
exit status (`p` = "this file has a match") agree. -/
def C08_full : Prop :=
  ∀ (sep : Option Bytes) (term : Bytes) (order π : List Bytes) (p : Bytes → Bool), π.Perm order →
    ∃ bs, bs.Perm (nonempty order) ∧
      outPar sep π = joinSep (sepLine sep term) bs ∧
      outSeq sep term order = joinSep (sepLine sep term) (nonempty order) ∧
      π.any p = order.any p

/-- It fails on the current tree (finding F11): under `--crlf` the printer-owned separator is `--\r\n`,
termcolor's is `--\n`. -/
theorem C08_full_fails : ¬ C08_full := by
  intro h
  obtain ⟨bs, hp, h1, -, -⟩ := h (some [45, 45]) [13, 10] [[97, 13, 10], [98, 13, 10]] [[97, 13, 10], [98, 13, 10]]
    (fun _ => true) (List.Perm.refl _)
  have hlen := hp.length_eq
  have hn : nonempty [[97, 13, 10], [98, 13, 10]] = [[97, 13, 10], [98, 13, 10]] := by decide
  rw [hn] at hp hlen
  match bs, hlen with
  | [x, y], _ =>
    have hx : x ∈ [[97, 13, 10], [98, 13, 10]] := hp.mem_iff.mp (by simp)
    have hy : y ∈ [[97, 13, 10], [98, 13, 10]] := hp.mem_iff.mp (by simp)
    have hl : (outPar (some [45, 45]) [[97, 13, 10], [98, 13, 10]]).length = 9 := by decide
    rw [h1] at hl
    simp only [joinSep, sepLine, List.length_append, List.length_cons, List.length_nil] at hl
    simp only [List.mem_cons, List.not_mem_nil, or_false] at hx hy
    rcases hx with rfl | rfl <;> rcases hy with rfl | rfl <;> simp at hl

/-- **Proved part** (guard: no separator is configured, or the line terminator is `\n` — i.e. everything
except `--crlf` / `--null-data` combined with `--heading` or context): for **every** lock order `π`
(any permutation of the files), the multi-threaded output is a permutation of the single-threaded
per-file blocks — each block contiguous and byte-identical, none lost or duplicated, the separator line
exactly between blocks — and the exit status inputs agree. -/
theorem C08 (sep : Option Bytes) (term : Bytes) (hsep : sep = none ∨ term = [10])
    (order π : List Bytes) (p : Bytes → Bool) (hperm : π.Perm order) :
    ∃ bs, bs.Perm (nonempty order) ∧
      outPar sep π = joinSep (sepLine sep term) bs ∧
      outSeq sep term order = joinSep (sepLine sep term) (nonempty order) ∧
      π.any p = order.any p := by
  refine ⟨nonempty π, hperm.filter _, ?_, seq_output sep term order, hperm.any_eq⟩
  rw [par_output]
  rcases hsep with h | h
  · subst h; rfl
  · subst h; rfl

/-- Non-vacuity: three files, one without output, context separator `--`, a lock order different from
the traversal order. -/
example : (some [45, 45] = none ∨ ([10] : Bytes) = [10]) ∧
    [[99, 10], [], [97, 10]].Perm [[97, 10], [], [99, 10]] ∧
    outPar (some [45, 45]) [[99, 10], [], [97, 10]] = [99, 10, 45, 45, 10, 97, 10] ∧
    outSeq (some [45, 45]) [10] [[97, 10], [], [99, 10]] = [97, 10, 45, 45, 10, 99, 10] := by
  refine ⟨.inr rfl, by decide, by decide, by decide⟩

/-! ### the "binary file matches" block -/

/-- A bare binary-file message is separated like every other block, also single-threaded (the revert of
302ce55, which left it unseparated, is a mutant): the output is the blocks joined by the separator line. -/
theorem C08_binary (sep : Option Bytes) (term : Bytes) (items : List (Bytes × Bool)) :
    outSeqB sep term items = joinSep (sepLine sep term) (nonempty (items.map (·.1))) := by
  have key : ∀ (st : Seq) (it : Bytes × Bool), seqPrintB sep term st it = seqPrint sep term st it.1 := by
    intro st it
    unfold seqPrintB seqPrint
    cases it.2 <;> simp
  have fold : ∀ (items : List (Bytes × Bool)) (st : Seq),
      items.foldl (seqPrintB sep term) st = (items.map (·.1)).foldl (seqPrint sep term) st := by
    intro items
    induction items with
    | nil => intro st; rfl
    | cons it rest ih => intro st; simp only [List.foldl_cons, List.map_cons, key]; exact ih _
  unfold outSeqB
  rw [fold]
  exact seq_output sep term _

/-! ### the `--stats` trailer -/

/-- **The trailer follows the blocks directly in both drivers**: separators appear only between blocks, never
between the last block and the statistics (since 78b4250; the multi-threaded driver used to hand the trailer
to the buffer writer like a block). -/
theorem C08_stats (sep : Option Bytes) (bufs : List Bytes) (trailer : Bytes) :
    outParStats sep bufs trailer = joinSep (sepLine sep [10]) (nonempty bufs) ++ trailer := by
  unfold outParStats
  rw [par_output]

/-- Single-threaded, likewise. -/
theorem seq_stats (sep : Option Bytes) (term : Bytes) (blks : List Bytes) (trailer : Bytes) :
    outSeqStats sep term blks trailer = joinSep (sepLine sep term) (nonempty blks) ++ trailer := by
  unfold outSeqStats
  rw [seq_output]

/-- Hence, where the separator lines agree (guard of `C08`), the two drivers' outputs with `--stats` differ only
in the order of the blocks. -/
theorem C08_stats_agree (sep : Option Bytes) (term : Bytes) (blks : List Bytes) (trailer : Bytes)
    (h : sepLine sep term = sepLine sep [10]) :
    outParStats sep blks trailer = outSeqStats sep term blks trailer := by
  rw [C08_stats, seq_stats, h]

/-- The old behaviour (the trailer as one more buffer) is not this: the revert of 78b4250 is told apart. -/
theorem stats_through_buffer_writer_differs :
    outPar (some [45, 45]) ([[97, 10]] ++ [[10, 49, 10]]) ≠ outParStats (some [45, 45]) [[97, 10]] [10, 49, 10] := by
  decide

/-! ### the block grammar parses uniquely -/

/-- **Parsing inverts joining**: for well-formed blocks (each starts and ends with a line of its file and
contains otherwise only lines of that file and context separators), consecutive blocks of different files,
and `k` separator lines in every gap, the harness's cutting procedure returns exactly those blocks, `k` for
every gap, and no stray separator before or after. -/
theorem parse_join (k : Nat) (blocks : List (Nat × List Line))
    (hwf : ∀ pb ∈ blocks, wfBlock pb.1 pb.2 = true) (hadj : adjDistinct blocks = true) :
    parse (joinLines k blocks) = (blocks, List.replicate (blocks.length - 1) k, 0, 0) := by
  match blocks, hwf, hadj with
  | [], _, _ => rfl
  | (p, b) :: rest, hwf, hadj =>
    have hwfp : wfBlock p b = true := hwf (p, b) List.mem_cons_self
    have hwfr : ∀ pb ∈ rest, wfBlock pb.1 pb.2 = true := fun x hx => hwf x (List.mem_cons_of_mem _ hx)
    unfold parse
    rw [joinLines_cons, List.foldl_append, fold_block p b hwfp {} (by intro q ls r h; cases h)]
    simp only
    rw [fold_rest k rest p b [] [] 0 hwfr hadj]
    simp

/-- Hence the cut is unique: two lists of well-formed blocks with the same output are the same list. -/
theorem block_grammar_unambiguous (k k' : Nat) (bs bs' : List (Nat × List Line))
    (hwf : ∀ pb ∈ bs, wfBlock pb.1 pb.2 = true) (hadj : adjDistinct bs = true)
    (hwf' : ∀ pb ∈ bs', wfBlock pb.1 pb.2 = true) (hadj' : adjDistinct bs' = true)
    (h : joinLines k bs = joinLines k' bs') : bs = bs' := by
  have h1 := parse_join k bs hwf hadj
  have h2 := parse_join k' bs' hwf' hadj'
  rw [h] at h1
  rw [h1] at h2
  exact (Prod.mk.inj h2).1

/-- **`--heading`**: blocks (path line + result lines) separated by `k ≥ 1` blank lines are recovered
exactly by the cutting procedure; no result line ends up outside a block. -/
theorem parse_join_heading (k : Nat) (hk : 0 < k) (blocks : List (Nat × List HLine))
    (hwf : ∀ pb ∈ blocks, wfHBlock pb.1 pb.2 = true) :
    parseH (joinHLines k blocks) = (blocks, List.replicate (blocks.length - 1) k, 0, 0, false) := by
  match blocks, hwf with
  | [], _ => rfl
  | (p, b) :: rest, hwf =>
    have hwfp : wfHBlock p b = true := hwf (p, b) List.mem_cons_self
    have hwfr : ∀ pb ∈ rest, wfHBlock pb.1 pb.2 = true := fun x hx => hwf x (List.mem_cons_of_mem _ hx)
    unfold parseH
    rw [joinHLines_cons, List.foldl_append, hfold_block p b hwfp {}]
    simp only
    rw [hfold_rest k hk rest p b [] [] 0 true hwfr]
    simp

theorem heading_grammar_unambiguous (k k' : Nat) (hk : 0 < k) (hk' : 0 < k') (bs bs' : List (Nat × List HLine))
    (hwf : ∀ pb ∈ bs, wfHBlock pb.1 pb.2 = true) (hwf' : ∀ pb ∈ bs', wfHBlock pb.1 pb.2 = true)
    (h : joinHLines k bs = joinHLines k' bs') : bs = bs' := by
  have h1 := parse_join_heading k hk bs hwf
  have h2 := parse_join_heading k' hk' bs' hwf'
  rw [h] at h1
  rw [h1] at h2
  exact (Prod.mk.inj h2).1

/-! ### files whose search fails part-way -/

/-- Whether or not a file's search ended in an error, what it had printed until then is a block like any
other in both drivers (the revert of 1ed0364, which dropped it under `-jN`, is a mutant). -/
theorem C08_failing (sep : Option Bytes) (term : Bytes) (items : List (Bytes × Bool)) :
    outParF sep items = joinSep (sepLine sep [10]) (nonempty (items.map (·.1))) ∧
    outSeqF sep term items = joinSep (sepLine sep term) (nonempty (items.map (·.1))) :=
  ⟨par_output sep _, seq_output sep term _⟩

/-- `--sort`: one thread, hence the single-threaded driver, hence exactly the single-threaded output of
the sorted traversal — a function of the sorted file list alone (reproducible). -/
theorem C08_sort (oneFile : Bool) (low : Option Nat) (avail : Nat) (sep : Option Bytes) (term : Bytes)
    (sorted : List Bytes) :
    threads true oneFile low avail = 1 ∧
    runOut (threads true oneFile low avail) sep term sorted = outSeq sep term sorted := by
  constructor <;> simp [threads, runOut]

/-- The separator the two paths are configured with is the same value (`hiargs.rs::file_separator` feeds
both `BufferWriter::separator` and `StandardBuilder::separator_search`); only the byte appended differs. -/
theorem separator_lines_agree_iff (sep : Option Bytes) (term : Bytes) :
    sepLine sep [10] = sepLine sep term ↔ (sep = none ∨ term = [10]) := by
  cases sep with
  | none => simp [sepLine]
  | some s => simp [sepLine, eq_comm]

end RgVerif.Props.C08
