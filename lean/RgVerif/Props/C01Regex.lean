import RgVerif.Props.C11
import RgVerif.Lemmas.HirC01Regex
import RgVerif.Lemmas.HirContext
import RgVerif.Lemmas.HirContextU
import RgVerif.Lemmas.HirContextCRLF
import RgVerif.Lemmas.HirOwnAnchors
import RgVerif.Lemmas.HirLift
/-
C01, regex part — what the matcher built by `RegexMatcherBuilder::build_many` (`Config.build`)
contributes to "a line is reported iff the pattern matches that line":

* clauses (a) and (c) of the `LineSafe` contract the fast line path needs (from C11);
* faithfulness: on a line without terminator bytes the compiled expression matches exactly what the
  user's expression (patterns + `-i`, `-S`, `-w`, `-x`, `-F`) matches — terminator stripping, the fixed-strings
  route and the inner-literal prefilter change nothing;
* clause (b), context independence: proved for the LF anchors and the ASCII word assertions;
  the full statement is false on the current tree, with the witnesses behind findings F2 and F24
  (and F1 for CRLF, where a match can lie between `\r` and `\n`).
-/
namespace RgVerif.Props.C01Regex
open RgVerif RgVerif.Rx RgVerif.Props.C11

/-! ### clauses (a) and (c) -/

/-- `LineSafe` (a): no match of the built matcher contains a byte of the configured terminator. -/
theorem C01_regex_no_terminator (lk : LookFn) (cfg : Config) (pats : List Bytes) (translated : Hir)
    (accelerated : Bool) (optimize : Seq → Seq) (norm : Hir → Hir) (shortest : Bytes → Option Nat) (m : MatcherM)
    (hb : cfg.build pats translated accelerated optimize norm = .ok m)
    (hnorm : ∀ h hay s e, Matches lk (norm h) hay s e → Matches lk h hay s e)
    (hopt : OptimizeCert optimize m.hir ((cfg.lineTerm.map LineTerm.bytes).getD []))
    (heng : EngineSpec lk m.hir shortest)
    (hay : Bytes) (s e : Nat) (hm : Matches lk m.hir hay s e) :
    ∀ t ∈ (cfg.lineTerm.map LineTerm.bytes).getD [], t ∉ slice hay s e :=
  (C11 lk cfg pats translated accelerated optimize norm shortest m hb hnorm _ rfl hopt heng hay s e hm).1

/-- `LineSafe` (c): the candidate search answers for every buffer that has a match, and no terminator
lies between the end of the match and the reported offset. -/
theorem C01_regex_candidate (lk : LookFn) (cfg : Config) (pats : List Bytes) (translated : Hir)
    (accelerated : Bool) (optimize : Seq → Seq) (norm : Hir → Hir) (shortest : Bytes → Option Nat) (m : MatcherM)
    (hb : cfg.build pats translated accelerated optimize norm = .ok m)
    (hnorm : ∀ h hay s e, Matches lk (norm h) hay s e → Matches lk h hay s e)
    (hopt : OptimizeCert optimize m.hir ((cfg.lineTerm.map LineTerm.bytes).getD []))
    (heng : EngineSpec lk m.hir shortest)
    (hay : Bytes) (s e : Nat) (hm : Matches lk m.hir hay s e) :
    ∃ c, m.findCandidateLine shortest hay = some c ∧
      ∀ t ∈ (cfg.lineTerm.map LineTerm.bytes).getD [], NoByteIn t hay e c.offset :=
  (C11 lk cfg pats translated accelerated optimize norm shortest m hb hnorm _ rfl hopt heng hay s e hm).2.2

/-! ### faithfulness on a line -/

/-- stripping keeps exactly the matches free of the terminator bytes (both bytes under CRLF) -/
theorem strip_lineterm_faithful (lk : LookFn) (h h' : Hir) (lt : LineTerm) (hay : Bytes) (s e : Nat)
    (hs : strip h lt = .ok h') :
    Matches lk h' hay s e ↔ (Matches lk h hay s e ∧ ∀ t ∈ lt.bytes, t ∉ slice hay s e) := by
  cases lt with
  | byte b =>
    rw [strip_faithful lk h h' b hay s e hs]
    simp [LineTerm.bytes]
  | crlf =>
    simp only [strip] at hs
    split at hs
    · rename_i h1 hs1
      rw [strip_faithful lk h1 h' 10 hay s e hs, strip_faithful lk h h1 13 hay s e hs1]
      simp only [LineTerm.bytes, List.mem_cons, List.not_mem_nil, or_false]
      constructor
      · rintro ⟨⟨hm, h13⟩, h10⟩
        exact ⟨hm, fun t ht => by rcases ht with rfl | rfl <;> assumption⟩
      · rintro ⟨hm, hall⟩
        exact ⟨⟨hm, hall 13 (Or.inl rfl)⟩, hall 10 (Or.inr rfl)⟩
    · cases hs

/-- the same with the smart-constructor pass between the two CRLF passes (`norm` preserves meaning) -/
theorem stripN_faithful (lk : LookFn) (norm : Hir → Hir)
    (hnorm : ∀ h hay s e, Matches lk (norm h) hay s e ↔ Matches lk h hay s e)
    (h h' : Hir) (lt : LineTerm) (hay : Bytes) (s e : Nat) (hs : stripN norm h lt = .ok h') :
    Matches lk h' hay s e ↔ (Matches lk h hay s e ∧ ∀ t ∈ lt.bytes, t ∉ slice hay s e) := by
  cases lt with
  | byte b =>
    simp only [stripN] at hs
    rw [strip_faithful lk h h' b hay s e hs]
    simp [LineTerm.bytes]
  | crlf =>
    simp only [stripN] at hs
    split at hs
    · rename_i h1 hs1
      rw [strip_faithful lk (norm h1) h' 10 hay s e hs, hnorm, strip_faithful lk h h1 13 hay s e hs1]
      simp only [LineTerm.bytes, List.mem_cons, List.not_mem_nil, or_false]
      constructor
      · rintro ⟨⟨hm, h13⟩, h10⟩
        exact ⟨hm, fun t ht => by rcases ht with rfl | rfl <;> assumption⟩
      · rintro ⟨hm, hall⟩
        exact ⟨⟨hm, hall 13 (Or.inl rfl)⟩, hall 10 (Or.inr rfl)⟩
    · cases hs

theorem matches_wrap_congr {lk : LookFn} (cfg : Config) {h1 h2 : Hir} {hay : Bytes}
    (hc : ∀ s e, Matches lk h1 hay s e ↔ Matches lk h2 hay s e) (s e : Nat) :
    Matches lk (cfg.wrap h1) hay s e ↔ Matches lk (cfg.wrap h2) hay s e := by
  unfold Config.wrap
  split
  · unfold Config.intoWholeLine
    rw [matches_look3_iff, matches_look3_iff, hc]
  · split
    · unfold Config.intoWord
      rw [matches_look3_iff, matches_look3_iff, hc]
    · exact hc s e

/-- **Faithfulness**: on a line `l` that contains no terminator byte, the expression the matcher is
compiled from matches exactly the spans the user's expression does (patterns joined, `-F`, `-w`, `-x`
applied; case folding is part of the translation).  Stripping the terminator from the pattern never
changes the outcome on a line. -/
theorem C01_regex_faithful (lk : LookFn) (cfg : Config) (pats : List Bytes) (translated : Hir)
    (accelerated : Bool) (optimize : Seq → Seq) (norm : Hir → Hir) (m : MatcherM)
    (hb : cfg.build pats translated accelerated optimize norm = .ok m)
    (hnorm : ∀ h hay s e, Matches lk (norm h) hay s e ↔ Matches lk h hay s e)
    (l : Bytes) (hl : ∀ t ∈ (cfg.lineTerm.map LineTerm.bytes).getD [], t ∉ l) (s e : Nat) :
    Matches lk m.hir l s e ↔ Matches lk (cfg.wrap (cfg.userHir pats translated)) l s e := by
  unfold Config.build at hb
  split at hb
  · cases hb
  · rename_i h0 hcfg
    simp only [Except.ok.injEq] at hb
    subst hb
    simp only
    rw [hnorm]
    apply matches_wrap_congr
    intro s e
    unfold Config.userHir
    unfold Config.configuredHir at hcfg
    split at hcfg
    · rename_i hfix
      cases hcfg
      rw [if_pos hfix]
    · rename_i hfix
      rw [if_neg hfix]
      split at hcfg
      · cases hcfg
      · unfold Config.stripped at hcfg
        split at hcfg
        · cases hcfg; exact Iff.rfl
        · rename_i lt hlt
          split at hcfg
          · rename_i h' hstr
            cases hcfg
            rw [stripN_faithful lk norm hnorm translated _ lt l s e hstr]
            constructor
            · exact fun h => h.1
            · intro hm
              refine ⟨hm, ?_⟩
              intro t ht hmem
              rw [hlt] at hl
              unfold slice at hmem
              exact hl t (by simpa using ht) (List.mem_of_mem_drop (List.mem_of_mem_take hmem))
          · cases hcfg

/-- `is_match` of the built matcher on such a line is "the user's expression matches somewhere in it". -/
theorem C01_regex_isMatch (lk : LookFn) (cfg : Config) (pats : List Bytes) (translated : Hir)
    (accelerated : Bool) (optimize : Seq → Seq) (norm : Hir → Hir) (shortest : Bytes → Option Nat) (m : MatcherM)
    (hb : cfg.build pats translated accelerated optimize norm = .ok m)
    (hnorm : ∀ h hay s e, Matches lk (norm h) hay s e ↔ Matches lk h hay s e)
    (heng : EngineSpec lk m.hir shortest)
    (l : Bytes) (hl : ∀ t ∈ (cfg.lineTerm.map LineTerm.bytes).getD [], t ∉ l) :
    (shortest l).isSome = true ↔ ∃ s e, Matches lk (cfg.wrap (cfg.userHir pats translated)) l s e := by
  constructor
  · intro h
    cases hsh : shortest l with
    | none => rw [hsh] at h; cases h
    | some i =>
      obtain ⟨s, hm, _⟩ := heng.some_ l i hsh
      exact ⟨s, i, (C01_regex_faithful lk cfg pats translated accelerated optimize norm m hb hnorm l hl s i).1 hm⟩
  · rintro ⟨s, e, hm⟩
    have hm' := (C01_regex_faithful lk cfg pats translated accelerated optimize norm m hb hnorm l hl s e).2 hm
    cases hsh : shortest l with
    | none => exact absurd hm' (heng.none_ l hsh s e)
    | some i => rfl

/-! ### clause (b): context independence -/

/-- Full statement of clause (b) at the level of a single assertion: on a line window of a buffer
(terminator `\n`) every look-around evaluates the same in the buffer and on the line alone. -/
def LookContextIndependent_full : Prop :=
  ∀ (isWord : Nat → Bool) (k : Look) (buf : Bytes) (ls le : Nat), IsLine 10 buf ls le →
    CtxLook (lookAt isWord) buf ls le k

/-- It fails (finding F2): the CRLF-aware `$` sees the `\n` that follows the line in the buffer but
the end of the haystack on the line alone — `(?R)\r$` on `a\r\n`. -/
theorem LookContextIndependent_full_fails : ¬ LookContextIndependent_full := by
  intro h
  have := h (fun _ => false) .EndCRLF [97, 13, 10] 0 2
    ⟨by decide, by decide, Or.inl rfl, Or.inr (by decide)⟩ 2 (by decide) (by decide)
  revert this
  decide

/-- It also fails for the Unicode "not a word boundary" assertion (finding F24): on `x\n\x80\n`, at
the end of line 2, `decode_last` walks back over the continuation byte onto the previous line's `\n`
in the buffer, but onto the start of the haystack on the line alone. -/
theorem LookContextIndependent_fails_unicode : ¬ (∀ (buf : Bytes) (ls le : Nat), IsLine 10 buf ls le →
    CtxLook (lookAt (fun _ => false)) buf ls le .WordUnicodeNegate) := by
  intro h
  have := h [120, 10, 128, 10] 2 3
    ⟨by decide, by decide, Or.inr (by decide), Or.inr (by decide)⟩ 3 (by decide) (by decide)
  revert this
  decide

/-- Under CRLF a match can lie between `\r` and `\n`, outside the line's content (finding F1):
the ASCII `\B` matches at offset 2 of `a\r\n`. -/
theorem crlf_match_between_cr_and_lf (isWord : Nat → Bool) :
    Matches (lookAt isWord) (.look .WordAsciiNegate) [97, 13, 10] 2 2 :=
  .look (by decide) (by rfl)

/-- **Proved part of clause (b)**: if every look-around of the expression is an LF line anchor or an
ASCII word assertion (`safeLookLF`, decidable on the HIR), then on every line window of every buffer
the expression matches a span of the buffer iff it matches that span of the line taken alone. -/
theorem LineSafeB_partial (isWord : Nat → Bool) (h : Hir) (hsafe : allLooks safeLookLF h = true)
    (buf : Bytes) (ls le : Nat) (hl : IsLine 10 buf ls le) (s e : Nat) (h1 : ls ≤ s) (hse : s ≤ e) (h2 : e ≤ le) :
    Matches (lookAt isWord) h buf s e ↔ Matches (lookAt isWord) h (slice buf ls le) (s - ls) (e - ls) :=
  matches_ctx_iff hl.ls_le hl.le_len (fun k hk => lookAt_ctx_lf isWord hl k hk) h hsafe h1 hse h2

/-- **Clause (b) including the Unicode word assertions** (ripgrep's default `-w` wraps the pattern
in `WordStartHalfUnicode … WordEndHalfUnicode`): on a line window whose first byte is not a UTF-8
continuation byte (`IsLineU`; every line of valid UTF-8 text qualifies, finding F24 is exactly the
excluded case), for any word table in which `\n` is not a word character. -/
theorem LineSafeB_partial_unicode (isWord : Nat → Bool) (hw : isWord 10 = false) (h : Hir)
    (hsafe : allLooks (fun k => safeLookLF k || safeLookU k) h = true)
    (buf : Bytes) (ls le : Nat) (hl : IsLineU buf ls le) (s e : Nat) (h1 : ls ≤ s) (hse : s ≤ e) (h2 : e ≤ le) :
    Matches (lookAt isWord) h buf s e ↔ Matches (lookAt isWord) h (slice buf ls le) (s - ls) (e - ls) :=
  matches_ctx_iff hl.ls_le hl.le_len
    (fun k hk => by
      rcases Bool.or_eq_true_iff.1 hk with hk | hk
      · exact lookAt_ctx_lf isWord hl.toIsLine k hk
      · exact lookAt_ctx_unicode isWord hw hl k hk)
    h hsafe h1 hse h2

/-! ### clause (b) under `--crlf` -/

/-- **Clause (b) for CRLF mode**: on the *content* of a line (`IsLineCRLF`: the text before `\n` minus
a `\r` directly before it, as `lines::without_terminator` cuts it), an expression whose looks are the
CRLF-aware anchors, ASCII word assertions or Unicode word assertions matches a span of the buffer inside
the content iff it matches that span of the content taken alone.  (Guard for the Unicode assertions as
in the LF case; `\n` and `\r` are not word characters.) -/
theorem LineSafeB_partial_crlf (isWord : Nat → Bool) (hw10 : isWord 10 = false) (hw13 : isWord 13 = false)
    (h : Hir) (hsafe : allLooks (fun k => safeLookCRLF k || safeLookU k) h = true)
    (buf : Bytes) (ls le : Nat) (hl : IsLineCRLF buf ls le)
    (hg : ls = le ∨ isContByte (buf.getD ls 0) = false)
    (s e : Nat) (h1 : ls ≤ s) (hse : s ≤ e) (h2 : e ≤ le) :
    Matches (lookAt isWord) h buf s e ↔ Matches (lookAt isWord) h (slice buf ls le) (s - ls) (e - ls) :=
  matches_ctx_iff hl.ls_le hl.le_len
    (fun k hk => by
      rcases Bool.or_eq_true_iff.1 hk with hk | hk
      · exact lookAt_ctx_crlf isWord hl k hk
      · exact lookAt_ctx_crlf_unicode isWord hw10 hw13 hl hg k hk)
    h hsafe h1 hse h2

/-- What the fast path additionally needs under CRLF, stated in full: a match that starts inside a
line (anywhere before its `\n`) lies inside the line's content. -/
def CrlfMatchInsideContent_full : Prop :=
  ∀ (isWord : Nat → Bool) (h : Hir), allLooks (fun k => safeLookCRLF k || safeLookU k) h = true →
    noByte 13 h = true → noByte 10 h = true →
    ∀ (buf : Bytes) (ls le : Nat), IsLineCRLF buf ls le →
    ∀ s e, ls ≤ s → s ≤ le + 1 → Matches (lookAt isWord) h buf s e → e ≤ le

/-- It fails (finding F1): `(?-u:\B)` under `--crlf` has an empty match between the `\r` and the `\n`
of `a\r\n` — inside the line, outside its content `a`; the fast path reports the line. -/
theorem CrlfMatchInsideContent_full_fails : ¬ CrlfMatchInsideContent_full := by
  intro hfull
  have hl : IsLineCRLF [97, 13, 10] 0 1 :=
    ⟨by decide, by decide, Or.inl rfl, Or.inr (Or.inr ⟨by decide, by decide⟩),
      by intro i h1 h2; have : i = 0 := by omega
         subst this; decide⟩
  have := hfull (fun _ => false) (.look .WordAsciiNegate) (by rfl) (by rfl) (by rfl) [97, 13, 10] 0 1 hl 2 2
    (by decide) (by decide) (crlf_match_between_cr_and_lf _)
  omega

/-! ### patterns whose buffer matches are still taken as confirmed (`verify_on_line = false`, /repo 4165f41) -/

/-- **Clause (b) with no guard at all** for exactly the patterns for which `find_candidate_line` still answers
`Confirmed`: if `verify_on_line` is off (every look is `(?m)^` / `(?m)$`) and `crlf` is off, the expression matches
a span inside any line window of any buffer iff it matches that span of the line taken alone.  For every other
pattern the matcher now answers `Candidate` and the searcher judges the line itself. -/
theorem LineSafeB_own_anchors (isWord : Nat → Bool) (cfg : Config) (hcrlf : cfg.crlf = false) (h : Hir)
    (hv : cfg.verifyOnLine h = false)
    (buf : Bytes) (ls le : Nat) (hl : IsLine 10 buf ls le) (s e : Nat) (h1 : ls ≤ s) (hse : s ≤ e) (h2 : e ≤ le) :
    Matches (lookAt isWord) h buf s e ↔ Matches (lookAt isWord) h (slice buf ls le) (s - ls) (e - ls) := by
  have hown := allLooks_own_of_not_verify cfg h hv
  have hsafe : allLooks safeLookLF h = true :=
    allLooks_mono (by intro k hk; cases k <;> simp_all [Config.isOwnAnchor, safeLookLF]) h hown
  exact LineSafeB_partial isWord h hsafe buf ls le hl s e h1 hse h2

/-- the same under `--crlf` on the content of a line (`IsLineCRLF`), again without any guard -/
theorem LineSafeB_own_anchors_crlf (isWord : Nat → Bool) (cfg : Config) (hcrlf : cfg.crlf = true) (h : Hir)
    (hv : cfg.verifyOnLine h = false)
    (buf : Bytes) (ls le : Nat) (hl : IsLineCRLF buf ls le) (s e : Nat) (h1 : ls ≤ s) (hse : s ≤ e) (h2 : e ≤ le) :
    Matches (lookAt isWord) h buf s e ↔ Matches (lookAt isWord) h (slice buf ls le) (s - ls) (e - ls) := by
  have hown := allLooks_own_of_not_verify cfg h hv
  have hsafe : allLooks safeLookCRLF h = true :=
    allLooks_mono (by intro k hk; cases k <;> simp_all [Config.isOwnAnchor, safeLookCRLF]) h hown
  exact matches_ctx_iff hl.ls_le hl.le_len (fun k hk => lookAt_ctx_crlf isWord hl k hk) h hsafe h1 hse h2

/-- the two shapes of `find_candidate_line` after /repo 4165f41 -/
theorem findCandidateLine_shapes (m : MatcherM) (shortest : Bytes → Option Nat) (hay : Bytes) :
    (m.verifyOnLine = false → m.findCandidateLine shortest hay =
      (match m.fastLits with
       | some L => (fastFind L hay).map .candidate
       | none => (shortest hay).map .confirmed)) ∧
    (m.verifyOnLine = true → m.fastLits = none → m.findCandidateLine shortest hay = (shortest hay).map .candidate) :=
  ⟨findCandidateLine_of_not_verify m shortest hay, findCandidateLine_verify m shortest hay⟩

/-- A `Confirmed` answer is only given without `verify_on_line`, i.e. for own-anchor-only expressions. -/
theorem confirmed_only_own_anchors (cfg : Config) (pats : List Bytes) (translated : Hir) (accelerated : Bool)
    (optimize : Seq → Seq) (norm : Hir → Hir) (m : MatcherM)
    (hb : cfg.build pats translated accelerated optimize norm = .ok m)
    (shortest : Bytes → Option Nat) (hay : Bytes) (i : Nat)
    (hc : m.findCandidateLine shortest hay = some (.confirmed i)) :
    allLooks cfg.isOwnAnchor m.hir = true := by
  apply allLooks_own_of_not_verify
  rw [← build_verifyOnLine hb]
  cases hv : m.verifyOnLine with
  | false => rfl
  | true =>
    unfold MatcherM.findCandidateLine at hc
    rw [hv] at hc
    cases hf : m.fastLits with
    | some L => rw [hf] at hc; cases hff : fastFind L hay <;> simp [hff] at hc
    | none => rw [hf] at hc; cases hs : shortest hay <;> simp [hs] at hc

/-! ### lifting, with no guard: what the re-judging searcher needs for every other pattern -/

/-- **One direction of clause (b), unconditionally**: for an expression whose looks are LF anchors, ASCII word
assertions or Unicode word assertions — every look that can still reach the fast path under an LF terminator —
a match of a line taken alone is a match in the buffer, on EVERY line window (no continuation-byte guard: in
the F24 zone the assertions that differ are false on the line alone), for any word table with `\n` not a word
character. -/
theorem LineSafeB_lift (isWord : Nat → Bool) (hw : isWord 10 = false) (h : Hir)
    (hsafe : allLooks (fun k => safeLookLF k || safeLookU k) h = true)
    (buf : Bytes) (ls le : Nat) (hl : IsLine 10 buf ls le) (s e : Nat) (h1 : ls ≤ s) (hse : s ≤ e)
    (hm : Matches (lookAt isWord) h (slice buf ls le) (s - ls) (e - ls)) : Matches (lookAt isWord) h buf s e :=
  matches_lift hl.ls_le hl.le_len
    (fun k hk => by
      rcases Bool.or_eq_true_iff.1 hk with hk | hk
      · exact (lookAt_ctx_lf isWord hl k hk).lift
      · exact lookAt_lift_unicode isWord hw (fol := (· == 10))
          (by intro r hr; have : r = 10 := by simpa using hr
              subst this; exact ⟨by decide, hw⟩)
          hl.toWin k hk)
    h hsafe h1 hse hm

/-- the matcher still advertises a line terminator (so the fast path can be taken) and `crlf` is off only if
all looks are of those fourteen kinds -/
theorem fast_path_looks (cfg : Config) (hcrlf : cfg.crlf = false) (h : Hir)
    (hlt : cfg.lineTerminatorOf h ≠ none) : allLooks (fun k => safeLookLF k || safeLookU k) h = true := by
  unfold Config.lineTerminatorOf at hlt
  split at hlt
  · exact absurd rfl hlt
  · rename_i hc
    rw [hcrlf] at hc
    simp only [Bool.not_false, Bool.and_true, Bool.or_eq_true, not_or, Bool.not_eq_true] at hc
    have h1 := allLooks_of_not_anyLook Look.isHaystackAnchor h hc.1
    have h2 := allLooks_of_not_anyLook Look.isCrlfAnchor h hc.2
    exact allLooks_and_mono (by intro k ha hb; cases k <;> simp_all [Look.isHaystackAnchor, Look.isCrlfAnchor, safeLookLF, safeLookU]) h h1 h2

/-- Non-vacuity: `^a\b.$` (multi-line, ASCII word boundary) satisfies the guard, and the second line
of `x\nab\n` is a line window. -/
example : allLooks safeLookLF (.concat (.cons (.look .StartLF) (.cons (.lit [97]) (.cons (.look .WordAscii)
    (.cons (.classB [(0, 9), (11, 255)]) (.cons (.look .EndLF) .nil)))))) = true ∧
    IsLine 10 [120, 10, 97, 98, 10] 2 4 :=
  ⟨by rfl, by decide, by decide, Or.inr (by decide), Or.inr (by decide)⟩

end RgVerif.Props.C01Regex
