import RgVerif.Props.C03
import RgVerif.Props.C02
/-
C03 for the READER strategy (`Searcher::search_reader`: BOM peek, roll buffer, `ReadByLine`): the grep model
also describes what an incremental search of a stream delivers -- whatever the fragmentation of the
input and the capacity of the buffer.  Composition of the C02 simulation (reader = slice, every sink
script) with `C03_slow` / `C03_linesafe`.  Before this file the reader and path strategies were compared
with the grep model differentially only (checks/C03.json).
-/
namespace RgVerif.Props.C03
open RgVerif RgVerif.Matcher RgVerif.Lines RgVerif.Searcher RgVerif.GrepSpec RgVerif.LineBuffer

/-- **C03 for `search_reader`, slow path**: for every configuration (A, B, inversion, passthru, line
numbers, stop-on-nonmatch, terminator), matcher, input, EVERY read script (fragmentation, `Interrupted`
reads) and initial capacity, the sink of an uninterrupted `search_reader` sees exactly the grep model
of the bytes the reader yields, and the search returns `Ok`. -/
theorem C03_reader_slow (cfg : Searcher.Config) (m : MatcherI) (inp : Bytes) (script : List Step)
    (cap : Option Nat) (hbin : cfg.binary = .none) (hml : cfg.multiLine = false)
    (hslow : isLineByLineFast cfg m (Core.new cfg true) = false) (hz : NoZero script) :
    (searchReader cfg m allCont none cap ⟨inp, script, 0⟩).events = grepSpec cfg (lineSel cfg m) inp ∧
      (searchReader cfg m allCont none cap ⟨inp, script, 0⟩).result = .ok () := by
  have hmm : multiLineWithMatcher cfg m = false := by simp [multiLineWithMatcher, hml]
  have key : (searchReader cfg m allCont none cap ⟨inp, script, 0⟩).events = (sliceByLine cfg m allCont inp).events ∧
      (searchReader cfg m allCont none cap ⟨inp, script, 0⟩).result = (sliceByLine cfg m allCont inp).result := by
    unfold searchReader
    simp only [hmm, Bool.false_eq_true, if_false]
    exact C02.C02 cfg m allCont hbin hslow (lineBufferConfig cfg none cap) rfl
      (by simp [lineBufferConfig, hbin, BinaryDetection.toLB]) (by simp [lineBufferConfig])
      (⟨inp, script, 0⟩ : Reader).withBomPeek (withBomPeek_noZero _ hz)
  rw [key.1, key.2]
  exact C03_slow cfg m inp hbin hslow

/-- **C03 for `search_reader`, line-safe matcher** (fast or slow path): if the matcher meets the
contract `LineSafe` on every window of the input (what C01/C11 establish for the regex matcher; the
whole input is the window `0, |inp|`), the uninterrupted `search_reader` delivers the grep model. -/
theorem C03_reader_linesafe (cfg : Searcher.Config) (m : MatcherI) (inp : Bytes) (script : List Step)
    (cap : Option Nat) (hbin : cfg.binary = .none) (hml : cfg.multiLine = false)
    (hsafe : ∀ a n, Searcher.LineSafe cfg m (window inp a n) (linesOf cfg m (window inp a n)))
    (hz : NoZero script) :
    (searchReader cfg m allCont none cap ⟨inp, script, 0⟩).events = grepSpec cfg (lineSel cfg m) inp ∧
      (searchReader cfg m allCont none cap ⟨inp, script, 0⟩).result = .ok () := by
  have hmm : multiLineWithMatcher cfg m = false := by simp [multiLineWithMatcher, hml]
  have key : (searchReader cfg m allCont none cap ⟨inp, script, 0⟩).events = (sliceByLine cfg m allCont inp).events ∧
      (searchReader cfg m allCont none cap ⟨inp, script, 0⟩).result = (sliceByLine cfg m allCont inp).result := by
    unfold searchReader
    simp only [hmm, Bool.false_eq_true, if_false]
    exact C02.C02_fast cfg m allCont hbin (lineBufferConfig cfg none cap) rfl
      (by simp [lineBufferConfig, hbin, BinaryDetection.toLB]) (by simp [lineBufferConfig])
      (⟨inp, script, 0⟩ : Reader).withBomPeek hsafe (by intro i; simp [allCont]) (withBomPeek_noZero _ hz)
  rw [key.1, key.2]
  have hw : window inp 0 inp.length = inp := by simp [window]
  have h0 := hsafe 0 inp.length
  rw [hw] at h0
  exact C03_linesafe cfg m inp hbin h0

/-- the corollaries of C03 (`delivered_sorted_nodup`, `numbers_true`, `bytecount_full`) for the reader:
its log equals the slice strategy's, so `Agrees` transfers. -/
theorem C03_reader_bytecount_full (cfg : Searcher.Config) (m : MatcherI) (inp : Bytes) (script : List Step)
    (cap : Option Nat) (hbin : cfg.binary = .none) (hml : cfg.multiLine = false)
    (hslow : isLineByLineFast cfg m (Core.new cfg true) = false) (hz : NoZero script)
    (hs : cfg.stopOnNonmatch = false) :
    (searchReader cfg m allCont none cap ⟨inp, script, 0⟩).events.getLast? = some (Event.finish inp.length none) := by
  rw [(C03_reader_slow cfg m inp script cap hbin hml hslow hz).1]
  exact spec_bytecount_full cfg _ inp hs

/-! Non-vacuity: the hypotheses hold for the C03 example (context 1/1, six lines, "line contains x") read
one or two bytes at a time with an interrupted read into a 3-byte buffer. -/
example : cfg11.binary = .none ∧ cfg11.multiLine = false ∧ isLineByLineFast cfg11 mX (Core.new cfg11 true) = false :=
  ⟨rfl, rfl, by decide⟩
example : (searchReader cfg11 mX allCont none (some 3) ⟨inp6, [Step.ret 1, Step.intr, Step.ret 2, Step.ret 1], 0⟩).events =
    grepSpec cfg11 (lineSel cfg11 mX) inp6 := by decide

end RgVerif.Props.C03
